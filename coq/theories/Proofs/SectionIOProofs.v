(** Proofs for the widening of C18: AtToReader refines the stream reader; a file
    is untouched outside the section whatever the call sequence and the faults;
    what AtToWriter streams into a file, AtToReader streams back. *)
From Coq Require Import ZArith List Bool Lia.
From Low Require Import Lib.MachInt Lib.BitSeq Model.SectionWriter Spec.SectionWriterSpec
  Model.MemFile Model.SectionReader Spec.SectionReaderSpec Run.C18
  Proofs.SectionWriterProofs Proofs.SectionWriterCalls Proofs.MemFileProofs.
Import ListNotations.
Open Scope Z_scope.

(** * AtToReader *)

Lemma AtToReader_state o : 0 <= o <= 2^63 - 1 -> AtToReader o = mkSR o o (2^63 - 1).
Proof.
  intros Ho. unfold AtToReader, NewSectionReader, maxOffset.
  rewrite (i64_id (2^63 - 1 - o)) by lia.
  replace (2^63 - 1 - (2^63 - 1 - o)) with o by lia. rewrite (i64_id o) by lia.
  rewrite Z.leb_refl. replace (2^63 - 1 - o + o) with (2^63 - 1) by lia.
  now rewrite i64_id by lia.
Qed.

Lemma read_at_fread f sc len a : read_at f sc len a = fread f sc len a.
Proof. reflexivity. Qed.

(** the file never delivers more than it is asked for *)
Lemma read_at_count f sc len a : 0 <= len -> 0 <= zlen (fst (fst (read_at f sc len a))) <= len.
Proof.
  intros Hlen. unfold read_at.
  set (got := if a <? zlen f then firstn (Z.to_nat len) (skipn (Z.to_nat a) f) else []).
  assert (Hgot : 0 <= zlen got <= len).
  { subst got. destruct (a <? zlen f).
    - unfold zlen. rewrite firstn_length. lia.
    - unfold zlen. cbn [length]. lia. }
  destruct sc as [|[k e] t]; cbn [fst]; [exact Hgot|].
  unfold zlen in *. rewrite firstn_length. lia.
Qed.

Definition robs (r : rout) : arout := (rcount r, rerr r, rbytes r, rcalls r).

(** the concrete reader state [s] represents position [pos] of the stream from o *)
Definition RR (o : Z) (s : sr) (pos : Z) : Prop :=
  rbase s = o /\ rlimit s = 2^63 - 1 /\ roff s = o + pos /\ 0 <= pos /\ o + pos <= 2^63 - 1.

Lemma read_refines o s pos f sc len :
  0 <= o -> RR o s pos -> 0 <= len < 2^63 ->
  let '(s', sc', r) := Read s f sc len in
  let '(pos', asc', ar) := sread o f pos sc len in
  RR o s' pos' /\ sc' = asc' /\ robs r = ar.
Proof.
  intros Ho (Hb & Hl & Hoff & Hp & Hpm) Hlen.
  unfold Read, sread, max_int64. rewrite Hl, Hoff.
  destruct (Z.geb_spec (o + pos) (2^63 - 1)) as [Hge|Hlt].
  - unfold RR, robs. cbn. repeat split; auto.
  - rewrite (i64_id (2^63 - 1 - (o + pos))) by lia.
    assert (Hm : (if len >? 2^63 - 1 - (o + pos) then 2^63 - 1 - (o + pos) else len)
                 = Z.min len (2^63 - 1 - (o + pos))).
    { destruct (Z.gtb_spec len (2^63 - 1 - (o + pos))); lia. }
    rewrite Hm. set (m := Z.min len (2^63 - 1 - (o + pos))).
    change (fread f sc m (o + pos)) with (read_at f sc m (o + pos)).
    pose proof (read_at_count f sc m (o + pos) ltac:(lia)) as Hc.
    destruct (read_at f sc m (o + pos)) as [[bs e] sc'] eqn:HR. cbn [fst] in Hc.
    unfold RR, robs. cbn [rbase roff rlimit rcount rerr rbytes rcalls].
    rewrite (i64_id (o + pos + zlen bs)) by lia.
    repeat split; auto; lia.
Qed.

Lemma rrun_refines_from o f : 0 <= o ->
  forall lens s pos sc, RR o s pos -> Forall (fun l => 0 <= l < 2^63) lens ->
  map robs (rrun s f sc lens) = srun o f pos sc lens.
Proof.
  intros Ho. induction lens as [|l lens IH]; intros s pos sc HR Hl; [reflexivity|].
  inversion Hl as [|? ? Hl0 Hl']; subst. cbn [rrun srun].
  pose proof (read_refines o s pos f sc l Ho HR Hl0) as Hstep.
  destruct (Read s f sc l) as [[s' sc'] r].
  destruct (sread o f pos sc l) as [[pos' asc'] ar].
  destruct Hstep as (HR' & -> & Hr). cbn [map]. rewrite Hr. f_equal. now apply IH.
Qed.

Theorem at_to_reader_refines o f sc lens :
  0 <= o <= 2^63 - 1 -> Forall (fun l => 0 <= l < 2^63) lens ->
  map robs (rrun (AtToReader o) f sc lens) = spec_at_to_reader o f sc lens.
Proof.
  intros Ho Hl. rewrite AtToReader_state by lia. unfold spec_at_to_reader.
  apply rrun_refines_from; auto; [lia|].
  unfold RR. cbn [rbase roff rlimit]. lia.
Qed.

(** * reading a file as a stream (a file that does not fail) *)

Fixpoint zsum (l : list Z) : Z := match l with [] => 0 | x :: t => x + zsum t end.

Lemma zsum_nonneg l : Forall (fun x => 0 <= x) l -> 0 <= zsum l.
Proof. induction 1; cbn [zsum]; lia. Qed.

Definition abytes (r : arout) : list Z := let '(_, _, bs, _) := r in bs.

(** what one Read of a sound file delivers *)
Lemma sread_sound o f pos len :
  0 <= o -> 0 <= pos -> 0 <= len -> zlen f <= 2^63 - 1 ->
  let bs := firstn (Z.to_nat len) (skipn (Z.to_nat (o + pos)) f) in
  sread o f pos [] len =
  (pos + zlen bs, [],
   if o + pos >=? max_int64 then (0, A_eof, [], [])
   else (zlen bs, (if zlen bs <? Z.min len (max_int64 - (o + pos)) then A_eof else A_nil), bs,
         [(o + pos, Z.min len (max_int64 - (o + pos)))])).
Proof.
  intros Ho Hp Hlen Hf. cbv zeta. unfold sread, max_int64.
  destruct (Z.geb_spec (o + pos) (2^63 - 1)) as [Hge|Hlt].
  - rewrite skipn_all2 by (unfold zlen in Hf; lia). rewrite firstn_nil.
    unfold zlen. cbn [length Z.of_nat]. now rewrite Z.add_0_r.
  - unfold fread.
    assert (Hgot : (if o + pos <? zlen f
                    then firstn (Z.to_nat (Z.min len (2^63 - 1 - (o + pos)))) (skipn (Z.to_nat (o + pos)) f)
                    else []) = firstn (Z.to_nat len) (skipn (Z.to_nat (o + pos)) f)).
    { destruct (Z.ltb_spec (o + pos) (zlen f)) as [Hin|Hout].
      - destruct (Z.le_ge_cases len (2^63 - 1 - (o + pos))); [now rewrite Z.min_l by lia|].
        rewrite Z.min_r by lia.
        rewrite !firstn_all2; auto; rewrite skipn_length; unfold zlen in *; lia.
      - rewrite skipn_all2 by (unfold zlen in Hout; lia). now rewrite firstn_nil. }
    rewrite Hgot. reflexivity.
Qed.

Lemma srun_stream o f : 0 <= o -> zlen f <= 2^63 - 1 ->
  forall lens pos, 0 <= pos -> Forall (fun l => 0 <= l) lens ->
  concat (map abytes (srun o f pos [] lens)) =
  firstn (Z.to_nat (zsum lens)) (skipn (Z.to_nat (o + pos)) f).
Proof.
  intros Ho Hf. induction lens as [|l lens IH]; intros pos Hp Hl; [reflexivity|].
  inversion Hl as [|? ? Hl0 Hl']; subst. cbn [srun zsum].
  rewrite (sread_sound o f pos l Ho Hp Hl0 Hf).
  set (bs := firstn (Z.to_nat l) (skipn (Z.to_nat (o + pos)) f)).
  cbv beta iota zeta. cbn [map concat].
  assert (Htail : bs ++ concat (map abytes (srun o f (pos + zlen bs) [] lens)) =
                  firstn (Z.to_nat (l + zsum lens)) (skipn (Z.to_nat (o + pos)) f)).
  { rewrite IH by (auto; pose proof (zlen_nonneg bs); lia).
    pose proof (zsum_nonneg lens Hl') as Hs.
    rewrite (Z2Nat.inj_add l (zsum lens)) by lia. rewrite firstn_add_split. f_equal.
    f_equal. unfold zlen. replace (o + (pos + Z.of_nat (length bs))) with (o + pos + Z.of_nat (length bs)) by lia.
    rewrite (Z2Nat.inj_add (o + pos)) by lia. rewrite Nat2Z.id. rewrite <- skipn_skipn_add.
    subst bs. now rewrite skipn_length_firstn. }
  destruct (Z.geb_spec (o + pos) max_int64) as [Hge|Hlt]; cbn [abytes]; [|exact Htail].
  rewrite <- Htail. f_equal. subst bs. unfold max_int64 in Hge.
  rewrite skipn_all2 by (unfold zlen in Hf; lia). now rewrite firstn_nil.
Qed.

(** through AtToReader(f, o), any sequence of Reads delivers, in order, the bytes
    of the file from offset o on: as many as were asked for, or all there are *)
Theorem at_to_reader_streams o f lens :
  0 <= o <= 2^63 - 1 -> zlen f <= 2^63 - 1 -> Forall (fun l => 0 <= l < 2^63) lens ->
  concat (map rbytes (rrun (AtToReader o) f [] lens)) =
  firstn (Z.to_nat (zsum lens)) (skipn (Z.to_nat o) f).
Proof.
  intros Ho Hf Hl.
  assert (Hmap : map rbytes (rrun (AtToReader o) f [] lens) = map abytes (map robs (rrun (AtToReader o) f [] lens))).
  { rewrite map_map. apply map_ext. intros r. reflexivity. }
  rewrite Hmap, (at_to_reader_refines o f [] lens Ho Hl). unfold spec_at_to_reader.
  replace (skipn (Z.to_nat o) f) with (skipn (Z.to_nat (o + 0)) f) by (now rewrite Z.add_0_r).
  apply (srun_stream o f ltac:(lia) Hf lens 0 ltac:(lia)).
  eapply Forall_impl; [|exact Hl]. cbv beta. intros; lia.
Qed.

(** each Read returns the number of bytes it delivered *)
Lemma Read_count s f sc len : rcount (snd (Read s f sc len)) = zlen (rbytes (snd (Read s f sc len))).
Proof.
  unfold Read. destruct (roff s >=? rlimit s); [reflexivity|].
  destruct (read_at f sc _ (roff s)) as [[bs e] sc']. reflexivity.
Qed.

(** * the file after a call sequence *)

Lemma file_after_spec init outs : file_after init outs = spec_file_after init (map obs outs).
Proof.
  revert init. induction outs as [|r outs IH]; intros init; [reflexivity|].
  cbn [file_after spec_file_after fold_left map]. fold (file_after (apply_out init r) outs).
  rewrite IH. reflexivity.
Qed.

(** the calls of [r] that reach the file all lie inside [lo, hi) *)
Definition out_within (lo hi : Z) (r : out) : Prop :=
  Forall (fun u => lo <= fst u /\ fst u + zlen (snd u) <= hi) (ucalls r).

Lemma zlen_firstn_le {A} (l : list A) k : zlen (firstn k l) <= zlen l.
Proof. unfold zlen. rewrite firstn_length. lia. Qed.

Lemma apply_out_outside lo hi r : 0 <= lo -> out_within lo hi r ->
  forall f i, 0 <= i -> (i < lo \/ hi <= i) -> byte_at (apply_out f r) i = byte_at f i.
Proof.
  intros Hlo Hw. unfold apply_out, out_within in *.
  induction Hw as [|u us (Hu1 & Hu2) _ IH]; intros f i Hi Hout; [reflexivity|].
  cbn [fold_left]. rewrite IH by auto. unfold apply_ucall.
  apply byte_at_write_at_outside; try lia.
  pose proof (zlen_firstn_le (snd u) (Z.to_nat (nth 0 (rets r) 0))). lia.
Qed.

Lemma apply_out_length lo hi r : 0 <= lo -> out_within lo hi r ->
  forall f, zlen f <= zlen (apply_out f r) <= Z.max (zlen f) hi.
Proof.
  intros Hlo Hw. unfold apply_out, out_within in *.
  induction Hw as [|u us (Hu1 & Hu2) _ IH]; intros f; cbn [fold_left]; [lia|].
  specialize (IH (apply_ucall (nth 0 (rets r) 0) f u)).
  unfold apply_ucall in *.
  pose proof (zlen_write_at_bounds f (fst u) (firstn (Z.to_nat (nth 0 (rets r) 0)) (snd u)) ltac:(lia)).
  pose proof (zlen_firstn_le (snd u) (Z.to_nat (nth 0 (rets r) 0))). lia.
Qed.

Lemma file_after_outside lo hi outs : 0 <= lo -> Forall (out_within lo hi) outs ->
  forall init,
  (forall i, 0 <= i -> (i < lo \/ hi <= i) -> byte_at (file_after init outs) i = byte_at init i) /\
  zlen init <= zlen (file_after init outs) <= Z.max (zlen init) hi.
Proof.
  intros Hlo Hw. induction Hw as [|r outs Hr _ IH]; intros init.
  - cbn [file_after fold_left]. split; [reflexivity|lia].
  - cbn [file_after fold_left]. fold (file_after (apply_out init r) outs).
    destruct (IH (apply_out init r)) as [IHb IHl].
    pose proof (apply_out_length lo hi r Hlo Hr init). split.
    + intros i Hi Hout. rewrite IHb by auto. now apply (apply_out_outside lo hi).
    + lia.
Qed.

Lemma contained_within o n cs outs :
  Forall2 (contained_m o n) cs outs -> Forall (out_within o (o + n)) outs.
Proof.
  induction 1 as [|c r cs outs Hc _ IH]; constructor; [|exact IH].
  unfold contained_m, contained, obs in Hc. cbn [snd] in Hc.
  unfold out_within. apply Forall_forall. intros [a bs] Hin.
  destruct (Hc a bs Hin) as (H1 & H2 & _). cbn [fst snd]. lia.
Qed.

(** Whatever the call sequence and whatever the underlying writer accepts, the
    file is untouched outside [o, o+n): every byte there (bytes beyond the end
    count as absent = 0) is what it was, and the file only grows, never beyond
    max(old length, o + n). *)
Theorem section_file_confined o n sc cs init :
  sec_ok o n -> script_ok sc -> Forall call_ok cs ->
  let file := file_after init (run (NewSectionWriter o n) sc cs) in
  (forall i, 0 <= i -> (i < o \/ o + n <= i) -> byte_at file i = byte_at init i) /\
  zlen init <= zlen file <= Z.max (zlen init) (o + n).
Proof.
  intros Hs Hsc Hcs. cbv zeta.
  apply file_after_outside; [destruct Hs; lia|].
  eapply contained_within. now apply section_contained.
Qed.

(** the model's file is the specification's file *)
Theorem section_file_refines o n sc cs init :
  sec_ok o n -> script_ok sc -> Forall call_ok cs ->
  file_after init (run (NewSectionWriter o n) sc cs) =
  spec_file_after init (spec_section o n sc (map to_acall cs)).
Proof.
  intros Hs Hsc Hcs. rewrite file_after_spec. f_equal. now apply section_refines.
Qed.

(** * streaming into a file and back *)

(** a plain sequence of Writes through a section with room, over a file that
    accepts everything: every Write returns (len, nil) and the file ends up with
    the concatenation stored at the section start *)
Lemma arun_writes o n : 0 <= o ->
  forall bufs pos init, 0 <= pos -> pos + zlen (concat bufs) < n ->
  map fst (arun o n pos [] (map AWrite bufs)) = map (fun b => [zlen b; A_nil]) bufs /\
  spec_file_after init (arun o n pos [] (map AWrite bufs)) = write_at init (o + pos) (concat bufs).
Proof.
  intros Ho. induction bufs as [|p bufs IH]; intros pos init Hp Hroom.
  - cbn. split; reflexivity.
  - cbn [map arun astep concat] in *.
    assert (Hz : zlen (p ++ concat bufs) = zlen p + zlen (concat bufs))
      by (unfold zlen; rewrite app_length; lia).
    rewrite Hz in Hroom.
    pose proof (zlen_nonneg p) as Hlp. pose proof (zlen_nonneg (concat bufs)) as Hlc.
    destruct (Z.geb_spec pos n); [lia|].
    unfold put. rewrite Z.min_l by lia. rewrite firstn_zlen.
    cbn [respond]. cbn [Z.eqb A_nil].
    destruct (Z.ltb_spec (zlen p) (zlen p)); [lia|].
    cbn [arun map fst].
    destruct (IH (pos + zlen p) (write_at init (o + pos) p) ltac:(lia) ltac:(lia)) as [IH1 IH2].
    split.
    + f_equal. exact IH1.
    + cbn [spec_file_after fold_left]. unfold fapply at 2. cbn [fst snd nth fold_left].
      rewrite firstn_zlen.
      change (fstore init (o + pos) p) with (write_at init (o + pos) p).
      fold (spec_file_after (write_at init (o + pos) p) (arun o n (pos + zlen p) [] (map AWrite bufs))).
      rewrite IH2. replace (o + (pos + zlen p)) with (o + pos + zlen p) by lia.
      apply write_at_app. lia.
Qed.

Lemma map_to_acall_writes bufs : map to_acall (map CWrite bufs) = map AWrite bufs.
Proof. rewrite map_map. reflexivity. Qed.

Lemma Forall_call_ok_writes bufs : Forall call_ok (map CWrite bufs).
Proof. apply Forall_forall. intros c Hin. apply in_map_iff in Hin. destruct Hin as (b & <- & _). exact I. Qed.

(** What a sequence of Writes through AtToWriter(f, o) streams into a file,
    any sequence of Reads through AtToReader(f, o) streams back, followed by
    whatever the file held beyond. *)
Theorem at_to_writer_reader_round_trip o init bufs :
  0 <= o -> o + zlen (concat bufs) < 2^63 - 1 -> zlen init <= 2^63 - 1 ->
  let outs := run (AtToWriter o) [] (map CWrite bufs) in
  let file := file_after init outs in
  map rets outs = map (fun b => [zlen b; E_nil]) bufs /\
  file = write_at init o (concat bufs) /\
  forall lens, Forall (fun l => 0 <= l < 2^63) lens ->
    concat (map rbytes (rrun (AtToReader o) file [] lens)) =
    firstn (Z.to_nat (zsum lens)) (concat bufs ++ skipn (Z.to_nat (o + zlen (concat bufs))) init).
Proof.
  intros Ho Hroom Hinit. cbv zeta.
  pose proof (zlen_nonneg (concat bufs)) as Hlc.
  assert (Hs : sec_ok o (max_int64 - o)) by (apply at_to_writer_sec_ok; lia).
  pose proof (at_to_writer_refines o (@nil (Z * Z)%type) (map CWrite bufs) ltac:(lia) ltac:(constructor)
                (Forall_call_ok_writes bufs)) as Href.
  rewrite map_to_acall_writes in Href. unfold spec_at_to_writer in Href.
  destruct (arun_writes o (max_int64 - o) Ho bufs 0 init ltac:(lia) ltac:(unfold max_int64; lia))
    as [Hrets Hfile].
  rewrite Z.add_0_r in Hfile.
  assert (Hf : file_after init (run (AtToWriter o) [] (map CWrite bufs)) = write_at init o (concat bufs)).
  { rewrite file_after_spec.
    transitivity (spec_file_after init (arun o (max_int64 - o) 0 [] (map AWrite bufs))); [|exact Hfile].
    f_equal. exact Href. }
  split; [|split].
  - transitivity (map fst (map obs (run (AtToWriter o) [] (map CWrite bufs)))).
    { rewrite map_map. apply map_ext. intros r. reflexivity. }
    transitivity (map fst (arun o (max_int64 - o) 0 [] (map AWrite bufs))); [|exact Hrets].
    f_equal. exact Href.
  - exact Hf.
  - intros lens Hl. rewrite Hf.
    rewrite at_to_reader_streams; auto; try lia.
    + now rewrite skipn_write_at by lia.
    + pose proof (zlen_write_at_bounds init o (concat bufs) Ho). lia.
Qed.
