(** C03 widening (cross-property, with C11): from a key to its bitmap index.
    PathOf(s, from, h) followed by PathToIndexLoose / PathToIndex returns the
    pre-order rank of the node spelled by the bits from .. from+h of the key
    (cut at the end of the key). *)
From Coq Require Import ZArith List Lia Bool.
From Low Require Import Lib.MachInt Lib.Bits Lib.BitSeq Lib.Lex Lib.Bytes Lib.BitsExtra_tree
  Spec.Bmtree Spec.IndexSpec Spec.FromStr32Spec Model.BmtreePath Model.BmtreeIndex Model.FromStr32
  Proofs.BmtreePathProofs Proofs.BmtreeRankSpec Proofs.BmtreeIndexProofs Proofs.BmtreeContractProofs
  Proofs.FromStr32Proofs.
Import ListNotations.
Open Scope Z_scope.

(** the node of a key: its bits from [from] on, at most [h] of them *)
Definition key_node (s : list Z) (from : Z) (h : nat) : node :=
  firstn (Z.to_nat (clamp (8 * zlen s - from) 0 (Z.of_nat h))) (skipn (Z.to_nat from) (msb_bits s)).

Lemma key_node_length s from h : (length (key_node s from h) <= h)%nat.
Proof.
  unfold key_node. rewrite firstn_length. unfold clamp.
  pose proof (Nat.le_min_l (Z.to_nat (Z.max 0 (Z.min (8 * zlen s - from) (Z.of_nat h))))
                (length (skipn (Z.to_nat from) (msb_bits s)))). lia.
Qed.

Section KeyIndex.
  Variables (T : Z) (h : nat) (s : list Z) (from : Z).
  Hypothesis HT : 1 <= T < 2 ^ 31.
  Hypothesis HH : Height T = Z.of_nat h.
  Hypothesis Hs : bytes_ok s.
  Hypothesis Hf : 0 <= from.
  Hypothesis Hov : from + Z.of_nat h + 7 < 2 ^ 31.
  Hypothesis Hlen : 8 * zlen s < 2 ^ 31.

  Lemma PathOf_key : PathOf s from (Z.of_nat h) = Some (enc h (key_node s from h)).
  Proof.
    destruct (Height_spec T h HT HH) as [_ Hh].
    rewrite PathOf_naive by (try assumption; lia). rewrite Nat2Z.id. reflexivity.
  Qed.

  Lemma key_index (dbg : bool) :
    exists p, PathOf s from (Z.of_nat h) = Some p /\
      (if dbg then PathToIndexLoose_debug else PathToIndexLoose) T p =
      Some (pre_rank T h (key_node s from h), Z.b2z (stored T (key_node s from h))).
  Proof.
    exists (enc h (key_node s from h)). split; [apply PathOf_key|].
    pose proof (key_node_length s from h) as Hq. destruct dbg.
    - rewrite (PathToIndexLoose_debug_eq T h _ HT HH Hq). now apply PathToIndexLoose_pre_rank.
    - now apply PathToIndexLoose_pre_rank.
  Qed.

  Lemma key_index_strict (dbg : bool) : stored T (key_node s from h) = true ->
    exists p, PathOf s from (Z.of_nat h) = Some p /\
      (if dbg then PathToIndex_debug else PathToIndex) T p = Some (pre_rank T h (key_node s from h)).
  Proof.
    intros Hst. exists (enc h (key_node s from h)). split; [apply PathOf_key|].
    pose proof (key_node_length s from h) as Hq. destruct dbg.
    - rewrite (PathToIndex_debug_eq T h _ HT HH Hq Hst). now apply PathToIndex_pre_rank.
    - now apply PathToIndex_pre_rank.
  Qed.

  (** in the checker's vocabulary (spec_loose / spec_rank) *)
  Lemma key_index_checker (dbg : bool) :
    exists p, PathOf s from (Z.of_nat h) = Some p /\
      (if dbg then PathToIndexLoose_debug else PathToIndexLoose) T p = Some (spec_loose T h (key_node s from h)).
  Proof.
    destruct (key_index dbg) as (p & E1 & E2). exists p. split; [exact E1|]. rewrite E2.
    unfold spec_loose. rewrite spec_rank_pre_rank by (try apply key_node_length; apply T_range_h; assumption).
    reflexivity.
  Qed.
End KeyIndex.

(** the key operations of the correspondence run (Run/C03.v [op_key_loose]) in their own terms:
    height computed from T, node computed by [clamp] on Height T *)
Lemma key_checker T s from (dbg : bool) : 1 <= T < 2 ^ 31 -> bytes_ok s -> 0 <= from ->
  from + Height T + 7 < 2 ^ 31 -> 8 * zlen s < 2 ^ 31 ->
  exists p, PathOf s from (Height T) = Some p /\
    (if dbg then PathToIndexLoose_debug else PathToIndexLoose) T p =
    Some (spec_loose T (Z.to_nat (Height T))
            (firstn (Z.to_nat (clamp (8 * zlen s - from) 0 (Height T))) (skipn (Z.to_nat from) (msb_bits s)))).
Proof.
  intros HT Hs Hf Hov Hlen. pose proof (Height_nonneg T HT) as HH.
  set (h := Z.to_nat (Height T)) in *. rewrite HH in Hov |- *.
  exact (key_index_checker T h s from HT HH Hs Hf Hov Hlen dbg).
Qed.

(** * the statements in the argument order of Properties/C03.v (so that each theorem there is
    closed by a bare [exact]) *)
Lemma C03_strict_stmt T h q : 1 <= T < 2 ^ 31 -> Height T = Z.of_nat h -> (length q <= h)%nat ->
  stored T q = true ->
  PathToIndex T (enc h q) = Some (Z.of_nat (length (filter (fun r => pre_ltb r q) (stored_nodes T h)))).
Proof. intros HT HH Hq _. exact (PathToIndex_pre_rank T h q HT HH Hq). Qed.

Lemma C03_checker_loose_stmt T q (dbg : bool) : 1 <= T < 2 ^ 31 ->
  (length q <= Z.to_nat (Height T))%nat ->
  (if dbg then PathToIndexLoose_debug else PathToIndexLoose) T
     (NewPath (valL (Z.to_nat (Height T)) q) (Z.of_nat (length q)) (Height T))
  = Some (spec_loose T (Z.to_nat (Height T)) q).
Proof. intros HT Hq. exact (checker_loose T q HT Hq dbg). Qed.

Lemma C03_checker_strict_stmt T q (dbg : bool) : 1 <= T < 2 ^ 31 ->
  (length q <= Z.to_nat (Height T))%nat -> stored T q = true ->
  (if dbg then PathToIndex_debug else PathToIndex) T
     (NewPath (valL (Z.to_nat (Height T)) q) (Z.of_nat (length q)) (Height T))
  = Some (spec_rank T (Z.to_nat (Height T)) q).
Proof. intros HT Hq. exact (checker_strict T q HT Hq dbg). Qed.

Lemma C03_key_index_stmt T h s from (dbg : bool) : 1 <= T < 2 ^ 31 -> Height T = Z.of_nat h ->
  bytes_ok s -> 0 <= from -> from + Z.of_nat h + 7 < 2 ^ 31 -> 8 * zlen s < 2 ^ 31 ->
  exists p, PathOf s from (Z.of_nat h) = Some p /\
    (if dbg then PathToIndexLoose_debug else PathToIndexLoose) T p =
    Some (pre_rank T h (key_node s from h), Z.b2z (stored T (key_node s from h))).
Proof. intros HT HH Hs Hf Hov Hlen. exact (key_index T h s from HT HH Hs Hf Hov Hlen dbg). Qed.

Lemma C03_key_index_strict_stmt T h s from (dbg : bool) : 1 <= T < 2 ^ 31 -> Height T = Z.of_nat h ->
  bytes_ok s -> 0 <= from -> from + Z.of_nat h + 7 < 2 ^ 31 -> 8 * zlen s < 2 ^ 31 ->
  stored T (key_node s from h) = true ->
  exists p, PathOf s from (Z.of_nat h) = Some p /\
    (if dbg then PathToIndex_debug else PathToIndex) T p = Some (pre_rank T h (key_node s from h)).
Proof. intros HT HH Hs Hf Hov Hlen. exact (key_index_strict T h s from HT HH Hs Hf Hov Hlen dbg). Qed.
