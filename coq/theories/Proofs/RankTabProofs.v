(** The rank queries read the mask table of bitmap/mask.go; entry [j] of the table as [initMasks] computes it is the
    closed form [2^j - 1] (C12: [mask_at_exact]), so the table-reading model is the model of Model/Rank.v. *)
From Coq Require Import ZArith List Lia Bool.
From Low Require Import Lib.MachInt Lib.Bits Lib.BitSeq Lib.MachIntExtra_w01 Model.BitmapMask12
  Model.Rank Model.RankTab Spec.MaskSpec12 Proofs.MaskProofs.
Import ListNotations.
Open Scope Z_scope.

Lemma Mask_tab_read j : 0 <= j <= 64 -> nthZ Mask_tab j = Some (Mask j).
Proof.
  intros Hj. pose proof (mask_at_exact j) as H. unfold mask_at, spec_mask_at in H.
  destruct (Z.leb_spec 0 j); [|lia]. destruct (Z.leb_spec j 64); [|lia]. cbn [andb] in H.
  destruct (nthZ Mask_tab j) as [a|]; [|discriminate].
  destruct (nthZ RMask_tab j) as [b|]; [|discriminate]. injection H as H _. now subst.
Qed.

Theorem Rank64_tab_eq ws ridx i : Rank64_tab ws ridx i = Rank64 ws ridx i.
Proof.
  unfold Rank64_tab, Rank64. pose proof (land63_range i).
  rewrite Mask_tab_read by lia.
  destruct (nthZ ridx (Z.shiftr i 6)); [|reflexivity]. now destruct (nthZ ws (Z.shiftr i 6)).
Qed.

Theorem Rank128_tab_eq ws ridx i : Rank128_tab ws ridx i = Rank128 ws ridx i.
Proof.
  unfold Rank128_tab, Rank128. pose proof (land63_range i).
  rewrite Mask_tab_read by lia.
  destruct (nthZ ridx (Z.shiftr (i + 64) 7)); [|reflexivity]. now destruct (nthZ ws (Z.shiftr i 6)).
Qed.
