(** Proofs for C02 on very large bitmaps: the linear-time evaluators of Spec/SelectLinSpec.v compute exactly
    [spec_Select] / [spec_IndexSelect32], hence (by Select32_exact, Select32R64_exact, IndexSelect32_exact) the
    model's output on the whole domain of the run-length-encoded protocol operations. *)
From Coq Require Import ZArith List Lia Bool ZifyNat.
From Low Require Import Lib.MachInt Lib.Bits Lib.BitSeq Lib.BitsExtra_c02 Model.Rank Model.Select
  Spec.RankSpec Spec.SelectSpec Spec.SelectLinSpec Proofs.RankProofs Proofs.SelectProofs Proofs.SelectMain.
Import ListNotations.
Open Scope Z_scope.

Lemma ones_from_flat_cons base w t :
  ones_from base (flat (w :: t)) = ones_from base (bits 64 w) ++ ones_from (base + 64) (flat t).
Proof. rewrite flat_cons, ones_from_app, bits_length. reflexivity. Qed.

(** * one word *)
Lemma bits_fast_bits : forall n z, bits_fast n z = bits n z.
Proof. induction n as [|n IH]; intros z; [reflexivity|]. rewrite bits_S. cbn [bits_fast]. now rewrite IH. Qed.

Lemma word_ones_spec base w : ones_from base (bits 64 w) = map (Z.add base) (word_ones w).
Proof. unfold word_ones. rewrite bits_fast_bits. apply ones_from_shift. Qed.

Lemma word_ones_length w : 0 <= w < 2 ^ 64 -> Z.of_nat (length (word_ones w)) = popcount w.
Proof.
  intros Hw. unfold word_ones. rewrite bits_fast_bits. now apply ones_from_bits64_length.
Qed.

Local Opaque word_ones.

Lemma lin_next_spec : forall ws base d, lin_next ws base d = hd d (ones_from base (flat ws)).
Proof.
  induction ws as [|w t IH]; intros base d; [reflexivity|].
  rewrite ones_from_flat_cons. cbn [lin_next].
  destruct (Z.eqb_spec w 0) as [->|Hne].
  - rewrite bits_zero, ones_from_all_false. cbn [app]. apply IH.
  - rewrite word_ones_spec.
    destruct (word_ones w) as [|x r]; cbn [map app hd]; [apply IH|reflexivity].
Qed.

Lemma lin_sel_spec : forall ws, words_ok ws -> forall base i d a, 0 <= i ->
  nth_error (ones_from base (flat ws)) (Z.to_nat i) = Some a ->
  lin_sel ws base i d = Some (a, hd d (skipn (S (Z.to_nat i)) (ones_from base (flat ws)))).
Proof.
  induction 1 as [|w t Hw Ht IH]; intros base i d a Hi Hn.
  - cbn in Hn. destruct (Z.to_nat i); discriminate.
  - rewrite ones_from_flat_cons in *. cbn [lin_sel]. cbv zeta.
    rewrite word_ones_spec in *. rewrite <- (word_ones_length w Hw).
    set (os := word_ones w) in *.
    assert (Hlen : length (map (Z.add base) os) = length os) by apply map_length.
    destruct (Z.leb_spec (Z.of_nat (length os)) i) as [Hle|Hgt].
    + rewrite nth_error_app2 in Hn by lia. rewrite Hlen in Hn.
      replace (Z.to_nat i - length os)%nat with (Z.to_nat (i - Z.of_nat (length os))) in Hn by lia.
      rewrite (IH (base + 64) (i - Z.of_nat (length os)) d a ltac:(lia) Hn). do 3 f_equal.
      rewrite skipn_app_r by lia. rewrite Hlen. f_equal. lia.
    + rewrite nth_error_app1 in Hn by lia. rewrite nth_error_map in Hn.
      destruct (nth_error os (Z.to_nat i)) as [x|] eqn:Ex; [|discriminate].
      cbn [option_map] in Hn. injection Hn as <-.
      rewrite (nth_error_nth os (Z.to_nat i) 0 Ex).
      rewrite skipn_app_l by lia. rewrite skipn_map. f_equal. f_equal.
      destruct (skipn (S (Z.to_nat i)) os) as [|y r]; cbn [map app hd]; [apply lin_next_spec|reflexivity].
Qed.

Lemma hd_skipn_nth (l : list Z) k d :
  hd d (skipn (S k) l) = if Z.of_nat k + 1 <? zlen l then nth (S k) l 0 else d.
Proof.
  unfold zlen. destruct (skipn (S k) l) as [|x r] eqn:E; cbn [hd].
  - apply skipn_nil_length in E.
    destruct (Z.ltb_spec (Z.of_nat k + 1) (Z.of_nat (length l))); [lia|reflexivity].
  - assert (Hn : nth_error l (S k) = Some x).
    { replace (S k) with (S k + 0)%nat by lia. rewrite <- nth_error_skipn_add, E. reflexivity. }
    assert (S k < length l)%nat by (apply nth_error_Some; congruence).
    destruct (Z.ltb_spec (Z.of_nat k + 1) (Z.of_nat (length l))); [|lia].
    symmetry. now apply nth_error_nth.
Qed.

Theorem lin_Select_spec ws i : words_ok ws -> 0 <= i < zlen (all_ones ws) ->
  lin_Select ws i = Some (spec_Select ws i).
Proof.
  intros Hok Hi. unfold lin_Select. destruct (Z.ltb_spec i 0); [lia|].
  assert (Hn : nth_error (all_ones ws) (Z.to_nat i) = Some (nth (Z.to_nat i) (all_ones ws) 0))
    by (apply nth_error_nth_Some; unfold zlen in Hi; lia).
  assert (Eo : all_ones ws = ones_from 0 (flat ws)) by reflexivity.
  rewrite Eo in Hn at 1.
  rewrite (lin_sel_spec ws Hok 0 i (64 * zlen ws) _ ltac:(lia) Hn). f_equal.
  unfold spec_Select. cbv zeta. f_equal.
  rewrite <- Eo.
  rewrite hd_skipn_nth. rewrite Z2Nat.id by lia.
  replace (Z.to_nat (i + 1)) with (S (Z.to_nat i)) by lia. reflexivity.
Qed.

(** outside the domain the linear evaluator reports it *)
Lemma lin_sel_None : forall ws, words_ok ws -> forall base i d,
  Z.of_nat (length (ones_from base (flat ws))) <= i -> lin_sel ws base i d = None.
Proof.
  induction 1 as [|w t Hw Ht IH]; intros base i d Hi; [reflexivity|].
  rewrite ones_from_flat_cons, app_length, word_ones_spec, map_length in Hi. cbn [lin_sel]. cbv zeta.
  rewrite <- (word_ones_length w Hw).
  destruct (Z.leb_spec (Z.of_nat (length (word_ones w))) i); [|lia].
  apply IH. lia.
Qed.

Theorem lin_Select_None ws i : words_ok ws -> ~ (0 <= i < zlen (all_ones ws)) -> lin_Select ws i = None.
Proof.
  intros Hok Hi. unfold lin_Select. destruct (Z.ltb_spec i 0); [reflexivity|].
  apply lin_sel_None; [exact Hok|]. unfold zlen, all_ones, ones in Hi. lia.
Qed.

(** * the index *)
Lemma pick32r_fst : forall l r, fst (pick32r r l) = pick32 r l.
Proof.
  induction l as [|x t IH]; intros r; [reflexivity|].
  cbn [pick32r pick32]. destruct r as [|r].
  - specialize (IH 31%nat). destruct (pick32r 31 t) as [p r']. cbn [fst] in *. now rewrite IH.
  - apply IH.
Qed.

Lemma pick32_app : forall l1 r l2,
  pick32 r (l1 ++ l2) = pick32 r l1 ++ pick32 (snd (pick32r r l1)) l2.
Proof.
  induction l1 as [|x t IH]; intros r l2; [reflexivity|].
  cbn [app pick32 pick32r]. destruct r as [|r].
  - rewrite IH. destruct (pick32r 31 t) as [p r']. reflexivity.
  - apply IH.
Qed.

Lemma pick32r_short : forall l r, (length l <= r)%nat -> pick32r r l = ([], (r - length l)%nat).
Proof.
  induction l as [|x t IH]; intros r Hr.
  - cbn. f_equal. lia.
  - cbn [length] in Hr. destruct r as [|r]; [lia|]. cbn [pick32r length]. rewrite IH by lia. reflexivity.
Qed.

Lemma pick32r_map f : forall l r,
  pick32r r (map f l) = (map f (fst (pick32r r l)), snd (pick32r r l)).
Proof.
  induction l as [|x t IH]; intros r; [reflexivity|].
  cbn [map pick32r]. destruct r as [|r].
  - rewrite IH. destruct (pick32r 31 t) as [p r']. reflexivity.
  - apply IH.
Qed.

Lemma lin_idx_cons w t base r :
  lin_idx (w :: t) base r =
  if (Z.to_nat (popcount w) <=? r)%nat then lin_idx t (base + 64) (r - Z.to_nat (popcount w))
  else let (p, r') := pick32r r (word_ones w) in map (Z.add base) p ++ lin_idx t (base + 64) r'.
Proof. reflexivity. Qed.

Lemma lin_idx_spec : forall ws, words_ok ws -> forall base r,
  lin_idx ws base r = pick32 r (ones_from base (flat ws)).
Proof.
  induction 1 as [|w t Hw Ht IH]; intros base r; [reflexivity|].
  rewrite ones_from_flat_cons, pick32_app, word_ones_spec, lin_idx_cons.
  rewrite <- (word_ones_length w Hw), Nat2Z.id.
  generalize (word_ones w). intros os.
  rewrite <- (pick32r_fst (map (Z.add base) os) r), pick32r_map. cbn [fst snd].
  destruct (Nat.leb_spec (length os) r) as [Hle|Hgt].
  - rewrite pick32r_short by exact Hle. cbn [fst snd map app]. apply IH.
  - destruct (pick32r r os) as [p r']. cbn [fst snd]. now rewrite IH.
Qed.

Theorem lin_IndexSelect32_spec ws : words_ok ws -> lin_IndexSelect32 ws = spec_IndexSelect32 ws.
Proof.
  intros Hok. unfold lin_IndexSelect32. rewrite lin_idx_spec by exact Hok.
  assert (Eo : all_ones ws = ones_from 0 (flat ws)) by reflexivity. rewrite <- Eo.
  pose proof (IndexSelect32_pick ws) as H1. pose proof (IndexSelect32_exact ws) as H2. congruence.
Qed.

(** * what the run-length-encoded operations evaluate is the model's output *)
Theorem lin_Select_is_Select32 ws sidx i : words_ok ws -> IndexSelect32 ws = Some sidx ->
  0 <= i < zlen (all_ones ws) ->
  lin_Select ws i = Select32 ws sidx i.
Proof.
  intros Hok Hs Hi. rewrite lin_Select_spec by assumption. symmetry. now apply Select32_indexed.
Qed.

Theorem lin_Select_is_Select32R64 ws sidx ridx i : words_ok ws ->
  IndexSelect32R64 ws = Some (sidx, ridx) -> 0 <= i < zlen (all_ones ws) ->
  lin_Select ws i = Select32R64 ws sidx ridx i.
Proof.
  intros Hok Hs Hi. rewrite lin_Select_spec by assumption. symmetry. now apply Select32R64_indexed.
Qed.

Theorem lin_IndexSelect32_is_model ws : words_ok ws -> IndexSelect32 ws = Some (lin_IndexSelect32 ws).
Proof. intros Hok. rewrite lin_IndexSelect32_spec by exact Hok. apply IndexSelect32_exact. Qed.
