(** C06 / C07, part 4: pbcmpl.Marshal against any writer script (accept everything,
    fail on the header write, fail on the body write, partial writes). *)
From Coq Require Import ZArith List Bool Lia.
From Low Require Import Lib.MachInt Lib.BitSeq Lib.Bytes
  Model.Pbcmpl Spec.PbcmplSpec Proofs.PbcmplIO Proofs.PbcmplHeader.
Import ListNotations.
Open Scope Z_scope.

Lemma pair_let (a : Z) (b : bool) k :
  (let '(n, f) := (a, b) in (32 + n, f)) = (k, true) -> 32 + a = k /\ b = true.
Proof. intros H. change ((32 + a, b) = (k, true)) in H. split; congruence. Qed.

Section Codec.
  Variable Msg : Type.
  Variable enc : Msg -> list Z.
  Variable size : Msg -> Z.

  Lemma ver_of_default ver :
    match ver with Some v => v | None => DefaultVer end = ver_of ver.
  Proof. destruct ver; reflexivity. Qed.

  (** Marshal = the specification, for every well-behaved writer script *)
  Theorem Marshal_spec (m : Msg) ver script :
    zlen (enc m) < 2 ^ 63 - 32 ->
    script_ok script [32; zlen (enc m)] = true ->
    match spec_Marshal (enc m) ver script with
    | None => Marshal enc swrite (script, []) m ver = None
    | Some (n, err, out, sz, hsz) =>
        exists script', Marshal enc swrite (script, []) m ver = Some (n, err, (script', out))
    end.
  Proof.
    intros Hlen Hsc. unfold spec_Marshal, Marshal, marshal. rewrite ver_of_default.
    set (v := ver_of ver). set (d := enc m) in *.
    pose proof (zlen_nonneg d) as Hd0.
    destruct (Z.gtb_spec (zlen v) 16) as [Hv|Hv].
    { rewrite newHeader_None by lia. reflexivity. }
    destruct (newHeader_Marshal v (u64 (zlen d))) as (h & Hh & Hm); [lia|]. rewrite Hh, Hm.
    rewrite u64_id by lia.
    unfold frame. set (hb := frame_header v (zlen d)).
    assert (Hhb : zlen hb = 32) by (apply zlen_frame_header; lia).
    destruct script as [|[k fail] script1].
    - (* a writer that accepts everything *)
      cbn [script_outcome swrite app]. rewrite Hhb.
      exists []. rewrite i64_id by lia. f_equal. f_equal; [f_equal; lia|]. f_equal.
      symmetry. apply firstn_all_z. rewrite zlen_app. lia.
    - cbn [script_outcome swrite app]. rewrite Hhb.
      destruct fail.
      + (* the header write fails after max 0 (min k 32) bytes *)
        set (n := Z.max 0 (Z.min k 32)).
        exists script1. rewrite i64_id by lia. f_equal. f_equal. f_equal.
        symmetry. apply firstn_app_short_z. lia.
      + cbn [script_ok] in Hsc. apply andb_prop in Hsc. destruct Hsc as [Hk Hsc].
        apply Z.leb_le in Hk.
        replace (Z.max 0 (Z.min k 32)) with 32 by lia.
        rewrite (firstn_all_z 32 hb) by lia.
        destruct script1 as [|[k2 fail2] script2].
        * cbn [script_outcome swrite]. exists [].
          rewrite i64_id by lia. f_equal. f_equal; [f_equal; lia|]. f_equal.
          symmetry. apply firstn_all_z. rewrite zlen_app. lia.
        * cbn [script_outcome swrite]. destruct fail2.
          -- (* the body write fails after max 0 (min k2 |body|) bytes *)
             set (n2 := Z.max 0 (Z.min k2 (zlen d))).
             exists script2. rewrite i64_id by lia. f_equal. f_equal. f_equal.
             rewrite firstn_app_z by lia. rewrite Hhb. f_equal. f_equal. f_equal. lia.
          -- cbn [script_ok] in Hsc. apply andb_prop in Hsc. destruct Hsc as [Hsc _]. apply Z.leb_le in Hsc.
             replace (Z.max 0 (Z.min k2 (zlen d))) with (zlen d) by lia.
             exists script2. rewrite i64_id by lia.
             rewrite (firstn_all_z (zlen d) d) by lia.
             f_equal. f_equal; [f_equal; lia|]. f_equal.
             symmetry. apply firstn_all_z. rewrite zlen_app. lia.
  Qed.

  Lemma zlen_frame (v body : list Z) : zlen v <= 16 -> zlen (frame v body) = 32 + zlen body.
  Proof. intros. unfold frame. rewrite zlen_app, zlen_frame_header by assumption. reflexivity. Qed.

  (** C06: a writer that accepts everything receives the frame; all four size figures agree *)
  Theorem Marshal_ok (m : Msg) ver :
    zlen (ver_of ver) <= 16 -> zlen (enc m) < 2 ^ 63 - 32 -> size m = zlen (enc m) ->
    Marshal enc swrite ([], []) m ver
      = Some (32 + zlen (enc m), None, ([], frame (ver_of ver) (enc m)))
    /\ zlen (frame (ver_of ver) (enc m)) = 32 + zlen (enc m)
    /\ SizeOf size m = 32 + zlen (enc m)
    /\ HeaderSizeOf m = 32.
  Proof.
    intros Hv Hlen Hsz.
    pose proof (Marshal_spec m ver [] Hlen eq_refl) as H.
    unfold spec_Marshal in H. destruct (Z.gtb_spec (zlen (ver_of ver)) 16); [lia|].
    cbn [script_outcome] in H. destruct H as (s' & H).
    pose proof (zlen_frame (ver_of ver) (enc m) Hv) as Hf.
    rewrite firstn_all_z in H by lia.
    assert (Hn : 32 + (zlen (enc m) + 0) = 32 + zlen (enc m)) by lia. rewrite Hn in H.
    assert (s' = []).
    { revert H. unfold Marshal. destruct (marshal enc m _) as [[hh dd]|]; [|discriminate].
      cbn [swrite]. intros H. inversion H. reflexivity. }
    subst s'. repeat split; try assumption.
    unfold SizeOf, HeaderSizeOf, fixedSize. lia.
  Qed.

  (** C07: a failing writer.  [script_outcome] = (k, true): the writer accepted [k]
      bytes in all and then failed. *)
  Theorem Marshal_writer_fails (m : Msg) ver script k :
    zlen (ver_of ver) <= 16 -> zlen (enc m) < 2 ^ 63 - 32 ->
    script_ok script [32; zlen (enc m)] = true ->
    script_outcome script [32; zlen (enc m)] = (k, true) ->
    exists script',
      Marshal enc swrite (script, []) m ver
        = Some (k, Some EInjected, (script', firstn (Z.to_nat k) (frame (ver_of ver) (enc m))))
      /\ 0 <= k <= zlen (frame (ver_of ver) (enc m)).
  Proof.
    intros Hv Hlen Hsc Hout.
    pose proof (Marshal_spec m ver script Hlen Hsc) as H.
    unfold spec_Marshal in H. destruct (Z.gtb_spec (zlen (ver_of ver)) 16); [lia|].
    rewrite Hout in H. destruct H as (s' & H). exists s'. split; [exact H|].
    rewrite zlen_frame by assumption. pose proof (zlen_nonneg (enc m)).
    destruct script as [|[k1 f1] s1]; cbn [script_outcome] in Hout; [inversion Hout|].
    destruct f1; [inversion Hout; lia|].
    destruct s1 as [|[k2 f2] s2]; cbn [script_outcome] in Hout; [inversion Hout|].
    destruct f2; apply pair_let in Hout; destruct Hout as [Hk Hf]; [lia|discriminate Hf].
  Qed.

  (** ... and every failure point is reachable: header-write failure (partial or not)
      for k < 32, body-write failure for 32 <= k *)
  Definition fail_script (k : Z) : list (Z * bool) :=
    if k <? 32 then [(k, true)] else [(32, false); (k - 32, true)].

  Lemma fail_script_outcome (body : list Z) k :
    0 <= k <= 32 + zlen body ->
    script_ok (fail_script k) [32; zlen body] = true
    /\ script_outcome (fail_script k) [32; zlen body] = (k, true).
  Proof.
    intros Hk. unfold fail_script. destruct (Z.ltb_spec k 32).
    - cbn [script_ok script_outcome]. split; [reflexivity|]. f_equal. lia.
    - cbn [script_ok script_outcome]. split; [reflexivity|]. f_equal. lia.
  Qed.

  Theorem Marshal_fails_at (m : Msg) ver k :
    zlen (ver_of ver) <= 16 -> zlen (enc m) < 2 ^ 63 - 32 ->
    0 <= k <= 32 + zlen (enc m) ->
    exists script',
      Marshal enc swrite (fail_script k, []) m ver
        = Some (k, Some EInjected, (script', firstn (Z.to_nat k) (frame (ver_of ver) (enc m)))).
  Proof.
    intros Hv Hlen Hk. destruct (fail_script_outcome (enc m) k Hk) as [Hok Hout].
    destruct (Marshal_writer_fails m ver _ k Hv Hlen Hok Hout) as (s' & H & _).
    exists s'. exact H.
  Qed.

  (** a version longer than 16 bytes panics by design *)
  Theorem Marshal_long_version (m : Msg) ver W write (w : W) :
    16 < zlen (ver_of ver) -> Marshal enc write w m ver = None.
  Proof.
    intros. unfold Marshal, marshal. rewrite ver_of_default. rewrite newHeader_None by lia. reflexivity.
  Qed.
End Codec.
