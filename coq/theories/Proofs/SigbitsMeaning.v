(** C16: what [first_diff_bit] (the length of the common prefix of the bit
    strings) says in the words of the property: the first bit at which the keys
    differ, or 8*min(len) exactly when one key is a byte-prefix of the other. *)
From Coq Require Import ZArith List Lia Bool.
From Low Require Import Lib.Bits Lib.BitSeq Lib.Lex Lib.Bytes Lib.LexExtra_sig Lib.LexLemmas_bw
  Spec.SigbitsSpec Proofs.SigbitsFirstDiff.
Import ListNotations.
Open Scope Z_scope.

Lemma lcp_bits_next_differs : forall a b d,
  (length (lcp_bits a b) < length a)%nat -> (length (lcp_bits a b) < length b)%nat ->
  nth (length (lcp_bits a b)) a d <> nth (length (lcp_bits a b)) b d.
Proof.
  unfold lcp_bits.
  induction a as [|x a IH]; intros [|y b] d Ha Hb; cbn [lcp length] in *; try lia.
  destruct (Bool.eqb x y) eqn:E; cbn [length nth] in *.
  - apply IH; lia.
  - intros ->. now rewrite Bool.eqb_reflx in E.
Qed.

Lemma msb_bits_inj a b : bytes_ok a -> bytes_ok b -> msb_bits a = msb_bits b -> a = b.
Proof.
  intros Ha Hb E.
  apply (proj1 (lex_cmp_eq Z.compare Z.compare_eq_iff a b)).
  fold (bytes_cmp a b). rewrite (bytes_cmp_msb_bits a b Ha Hb), E.
  apply bits_cmp_refl.
Qed.

(** the bits before [d] agree, bit [d] differs unless a key ends there *)
Lemma first_diff_bit_meaning a b :
  let d := first_diff_bit a b in
  0 <= d <= 8 * Z.min (zlen a) (zlen b) /\
  firstn (Z.to_nat d) (msb_bits a) = firstn (Z.to_nat d) (msb_bits b) /\
  (d < 8 * Z.min (zlen a) (zlen b) ->
   nth (Z.to_nat d) (msb_bits a) false <> nth (Z.to_nat d) (msb_bits b) false).
Proof.
  cbv zeta. unfold first_diff_bit, zlen. rewrite Nat2Z.id.
  pose proof (lcp_length_l Bool.eqb (msb_bits a) (msb_bits b)) as Hl.
  pose proof (lcp_length_r Bool.eqb (msb_bits a) (msb_bits b)) as Hr.
  rewrite msb_bits_length in Hl, Hr. unfold lcp_bits.
  split; [lia|]. split.
  - now rewrite lcp_firstn_l, (lcp_firstn_r Bool.eqb bool_eqb_spec).
  - intros Hd. apply lcp_bits_next_differs; rewrite msb_bits_length; unfold lcp_bits; lia.
Qed.

(** it reaches 8*min(len) exactly when one key is a byte-prefix of the other *)
Lemma first_diff_bit_prefix a b : bytes_ok a -> bytes_ok b ->
  first_diff_bit a b = 8 * Z.min (zlen a) (zlen b) <->
  (firstn (length a) b = a \/ firstn (length b) a = b).
Proof.
  intros Ha Hb. unfold first_diff_bit, zlen, lcp_bits. split.
  - intros E.
    destruct (le_lt_dec (length a) (length b)) as [Hab|Hab]; [left|right].
    + apply msb_bits_inj; [now apply Forall_firstn|exact Ha|].
      rewrite msb_bits_firstn.
      replace (8 * length a)%nat with (length (lcp Bool.eqb (msb_bits a) (msb_bits b))) by lia.
      rewrite (lcp_firstn_r Bool.eqb bool_eqb_spec), <- (lcp_firstn_l Bool.eqb).
      apply firstn_all2. rewrite msb_bits_length. lia.
    + apply msb_bits_inj; [now apply Forall_firstn|exact Hb|].
      rewrite msb_bits_firstn.
      replace (8 * length b)%nat with (length (lcp Bool.eqb (msb_bits a) (msb_bits b))) by lia.
      rewrite (lcp_firstn_l Bool.eqb), <- (lcp_firstn_r Bool.eqb bool_eqb_spec).
      apply firstn_all2. rewrite msb_bits_length. lia.
  - intros [E|E].
    + rewrite <- (firstn_skipn (length a) b), E, msb_bits_app.
      rewrite <- (app_nil_r (msb_bits a)) at 1.
      rewrite (lcp_app_same Bool.eqb bool_eqb_spec). cbn [lcp]. rewrite app_nil_r, msb_bits_length.
      rewrite app_length. lia.
    + rewrite <- (firstn_skipn (length b) a), E, msb_bits_app.
      rewrite <- (app_nil_r (msb_bits b)) at 2.
      rewrite (lcp_app_same Bool.eqb bool_eqb_spec). rewrite (lcp_nil_r Bool.eqb), app_nil_r, msb_bits_length.
      rewrite app_length. lia.
Qed.
