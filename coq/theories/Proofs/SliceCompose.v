(** Rank64 / NextOne / PrevOne on a slice = the same question about the range of
    the original bitmap (C14 composed with C01 and C13). *)
From Coq Require Import ZArith List Lia Bool Sorted.
From Low Require Import Lib.MachInt Lib.Bits Lib.BitSeq Lib.BitsExtra_bm2 Lib.BitsExtra_bm14
  Model.BitmapJoin Model.Rank Model.BitmapNext Model.BitmapSliceArray
  Spec.JoinSpec Spec.RankSpec Spec.NextSpec Spec.SliceArraySpec Spec.SliceComposeSpec
  Proofs.JoinProofs Proofs.SliceArrayProofs Proofs.RankProofs Proofs.NextProofs.
Import ListNotations.
Open Scope Z_scope.

Lemma filter_map_comm {A B} (f : B -> bool) (g : A -> B) l :
  filter f (map g l) = map g (filter (fun x => f (g x)) l).
Proof.
  induction l as [|x l IH]; [reflexivity|]. cbn [map filter].
  destruct (f (g x)); cbn [map]; now rewrite IH.
Qed.

Lemma filter_filter_and {A} (f g : A -> bool) l :
  filter f (filter g l) = filter (fun x => g x && f x) l.
Proof.
  induction l as [|x l IH]; [reflexivity|]. cbn [filter].
  destruct (g x); cbn [filter andb]; [destruct (f x)|]; now rewrite IH.
Qed.

Section Compose.
Variables (ws r : list Z) (a b : Z).
Hypothesis Hab : 0 <= a <= b.
Hypothesis Hb : b <= 64 * zlen ws.
Hypothesis HS : spec_Slice ws a b r.

Lemma slice_rank j : 0 <= j <= b - a ->
  rank1z (flat r) j = rank1z (flat ws) (a + j) - rank1z (flat ws) a.
Proof.
  intros Hj. destruct HS as (_ & _ & F). unfold rank1z, rank1. rewrite F.
  set (L := flat ws). set (A := Z.to_nat a). set (N := Z.to_nat (b - a)). set (J := Z.to_nat j).
  assert (HL : length L = (64 * length ws)%nat) by apply flat_length.
  assert (HA : (A + N <= length L)%nat) by (unfold A, N, zlen in *; lia).
  assert (HJ : (J <= N)%nat) by (unfold J, N; lia).
  assert (Hn : length (firstn N (skipn A L)) = N) by (apply firstn_length_le; rewrite skipn_length; lia).
  rewrite firstn_app, Hn. replace (J - N)%nat with 0%nat by lia. rewrite firstn_O, app_nil_r.
  rewrite firstn_firstn, Nat.min_l by exact HJ.
  replace (Z.to_nat (a + j)) with (A + J)%nat by (unfold A, J; lia).
  assert (E : firstn (A + J) L = firstn A L ++ firstn J (skipn A L)).
  { rewrite <- (firstn_skipn A L) at 1.
    assert (Hfa : length (firstn A L) = A) by (apply firstn_length_le; lia).
    rewrite firstn_app, Hfa. rewrite (firstn_all2 (n:=A + J)) by lia.
    replace (A + J - A)%nat with J by lia. reflexivity. }
  rewrite E, count_true_app. lia.
Qed.

Lemma slice_bit j : 0 <= j < b - a -> bitz (flat r) j = bitz (flat ws) (a + j).
Proof.
  intros Hj. destruct HS as (_ & _ & F). unfold bitz. rewrite F.
  assert (Hn : length (firstn (Z.to_nat (b - a)) (skipn (Z.to_nat a) (flat ws))) = Z.to_nat (b - a)).
  { apply firstn_length_le. rewrite skipn_length, flat_length. unfold zlen in Hb. lia. }
  rewrite app_nth1 by lia. rewrite nth_firstn_lt by lia. rewrite nth_skipn. f_equal. lia.
Qed.

Lemma slice_ones_in j : 0 <= j ->
  ones_in r j (b - a) = map (fun p => p - a) (ones_in ws (a + j) b).
Proof.
  intros Hj. unfold ones_in. rewrite (spec_Slice_ones ws a b r Hab Hb HS). unfold spec_SliceArray.
  rewrite filter_map_comm, filter_filter_and. f_equal. apply filter_ext. intros p. unfold in_rangeb.
  destruct (Z.leb_spec a p), (Z.ltb_spec p b), (Z.leb_spec j (p - a)), (Z.ltb_spec (p - a) (b - a)),
    (Z.leb_spec (a + j) p); cbn [andb]; try reflexivity; lia.
Qed.

Lemma ones_in_nonneg bm i e p : In p (ones_in bm i e) -> 0 <= p.
Proof. intros H. apply in_ones_in in H. lia. Qed.

Lemma hd_shift l : (forall p, In p l -> 0 <= p) ->
  hd (-1) (map (fun p => p - a) l) = shift_down a (hd (-1) l).
Proof.
  intros H. destruct l as [|x l]; [reflexivity|]. cbn [map hd]. unfold shift_down.
  specialize (H x (or_introl eq_refl)). destruct (Z.eqb_spec x (-1)); [lia|reflexivity].
Qed.

Lemma last_shift l : (forall p, In p l -> 0 <= p) ->
  last (map (fun p => p - a) l) (-1) = shift_down a (last l (-1)).
Proof.
  induction l as [|x l IH]; intros H; [reflexivity|].
  destruct l as [|y l].
  - cbn [map last]. unfold shift_down. specialize (H x (or_introl eq_refl)).
    destruct (Z.eqb_spec x (-1)); [lia|reflexivity].
  - change (last (map (fun p => p - a) (x :: y :: l)) (-1)) with (last (map (fun p => p - a) (y :: l)) (-1)).
    change (last (x :: y :: l) (-1)) with (last (y :: l) (-1)).
    apply IH. intros p Hp. apply H. now right.
Qed.

Lemma slice_next j : 0 <= j -> spec_NextOne r j (b - a) = spec_SliceNext ws a b j.
Proof.
  intros Hj. unfold spec_NextOne, spec_SliceNext. rewrite slice_ones_in by exact Hj.
  apply hd_shift. intros p. apply ones_in_nonneg.
Qed.

Lemma slice_prev j : 0 <= j -> spec_PrevOne r j (b - a) = spec_SlicePrev ws a b j.
Proof.
  intros Hj. unfold spec_PrevOne, spec_SlicePrev. rewrite slice_ones_in by exact Hj.
  apply last_shift. intros p. apply ones_in_nonneg.
Qed.
End Compose.

Theorem SliceRank64_correct ws a b tr j : words_ok ws -> 0 <= a <= b -> b <= 64 * zlen ws ->
  0 <= j < b - a -> SliceRank64 ws a b tr j = Some (spec_SliceRank ws a j).
Proof.
  intros Hws Hab Hb Hj. unfold SliceRank64.
  destruct (Slice_spec_holds ws a b Hws Hab Hb) as (r & E & S). rewrite E.
  pose proof S as (O & L & _). pose proof (cdiv64_bounds (b - a)) as Hc. rewrite <- L in Hc.
  rewrite Rank64_exact by (try assumption; lia). unfold spec_Rank, spec_SliceRank.
  rewrite (slice_rank ws r a b Hab Hb S) by lia. rewrite (slice_bit ws r a b Hab Hb S) by lia.
  reflexivity.
Qed.

Theorem SliceNextOne_correct ws a b j : words_ok ws -> 0 <= a <= b -> b <= 64 * zlen ws ->
  0 <= j < b - a -> SliceNextOne ws a b j = Some (spec_SliceNext ws a b j).
Proof.
  intros Hws Hab Hb Hj. unfold SliceNextOne.
  destruct (Slice_spec_holds ws a b Hws Hab Hb) as (r & E & S). rewrite E.
  pose proof S as (O & L & _). pose proof (cdiv64_bounds (b - a)) as Hc. rewrite <- L in Hc.
  rewrite NextOne_exact by (try assumption; lia).
  now rewrite (slice_next ws r a b Hab Hb S) by lia.
Qed.

Theorem SlicePrevOne_correct ws a b j : words_ok ws -> 0 <= a <= b -> b <= 64 * zlen ws ->
  0 <= j < b - a -> SlicePrevOne ws a b j = Some (spec_SlicePrev ws a b j).
Proof.
  intros Hws Hab Hb Hj. unfold SlicePrevOne.
  destruct (Slice_spec_holds ws a b Hws Hab Hb) as (r & E & S). rewrite E.
  pose proof S as (O & L & _). pose proof (cdiv64_bounds (b - a)) as Hc. rewrite <- L in Hc.
  rewrite PrevOne_exact by (try assumption; lia).
  now rewrite (slice_prev ws r a b Hab Hb S) by lia.
Qed.
