(** C07 (widening): whole histories on ARBITRARY bytes.  Calling Unmarshal again and
    again on one reader until the first error, the model returns exactly the steps
    of the flat-stream specification and leaves exactly the bytes it says, for every
    chunking, every terminal condition and all three decoders of the harness (raw,
    BytesValue, picky raw) — no premise on the bytes, the decoder or the frames.
    Also: the protocol's compact description of a chunking ([chunks_of pat s]) is a
    chunking of [s] into non-empty chunks, so the statement covers exactly what the
    operation pbcmpl.Unmarshal/stream runs. *)
From Coq Require Import ZArith List Bool Lia.
From Low Require Import Lib.MachInt Lib.BitSeq Lib.Bytes Lib.Val
  Model.Pbcmpl Spec.PbcmplSpec Run.PbcmplOps
  Proofs.PbcmplIO Proofs.PbcmplHeader Proofs.PbcmplProofs Proofs.PbcmplMarshal Proofs.PbcmplFrames Proofs.PbcmplStream.
Import ListNotations.
Open Scope Z_scope.

(** ** [chunks_of] *)
Lemma chunk_by_ok pat (Hpat : forallb (fun k => 0 <? k) pat = true) : forall fuel cur s,
  forallb (fun k => 0 <? k) cur = true ->
  (2 * length s + (match cur with [] => 1 | _ => 0 end) <= fuel)%nat ->
  concat (chunk_by fuel pat cur s) = s /\ chunks_pos (chunk_by fuel pat cur s).
Proof.
  induction fuel as [|f IH]; intros cur s Hcur Hfuel.
  - destruct s; [split; [reflexivity|constructor]|]. cbn [length] in Hfuel. destruct cur; lia.
  - cbn [chunk_by]. destruct s as [|x s]; [split; [reflexivity|constructor]|].
    destruct cur as [|k cur'].
    + destruct pat as [|p pat'].
      * cbn [concat]. rewrite app_nil_r. split; [reflexivity|].
        constructor; [rewrite zlen_cons; pose proof (zlen_nonneg s); lia|constructor].
      * apply IH; [exact Hpat|]. cbv iota in *. lia.
    + cbn [forallb] in Hcur. apply andb_prop in Hcur. destruct Hcur as [Hk Hcur].
      apply Z.ltb_lt in Hk. destruct (Z.leb_spec k 0); [lia|].
      set (l := x :: s) in *.
      destruct (IH cur' (skipn (Z.to_nat k) l) Hcur) as [Hc Ho].
      { rewrite skipn_length. unfold l in *. cbn [length] in *. destruct cur'; cbv iota in *; lia. }
      cbn [concat]. rewrite Hc. split; [apply firstn_skipn|].
      constructor; [|exact Ho]. rewrite zlen_firstn by lia. unfold l. rewrite zlen_cons.
      pose proof (zlen_nonneg s). lia.
Qed.

Theorem chunks_of_pos pat s :
  all_pos pat = true -> concat (chunks_of pat s) = s /\ chunks_pos (chunks_of pat s).
Proof.
  intros Hpat. unfold chunks_of. apply chunk_by_ok; try exact Hpat. destruct pat; lia.
Qed.

Theorem chunks_of_ok pat s :
  all_pos pat = true -> concat (chunks_of pat s) = s /\ chunks_ok (chunks_of pat s).
Proof.
  intros Hpat. destruct (chunks_of_pos pat s Hpat) as [H1 H2]. split; [exact H1|apply chunks_pos_ok, H2].
Qed.

(** ** the history *)
Lemma div32_step a b : (b + 32 <= a)%nat -> (S (b / 32) <= a / 32)%nat.
Proof.
  intros H.
  assert (H1 : (b / 32 <= (a - 32) / 32)%nat) by (apply Nat.div_le_mono; lia).
  assert (H2 : a = (a - 32 + 1 * 32)%nat) by lia.
  rewrite H2 at 1. rewrite Nat.div_add by lia. lia.
Qed.

Section History.
  Variable kind : Z.

  Lemma c_stream_spec total t : forall fuel cs,
    chunks_ok cs -> bytes_ok (concat cs) -> zlen (concat cs) < 2 ^ 63 ->
    (S (S (length (concat cs) / 32)) <= fuel)%nat ->
    exists steps cs',
      c_stream fuel kind total (cs, t) = Some (steps, (cs', t))
      /\ chunks_ok cs'
      /\ spec_stream (k_dec kind) EEOF payload_opt fuel total (concat cs) t = (steps, concat cs').
  Proof.
    induction fuel as [|f IH]; intros cs Hok Hb Hlen Hfuel; [lia|].
    cbn [c_stream spec_stream]. unfold c_Unmarshal.
    destruct (Unmarshal_spec (list Z) (k_dec kind) grow_default grow_default_ok cs t (rd_fuel (cs, t)) Hok Hb Hlen)
      as (n & ver & err & m & cs1 & HU & Hok1 & HS).
    { unfold rd_fuel, rd_bytes. cbn [fst]. lia. }
    rewrite HU, HS. unfold rd_bytes. cbn [fst].
    destruct err as [e|].
    - exists [(n, ver, Some e, payload_opt m, total - zlen (concat cs1))], cs1.
      destruct m; auto.
    - (* success: at least 32 bytes were consumed *)
      destruct (spec_Unmarshal_ok_inv (list Z) (k_dec kind) EEOF (concat cs) t n ver m (concat cs1) Hb HS)
        as (body & msg & Hm & Hdec & Hn & (Hs & H32 & _)).
      assert (Hl : (length (concat cs1) + 32 <= length (concat cs))%nat).
      { pose proof (f_equal (@length Z) Hs) as HL. rewrite !app_length in HL. unfold zlen in H32. lia. }
      assert (Hb1 : bytes_ok (concat cs1)).
      { rewrite Hs in Hb. apply bytes_ok_app in Hb. destruct Hb as [_ Hb].
        apply bytes_ok_app in Hb. tauto. }
      destruct (IH cs1 Hok1 Hb1) as (steps & cs' & HC & Hok' & HSS).
      { unfold zlen in *. lia. }
      { pose proof (div32_step _ _ Hl). lia. }
      rewrite HC, HSS.
      exists ((n, ver, None, payload_opt m, total - zlen (concat cs1)) :: steps), cs'.
      destruct m; auto.
  Qed.

  (** Unmarshal until the first error = the specification's history, on any bytes *)
  Theorem c_Stream_spec cs t :
    chunks_ok cs -> bytes_ok (concat cs) -> zlen (concat cs) < 2 ^ 63 ->
    exists steps cs',
      c_Stream kind (cs, t) = Some (steps, (cs', t))
      /\ chunks_ok cs'
      /\ spec_Stream (k_dec kind) EEOF payload_opt (concat cs) t = (steps, concat cs').
  Proof.
    intros Hok Hb Hlen. unfold c_Stream, spec_Stream, stream_fuel, rd_bytes. cbn [fst].
    apply c_stream_spec; try assumption. lia.
  Qed.

  (** the same at the level of the protocol operation pbcmpl.Unmarshal/stream: on every
      in-domain argument the value computed from the model IS the value computed
      from the specification (with io.EOF for the cut after the header) *)
  Theorem v_stream_model_spec s pat t :
    bytes_ok s -> all_pos pat = true -> zlen s < 2 ^ 63 ->
    v_stream_model kind (chunks_of pat s, t) = v_stream_spec kind EEOF s t.
  Proof.
    intros Hb Hpat Hlen. destruct (chunks_of_ok pat s Hpat) as [Hc Hok].
    destruct (c_Stream_spec (chunks_of pat s) t Hok) as (steps & cs' & HC & Hok' & HS).
    { rewrite Hc. exact Hb. } { rewrite Hc. exact Hlen. }
    unfold v_stream_model, v_stream_spec. rewrite HC. rewrite Hc in HS. rewrite HS.
    unfold rd_bytes. cbn [fst]. reflexivity.
  Qed.
  (** ... and for an explicit chunk list, empty chunks (Reads returning (0, nil)) included:
      the operation pbcmpl.Unmarshal/chunks *)
  Theorem v_stream_model_chunks cs t :
    chunks_ok cs -> bytes_ok (concat cs) -> zlen (concat cs) < 2 ^ 63 ->
    v_stream_model kind (cs, t) = v_stream_spec kind EEOF (concat cs) t.
  Proof.
    intros Hok Hb Hlen.
    destruct (c_Stream_spec cs t Hok Hb Hlen) as (steps & cs' & HC & Hok' & HS).
    unfold v_stream_model, v_stream_spec. rewrite HC, HS.
    unfold rd_bytes. cbn [fst]. reflexivity.
  Qed.
End History.

(** ** the other two operations of C07, at the level of the protocol values *)
Theorem v_readheader_model_spec s pat t :
  bytes_ok s -> all_pos pat = true -> zlen s < 2 ^ 63 ->
  v_readheader_model (chunks_of pat s, t) = v_readheader (spec_ReadHeader s t).
Proof.
  intros Hb Hpat Hlen. destruct (chunks_of_ok pat s Hpat) as [Hc Hok].
  destruct (ReadHeader_spec (chunks_of pat s) t (rd_fuel (chunks_of pat s, t)) Hok)
    as (n & ho & err & cs' & HR & Hview & _ & _).
  { rewrite Hc. exact Hb. } { rewrite Hc. exact Hlen. }
  { unfold rd_fuel, rd_bytes. cbn [fst]. lia. }
  unfold v_readheader_model, c_ReadHeader. rewrite HR. rewrite Hc in Hview. rewrite <- Hview.
  destruct ho; reflexivity.
Qed.

Theorem v_marshal_model_spec kind script m :
  zlen (k_enc kind (snd m)) < 2 ^ 63 - 32 ->
  script_ok script [32; zlen (k_enc kind (snd m))] = true ->
  v_marshal_model kind script m = v_marshal_spec kind script m.
Proof.
  intros Hlen Hsc.
  pose proof (Marshal_spec (list Z) (k_enc kind) (snd m) (fst m) script Hlen Hsc) as H.
  unfold v_marshal_model, v_marshal_spec, s_Marshal.
  unfold spec_Marshal in *.
  destruct (zlen (ver_of (fst m)) >? 16).
  - rewrite H. reflexivity.
  - destruct (script_outcome script [32; zlen (k_enc kind (snd m))]) as [n failed].
    destruct H as (script' & H). rewrite H.
    unfold SizeOf, HeaderSizeOf, fixedSize. rewrite k_size_enc. reflexivity.
Qed.
