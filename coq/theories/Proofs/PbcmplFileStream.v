(** C18 widening, cross-package, part 4: the frames of a file read as a STREAM,
    repeated pbcmpl.Unmarshal through ONE iohelper.AtToReader(f, off).  Every
    call starts exactly where the previous one stopped (the reader advanced by
    the n it returned), so the calls compute, frame after frame, what
    [spec_Unmarshal] says of the bytes that are left -- for any file content. *)
From Coq Require Import ZArith List Bool Lia.
From Low Require Import Lib.MachInt Lib.BitSeq Lib.Bytes
  Model.SectionWriter Model.MemFile Model.SectionReader
  Model.Pbcmpl Spec.PbcmplSpec Model.PbcmplFile Spec.PbcmplFileSpec.
From Low Require Proofs.SectionIOProofs Proofs.PbcmplStream Proofs.PbcmplFileProofs.
Import ListNotations.
Open Scope Z_scope.

Module SIO := Proofs.SectionIOProofs.
Module PS := Proofs.PbcmplStream.
Module PFP := Proofs.PbcmplFileProofs.

Lemma eof_terminal_t_eof : eof_terminal = PFP.t_eof.
Proof. reflexivity. Qed.

Lemma stream_file_spec kind f o : 0 <= o -> zlen f < 2^63 - 1 -> bytes_ok f ->
  forall count s pos, SIO.RR o s pos ->
  stream_file count kind f s = Some (spec_stream_file count kind (PFP.rem f o pos)).
Proof.
  intros Ho Hf Hb. induction count as [|count IH]; intros s pos HR; [reflexivity|].
  cbn [stream_file spec_stream_file].
  destruct (PFP.Unmarshal_file_spec_at (list Z) (k_dec kind) grow_default PS.grow_default_ok
              f o s pos (file_fuel f) Ho Hf Hb HR ltac:(unfold file_fuel; lia))
    as (n & ver & err & m & s' & left & HU & HS & HR' & Hleft).
  rewrite HU. rewrite eof_terminal_t_eof, HS.
  destruct err as [e|].
  - destruct m; reflexivity.
  - rewrite (IH s' (pos + n) HR'). subst left. destruct m; reflexivity.
Qed.

(** from the start of AtToReader(f, o) *)
Theorem StreamAt_spec kind f o count :
  0 <= o <= 2^63 - 1 -> zlen f < 2^63 - 1 -> bytes_ok f ->
  StreamAt kind f o count = Some (spec_stream_file count kind (skipn (Z.to_nat o) f)).
Proof.
  intros Ho Hf Hb. unfold StreamAt.
  rewrite (stream_file_spec kind f o ltac:(lia) Hf Hb count (AtToReader o) 0).
  - unfold PFP.rem. now rewrite Z.add_0_r.
  - rewrite SIO.AtToReader_state by lia. unfold SIO.RR. cbn [rbase roff rlimit]. lia.
Qed.

(** * frames written back to back are read back as a stream *)
From Low Require Proofs.PbcmplFrames Proofs.PbcmplMarshal Proofs.PbcmplFileFrames.
Module PF := Proofs.PbcmplFrames.
Module PM := Proofs.PbcmplMarshal.
Module PFF := Proofs.PbcmplFileFrames.

Definition step_of (kind : Z) (m : option (list Z) * list Z) : Z * list Z * option perr * list Z :=
  (32 + zlen (k_enc kind (snd m)), ver_of (fst m), None, snd m).

(** on the bytes: [count] = number of frames, anything may follow *)
Lemma spec_stream_frames kind : kind = 0 \/ kind = 1 ->
  forall ms tail, Forall PS.msg_wf ms ->
  spec_stream_file (length ms) kind (wire_of (k_enc kind) ms ++ tail) = map (step_of kind) ms.
Proof.
  intros Hkind. induction ms as [|m ms IH]; intros tail Hwf; [reflexivity|].
  inversion Hwf as [|? ? Hm Hwf']; subst.
  cbn [length spec_stream_file map]. rewrite PS.wire_of_cons, <- app_assoc.
  destruct (PS.msg_wf_ver m Hm) as [Hv Hnul]. destruct Hm as (_ & _ & _ & Hpl).
  unfold frame_of.
  rewrite (PF.spec_Unmarshal_frame (list Z) (k_dec kind) EEOF (ver_of (fst m)) (k_enc kind (snd m))
             (wire_of (k_enc kind) ms ++ tail) eof_terminal (snd m) Hv Hnul).
  - cbn [payload_opt]. unfold step_of at 1. f_equal. now apply IH.
  - pose proof (PS.k_enc_len kind (snd m) Hpl). lia.
  - apply PS.k_dec_enc; [exact Hkind|lia].
  - unfold PF.term_ok, eof_terminal. cbn [t_with_last]. auto.
Qed.

(** consecutive placements: each starts where the previous one ends *)
Fixpoint chained (kind : Z) (a : Z) (ps : list placement) : Prop :=
  match ps with
  | [] => True
  | p :: t => fst p = a /\ chained kind (PFF.place_end kind p) t
  end.

Lemma holds_chain kind g : forall ps a, 0 <= a -> Forall PFF.place_ok ps -> chained kind a ps ->
  Forall (fun p => PFF.holds g (fst p) (PFF.place_frame kind p)) ps ->
  exists tail, skipn (Z.to_nat a) g = wire_of (k_enc kind) (map snd ps) ++ tail.
Proof.
  induction ps as [|p ps IH]; intros a Ha Hok Hch Hh.
  - exists (skipn (Z.to_nat a) g). reflexivity.
  - inversion Hok as [|? ? Hp Hok']; subst. inversion Hh as [|? ? Hhp Hh']; subst.
    destruct Hch as [Hpa Hch].
    pose proof (PFF.holds_skipn g (fst p) _ ltac:(lia) Hhp) as Hsk.
    rewrite (PFF.zlen_place_frame kind p Hp) in Hsk.
    replace (fst p + (PFF.place_end kind p - fst p)) with (PFF.place_end kind p) in Hsk by lia.
    destruct (IH (PFF.place_end kind p)) as (tail & Htail); auto.
    { unfold PFF.place_end. destruct Hp as [H0 _].
      pose proof (Proofs.SectionWriterProofs.zlen_nonneg (k_enc kind (snd (snd p)))). lia. }
    exists tail. rewrite <- Hpa. rewrite Hsk, Htail. cbn [map]. rewrite PS.wire_of_cons.
    rewrite <- app_assoc. reflexivity.
Qed.

(** frames marshalled back to back from offset o through AtToWriter, read back through ONE
    AtToReader(f', o): one frame per Unmarshal call, in order *)
Theorem marshal_all_stream kind B ps f o :
  kind = 0 \/ kind = 1 -> B < 2^63 - 1 -> 0 <= o <= 2^63 - 1 ->
  Forall PFF.place_ok ps -> Forall (fun p => PFF.place_end kind p <= B) ps ->
  PFF.pairwise_clear kind ps -> chained kind o ps ->
  bytes_ok f -> zlen f <= B ->
  exists rs f',
    marshal_all kind f ps = Some (rs, f')
    /\ StreamAt kind f' o (length ps) = Some (map (step_of kind) (map snd ps)).
Proof.
  intros Hkind HB Ho Hok Hend Hclear Hch Hfb Hfl.
  destruct (PFF.marshal_all_spec kind B HB ps f Hok Hend Hclear Hfb Hfl)
    as (rs & f' & HMA & _ & Hb' & Hl' & Hall & _ & _).
  exists rs, f'. split; [exact HMA|].
  destruct (holds_chain kind f' ps o ltac:(lia) Hok Hch Hall) as (tail & Hsk).
  rewrite (StreamAt_spec kind f' o (length ps) ltac:(lia) ltac:(lia) Hb').
  rewrite Hsk. f_equal.
  replace (length ps) with (length (map snd ps)) by apply map_length.
  apply spec_stream_frames; [exact Hkind|].
  apply Forall_forall. intros m Hin. apply in_map_iff in Hin. destruct Hin as (p & <- & Hp).
  exact (proj2 (proj1 (Forall_forall _ _) Hok p Hp)).
Qed.
