(** C06 / C07, part 2: the 32-byte header.  encoding/binary's little-endian
    PutUint64 / Uint64 (shifts and ors, as modelled) against base-256 digits and
    their value; verStr's backwards scan against "the field without its trailing
    NULs"; the getters' uint64 -> int64 conversions; newHeader + header.Marshal
    against the specification's [frame_header]; header.Unmarshal on the first 32
    bytes of any stream. *)
From Coq Require Import ZArith List Bool Lia.
From Low Require Import Lib.MachInt Lib.BitSeq Lib.Bytes Lib.BitsExtra_tree
  Model.Pbcmpl Spec.PbcmplSpec Proofs.PbcmplIO.
Import ListNotations.
Open Scope Z_scope.

(** ** base-256 digits *)
Definition le_digits (n : nat) (x : Z) : list Z :=
  map (fun i => (x / 256 ^ Z.of_nat i) mod 256) (seq 0 n).

Lemma le64_digits x : le64 x = le_digits 8 x.
Proof. reflexivity. Qed.

Lemma le_digits_S n x : le_digits (S n) x = x mod 256 :: le_digits n (x / 256).
Proof.
  unfold le_digits. cbn [seq map]. f_equal.
  - change (256 ^ Z.of_nat 0) with 1. rewrite Z.div_1_r. reflexivity.
  - rewrite <- seq_shift, map_map. apply map_ext. intros i.
    rewrite Nat2Z.inj_succ, Z.pow_succ_r by lia.
    rewrite Z.div_div by (try apply Z.pow_pos_nonneg; lia). reflexivity.
Qed.

Lemma le_digits_length n x : length (le_digits n x) = n.
Proof. unfold le_digits. rewrite map_length, seq_length. reflexivity. Qed.

Lemma le_digits_bytes n x : bytes_ok (le_digits n x).
Proof.
  unfold le_digits, bytes_ok. apply Forall_forall. intros d Hd.
  apply in_map_iff in Hd. destruct Hd as (i & <- & _). unfold byte_ok.
  apply Z.mod_pos_bound. lia.
Qed.

Lemma le_val_digits n : forall x, le_val (le_digits n x) = x mod 256 ^ Z.of_nat n.
Proof.
  induction n as [|n IH]; intros x.
  - cbn [le_digits seq map le_val]. change (256 ^ Z.of_nat 0) with 1. rewrite Z.mod_1_r. reflexivity.
  - rewrite le_digits_S. cbn [le_val]. rewrite IH.
    rewrite Nat2Z.inj_succ, Z.pow_succ_r by lia.
    rewrite Z.rem_mul_r by (try apply Z.pow_nonzero; try apply Z.pow_pos_nonneg; lia).
    reflexivity.
Qed.

Lemma le_val_le64 x : 0 <= x < 2 ^ 64 -> le_val (le64 x) = x.
Proof.
  intros. rewrite le64_digits, le_val_digits. change (256 ^ Z.of_nat 8) with (2 ^ 64).
  apply Z.mod_small. assumption.
Qed.

Lemma le64_length x : length (le64 x) = 8%nat.
Proof. apply le_digits_length. Qed.

Lemma zlen_le64 x : zlen (le64 x) = 8.
Proof. unfold zlen. rewrite le64_length. reflexivity. Qed.

Lemma le64_bytes x : bytes_ok (le64 x).
Proof. apply le_digits_bytes. Qed.

Lemma le_val_range b : bytes_ok b -> 0 <= le_val b < 256 ^ zlen b.
Proof.
  induction 1 as [|x b Hx _ IH].
  - cbn. lia.
  - cbn [le_val]. rewrite zlen_cons. rewrite Z.pow_add_r by (try apply zlen_nonneg; lia).
    change (256 ^ 1) with 256. unfold byte_ok in Hx. nia.
Qed.

(** binary.LittleEndian.PutUint64 writes the base-256 digits *)
Lemma put_u64le_le64 v : put_u64le v = le64 v.
Proof.
  unfold put_u64le, le64, u8. cbn [seq map].
  repeat (f_equal; [try reflexivity|]); try reflexivity.
  change (256 ^ Z.of_nat 0) with 1. rewrite Z.div_1_r. reflexivity.
Qed.

Lemma lor_lo_hi lo hi k : 0 <= k -> 0 <= lo < 2 ^ k -> Z.lor lo (hi * 2 ^ k) = lo + hi * 2 ^ k.
Proof. intros. rewrite Z.lor_comm, lor_hi_lo by assumption. lia. Qed.

(** binary.LittleEndian.Uint64 on 8 bytes is their base-256 value *)
Lemma get_u64le_le_val b : bytes_ok b -> length b = 8%nat -> get_u64le b = le_val b.
Proof.
  intros Hb Hl.
  destruct b as [|b0 [|b1 [|b2 [|b3 [|b4 [|b5 [|b6 [|b7 [|? ?]]]]]]]]]; try discriminate.
  repeat match goal with H : bytes_ok (_ :: _) |- _ => inversion H; subst; clear H end.
  repeat match goal with H : Forall _ (_ :: _) |- _ => inversion H; subst; clear H end.
  unfold byte_ok in *.
  unfold get_u64le. cbn [nth le_val].
  rewrite !shl64_small by lia.
  rewrite (lor_lo_hi (b6 * 2 ^ 48) b7 56) by lia.
  replace (b6 * 2 ^ 48 + b7 * 2 ^ 56) with ((b6 + b7 * 2 ^ 8) * 2 ^ 48) by lia.
  rewrite (lor_lo_hi (b5 * 2 ^ 40) _ 48) by lia.
  replace (b5 * 2 ^ 40 + (b6 + b7 * 2 ^ 8) * 2 ^ 48)
    with ((b5 + b6 * 2 ^ 8 + b7 * 2 ^ 16) * 2 ^ 40) by lia.
  rewrite (lor_lo_hi (b4 * 2 ^ 32) _ 40) by lia.
  replace (b4 * 2 ^ 32 + (b5 + b6 * 2 ^ 8 + b7 * 2 ^ 16) * 2 ^ 40)
    with ((b4 + b5 * 2 ^ 8 + b6 * 2 ^ 16 + b7 * 2 ^ 24) * 2 ^ 32) by lia.
  rewrite (lor_lo_hi (b3 * 2 ^ 24) _ 32) by lia.
  replace (b3 * 2 ^ 24 + (b4 + b5 * 2 ^ 8 + b6 * 2 ^ 16 + b7 * 2 ^ 24) * 2 ^ 32)
    with ((b3 + b4 * 2 ^ 8 + b5 * 2 ^ 16 + b6 * 2 ^ 24 + b7 * 2 ^ 32) * 2 ^ 24) by lia.
  rewrite (lor_lo_hi (b2 * 2 ^ 16) _ 24) by lia.
  replace (b2 * 2 ^ 16 + (b3 + b4 * 2 ^ 8 + b5 * 2 ^ 16 + b6 * 2 ^ 24 + b7 * 2 ^ 32) * 2 ^ 24)
    with ((b2 + b3 * 2 ^ 8 + b4 * 2 ^ 16 + b5 * 2 ^ 24 + b6 * 2 ^ 32 + b7 * 2 ^ 40) * 2 ^ 16) by lia.
  rewrite (lor_lo_hi (b1 * 2 ^ 8) _ 16) by lia.
  replace (b1 * 2 ^ 8 + (b2 + b3 * 2 ^ 8 + b4 * 2 ^ 16 + b5 * 2 ^ 24 + b6 * 2 ^ 32 + b7 * 2 ^ 40) * 2 ^ 16)
    with ((b1 + b2 * 2 ^ 8 + b3 * 2 ^ 16 + b4 * 2 ^ 24 + b5 * 2 ^ 32 + b6 * 2 ^ 40 + b7 * 2 ^ 48) * 2 ^ 8) by lia.
  rewrite (lor_lo_hi b0 _ 8) by lia.
  lia.
Qed.

(** the getters' int64(uint64) conversion *)
Lemma i64_as_int64 x : 0 <= x < 2 ^ 64 -> i64 x = as_int64 x.
Proof.
  intros. unfold i64, as_int64. destruct (Z.geb_spec x (2 ^ 63)).
  - replace (x + 2 ^ 63) with ((x - 2 ^ 63) + 1 * 2 ^ 64) by lia.
    rewrite Z.mod_add by lia. rewrite Z.mod_small by lia. lia.
  - rewrite Z.mod_small by lia. lia.
Qed.

(** ** verStr *)
Lemma verStr_end_le buf k : (verStr_end buf k <= k)%nat.
Proof. induction k as [|k IH]; cbn [verStr_end]; [lia|]. destruct (_ =? 0); lia. Qed.

Lemma verStr_end_app buf x k : (k <= length buf)%nat -> verStr_end (buf ++ [x]) k = verStr_end buf k.
Proof.
  induction k as [|k IH]; intros Hk; cbn [verStr_end]; [reflexivity|].
  rewrite app_nth1 by lia. rewrite IH by lia. reflexivity.
Qed.

Lemma verStr_snoc l x : verStr (l ++ [x]) = if x =? 0 then verStr l else l ++ [x].
Proof.
  unfold verStr. rewrite app_length. cbn [length]. rewrite Nat.add_1_r. cbn [verStr_end].
  rewrite app_nth2 by lia. rewrite Nat.sub_diag. cbn [nth].
  destruct (x =? 0).
  - rewrite verStr_end_app by lia. rewrite firstn_app.
    pose proof (verStr_end_le l (length l)).
    replace (verStr_end l (length l) - length l)%nat with 0%nat by lia.
    cbn [firstn]. apply app_nil_r.
  - apply firstn_all2. rewrite app_length. cbn [length]. lia.
Qed.

Lemma strip_nul_snoc l x : strip_nul (l ++ [x]) = if x =? 0 then strip_nul l else l ++ [x].
Proof.
  unfold strip_nul. rewrite rev_app_distr. cbn [rev app drop_zeros].
  destruct (x =? 0); [reflexivity|]. cbn [rev]. rewrite rev_involutive. reflexivity.
Qed.

(** the loop computes the field without its trailing NULs *)
Lemma verStr_strip_nul l : verStr l = strip_nul l.
Proof.
  induction l as [|x l IH] using rev_ind; [reflexivity|].
  rewrite verStr_snoc, strip_nul_snoc, IH. reflexivity.
Qed.

Lemma strip_nul_id v : no_trailing_nul v = true -> strip_nul v = v.
Proof.
  destruct v as [|x l _] using rev_ind; intros H; [reflexivity|].
  unfold no_trailing_nul in H. rewrite last_last in H. rewrite strip_nul_snoc.
  destruct (x =? 0); [discriminate|reflexivity].
Qed.

Lemma strip_nul_pad v k : no_trailing_nul v = true -> strip_nul (v ++ repeat 0 k) = v.
Proof.
  intros H. induction k as [|k IH].
  - cbn [repeat]. rewrite app_nil_r. apply strip_nul_id. assumption.
  - replace (repeat 0 (S k)) with (repeat 0 k ++ [0]).
    + rewrite app_assoc, strip_nul_snoc. cbn. exact IH.
    + symmetry. apply (repeat_cons k 0).
Qed.

Lemma strip_nul_pad_gen v k : strip_nul (v ++ repeat 0 k) = strip_nul v.
Proof.
  induction k as [|k IH].
  - cbn [repeat]. rewrite app_nil_r. reflexivity.
  - replace (repeat 0 (S k)) with (repeat 0 k ++ [0]).
    + rewrite app_assoc, strip_nul_snoc. cbn. exact IH.
    + symmetry. apply (repeat_cons k 0).
Qed.

(** ** header.Marshal of newHeader is the specification's frame header *)
Lemma zlen_pad16 v : zlen v <= 16 -> zlen (pad16 v) = 16.
Proof. intros. unfold pad16. rewrite zlen_app, zlen_repeat. unfold zlen in *. lia. Qed.

Lemma zlen_frame_header v bs : zlen v <= 16 -> zlen (frame_header v bs) = 32.
Proof. intros. unfold frame_header. rewrite !zlen_app, !zlen_le64, zlen_pad16 by assumption. lia. Qed.

Lemma newHeader_Marshal ver bs :
  zlen ver <= 16 ->
  exists h, newHeader ver bs = Some h /\ header_Marshal h = frame_header ver bs.
Proof.
  intros Hv. unfold newHeader. unfold versionLen.
  destruct (Z.gtb_spec (zlen ver) 16); [lia|].
  eexists. split; [reflexivity|].
  unfold header_Marshal, frame_header. cbn [Version HeaderSize BodySize].
  rewrite !put_u64le_le64. f_equal.
  unfold pad16. f_equal. f_equal. unfold zlen. lia.
Qed.

Lemma newHeader_None ver bs : 16 < zlen ver -> newHeader ver bs = None.
Proof.
  intros. unfold newHeader, versionLen. destruct (Z.gtb_spec (zlen ver) 16); [reflexivity|lia].
Qed.

Lemma frame_header_bytes ver bs : bytes_ok ver -> bytes_ok (frame_header ver bs).
Proof.
  intros Hv. unfold frame_header, pad16, bytes_ok. rewrite !Forall_app. repeat split.
  - exact Hv.
  - apply Forall_forall. intros x Hx. apply repeat_spec in Hx. subst. unfold byte_ok. lia.
  - apply le64_bytes.
  - apply le64_bytes.
Qed.

(** ** header.Unmarshal + the getters on the first 32 bytes of a stream *)
Lemma firstn_skipn_firstn {A} a b c (l : list A) :
  (a + b <= c)%nat -> firstn a (skipn b (firstn c l)) = firstn a (skipn b l).
Proof.
  intros. rewrite skipn_firstn_comm, firstn_firstn. f_equal. lia.
Qed.

Lemma bytes_ok_firstn n s : bytes_ok s -> bytes_ok (firstn n s).
Proof.
  unfold bytes_ok. intros H. rewrite <- (firstn_skipn n s) in H. apply Forall_app in H. tauto.
Qed.

Lemma bytes_ok_skipn n s : bytes_ok s -> bytes_ok (skipn n s).
Proof.
  unfold bytes_ok. intros H. rewrite <- (firstn_skipn n s) in H. apply Forall_app in H. tauto.
Qed.

Lemma field8_length (s : list Z) a : a + 8 <= zlen s -> 0 <= a ->
  length (firstn 8 (skipn (Z.to_nat a) s)) = 8%nat.
Proof. intros. rewrite firstn_length, skipn_length. unfold zlen in *. lia. Qed.

Theorem header_of_stream s :
  bytes_ok s -> 32 <= zlen s ->
  let h := header_Unmarshal (firstn 32 s) in
  GetVersion h = strip_nul (firstn 16 s)
  /\ GetHeaderSize h = as_int64 (le_val (firstn 8 (skipn 16 s)))
  /\ GetBodySize h = as_int64 (le_val (firstn 8 (skipn 24 s)))
  /\ 0 <= le_val (firstn 8 (skipn 16 s)) < 2 ^ 64
  /\ 0 <= le_val (firstn 8 (skipn 24 s)) < 2 ^ 64.
Proof.
  intros Hb Hl h. unfold h, GetVersion, GetHeaderSize, GetBodySize, header_Unmarshal.
  cbn [Version HeaderSize BodySize].
  rewrite !firstn_skipn_firstn by lia. rewrite firstn_firstn. cbn [Nat.min].
  assert (L16 : length (firstn 8 (skipn 16 s)) = 8%nat) by (apply (field8_length s 16); lia).
  assert (L24 : length (firstn 8 (skipn 24 s)) = 8%nat) by (apply (field8_length s 24); lia).
  assert (B16 : bytes_ok (firstn 8 (skipn 16 s))) by (apply bytes_ok_firstn, bytes_ok_skipn, Hb).
  assert (B24 : bytes_ok (firstn 8 (skipn 24 s))) by (apply bytes_ok_firstn, bytes_ok_skipn, Hb).
  assert (R16 := le_val_range _ B16). assert (R24 := le_val_range _ B24).
  unfold zlen in R16, R24. rewrite L16 in R16. rewrite L24 in R24.
  change (256 ^ Z.of_nat 8) with (2 ^ 64) in *.
  rewrite !get_u64le_le_val by assumption.
  rewrite !i64_as_int64 by assumption.
  rewrite verStr_strip_nul. auto.
Qed.

Lemma firstn_app_exact {A} (a b : list A) n : length a = n -> firstn n (a ++ b) = a.
Proof.
  intros <-. rewrite firstn_app, Nat.sub_diag, firstn_all. cbn [firstn]. apply app_nil_r.
Qed.

Lemma skipn_app_exact {A} (a b : list A) n : length a = n -> skipn n (a ++ b) = b.
Proof.
  intros <-. rewrite skipn_app, Nat.sub_diag, skipn_all. reflexivity.
Qed.

(** what the specification's frame header parses back to *)
Lemma frame_header_fields ver bs tail :
  zlen ver <= 16 -> 0 <= bs < 2 ^ 64 ->
  let s := frame_header ver bs ++ tail in
  firstn 16 s = pad16 ver
  /\ le_val (firstn 8 (skipn 16 s)) = 32
  /\ le_val (firstn 8 (skipn 24 s)) = bs
  /\ skipn 32 s = tail.
Proof.
  intros Hv Hbs s. unfold s, frame_header.
  assert (L : length (pad16 ver) = 16%nat).
  { pose proof (zlen_pad16 ver Hv) as H. unfold zlen in H. lia. }
  assert (L24 : length (pad16 ver ++ le64 32) = 24%nat).
  { rewrite app_length, L, le64_length. reflexivity. }
  assert (L32 : length (pad16 ver ++ le64 32 ++ le64 bs) = 32%nat).
  { rewrite !app_length, L, !le64_length. reflexivity. }
  repeat split.
  - rewrite <- app_assoc. apply firstn_app_exact, L.
  - rewrite <- !app_assoc. rewrite (skipn_app_exact _ _ 16 L).
    rewrite (firstn_app_exact _ _ 8 (le64_length 32)). apply le_val_le64. lia.
  - rewrite <- !app_assoc. rewrite (app_assoc (pad16 ver)).
    rewrite (skipn_app_exact _ _ 24 L24).
    rewrite (firstn_app_exact _ _ 8 (le64_length bs)). apply le_val_le64. assumption.
  - apply (skipn_app_exact _ _ 32 L32).
Qed.
