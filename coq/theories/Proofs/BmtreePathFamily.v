(** C10 widening: family relations on path words.  A node's word is below the
    words of its children, the left child's below the right child's, and the
    words of the sub-tree of q are exactly the words in the half-open interval
    [enc q, enc (next_out q)) — all through numeric order = pre-order. *)
From Coq Require Import ZArith List Lia Bool.
From Low Require Import Lib.MachInt Lib.Bits Lib.BitSeq Lib.Lex Lib.Bytes Lib.BitsExtra_tree
  Spec.Bmtree Spec.PathSpec Spec.PathWideSpec Model.BmtreePath Proofs.BmtreePathProofs.
Import ListNotations.
Open Scope Z_scope.

Lemma is_prefix_app q s : is_prefix q (q ++ s) = true.
Proof. induction q as [|b q IH]; cbn [is_prefix app]; [reflexivity|]. now rewrite eqb_reflx, IH. Qed.

Lemma is_prefix_iff q r : is_prefix q r = true <-> exists s, r = q ++ s.
Proof.
  split.
  - revert r. induction q as [|b q IH]; intros r H; [now exists r|].
    destruct r as [|c r]; cbn [is_prefix] in H; [discriminate|].
    apply andb_prop in H. destruct H as [Hb Hq]. apply eqb_prop in Hb. subst c.
    destruct (IH r Hq) as (s & ->). now exists s.
  - intros (s & ->). apply is_prefix_app.
Qed.

Lemma next_out_length : forall q n, next_out q = Some n -> (1 <= length n <= length q)%nat.
Proof.
  induction q as [|b q IH]; intros n H; cbn [next_out] in H; [discriminate|].
  destruct (next_out q) as [m|] eqn:E.
  - injection H as <-. specialize (IH m eq_refl). cbn [length]. lia.
  - destruct b; [discriminate|]. injection H as <-. cbn [length]. lia.
Qed.

(** the sub-tree of q in pre-order: from q (inclusive) to next_out q (exclusive) *)
Lemma prefix_interval : forall q r,
  is_prefix q r = true <->
  bits_cmp q r <> Gt /\ match next_out q with Some n => bits_cmp r n = Lt | None => True end.
Proof.
  unfold bits_cmp. induction q as [|b q IH]; intros r.
  - cbn [is_prefix next_out]. split; [intros _|reflexivity].
    split; [|exact I]. destruct r; cbn [lex_cmp]; congruence.
  - destruct r as [|c r].
    + cbn [is_prefix lex_cmp]. split; [discriminate|]. intros [H _]. congruence.
    + cbn [is_prefix next_out lex_cmp]. specialize (IH r).
      destruct b, c; cbn [Bool.eqb andb bool_cmp].
      * rewrite IH. destruct (next_out q) as [n|]; cbn [lex_cmp bool_cmp]; tauto.
      * split; [discriminate|]. intros [H _]. congruence.
      * split; [discriminate|]. intros [_ H].
        destruct (next_out q) as [n|]; cbn [lex_cmp bool_cmp] in H; [discriminate|].
        destruct r; discriminate.
      * rewrite IH. destruct (next_out q) as [n|]; cbn [lex_cmp bool_cmp]; tauto.
Qed.

Lemma compare_le_iff a b : a <= b <-> (a ?= b) <> Gt.
Proof. unfold Z.le. tauto. Qed.

(** * on words *)
Lemma enc_parent_child h q b : (h <= 32)%nat -> (length q < h)%nat ->
  enc h q < enc h (q ++ [b]).
Proof.
  intros Hh Hl. apply enc_lt_iff; [exact Hh|lia|rewrite app_length; cbn [length]; lia|].
  apply pre_lt_descendant.
Qed.

Lemma enc_left_right h q : (h <= 32)%nat -> (length q < h)%nat ->
  enc h (q ++ [false]) < enc h (q ++ [true]).
Proof.
  intros Hh Hl. apply enc_lt_iff; [exact Hh|rewrite app_length; cbn [length]; lia..|].
  apply pre_lt_left_right.
Qed.

(** the child's word from the parent's word: one more mask bit, and the
    child's own bit just above ... in the upper half *)
Lemma enc_child_word h q b : (length q < h)%nat ->
  enc h (q ++ [b]) =
  enc h q + Z.b2z b * 2 ^ (32 + (Z.of_nat h - Z.of_nat (length q) - 1)) + 2 ^ (Z.of_nat h - Z.of_nat (length q) - 1).
Proof.
  intros Hl. unfold enc, valL, Mask. rewrite app_length, val_msb_snoc. cbn [length].
  set (d := Z.of_nat h - Z.of_nat (length q) - 1).
  replace (Z.of_nat h - Z.of_nat (length q + 1)) with d by (unfold d; lia).
  replace (Z.of_nat h - Z.of_nat (length q)) with (d + 1) by (unfold d; lia).
  replace (Z.of_nat (length q + 1)) with (Z.of_nat (length q) + 1) by lia.
  assert (Hd : 0 <= d) by (unfold d; lia).
  rewrite !Z.pow_add_r by lia. change (2 ^ 1) with 2. lia.
Qed.

Lemma subtree_interval h q r n : (h <= 32)%nat -> (length q <= h)%nat -> (length r <= h)%nat ->
  next_out q = Some n ->
  (enc h q <= enc h r < enc h n <-> is_prefix q r = true).
Proof.
  intros Hh Hq Hr Hn. pose proof (next_out_length q n Hn) as Hln.
  rewrite prefix_interval, Hn.
  rewrite compare_le_iff, (enc_compare q h r) by assumption.
  rewrite <- (enc_compare r h n) by (assumption || lia).
  rewrite Z.compare_lt_iff. tauto.
Qed.

Lemma subtree_interval_spine h q r : (h <= 32)%nat -> (length q <= h)%nat -> (length r <= h)%nat ->
  next_out q = None ->
  (enc h q <= enc h r <-> is_prefix q r = true).
Proof.
  intros Hh Hq Hr Hn. rewrite prefix_interval, Hn.
  rewrite compare_le_iff, (enc_compare q h r) by assumption. tauto.
Qed.

(** the words of the children lie strictly between the node's word and the
    word of the next node outside its sub-tree *)
Lemma children_between h q b n : (h <= 32)%nat -> (length q < h)%nat -> next_out q = Some n ->
  enc h q < enc h (q ++ [b]) < enc h n.
Proof.
  intros Hh Hl Hn. split; [now apply enc_parent_child|].
  apply (subtree_interval h q (q ++ [b]) n); [exact Hh|lia|rewrite app_length; cbn [length]; lia|exact Hn|].
  apply is_prefix_app.
Qed.

Lemma enc_lt_next h q n : (h <= 32)%nat -> (length q <= h)%nat -> next_out q = Some n -> enc h q < enc h n.
Proof.
  intros Hh Hl Hn.
  apply (subtree_interval h q q n); [exact Hh|lia|lia|exact Hn|].
  rewrite <- (app_nil_r q) at 2. apply is_prefix_app.
Qed.

(** the checker of the [bmtree.NewPath/family] operation accepts the words of the model *)
Lemma family_ok_model h q r : (h <= 32)%nat -> (length q <= h)%nat -> (length r <= h)%nat ->
  family_ok (Z.of_nat h) q r (enc h q)
    (if (length q <? h)%nat then Some (enc h (q ++ [false])) else None)
    (if (length q <? h)%nat then Some (enc h (q ++ [true])) else None)
    (option_map (enc h) (next_out q)) (enc h r) = true.
Proof.
  intros Hh Hq Hr. unfold family_ok, zlen.
  apply andb_true_intro. split; [apply andb_true_intro; split|].
  - destruct (Nat.ltb_spec (length q) h) as [Hlt|Hge].
    + pose proof (enc_parent_child h q false Hh Hlt). pose proof (enc_left_right h q Hh Hlt).
      destruct (next_out q) as [n|] eqn:En; cbn [option_map].
      * pose proof (children_between h q true n Hh Hlt En).
        repeat (apply andb_true_intro; split); apply Z.ltb_lt; lia.
      * repeat (apply andb_true_intro; split); try reflexivity; apply Z.ltb_lt; lia.
    + apply Z.eqb_eq. lia.
  - destruct (next_out q) as [n|] eqn:En; cbn [option_map]; [|reflexivity].
    apply Z.ltb_lt. now apply (enc_lt_next h q n).
  - destruct (next_out q) as [n|] eqn:En; cbn [option_map].
    + pose proof (subtree_interval h q r n Hh Hq Hr En) as Hi.
      destruct (is_prefix q r).
      * destruct Hi as [_ Hi]. specialize (Hi eq_refl).
        replace (enc h q <=? enc h r) with true by (symmetry; apply Z.leb_le; lia).
        replace (enc h r <? enc h n) with true by (symmetry; apply Z.ltb_lt; lia). reflexivity.
      * destruct (Z.leb_spec (enc h q) (enc h r)); destruct (Z.ltb_spec (enc h r) (enc h n)); cbn [andb Bool.eqb]; try reflexivity.
        destruct Hi as [Hi _]. discriminate Hi. lia.
    + pose proof (subtree_interval_spine h q r Hh Hq Hr En) as Hi. rewrite andb_true_r.
      destruct (is_prefix q r).
      * destruct Hi as [_ Hi]. specialize (Hi eq_refl).
        replace (enc h q <=? enc h r) with true by (symmetry; apply Z.leb_le; lia). reflexivity.
      * destruct (Z.leb_spec (enc h q) (enc h r)); cbn [Bool.eqb]; try reflexivity.
        destruct Hi as [Hi _]. discriminate Hi. lia.
Qed.
