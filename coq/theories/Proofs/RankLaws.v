(** C01 widening (b): the laws of rank, over the model functions of bitmap/rank.go.

    Everything follows from one total characterisation ([query_total]): with a freshly built index of
    either flavour, a query returns [(count before i, bit i)] for every position inside the bitmap and
    panics for every other integer. *)
From Coq Require Import ZArith List Lia Bool.
From Low Require Import Lib.MachInt Lib.Bits Lib.BitSeq Lib.MachIntExtra_w01
  Model.Rank Model.Rank32 Model.RankOps Spec.RankSpec Spec.RankLawsSpec Proofs.RankProofs Proofs.Rank32Proofs.
Import ListNotations.
Open Scope Z_scope.

(** * the unbounded model on every integer position *)
Lemma shiftr6_out (ws : list Z) i : ~ (0 <= i < 64 * zlen ws) -> Z.shiftr i 6 < 0 \/ zlen ws <= Z.shiftr i 6.
Proof. intros H. rewrite <- (sar32_shiftr i 6) by lia. now apply sar32_6_out. Qed.

Lemma Rank64_out ws ridx i : ~ (0 <= i < 64 * zlen ws) -> Rank64 ws ridx i = None.
Proof.
  intros H. unfold Rank64. rewrite (nthZ_out ws) by (apply shiftr6_out, H).
  now destruct (nthZ ridx (Z.shiftr i 6)).
Qed.

Lemma Rank128_out ws ridx i : ~ (0 <= i < 64 * zlen ws) -> Rank128 ws ridx i = None.
Proof.
  intros H. unfold Rank128. rewrite (nthZ_out ws) by (apply shiftr6_out, H).
  now destruct (nthZ ridx (Z.shiftr (i + 64) 7)).
Qed.

Theorem query_total f ws i : words_ok ws -> query f ws i = spec_query ws i.
Proof.
  intros Hok. unfold spec_query, pos_in.
  destruct (Z.leb_spec 0 i) as [H0|H0]; cbn [andb].
  - destruct (Z.ltb_spec i (64 * zlen ws)) as [H1|H1].
    + destruct f; cbn [query]; [rewrite Rank64_exact|rewrite Rank128_exact]; (assumption || lia || reflexivity).
    + destruct f; cbn [query]; [apply Rank64_out|apply Rank128_out]; lia.
  - destruct f; cbn [query]; [apply Rank64_out|apply Rank128_out]; lia.
Qed.

Theorem query32_total f ws i : words_ok ws -> - 2^31 <= i < 2^31 ->
  query32 f ws i = spec_query32 (is128 f) ws i.
Proof.
  intros Hok Hi. unfold spec_query32, spec_query. destruct f; cbn [query32 is128 negb orb].
  - rewrite Rank64_32_exact by assumption. rewrite andb_true_r. now destruct (pos_in ws i).
  - rewrite Rank128_32_exact by assumption.
    destruct (pos_in ws i); cbn [andb]; [|reflexivity]. now destruct (i <? 2^31 - 64).
Qed.

(** the flavours cannot be told apart, on any integer *)
Theorem law_agree f f' ws i : words_ok ws -> query f ws i = query f' ws i.
Proof. intros H. now rewrite !query_total. Qed.

Lemma spec_query_Some ws i r b : spec_query ws i = Some (r, b) ->
  0 <= i < 64 * zlen ws /\ r = rank1z (flat ws) i /\ b = Z.b2z (bitz (flat ws) i).
Proof.
  unfold spec_query, pos_in. destruct (Z.leb_spec 0 i); cbn [andb]; [|discriminate].
  destruct (Z.ltb_spec i (64 * zlen ws)); [|discriminate].
  intros E. injection E as <- <-. repeat split; lia.
Qed.

Lemma query_Some f ws i r b : words_ok ws -> query f ws i = Some (r, b) ->
  0 <= i < 64 * zlen ws /\ r = rank1z (flat ws) i /\ b = Z.b2z (bitz (flat ws) i).
Proof. intros H. rewrite query_total by exact H. apply spec_query_Some. Qed.

(** * counting, at the level of bit lists *)
Lemma firstn_add {A} (l : list A) a : forall b l', l' = l -> firstn (a + b) l' = firstn a l' ++ firstn b (skipn a l').
Proof.
  intros b l' ->. revert l. induction a as [|a IH]; intros l; [reflexivity|].
  destruct l as [|x l]; cbn [Nat.add firstn skipn app].
  - now rewrite firstn_nil.
  - now rewrite IH.
Qed.

Lemma rank1_add bs a b : rank1 bs (a + b) = rank1 bs a + count_true (firstn b (skipn a bs)).
Proof. unfold rank1. rewrite (firstn_add bs a b bs eq_refl), count_true_app. reflexivity. Qed.

Lemma rank1_mono bs a b : (a <= b)%nat -> rank1 bs a <= rank1 bs b <= rank1 bs a + Z.of_nat (b - a).
Proof.
  intros H. replace b with (a + (b - a))%nat at 1 2 by lia. rewrite rank1_add.
  pose proof (count_true_nonneg (firstn (b - a) (skipn a bs))).
  pose proof (count_true_le_length (firstn (b - a) (skipn a bs))).
  pose proof (firstn_le_length (b - a) (skipn a bs)). lia.
Qed.

Lemma rank1_succ bs n : (n < length bs)%nat -> rank1 bs (S n) = rank1 bs n + Z.b2z (nth n bs false).
Proof.
  intros H. unfold rank1. destruct (nth_error bs n) as [b|] eqn:E; [|apply nth_error_None in E; lia].
  rewrite (firstn_succ_nth n bs b E), count_true_app. rewrite (nth_error_nth _ _ _ E).
  cbn [count_true]. lia.
Qed.

Lemma rank1_rest bs n : (n <= length bs)%nat -> 0 <= count_true bs - rank1 bs n <= Z.of_nat (length bs - n).
Proof.
  intros H. unfold rank1. rewrite <- (firstn_skipn n bs) at 1 3. rewrite count_true_app.
  pose proof (count_true_nonneg (skipn n bs)). pose proof (count_true_le_length (skipn n bs)).
  rewrite skipn_length in *. lia.
Qed.

Lemma rank1_all bs n : (length bs <= n)%nat -> rank1 bs n = count_true bs.
Proof. intros H. unfold rank1. now rewrite firstn_all2. Qed.

Lemma b2z_01 b : Z.b2z b = 0 \/ Z.b2z b = 1.
Proof. destruct b; cbn; lia. Qed.

(** * the laws, on answers of the model *)
(** rank(i+1) = rank(i) + bit(i) *)
Theorem law_step f f' ws i r b r' b' : words_ok ws ->
  query f ws i = Some (r, b) -> query f' ws (i + 1) = Some (r', b') -> r' = r + b.
Proof.
  intros Hok Q Q'. apply query_Some in Q; [|exact Hok]. apply query_Some in Q'; [|exact Hok].
  destruct Q as (Hi & -> & ->), Q' as (Hi' & -> & _).
  unfold rank1z, bitz. replace (Z.to_nat (i + 1)) with (S (Z.to_nat i)) by lia.
  apply rank1_succ. rewrite flat_length. unfold zlen in *. lia.
Qed.

(** monotone, and never faster than the positions *)
Theorem law_mono f f' ws i j ri bi rj bj : words_ok ws -> i <= j ->
  query f ws i = Some (ri, bi) -> query f' ws j = Some (rj, bj) ->
  ri <= rj <= ri + (j - i) /\ (i < j -> ri + bi <= rj).
Proof.
  intros Hok Hij Q Q'. apply query_Some in Q; [|exact Hok]. apply query_Some in Q'; [|exact Hok].
  destruct Q as (Hi & -> & ->), Q' as (Hj & -> & _). unfold rank1z, bitz. split.
  - pose proof (rank1_mono (flat ws) (Z.to_nat i) (Z.to_nat j) ltac:(lia)). lia.
  - intros Hlt.
    rewrite <- (rank1_succ (flat ws) (Z.to_nat i)) by (rewrite flat_length; unfold zlen in *; lia).
    pose proof (rank1_mono (flat ws) (S (Z.to_nat i)) (Z.to_nat j) ltac:(lia)). lia.
Qed.

(** bounds *)
Theorem law_bounds f ws i r b : words_ok ws -> query f ws i = Some (r, b) ->
  0 <= r <= i /\ (b = 0 \/ b = 1) /\ r + b <= total1 ws /\ total1 ws - (r + b) <= 64 * zlen ws - (i + 1).
Proof.
  intros Hok Q. apply query_Some in Q; [|exact Hok]. destruct Q as (Hi & -> & ->).
  unfold rank1z, bitz, total1.
  assert (Hl : (Z.to_nat i < length (flat ws))%nat) by (rewrite flat_length; unfold zlen in *; lia).
  pose proof (rank1_bounds (flat ws) (Z.to_nat i)).
  pose proof (rank1_succ (flat ws) (Z.to_nat i) Hl) as Hs.
  pose proof (rank1_rest (flat ws) (S (Z.to_nat i)) ltac:(lia)) as Hr.
  rewrite flat_length in Hr. unfold zlen in *.
  repeat split; try lia. apply b2z_01.
Qed.

(** at the last position, count + bit = the total = the trailing entry of IndexRank64(words, true) *)
Theorem trailing_total_exact ws : words_ok ws -> trailing_total ws = Some (total1 ws).
Proof.
  intros Hok. unfold trailing_total. rewrite IndexRank64_exact by exact Hok.
  unfold spec_IndexRank64, zlen. rewrite nthZ_of_nat.
  rewrite nth_error_app2 by (rewrite map_length, seq_length; lia).
  rewrite map_length, seq_length, Nat.sub_diag. cbn [nth_error]. f_equal.
  unfold total1. apply rank1_all. rewrite flat_length. lia.
Qed.

Theorem law_end f ws r b : words_ok ws -> query f ws (64 * zlen ws - 1) = Some (r, b) ->
  r + b = total1 ws /\ trailing_total ws = Some (r + b).
Proof.
  intros Hok Q. pose proof (law_bounds f ws _ r b Hok Q) as (_ & _ & H1 & H2).
  assert (r + b = total1 ws) by lia. split; [assumption|]. rewrite trailing_total_exact by exact Hok. congruence.
Qed.

(** the index entries are what the queries return at the word boundaries *)
Theorem law_checkpoint f tr ws k : words_ok ws -> 0 <= k < zlen ws ->
  exists b, query f ws (64 * k) = Some (nth (Z.to_nat k) (IndexRank64 ws tr) 0, b).
Proof.
  intros Hok Hk. rewrite query_total by exact Hok. unfold spec_query, pos_in.
  destruct (Z.leb_spec 0 (64 * k)); [|lia]. destruct (Z.ltb_spec (64 * k) (64 * zlen ws)); [|lia].
  cbn [andb]. eexists. f_equal. f_equal.
  rewrite IndexRank64_exact by exact Hok.
  erewrite nth_error_nth; [|apply spec_index64_nth; unfold zlen in Hk; lia].
  unfold rank1z. f_equal. lia.
Qed.

(** the law checker of the run-time op accepts what the model returns *)
Theorem law_check_sound ws i j : words_ok ws -> 0 <= i <= j -> j < 64 * zlen ws ->
  exists pi pj tot,
    map (fun f => query f ws i) flavours = [Some pi; Some pi; Some pi] /\
    map (fun f => query f ws j) flavours = [Some pj; Some pj; Some pj] /\
    trailing_total ws = Some tot /\
    law_check (64 * zlen ws) i j [pi; pi; pi] [pj; pj; pj] tot = true.
Proof.
  intros Hok Hij Hj.
  destruct (spec_query ws i) as [[ri bi]|] eqn:Ei.
  2:{ unfold spec_query, pos_in in Ei. destruct (Z.leb_spec 0 i); [|lia].
      destruct (Z.ltb_spec i (64 * zlen ws)); [discriminate|lia]. }
  destruct (spec_query ws j) as [[rj bj]|] eqn:Ej.
  2:{ unfold spec_query, pos_in in Ej. destruct (Z.leb_spec 0 j); [|lia].
      destruct (Z.ltb_spec j (64 * zlen ws)); [discriminate|lia]. }
  exists (ri, bi), (rj, bj), (total1 ws).
  assert (Qi : query (F64 false) ws i = Some (ri, bi)) by (now rewrite query_total).
  assert (Qj : query (F64 false) ws j = Some (rj, bj)) by (now rewrite query_total).
  split; [unfold flavours; cbn [map]; now rewrite !query_total, Ei|].
  split; [unfold flavours; cbn [map]; now rewrite !query_total, Ej|].
  split; [now apply trailing_total_exact|].
  pose proof (law_bounds _ _ _ _ _ Hok Qi) as (B1 & B2 & B3 & B4).
  pose proof (law_bounds _ _ _ _ _ Hok Qj) as (C1 & C2 & C3 & C4).
  pose proof (law_mono _ _ _ _ _ _ _ _ _ Hok (proj2 Hij) Qi Qj) as (M1 & M2).
  unfold law_check. cbn [forallb fst snd]. rewrite !Z.eqb_refl. cbn [andb].
  assert (Hbi : (bi =? 0) || (bi =? 1) = true) by (destruct B2 as [-> | ->]; reflexivity).
  assert (Hbj : (bj =? 0) || (bj =? 1) = true) by (destruct C2 as [-> | ->]; reflexivity).
  rewrite Hbi, Hbj. cbn [andb].
  assert (Esame : j = i -> rj = ri /\ bj = bi) by (intros ->; split; congruence).
  assert (Eadj : j = i + 1 -> rj = ri + bi).
  { intros ->. eapply law_step; eauto. }
  repeat (apply andb_true_intro; split); try (apply Z.leb_le; lia).
  - destruct (Z.eqb_spec j i) as [E|]; [|reflexivity]. destruct (Esame E) as [-> ->]. now rewrite !Z.eqb_refl.
  - destruct (Z.eqb_spec j (i + 1)) as [E|]; [|reflexivity]. apply Z.eqb_eq. auto.
  - destruct (Z.ltb_spec i j); [|reflexivity]. apply Z.leb_le. auto.
  - destruct (Z.eqb_spec j (64 * zlen ws - 1)) as [E|]; [|reflexivity]. apply Z.eqb_eq. lia.
Qed.
