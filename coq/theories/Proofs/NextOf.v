(** C13 widened: build a bitmap with Of (of.go), walk it with NextOne / PrevOne:
    the walk returns the positions the bitmap was built from. *)
From Coq Require Import ZArith List Lia Bool Sorted.
From Low Require Import Lib.Bits Lib.BitSeq Model.BitmapNext Model.BitmapNextIter Model.BitmapOf
  Model.BitmapNextReaders Spec.NextSpec Proofs.NextLaws Proofs.OfProofs.
Import ListNotations.
Open Scope Z_scope.

Theorem OfWalk_exact ps opt :
  StronglySorted Z.lt ps -> (forall p, In p ps -> 0 <= p) ->
  OfWalk ps opt = Some (ps, rev ps).
Proof.
  intros Hs Hnn. destruct (Of_ascending ps opt Hs Hnn) as (r & E & Hok & _ & Hones).
  unfold OfWalk. rewrite E.
  rewrite (IterNext_exact r Hok), (IterPrev_exact r Hok) by (unfold zlen; lia).
  now rewrite ones_in_whole, Hones.
Qed.
