(** C18 widening, part 3: a plain stream of Writes through a bounded section
    over a file that accepts everything -- the section "stops after n bytes":
    the file receives exactly the first n bytes of the stream at the section
    start, and the counts returned add up to min(n, length of the stream). *)
From Coq Require Import ZArith List Bool Lia.
From Low Require Import Lib.MachInt Lib.BitSeq Model.SectionWriter Spec.SectionWriterSpec
  Model.MemFile Model.SectionReader Spec.SectionReaderSpec Run.C18
  Proofs.SectionWriterProofs Proofs.SectionWriterCalls Proofs.MemFileProofs Proofs.SectionIOProofs.
Import ListNotations.
Open Scope Z_scope.

Definition acnt (r : aout) : Z := nth 0 (fst r) 0.

Lemma firstn_to_nat_nonpos {A} (l : list A) k : k <= 0 -> firstn (Z.to_nat k) l = [].
Proof. intros H. replace (Z.to_nat k) with 0%nat by lia. reflexivity. Qed.

Lemma zlen_app {A} (l1 l2 : list A) : zlen (l1 ++ l2) = zlen l1 + zlen l2.
Proof. unfold zlen. rewrite app_length. lia. Qed.

(** the first k bytes of p ++ rest *)
Lemma firstn_app_fits {A} (p rest : list A) k : zlen p <= k ->
  firstn (Z.to_nat k) (p ++ rest) = p ++ firstn (Z.to_nat (k - zlen p)) rest.
Proof.
  intros H. unfold zlen in *.
  replace (Z.to_nat k) with (length p + Z.to_nat (k - Z.of_nat (length p)))%nat by lia.
  apply firstn_app_plus.
Qed.

Lemma firstn_app_cut {A} (p rest : list A) k : 0 <= k <= zlen p ->
  firstn (Z.to_nat k) (p ++ rest) = firstn (Z.to_nat k) p.
Proof.
  intros H. unfold zlen in *. rewrite firstn_app.
  replace (Z.to_nat k - length p)%nat with 0%nat by lia. cbn [firstn]. apply app_nil_r.
Qed.

(** Writes refused at the end leave the file alone *)
Lemma arun_writes_refused o n : forall bufs pos init, n <= pos ->
  spec_file_after init (arun o n pos [] (map AWrite bufs)) = init /\
  zsum (map acnt (arun o n pos [] (map AWrite bufs))) = 0.
Proof.
  induction bufs as [|p bufs IH]; intros pos init Hge; [split; reflexivity|].
  cbn [map arun astep]. destruct (Z.geb_spec pos n); [|lia].
  cbn [spec_file_after fold_left map zsum]. unfold fapply at 2. cbn [snd fold_left].
  destruct (IH pos init Hge) as [IH1 IH2]. split.
  - exact IH1.
  - rewrite IH2. reflexivity.
Qed.

Lemma arun_writes_trunc o n : 0 <= o ->
  forall bufs pos init, 0 <= pos ->
  spec_file_after init (arun o n pos [] (map AWrite bufs)) =
    write_at init (o + pos) (firstn (Z.to_nat (n - pos)) (concat bufs)) /\
  zsum (map acnt (arun o n pos [] (map AWrite bufs))) =
    Z.max 0 (Z.min (n - pos) (zlen (concat bufs))).
Proof.
  intros Ho. induction bufs as [|p bufs IH]; intros pos init Hp.
  - cbn [map arun concat spec_file_after fold_left zsum]. rewrite firstn_nil.
    unfold zlen. cbn [length Z.of_nat]. split; [reflexivity|lia].
  - destruct (Z.le_gt_cases n pos) as [Hge|Hlt].
    { destruct (arun_writes_refused o n (p :: bufs) pos init Hge) as [H1 H2].
      rewrite H1, H2. rewrite firstn_to_nat_nonpos by lia.
      pose proof (zlen_nonneg (concat (p :: bufs))). split; [reflexivity|lia]. }
    cbn [map arun astep concat].
    destruct (Z.geb_spec pos n); [lia|].
    pose proof (zlen_nonneg p) as Hlp. pose proof (zlen_nonneg (concat bufs)) as Hlc.
    unfold put. set (m := Z.min (zlen p) (n - pos)).
    cbn [respond]. rewrite zlen_firstn by lia.
    set (err := if A_nil =? A_nil then if m <? zlen p then A_short else A_nil else A_nil).
    cbn [map zsum spec_file_after fold_left]. unfold fapply at 2, acnt at 1.
    cbn [fst snd nth fold_left].
    rewrite firstn_firstn, Nat.min_id.
    change (fstore init (o + pos) (firstn (Z.to_nat m) p))
      with (write_at init (o + pos) (firstn (Z.to_nat m) p)).
    fold (spec_file_after (write_at init (o + pos) (firstn (Z.to_nat m) p))
            (arun o n (pos + m) [] (map AWrite bufs))).
    destruct (IH (pos + m) (write_at init (o + pos) (firstn (Z.to_nat m) p)) ltac:(lia)) as [IH1 IH2].
    rewrite IH1, IH2. rewrite zlen_app.
    assert (Hzm : zlen (firstn (Z.to_nat m) p) = m) by (apply zlen_firstn; lia).
    split.
    + replace (o + (pos + m)) with (o + pos + zlen (firstn (Z.to_nat m) p)) by lia.
      rewrite write_at_app by lia. f_equal.
      destruct (Z.le_gt_cases (zlen p) (n - pos)) as [Hfit|Hcut].
      * assert (m = zlen p) as -> by lia. rewrite firstn_zlen.
        rewrite firstn_app_fits by lia. do 2 f_equal. lia.
      * assert (m = n - pos) as -> by lia.
        rewrite (firstn_to_nat_nonpos (concat bufs)) by lia. rewrite app_nil_r.
        symmetry. apply firstn_app_cut. lia.
    + lia.
Qed.

(** NewSectionWriter(f, o, n) "stops with io.ErrShortWrite after n bytes": *)
Theorem section_stream_truncates o n init bufs :
  sec_ok o n ->
  let outs := run (NewSectionWriter o n) [] (map CWrite bufs) in
  file_after init outs = write_at init o (firstn (Z.to_nat n) (concat bufs)) /\
  zsum (map ret_cnt outs) = Z.min n (zlen (concat bufs)).
Proof.
  intros Hs. cbv zeta. pose proof Hs as (Ho & Hn & Hon).
  pose proof (section_refines o n [] (map CWrite bufs) Hs ltac:(constructor)
                (Forall_call_ok_writes bufs)) as Href.
  rewrite map_to_acall_writes in Href. unfold spec_section in Href.
  destruct (arun_writes_trunc o n Ho bufs 0 init ltac:(lia)) as [Hfile Hcnt].
  rewrite Z.add_0_r, Z.sub_0_r in Hfile. rewrite Z.sub_0_r in Hcnt.
  pose proof (zlen_nonneg (concat bufs)) as Hlc.
  split.
  - rewrite file_after_spec.
    transitivity (spec_file_after init (arun o n 0 [] (map AWrite bufs))); [|exact Hfile].
    f_equal. exact Href.
  - transitivity (zsum (map acnt (map obs (run (NewSectionWriter o n) [] (map CWrite bufs))))).
    { rewrite map_map. f_equal. }
    transitivity (zsum (map acnt (arun o n 0 [] (map AWrite bufs)))); [|lia].
    do 2 f_equal. exact Href.
Qed.
