(** Equality of the definition generated from the Go source of bmtree.PathToIndexLoose (coq/gen/Trans.v) and the model. *)
From Coq Require Import ZArith List Lia Bool.
From Low Require Import Lib.MachInt Lib.Bits Lib.BitSeq Lib.TransLib Proofs.TransEqLemmas.
From LowGen Require Trans.
Import ListNotations.
Open Scope Z_scope.

From Low Require Import Model.BmtreePath Model.BmtreeIndex Proofs.TransEq_bmtree_Height Proofs.TransEq_bmtree_PathLen.

Lemma TransEq_bmtree_PathToIndexLoose bitmapSize path :
  Trans.bmtree_PathToIndexLoose bitmapSize path = PathToIndexLoose bitmapSize path.
Proof.
  unfold Trans.bmtree_PathToIndexLoose, PathToIndexLoose, fullTreeIndex, tblMaskUpto, tblBit, tblMask. cbv zeta.
  rewrite TransEq_bmtree_Height, TransEq_bmtree_PathLen.
  change tblZ with tbl.
  rewrite (u64_id (PathLen path)) by (unfold PathLen; pose proof (popcount_u32_range path); lia).
  destruct (tbl 64 MaskUpto (Height bitmapSize)) as [mu|]; [|reflexivity].
  destruct (u64 bitmapSize =? mu); [reflexivity|].
  destruct (tbl 64 Bit (Height bitmapSize)) as [bt|]; [|reflexivity].
  destruct (u64 bitmapSize =? bt); [reflexivity|].
  destruct (shiftMulti (shr64 path 32) (u64 bitmapSize) (u64 (Height bitmapSize))) as [idx|]; [|reflexivity].
  destruct (tbl 65 Mask (PathLen path)) as [m|]; [|reflexivity].
  rewrite u64_add_r. reflexivity.
Qed.
