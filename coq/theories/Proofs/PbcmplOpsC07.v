(** C07's widening operation pbcmpl.Walk/bytes at the level of the protocol values
    (the other three operations of C07 are in Proofs/PbcmplHistory.v). *)
From Coq Require Import ZArith List Bool Lia.
From Low Require Import Lib.BitSeq Lib.Bytes Lib.Val
  Model.Pbcmpl Model.PbcmplWalk Model.PbcmplEncErr Spec.PbcmplSpec Spec.PbcmplWalkSpec
  Run.PbcmplOps Run.PbcmplWalkOps
  Proofs.PbcmplIO Proofs.PbcmplHistory Proofs.PbcmplWalk.
Import ListNotations.
Open Scope Z_scope.

Theorem v_walk_model_spec s pat t :
  bytes_ok s -> all_pos pat = true -> zlen s < 2 ^ 63 ->
  v_walk_model (chunks_of pat s, t) = v_walk_spec s t.
Proof.
  intros Hb Hpat Hlen. destruct (chunks_of_ok pat s Hpat) as [Hc Hok].
  destruct (c_Walk_spec (chunks_of pat s) t Hok) as (steps & cs' & HC & Hok' & HS).
  { rewrite Hc. exact Hb. } { rewrite Hc. exact Hlen. }
  unfold v_walk_model, v_walk_spec. rewrite HC. rewrite Hc in HS. rewrite HS.
  unfold rd_bytes. cbn [fst]. reflexivity.
Qed.

(** when proto.Marshal(msg) fails, pbcmpl.Marshal returns count 0 and that error and
    writes nothing — for every writer, every writer state and every version (even one
    longer than 16 bytes: newHeader is not reached, so no panic) *)
Theorem Marshal_encode_error {Msg W : Type} (enc : Msg -> option (list Z))
    (write : W -> list Z -> Z * option perr * W) (w : W) (m : Msg) ver :
  enc m = None -> Marshal_opt enc write w m ver = Some (0, encode_errclass, w).
Proof. intros H. unfold Marshal_opt. rewrite H. reflexivity. Qed.

(** ... and when it succeeds Marshal_opt is Marshal (so everything proved about Marshal applies) *)
Theorem Marshal_opt_encoded {Msg W : Type} (enc : Msg -> option (list Z))
    (write : W -> list Z -> Z * option perr * W) (w : W) (m : Msg) ver data :
  enc m = Some data ->
  Marshal_opt enc write w m ver
    = match Marshal (fun _ => data) write w m ver with
      | None => None
      | Some (n, e, w') => Some (n, errclass e, w')
      end.
Proof. intros H. unfold Marshal_opt. rewrite H. reflexivity. Qed.
