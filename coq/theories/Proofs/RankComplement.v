(** C01 widening (b): rank0 - the count of 0-bits before [i] is the rank in the complemented bitmap, [i - rank1]. *)
From Coq Require Import ZArith List Lia Bool.
From Low Require Import Lib.MachInt Lib.Bits Lib.BitSeq
  Model.Rank Model.RankOps Spec.RankSpec Spec.RankLawsSpec Proofs.RankProofs Proofs.Rank32Proofs Proofs.RankLaws
  Proofs.MaskProofs.
Import ListNotations.
Open Scope Z_scope.

Lemma bits_not64 w : word_ok w -> bits 64 (not64 w) = map negb (bits 64 w).
Proof.
  intros Hw. unfold bits. rewrite map_map. apply map_ext_in. intros k Hk. apply in_seq in Hk.
  rewrite testbit_not64 by (unfold word_ok in Hw; lia).
  destruct (Z.ltb_spec (Z.of_nat k) 64); [apply andb_true_r|lia].
Qed.

Lemma flat_not64 ws : words_ok ws -> flat (map not64 ws) = map negb (flat ws).
Proof.
  induction 1 as [|w t Hw _ IH]; [reflexivity|].
  cbn [map]. rewrite !flat_cons, map_app, IH, bits_not64 by exact Hw. reflexivity.
Qed.

Lemma words_ok_not64 ws : words_ok ws -> words_ok (map not64 ws).
Proof.
  intros H. apply Forall_map. eapply Forall_impl; [|exact H].
  intros w Hw. unfold word_ok, not64 in *. lia.
Qed.

Lemma count_true_negb l : count_true (map negb l) = Z.of_nat (length l) - count_true l.
Proof.
  induction l as [|b t IH]; [reflexivity|]. cbn [map count_true length]. rewrite IH. destruct b; cbn [negb Z.b2z]; lia.
Qed.

Lemma zlen_map {A B} (f : A -> B) l : zlen (map f l) = zlen l.
Proof. unfold zlen. now rewrite map_length. Qed.

(** rank0(i) = i - rank1(i): the answers on a bitmap and on its complement add up to the position, the bits to 1 *)
Theorem rank_complement f f' ws i r b r' b' : words_ok ws ->
  query f ws i = Some (r, b) -> query f' (map not64 ws) i = Some (r', b') -> r + r' = i /\ b + b' = 1.
Proof.
  intros Hok Q Q'. apply query_Some in Q; [|exact Hok].
  apply query_Some in Q'; [|now apply words_ok_not64].
  destruct Q as (Hi & -> & ->), Q' as (_ & -> & ->).
  rewrite flat_not64 by exact Hok. unfold rank1z, bitz, rank1.
  assert (Hl : (Z.to_nat i < length (flat ws))%nat) by (rewrite flat_length; unfold zlen in Hi; lia).
  rewrite firstn_map, count_true_negb, firstn_length_le by lia. split; [lia|].
  rewrite (nth_indep (map negb (flat ws)) false (negb false)) by (rewrite map_length; exact Hl). rewrite map_nth.
  destruct (nth (Z.to_nat i) (flat ws) false); reflexivity.
Qed.

(** both queries answer on the same positions *)
Theorem query_complement_defined f ws i : words_ok ws ->
  (query f (map not64 ws) i = None <-> query f ws i = None).
Proof.
  intros Hok. rewrite !query_total by (assumption || now apply words_ok_not64).
  unfold spec_query, pos_in. rewrite zlen_map. destruct ((0 <=? i) && (i <? 64 * zlen ws)); split; congruence.
Qed.
