(** Proofs for the sessions with in-place updates and for the suffix scan. *)
From Coq Require Import ZArith List Lia Bool.
From Low Require Import Lib.MachInt Lib.Bits Lib.BitSeq Lib.BitsExtra_bm2 Lib.BitsExtra_c02 Lib.BitsExtra_bm12
  Model.BitmapNext Model.BitmapNext32 Model.BitmapNextSession
  Spec.NextSpec Spec.NextSessionSpec Proofs.NextProofs Proofs.NextTotal Proofs.GetwProofs.
Import ListNotations.
Open Scope Z_scope.

Local Ltac dm := Z.div_mod_to_equations; lia.

(** * in-place update *)
Lemma upd_length l : forall k f, length (upd l k f) = length l.
Proof. induction l as [|x l IH]; intros [|k] f; cbn [upd length]; auto. Qed.

Lemma upd_words_ok l : forall k f, words_ok l -> (forall w, word_ok w -> word_ok (f w)) -> words_ok (upd l k f).
Proof.
  unfold words_ok. induction l as [|x l IH]; intros [|k] f H Hf; cbn [upd]; auto;
  inversion H; subst; constructor; auto.
Qed.

Lemma nth_error_upd l : forall k f k',
  nth_error (upd l k f) k' = if Nat.eqb k k' then option_map f (nth_error l k') else nth_error l k'.
Proof.
  induction l as [|x l IH]; intros k f k'.
  - destruct k; cbn [upd]; destruct k'; cbn [nth_error option_map]; destruct (Nat.eqb _ _); reflexivity.
  - destruct k as [|k], k' as [|k']; cbn [upd nth_error Nat.eqb option_map]; try reflexivity. apply IH.
Qed.

Lemma SetBit_ok bm p : words_ok bm -> 0 <= p < 64 * zlen bm ->
  exists bm', SetBit bm p = Some bm' /\ words_ok bm' /\ zlen bm' = zlen bm.
Proof.
  intros Hok Hp. unfold SetBit. rewrite shiftr6.
  destruct (nthZ_in_range bm (p / 64)) as [w Hw]; [unfold zlen in *; dm|]. rewrite Hw.
  eexists. split; [reflexivity|]. split.
  - apply upd_words_ok; [exact Hok|]. intros x Hx. unfold word_ok in *.
    rewrite land63, shl64_1 by (apply Z.mod_pos_bound; lia).
    apply lor_word; [exact Hx|]. apply pow2_word. apply Z.mod_pos_bound. lia.
  - unfold zlen. now rewrite upd_length.
Qed.

Lemma bitz_word ws q w : 0 <= q -> nth_error ws (Z.to_nat (q / 64)) = Some w ->
  bitz (flat ws) q = Z.testbit w (q mod 64).
Proof.
  intros Hq H. rewrite <- (bitz_flat ws _ w (q mod 64) H) by (apply Z.mod_pos_bound; lia).
  f_equal. dm.
Qed.

(** the updated bitmap has bit [p] set and every other bit as before *)
Lemma SetBit_bits bm p bm' : words_ok bm -> 0 <= p < 64 * zlen bm -> SetBit bm p = Some bm' ->
  forall q, 0 <= q < 64 * zlen bm -> bitz (flat bm') q = if q =? p then true else bitz (flat bm) q.
Proof.
  intros Hok Hp. unfold SetBit. rewrite shiftr6.
  destruct (nthZ bm (p / 64)) as [w0|] eqn:E0; [|discriminate]. intros [= <-] q Hq.
  assert (Hpm : 0 <= p mod 64 < 64) by (apply Z.mod_pos_bound; lia).
  set (kq := Z.to_nat (q / 64)).
  assert (Hkq : (kq < length bm)%nat) by (subst kq; unfold zlen in *; dm).
  destruct (nth_error bm kq) as [w|] eqn:Ew; [|apply nth_error_None in Ew; lia].
  rewrite (bitz_word bm q w) by (try lia; exact Ew).
  pose proof (nth_error_upd bm (Z.to_nat (p / 64)) (fun w => Z.lor w (shl64 1 (Z.land p 63))) kq) as Hu.
  rewrite Ew in Hu.
  destruct (Nat.eqb_spec (Z.to_nat (p / 64)) kq) as [Hk|Hk]; cbn [option_map] in Hu.
  - rewrite (bitz_word _ q _ (proj1 Hq) Hu). rewrite land63, shl64_1 by exact Hpm.
    rewrite Z.lor_spec, Z.pow2_bits_eqb by lia.
    destruct (Z.eqb_spec q p) as [->|Hne].
    + rewrite Z.eqb_refl. now rewrite orb_true_r.
    + destruct (Z.eqb_spec (p mod 64) (q mod 64)) as [Hj|Hj]; [|now rewrite orb_false_r].
      exfalso. apply Hne. subst kq.
      assert (0 <= p / 64 /\ 0 <= q / 64) by (split; apply Z.div_pos; lia).
      assert (p / 64 = q / 64) by lia. dm.
  - rewrite (bitz_word _ q _ (proj1 Hq) Hu).
    destruct (Z.eqb_spec q p) as [->|Hne]; [|reflexivity].
    exfalso. apply Hk. reflexivity.
Qed.

(** * sessions *)
Theorem Session_exact : forall steps bm, words_ok bm -> 64 * zlen bm < 2^31 ->
  forallb (step_dom (64 * zlen bm)) steps = true ->
  Session bm steps = Some (spec_session bm steps).
Proof.
  induction steps as [|s steps IH]; intros bm Hok Hs Hd; [reflexivity|].
  cbn [forallb] in Hd. apply andb_true_iff in Hd. destruct Hd as [Hd Hds].
  destruct s as [|k [|i [|e [|x s]]]]; try discriminate.
  cbn [Session spec_session]. unfold step_dom in Hd.
  destruct (Z.eqb_spec k 2) as [->|Hk2].
  - change (2 =? 0) with false in Hd. change (2 =? 1) with false in Hd. change (2 =? 2) with true in Hd. cbv iota in Hd.
    apply andb_true_iff in Hd. destruct Hd as [H1 H2]. apply Z.leb_le in H1. apply Z.ltb_lt in H2.
    destruct (SetBit_ok bm i Hok (conj H1 H2)) as (bm' & E & Hok' & Hlen). rewrite E.
    rewrite (IH bm' Hok') by (rewrite Hlen; assumption). reflexivity.
  - destruct (Z.eqb_spec k 0) as [->|Hk0].
    + repeat (apply andb_true_iff in Hd; destruct Hd as [Hd ?]).
      repeat match goal with H : (_ <=? _) = true |- _ => apply Z.leb_le in H | H : (_ <? _) = true |- _ => apply Z.ltb_lt in H end.
      rewrite NextOne32_exact by (try assumption; lia). rewrite (IH bm Hok Hs Hds). reflexivity.
    + destruct (Z.eqb_spec k 1) as [->|Hk1]; [|discriminate].
      repeat (apply andb_true_iff in Hd; destruct Hd as [Hd ?]).
      repeat match goal with H : (_ <=? _) = true |- _ => apply Z.leb_le in H | H : (_ <? _) = true |- _ => apply Z.ltb_lt in H end.
      rewrite PrevOne32_exact by (try assumption; lia). rewrite (IH bm Hok Hs Hds). reflexivity.
Qed.

(** * the suffix scan is the loop of the model *)
Lemma nscan_loop bm e : forall fuel (k : nat), (k <= length bm)%nat -> (length bm - k < fuel)%nat ->
  NextOne_loop fuel bm (64 * Z.of_nat k) e = nscan (skipn k bm) (64 * Z.of_nat k) e.
Proof.
  induction fuel as [|fuel IH]; intros k Hk Hf; [lia|].
  cbn [NextOne_loop]. rewrite shiftr6. replace (64 * Z.of_nat k / 64) with (Z.of_nat k) by dm.
  rewrite nthZ_of_nat. destruct (nth_error bm k) as [w|] eqn:E.
  - rewrite (skipn_nth_cons bm k w E). cbn [nscan].
    destruct (Z.ltb_spec (64 * Z.of_nat k) e); [|reflexivity].
    destruct (Z.eqb_spec w 0); [|reflexivity].
    replace (64 * Z.of_nat k + 64) with (64 * Z.of_nat (S k)) by lia.
    assert (Hkl : (k < length bm)%nat) by (apply nth_error_Some; congruence).
    apply IH; lia.
  - apply nth_error_None in E. rewrite skipn_all2 by lia. cbn [nscan].
    destruct (Z.ltb_spec (64 * Z.of_nat k) e); reflexivity.
Qed.

Theorem NextOneFast_eq bm i e : NextOneFast bm i e = NextOne bm i e.
Proof.
  unfold NextOneFast, NextOne. destruct (Z.ltb_spec i 0) as [Hneg|Hpos].
  - rewrite shiftr6, nthZ_neg by dm. reflexivity.
  - rewrite shiftr6. set (k := Z.to_nat (i / 64)).
    assert (Hk : Z.of_nat k = i / 64) by (subst k; dm).
    rewrite <- Hk, nthZ_of_nat, nth_error_skipn_hd.
    destruct (skipn k bm) as [|w0 rest] eqn:Es; [reflexivity|]. cbn [hd_error].
    destruct (Z.eqb_spec (Z.land w0 (RMask (Z.land i 63))) 0) as [Hz|Hnz]; [|reflexivity].
    assert (Hkl : (k < length bm)%nat).
    { destruct (Nat.lt_ge_cases k (length bm)); [assumption|]. rewrite skipn_all2 in Es by lia. discriminate. }
    assert (Ew : nth_error bm k = Some w0) by (rewrite nth_error_skipn_hd, Es; reflexivity).
    rewrite land_m64.
    set (k' := Z.to_nat ((i + 63) / 64)).
    assert (Hk' : Z.of_nat k' = (i + 63) / 64) by (subst k'; dm).
    rewrite <- Hk'.
    assert (Hk'r : k' = k \/ k' = S k) by dm.
    rewrite (nscan_loop bm e (S (length bm)) k') by (destruct Hk'r; lia).
    destruct (Z.eqb_spec (64 * Z.of_nat k') i) as [Hal|Hna].
    + assert (k' = k) by dm. subst k'. now rewrite H, Es.
    + assert (k' = S k) by dm. rewrite H. rewrite (skipn_nth_cons bm k w0 Ew) in Es.
      injection Es as <-. reflexivity.
Qed.
