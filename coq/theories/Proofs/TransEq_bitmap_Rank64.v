(** Equality of the definition generated from the Go source of bitmap.Rank64 (coq/gen/Trans.v) and the model. *)
From Coq Require Import ZArith List Lia Bool.
From Low Require Import Lib.MachInt Lib.Bits Lib.BitSeq Lib.TransLib Proofs.TransEqLemmas.
From LowGen Require Trans.
Import ListNotations.
Open Scope Z_scope.

From Low Require Model.Rank.

(** The model (Model/Rank.v) adds in unbounded Z; the Go code adds in int32.  Full statement, no hypothesis:
    the generated definition is the model with the count wrapped to int32. *)
Definition wrap_count (r : Z * Z) : Z * Z := (i32 (fst r), snd r).

Lemma TransEq_bitmap_Rank64 ws rindex i :
  Trans.bitmap_Rank64 ws rindex i = option_map wrap_count (Rank.Rank64 ws rindex i).
Proof.
  unfold Trans.bitmap_Rank64, Rank.Rank64. cbv zeta.
  rewrite sar32_shiftr by lia.
  pose proof (land_63_range i) as Hj.
  rewrite (u32_id (Z.land i 63)) by lia.
  destruct (nthZ rindex (Z.shiftr i 6)) as [n|]; [|reflexivity].
  destruct (nthZ ws (Z.shiftr i 6)) as [w|]; [|reflexivity].
  rewrite tblZ_in by lia.
  rewrite u64_id by lia. rewrite shr64_shiftr by lia.
  cbn [option_map]. unfold wrap_count. cbn [fst snd].
  rewrite i32_add_r, land_i32_1. reflexivity.
Qed.

(** and while the count fits int32 (C01's size hypothesis) the two are equal *)
Lemma TransEq_bitmap_Rank64_fits ws rindex i c b :
  Rank.Rank64 ws rindex i = Some (c, b) -> in_i32 c -> Trans.bitmap_Rank64 ws rindex i = Some (c, b).
Proof.
  intros E Hc. rewrite TransEq_bitmap_Rank64, E. cbn [option_map]. unfold wrap_count. cbn [fst snd].
  rewrite i32_id by exact Hc. reflexivity.
Qed.
