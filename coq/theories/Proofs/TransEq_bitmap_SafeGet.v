(** Equality of the definition generated from the Go source of bitmap.SafeGet (coq/gen/Trans.v) and the model. *)
From Coq Require Import ZArith List Lia Bool.
From Low Require Import Lib.MachInt Lib.Bits Lib.BitSeq Lib.TransLib Proofs.TransEqLemmas.
From LowGen Require Trans.
Import ListNotations.
Open Scope Z_scope.

From Low Require Model.BitmapOf.

(** [int32(len(bm))]: the model compares with the unbounded length, so the length must fit int32 *)
Lemma TransEq_bitmap_SafeGet bm i : zlen bm < 2 ^ 31 ->
  Trans.bitmap_SafeGet bm i = BitmapOf.SafeGet bm i.
Proof.
  intros Hl. unfold Trans.bitmap_SafeGet, BitmapOf.SafeGet. cbv zeta.
  rewrite sar32_shiftr by lia.
  rewrite (i32_id (zlen bm)) by (unfold zlen in *; lia).
  destruct (Z.shiftr i 6 <? 0); cbn [orb]; [reflexivity|].
  destruct (Z.shiftr i 6 >=? zlen bm); [reflexivity|].
  destruct (nthZ bm (Z.shiftr i 6)) as [w|]; [|reflexivity].
  rewrite tblZ_in by (pose proof (land_63_range i); lia). reflexivity.
Qed.
