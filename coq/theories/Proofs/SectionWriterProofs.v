(** Proofs for C18: the int64 SectionWriter model refines the section-relative
    cursor/length machine for every call sequence and every response script;
    containment; accounting. *)
From Coq Require Import ZArith List Bool Lia.
From Low Require Import Lib.MachInt Lib.BitSeq Model.SectionWriter Spec.SectionWriterSpec Run.C18.
Import ListNotations.
Open Scope Z_scope.

(** * domain *)
Definition sec_ok (o n : Z) : Prop := 0 <= o /\ 0 <= n /\ o + n <= 2^63 - 1.

Definition call_ok (c : call) : Prop :=
  match c with
  | CWrite _ => True
  | CWriteAt _ a => - 2^63 <= a < 2^63
  | CSeek d _ => - 2^63 <= d < 2^63
  | CSize => True
  end.

Definition script_ok (sc : list resp) : Prop := Forall (fun r => 0 <= fst r) sc.

(** the concrete state [s] represents cursor [pos] of section (o, n) *)
Definition R (o n : Z) (s : sw) (pos : Z) : Prop :=
  base s = o /\ limit s = o + n /\ off s = o + pos /\ 0 <= pos /\ o + pos <= 2^63 - 1.

(** * machine integers *)
Lemma i64_wrap_high x : 2^63 <= x < 2^63 + 2^64 -> i64 x = x - 2^64.
Proof.
  intros H. unfold i64.
  replace (x + 2^63) with ((x + 2^63 - 2^64) + 1 * 2^64) by lia.
  rewrite Z_mod_plus_full. rewrite Z.mod_small; lia.
Qed.

(** * small list facts *)
Lemma zlen_nonneg {A} (l : list A) : 0 <= zlen l.
Proof. unfold zlen. lia. Qed.

Lemma firstn_zlen {A} (l : list A) : firstn (Z.to_nat (zlen l)) l = l.
Proof. unfold zlen. rewrite Nat2Z.id. apply firstn_all. Qed.

Lemma zlen_firstn {A} (l : list A) m : 0 <= m <= zlen l -> zlen (firstn (Z.to_nat m) l) = m.
Proof.
  unfold zlen. intros H. rewrite firstn_length, Nat.min_l by lia. lia.
Qed.

Lemma firstn_firstn_self {A} (l : list A) k :
  firstn (length (firstn k l)) l = firstn k l.
Proof.
  rewrite firstn_length. destruct (Nat.le_ge_cases k (length l)).
  - now rewrite Nat.min_l.
  - rewrite Nat.min_r by lia. rewrite firstn_all. symmetry. now apply firstn_all2.
Qed.

(** * the oracle is the same on both sides *)
Lemma under_respond sc p : under sc p = respond sc p.
Proof. reflexivity. Qed.

Lemma under_script_ok sc p : script_ok sc -> script_ok (snd (under sc p)).
Proof.
  unfold script_ok. destruct sc as [|[k e] t]; cbn [under snd]; [constructor|].
  intros H. now inversion H.
Qed.

Lemma under_count sc p : script_ok sc -> 0 <= fst (fst (under sc p)) <= zlen p.
Proof.
  unfold script_ok. destruct sc as [|[k e] t]; cbn [under fst].
  - intros _. pose proof (zlen_nonneg p). lia.
  - intros H. inversion H as [|? ? Hk _]; subst. cbn [fst] in Hk. pose proof (zlen_nonneg p). lia.
Qed.

(** * one step *)
Definition out_eq (r : out) (ar : aout) : Prop := rets r = fst ar /\ ucalls r = snd ar.

Definition step_rel (o n : Z) (x : sw * list resp * out) (y : Z * list (Z * Z) * aout) : Prop :=
  let '(s', sc', r) := x in
  let '(pos', asc', ar) := y in
  R o n s' pos' /\ sc' = asc' /\ out_eq r ar /\ script_ok sc'.

Lemma write_refines o n s pos sc p :
  sec_ok o n -> R o n s pos -> script_ok sc ->
  step_rel o n (Write s sc p) (astep o n pos sc (AWrite p)).
Proof.
  intros (Ho & Hn & Hon) (Hb & Hl & Hoff & Hp & Hpm) Hsc.
  unfold Write, astep. rewrite Hl, Hoff.
  destruct (Z.geb_spec (o + pos) (o + n)) as [Hge|Hlt].
  - (* at or beyond the end *)
    destruct (Z.geb_spec pos n); [|lia].
    cbn. repeat split; auto.
  - destruct (Z.geb_spec pos n); [lia|].
    unfold put.
    rewrite (i64_id (o + n - (o + pos))) by lia.
    replace (o + n - (o + pos)) with (n - pos) by lia.
    pose proof (zlen_nonneg p) as Hlen.
    destruct (Z.gtb_spec (zlen p) (n - pos)) as [Hgt|Hle].
    + (* truncated by the limit *)
      rewrite Z.min_r by lia.
      change respond with under.
      pose proof (under_count sc (firstn (Z.to_nat (n - pos)) p) Hsc) as Hc.
      pose proof (under_script_ok sc (firstn (Z.to_nat (n - pos)) p) Hsc) as Hs'.
      rewrite zlen_firstn in Hc by lia.
      destruct (under sc (firstn (Z.to_nat (n - pos)) p)) as [[cnt e] sc'].
      cbn [fst snd] in *.
      destruct (Z.ltb_spec (n - pos) (zlen p)); [|lia].
      unfold step_rel, R, out_eq. cbn [base off limit rets ucalls fst snd].
      rewrite (i64_id (o + pos + cnt)) by lia.
      unfold E_nil, A_nil, E_short, A_short.
      repeat split; auto; lia.
    + rewrite Z.min_l by lia. rewrite firstn_zlen.
      change respond with under.
      pose proof (under_count sc p Hsc) as Hc.
      pose proof (under_script_ok sc p Hsc) as Hs'.
      destruct (under sc p) as [[cnt e] sc'].
      cbn [fst snd] in *.
      destruct (Z.ltb_spec (zlen p) (zlen p)); [lia|].
      unfold step_rel, R, out_eq. cbn [base off limit rets ucalls fst snd].
      rewrite (i64_id (o + pos + cnt)) by lia.
      unfold E_nil, A_nil, E_short, A_short.
      repeat split; auto; lia.
Qed.

Lemma writeat_refines o n s pos sc p a :
  sec_ok o n -> R o n s pos -> script_ok sc -> - 2^63 <= a < 2^63 ->
  step_rel o n (WriteAt s sc p a) (astep o n pos sc (AWriteAt p a)).
Proof.
  intros (Ho & Hn & Hon) (Hb & Hl & Hoff & Hp & Hpm) Hsc Ha.
  unfold WriteAt, astep. rewrite Hl, Hb.
  rewrite (i64_id (o + n - o)) by lia.
  replace (o + n - o) with n by lia.
  destruct ((a <? 0) || (a >=? n)) eqn:Hrange.
  - cbn. unfold R. repeat split; auto.
  - apply orb_false_elim in Hrange. destruct Hrange as [H0 H1].
    apply Z.ltb_ge in H0.
    destruct (Z.geb_spec a n) as [|Han]; [discriminate|].
    rewrite (i64_id (a + o)) by lia.
    rewrite (i64_id (o + n - (a + o))) by lia.
    replace (o + n - (a + o)) with (n - a) by lia.
    unfold put.
    pose proof (zlen_nonneg p) as Hlen.
    destruct (Z.gtb_spec (zlen p) (n - a)) as [Hgt|Hle].
    + rewrite Z.min_r by lia.
      change respond with under.
      pose proof (under_script_ok sc (firstn (Z.to_nat (n - a)) p) Hsc) as Hs'.
      destruct (under sc (firstn (Z.to_nat (n - a)) p)) as [[cnt e] sc'].
      cbn [fst snd] in *.
      destruct (Z.ltb_spec (n - a) (zlen p)); [|lia].
      unfold step_rel, R, out_eq. cbn [base off limit rets ucalls fst snd].
      unfold E_nil, A_nil, E_short, A_short.
      replace (a + o) with (o + a) by lia.
      repeat split; auto.
    + rewrite Z.min_l by lia. rewrite firstn_zlen.
      change respond with under.
      pose proof (under_script_ok sc p Hsc) as Hs'.
      destruct (under sc p) as [[cnt e] sc'].
      cbn [fst snd] in *.
      destruct (Z.ltb_spec (zlen p) (zlen p)); [lia|].
      unfold step_rel, R, out_eq. cbn [base off limit rets ucalls fst snd].
      unfold E_nil, A_nil, E_short, A_short.
      replace (a + o) with (o + a) by lia.
      destruct (Z.eqb_spec e 0); subst; repeat split; auto.
Qed.

(** the int64 addition in Seek: either exact, or wrapped below zero *)
Lemma seek_target d r :
  - 2^63 <= d < 2^63 -> 0 <= r <= 2^63 - 1 ->
  (d + r <= 2^63 - 1 /\ i64 (d + r) = d + r) \/ (d + r > 2^63 - 1 /\ i64 (d + r) < 0).
Proof.
  intros Hd Hr. destruct (Z_le_gt_dec (d + r) (2^63 - 1)).
  - left. split; [lia|]. apply i64_id. lia.
  - right. split; [lia|]. rewrite i64_wrap_high; lia.
Qed.

Lemma seek_refines o n s pos sc d wh :
  sec_ok o n -> R o n s pos -> script_ok sc -> - 2^63 <= d < 2^63 ->
  step_rel o n (let (s', r) := Seek s d wh in (s', sc, r)) (astep o n pos sc (ASeek d wh)).
Proof.
  intros (Ho & Hn & Hon) (Hb & Hl & Hoff & Hp & Hpm) Hsc Hd.
  unfold Seek, astep. rewrite Hb, Hl, Hoff.
  assert (Hcase : forall r, 0 <= r -> o + r <= 2^63 - 1 ->
    step_rel o n
      (let (s', r0) :=
         if i64 (d + (o + r)) <? o then (s, mkOut [0; E_offset] [])
         else (mkSW o (i64 (d + (o + r))) (o + n), mkOut [i64 (i64 (d + (o + r)) - o); E_nil] [])
       in (s', sc, r0))
      (if (r + d <? 0) || (o + (r + d) >? max_int64) then (pos, sc, ([0; A_offset], []))
       else (r + d, sc, ([r + d; A_nil], [])))).
  { intros r Hr0 Hr1. unfold max_int64.
    destruct (seek_target d (o + r) Hd ltac:(lia)) as [[Hle He]|[Hgt He]].
    - rewrite He.
      destruct (Z.ltb_spec (d + (o + r)) o) as [Hlt|Hge].
      + destruct (Z.ltb_spec (r + d) 0); [|lia]. cbn [orb].
        unfold step_rel, R, out_eq. cbn. repeat split; auto.
      + destruct (Z.ltb_spec (r + d) 0); [lia|]. cbn [orb].
        destruct (Z.gtb_spec (o + (r + d)) (2^63 - 1)); [lia|].
        rewrite (i64_id (d + (o + r) - o)) by lia.
        unfold step_rel, R, out_eq. cbn [base off limit rets ucalls fst snd].
        unfold E_nil, A_nil.
        replace (d + (o + r) - o) with (r + d) by lia.
        repeat split; auto; lia.
    - destruct (Z.ltb_spec (i64 (d + (o + r))) o); [|lia].
      destruct (Z.gtb_spec (o + (r + d)) (2^63 - 1)); [|lia].
      rewrite orb_true_r.
      unfold step_rel, R, out_eq. cbn. repeat split; auto. }
  destruct (Z.eqb_spec wh 0).
  { specialize (Hcase 0 ltac:(lia) ltac:(lia)).
    replace (o + 0) with o in Hcase by lia. cbn [Z.add] in Hcase. exact Hcase. }
  destruct (Z.eqb_spec wh 1).
  { exact (Hcase pos Hp Hpm). }
  destruct (Z.eqb_spec wh 2).
  { exact (Hcase n Hn ltac:(lia)). }
  unfold step_rel, R, out_eq. cbn. repeat split; auto.
Qed.

Lemma size_refines o n s pos sc :
  sec_ok o n -> R o n s pos -> script_ok sc ->
  step_rel o n (s, sc, mkOut [Size s] []) (astep o n pos sc ASize).
Proof.
  intros (Ho & Hn & Hon) HR Hsc. pose proof HR as (Hb & Hl & _).
  unfold Size, astep. rewrite Hb, Hl.
  rewrite i64_id by lia. replace (o + n - o) with n by lia.
  unfold step_rel, out_eq. cbn. auto.
Qed.

Lemma step_refines o n s pos sc c :
  sec_ok o n -> R o n s pos -> script_ok sc -> call_ok c ->
  step_rel o n (step s sc c) (astep o n pos sc (to_acall c)).
Proof.
  intros Hs HR Hsc Hc. destruct c as [p|p a|d wh|]; cbn [step to_acall call_ok] in *.
  - now apply write_refines.
  - now apply writeat_refines.
  - now apply seek_refines.
  - now apply size_refines.
Qed.

(** * whole call sequences *)
Definition obs (r : out) : aout := (rets r, ucalls r).

Lemma run_refines_from o n : sec_ok o n ->
  forall cs s pos sc, R o n s pos -> script_ok sc -> Forall call_ok cs ->
  map obs (run s sc cs) = arun o n pos sc (map to_acall cs).
Proof.
  intros Hs. induction cs as [|c cs IH]; intros s pos sc HR Hsc Hcs; [reflexivity|].
  inversion Hcs as [|? ? Hc Hcs']; subst.
  cbn [run arun map].
  pose proof (step_refines o n s pos sc c Hs HR Hsc Hc) as Hstep.
  destruct (step s sc c) as [[s' sc'] r].
  destruct (astep o n pos sc (to_acall c)) as [[pos' asc'] ar].
  destruct Hstep as (HR' & Hsceq & (Hr1 & Hr2) & Hsc').
  subst asc'. cbn [map]. f_equal.
  - unfold obs. destruct ar; cbn [fst snd] in *. now subst.
  - now apply IH.
Qed.

Lemma R_new o n : sec_ok o n -> R o n (NewSectionWriter o n) 0.
Proof.
  intros (Ho & Hn & Hon). unfold R, NewSectionWriter. cbn [base off limit].
  rewrite i64_id by lia. lia.
Qed.

Theorem section_refines o n sc cs :
  sec_ok o n -> script_ok sc -> Forall call_ok cs ->
  map obs (run (NewSectionWriter o n) sc cs) = spec_section o n sc (map to_acall cs).
Proof.
  intros Hs Hsc Hcs. unfold spec_section.
  apply run_refines_from; auto. now apply R_new.
Qed.

Lemma AtToWriter_section o : 0 <= o <= 2^63 - 1 ->
  AtToWriter o = NewSectionWriter o (max_int64 - o).
Proof.
  intros H. unfold AtToWriter, maxOffset, max_int64. now rewrite (i64_id (2^63 - 1 - o)) by lia.
Qed.

Theorem at_to_writer_refines o sc cs :
  0 <= o <= 2^63 - 1 -> script_ok sc -> Forall call_ok cs ->
  map obs (run (AtToWriter o) sc cs) = spec_at_to_writer o sc (map to_acall cs).
Proof.
  intros Ho Hsc Hcs. rewrite AtToWriter_section by lia. unfold spec_at_to_writer.
  apply run_refines_from; auto.
  - unfold sec_ok, max_int64. lia.
  - apply R_new. unfold sec_ok, max_int64. lia.
Qed.

(** * containment, on the abstract machine and then on the model *)
Definition call_buf (c : acall) : option (list Z) :=
  match c with AWrite p => Some p | AWriteAt p _ => Some p | _ => None end.

(** every call that reaches the writer during [c] starts inside [o, o+n),
    ends at or before o+n, and carries a prefix of the caller's buffer *)
Definition contained (o n : Z) (c : acall) (r : aout) : Prop :=
  forall a bs, In (a, bs) (snd r) ->
    o <= a < o + n /\ a + zlen bs <= o + n /\
    exists p, call_buf c = Some p /\ bs = firstn (length bs) p.

Lemma put_contained o n sc p a : 0 <= a < n ->
  let '(cnt, err, sc', uc) := put o n sc p a in
  o <= fst uc < o + n /\ fst uc + zlen (snd uc) <= o + n /\ snd uc = firstn (length (snd uc)) p.
Proof.
  intros Ha. unfold put.
  destruct (respond sc (firstn (Z.to_nat (Z.min (zlen p) (n - a))) p)) as [[cnt e] sc'].
  cbn [fst snd]. pose proof (zlen_nonneg p).
  split; [lia|]. split.
  - rewrite zlen_firstn by lia. lia.
  - symmetry. apply firstn_firstn_self.
Qed.

Lemma astep_contained o n pos sc c : 0 <= pos ->
  contained o n c (snd (astep o n pos sc c)).
Proof.
  intros Hpos. unfold contained. destruct c as [p|p a|d wh|]; cbn [astep].
  - destruct (Z.geb_spec pos n); [cbn; tauto|].
    pose proof (put_contained o n sc p pos ltac:(lia)) as HP.
    destruct (put o n sc p pos) as [[[cnt err] sc'] uc].
    cbn [snd]. intros a bs [Hin|[]]. subst uc. cbn [fst snd] in HP.
    destruct HP as (H1 & H2 & H3). repeat split; try lia. exists p. split; [reflexivity|exact H3].
  - destruct ((a <? 0) || (a >=? n)) eqn:Hr; [cbn; tauto|].
    apply orb_false_elim in Hr. destruct Hr as [H0 H1]. apply Z.ltb_ge in H0.
    destruct (Z.geb_spec a n); [discriminate|].
    pose proof (put_contained o n sc p a ltac:(lia)) as HP.
    destruct (put o n sc p a) as [[[cnt err] sc'] uc].
    cbn [snd]. intros a' bs [Hin|[]]. subst uc. cbn [fst snd] in HP.
    destruct HP as (H2 & H3 & H4). repeat split; try lia. exists p. split; [reflexivity|exact H4].
  - destruct (if wh =? 0 then Some 0 else if wh =? 1 then Some pos else if wh =? 2 then Some n else None);
      [|cbn; tauto].
    destruct ((z + d <? 0) || (o + (z + d) >? max_int64)); cbn; tauto.
  - cbn; tauto.
Qed.

Lemma astep_pos_nonneg o n pos sc c : 0 <= pos -> Forall (fun r => 0 <= fst r) sc ->
  0 <= fst (fst (astep o n pos sc c)) /\ Forall (fun r => 0 <= fst r) (snd (fst (astep o n pos sc c))).
Proof.
  intros Hpos Hsc. destruct c as [p|p a|d wh|]; cbn [astep].
  - destruct (Z.geb_spec pos n); [cbn; auto|].
    unfold put. change respond with under.
    set (q := firstn _ p).
    pose proof (under_count sc q Hsc). pose proof (under_script_ok sc q Hsc).
    destruct (under sc q) as [[cnt e] sc']. cbn [fst snd] in *. split; [lia|auto].
  - destruct ((a <? 0) || (a >=? n)); [cbn; auto|].
    unfold put. change respond with under.
    set (q := firstn _ p).
    pose proof (under_script_ok sc q Hsc).
    destruct (under sc q) as [[cnt e] sc']. cbn [fst snd] in *. auto.
  - destruct (if wh =? 0 then Some 0 else if wh =? 1 then Some pos else if wh =? 2 then Some n else None);
      [|cbn; auto].
    destruct (Z.ltb_spec (z + d) 0); cbn [orb]; [cbn; auto|].
    destruct (o + (z + d) >? max_int64); cbn; auto.
  - cbn; auto.
Qed.

Lemma arun_contained o n : forall cs pos sc, 0 <= pos -> Forall (fun r => 0 <= fst r) sc ->
  Forall2 (contained o n) cs (arun o n pos sc cs).
Proof.
  induction cs as [|c cs IH]; intros pos sc Hpos Hsc; cbn [arun]; [constructor|].
  pose proof (astep_contained o n pos sc c Hpos) as Hc.
  pose proof (astep_pos_nonneg o n pos sc c Hpos Hsc) as [Hp' Hs'].
  destruct (astep o n pos sc c) as [[pos' sc'] r]. cbn [fst snd] in *.
  constructor; [exact Hc|]. now apply IH.
Qed.

(** containment stated directly on the model's outputs *)
Definition contained_m (o n : Z) (c : call) (r : out) : Prop :=
  contained o n (to_acall c) (obs r).

Lemma Forall2_map_r {A B C} (P : A -> C -> Prop) (f : B -> C) l m :
  Forall2 P l (map f m) -> Forall2 (fun a b => P a (f b)) l m.
Proof.
  revert l. induction m as [|b m IH]; intros l H; inversion H; subst; constructor; auto.
Qed.

Lemma Forall2_map_l {A B C} (P : B -> C -> Prop) (f : A -> B) l m :
  Forall2 P (map f l) m -> Forall2 (fun a b => P (f a) b) l m.
Proof.
  revert m. induction l as [|a l IH]; intros m H; inversion H; subst; constructor; auto.
Qed.

Theorem section_contained o n sc cs :
  sec_ok o n -> script_ok sc -> Forall call_ok cs ->
  Forall2 (contained_m o n) cs (run (NewSectionWriter o n) sc cs).
Proof.
  intros Hs Hsc Hcs.
  pose proof (arun_contained o n (map to_acall cs) 0 sc ltac:(lia) Hsc) as H.
  fold (spec_section o n sc (map to_acall cs)) in H.
  rewrite <- (section_refines o n sc cs Hs Hsc Hcs) in H.
  apply Forall2_map_r in H. apply Forall2_map_l in H. exact H.
Qed.

(** * accounting on the model: what a Write / WriteAt from a reachable state returns *)

(** final state and remaining script after a call sequence *)
Fixpoint exec (s : sw) (sc : list resp) (cs : list call) : sw * list resp :=
  match cs with
  | [] => (s, sc)
  | c :: t => let '(s', sc', _) := step s sc c in exec s' sc' t
  end.

Lemma exec_R o n : sec_ok o n ->
  forall cs s pos sc, R o n s pos -> script_ok sc -> Forall call_ok cs ->
  exists pos', R o n (fst (exec s sc cs)) pos' /\ script_ok (snd (exec s sc cs)).
Proof.
  intros Hs. induction cs as [|c cs IH]; intros s pos sc HR Hsc Hcs; cbn [exec].
  - exists pos. auto.
  - inversion Hcs as [|? ? Hc Hcs']; subst.
    pose proof (step_refines o n s pos sc c Hs HR Hsc Hc) as Hstep.
    destruct (step s sc c) as [[s' sc'] r].
    destruct (astep o n pos sc (to_acall c)) as [[pos' asc'] ar].
    destruct Hstep as (HR' & _ & _ & Hsc'). eapply IH; eauto.
Qed.

(** Write from any reachable state: either nothing reaches the writer, the
    cursor stays and (0, ErrShortWrite) is returned -- exactly when the cursor
    is at or beyond the section end; or exactly one call is made at the cursor
    with the first min(|p|, n - pos) bytes, the count returned is the
    writer's, the cursor advances by exactly it, and the error is the
    writer's if any, else ErrShortWrite iff the request was truncated. *)
Definition write_accounting (o n : Z) (s : sw) (sc : list resp) (p : list Z) : Prop :=
  let pos := off s - o in
  let '(s', sc', r) := Write s sc p in
  (n <= pos /\ s' = s /\ sc' = sc /\ rets r = [0; E_short] /\ ucalls r = []) \/
  (pos < n /\
   let m := Z.min (zlen p) (n - pos) in
   let bs := firstn (Z.to_nat m) p in
   let '((cnt, e), rest) := under sc bs in
   ucalls r = [(o + pos, bs)] /\ sc' = rest /\
   off s' = off s + cnt /\ base s' = base s /\ limit s' = limit s /\
   0 <= cnt <= m /\
   rets r = [cnt; if e =? 0 then (if m <? zlen p then E_short else E_nil) else e]).

Lemma write_accounting_R o n s pos sc p :
  sec_ok o n -> R o n s pos -> script_ok sc -> write_accounting o n s sc p.
Proof.
  intros Hs HR Hsc.
  pose proof (write_refines o n s pos sc p Hs HR Hsc) as Href.
  destruct Hs as (Ho & Hn & Hon). destruct HR as (Hb & Hl & Hoff & Hp & Hpm).
  unfold write_accounting. replace (off s - o) with pos by lia.
  unfold step_rel in Href.
  destruct (Write s sc p) as [[s' sc'] r] eqn:HW.
  cbn [astep] in Href.
  destruct (Z.geb_spec pos n) as [Hge|Hlt].
  - left. destruct Href as (HR' & Hsceq & (Hr1 & Hr2) & _). cbn [fst snd] in *.
    split; [lia|].
    unfold Write in HW. rewrite Hl, Hoff in HW.
    destruct (Z.geb_spec (o + pos) (o + n)); [|lia].
    inversion HW; subst. auto.
  - right. split; [lia|]. cbv zeta.
    unfold put in Href. change respond with under in Href.
    pose proof (zlen_nonneg p) as Hlen.
    pose proof (under_count sc (firstn (Z.to_nat (Z.min (zlen p) (n - pos))) p) Hsc) as Hc.
    rewrite zlen_firstn in Hc by lia.
    destruct (under sc (firstn (Z.to_nat (Z.min (zlen p) (n - pos))) p)) as [[cnt e] rest].
    cbn [fst snd] in Hc.
    destruct Href as ((Hb' & Hl' & Hoff' & _) & Hsceq & (Hr1 & Hr2) & _). cbn [fst snd] in *.
    unfold E_short, E_nil, A_short, A_nil in *.
    repeat split; auto; try lia.
Qed.

Theorem write_accounting_reachable o n sc cs p :
  sec_ok o n -> script_ok sc -> Forall call_ok cs ->
  let '(s, sc') := exec (NewSectionWriter o n) sc cs in write_accounting o n s sc' p.
Proof.
  intros Hs Hsc Hcs.
  destruct (exec_R o n Hs cs _ 0 sc (R_new o n Hs) Hsc Hcs) as (pos' & HR & Hsc').
  destruct (exec (NewSectionWriter o n) sc cs) as [s sc']. cbn [fst snd] in *.
  eapply write_accounting_R; eauto.
Qed.
