(** C01 widening: the contract of the two query functions on their own, separated from how the index was built.
    Rank64 / Rank128 read ONE index entry and ONE word; whatever produced the index (IndexRank64 with or without
    the total, IndexSelect32R64, a longer or hand-made slice), the answer is exact as soon as that one entry is
    the count before the checkpoint it stands for. *)
From Coq Require Import ZArith List Lia Bool.
From Low Require Import Lib.MachInt Lib.Bits Lib.BitSeq Model.Rank Spec.RankSpec Proofs.RankProofs.
Import ListNotations.
Open Scope Z_scope.

(** locality: only entry and word number [i >> 6] matter *)
Theorem Rank64_local ws ws' ridx ridx' i :
  nthZ ridx (Z.shiftr i 6) = nthZ ridx' (Z.shiftr i 6) -> nthZ ws (Z.shiftr i 6) = nthZ ws' (Z.shiftr i 6) ->
  Rank64 ws ridx i = Rank64 ws' ridx' i.
Proof. intros H1 H2. unfold Rank64. now rewrite H1, H2. Qed.

Theorem Rank128_local ws ws' ridx ridx' i :
  nthZ ridx (Z.shiftr (i + 64) 7) = nthZ ridx' (Z.shiftr (i + 64) 7) ->
  nthZ ws (Z.shiftr i 6) = nthZ ws' (Z.shiftr i 6) ->
  Rank128 ws ridx i = Rank128 ws' ridx' i.
Proof. intros H1 H2. unfold Rank128. now rewrite H1, H2. Qed.

(** Rank64: the entry for word [i / 64] must be the count before position [64 * (i / 64)] *)
Theorem Rank64_contract ws ridx i :
  words_ok ws -> 0 <= i < 64 * zlen ws ->
  nthZ ridx (i / 64) = Some (rank1z (flat ws) (64 * (i / 64))) ->
  Rank64 ws ridx i = Some (spec_Rank ws i).
Proof.
  intros Hok Hi Hidx. unfold zlen in Hi.
  destruct (pos_split i ltac:(lia)) as (E1 & E2 & E3 & Hj & Hk).
  unfold Rank64. rewrite E1, E2, Hidx.
  set (k := Z.to_nat (i / 64)). set (j := Z.to_nat (i mod 64)).
  assert (Hkl : (k < length ws)%nat).
  { subst k. pose proof (Z.div_lt_upper_bound i 64 (Z.of_nat (length ws))). lia. }
  replace (i / 64) with (Z.of_nat k) by (subst k; lia).
  rewrite nthZ_of_nat.
  destruct (nth_error ws k) as [w|] eqn:Hw; [|apply nth_error_None in Hw; lia].
  destruct (spec_rank_at ws k w j Hok Hw ltac:(subst j; lia)) as [R B].
  unfold spec_Rank, rank1z, bitz. rewrite E3. fold k j. rewrite R, B.
  replace (Z.to_nat (64 * Z.of_nat k)) with (64 * k)%nat by lia.
  replace (Z.of_nat j) with (i mod 64) by (subst j; lia).
  rewrite shiftr_land_1 by lia. reflexivity.
Qed.

(** Rank128: the entry for checkpoint [c = (i + 64) / 128] must be the count before position [128 * c]
    (beyond the end of the bitmap that is the total count) *)
Theorem Rank128_contract ws ridx i :
  words_ok ws -> 0 <= i < 64 * zlen ws ->
  nthZ ridx ((i + 64) / 128) = Some (rank1z (flat ws) (128 * ((i + 64) / 128))) ->
  Rank128 ws ridx i = Some (spec_Rank ws i).
Proof.
  intros Hok Hi Hidx. unfold zlen in Hi.
  destruct (pos_split i ltac:(lia)) as (E1 & E2 & E3 & Hj & Hk).
  unfold Rank128. rewrite E1, E2.
  set (k := Z.to_nat (i / 64)). set (j := Z.to_nat (i mod 64)).
  assert (Hkl : (k < length ws)%nat).
  { subst k. pose proof (Z.div_lt_upper_bound i 64 (Z.of_nat (length ws))). lia. }
  destruct (nth_error ws k) as [w|] eqn:Hw; [|apply nth_error_None in Hw; lia].
  pose proof (words_ok_nth _ _ _ Hok Hw) as Hwr.
  destruct (spec_rank_at ws k w j Hok Hw ltac:(subst j; lia)) as [R B].
  rewrite Z.shiftr_div_pow2 by lia. change (2 ^ 7) with 128. rewrite Hidx.
  change 1 with (Z.ones 1). rewrite Z.land_ones by lia. change (2 ^ 1) with 2. change (Z.ones 1) with 1.
  pose proof (Z.div_mod i 64 ltac:(lia)) as Hdm.
  pose proof (Z.div_mod (i / 64) 2 ltac:(lia)) as Hdm2.
  pose proof (Z.mod_pos_bound (i / 64) 2 ltac:(lia)) as Hm2.
  set (h := i / 64 / 2) in *.
  assert (Hh : 0 <= h) by (subst h; apply Z.div_pos; lia).
  assert (Hcp : (i + 64) / 128 = h + (i / 64) mod 2).
  { symmetry. apply (Z.div_unique _ _ _ (i + 64 - 128 * (h + (i / 64) mod 2))); lia. }
  rewrite Hcp.
  assert (Ews : nthZ ws (i / 64) = Some w).
  { replace (i / 64) with (Z.of_nat k) by (subst k; lia). now rewrite nthZ_of_nat. }
  rewrite Ews.
  assert (Hk2 : Z.of_nat k = 2 * h + (i / 64) mod 2) by (subst k; lia).
  unfold spec_Rank, rank1z, bitz. rewrite E3. fold k j. rewrite R, B.
  replace (Z.of_nat j) with (i mod 64) by (subst j; lia).
  rewrite shiftr_land_1 by lia. f_equal. f_equal.
  destruct (Z.eq_dec ((i / 64) mod 2) 0) as [Ez|Enz].
  - rewrite Ez. replace (Z.to_nat (128 * (h + 0))) with (64 * k)%nat by lia. lia.
  - assert (E1' : (i / 64) mod 2 = 1) by lia. rewrite E1'.
    replace (Z.to_nat (128 * (h + 1))) with (64 * k + 64)%nat by lia.
    rewrite (rank1_flat ws k w 64 Hw) by lia.
    rewrite (firstn_all2 (n:=64)) by (rewrite bits_length; lia).
    rewrite <- popcount_bits64 by exact Hwr. lia.
Qed.
