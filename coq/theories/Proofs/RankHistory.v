(** C01 widening: histories over several bitmaps with held indexes - every query answers for the current
    contents of its bitmap, whatever was queried or overwritten before; and compositions with ToArray / Get1. *)
From Coq Require Import ZArith List Lia Bool.
From Low Require Import Lib.MachInt Lib.Bits Lib.BitSeq
  Model.Rank Model.RankOps Spec.RankSpec Spec.RankLawsSpec Proofs.RankProofs Proofs.Rank32Proofs Proofs.RankLaws.
Import ListNotations.
Open Scope Z_scope.

Lemma set_nth_map {A B} (f : A -> B) l : forall k x, set_nth (map f l) k (f x) = map f (set_nth l k x).
Proof.
  induction l as [|y t IH]; intros k x; [destruct k; reflexivity|].
  destruct k; cbn [map set_nth]; [reflexivity|]. now rewrite IH.
Qed.

Lemma set_nth_Forall {A} (P : A -> Prop) l : forall k x, Forall P l -> P x -> Forall P (set_nth l k x).
Proof.
  induction l as [|y t IH]; intros k x Hl Hx; [destruct k; constructor|].
  inversion Hl; subst. destruct k; cbn [set_nth]; constructor; auto.
Qed.

Lemma set_nth_length {A} (l : list A) : forall k x, length (set_nth l k x) = length l.
Proof.
  induction l as [|y t IH]; intros k x; [destruct k; reflexivity|].
  destruct k; cbn [set_nth length]; [reflexivity|]. now rewrite IH.
Qed.

Lemma nthZ_In {A} (l : list A) i x : nthZ l i = Some x -> In x l.
Proof.
  unfold nthZ. destruct (i <? 0); [discriminate|]. apply nth_error_In.
Qed.

Lemma hquery_build f ws i : hquery f (build ws) i = query f ws i.
Proof. destruct f as [[|]|]; reflexivity. Qed.

Theorem history_exact steps : forall bms,
  Forall words_ok bms -> Forall hstep_ok steps ->
  hrun (map build bms) steps = spec_hrun bms steps.
Proof.
  induction steps as [|s t IH]; intros bms Hb Hs; [reflexivity|].
  inversion Hs as [|? ? Hs1 Hs2]; subst.
  cbn [hrun spec_hrun]. destruct s as [f b i|b k w]; cbn [hstep_run spec_hstep].
  - rewrite nthZ_map. destruct (nthZ bms b) as [ws|] eqn:E; cbn [option_map]; [|reflexivity].
    assert (Hw : words_ok ws) by exact (proj1 (Forall_forall _ _) Hb ws (nthZ_In _ _ _ E)).
    rewrite hquery_build, query_total by exact Hw. rewrite IH by assumption. reflexivity.
  - rewrite nthZ_map. destruct (nthZ bms b) as [ws|] eqn:E; cbn [option_map]; [|reflexivity].
    assert (Hw : words_ok ws) by exact (proj1 (Forall_forall _ _) Hb ws (nthZ_In _ _ _ E)).
    cbn [build st_ws st_i64t].
    destruct ((0 <=? k) && (k <? zlen ws)); [|reflexivity].
    set (ws' := set_nth ws (Z.to_nat k) w).
    assert (Hw' : words_ok ws') by (apply set_nth_Forall; assumption).
    change (nthZ (IndexRank64 ws' true) (zlen ws')) with (trailing_total ws').
    rewrite trailing_total_exact by exact Hw'.
    rewrite set_nth_map, IH; [reflexivity| |assumption].
    apply set_nth_Forall; assumption.
Qed.

(** what overwriting one word does to the counts: nothing before that word, the difference of the two bit counts
    after it *)
Lemma flat_set_nth ws : forall k w w0, nth_error ws k = Some w0 ->
  flat (set_nth ws k w) = firstn (64 * k) (flat ws) ++ bits 64 w ++ skipn (64 * S k) (flat ws).
Proof.
  induction ws as [|y t IH]; intros k w w0 H; [destruct k; discriminate|].
  destruct k as [|k]; cbn [set_nth].
  - rewrite !flat_cons. replace (64 * 0)%nat with 0%nat by lia. cbn [firstn app].
    apply f_equal. replace (64 * 1)%nat with (length (bits 64 y)) by (rewrite bits_length; lia).
    now rewrite skipn_app, skipn_all, Nat.sub_diag.
  - cbn [nth_error] in H. rewrite !flat_cons, (IH k w w0 H).
    replace (64 * S k)%nat with (length (bits 64 y) + 64 * k)%nat by (rewrite bits_length; lia).
    rewrite firstn_app_2.
    replace (64 * S (S k))%nat with (length (bits 64 y) + 64 * S k)%nat by (rewrite bits_length; lia).
    rewrite skipn_app. rewrite (skipn_all2 (n:=length (bits 64 y) + 64 * S k) (bits 64 y)) by lia.
    replace (length (bits 64 y) + 64 * S k - length (bits 64 y))%nat with (64 * S k)%nat by lia.
    cbn [app]. rewrite <- app_assoc. rewrite bits_length. do 3 apply f_equal. f_equal. lia.
Qed.

Lemma firstn_app_short {A} (a b : list A) n : (n <= length a)%nat -> firstn n (a ++ b) = firstn n a.
Proof. intros H. rewrite firstn_app. replace (n - length a)%nat with 0%nat by lia. now rewrite firstn_O, app_nil_r. Qed.

Lemma firstn_app_long {A} (a b : list A) n : (length a <= n)%nat -> firstn n (a ++ b) = a ++ firstn (n - length a) b.
Proof. intros H. rewrite firstn_app. now rewrite (firstn_all2 (n:=n) a) by lia. Qed.

Theorem rank_after_set ws k w w0 i : nth_error ws k = Some w0 -> 0 <= i ->
  (i <= 64 * Z.of_nat k -> rank1z (flat (set_nth ws k w)) i = rank1z (flat ws) i) /\
  (64 * Z.of_nat (S k) <= i ->
     rank1z (flat (set_nth ws k w)) i = rank1z (flat ws) i - pop1 w0 + pop1 w).
Proof.
  intros H Hi.
  assert (Hk : (k < length ws)%nat) by (apply nth_error_Some; congruence).
  pose proof (flat_split k ws w0 H) as Hs.
  assert (Hlf : length (flat (firstn k ws)) = (64 * k)%nat) by (rewrite flat_length, firstn_length; lia).
  unfold rank1z, rank1. rewrite (flat_set_nth ws k w w0 H), firstn_flat_words, skipn_flat_words. rewrite Hs.
  split; intros Hr.
  - rewrite !(firstn_app_short (flat (firstn k ws))) by lia. reflexivity.
  - rewrite !(firstn_app_long (flat (firstn k ws))) by lia. rewrite Hlf.
    rewrite (firstn_app_long (bits 64 w)), (firstn_app_long (bits 64 w0)) by (rewrite bits_length; lia).
    rewrite !count_true_app, !bits_length. unfold pop1. lia.
Qed.
