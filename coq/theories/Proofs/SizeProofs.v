(** Proofs for C20: [sizeof] (the model of size/sizeof.go) equals the structural
    sum over the flattened value tree. *)
From Coq Require Import ZArith List Bool Lia.
From Low Require Import Model.Size Spec.SizeSpec.
Import ListNotations.
Open Scope Z_scope.

(** * Induction principle for the nested inductive [value] *)
Section ValueInd.
  Variable P : value -> Prop.
  Hypothesis Hscalar : forall k, P (VScalar k).
  Hypothesis Hstring : forall bs, P (VString bs).
  Hypothesis Hslice_nil : P (VSlice None).
  Hypothesis Hslice : forall l, Forall P l -> P (VSlice (Some l)).
  Hypothesis Harray : forall l, Forall P l -> P (VArray l).
  Hypothesis Hmap : forall kvs, Forall (fun kv => P (fst kv) /\ P (snd kv)) kvs -> P (VMap kvs).
  Hypothesis Hptr_nil : P (VPtr None).
  Hypothesis Hptr : forall x, P x -> P (VPtr (Some x)).
  Hypothesis Hiface_nil : P (VIface None).
  Hypothesis Hiface : forall x, P x -> P (VIface (Some x)).
  Hypothesis Hstruct : forall fs, Forall P fs -> P (VStruct fs).
  Hypothesis Hother : P VOther.

  Fixpoint value_ind' (v : value) : P v :=
    let fix all (l : list value) : Forall P l :=
      match l with
      | [] => Forall_nil P
      | x :: t => Forall_cons x (value_ind' x) (all t)
      end in
    match v with
    | VScalar k => Hscalar k
    | VString bs => Hstring bs
    | VSlice None => Hslice_nil
    | VSlice (Some l) => Hslice l (all l)
    | VArray l => Harray l (all l)
    | VMap kvs =>
        Hmap kvs
          ((fix allp (l : list (value * value)) : Forall (fun kv => P (fst kv) /\ P (snd kv)) l :=
              match l with
              | [] => Forall_nil _
              | (k, x) :: t => Forall_cons (k, x) (conj (value_ind' k) (value_ind' x)) (allp t)
              end) kvs)
    | VPtr None => Hptr_nil
    | VPtr (Some x) => Hptr x (value_ind' x)
    | VIface None => Hiface_nil
    | VIface (Some x) => Hiface x (value_ind' x)
    | VStruct fs => Hstruct fs (all fs)
    | VOther => Hother
    end.
End ValueInd.

(** * Sums over flat lists *)
Lemma zsum_app a b : zsum (a ++ b) = zsum a + zsum b.
Proof. unfold zsum. induction a as [|x a IH]; cbn [app fold_right]; lia. Qed.

Lemma zsum_map_flat_map {A B} (w : B -> Z) (f : A -> list B) (l : list A) :
  zsum (map w (flat_map f l)) = zsum (map (fun x => zsum (map w (f x))) l).
Proof.
  induction l as [|x l IH]; [reflexivity|].
  cbn [flat_map map]. rewrite map_app, zsum_app, IH. reflexivity.
Qed.

Lemma zsum_cons x l : zsum (x :: l) = x + zsum l.
Proof. reflexivity. Qed.

Lemma zsum_map_add {A} (f g : A -> Z) (l : list A) :
  zsum (map (fun x => f x + g x) l) = zsum (map f l) + zsum (map g l).
Proof. induction l as [|x l IH]; [reflexivity|]. cbn [map]. rewrite !zsum_cons, IH. lia. Qed.

Lemma zsum_map_const {A} (c : Z) (l : list A) :
  zsum (map (fun _ => c) l) = c * Z.of_nat (length l).
Proof.
  induction l as [|x l IH]; [cbn; lia|].
  cbn [map length]. rewrite zsum_cons, IH, Nat2Z.inj_succ. lia.
Qed.

(** * The structural sum, one level at a time
    (this is the wording of the property statement: header + sizes of the parts) *)
Definition sizes (l : list value) : Z := zsum (map spec_size l).
Definition pair_sizes (l : list (value * value)) : Z :=
  zsum (map (fun kv => spec_size (fst kv) + spec_size (snd kv)) l).

Lemma spec_size_scalar k : spec_size (VScalar k) = width k.
Proof. unfold spec_size. cbn [leaves containers map]. rewrite !zsum_cons. cbn [zsum fold_right]. lia. Qed.

Lemma spec_size_string bs : spec_size (VString bs) = 16 + Z.of_nat (length bs).
Proof.
  unfold spec_size. cbn [leaves containers map]. rewrite map_map, zsum_map_const.
  rewrite zsum_cons. change (width KUint8) with 1. cbn [header zsum fold_right]. lia.
Qed.

Lemma flat_sizes (l : list value) :
  zsum (map width (flat_map leaves l)) + zsum (map header (flat_map containers l)) = sizes l.
Proof.
  rewrite !zsum_map_flat_map. unfold sizes, spec_size. rewrite zsum_map_add. reflexivity.
Qed.

Lemma spec_size_slice_nil : spec_size (VSlice None) = 24.
Proof. reflexivity. Qed.

Lemma spec_size_slice l : spec_size (VSlice (Some l)) = 24 + sizes l.
Proof.
  unfold spec_size. cbn [leaves containers map]. rewrite zsum_cons. cbn [header].
  rewrite <- flat_sizes. lia.
Qed.

Lemma spec_size_array l : spec_size (VArray l) = sizes l.
Proof.
  unfold spec_size. cbn [leaves containers map]. rewrite zsum_cons. cbn [header].
  rewrite <- flat_sizes. lia.
Qed.

Lemma spec_size_struct l : spec_size (VStruct l) = sizes l.
Proof.
  unfold spec_size. cbn [leaves containers map]. rewrite zsum_cons. cbn [header].
  rewrite <- flat_sizes. lia.
Qed.

Lemma spec_size_map kvs : spec_size (VMap kvs) = 8 + pair_sizes kvs.
Proof.
  unfold spec_size. cbn [leaves containers map]. rewrite zsum_cons. cbn [header].
  rewrite !zsum_map_flat_map. unfold pair_sizes.
  assert (E : forall l : list (value * value),
             zsum (map (fun x => zsum (map width (let '(k, x0) := x in leaves k ++ leaves x0))) l) +
             zsum (map (fun x => zsum (map header (let '(k, x0) := x in containers k ++ containers x0))) l) =
             zsum (map (fun kv => spec_size (fst kv) + spec_size (snd kv)) l)).
  { induction l as [|[k x] l IH]; [reflexivity|].
    cbn [map fst snd]. rewrite !zsum_cons, <- IH, !map_app, !zsum_app. unfold spec_size. lia. }
  rewrite <- E. lia.
Qed.

Lemma spec_size_ptr_nil : spec_size (VPtr None) = 8.
Proof. reflexivity. Qed.
Lemma spec_size_ptr x : spec_size (VPtr (Some x)) = 8 + spec_size x.
Proof. unfold spec_size. cbn [leaves containers map]. rewrite zsum_cons. cbn [header]. lia. Qed.
Lemma spec_size_iface_nil : spec_size (VIface None) = 16.
Proof. reflexivity. Qed.
Lemma spec_size_iface x : spec_size (VIface (Some x)) = 16 + spec_size x.
Proof. unfold spec_size. cbn [leaves containers map]. rewrite zsum_cons. cbn [header]. lia. Qed.

(** * The loops of the model *)
Lemma sum_elems_ok (f : value -> option Z) (g : value -> Z) (l : list value) :
  Forall (fun x => f x = Some (g x)) l ->
  forall acc, sum_elems f l acc = Some (acc + zsum (map g l)).
Proof.
  induction 1 as [|x l Hx _ IH]; intros acc; cbn [sum_elems map].
  - cbn [zsum fold_right]. f_equal. lia.
  - rewrite Hx, IH, zsum_cons. f_equal. lia.
Qed.

Lemma sum_pairs_ok (f : value -> option Z) (g : value -> Z) (l : list (value * value)) :
  Forall (fun kv => f (fst kv) = Some (g (fst kv)) /\ f (snd kv) = Some (g (snd kv))) l ->
  forall acc, sum_pairs f l acc = Some (acc + zsum (map (fun kv => g (fst kv) + g (snd kv)) l)).
Proof.
  induction 1 as [|[k x] l [Hk Hx] _ IH]; intros acc; cbn [sum_pairs map].
  - cbn [zsum fold_right]. f_equal. lia.
  - cbn [fst snd] in *. rewrite Hk, Hx, IH, zsum_cons. cbn [fst snd]. f_equal. lia.
Qed.

Lemma type_size_width k : type_size k = width k.
Proof. destruct k; reflexivity. Qed.

Lemma scalar_case_current k : scalar_case false k = Some (width k).
Proof. destruct k; reflexivity. Qed.

Lemma string_loop_ok (bs : list Z) : forall acc,
  (fix go (bs : list Z) (sum : Z) {struct bs} : option Z :=
     match bs with
     | [] => Some sum
     | _ :: t => match scalar_case false KUint8 with
                 | None => None
                 | Some s => go t (sum + (s + 0))
                 end
     end) bs acc = Some (acc + Z.of_nat (length bs)).
Proof.
  induction bs as [|b bs IH]; intros acc.
  - cbn [length]. f_equal. lia.
  - rewrite scalar_case_current. rewrite IH. change (width KUint8) with 1.
    cbn [length]. rewrite Nat2Z.inj_succ. f_equal. lia.
Qed.

(** * Main theorem *)
Lemma forallb_Forall_imp {A} (p : A -> bool) (P : A -> Prop) (l : list A) :
  Forall (fun x => p x = true -> P x) l -> forallb p l = true -> Forall P l.
Proof.
  induction 1 as [|x l Hx _ IH]; intros H; [constructor|].
  cbn [forallb] in H. apply andb_prop in H as [H1 H2]. constructor; auto.
Qed.

Theorem sizeof_structural : forall v, supported v -> sizeof v = Some (spec_size v).
Proof.
  unfold supported, sizeof.
  induction v using value_ind'; intros S; cbn [supportedb] in S.
  - (* scalar *) cbn [sizeof_gen header_of]. rewrite scalar_case_current, spec_size_scalar. f_equal. lia.
  - (* string *) cbn [sizeof_gen header_of]. rewrite string_loop_ok, spec_size_string.
    unfold stringsize. f_equal. lia.
  - (* nil slice *) reflexivity.
  - (* slice *) cbn [sizeof_gen header_of].
    rewrite (sum_elems_ok _ spec_size) by (eapply forallb_Forall_imp; eauto).
    rewrite spec_size_slice. unfold slicesize, sizes. f_equal. lia.
  - (* array *) cbn [sizeof_gen header_of].
    rewrite (sum_elems_ok _ spec_size) by (eapply forallb_Forall_imp; eauto).
    rewrite spec_size_array. unfold sizes. f_equal. lia.
  - (* map *) cbn [sizeof_gen header_of].
    rewrite (sum_pairs_ok _ spec_size).
    + rewrite spec_size_map. unfold mapsize, pair_sizes. f_equal. lia.
    + eapply (forallb_Forall_imp _ _ kvs); [|exact S].
      eapply Forall_impl; [|exact H]. intros [k x] [Hk Hx] Hs. cbn [fst snd] in *.
      apply andb_prop in Hs as [S1 S2]. auto.
  - (* nil ptr *) reflexivity.
  - (* ptr *) cbn [sizeof_gen header_of]. rewrite (IHv S), spec_size_ptr. unfold pointersize. f_equal. lia.
  - (* nil iface *) reflexivity.
  - (* iface *) cbn [sizeof_gen header_of]. rewrite (IHv S), spec_size_iface. unfold interfacesize. f_equal. lia.
  - (* struct *) cbn [sizeof_gen header_of].
    rewrite (sum_elems_ok _ spec_size) by (eapply forallb_Forall_imp; eauto).
    rewrite spec_size_struct. unfold sizes. f_equal. lia.
  - (* other *) discriminate.
Qed.

(** no supported kind makes sizeof panic *)
Corollary sizeof_no_panic : forall v, supported v -> sizeof v <> None.
Proof. intros v S. rewrite (sizeof_structural v S). discriminate. Qed.

Theorem Of_structural : forall data,
  match data with Some v => supported v | None => True end ->
  Of data = Some (spec_Of data).
Proof.
  intros [v|] S; cbn [Of Of_gen spec_Of]; [apply (sizeof_structural v S)|reflexivity].
Qed.

Theorem StatFirst_structural : forall data depth maxItem,
  match data with Some v => supported v | None => True end ->
  StatFirst data depth maxItem = Some (spec_StatFirst data).
Proof.
  intros [v|] d m S; unfold StatFirst; cbn [StatFirst_gen spec_StatFirst]; [|reflexivity].
  change (sizeof_gen false v) with (sizeof v). rewrite (sizeof_structural v S). reflexivity.
Qed.

(** the first line of Stat carries the number Of returns *)
Theorem StatFirst_agrees_Of : forall v depth maxItem n,
  Of (Some v) = Some n -> StatFirst (Some v) depth maxItem = Some (Some n).
Proof.
  intros v d m n H. unfold StatFirst, Of in *. cbn [StatFirst_gen Of_gen] in *. rewrite H. reflexivity.
Qed.

(** the statement's wording, clause by clause (each header is added exactly once per level) *)
Theorem structural_sum_clauses :
  (forall k, spec_size (VScalar k) = width k) /\
  (forall bs, spec_size (VString bs) = 16 + Z.of_nat (length bs)) /\
  (spec_size (VSlice None) = 24) /\
  (forall l, spec_size (VSlice (Some l)) = 24 + sizes l) /\
  (forall kvs, spec_size (VMap kvs) = 8 + pair_sizes kvs) /\
  (spec_size (VPtr None) = 8) /\
  (forall x, spec_size (VPtr (Some x)) = 8 + spec_size x) /\
  (spec_size (VIface None) = 16) /\
  (forall x, spec_size (VIface (Some x)) = 16 + spec_size x) /\
  (forall l, spec_size (VArray l) = sizes l) /\
  (forall l, spec_size (VStruct l) = sizes l).
Proof.
  repeat split.
  - exact spec_size_scalar. - exact spec_size_string. - exact spec_size_slice.
  - exact spec_size_map. - exact spec_size_ptr. - exact spec_size_iface.
  - exact spec_size_array. - exact spec_size_struct.
Qed.

(** the scalar list before commit 115a67f: uint panics *)
Theorem legacy_uint_panics :
  exists v, supported v /\ legacy_Of (Some v) = None.
Proof. exists (VStruct [VScalar KInt32; VScalar KUint]). split; vm_compute; reflexivity. Qed.
