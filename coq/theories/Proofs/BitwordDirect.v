(** C08: the word-by-word reading of Spec/BitwordSpecDirect.v (used by the
    correspondence run on large inputs) says the same as the chunk reading of
    Spec/BitwordSpec.v. *)
From Coq Require Import ZArith List Bool Lia PeanoNat.
From Low Require Import Lib.MachInt Lib.Bits Lib.BitSeq Lib.Bytes Lib.Lex Lib.Val Lib.Pack_bw Lib.PackLemmas_bw
  Model.Bitword Spec.BitwordSpec Spec.BitwordSpecDirect Proofs.BitwordProofs Proofs.BitwordToStr Proofs.BitwordFirstDiff.
Import ListNotations.
Open Scope Z_scope.

Lemma of_nat_div a b : (0 < b)%nat -> Z.of_nat (a / b) = Z.of_nat a / Z.of_nat b.
Proof.
  intros Hb. apply (Z.div_unique _ _ _ (Z.of_nat (a mod b))).
  - left. pose proof (Nat.mod_upper_bound a b ltac:(lia)). lia.
  - rewrite <- Nat2Z.inj_mul, <- Nat2Z.inj_add. f_equal. apply Nat.div_mod. lia.
Qed.

Lemma spec_FromStr_zlen n s : (0 < n)%nat -> zlen (spec_FromStr n s) = nwords n s.
Proof.
  intros Hn. unfold spec_FromStr, nwords, zlen.
  rewrite map_length, chunks_length, msb_bits_length, of_nat_div by exact Hn.
  now rewrite Nat2Z.inj_mul.
Qed.

Lemma nth_error_chunks {A} n (l : list A) k : (k < length l / n)%nat ->
  nth_error (chunks n l) k = Some (firstn n (skipn (k * n) l)).
Proof.
  intros H. unfold chunks. rewrite nth_error_map, seq_nth_error by exact H. reflexivity.
Qed.

(** word i of the chunk reading = the n bits that start at bit i*n *)
Lemma spec_word_eq n s i : (0 < n)%nat -> spec_word n s i = spec_Get n s i.
Proof.
  intros Hn. unfold spec_word, spec_Get.
  pose proof (spec_FromStr_zlen n s Hn) as L.
  destruct (Z.leb_spec 0 i); cbn [andb].
  - destruct (Z.ltb_spec i (nwords n s)).
    + unfold nthZ. destruct (Z.ltb_spec i 0); [lia|].
      unfold spec_FromStr at 1. rewrite nth_error_map, nth_error_chunks; [reflexivity|].
      unfold zlen in L. unfold spec_FromStr in L. rewrite map_length, chunks_length in L. lia.
    + unfold nthZ. destruct (Z.ltb_spec i 0); [lia|].
      symmetry. apply nth_error_None. unfold zlen in L. lia.
  - unfold nthZ. destruct (Z.ltb_spec i 0); [reflexivity|lia].
Qed.

Lemma find_ext {A} (f g : A -> bool) l : (forall x, f x = g x) -> find f l = find g l.
Proof. intros H. induction l as [|x l IH]; [reflexivity|]. cbn [find]. now rewrite H, IH. Qed.

Lemma spec_FirstDiff_direct_eq n a b from end_ : (0 < n)%nat ->
  spec_FirstDiff_direct n a b from end_ = spec_FirstDiff n a b from end_.
Proof.
  intros Hn. unfold spec_FirstDiff_direct, spec_FirstDiff. cbv zeta.
  rewrite !spec_FromStr_zlen by exact Hn.
  erewrite find_ext; [reflexivity|].
  intros i. cbv beta. f_equal. unfold word_eqb_direct, word_eqb.
  rewrite !spec_word_eq by exact Hn. reflexivity.
Qed.

(** * front-to-back chunking = [chunks] *)
Lemma chunks_seq_eq {A} n : (0 < n)%nat -> forall fuel (l : list A), (length l < fuel)%nat ->
  chunks_seq fuel n l = chunks n l.
Proof.
  intros Hn. induction fuel as [|f IH]; intros l Hl; [lia|].
  cbn [chunks_seq]. rewrite firstn_length.
  destruct (Nat.ltb_spec (Init.Nat.min n (length l)) n) as [Hlt|Hge].
  - symmetry. apply chunks_short. lia.
  - rewrite <- (firstn_skipn n l) at 3.
    rewrite chunks_app_block; [|exact Hn|rewrite firstn_length; lia].
    f_equal. apply IH. rewrite skipn_length. lia.
Qed.

Lemma spec_FromStr_seq_eq n s : (0 < n)%nat -> spec_FromStr_seq n s = spec_FromStr n s.
Proof. intros Hn. unfold spec_FromStr_seq, spec_FromStr. cbv zeta. rewrite chunks_seq_eq by lia. reflexivity. Qed.

Lemma spec_ToStr_seq_eq n ws : spec_ToStr_seq n ws = spec_ToStr n ws.
Proof. unfold spec_ToStr_seq, spec_ToStr, pack. cbv zeta. rewrite chunks_seq_eq by lia. reflexivity. Qed.

Lemma widthP_pos n : widthP n -> (0 < n)%nat.
Proof. intros H; destruct H as [ -> | [ -> | [ -> | -> ]]]; lia. Qed.

(** * the model against the word-by-word reading *)
Lemma Get_word n s i : widthP n -> bytes_ok s -> 0 <= i < nwords n s ->
  Get (newBW (Z.of_nat n)) s i = spec_word n s i /\
  nthZ (FromStr (newBW (Z.of_nat n)) s) i = spec_word n s i.
Proof.
  intros Hn Hs Hi. rewrite spec_word_eq by now apply widthP_pos. split.
  - now apply Get_exact.
  - unfold spec_Get. now rewrite FromStr_exact.
Qed.

Lemma Get_outside n s i : widthP n -> ~ (0 <= i < nwords n s) -> Get (newBW (Z.of_nat n)) s i = None.
Proof.
  intros Hn Hi. unfold Get. destruct (newBW_fields n Hn) as (Ew & _ & _). rewrite Ew.
  assert (Hnp : 0 < Z.of_nat n) by (apply widthP_pos in Hn; lia).
  assert (E8 : exists m, 8 = Z.of_nat n * m /\ 0 < m).
  { destruct Hn as [ -> | [ -> | [ -> | -> ]]]; [exists 8|exists 4|exists 2|exists 1]; split; reflexivity || lia. }
  destruct E8 as (m & E8 & Hm).
  assert (Enw : nwords n s = zlen s * m).
  { unfold nwords. rewrite E8. rewrite <- Z.mul_assoc, Z.mul_comm, Z.div_mul by lia. lia. }
  rewrite Z.shiftr_div_pow2 by lia. change (2 ^ 3) with 8.
  destruct (nthZ s (Z.of_nat n * i / 8)) as [x|] eqn:Ex; [|reflexivity].
  exfalso. apply Hi. apply nthZ_Some in Ex. destruct Ex as [H0 Hx].
  assert (Hlt : Z.of_nat n * i / 8 < zlen s).
  { unfold zlen. assert (Z.to_nat (Z.of_nat n * i / 8) < length s)%nat by (apply nth_error_Some; congruence). lia. }
  rewrite Enw. split.
  - destruct (Z.lt_ge_cases i 0) as [Hneg|]; [|lia].
    assert (Z.of_nat n * i / 8 < 0); [|lia]. apply Z.div_lt_upper_bound; nia.
  - pose proof (Z.div_mod (Z.of_nat n * i) 8 ltac:(lia)) as D.
    pose proof (Z.mod_pos_bound (Z.of_nat n * i) 8 ltac:(lia)) as B.
    assert (Z.of_nat n * i < Z.of_nat n * (zlen s * m)) by nia.
    apply Z.mul_lt_mono_pos_l in H; lia.
Qed.
