(** Equality of the definition generated from the Go source of bitword.bitWord.FirstDiff (coq/gen/Trans.v) and the
    model: three clamps of [end] (three join blocks), then a loop that calls the generated Get twice per iteration. *)
From Coq Require Import ZArith List Lia Bool.
From Low Require Import Lib.MachInt Lib.Bits Lib.BitSeq Lib.TransLib Proofs.TransEqLemmas.
From Low Require Model.Bitword Proofs.TransEq_bitword_bitWord_Get.
From LowGen Require Trans.
Import ListNotations.
Open Scope Z_scope.

(** the clamped end, as the model computes it *)
Definition clamp (w : Bitword.bitWord) (a b : list Z) (end_ : Z) : Z :=
  let la := zlen a * Bitword.byteCap w in
  let lb := zlen b * Bitword.byteCap w in
  let end_ := if end_ =? -1 then la else end_ in
  let end_ := if end_ >? la then la else end_ in
  if end_ >? lb then lb else end_.

(** C08's domain: a word width of at most 8 bits, strings whose word counts are far inside int, a start >= 0.
    The generated function tests the fuel on entering the loop header, the model after the loop condition, and the loop
    can leave from inside its body: the two agree for every fuel that suffices for the remaining iterations
    (with less, one of them gives up - None - one step before the other). *)
Lemma TransEq_bitword_bitWord_FirstDiff_fuel n w a b from end_ :
  0 <= Bitword.width w <= 8 -> 0 <= Bitword.byteCap w ->
  zlen a * Bitword.byteCap w < 2 ^ 59 -> zlen b * Bitword.byteCap w < 2 ^ 59 -> 0 <= from ->
  clamp w a b end_ - from <= Z.of_nat n ->
  Trans.bitword_bitWord_FirstDiff (S n) w a b from end_ =
  Bitword.FirstDiff_loop w a b from (clamp w a b end_) n.
Proof.
  intros Hw Hc Ha Hb Hf Hn. remember (S n) as f eqn:Ef.
  unfold clamp in Hn. cbv zeta in Hn.
  unfold Trans.bitword_bitWord_FirstDiff, clamp. cbv zeta beta.
  assert (0 <= zlen a * Bitword.byteCap w) by (unfold zlen; nia).
  assert (0 <= zlen b * Bitword.byteCap w) by (unfold zlen; nia).
  rewrite (i64_id (zlen a * Bitword.byteCap w)) by lia.
  rewrite (i64_id (zlen b * Bitword.byteCap w)) by lia.
  set (la := zlen a * Bitword.byteCap w) in *. set (lb := zlen b * Bitword.byteCap w) in *.
  (* the loop, for any end below 2^59 *)
  assert (L : forall e, e < 2 ^ 59 ->
    forall m i, 0 <= i -> e - i <= Z.of_nat m ->
    (fix k9 (fuel9 : nat) (t17 : Z) {struct fuel9} : option Z :=
       match fuel9 with
       | O => None
       | S f9 =>
           if t17 <? e then
             match Trans.bitword_bitWord_Get w a t17 with
             | None => None
             | Some t14 =>
                 match Trans.bitword_bitWord_Get w b t17 with
                 | None => None
                 | Some t15 => if negb (t14 =? t15) then Some t17 else k9 f9 (i64 (t17 + 1))
                 end
             end
           else Some e
       end) (S m) i = Bitword.FirstDiff_loop w a b i e m).
  { intros e He. induction m as [|m IH]; intros i Hi Hm.
    - cbv beta iota zeta fix. cbn [Bitword.FirstDiff_loop].
      destruct (Z.ltb_spec i e) as [Hlt|Hge]; [cbn [Z.of_nat] in Hm; lia|reflexivity].
    - remember (S m) as m' eqn:Em. cbv beta iota zeta fix. subst m'. cbn [Bitword.FirstDiff_loop].
      destruct (Z.ltb_spec i e) as [Hlt|Hge]; [|reflexivity].
      rewrite !TransEq_bitword_bitWord_Get.TransEq_bitword_bitWord_Get by (try lia; nia).
      destruct (Bitword.Get w a i) as [x|]; [|reflexivity].
      destruct (Bitword.Get w b i) as [y|]; [|reflexivity].
      destruct (x =? y); cbn [negb]; [|reflexivity].
      rewrite (i64_id (i + 1)) by lia. apply IH; [lia|]. rewrite Nat2Z.inj_succ in Hm. lia. }
  destruct (end_ =? -1).
  - destruct (Z.gtb_spec la la); [lia|].
    destruct (Z.gtb_spec la lb); subst f; apply L; lia.
  - destruct (Z.gtb_spec end_ la).
    + destruct (Z.gtb_spec la lb); subst f; apply L; lia.
    + destruct (Z.gtb_spec end_ lb); subst f; apply L; lia.
Qed.

(** the model runs the loop on [Z.to_nat (end - from)] units of fuel *)
Lemma TransEq_bitword_bitWord_FirstDiff w a b from end_ :
  0 <= Bitword.width w <= 8 -> 0 <= Bitword.byteCap w ->
  zlen a * Bitword.byteCap w < 2 ^ 59 -> zlen b * Bitword.byteCap w < 2 ^ 59 -> 0 <= from ->
  Trans.bitword_bitWord_FirstDiff (S (Z.to_nat (clamp w a b end_ - from))) w a b from end_ =
  Bitword.FirstDiff w a b from end_.
Proof.
  intros. rewrite TransEq_bitword_bitWord_FirstDiff_fuel by (try assumption; lia).
  unfold Bitword.FirstDiff, clamp. cbv zeta. reflexivity.
Qed.
