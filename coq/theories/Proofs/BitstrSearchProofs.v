(** C09 widened: how users combine the bitstr functions.
    - CmpUpto(a, e) is Cmp(New(a, 0, min(8*len(a), Len(e))), e): truncate-compare
      is the comparison of the truncation;
    - CmpUpto(., e) is monotone along Go's string order, so over sorted keys the
      keys that start with e's bit string form one contiguous block (binary search
      with CmpUpto is sound);
    - cutting the same string at a later bit gives a larger-or-equal bit string. *)
From Coq Require Import ZArith List Bool Lia PeanoNat.
From Low Require Import Lib.MachInt Lib.Bits Lib.BitSeq Lib.Bytes Lib.Lex Lib.Pack_bw
  Lib.PackLemmas_bw Lib.LexLemmas_bw Lib.LexExtra_sig Lib.PadLex_bw9 Model.Bitstr Spec.BitstrSpec
  Proofs.BitstrProofs.
Import ListNotations.
Open Scope Z_scope.

(** * truncation keeps the (non-strict) order *)
Lemma lex_firstn_mono {A} (cmp : A -> A -> comparison) n : forall a b,
  lex_cmp cmp a b <> Gt -> lex_cmp cmp (firstn n a) (firstn n b) <> Gt.
Proof.
  induction n as [|n IH]; intros a b H; [cbn; discriminate|].
  destruct a as [|x a], b as [|y b]; cbn [firstn lex_cmp] in *; try discriminate; try congruence.
  destruct (cmp x y); try discriminate; try congruence. now apply IH.
Qed.

Lemma bits_cmp_sign_mono u v b : bits_cmp u v <> Gt ->
  cmp_sign (bits_cmp u b) <= cmp_sign (bits_cmp v b).
Proof.
  intros H. destruct (bits_cmp u v) eqn:E; [| |congruence].
  - apply bits_cmp_eq in E. subst. lia.
  - destruct (bits_cmp u b) eqn:Eu.
    + apply bits_cmp_eq in Eu. subst b. rewrite (bits_cmp_antisym u v), E. cbn. lia.
    + destruct (bits_cmp v b); cbn; lia.
    + assert (Ebu : bits_cmp b u = Lt) by (rewrite (bits_cmp_antisym u b), Eu; reflexivity).
      pose proof (bits_cmp_lt_trans _ _ _ Ebu E) as Ebv.
      rewrite (bits_cmp_antisym b v), Ebv. cbn. lia.
Qed.

Lemma upto_mono a1 a2 b : bytes_ok a1 -> bytes_ok a2 -> bytes_cmp a1 a2 <> Gt ->
  bits_cmp (upto a1 b) (upto a2 b) <> Gt.
Proof.
  intros H1 H2 H. unfold upto. apply lex_firstn_mono. fold bits_cmp.
  now rewrite <- bytes_cmp_msb_bits.
Qed.

Lemma CmpUpto_mono a1 a2 b r1 r2 : bytes_ok a1 -> bytes_ok a2 -> bytes_cmp a1 a2 <> Gt ->
  CmpUpto a1 (encB b) = Some r1 -> CmpUpto a2 (encB b) = Some r2 -> r1 <= r2.
Proof.
  intros H1 H2 H. rewrite !CmpUpto_encB by assumption. intros E1 E2.
  injection E1 as <-. injection E2 as <-. apply bits_cmp_sign_mono. now apply upto_mono.
Qed.

(** over sorted keys the matches of a bit string are contiguous *)
Lemma CmpUpto_block a1 a2 a3 b : bytes_ok a1 -> bytes_ok a2 -> bytes_ok a3 ->
  bytes_cmp a1 a2 <> Gt -> bytes_cmp a2 a3 <> Gt ->
  CmpUpto a1 (encB b) = Some 0 -> CmpUpto a3 (encB b) = Some 0 -> CmpUpto a2 (encB b) = Some 0.
Proof.
  intros H1 H2 H3 L12 L23 E1 E3.
  pose proof (CmpUpto_encB a2 b H2) as E2.
  pose proof (CmpUpto_mono a1 a2 b _ _ H1 H2 L12 E1 E2).
  pose proof (CmpUpto_mono a2 a3 b _ _ H2 H3 L23 E2 E3).
  rewrite E2. f_equal. destruct (bits_cmp (upto a2 b) b); cbn in *; lia.
Qed.

(** * truncate-compare = compare of the truncation *)
Lemma B_from0 a m : 0 <= m -> B a 0 m = firstn (Z.to_nat m) (msb_bits a).
Proof. intros H. unfold B. change (0 / 8) with 0. rewrite Z.mul_0_r, Z.sub_0_r. reflexivity. Qed.

Lemma firstn_min {A} (l : list A) n : firstn (Nat.min (length l) n) l = firstn n l.
Proof.
  destruct (Nat.le_ge_cases n (length l)).
  - now rewrite Nat.min_r.
  - rewrite Nat.min_l by assumption. rewrite firstn_all. symmetry. now apply firstn_all2.
Qed.

Lemma CmpUpto_via_New a b : bytes_ok a ->
  CmpUpto a (encB b) =
  match New a 0 (Z.min (8 * zlen a) (zlen b)) with Some e => Cmp e (encB b) | None => None end.
Proof.
  intros Ha. pose proof (zlen_nonneg a). pose proof (zlen_nonneg b).
  rewrite New_encB by (assumption || lia). rewrite Cmp_encB, CmpUpto_encB by assumption.
  do 3 f_equal. rewrite B_from0 by lia. unfold upto.
  rewrite <- (firstn_min (msb_bits a) (length b)). f_equal.
  rewrite msb_bits_length. unfold zlen. lia.
Qed.

(** * cutting later gives a larger-or-equal bit string *)
Lemma firstn_plus {A} n m : forall l : list A, firstn (n + m) l = firstn n l ++ firstn m (skipn n l).
Proof.
  induction n as [|n IH]; intros l; [reflexivity|].
  destruct l as [|x l]; [now rewrite !firstn_nil|]. cbn [Nat.add firstn skipn app]. f_equal. apply IH.
Qed.

Lemma B_extend s t1 t2 : 0 <= t1 <= t2 -> exists r, B s 0 t2 = B s 0 t1 ++ r.
Proof.
  intros H. rewrite !B_from0 by lia.
  exists (firstn (Z.to_nat t2 - Z.to_nat t1) (skipn (Z.to_nat t1) (msb_bits s))).
  replace (Z.to_nat t2) with (Z.to_nat t1 + (Z.to_nat t2 - Z.to_nat t1))%nat at 1 by lia.
  apply firstn_plus.
Qed.

Lemma Cmp_New_extend s t1 t2 : bytes_ok s -> 0 <= t1 <= t2 -> t2 <= 8 * zlen s ->
  exists r, match New s 0 t1, New s 0 t2 with Some e1, Some e2 => Cmp e1 e2 | _, _ => None end = Some r
            /\ r <= 0 /\ (r = 0 <-> t1 = t2).
Proof.
  intros Hs H Ht. rewrite !New_encB by (assumption || lia). rewrite Cmp_encB.
  destruct (B_extend s t1 t2 H) as (r & Er). rewrite Er.
  assert (L1 : length (B s 0 t1) = Z.to_nat t1).
  { rewrite B_from0 by lia. rewrite firstn_length, msb_bits_length. unfold zlen in Ht. lia. }
  assert (L2 : length (B s 0 t2) = Z.to_nat t2).
  { rewrite B_from0 by lia. rewrite firstn_length, msb_bits_length. unfold zlen in Ht. lia. }
  rewrite Er, app_length, L1 in L2.
  destruct r as [|x r].
  - rewrite app_nil_r, bits_cmp_refl. exists 0. cbn [length] in L2. repeat split; lia.
  - rewrite bits_cmp_prefix by discriminate. exists (-1). cbn [length] in L2. repeat split; try reflexivity; lia.
Qed.

(** * a whole sorted key list *)
From Low Require Import Lib.Val Spec.BitstrSearchSpec.

Lemma search_all ks b : Forall bytes_ok ks ->
  opt_all (map (fun k => CmpUpto k (encB b)) ks) = Some (spec_search ks b).
Proof.
  induction 1 as [|k ks Hk Hks IH]; [reflexivity|].
  cbn [map opt_all spec_search]. rewrite CmpUpto_encB by exact Hk.
  fold (spec_search ks b). now rewrite IH.
Qed.

Lemma search_nondec ks b : Forall bytes_ok ks -> keys_sortedb ks = true ->
  nondecb (spec_search ks b) = true.
Proof.
  induction 1 as [|k1 ks Hk1 Hks IH]; [reflexivity|].
  destruct ks as [|k2 ks]; [reflexivity|]. intros S.
  cbn [keys_sortedb] in S. apply andb_prop in S as [S1 S2].
  cbn [spec_search map nondecb]. apply andb_true_intro. split.
  - apply Z.leb_le. apply bits_cmp_sign_mono. inversion Hks; subst.
    apply upto_mono; try assumption. now destruct (bytes_cmp k1 k2).
  - apply IH. exact S2.
Qed.

Lemma search_sorted ks b : Forall bytes_ok ks -> keys_sortedb ks = true ->
  exists rs, opt_all (map (fun k => CmpUpto k (encB b)) ks) = Some rs /\
             rs = spec_search ks b /\ nondecb rs = true.
Proof.
  intros H S. exists (spec_search ks b). split; [now apply search_all|]. split; [reflexivity|].
  now apply search_nondec.
Qed.

(** * whole strings: the encoding is the string plus 0xff, and Cmp extends Go's string order *)
Lemma encB_whole x : bytes_ok x -> encB (msb_bits x) = x ++ [255].
Proof.
  intros Hx. unfold encB. rewrite pack_msb_bits by exact Hx. f_equal. f_equal.
  rewrite mask_eq, msb_bits_length.
  replace (8 * length x)%nat with (8 * length x + 0)%nat by lia. rewrite padn_add_mult. reflexivity.
Qed.

Lemma Cmp_whole x y : bytes_ok x -> bytes_ok y ->
  Cmp (x ++ [255]) (y ++ [255]) = Some (cmp_sign (bytes_cmp x y)).
Proof.
  intros Hx Hy. rewrite <- !encB_whole by assumption. rewrite Cmp_encB.
  now rewrite <- bytes_cmp_msb_bits.
Qed.

Lemma New_whole s : bytes_ok s -> New s 0 (8 * zlen s) = Some (s ++ [255]).
Proof.
  intros Hs. pose proof (zlen_nonneg s). rewrite New_encB by (assumption || lia).
  rewrite B_from0 by lia. rewrite firstn_all2 by (rewrite msb_bits_length; unfold zlen; lia).
  now rewrite encB_whole.
Qed.

(** * explicit values *)
Lemma B_length s f t : 0 <= f <= t -> t <= 8 * zlen s -> zlen (B s f t) = t - 8 * (f / 8).
Proof.
  intros H Ht. unfold B, zlen in *. rewrite firstn_length, skipn_length, msb_bits_length.
  assert (0 <= 8 * (f / 8) <= f) by (Z.div_mod_to_equations; lia). lia.
Qed.

Lemma Len_New_value s f t : bytes_ok s -> 0 <= f <= t -> t <= 8 * zlen s ->
  match New s f t with Some e => Len e | None => None end = Some (t - 8 * (f / 8)).
Proof. intros Hs H Ht. rewrite Len_New by assumption. unfold spec_Len. f_equal. now apply B_length. Qed.

Lemma StrCmpUpto_encB a b : bytes_ok a ->
  StrCmpUpto a (encB b) = Some (cmp_sign (bits_cmp (upto a b) b)).
Proof. intros Ha. rewrite StrCmpUpto_eq. now apply CmpUpto_encB. Qed.
