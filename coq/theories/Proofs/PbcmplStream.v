(** C06, part 6: the two concrete body codecs of the harness (raw legacy message,
    wrappers.BytesValue with the base-128 varint) satisfy dec (enc m) = Some m and
    size m = |enc m|; ReadHeader on a frame; a stream of frames written back to back
    is returned one frame per call, whatever the chunking. *)
From Coq Require Import ZArith List Bool Lia.
From Low Require Import Lib.MachInt Lib.BitSeq Lib.Bytes
  Model.Pbcmpl Spec.PbcmplSpec
  Proofs.PbcmplIO Proofs.PbcmplHeader Proofs.PbcmplProofs Proofs.PbcmplMarshal Proofs.PbcmplFrames.
Import ListNotations.
Open Scope Z_scope.

(** ** protowire varint *)
Lemma get_put_varint : forall f v rest,
  (1 <= f)%nat -> 0 <= v < 128 ^ Z.of_nat f ->
  get_varint f (put_varint f v ++ rest) = Some (v, rest).
Proof.
  induction f as [|f IH]; intros v rest Hf Hv; [lia|].
  cbn [put_varint]. destruct (Z.ltb_spec v 128) as [Hs|Hs].
  - cbn [app get_varint]. destruct (Z.ltb_spec v 128); [reflexivity|lia].
  - cbn [app get_varint].
    assert (Hm : 0 <= v mod 128 < 128) by (apply Z.mod_pos_bound; lia).
    destruct (Z.ltb_spec (v mod 128 + 128) 128); [lia|].
    rewrite Nat2Z.inj_succ, Z.pow_succ_r in Hv by lia.
    assert (Hf' : (1 <= f)%nat).
    { destruct f; [|lia]. change (128 ^ Z.of_nat 0) with 1 in Hv. lia. }
    rewrite IH.
    + f_equal. f_equal. pose proof (Z.div_mod v 128). lia.
    + exact Hf'.
    + split; [apply Z.div_pos; lia|]. apply Z.div_lt_upper_bound; lia.
Qed.

Lemma put_varint_bytes : forall f v, 0 <= v -> bytes_ok (put_varint f v).
Proof.
  induction f as [|f IH]; intros v Hv; cbn [put_varint]; [constructor|].
  destruct (Z.ltb_spec v 128).
  - constructor; [unfold byte_ok; lia|constructor].
  - constructor.
    + pose proof (Z.mod_pos_bound v 128). unfold byte_ok. lia.
    + apply IH. apply Z.div_pos; lia.
Qed.

Lemma size_varint_len : forall f v, size_varint f v = zlen (put_varint f v).
Proof.
  induction f as [|f IH]; intros v; cbn [size_varint put_varint]; [reflexivity|].
  destruct (v <? 128); [reflexivity|]. rewrite zlen_cons, IH. reflexivity.
Qed.

(** ** wrappers.BytesValue *)
Lemma bv_dec_enc p : zlen p < 2 ^ 63 -> bv_dec (bv_enc p) = Some p.
Proof.
  intros Hp. destruct p as [|x p]; [reflexivity|].
  unfold bv_enc, bv_dec. cbv beta iota.
  rewrite get_put_varint.
  - rewrite Z.eqb_refl. reflexivity.
  - lia.
  - pose proof (zlen_nonneg (x :: p)). change (128 ^ Z.of_nat 10) with (2 ^ 70). lia.
Qed.

Lemma bv_size_enc p : bv_size p = zlen (bv_enc p).
Proof.
  destruct p as [|x p]; [reflexivity|]. unfold bv_size, bv_enc. cbv beta iota.
  rewrite (zlen_cons 10), zlen_app, size_varint_len. lia.
Qed.

Lemma bv_enc_bytes p : bytes_ok p -> bytes_ok (bv_enc p).
Proof.
  intros Hp. destruct p as [|x p]; [constructor|]. unfold bv_enc. cbv beta iota.
  constructor; [unfold byte_ok; lia|]. apply bytes_ok_app. split; [|exact Hp].
  apply put_varint_bytes. apply zlen_nonneg.
Qed.

(** ** the codecs by [kind]: 0 raw legacy message, 1 BytesValue *)
Lemma k_dec_enc kind p : kind = 0 \/ kind = 1 -> zlen p < 2 ^ 63 -> k_dec kind (k_enc kind p) = Some p.
Proof.
  intros [-> | ->] Hp; unfold k_dec, k_enc; cbn [Z.eqb]; [reflexivity|apply bv_dec_enc, Hp].
Qed.

Lemma k_size_enc kind p : k_size kind p = zlen (k_enc kind p).
Proof.
  unfold k_size, k_enc. destruct (kind =? 1); [apply bv_size_enc|reflexivity].
Qed.

Lemma k_enc_bytes kind p : bytes_ok p -> bytes_ok (k_enc kind p).
Proof.
  intros. unfold k_enc. destruct (kind =? 1); [apply bv_enc_bytes; assumption|assumption].
Qed.

Lemma grow_default_ok c : 0 < c -> c < grow_default c.
Proof. unfold grow_default. lia. Qed.

(** ** ReadHeader on a frame *)
Theorem ReadHeader_frame ver body rest cs t fuel :
  zlen ver <= 16 -> no_trailing_nul ver = true -> zlen body < 2 ^ 63 ->
  bytes_ok ver -> bytes_ok body -> bytes_ok rest ->
  chunks_ok cs -> concat cs = frame ver body ++ rest -> zlen (concat cs) < 2 ^ 63 ->
  (length cs + 2 <= fuel)%nat ->
  exists h cs',
    ReadHeader cread fuel (cs, t) = Some (32, Some h, None, (cs', t))
    /\ GetVersion h = ver /\ GetHeaderSize h = 32 /\ GetBodySize h = zlen body
    /\ concat cs' = body ++ rest /\ chunks_ok cs'.
Proof.
  intros Hv Hnul Hlen Bv Bb Br Hok Hcs Hl Hfuel.
  destruct (ReadHeader_spec cs t fuel Hok) as (n & ho & err & cs' & HR & Hview & Hc' & Hok'); try assumption.
  { rewrite Hcs. apply bytes_ok_app. split; [apply frame_bytes|]; assumption. }
  pose proof (zlen_nonneg body) as Hb0. pose proof (zlen_nonneg rest) as Hr0.
  rewrite Hcs in Hview, Hc'. unfold frame in Hview, Hc'. rewrite <- app_assoc in Hview, Hc'.
  destruct (frame_header_fields ver (zlen body) (body ++ rest) Hv) as (F16 & Fh & Fb & F32); [lia|].
  unfold spec_ReadHeader in Hview. rewrite F16, Fh, Fb in Hview.
  rewrite (zlen_app (frame_header ver (zlen body))), zlen_frame_header in Hview by assumption.
  destruct (Z.ltb_spec (32 + zlen (body ++ rest)) 32) as [Hlt|_].
  { pose proof (zlen_nonneg (body ++ rest)). lia. }
  unfold pad16 in Hview. rewrite strip_nul_pad in Hview by assumption.
  rewrite !as_int64_small in Hview by lia.
  rewrite F32 in Hc'.
  destruct ho as [h|]; cbn [rh_view] in Hview.
  - exists h, cs'. injection Hview as E1 E2 E3 E4 E5. subst n err. rewrite HR. repeat split; auto.
  - exfalso. injection Hview as E1 E2 E3 E4 E5. lia.
Qed.

(** ** Marshal, then Unmarshal of the bytes written (followed by anything), for the
    two concrete codecs: closed, no assumption on the codec left *)
Definition msg_wf (m : option (list Z) * list Z) : Prop :=
  msg_ok m = true /\ bytes_ok (ver_of (fst m)) /\ bytes_ok (snd m) /\ zlen (snd m) < 2 ^ 62.

Lemma msg_wf_ver m : msg_wf m -> zlen (ver_of (fst m)) <= 16 /\ no_trailing_nul (ver_of (fst m)) = true.
Proof.
  intros (Hok & _). unfold msg_ok in Hok. apply andb_prop in Hok. destruct Hok as [H1 H2].
  apply Z.leb_le in H1. auto.
Qed.

Lemma k_enc_len kind p : zlen p < 2 ^ 62 -> zlen (k_enc kind p) < 2 ^ 63 - 32.
Proof.
  intros Hp. unfold k_enc. destruct (kind =? 1); [|unfold raw_enc; lia].
  destruct p as [|x p]; [cbn; lia|]. unfold bv_enc. cbv beta iota.
  rewrite zlen_cons, zlen_app.
  assert (H : forall n v, zlen (put_varint n v) <= Z.of_nat n).
  { induction n as [|n IH]; intros v; cbn [put_varint]; [cbn; lia|].
    destruct (v <? 128); [rewrite zlen_cons, zlen_nil; lia|].
    rewrite zlen_cons. specialize (IH (v / 128)). lia. }
  specialize (H 10%nat (zlen (x :: p))). change (Z.of_nat 10) with 10 in H.
  pose proof (zlen_cons x p). lia.
Qed.

Theorem c_Unmarshal_frame_gen kind m tail cs t :
  kind = 0 \/ kind = 1 ->
  msg_wf m -> bytes_ok tail -> chunks_ok cs ->
  concat cs = frame_of (k_enc kind) m ++ tail -> zlen (concat cs) < 2 ^ 63 ->
  term_ok t (k_enc kind (snd m)) tail ->
  exists cs',
    c_Unmarshal kind (cs, t)
      = Some (zlen (frame_of (k_enc kind) m), ver_of (fst m), None, Some (snd m), (cs', t))
    /\ concat cs' = tail /\ chunks_ok cs'.
Proof.
  intros Hkind Hm Bt Hok Hcs Hlen Hterm. destruct (msg_wf_ver m Hm) as [Hv Hnul].
  destruct Hm as (Hmok & Bv & Bp & Hp).
  unfold c_Unmarshal.
  destruct (Unmarshal_frame (list Z) (k_enc kind) (k_dec kind) grow_default grow_default_ok
              (snd m) (ver_of (fst m)) tail cs t (rd_fuel (cs, t))) as (cs' & HU & Hc' & Hok');
    try assumption.
  - apply k_dec_enc; [exact Hkind|lia].
  - apply k_enc_bytes, Bp.
  - unfold rd_fuel, rd_bytes. cbn [fst]. lia.
  - exists cs'. rewrite HU. unfold frame_of. rewrite zlen_frame by assumption. auto.
Qed.

Theorem marshal_then_unmarshal kind m :
  kind = 0 \/ kind = 1 -> msg_wf m ->
  let wire := frame_of (k_enc kind) m in
  s_Marshal kind [] (snd m) (fst m) = Some (zlen wire, None, ([], wire))
  /\ zlen wire = SizeOf (k_size kind) (snd m)
  /\ zlen wire = HeaderSizeOf (snd m) + zlen (k_enc kind (snd m))
  /\ forall cs tail t,
       bytes_ok tail -> chunks_ok cs -> concat cs = wire ++ tail -> zlen (concat cs) < 2 ^ 63 ->
       term_ok t (k_enc kind (snd m)) tail ->
       exists cs',
         c_Unmarshal kind (cs, t) = Some (zlen wire, ver_of (fst m), None, Some (snd m), (cs', t))
         /\ concat cs' = tail /\ chunks_ok cs'.
Proof.
  intros Hkind Hm wire. destruct (msg_wf_ver m Hm) as [Hv Hnul].
  pose proof Hm as (_ & _ & _ & Hp).
  destruct (Marshal_ok (list Z) (k_enc kind) (k_size kind) (snd m) (fst m) Hv (k_enc_len kind _ Hp)
              (k_size_enc kind _)) as (HM & Hz & Hsz & Hhs).
  unfold wire, frame_of. rewrite Hz.
  split; [exact HM|]. split; [symmetry; exact Hsz|]. split; [rewrite Hhs; reflexivity|].
  intros cs tail t Bt Hok Hcs Hlen Hterm.
  destruct (c_Unmarshal_frame_gen kind m tail cs t Hkind Hm Bt Hok Hcs Hlen Hterm) as (cs' & HU & H).
  exists cs'. unfold frame_of in HU. rewrite Hz in HU. auto.
Qed.

(** ** a stream of frames (C06) *)
Section Stream.
  Variable kind : Z.
  Hypothesis Hkind : kind = 0 \/ kind = 1.
  Variable t : terminal.
  Hypothesis Ht : t_err t = EEOF.

  Let enc := k_enc kind.

  Lemma zlen_frame_of m : msg_wf m -> zlen (frame_of enc m) = 32 + zlen (enc (snd m)).
  Proof. intros Hm. unfold frame_of. apply zlen_frame. apply (msg_wf_ver m Hm). Qed.

  Lemma wire_of_cons m ms : wire_of enc (m :: ms) = frame_of enc m ++ wire_of enc ms.
  Proof. reflexivity. Qed.

  Lemma wire_bytes ms : Forall msg_wf ms -> bytes_ok (wire_of enc ms).
  Proof.
    induction 1 as [|m ms Hm _ IH]; [constructor|].
    rewrite wire_of_cons. apply bytes_ok_app. split; [|exact IH].
    destruct Hm as (_ & Bv & Bp & _). unfold frame_of. apply frame_bytes; [exact Bv|].
    apply k_enc_bytes, Bp.
  Qed.

  Lemma wire_length ms : Forall msg_wf ms -> (32 * length ms <= length (wire_of enc ms))%nat.
  Proof.
    induction 1 as [|m ms Hm _ IH]; [cbn; lia|].
    rewrite wire_of_cons, app_length. cbn [length].
    pose proof (zlen_frame_of m Hm) as Hz. pose proof (zlen_nonneg (enc (snd m))).
    unfold zlen in Hz. lia.
  Qed.

  (** one call on a stream that starts with the frame of [m] *)
  Lemma c_Unmarshal_frame m tail cs :
    msg_wf m -> bytes_ok tail -> chunks_ok cs ->
    concat cs = frame_of enc m ++ tail -> zlen (concat cs) < 2 ^ 63 ->
    exists cs',
      c_Unmarshal kind (cs, t)
        = Some (zlen (frame_of enc m), ver_of (fst m), None, Some (snd m), (cs', t))
      /\ concat cs' = tail /\ chunks_ok cs'.
  Proof.
    intros Hm Bt Hok Hcs Hlen. destruct (msg_wf_ver m Hm) as [Hv Hnul].
    destruct Hm as (Hmok & Bv & Bp & Hp).
    unfold c_Unmarshal.
    destruct (Unmarshal_frame (list Z) enc (k_dec kind) grow_default grow_default_ok
                (snd m) (ver_of (fst m)) tail cs t (rd_fuel (cs, t))) as (cs' & HU & Hc' & Hok');
      try assumption.
    - apply k_dec_enc; [exact Hkind|lia].
    - apply k_enc_bytes, Bp.
    - right. right. right. exact Ht.
    - unfold rd_fuel, rd_bytes. cbn [fst]. lia.
    - exists cs'. rewrite HU. unfold frame_of. rewrite zlen_frame by assumption. auto.
  Qed.

  (** the end of the stream: a clean io.EOF, nothing consumed *)
  Lemma c_Unmarshal_end :
    c_Unmarshal kind ([], t) = Some (0, [], Some EEOF, None, ([], t)).
  Proof.
    unfold c_Unmarshal, Unmarshal, ReadHeader, ReadFull, rd_fuel, rd_bytes. cbn [fst concat length].
    rewrite readfull_loop_eq. cbn [is_none zlen length]. cbn [cread].
    change (Z.of_nat 0 <? fixedSize) with true. cbn [andb].
    rewrite readfull_loop_eq. cbn [is_none]. rewrite andb_false_r.
    cbn [app zlen length]. rewrite Ht. reflexivity.
  Qed.

  Lemma c_stream_frames total : forall ms cs consumed fuel,
    Forall msg_wf ms -> chunks_ok cs -> concat cs = wire_of enc ms -> total < 2 ^ 63 ->
    total = consumed + zlen (concat cs) -> 0 <= consumed -> (length ms + 1 <= fuel)%nat ->
    c_stream fuel kind total (cs, t) = Some (frames_steps enc consumed ms, ([], t)).
  Proof.
    induction ms as [|m ms IH]; intros cs consumed fuel Hwf Hok Hcs Htot Hsum Hc0 Hfuel.
    - destruct fuel as [|f]; [cbn in Hfuel; lia|].
      cbn [wire_of map concat] in Hcs. apply chunks_ok_concat_nil in Hcs; [|assumption]. subst cs.
      cbn [c_stream]. rewrite c_Unmarshal_end. cbn [rd_bytes fst concat frames_steps].
      cbn [concat] in Hsum. unfold zlen in *. cbn [length] in *. repeat f_equal. lia.
    - destruct fuel as [|f]; [cbn in Hfuel; lia|].
      pose proof (Forall_inv Hwf) as Hm. pose proof (Forall_inv_tail Hwf) as Hwf'.
      rewrite wire_of_cons in Hcs.
      destruct (c_Unmarshal_frame m (wire_of enc ms) cs Hm (wire_bytes ms Hwf') Hok Hcs) as (cs' & HU & Hc' & Hok').
      { pose proof (zlen_nonneg (concat cs)). lia. }
      cbn [c_stream]. rewrite HU. cbn [rd_bytes fst].
      assert (Hcons : total - zlen (concat cs') = consumed + zlen (frame_of enc m)).
      { rewrite Hc'. rewrite Hcs, zlen_app in Hsum. lia. }
      rewrite (IH cs' (consumed + zlen (frame_of enc m)) f Hwf' Hok' Hc' Htot).
      + cbn [frames_steps]. unfold rd_bytes. cbn [fst]. rewrite Hcons. reflexivity.
      + rewrite Hcs, zlen_app in Hsum. rewrite Hc'. lia.
      + pose proof (zlen_nonneg (frame_of enc m)). lia.
      + cbn [length] in Hfuel. lia.
  Qed.

  (** frames written back to back are returned one per call, then io.EOF, for every
      chunking of the wire *)
  Theorem c_Stream_frames ms cs :
    Forall msg_wf ms -> chunks_ok cs -> concat cs = wire_of enc ms -> zlen (wire_of enc ms) < 2 ^ 63 ->
    c_Stream kind (cs, t) = Some (frames_steps enc 0 ms, ([], t)).
  Proof.
    intros Hwf Hok Hcs Hlen. unfold c_Stream, rd_bytes. cbn [fst].
    apply c_stream_frames; try assumption.
    - rewrite Hcs. exact Hlen.
    - lia.
    - lia.
    - unfold stream_fuel, rd_bytes. cbn [fst]. rewrite Hcs.
      pose proof (wire_length ms Hwf) as Hw.
      assert (length ms <= length (wire_of enc ms) / 32)%nat.
      { apply Nat.div_le_lower_bound; lia. }
      lia.
  Qed.
End Stream.
