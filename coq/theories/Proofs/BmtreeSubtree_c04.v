(** C04 widening: enumerating the sub-tree of a node with AllPaths.
    AllPaths(T, word of q, word of the right-most leaf below q + 1) returns exactly the words
    of the stored nodes that have q as a prefix, in pre-order. *)
From Coq Require Import ZArith List Lia Bool Sorting.Sorted.
From Low Require Import Lib.MachInt Lib.Bits Lib.BitSeq Lib.Lex Lib.Bytes Lib.BitsExtra_tree
  Lib.SortedZ_tree4 Spec.Bmtree Spec.AllPathsSpec
  Model.BmtreePath Model.BmtreeIndex Model.BmtreeAllPaths
  Proofs.BmtreePathProofs Proofs.BmtreeRankSpec Proofs.BmtreeAllPathsProofs Proofs.BmtreeWinProofs.
Import ListNotations.
Open Scope Z_scope.

(** between q and its right-most descendant (in pre-order) there are only descendants of q *)
Lemma prefix_between : forall q r k,
  bits_cmp q r <> Gt -> bits_cmp r (q ++ repeat true k) <> Gt -> exists s, r = q ++ s.
Proof.
  unfold bits_cmp. induction q as [|b q IH]; intros r k H1 H2.
  - exists r. reflexivity.
  - destruct r as [|c r]; [cbn in H1; congruence|]. cbn [app lex_cmp] in H1, H2.
    destruct b, c; cbn [bool_cmp] in H1, H2; try congruence.
    + destruct (IH r k H1 H2) as (s & ->). exists s. reflexivity.
    + destruct (IH r k H1 H2) as (s & ->). exists s. reflexivity.
Qed.

(** the nodes below q, in pre-order, on stored levels *)
Definition sub_words (T : Z) (h : nat) (q : node) : list Z :=
  map (enc h) (filter (stored T) (subtree (h - length q) q)).

Lemma subtree_sorted k q : StronglySorted pre_lt (subtree k q).
Proof.
  unfold subtree. apply (StronglySorted_map pre_lt); [|apply all_nodes_sorted].
  intros x y Hxy. unfold pre_lt in *. now rewrite bits_cmp_app_l.
Qed.

Lemma sub_words_sasc T h q : (h <= 32)%nat -> (length q <= h)%nat -> sasc (sub_words T h q).
Proof.
  intros Hh Hq. unfold sub_words.
  assert (Hl : forall r, In r (filter (stored T) (subtree (h - length q) q)) -> (length r <= h)%nat).
  { intros r Hr. apply filter_In in Hr. destruct Hr as (Hr & _). apply subtree_In in Hr.
    destruct Hr as (s & -> & Hs). rewrite app_length. lia. }
  assert (Hs : StronglySorted pre_lt (filter (stored T) (subtree (h - length q) q)))
    by (apply StronglySorted_filter, subtree_sorted).
  revert Hl Hs. generalize (filter (stored T) (subtree (h - length q) q)) as l.
  induction l as [|a l IH]; intros Hl Hs; cbn [map sasc]; [exact I|].
  inversion Hs as [|? ? Hs' Ha]; subst. split.
  - apply Forall_forall. intros y Hy. apply in_map_iff in Hy. destruct Hy as (r & <- & Hr).
    apply enc_lt_iff; [exact Hh|apply Hl; now left|apply Hl; now right|].
    exact (proj1 (Forall_forall _ _) Ha r Hr).
  - apply IH; [intros r Hr; apply Hl; now right|exact Hs'].
Qed.

Lemma subtree_window T h q : (h <= 32)%nat -> (length q <= h)%nat ->
  spec_allpaths T h (enc h q) (enc h (q ++ repeat true (h - length q)) + 1) = sub_words T h q.
Proof.
  intros Hh Hq. apply sasc_ext.
  - unfold spec_allpaths. apply sasc_filter, stored_words_sasc. exact Hh.
  - now apply sub_words_sasc.
  - intros w. unfold spec_allpaths, sub_words. rewrite filter_In, stored_words_members, in_map_iff.
    unfold in_window. rewrite andb_true_iff, Z.leb_le, Z.ltb_lt. split.
    + intros ((r & Hlr & Hsr & ->) & Hlo & Hhi). exists r. split; [reflexivity|].
      apply filter_In. split; [|exact Hsr].
      assert (Hqk : (length (q ++ repeat true (h - length q)) <= h)%nat)
        by (rewrite app_length, repeat_length; lia).
      assert (C1 : bits_cmp q r <> Gt).
      { rewrite <- (enc_compare q h r) by assumption. apply Z.compare_le_iff. exact Hlo. }
      assert (C2 : bits_cmp r (q ++ repeat true (h - length q)) <> Gt).
      { rewrite <- (enc_compare r h _) by assumption. apply Z.compare_le_iff. lia. }
      destruct (prefix_between q r _ C1 C2) as (s & ->).
      unfold subtree. apply in_map. apply all_nodes_length. rewrite app_length in Hlr. lia.
    + intros (r & <- & Hr). apply filter_In in Hr. destruct Hr as (Hr & Hsr).
      apply subtree_In in Hr. destruct Hr as (s & -> & Hs).
      pose proof (enc_subtree_range h q s (h - length q) Hh ltac:(lia) Hs) as Hrange.
      split; [|lia]. exists (q ++ s). rewrite app_length. repeat split; [lia|exact Hsr].
Qed.

Lemma allpaths_subtree T q : 1 <= T < 2 ^ 31 -> (length q <= Z.to_nat (Height T))%nat ->
  let h := Z.to_nat (Height T) in
  AllPaths T (enc h q) (enc h (q ++ repeat true (h - length q)) + 1) = Some (spec_subtree T h q).
Proof.
  intros HT Hq h. pose proof (Height_range T HT) as Hh.
  assert (Hh32 : (h <= 32)%nat) by (unfold h; lia).
  assert (Hqk : (length (q ++ repeat true (h - length q)) <= h)%nat)
    by (rewrite app_length, repeat_length; lia).
  pose proof (enc_bound h q Hh32 Hq) as B1. pose proof (enc_bound h _ Hh32 Hqk) as B2.
  assert (2 ^ (Z.of_nat h + 32) <= 2 ^ 62) by (apply pow2_le; unfold h; lia).
  change (2 ^ 62) with 4611686018427387904 in *.
  rewrite allpaths_correct; [|exact HT| |]; try (change (2 ^ 64) with 18446744073709551616; lia).
  f_equal. change (spec_subtree T h q) with (sub_words T h q). now apply subtree_window.
Qed.
