(** Equality of the definition generated from the Go source of iohelper.NewSectionWriter (coq/gen/Trans.v) and the model. *)
From Coq Require Import ZArith List Lia Bool.
From Low Require Import Lib.MachInt Lib.Bits Lib.BitSeq Lib.TransLib Proofs.TransEqLemmas.
From LowGen Require Trans.
Import ListNotations.
Open Scope Z_scope.

From Low Require Model.SectionWriter.

(** [&SectionWriter{w, off, off, off + n}]: a fresh state record, field by field; the model has no field [w]
    (the underlying writer is an oracle), the translator drops that store *)
Lemma TransEq_iohelper_NewSectionWriter w off n :
  Trans.iohelper_NewSectionWriter w off n = SectionWriter.NewSectionWriter off n.
Proof. reflexivity. Qed.
