(** Equality of the definition generated from the Go source of iohelper.SectionWriter.Size (coq/gen/Trans.v) and the model. *)
From Coq Require Import ZArith List Lia Bool.
From Low Require Import Lib.MachInt Lib.Bits Lib.BitSeq Lib.TransLib Proofs.TransEqLemmas.
From LowGen Require Trans.
Import ListNotations.
Open Scope Z_scope.

From Low Require Model.SectionWriter.

Lemma TransEq_iohelper_SectionWriter_Size s : Trans.iohelper_SectionWriter_Size s = SectionWriter.Size s.
Proof. reflexivity. Qed.
