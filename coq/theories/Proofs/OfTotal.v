(** C12 widening: Of and OfMany characterised on EVERY input (no sortedness, no sign condition):
    a panic exactly when a position lies outside the bits allocated from n and the last element,
    the exact set of positions otherwise. *)
From Coq Require Import ZArith List Lia Bool Sorted.
From Low Require Import Lib.MachInt Lib.Bits Lib.BitSeq Lib.BitsExtra_bm2 Lib.BitsExtra_bm12
  Model.BitmapUtil Model.BuilderOps Model.BitmapOf Spec.OfSpec Spec.OfQuerySpec
  Proofs.OfProofs Proofs.OfInspect Proofs.OfRoundTrip.
Import ListNotations.
Open Scope Z_scope.

Definition fitsb (nbits : Z) (p : Z) : bool := (0 <=? p) && (p <? nbits).

Lemma or_at_outside ws p v : ~ (0 <= p < 64 * zlen ws) -> or_at ws (Z.shiftr p 6) v = None.
Proof.
  intros H. unfold or_at. rewrite shiftr6.
  replace (nthZ ws (p / 64)) with (@None Z); [reflexivity|].
  symmetry. unfold nthZ. destruct (Z.ltb_spec (p / 64) 0); [reflexivity|].
  apply nth_error_None. unfold zlen in H.
  pose proof (Z.div_mod p 64 ltac:(lia)). pose proof (Z.mod_pos_bound p 64 ltac:(lia)). lia.
Qed.

Lemma Of_loop_total ps : forall ws, words_ok ws ->
  if forallb (fitsb (64 * zlen ws)) ps
  then exists ws', Of_loop ps ws = Some ws' /\ words_ok ws' /\ length ws' = length ws /\
         forall q, 0 <= q -> (wbit ws' q = true <-> wbit ws q = true \/ In q ps)
  else Of_loop ps ws = None.
Proof.
  induction ps as [|i ps IH]; intros ws Hok.
  - cbn [forallb]. exists ws. cbn [Of_loop In]. repeat split; auto; tauto.
  - cbn [forallb Of_loop]. unfold fitsb at 1.
    destruct (Z.leb_spec 0 i) as [H0|H0]; destruct (Z.ltb_spec i (64 * zlen ws)) as [H1|H1]; cbn [andb];
      try (rewrite or_at_outside by lia; reflexivity).
    rewrite shiftr6, land63, shl64_1 by (apply Z.mod_pos_bound; lia).
    destruct (or_at_pow2 ws i Hok (conj H0 H1)) as (w1 & -> & Hok1 & Hlen1 & Hb1).
    specialize (IH w1 Hok1). unfold zlen in IH. rewrite Hlen1 in IH. fold (zlen ws) in IH.
    destruct (forallb (fitsb (64 * zlen ws)) ps).
    + destruct IH as (ws' & E & Hok' & Hlen' & Hb').
      exists ws'. split; [exact E|]. split; [exact Hok'|]. split; [congruence|].
      intros q Hq. rewrite Hb', Hb1 by exact Hq. cbn [In].
      rewrite orb_true_iff, Z.eqb_eq. intuition.
    + exact IH.
Qed.

Theorem Of_total ps opt : spec_Of_any ps opt (Of ps opt).
Proof.
  unfold spec_Of_any, of_fits, of_size, Of. rewrite Of_nbits, words_for_shiftr.
  pose proof (of_bits_nonneg ps opt) as Hb0.
  destruct (words_for_cover _ Hb0) as [Hcov Hw0].
  unfold make_words. destruct (Z.ltb_spec (words_for (of_bits ps opt)) 0) as [Hm|Hm]; [lia|].
  set (m := Z.to_nat (words_for (of_bits ps opt))).
  pose proof (Of_loop_total ps (repeat 0 m) (words_ok_repeat0 m)) as H.
  unfold zlen in H. rewrite repeat_length in H. subst m. rewrite Z2Nat.id in H by lia.
  change (fun p : Z => (0 <=? p) && (p <? 64 * words_for (of_bits ps opt)))
    with (fitsb (64 * words_for (of_bits ps opt))).
  destruct (forallb (fitsb (64 * words_for (of_bits ps opt))) ps) eqn:Efit; [|exact H].
  destruct H as (r & E & Hok & Hlen & Hbits). exists r. split; [exact E|].
  unfold spec_Of. split; [exact Hok|]. split.
  - unfold zlen. rewrite Hlen. lia.
  - assert (Hnn : forall p, In p ps -> 0 <= p).
    { intros p Hp. apply (proj1 (forallb_forall _ _) Efit) in Hp. unfold fitsb in Hp. lia. }
    apply ssorted_ext; [apply ones_sorted|apply usort_sorted|].
    intros p. rewrite ones_In_wbit, usort_In. split.
    + intros [Hp Hw]. apply Hbits in Hw; [|exact Hp]. rewrite wbit_repeat0 in Hw.
      destruct Hw as [Hw|Hw]; [discriminate|exact Hw].
    + intros Hp. split; [now apply Hnn|]. apply Hbits; [now apply Hnn|]. now right.
Qed.

Lemma spec_Of_any_ok_sound ps opt o : spec_Of_any_ok ps opt o = true -> spec_Of_any ps opt o.
Proof.
  unfold spec_Of_any_ok, spec_Of_any. destruct o as [r|].
  - rewrite andb_true_iff. intros [-> H]. exists r. split; [reflexivity|].
    unfold spec_Of_ok in H. rewrite !andb_true_iff in H. destruct H as [[H1 H2] H3].
    split; [now apply words_okb_ok|]. split; [now apply Z.eqb_eq|].
    clear -H3. revert H3. generalize (ones (flat r)) (usort ps). induction l as [|x l IH]; intros [|y l'] H; cbn in H; try discriminate; [reflexivity|].
    apply andb_true_iff in H. destruct H as [Hx H]. apply Z.eqb_eq in Hx. subst. f_equal. now apply IH.
  - intros H. apply negb_true_iff in H. now rewrite H.
Qed.

(** OfMany on any segment list (equal lengths): exactly Of of the shifted concatenation *)
Theorem OfMany_total subs sizes : length subs = length sizes ->
  spec_Of_any (shifted subs sizes 0) (Some (total sizes)) (OfMany subs sizes).
Proof. intros H. rewrite OfMany_eq by exact H. apply Of_total. Qed.

(** a position beyond its segment's size in a non-last segment may collide with or overtake later positions:
    OfMany still sets the SET of shifted positions as long as the last one (plus the total size) covers them *)
Corollary OfMany_unsorted_set subs sizes r :
  length subs = length sizes -> OfMany subs sizes = Some r ->
  forall p, In p (ones (flat r)) <-> In p (shifted subs sizes 0).
Proof.
  intros Hlen E p. pose proof (OfMany_total subs sizes Hlen) as H. unfold spec_Of_any in H.
  destruct (of_fits (shifted subs sizes 0) (Some (total sizes))).
  - destruct H as (r' & E' & _ & _ & Hones). rewrite E in E'. injection E' as <-.
    rewrite Hones. apply usort_In.
  - congruence.
Qed.

(** * OfMany on its whole non-panic domain (positions >= size in any segment) *)
Theorem OfMany_nonpanic subs sizes :
  ofmany_dom2 subs sizes = true ->
  exists r, OfMany subs sizes = Some r /\ spec_OfMany subs sizes r.
Proof.
  unfold ofmany_dom2. rewrite !andb_true_iff. intros [[[Hlen _] _] Hfit].
  apply Nat.eqb_eq in Hlen. pose proof (OfMany_total subs sizes Hlen) as H.
  unfold spec_Of_any in H. rewrite Hfit in H. exact H.
Qed.

(** the ascending domain is part of it *)
Lemma sorted_fits l n : sortedb l = true -> nonnegb l = true -> of_fits l n = true.
Proof.
  intros Hs Hnn. unfold of_fits, of_size. apply forallb_forall. intros p Hp.
  assert (0 <= p) by (now apply (proj1 (nonnegb_In l) Hnn)).
  pose proof (sortedb_last_max l 0 Hs p Hp).
  assert (Hne : l <> []) by (intros ->; destruct Hp).
  pose proof (of_bits_last l n Hne). pose proof (of_bits_nonneg l n).
  destruct (words_for_cover _ H2) as [Hc _]. lia.
Qed.
