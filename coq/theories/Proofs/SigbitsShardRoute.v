(** C17, widening: with a sharding that satisfies [shard_spec] and [route_spec]
    (both proved of ShardByPrefix's output), the lookup [route] -- last prefix
    not above the key -- sends every key of the list to the shard that holds it. *)
From Coq Require Import ZArith List Lia Bool.
From Low Require Import Lib.BitSeq Lib.Lex Lib.Bytes Spec.SigbitsSpec Spec.ShardRouteSpec
  Proofs.SigbitsShardChecker.
Import ListNotations.
Open Scope Z_scope.

(** a predicate that holds on the first [m] elements only selects exactly them *)
Lemma c17_filter_prefix {A} (f : A -> bool) d : forall l m, (m <= length l)%nat ->
  (forall j, (j < m)%nat -> f (nth j l d) = true) ->
  (forall j, (m <= j < length l)%nat -> f (nth j l d) = false) ->
  filter f l = firstn m l.
Proof.
  induction l as [|x l IH]; intros m Hm Ht Hf.
  - now rewrite firstn_nil.
  - cbn [length] in *. destruct m as [|m].
    + pose proof (Hf 0%nat ltac:(lia)) as H0. cbn [nth] in H0.
      cbn [firstn filter]. rewrite H0.
      apply (IH 0%nat); [lia|intros; lia|intros j Hj; apply (Hf (S j)); lia].
    + pose proof (Ht 0%nat ltac:(lia)) as H0. cbn [nth] in H0.
      cbn [firstn filter]. rewrite H0. f_equal.
      apply IH; [lia|intros j Hj; apply (Ht (S j)); lia|intros j Hj; apply (Hf (S j)); lia].
Qed.

Lemma c17_find_shard (b : nat -> Z) i : forall k, b 0%nat <= i < b k ->
  exists r, (r < k)%nat /\ b r <= i < b (S r).
Proof.
  induction k as [|k IH]; intros H; [lia|].
  destruct (Z.lt_ge_cases i (b k)) as [Hlt|Hge].
  - destruct IH as (r & Hr & Hi); [lia|]. exists r. split; [lia|exact Hi].
  - exists k. split; lia.
Qed.

Lemma c17_mono (b : nat -> Z) k : (forall j, (j < k)%nat -> b j < b (S j)) ->
  forall j' j, (j <= j' <= k)%nat -> b j <= b j'.
Proof.
  intros H. induction j' as [|j' IH]; intros j Hj.
  - replace j with 0%nat by lia. lia.
  - destruct (Nat.eq_dec j (S j')) as [->|Hne]; [lia|].
    specialize (IH j ltac:(lia)). specialize (H j' ltac:(lia)). lia.
Qed.

Theorem route_lookup keys maxSize L B : shard_spec keys maxSize L B -> route_spec keys L B ->
  route_okb (zlen keys) B (map (route (shard_prefixes keys L B)) keys) = true.
Proof.
  intros (HB & H0 & Hk & Hst & _) Hr.
  unfold route_okb. apply andb_true_iff. split.
  { apply Z.eqb_eq. unfold zlen. now rewrite map_length. }
  apply (c17_forallb_nth _ (0%nat, 0)). intros i Hi.
  rewrite combine_length, seq_length, map_length, Nat.min_id in Hi.
  rewrite c17_combine_nth by (rewrite ?seq_length, ?map_length; lia).
  rewrite seq_nth by (rewrite map_length; lia). cbn [fst snd Nat.add].
  rewrite (c17_map_nth _ []) by lia.
  set (k := length L) in *. set (b := fun j => nth j B 0).
  destruct (c17_find_shard b (Z.of_nat i) k) as (r & Hrk & Hri).
  { unfold b. rewrite H0, Hk. unfold zlen. lia. }
  pose proof (c17_mono b k (fun j Hj => proj1 (Hst j Hj))) as Hmono.
  assert (Hroute : route (shard_prefixes keys L B) (nth i keys []) = Z.of_nat r).
  { unfold route. rewrite (c17_filter_prefix _ [] _ (S r)).
    - unfold zlen. rewrite firstn_length, shard_prefixes_length. fold k. lia.
    - rewrite shard_prefixes_length. fold k. lia.
    - intros j Hj. rewrite shard_prefixes_nth by (fold k; lia). fold (shard_prefix keys L B j).
      unfold leb_bytes.
      assert (Hn : bytes_cmp (shard_prefix keys L B j) (nth i keys []) <> Gt).
      { apply Hr; [lia|fold k; lia|]. specialize (Hmono r j ltac:(lia)). unfold b in *. lia. }
      destruct (bytes_cmp (shard_prefix keys L B j) (nth i keys [])); congruence.
    - intros j Hj. rewrite shard_prefixes_length in Hj. fold k in Hj.
      rewrite shard_prefixes_nth by (fold k; lia). fold (shard_prefix keys L B j).
      unfold leb_bytes.
      destruct (bytes_cmp (shard_prefix keys L B j) (nth i keys [])) eqn:E; [| |reflexivity]; exfalso.
      + assert (Hle : nth j B 0 <= Z.of_nat i) by (apply Hr; [lia|fold k; lia|rewrite E; discriminate]).
        specialize (Hmono j (S r) ltac:(lia)). unfold b in *. lia.
      + assert (Hle : nth j B 0 <= Z.of_nat i) by (apply Hr; [lia|fold k; lia|rewrite E; discriminate]).
        specialize (Hmono j (S r) ltac:(lia)). unfold b in *. lia. }
  rewrite Hroute. replace (Z.of_nat r + 1) with (Z.of_nat (S r)) by lia.
  rewrite !nthZ_of_nat. rewrite (nth_error_nth' B 0), (nth_error_nth' B 0) by lia.
  unfold b in Hri. apply andb_true_iff. split; [apply Z.leb_le|apply Z.ltb_lt]; lia.
Qed.
