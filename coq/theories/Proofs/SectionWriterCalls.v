(** Proofs for C18, part 2: what every single call returns and does from any
    state a call sequence can reach (error classes, Seek incl. the int64 wrap,
    Size, WriteAt accounting).  Builds on Proofs/SectionWriterProofs.v. *)
From Coq Require Import ZArith List Bool Lia.
From Low Require Import Lib.MachInt Lib.BitSeq Model.SectionWriter Spec.SectionWriterSpec Run.C18
  Proofs.SectionWriterProofs.
Import ListNotations.
Open Scope Z_scope.

(** * reachable states and the state invariant *)

(** [s] is the state of a fresh section (o, n) after some call sequence over
    some underlying writer *)
Definition reachable (o n : Z) (s : sw) : Prop :=
  exists sc cs, script_ok sc /\ Forall call_ok cs /\ s = fst (exec (NewSectionWriter o n) sc cs).

(** base and limit never move; the cursor never leaves [o, 2^63-1] *)
Definition inv (o n : Z) (s : sw) : Prop :=
  base s = o /\ limit s = o + n /\ o <= off s <= 2^63 - 1.

Lemma R_inv o n s pos : R o n s pos -> inv o n s /\ pos = off s - o.
Proof. unfold R, inv. lia. Qed.

Lemma inv_R o n s : inv o n s -> R o n s (off s - o).
Proof. unfold R, inv. lia. Qed.

Lemma reachable_R o n s : sec_ok o n -> reachable o n s -> exists pos, R o n s pos.
Proof.
  intros Hs (sc & cs & Hsc & Hcs & ->).
  destruct (exec_R o n Hs cs _ 0 sc (R_new o n Hs) Hsc Hcs) as (pos & HR & _). eauto.
Qed.

Theorem reachable_inv o n s : sec_ok o n -> reachable o n s -> inv o n s.
Proof.
  intros Hs Hr. destruct (reachable_R o n s Hs Hr) as (pos & HR).
  now apply R_inv in HR.
Qed.

Lemma reachable_new o n : reachable o n (NewSectionWriter o n).
Proof. exists [], []. repeat split; constructor. Qed.

(** every state satisfying the invariant is reached by one Seek *)
Lemma inv_reachable o n s : sec_ok o n -> inv o n s -> reachable o n s.
Proof.
  intros (Ho & Hn & Hon) (Hb & Hl & Hoff).
  exists [], [CSeek (off s - o) 0]. split; [constructor|]. split.
  - constructor; [|constructor]. cbn [call_ok]. lia.
  - cbn [exec step]. unfold Seek, NewSectionWriter. cbn [base off limit Z.eqb].
    replace (off s - o + o) with (off s) by lia.
    rewrite (i64_id (off s)) by lia. rewrite (i64_id (o + n)) by lia.
    destruct (Z.ltb_spec (off s) o); [lia|]. cbn [fst].
    destruct s as [b f l]. cbn [base off limit] in *. now subst.
Qed.

(** * the error class of Write / WriteAt *)

(** the error the underlying writer returns to its next call (0 = nil) *)
Definition head_err (sc : list resp) : Z := match sc with [] => 0 | (_, e) :: _ => e end.

Lemma under_err sc p : snd (fst (under sc p)) = head_err sc.
Proof. destruct sc as [|[k e] t]; reflexivity. Qed.

Definition ret_cnt (r : out) : Z := nth 0 (rets r) 0.
Definition ret_err (r : out) : Z := nth 1 (rets r) 0.

Lemma write_err_R o n s pos sc p :
  sec_ok o n -> R o n s pos -> script_ok sc ->
  ret_err (snd (Write s sc p)) =
    if pos >=? n then E_short
    else if head_err sc =? 0 then (if n - pos <? zlen p then E_short else E_nil)
    else head_err sc.
Proof.
  intros Hs HR Hsc.
  pose proof (write_accounting_R o n s pos sc p Hs HR Hsc) as HA.
  destruct HR as (Hb & Hl & Hoff & Hp & Hpm).
  unfold write_accounting in HA. replace (off s - o) with pos in HA by lia.
  destruct (Write s sc p) as [[s' sc'] r]. cbn [snd].
  destruct HA as [(Hge & _ & _ & Hr & _)|(Hlt & HA)].
  - destruct (Z.geb_spec pos n); [|lia]. unfold ret_err. now rewrite Hr.
  - destruct (Z.geb_spec pos n); [lia|]. cbv zeta in HA.
    pose proof (under_err sc (firstn (Z.to_nat (Z.min (zlen p) (n - pos))) p)) as He.
    destruct (under sc (firstn (Z.to_nat (Z.min (zlen p) (n - pos))) p)) as [[cnt e] rest].
    cbn [fst snd] in He. subst e.
    destruct HA as (_ & _ & _ & _ & _ & _ & Hr).
    unfold ret_err. rewrite Hr. cbn [nth].
    destruct (head_err sc =? 0); [|reflexivity].
    destruct (Z.ltb_spec (Z.min (zlen p) (n - pos)) (zlen p));
      destruct (Z.ltb_spec (n - pos) (zlen p)); try reflexivity; lia.
Qed.

(** ErrShortWrite exactly when the request is truncated by, or starts at or
    beyond, the section end -- when the underlying writer reports no error *)
Lemma write_short_iff o n s pos sc p :
  sec_ok o n -> R o n s pos -> script_ok sc -> head_err sc = 0 ->
  (ret_err (snd (Write s sc p)) = E_short <-> (n <= pos \/ n - pos < zlen p)) /\
  (ret_err (snd (Write s sc p)) = E_nil <-> (pos < n /\ zlen p <= n - pos)).
Proof.
  intros Hs HR Hsc He. rewrite (write_err_R o n s pos sc p Hs HR Hsc), He.
  unfold E_short, E_nil.
  destruct (Z.geb_spec pos n); cbn [Z.eqb];
    [|destruct (Z.ltb_spec (n - pos) (zlen p))]; split; split; intros; try lia; discriminate.
Qed.

(** an error from the underlying writer is what Write returns *)
Lemma write_err_propagated o n s pos sc p :
  sec_ok o n -> R o n s pos -> script_ok sc -> pos < n -> head_err sc <> 0 ->
  ret_err (snd (Write s sc p)) = head_err sc.
Proof.
  intros Hs HR Hsc Hlt He. rewrite (write_err_R o n s pos sc p Hs HR Hsc).
  destruct (Z.geb_spec pos n); [lia|]. destruct (Z.eqb_spec (head_err sc) 0); [contradiction|reflexivity].
Qed.

(** * WriteAt from a reachable state *)

(** WriteAt never moves the cursor.  Either the position is outside [0, n):
    nothing reaches the writer and (0, ErrShortWrite) is returned; or exactly
    one call is made at absolute o + a with the first min(|p|, n - a) bytes,
    the count returned is the writer's, the error is the writer's if any,
    else ErrShortWrite iff the request was truncated. *)
Definition writeat_accounting (o n : Z) (s : sw) (sc : list resp) (p : list Z) (a : Z) : Prop :=
  let '(s', sc', r) := WriteAt s sc p a in
  s' = s /\
  (((a < 0 \/ n <= a) /\ sc' = sc /\ rets r = [0; E_short] /\ ucalls r = []) \/
   (0 <= a < n /\
    let m := Z.min (zlen p) (n - a) in
    let bs := firstn (Z.to_nat m) p in
    let '((cnt, e), rest) := under sc bs in
    ucalls r = [(o + a, bs)] /\ sc' = rest /\ 0 <= cnt <= m /\
    rets r = [cnt; if e =? 0 then (if m <? zlen p then E_short else E_nil) else e])).

Lemma WriteAt_state s sc p a : fst (fst (WriteAt s sc p a)) = s.
Proof.
  unfold WriteAt. destruct ((a <? 0) || (a >=? i64 (limit s - base s))); [reflexivity|].
  destruct (zlen p >? i64 (limit s - i64 (a + base s))).
  - destruct (under sc _) as [[cnt e] sc']. reflexivity.
  - destruct (under sc p) as [[cnt e] sc']. reflexivity.
Qed.

Lemma writeat_accounting_R o n s pos sc p a :
  sec_ok o n -> R o n s pos -> script_ok sc -> - 2^63 <= a < 2^63 ->
  writeat_accounting o n s sc p a.
Proof.
  intros Hs HR Hsc Ha.
  pose proof (writeat_refines o n s pos sc p a Hs HR Hsc Ha) as Href.
  pose proof (WriteAt_state s sc p a) as Hst.
  destruct Hs as (Ho & Hn & Hon). destruct HR as (Hb & Hl & Hoff & Hp & Hpm).
  unfold writeat_accounting. unfold step_rel in Href.
  destruct (WriteAt s sc p a) as [[s' sc'] r] eqn:HW. cbn [fst] in Hst.
  split; [exact Hst|].
  cbn [astep] in Href.
  destruct ((a <? 0) || (a >=? n)) eqn:Hrange.
  - left. destruct Href as (_ & Hsceq & (Hr1 & Hr2) & _). cbn [fst snd] in *.
    apply orb_true_iff in Hrange. rewrite Z.ltb_lt, Z.geb_le in Hrange.
    repeat split; auto; lia.
  - right. apply orb_false_elim in Hrange. destruct Hrange as [H0 H1].
    apply Z.ltb_ge in H0. destruct (Z.geb_spec a n) as [|Han]; [discriminate|].
    split; [lia|]. cbv zeta.
    unfold put in Href. change respond with under in Href.
    pose proof (zlen_nonneg p) as Hlen.
    pose proof (under_count sc (firstn (Z.to_nat (Z.min (zlen p) (n - a))) p) Hsc) as Hc.
    rewrite zlen_firstn in Hc by lia.
    destruct (under sc (firstn (Z.to_nat (Z.min (zlen p) (n - a))) p)) as [[cnt e] rest].
    cbn [fst snd] in Hc.
    destruct Href as (_ & Hsceq & (Hr1 & Hr2) & _). cbn [fst snd] in *.
    unfold E_short, E_nil, A_short, A_nil in *.
    repeat split; auto; try lia.
Qed.

Lemma writeat_err_R o n s pos sc p a :
  sec_ok o n -> R o n s pos -> script_ok sc -> - 2^63 <= a < 2^63 ->
  ret_err (snd (WriteAt s sc p a)) =
    if (a <? 0) || (a >=? n) then E_short
    else if head_err sc =? 0 then (if n - a <? zlen p then E_short else E_nil)
    else head_err sc.
Proof.
  intros Hs HR Hsc Ha.
  pose proof (writeat_accounting_R o n s pos sc p a Hs HR Hsc Ha) as HA.
  unfold writeat_accounting in HA.
  destruct (WriteAt s sc p a) as [[s' sc'] r]. cbn [snd].
  destruct HA as (_ & [(Hout & _ & Hr & _)|(Hin & HA)]).
  - assert ((a <? 0) || (a >=? n) = true) as ->.
    { apply orb_true_iff. rewrite Z.ltb_lt, Z.geb_le. lia. }
    unfold ret_err. now rewrite Hr.
  - assert ((a <? 0) || (a >=? n) = false) as ->.
    { apply orb_false_iff. rewrite Z.ltb_ge. split; [lia|]. destruct (Z.geb_spec a n); [lia|reflexivity]. }
    cbv zeta in HA.
    pose proof (under_err sc (firstn (Z.to_nat (Z.min (zlen p) (n - a))) p)) as He.
    destruct (under sc (firstn (Z.to_nat (Z.min (zlen p) (n - a))) p)) as [[cnt e] rest].
    cbn [fst snd] in He. subst e.
    destruct HA as (_ & _ & _ & Hr).
    unfold ret_err. rewrite Hr. cbn [nth].
    destruct (head_err sc =? 0); [|reflexivity].
    destruct (Z.ltb_spec (Z.min (zlen p) (n - a)) (zlen p));
      destruct (Z.ltb_spec (n - a) (zlen p)); try reflexivity; lia.
Qed.

Lemma writeat_short_iff o n s pos sc p a :
  sec_ok o n -> R o n s pos -> script_ok sc -> - 2^63 <= a < 2^63 -> head_err sc = 0 ->
  (ret_err (snd (WriteAt s sc p a)) = E_short <-> (a < 0 \/ n <= a \/ n - a < zlen p)) /\
  (ret_err (snd (WriteAt s sc p a)) = E_nil <-> (0 <= a < n /\ zlen p <= n - a)).
Proof.
  intros Hs HR Hsc Ha He. rewrite (writeat_err_R o n s pos sc p a Hs HR Hsc Ha), He.
  unfold E_short, E_nil.
  destruct (Z.ltb_spec a 0); cbn [orb Z.eqb].
  - split; split; intros; try lia; discriminate.
  - destruct (Z.geb_spec a n); cbn [Z.eqb];
      [|destruct (Z.ltb_spec (n - a) (zlen p))]; split; split; intros; try lia; discriminate.
Qed.

Lemma writeat_err_propagated o n s pos sc p a :
  sec_ok o n -> R o n s pos -> script_ok sc -> 0 <= a < n -> head_err sc <> 0 ->
  ret_err (snd (WriteAt s sc p a)) = head_err sc.
Proof.
  intros Hs HR Hsc Ha He. pose proof Hs as (Ho & Hn & Hon).
  rewrite (writeat_err_R o n s pos sc p a Hs HR Hsc ltac:(lia)).
  destruct (Z.ltb_spec a 0); [lia|]. destruct (Z.geb_spec a n); [lia|]. cbn [orb].
  destruct (Z.eqb_spec (head_err sc) 0); [contradiction|reflexivity].
Qed.

(** * Seek from a reachable state *)

(** the absolute reference position of a whence *)
Definition seek_ref (s : sw) (wh : Z) : option Z :=
  if wh =? 0 then Some (base s) else if wh =? 1 then Some (off s)
  else if wh =? 2 then Some (limit s) else None.

Lemma Seek_unfold s d wh :
  Seek s d wh =
  match seek_ref s wh with
  | None => (s, mkOut [0; E_whence] [])
  | Some r =>
      if i64 (d + r) <? base s then (s, mkOut [0; E_offset] [])
      else (mkSW (base s) (i64 (d + r)) (limit s), mkOut [i64 (i64 (d + r) - base s); E_nil] [])
  end.
Proof.
  unfold Seek, seek_ref.
  destruct (wh =? 0); [reflexivity|]. destruct (wh =? 1); [reflexivity|].
  destruct (wh =? 2); reflexivity.
Qed.

(** Seek, in unbounded arithmetic: target a = ref + d; a before the section
    start is rejected; a beyond 2^63-1 is rejected too (the int64 addition
    wraps below zero, hence below the start); otherwise the cursor is a and
    the section-relative position a - o is returned.  Nothing reaches the
    underlying writer. *)
Lemma seek_spec_inv o n s d wh :
  sec_ok o n -> inv o n s -> - 2^63 <= d < 2^63 ->
  Seek s d wh =
  match (if wh =? 0 then Some o else if wh =? 1 then Some (off s)
         else if wh =? 2 then Some (o + n) else None) with
  | None => (s, mkOut [0; E_whence] [])
  | Some r =>
      if (r + d <? o) || (r + d >? 2^63 - 1) then (s, mkOut [0; E_offset] [])
      else (mkSW o (r + d) (o + n), mkOut [r + d - o; E_nil] [])
  end.
Proof.
  intros (Ho & Hn & Hon) (Hb & Hl & Hoff) Hd.
  rewrite Seek_unfold. unfold seek_ref. rewrite Hb, Hl.
  assert (Hcase : forall r, o <= r <= 2^63 - 1 ->
    (if i64 (d + r) <? o then (s, mkOut [0; E_offset] [])
     else (mkSW o (i64 (d + r)) (o + n), mkOut [i64 (i64 (d + r) - o); E_nil] [])) =
    (if (r + d <? o) || (r + d >? 2^63 - 1) then (s, mkOut [0; E_offset] [])
     else (mkSW o (r + d) (o + n), mkOut [r + d - o; E_nil] []))).
  { intros r Hr.
    destruct (seek_target d r Hd ltac:(lia)) as [[Hle He]|[Hgt He]].
    - rewrite He. replace (d + r) with (r + d) by lia.
      destruct (Z.ltb_spec (r + d) o); cbn [orb]; [reflexivity|].
      destruct (Z.gtb_spec (r + d) (2^63 - 1)); [lia|].
      rewrite (i64_id (r + d - o)) by lia. reflexivity.
    - destruct (Z.ltb_spec (i64 (d + r)) o); [|lia].
      destruct (Z.gtb_spec (r + d) (2^63 - 1)); [|lia].
      now rewrite orb_true_r. }
  destruct (wh =? 0); [apply Hcase; lia|].
  destruct (wh =? 1); [apply Hcase; lia|].
  destruct (wh =? 2); [apply Hcase; lia|reflexivity].
Qed.

Theorem seek_spec o n s d wh :
  sec_ok o n -> reachable o n s -> - 2^63 <= d < 2^63 ->
  Seek s d wh =
  match (if wh =? 0 then Some o else if wh =? 1 then Some (off s)
         else if wh =? 2 then Some (o + n) else None) with
  | None => (s, mkOut [0; E_whence] [])
  | Some r =>
      if (r + d <? o) || (r + d >? 2^63 - 1) then (s, mkOut [0; E_offset] [])
      else (mkSW o (r + d) (o + n), mkOut [r + d - o; E_nil] [])
  end.
Proof.
  intros Hs Hr Hd. apply seek_spec_inv; auto. now apply reachable_inv.
Qed.

(** the four cases one by one *)
Theorem seek_invalid_whence o n s d wh :
  sec_ok o n -> reachable o n s -> - 2^63 <= d < 2^63 ->
  wh <> 0 -> wh <> 1 -> wh <> 2 ->
  Seek s d wh = (s, mkOut [0; E_whence] []).
Proof.
  intros Hs Hr Hd H0 H1 H2. rewrite (seek_spec o n s d wh Hs Hr Hd).
  destruct (Z.eqb_spec wh 0); [contradiction|].
  destruct (Z.eqb_spec wh 1); [contradiction|].
  destruct (Z.eqb_spec wh 2); [contradiction|reflexivity].
Qed.

Definition whence_ref (o n : Z) (s : sw) (wh r : Z) : Prop :=
  (wh = 0 /\ r = o) \/ (wh = 1 /\ r = off s) \/ (wh = 2 /\ r = o + n).

Lemma whence_ref_eq o n s wh r : whence_ref o n s wh r ->
  (if wh =? 0 then Some o else if wh =? 1 then Some (off s)
   else if wh =? 2 then Some (o + n) else None) = Some r.
Proof. intros [[-> ->]|[[-> ->]|[-> ->]]]; reflexivity. Qed.

Theorem seek_before_start o n s d wh r :
  sec_ok o n -> reachable o n s -> - 2^63 <= d < 2^63 -> whence_ref o n s wh r ->
  r + d < o ->
  Seek s d wh = (s, mkOut [0; E_offset] []).
Proof.
  intros Hs Hr Hd Hw Hlt. rewrite (seek_spec o n s d wh Hs Hr Hd), (whence_ref_eq _ _ _ _ _ Hw).
  destruct (Z.ltb_spec (r + d) o); [reflexivity|lia].
Qed.

(** the int64 wrap: a target that is not an int64 position is rejected *)
Theorem seek_int64_wrap o n s d wh r :
  sec_ok o n -> reachable o n s -> - 2^63 <= d < 2^63 -> whence_ref o n s wh r ->
  r + d > 2^63 - 1 ->
  Seek s d wh = (s, mkOut [0; E_offset] []).
Proof.
  intros Hs Hr Hd Hw Hgt. rewrite (seek_spec o n s d wh Hs Hr Hd), (whence_ref_eq _ _ _ _ _ Hw).
  destruct (Z.gtb_spec (r + d) (2^63 - 1)); [now rewrite orb_true_r|lia].
Qed.

Theorem seek_ok o n s d wh r :
  sec_ok o n -> reachable o n s -> - 2^63 <= d < 2^63 -> whence_ref o n s wh r ->
  o <= r + d <= 2^63 - 1 ->
  Seek s d wh = (mkSW o (r + d) (o + n), mkOut [r + d - o; E_nil] []) /\
  reachable o n (mkSW o (r + d) (o + n)).
Proof.
  intros Hs Hr Hd Hw Hin. split.
  - rewrite (seek_spec o n s d wh Hs Hr Hd), (whence_ref_eq _ _ _ _ _ Hw).
    destruct (Z.ltb_spec (r + d) o); [lia|].
    destruct (Z.gtb_spec (r + d) (2^63 - 1)); [lia|reflexivity].
  - apply inv_reachable; auto. unfold inv. cbn [base off limit]. lia.
Qed.

(** * Size *)
Theorem size_reachable o n s : sec_ok o n -> reachable o n s -> Size s = n.
Proof.
  intros Hs Hr. destruct (reachable_inv o n s Hs Hr) as (Hb & Hl & _).
  destruct Hs as (Ho & Hn & Hon).
  unfold Size. rewrite Hb, Hl. rewrite i64_id by lia. lia.
Qed.

(** * the per-call statements, for every reachable state *)
Theorem write_accounting_at o n s sc p :
  sec_ok o n -> reachable o n s -> script_ok sc -> write_accounting o n s sc p.
Proof.
  intros Hs Hr Hsc. destruct (reachable_R o n s Hs Hr) as (pos & HR).
  eapply write_accounting_R; eauto.
Qed.

Theorem writeat_accounting_at o n s sc p a :
  sec_ok o n -> reachable o n s -> script_ok sc -> - 2^63 <= a < 2^63 ->
  writeat_accounting o n s sc p a.
Proof.
  intros Hs Hr Hsc Ha. destruct (reachable_R o n s Hs Hr) as (pos & HR).
  eapply writeat_accounting_R; eauto.
Qed.

Theorem write_error_class o n s sc p :
  sec_ok o n -> reachable o n s -> script_ok sc ->
  let pos := off s - o in
  let err := ret_err (snd (Write s sc p)) in
  (head_err sc = 0 ->
     (err = E_short <-> (n <= pos \/ n - pos < zlen p)) /\
     (err = E_nil <-> (pos < n /\ zlen p <= n - pos))) /\
  (pos < n -> head_err sc <> 0 -> err = head_err sc) /\
  (n <= pos -> err = E_short).
Proof.
  intros Hs Hr Hsc. destruct (reachable_R o n s Hs Hr) as (pos' & HR).
  destruct (R_inv _ _ _ _ HR) as [_ Hpos]. cbv zeta. rewrite <- Hpos.
  split; [|split].
  - intros He. exact (write_short_iff o n s pos' sc p Hs HR Hsc He).
  - intros Hlt He. exact (write_err_propagated o n s pos' sc p Hs HR Hsc Hlt He).
  - intros Hge. rewrite (write_err_R o n s pos' sc p Hs HR Hsc).
    destruct (Z.geb_spec pos' n); [reflexivity|lia].
Qed.

Theorem writeat_error_class o n s sc p a :
  sec_ok o n -> reachable o n s -> script_ok sc -> - 2^63 <= a < 2^63 ->
  let err := ret_err (snd (WriteAt s sc p a)) in
  (head_err sc = 0 ->
     (err = E_short <-> (a < 0 \/ n <= a \/ n - a < zlen p)) /\
     (err = E_nil <-> (0 <= a < n /\ zlen p <= n - a))) /\
  (0 <= a < n -> head_err sc <> 0 -> err = head_err sc) /\
  (a < 0 \/ n <= a -> err = E_short).
Proof.
  intros Hs Hr Hsc Ha. destruct (reachable_R o n s Hs Hr) as (pos' & HR).
  cbv zeta. split; [|split].
  - intros He. eapply writeat_short_iff; eauto.
  - intros Hin He. rewrite (writeat_err_R o n s pos' sc p a Hs HR Hsc Ha).
    destruct (Z.ltb_spec a 0); [lia|]. destruct (Z.geb_spec a n); [lia|]. cbn [orb].
    destruct (Z.eqb_spec (head_err sc) 0); [contradiction|reflexivity].
  - intros Hout. rewrite (writeat_err_R o n s pos' sc p a Hs HR Hsc Ha).
    destruct (Z.ltb_spec a 0); [reflexivity|]. destruct (Z.geb_spec a n); [reflexivity|lia].
Qed.

(** the states of an AtToWriter are those of the section (o, 2^63-1-o) *)
Lemma at_to_writer_sec_ok o : 0 <= o <= 2^63 - 1 -> sec_ok o (max_int64 - o).
Proof. unfold sec_ok, max_int64. lia. Qed.

(** * the example call sequence used by the non-vacuity examples of Properties/C18.v *)
Definition ex_calls : list call :=
  [CWrite [1;2;3]; CWrite [4;5;6;7;8]; CWrite [9]; CSeek (-2) 2; CWriteAt [10;11;12] 2;
   CSeek 7 1; CSize].
Definition ex_script : list resp := [(1, 2)].
