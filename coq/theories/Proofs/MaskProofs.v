(** Proofs for the mask tables (C12 widening): the tables [initMasks] computes are the closed
    forms of [Lib/Bits.v], entry by entry, and each entry has exactly the stated bits. *)
From Coq Require Import ZArith List Lia Bool.
From Low Require Import Lib.MachInt Lib.Bits Lib.BitSeq Lib.BitsExtra_bm2 Lib.BitsExtra_bm12
  Model.BitmapMask12 Spec.MaskSpec12.
Import ListNotations.
Open Scope Z_scope.

(** * the tables, entry by entry (finite: 65 + 64 entries, by computation) *)
Definition mask_row_ok (i : Z) : bool :=
  match mask_at i with Some (a, b) => (a =? Mask i) && (b =? RMask i) | None => false end.
Definition bit_row_ok (i : Z) : bool :=
  match bit_at i with
  | Some (a, b, c, d) => (a =? MaskUpto i) && (b =? RMaskUpto i) && (c =? Bit i) && (d =? RBit i)
  | None => false
  end.

Lemma mask_rows : forallb mask_row_ok (zrange 65) = true.
Proof. vm_compute. reflexivity. Qed.
Lemma bit_rows : forallb bit_row_ok (zrange 64) = true.
Proof. vm_compute. reflexivity. Qed.

Lemma In_zrange n i : In i (zrange n) <-> 0 <= i < Z.of_nat n.
Proof.
  unfold zrange. rewrite in_map_iff. split.
  - intros (k & <- & Hk). apply in_seq in Hk. lia.
  - intros H. exists (Z.to_nat i). split; [lia|]. apply in_seq. lia.
Qed.

Lemma nthZ_out {A} (l : list A) i : ~ (0 <= i < zlen l) -> nthZ l i = None.
Proof.
  intros H. unfold nthZ. destruct (Z.ltb_spec i 0); [reflexivity|].
  apply nth_error_None. unfold zlen in H. lia.
Qed.

Theorem mask_at_exact i : mask_at i = spec_mask_at i.
Proof.
  unfold spec_mask_at.
  destruct (Z.leb_spec 0 i) as [H0|H0]; destruct (Z.leb_spec i 64) as [H1|H1]; cbn [andb].
  - assert (Hin : In i (zrange 65)) by (apply In_zrange; lia).
    pose proof (proj1 (forallb_forall _ _) mask_rows i Hin) as H. unfold mask_row_ok in H.
    destruct (mask_at i) as [[a b]|]; [|discriminate].
    apply andb_true_iff in H. destruct H as [Ha Hb]. apply Z.eqb_eq in Ha, Hb. now subst.
  - unfold mask_at. rewrite (nthZ_out Mask_tab) by (change (zlen Mask_tab) with 65; lia). reflexivity.
  - unfold mask_at. rewrite (nthZ_out Mask_tab) by (change (zlen Mask_tab) with 65; lia). reflexivity.
  - lia.
Qed.

Theorem bit_at_exact i : bit_at i = spec_bit_at i.
Proof.
  unfold spec_bit_at.
  destruct (Z.leb_spec 0 i) as [H0|H0]; destruct (Z.ltb_spec i 64) as [H1|H1]; cbn [andb].
  - assert (Hin : In i (zrange 64)) by (apply In_zrange; lia).
    pose proof (proj1 (forallb_forall _ _) bit_rows i Hin) as H. unfold bit_row_ok in H.
    destruct (bit_at i) as [[[[a b] c] d]|]; [|discriminate].
    rewrite !andb_true_iff in H. destruct H as [[[Ha Hb] Hc] Hd].
    apply Z.eqb_eq in Ha, Hb, Hc, Hd. now subst.
  - unfold bit_at. rewrite (nthZ_out MaskUpto_tab) by (change (zlen MaskUpto_tab) with 64; lia). reflexivity.
  - unfold bit_at. rewrite (nthZ_out MaskUpto_tab) by (change (zlen MaskUpto_tab) with 64; lia). reflexivity.
  - lia.
Qed.

(** * which bits each closed form has *)
Lemma Mask_ones j : 0 <= j -> Mask j = Z.ones j.
Proof. intros Hj. unfold Mask. rewrite Z.ones_equiv. lia. Qed.

Lemma testbit_Mask j t : 0 <= j -> 0 <= t -> Z.testbit (Mask j) t = bit_Mask j t.
Proof.
  intros Hj Ht. rewrite Mask_ones by exact Hj. rewrite Z.testbit_ones by lia. unfold bit_Mask.
  destruct (Z.leb_spec 0 t); [reflexivity|lia].
Qed.

(** [2^64 - 1 - x] flips the low 64 bits of a word *)
Lemma testbit_not64 x t : 0 <= x < 2^64 -> 0 <= t ->
  Z.testbit (not64 x) t = negb (Z.testbit x t) && (t <? 64).
Proof.
  intros Hx Ht. unfold not64.
  replace (2 ^ 64 - 1 - x) with (Z.ones 64 - x) by (rewrite Z.ones_equiv; lia).
  assert (Hsub : Z.ldiff x (Z.ones 64) = 0).
  { apply Z.bits_inj'. intros n Hn. rewrite Z.ldiff_spec, Z.testbit_ones, Z.bits_0 by lia.
    destruct (Z.leb_spec 0 n); [|lia]. destruct (Z.ltb_spec n 64); cbn [andb negb].
    - apply andb_false_r.
    - rewrite (testbit_word_high x n) by lia. reflexivity. }
  rewrite (Z.sub_nocarry_ldiff _ _ Hsub), Z.ldiff_spec, Z.testbit_ones by lia.
  destruct (Z.leb_spec 0 t); [|lia]. cbn [andb]. apply andb_comm.
Qed.

Lemma Mask_word j : 0 <= j <= 64 -> 0 <= Mask j < 2^64.
Proof.
  intros Hj. unfold Mask. assert (0 < 2 ^ j) by (apply Z.pow_pos_nonneg; lia).
  assert (2 ^ j <= 2 ^ 64) by (apply Z.pow_le_mono_r; lia). lia.
Qed.

Lemma RMask_not64 j : RMask j = not64 (Mask j).
Proof. unfold RMask, not64, Mask. lia. Qed.
Lemma MaskUpto_Mask j : MaskUpto j = Mask (j + 1).
Proof. reflexivity. Qed.
Lemma RMaskUpto_not64' j : RMaskUpto j = not64 (Mask (j + 1)).
Proof. unfold RMaskUpto, not64, Mask. lia. Qed.
Lemma RBit_not64 j : RBit j = not64 (Bit j).
Proof. unfold RBit, not64, Bit. lia. Qed.

Theorem mask_bits j t : 0 <= j <= 64 -> 0 <= t ->
  Z.testbit (Mask j) t = bit_Mask j t /\ Z.testbit (RMask j) t = bit_RMask j t.
Proof.
  intros Hj Ht. split; [apply testbit_Mask; lia|].
  rewrite RMask_not64, testbit_not64, testbit_Mask by (try apply Mask_word; lia).
  unfold bit_Mask, bit_RMask. destruct (Z.ltb_spec t j); destruct (Z.leb_spec j t); try lia; reflexivity.
Qed.

Theorem bit_bits j t : 0 <= j < 64 -> 0 <= t ->
  Z.testbit (MaskUpto j) t = bit_MaskUpto j t /\ Z.testbit (RMaskUpto j) t = bit_RMaskUpto j t /\
  Z.testbit (Bit j) t = bit_Bit j t /\ Z.testbit (RBit j) t = bit_RBit j t.
Proof.
  intros Hj Ht. repeat split.
  - rewrite MaskUpto_Mask, testbit_Mask by lia. unfold bit_Mask, bit_MaskUpto.
    destruct (Z.ltb_spec t (j + 1)); destruct (Z.leb_spec t j); try lia; reflexivity.
  - rewrite RMaskUpto_not64', testbit_not64, testbit_Mask by (try apply Mask_word; lia).
    unfold bit_Mask, bit_RMaskUpto. destruct (Z.ltb_spec t (j + 1)); destruct (Z.ltb_spec j t); try lia; reflexivity.
  - unfold Bit, bit_Bit. rewrite Z.pow2_bits_eqb by lia. apply Z.eqb_sym.
  - rewrite RBit_not64, testbit_not64 by (try apply pow2_word; lia).
    unfold Bit, bit_RBit. rewrite Z.pow2_bits_eqb by lia. now rewrite Z.eqb_sym.
Qed.
