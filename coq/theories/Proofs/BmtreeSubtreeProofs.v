(** C03 widening: how the index of a node relates to the indexes of its
    descendants — the facts a user navigating the tree with PathToIndexLoose
    relies on: the subtree below q is a tree with level mask T >> |q|, it
    occupies the contiguous index range [idx q, idx q + (T >> |q|)), the left
    child follows its parent immediately and the right child follows the whole
    left subtree. *)
From Coq Require Import ZArith List Lia Bool.
From Low Require Import Lib.MachInt Lib.Bits Lib.BitSeq Lib.Lex Lib.Bytes Lib.BitsExtra_tree
  Spec.Bmtree Spec.IndexSpec Model.BmtreePath Model.BmtreeIndex
  Proofs.BmtreePathProofs Proofs.BmtreeRankSpec Proofs.ShiftMultiProofs Proofs.BmtreeIndexProofs
  Proofs.BmtreeContractProofs.
Import ListNotations.
Open Scope Z_scope.

Lemma rec_rank_app : forall q r T, 0 <= T ->
  rec_rank T (q ++ r) = rec_rank T q + rec_rank (T / 2 ^ Z.of_nat (length q)) r.
Proof.
  induction q as [|b q IH]; intros r T HT.
  - cbn [app rec_rank length]. change (2 ^ Z.of_nat 0) with 1. rewrite Z.div_1_r. lia.
  - cbn [app rec_rank length]. rewrite IH by (apply Z.div_pos; lia).
    rewrite pow2_S. rewrite Z.div_div by (pose proof (pow2_pos (Z.of_nat (length q))); lia). lia.
Qed.

Lemma stored_app T q r : stored T (q ++ r) = stored (T / 2 ^ Z.of_nat (length q)) r.
Proof.
  unfold stored. rewrite app_length, Nat2Z.inj_add.
  rewrite <- Z.shiftr_div_pow2 by lia. rewrite Z.shiftr_spec by lia. f_equal. lia.
Qed.

Lemma subtree_mask_range T h (l : nat) : 0 <= T < 2 ^ (Z.of_nat h + 1) -> (l <= h)%nat ->
  0 <= T / 2 ^ Z.of_nat l < 2 ^ (Z.of_nat (h - l) + 1).
Proof.
  intros HT Hl. pose proof (pow2_pos (Z.of_nat l) ltac:(lia)).
  split; [apply Z.div_pos; lia|]. apply Z.div_lt_upper_bound; [lia|].
  rewrite <- Z.pow_add_r by lia. replace (Z.of_nat l + (Z.of_nat (h - l) + 1)) with (Z.of_nat h + 1) by lia. lia.
Qed.

Section Subtree.
  Variables (T : Z) (h : nat) (q r : node).
  Hypothesis HT : 1 <= T < 2 ^ 31.
  Hypothesis HH : Height T = Z.of_nat h.
  Hypothesis Hqr : (length (q ++ r) <= h)%nat.

  Let Hq : (length q <= h)%nat.
  Proof. rewrite app_length in Hqr. lia. Qed.

  Let Tq := T / 2 ^ Z.of_nat (length q).
  Let hq := (h - length q)%nat.

  (** the index of a descendant = index of the ancestor + pre-order rank inside the ancestor's
      subtree, which is a tree of height h - |q| with level mask T >> |q| *)
  Lemma PathToIndexLoose_descendant :
    PathToIndexLoose T (enc h (q ++ r)) =
    Some (pre_rank T h q + pre_rank Tq hq r, Z.b2z (stored Tq r)).
  Proof.
    rewrite (PathToIndexLoose_rec T h (q ++ r) HT HH Hqr).
    pose proof (T_range_h T h HT HH) as Hr.
    rewrite rec_rank_app by lia. rewrite stored_app. fold Tq.
    rewrite (rec_rank_pre_rank h T q Hq Hr).
    rewrite (rec_rank_pre_rank hq Tq r).
    - reflexivity.
    - rewrite app_length in Hqr. unfold hq. lia.
    - unfold Tq, hq. apply subtree_mask_range; [exact Hr|exact Hq].
  Qed.

  (** the subtree occupies the index range [idx q, idx q + (T >> |q|)) *)
  Lemma subtree_range :
    0 <= pre_rank Tq hq r <= Tq /\ (stored Tq r = true -> pre_rank Tq hq r < Tq).
  Proof.
    pose proof (T_range_h T h HT HH) as Hr.
    pose proof (subtree_mask_range T h (length q) Hr Hq) as Hs. fold Tq hq in Hs.
    split; [apply pre_rank_bounds; exact Hs|].
    intros Hst. apply pre_rank_lt; [exact Hs| |exact Hst].
    rewrite app_length in Hqr. unfold hq. lia.
  Qed.
End Subtree.

(** children: the left child follows its parent immediately, the right child follows the left subtree *)
Lemma PathToIndexLoose_child T h q (b : bool) i s : 1 <= T < 2 ^ 31 -> Height T = Z.of_nat h ->
  (length q < h)%nat -> PathToIndexLoose T (enc h q) = Some (i, s) ->
  PathToIndexLoose T (enc h (q ++ [b])) =
  Some (i + s + (if b then T / 2 ^ (Z.of_nat (length q) + 1) else 0),
        Z.b2z (Z.testbit T (Z.of_nat (length q) + 1))).
Proof.
  intros HT HH Hq E.
  assert (Hqb : (length (q ++ [b]) <= h)%nat) by (rewrite app_length; cbn [length]; lia).
  rewrite (PathToIndexLoose_rec T h q HT HH ltac:(lia)) in E. injection E as <- <-.
  rewrite (PathToIndexLoose_rec T h (q ++ [b]) HT HH Hqb).
  rewrite rec_rank_app by lia. cbn [rec_rank].
  unfold stored. rewrite app_length. cbn [length].
  replace (Z.of_nat (length q + 1)) with (Z.of_nat (length q) + 1) by lia.
  rewrite <- (Z.shiftr_div_pow2 T (Z.of_nat (length q))) by lia.
  rewrite Z.shiftr_spec by lia. rewrite Z.add_0_l.
  rewrite Z.shiftr_div_pow2 by lia.
  rewrite Z.div_div by (pose proof (pow2_pos (Z.of_nat (length q))); lia).
  rewrite (Z.mul_comm _ 2), <- pow2_succ by lia.
  do 2 f_equal. lia.
Qed.

(** the child operation of the correspondence run (Run/C03.v [op_child]): both pairs as the
    specification computes them, for the release and the debug model *)
Lemma child_checker T q (b dbg : bool) : 1 <= T < 2 ^ 31 ->
  let h := Z.to_nat (Height T) in
  (length q < h)%nat ->
  let f := if dbg then PathToIndexLoose_debug else PathToIndexLoose in
  f T (enc h q) = Some (spec_rank T h q, Z.b2z (stored T q)) /\
  f T (enc h (q ++ [b])) =
    Some (spec_rank T h q + Z.b2z (stored T q) + (if b then T / 2 ^ (Z.of_nat (length q) + 1) else 0),
          Z.b2z (Z.testbit T (Z.of_nat (length q) + 1))).
Proof.
  intros HT h Hq f.
  assert (HH : Height T = Z.of_nat h) by (apply Proofs.BmtreeContractProofs.Height_nonneg; exact HT).
  assert (Hqb : (length (q ++ [b]) <= h)%nat) by (rewrite app_length; cbn [length]; lia).
  assert (E1 : PathToIndexLoose T (enc h q) = Some (spec_rank T h q, Z.b2z (stored T q))).
  { rewrite (PathToIndexLoose_pre_rank T h q HT HH ltac:(lia)).
    rewrite spec_rank_pre_rank by (try lia; apply T_range_h; assumption). reflexivity. }
  pose proof (PathToIndexLoose_child T h q b _ _ HT HH Hq E1) as E2.
  unfold f. destruct dbg.
  - rewrite (Proofs.BmtreeContractProofs.PathToIndexLoose_debug_eq T h q HT HH ltac:(lia)).
    rewrite (Proofs.BmtreeContractProofs.PathToIndexLoose_debug_eq T h (q ++ [b]) HT HH Hqb). now split.
  - now split.
Qed.
