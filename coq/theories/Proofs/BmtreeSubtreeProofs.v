(** C03 widening: how the index of a node relates to the indexes of its
    descendants — the facts a user navigating the tree with PathToIndexLoose
    relies on: the subtree below q is a tree with level mask T >> |q|, it
    occupies the contiguous index range [idx q, idx q + (T >> |q|)), the left
    child follows its parent immediately and the right child follows the whole
    left subtree. *)
From Coq Require Import ZArith List Lia Bool.
From Low Require Import Lib.MachInt Lib.Bits Lib.BitSeq Lib.Lex Lib.Bytes Lib.BitsExtra_tree
  Spec.Bmtree Spec.IndexSpec Model.BmtreePath Model.BmtreeIndex
  Proofs.BmtreePathProofs Proofs.BmtreeRankSpec Proofs.ShiftMultiProofs Proofs.BmtreeIndexProofs
  Proofs.BmtreeContractProofs.
Import ListNotations.
Open Scope Z_scope.

Lemma rec_rank_app : forall q r T, 0 <= T ->
  rec_rank T (q ++ r) = rec_rank T q + rec_rank (T / 2 ^ Z.of_nat (length q)) r.
Proof.
  induction q as [|b q IH]; intros r T HT.
  - cbn [app rec_rank length]. change (2 ^ Z.of_nat 0) with 1. rewrite Z.div_1_r. lia.
  - cbn [app rec_rank length]. rewrite IH by (apply Z.div_pos; lia).
    rewrite pow2_S. rewrite Z.div_div by (pose proof (pow2_pos (Z.of_nat (length q))); lia). lia.
Qed.

Lemma stored_app T q r : stored T (q ++ r) = stored (T / 2 ^ Z.of_nat (length q)) r.
Proof.
  unfold stored. rewrite app_length, Nat2Z.inj_add.
  rewrite <- Z.shiftr_div_pow2 by lia. rewrite Z.shiftr_spec by lia. f_equal. lia.
Qed.

Lemma subtree_mask_range T h (l : nat) : 0 <= T < 2 ^ (Z.of_nat h + 1) -> (l <= h)%nat ->
  0 <= T / 2 ^ Z.of_nat l < 2 ^ (Z.of_nat (h - l) + 1).
Proof.
  intros HT Hl. pose proof (pow2_pos (Z.of_nat l) ltac:(lia)).
  split; [apply Z.div_pos; lia|]. apply Z.div_lt_upper_bound; [lia|].
  rewrite <- Z.pow_add_r by lia. replace (Z.of_nat l + (Z.of_nat (h - l) + 1)) with (Z.of_nat h + 1) by lia. lia.
Qed.

Section Subtree.
  Variables (T : Z) (h : nat) (q r : node).
  Hypothesis HT : 1 <= T < 2 ^ 31.
  Hypothesis HH : Height T = Z.of_nat h.
  Hypothesis Hqr : (length (q ++ r) <= h)%nat.

  Let Hq : (length q <= h)%nat.
  Proof. rewrite app_length in Hqr. lia. Qed.

  Let Tq := T / 2 ^ Z.of_nat (length q).
  Let hq := (h - length q)%nat.

  (** the index of a descendant = index of the ancestor + pre-order rank inside the ancestor's
      subtree, which is a tree of height h - |q| with level mask T >> |q| *)
  Lemma PathToIndexLoose_descendant :
    PathToIndexLoose T (enc h (q ++ r)) =
    Some (pre_rank T h q + pre_rank Tq hq r, Z.b2z (stored Tq r)).
  Proof.
    rewrite (PathToIndexLoose_rec T h (q ++ r) HT HH Hqr).
    pose proof (T_range_h T h HT HH) as Hr.
    rewrite rec_rank_app by lia. rewrite stored_app. fold Tq.
    rewrite (rec_rank_pre_rank h T q Hq Hr).
    rewrite (rec_rank_pre_rank hq Tq r).
    - reflexivity.
    - rewrite app_length in Hqr. unfold hq. lia.
    - unfold Tq, hq. apply subtree_mask_range; [exact Hr|exact Hq].
  Qed.

  (** the subtree occupies the index range [idx q, idx q + (T >> |q|)) *)
  Lemma subtree_range :
    0 <= pre_rank Tq hq r <= Tq /\ (stored Tq r = true -> pre_rank Tq hq r < Tq).
  Proof.
    pose proof (T_range_h T h HT HH) as Hr.
    pose proof (subtree_mask_range T h (length q) Hr Hq) as Hs. fold Tq hq in Hs.
    split; [apply pre_rank_bounds; exact Hs|].
    intros Hst. apply pre_rank_lt; [exact Hs| |exact Hst].
    rewrite app_length in Hqr. unfold hq. lia.
  Qed.
End Subtree.

(** children: the left child follows its parent immediately, the right child follows the left subtree *)
Lemma PathToIndexLoose_child T h q (b : bool) i s : 1 <= T < 2 ^ 31 -> Height T = Z.of_nat h ->
  (length q < h)%nat -> PathToIndexLoose T (enc h q) = Some (i, s) ->
  PathToIndexLoose T (enc h (q ++ [b])) =
  Some (i + s + (if b then T / 2 ^ (Z.of_nat (length q) + 1) else 0),
        Z.b2z (Z.testbit T (Z.of_nat (length q) + 1))).
Proof.
  intros HT HH Hq E.
  assert (Hqb : (length (q ++ [b]) <= h)%nat) by (rewrite app_length; cbn [length]; lia).
  rewrite (PathToIndexLoose_rec T h q HT HH ltac:(lia)) in E. injection E as <- <-.
  rewrite (PathToIndexLoose_rec T h (q ++ [b]) HT HH Hqb).
  rewrite rec_rank_app by lia. cbn [rec_rank].
  unfold stored. rewrite app_length. cbn [length].
  replace (Z.of_nat (length q + 1)) with (Z.of_nat (length q) + 1) by lia.
  rewrite <- (Z.shiftr_div_pow2 T (Z.of_nat (length q))) by lia.
  rewrite Z.shiftr_spec by lia. rewrite Z.add_0_l.
  rewrite Z.shiftr_div_pow2 by lia.
  rewrite Z.div_div by (pose proof (pow2_pos (Z.of_nat (length q))); lia).
  rewrite (Z.mul_comm _ 2), <- pow2_succ by lia.
  do 2 f_equal. lia.
Qed.

(** the child operation of the correspondence run (Run/C03.v [op_child]): both pairs as the
    specification computes them, for the release and the debug model *)
Lemma child_checker T q (b dbg : bool) : 1 <= T < 2 ^ 31 ->
  let h := Z.to_nat (Height T) in
  (length q < h)%nat ->
  let f := if dbg then PathToIndexLoose_debug else PathToIndexLoose in
  f T (enc h q) = Some (spec_rank T h q, Z.b2z (stored T q)) /\
  f T (enc h (q ++ [b])) =
    Some (spec_rank T h q + Z.b2z (stored T q) + (if b then T / 2 ^ (Z.of_nat (length q) + 1) else 0),
          Z.b2z (Z.testbit T (Z.of_nat (length q) + 1))).
Proof.
  intros HT h Hq f.
  assert (HH : Height T = Z.of_nat h) by (apply Proofs.BmtreeContractProofs.Height_nonneg; exact HT).
  assert (Hqb : (length (q ++ [b]) <= h)%nat) by (rewrite app_length; cbn [length]; lia).
  assert (E1 : PathToIndexLoose T (enc h q) = Some (spec_rank T h q, Z.b2z (stored T q))).
  { rewrite (PathToIndexLoose_pre_rank T h q HT HH ltac:(lia)).
    rewrite spec_rank_pre_rank by (try lia; apply T_range_h; assumption). reflexivity. }
  pose proof (PathToIndexLoose_child T h q b _ _ HT HH Hq E1) as E2.
  unfold f. destruct dbg.
  - rewrite (Proofs.BmtreeContractProofs.PathToIndexLoose_debug_eq T h q HT HH ltac:(lia)).
    rewrite (Proofs.BmtreeContractProofs.PathToIndexLoose_debug_eq T h (q ++ [b]) HT HH Hqb). now split.
  - now split.
Qed.

(** * the index range characterises the descendants *)

Lemma subtree_fits : forall q T, 0 <= T -> rec_rank T q + T / 2 ^ Z.of_nat (length q) <= T.
Proof.
  induction q as [|b q IH]; intros T HT.
  - cbn [rec_rank length]. change (2 ^ Z.of_nat 0) with 1. rewrite Z.div_1_r. lia.
  - cbn [rec_rank length]. rewrite pow2_S.
    rewrite <- Z.div_div by (pose proof (pow2_pos (Z.of_nat (length q))); lia).
    assert (Hh : 0 <= T / 2) by (apply Z.div_pos; lia).
    specialize (IH (T / 2) Hh). pose proof (half_decomp T) as Hd.
    destruct b, (Z.testbit T 0); cbn [Z.b2z] in *; lia.
Qed.

Lemma rec_rank_nonneg : forall q T, 0 <= T -> 0 <= rec_rank T q.
Proof.
  induction q as [|b q IH]; intros T HT; cbn [rec_rank]; [lia|].
  assert (Hh : 0 <= T / 2) by (apply Z.div_pos; lia). specialize (IH (T / 2) Hh).
  destruct b, (Z.testbit T 0); cbn [Z.b2z]; lia.
Qed.

(** two nodes: one is a prefix of the other, or they diverge at some bit *)
Lemma prefix_or_diverge : forall q r : node,
  (exists r', r = q ++ r') \/ (exists b q', q = r ++ b :: q') \/
  (exists c b q1 r1, q = c ++ b :: q1 /\ r = c ++ negb b :: r1).
Proof.
  induction q as [|a q IH]; intros r.
  - left. now exists r.
  - destruct r as [|a' r].
    + right; left. now exists a, q.
    + destruct (Bool.bool_dec a a') as [<-|Hne].
      * destruct (IH r) as [[r' ->]|[[b [q' ->]]|(c & b & q1 & r1 & -> & ->)]].
        -- left. now exists r'.
        -- right; left. now exists b, q'.
        -- right; right. now exists (a :: c), b, q1, r1.
      * right; right. exists [], a, q, r. split; [reflexivity|].
        cbn [app]. f_equal. destruct a, a'; try reflexivity; now elim Hne.
Qed.

Lemma subtree_exact T h q r : 1 <= T < 2 ^ 31 -> Height T = Z.of_nat h ->
  (length q <= h)%nat -> (length r <= h)%nat -> stored T r = true ->
  ((exists r', r = q ++ r') <->
   pre_rank T h q <= pre_rank T h r < pre_rank T h q + T / 2 ^ Z.of_nat (length q)).
Proof.
  intros HT HH Hq Hr Hs. pose proof (T_range_h T h HT HH) as Hrange. split.
  - intros [r' ->].
    pose proof (PathToIndexLoose_descendant T h q r' HT HH Hr) as E.
    rewrite (PathToIndexLoose_pre_rank T h (q ++ r') HT HH Hr) in E. injection E as E _.
    rewrite stored_app in Hs.
    destruct (subtree_range T h q r' HT HH Hr) as [[H0 _] Hlt]. specialize (Hlt Hs). lia.
  - intros Hrg. destruct (prefix_or_diverge q r) as [Hp|[(b & q' & ->)|(c & b & q1 & r1 & -> & ->)]]; [exact Hp|exfalso|exfalso].
    + (* r is a proper ancestor of q: it comes first *)
      pose proof (pre_rank_mono T h r (r ++ b :: q') Hr Hs (pre_lt_descendant r b q')). lia.
    + destruct b; cbn [negb] in *.
      * (* q turns right where r turns left: r comes first *)
        pose proof (pre_rank_mono T h _ _ Hr Hs (pre_lt_left_right c r1 q1)). lia.
      * (* q turns left where r turns right: r comes after the whole subtree of q *)
        rewrite !(rec_rank_pre_rank h T) in Hrg by assumption.
        rewrite !rec_rank_app in Hrg by lia. cbn [rec_rank] in Hrg.
        set (Tc := T / 2 ^ Z.of_nat (length c)) in *.
        assert (HTc : 0 <= Tc) by (apply Z.div_pos; [lia|apply pow2_pos; lia]).
        assert (Hh : 0 <= Tc / 2) by (apply Z.div_pos; lia).
        pose proof (subtree_fits q1 (Tc / 2) Hh) as Hfit.
        pose proof (rec_rank_nonneg r1 (Tc / 2) Hh) as Hnn.
        assert (Esz : T / 2 ^ Z.of_nat (length (c ++ false :: q1)) = Tc / 2 / 2 ^ Z.of_nat (length q1)).
        { rewrite app_length. cbn [length]. unfold Tc.
          rewrite !Z.div_div by (try apply pow2_pos; lia).
          f_equal. rewrite Nat2Z.inj_add, Nat2Z.inj_succ.
          rewrite <- Z.add_1_l. rewrite !Z.pow_add_r by lia. change (2 ^ 1) with 2. lia. }
        rewrite Esz in Hrg. lia.
Qed.

Lemma subtree_exact_idx T h q r i s j : 1 <= T < 2 ^ 31 -> Height T = Z.of_nat h ->
  (length q <= h)%nat -> (length r <= h)%nat -> stored T r = true ->
  PathToIndexLoose T (enc h q) = Some (i, s) -> PathToIndex T (enc h r) = Some j ->
  ((exists r', r = q ++ r') <-> i <= j < i + T / 2 ^ Z.of_nat (length q)).
Proof.
  intros HT HH Hq Hr Hs Ei Ej.
  rewrite (PathToIndexLoose_pre_rank T h q HT HH Hq) in Ei. injection Ei as <- _.
  rewrite (PathToIndex_pre_rank T h r HT HH Hr) in Ej. injection Ej as <-.
  now apply subtree_exact.
Qed.
