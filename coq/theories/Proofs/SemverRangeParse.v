(** Proofs for the extra check X01, part 5 (widening): on CANONICAL syntax the modelled range parser inverts the
    printer of Spec/VersPrint.v: for every well-formed structured range [gs] (no group empty, every comparator in one
    of its spellings, well-formed versions without the letter x)
        range_groups (join " || " (map group_string gs)) = Ok (strip gs)
    hence IsCompatible / Check on the printed strings are exactly "the range holds" in the precedence order of the
    standard: the statement of the /ast operations, with no reference to the parsers left. *)
From Coq Require Import ZArith List Bool Lia.
From Low Require Import Lib.Decimal_xpk Proofs.DecimalProofs_xpk Model.Semver Model.Vers Spec.VersSpec Spec.VersPrint
  Proofs.SemverOrder Proofs.VersProofs Proofs.SemverPrintParse.
Import ListNotations.
Open Scope Z_scope.

(** * tokens *)
(** what a token of a canonical range looks like to the splitter *)
Record tok_ok (t : str) : Prop := {
  tk_nospace : lacks 32 t;
  tk_len : (2 <= length t)%nat;
  tk_last : exclude_from_split (last t 0) = false
}.

Lemma sub_middle (a t b : str) : sub (a ++ t ++ b) (slen a) (slen a + slen t) = t.
Proof.
  unfold sub, slen. replace (Z.of_nat (length a) + Z.of_nat (length t) - Z.of_nat (length a)) with (Z.of_nat (length t)) by lia.
  rewrite !Nat2Z.id. rewrite skipn_app, skipn_all, Nat.sub_diag. cbn [app skipn].
  rewrite firstn_app, firstn_all, Nat.sub_diag. cbn [firstn]. now rewrite app_nil_r.
Qed.

Lemma sat_loop_token : forall t rest s i last0 lastChar result, lacks 32 t -> t <> [] ->
  sat_loop (t ++ rest) s i last0 lastChar result = sat_loop rest s (i + slen t) last0 (last t 0) result.
Proof.
  induction t as [|c t IH]; intros rest s i last0 lastChar result Hl Hne; [congruence|].
  inversion Hl as [|? ? Hc Hl']; subst.
  cbn [app sat_loop]. destruct (Z.eqb_spec c 32) as [E|_]; [congruence|]. cbn [andb negb].
  destruct t as [|d t'].
  - cbn [app last]. unfold slen. cbn [length]. replace (i + Z.of_nat 1) with (i + 1) by lia. reflexivity.
  - rewrite (IH rest s (i + 1) last0 c result Hl' ltac:(discriminate)).
    change (last (c :: d :: t') 0) with (last (d :: t') 0).
    unfold slen. cbn [length]. f_equal. lia.
Qed.

(** the splitter on tokens separated by single spaces *)
Lemma sat_loop_tokens : forall ts done lastChar result, ts <> [] -> Forall tok_ok ts ->
  let s := done ++ join [32] ts in
  let '(r, l) := sat_loop (join [32] ts) s (slen done) (slen done) lastChar result in
  (if l <? slen s - 1 then r ++ [sub s l (slen s)] else r) = result ++ ts.
Proof.
  induction ts as [|t ts IH]; intros done lastChar result Hne Hok; [congruence|].
  inversion Hok as [|? ? Ht Hok']; subst. destruct Ht as [Hsp Hlen Hlast].
  assert (Htne : t <> []) by (destruct t; [cbn in Hlen; lia|discriminate]).
  destruct ts as [|t2 ts'].
  - cbn [join]. cbv zeta.
    pose proof (sat_loop_token t [] (done ++ t) (slen done) (slen done) lastChar result Hsp Htne) as Htk.
    rewrite app_nil_r in Htk. rewrite Htk. clear Htk. cbn [sat_loop].
    assert (Hs : slen (done ++ t) = slen done + slen t) by (unfold slen; rewrite app_length; lia).
    rewrite Hs. destruct (Z.ltb_spec (slen done) (slen done + slen t - 1)) as [_|Hge]; [|unfold slen in Hge; lia].
    f_equal. pose proof (sub_middle done t []) as Hm. rewrite app_nil_r in Hm. now rewrite Hm.
  - change (join [32] (t :: t2 :: ts')) with (t ++ [32] ++ join [32] (t2 :: ts')). cbv zeta.
    set (R := join [32] (t2 :: ts')).
    rewrite (sat_loop_token t ([32] ++ R) _ _ _ _ _ Hsp Htne).
    cbn [app sat_loop]. rewrite Z.eqb_refl, Hlast. cbn [andb negb].
    destruct (Z.ltb_spec (slen done) (slen done + slen t - 1)) as [_|Hge]; [|unfold slen in Hge; lia].
    rewrite (sub_middle done t (32 :: R)).
    specialize (IH (done ++ t ++ [32]) (last t 0) (result ++ [t]) ltac:(discriminate) Hok').
    cbv zeta in IH.
    assert (Hd : slen (done ++ t ++ [32]) = slen done + slen t + 1) by (unfold slen; rewrite !app_length; cbn [length]; lia).
    rewrite Hd in IH.
    assert (Es : (done ++ t ++ [32]) ++ join [32] (t2 :: ts') = done ++ t ++ 32 :: R) by (now rewrite <- !app_assoc).
    rewrite Es in IH. fold R in IH.
    destruct (sat_loop R (done ++ t ++ 32 :: R) (slen done + slen t + 1) (slen done + slen t + 1) (last t 0) (result ++ [t])) as [r l].
    rewrite IH. now rewrite <- app_assoc.
Qed.

Lemma remove_spaces_id t : lacks 32 t -> remove_spaces t = t.
Proof.
  unfold remove_spaces. induction t as [|c t IH]; intros H; [reflexivity|].
  inversion H; subst. cbn [filter]. destruct (Z.eqb_spec c 32); [congruence|]. cbn [negb]. now rewrite IH.
Qed.

Lemma splitAndTrim_tokens ts : ts <> [] -> Forall tok_ok ts -> splitAndTrim (join [32] ts) = ts.
Proof.
  intros Hne Hok. unfold splitAndTrim.
  pose proof (sat_loop_tokens ts [] 0 [] Hne Hok) as H. cbv zeta in H. cbn [app] in H.
  change (slen []) with 0 in H.
  destruct (sat_loop (join [32] ts) (join [32] ts) 0 0 0 []) as [r l]. rewrite H.
  cbn [app]. rewrite <- (map_id ts) at 2. apply map_ext_in. intros t Ht.
  rewrite Forall_forall in Hok. apply remove_spaces_id, (tk_nospace t (Hok t Ht)).
Qed.

(** * the OR splitter *)
Fixpoint toks (gs : list (list str)) : list str :=
  match gs with
  | [] => []
  | [g] => g
  | g :: rest => g ++ [or_token] ++ toks rest
  end.

Lemma or_loop_group : forall g rest all i last0 acc, Forall (fun t => str_eqb t or_token = false) g ->
  or_loop (g ++ rest) all i last0 acc = or_loop rest all (i + Z.of_nat (length g)) last0 acc.
Proof.
  induction g as [|t g IH]; intros rest all i last0 acc Hg.
  - cbn [app length]. f_equal. lia.
  - inversion Hg as [|? ? Ht Hg']; subst. cbn [app or_loop]. rewrite Ht.
    rewrite (IH rest all (i + 1) last0 acc Hg'). f_equal. cbn [length]. lia.
Qed.

Lemma or_loop_groups : forall gs done acc,
  gs <> [] -> Forall (fun g => g <> [] /\ Forall (fun t => str_eqb t or_token = false) g) gs ->
  let all := done ++ toks gs in
  let n := Z.of_nat (length done) in
  match or_loop (toks gs) all n n acc with
  | Ok (acc', last') =>
      (if last' =? Z.of_nat (length all) then Err else Ok (acc' ++ [skipn (Z.to_nat last') all])) = Ok (acc ++ gs)
  | _ => False
  end.
Proof.
  induction gs as [|g gs IH]; intros done acc Hne Hok; [congruence|].
  inversion Hok as [|? ? [Hgne Hg] Hok']; subst. cbv zeta.
  destruct gs as [|g2 gs'].
  - cbn [toks].
    pose proof (or_loop_group g [] (done ++ g) (Z.of_nat (length done)) (Z.of_nat (length done)) acc Hg) as Hgr.
    rewrite app_nil_r in Hgr. rewrite Hgr. clear Hgr. cbn [or_loop].
    rewrite app_length.
    destruct (Z.eqb_spec (Z.of_nat (length done)) (Z.of_nat (length done + length g))) as [E|_].
    + destruct g; [congruence|cbn [length] in E; lia].
    + rewrite Nat2Z.id, skipn_app, skipn_all, Nat.sub_diag. reflexivity.
  - change (toks (g :: g2 :: gs')) with (g ++ [or_token] ++ toks (g2 :: gs')).
    set (R := toks (g2 :: gs')).
    rewrite or_loop_group by assumption. cbn [app or_loop].
    assert (Eo : str_eqb or_token or_token = true) by reflexivity. rewrite Eo.
    destruct (Z.eqb_spec (Z.of_nat (length done) + Z.of_nat (length g)) 0) as [E|_].
    { destruct g; [congruence|cbn [length] in E; lia]. }
    set (all := done ++ g ++ or_token :: R).
    assert (Eg : firstn (Z.to_nat (Z.of_nat (length done) + Z.of_nat (length g) - Z.of_nat (length done)))
                        (skipn (Z.to_nat (Z.of_nat (length done))) all) = g).
    { replace (Z.of_nat (length done) + Z.of_nat (length g) - Z.of_nat (length done)) with (Z.of_nat (length g)) by lia.
      rewrite !Nat2Z.id. unfold all. rewrite skipn_app, skipn_all, Nat.sub_diag. cbn [app skipn].
      rewrite firstn_app, firstn_all, Nat.sub_diag. cbn [firstn]. now rewrite app_nil_r. }
    rewrite Eg.
    specialize (IH (done ++ g ++ [or_token]) (acc ++ [g]) ltac:(discriminate) Hok'). cbv zeta in IH.
    assert (El : Z.of_nat (length (done ++ g ++ [or_token])) = Z.of_nat (length done) + Z.of_nat (length g) + 1)
      by (rewrite !app_length; cbn [length]; lia).
    rewrite El in IH.
    assert (Ea : (done ++ g ++ [or_token]) ++ toks (g2 :: gs') = all) by (unfold all; now rewrite <- !app_assoc).
    rewrite Ea in IH. fold R in IH.
    destruct (or_loop R all (Z.of_nat (length done) + Z.of_nat (length g) + 1) (Z.of_nat (length done) + Z.of_nat (length g) + 1) (acc ++ [g]))
      as [[acc' last']| |]; try contradiction.
    rewrite IH. now rewrite <- app_assoc.
Qed.

Lemma splitORParts_toks gs :
  gs <> [] -> Forall (fun g => g <> [] /\ Forall (fun t => str_eqb t or_token = false) g) gs ->
  splitORParts (toks gs) = Ok gs.
Proof.
  intros Hne Hok. unfold splitORParts, bind.
  pose proof (or_loop_groups gs [] [] Hne Hok) as H. cbv zeta in H. cbn [app length] in H. change (Z.of_nat 0) with 0 in H.
  destruct (or_loop (toks gs) (toks gs) 0 0 []) as [[acc last']| |]; try contradiction. exact H.
Qed.

(** * joining groups = joining tokens *)
Lemma join_app (sep : str) (a b : list str) : a <> [] -> b <> [] -> join sep (a ++ b) = join sep a ++ sep ++ join sep b.
Proof.
  induction a as [|x a IH]; intros Ha Hb; [congruence|].
  destruct a as [|y a'].
  - cbn [app]. destruct b; [congruence|reflexivity].
  - change ((x :: y :: a') ++ b) with (x :: (y :: a') ++ b).
    change (join sep (x :: (y :: a') ++ b)) with (x ++ sep ++ join sep ((y :: a') ++ b)).
    rewrite IH by (discriminate || assumption).
    change (join sep (x :: y :: a')) with (x ++ sep ++ join sep (y :: a')). now rewrite <- !app_assoc.
Qed.

Lemma toks_nonempty gs : gs <> [] -> Forall (fun g => g <> []) gs -> toks gs <> [].
Proof.
  destruct gs as [|g [|g2 gs']]; intros Hne H; [congruence| |]; inversion H; subst.
  - assumption.
  - change (toks (g :: g2 :: gs')) with (g ++ [or_token] ++ toks (g2 :: gs')). destruct g; [congruence|discriminate].
Qed.

Lemma join_groups (gs : list (list str)) : gs <> [] -> Forall (fun g => g <> []) gs ->
  join or_sep (map (join [32]) gs) = join [32] (toks gs).
Proof.
  induction gs as [|g gs IH]; intros Hne H; [congruence|]. inversion H as [|? ? Hg H']; subst.
  destruct gs as [|g2 gs']; [reflexivity|].
  change (map (join [32]) (g :: g2 :: gs')) with (join [32] g :: map (join [32]) (g2 :: gs')).
  change (join or_sep (join [32] g :: map (join [32]) (g2 :: gs')))
    with (join [32] g ++ or_sep ++ join or_sep (map (join [32]) (g2 :: gs'))).
  rewrite IH by (discriminate || assumption).
  change (toks (g :: g2 :: gs')) with (g ++ [or_token] ++ toks (g2 :: gs')).
  assert (Hr : toks (g2 :: gs') <> []) by (apply toks_nonempty; [discriminate|assumption]).
  rewrite join_app by (assumption || discriminate).
  rewrite join_app by (discriminate || assumption).
  cbn [join]. unfold or_sep, or_token. reflexivity.
Qed.

(** * the characters of a printed version *)
Definition vchar (c : Z) : bool := is_alphanum c || (c =? 46) || (c =? 43).

Lemma vchar_alnum c : is_alphanum c = true -> vchar c = true.
Proof. intros H. unfold vchar. now rewrite H. Qed.

Lemma alnum_vchars s : only_alphanum s = true -> Forall (fun c => vchar c = true) s.
Proof.
  unfold only_alphanum. rewrite forallb_forall. intros H. apply Forall_forall. intros c Hc. apply vchar_alnum. now apply H.
Qed.

Lemma dec_vchars n : 0 <= n -> Forall (fun c => vchar c = true) (dec_nonneg n).
Proof. intros Hn. apply alnum_vchars, digits_alnum, dec_nonneg_digits, Hn. Qed.

Lemma join_forall (P : Z -> Prop) sep l : Forall P sep -> Forall (Forall P) l -> Forall P (join sep l).
Proof.
  intros Hs. induction l as [|x l IH]; intros Hl; [constructor|].
  inversion Hl; subst. destruct l as [|y l']; [assumption|].
  change (join sep (x :: y :: l')) with (x ++ sep ++ join sep (y :: l')).
  apply Forall_app. split; [assumption|]. apply Forall_app. split; [assumption|]. now apply IH.
Qed.

Lemma opt_part_forall (P : Z -> Prop) (c : Z) (l : list str) : P c -> P 46 -> Forall (Forall P) l ->
  Forall P (match l with [] => [] | x :: l' => [c] ++ join [46] (x :: l') end).
Proof.
  intros Hc Hd Hl. destruct l as [|x l']; [constructor|].
  apply Forall_app. split; [repeat constructor; assumption|]. apply join_forall; [repeat constructor; assumption|assumption].
Qed.

Lemma pre_part_alt v : pre_part v = match map ident_string (v_pre v) with [] => [] | l => [45] ++ join [46] l end.
Proof. unfold pre_part. destruct (v_pre v); reflexivity. Qed.

Lemma version_string_forall (P : Z -> Prop) v :
  P 46 -> P 45 -> P 43 ->
  Forall P (dec_nonneg (v_major v)) -> Forall P (dec_nonneg (v_minor v)) -> Forall P (dec_nonneg (v_patch v)) ->
  (forall q, In q (v_pre v) -> Forall P (ident_string q)) -> (forall b, In b (v_build v) -> Forall P b) ->
  Forall P (version_string v).
Proof.
  intros H46 H45 H43 Hma Hmi Hpa Hpre Hbld. rewrite version_string_parts.
  apply Forall_app. split; [assumption|]. constructor; [assumption|].
  apply Forall_app. split; [assumption|]. constructor; [assumption|].
  apply Forall_app. split; [assumption|]. apply Forall_app. split.
  - rewrite pre_part_alt. apply opt_part_forall; try assumption.
    apply Forall_forall. intros s Hs. apply in_map_iff in Hs as (q & <- & Hq). now apply Hpre.
  - unfold build_part. apply opt_part_forall; try assumption. apply Forall_forall. exact Hbld.
Qed.

Lemma version_string_vchars v : wf_version v = true -> Forall (fun c => vchar c = true) (version_string v).
Proof.
  intros Hw. apply wf_version_unfold in Hw as (Hma & Hmi & Hpa & Hpre & Hbld).
  apply version_string_forall; try reflexivity; try (apply dec_vchars; lia).
  - intros q Hq. rewrite forallb_forall in Hpre. destruct (wf_ident_spec q (Hpre q Hq)) as (_ & Ha & _). now apply alnum_vchars.
  - intros b Hb. rewrite forallb_forall in Hbld. specialize (Hbld b Hb). unfold wf_build in Hbld.
    apply andb_true_iff in Hbld as [Ha _]. now apply alnum_vchars.
Qed.

Lemma vchars_lack c s : vchar c = false -> Forall (fun b => vchar b = true) s -> lacks c s.
Proof.
  intros Hc Hs. apply Forall_forall. intros b Hb ->. rewrite Forall_forall in Hs. rewrite (Hs c Hb) in Hc. discriminate.
Qed.

Lemma version_string_head v : wf_version v = true ->
  exists d t, version_string v = d :: t /\ is_digit d = true /\ (1 <= length t)%nat.
Proof.
  intros Hw. apply wf_version_unfold in Hw as (Hma & _).
  rewrite version_string_parts. pose proof (dec_nonneg_head (v_major v) (proj1 Hma)) as H.
  destruct (dec_nonneg (v_major v)) as [|d t]; [contradiction|]. destruct H as [Hd _].
  exists d, (t ++ 46 :: (dec_nonneg (v_minor v) ++ 46 :: (dec_nonneg (v_patch v) ++ pre_part v ++ build_part v))).
  split; [reflexivity|]. split; [assumption|]. rewrite app_length. cbn [length]. lia.
Qed.

Lemma contains_byte_false c s : contains_byte c s = false -> lacks c s.
Proof.
  unfold contains_byte. intros H. apply Forall_forall. intros b Hb ->.
  assert (existsb (Z.eqb c) s = true) by (apply existsb_exists; exists c; split; [assumption|apply Z.eqb_refl]). congruence.
Qed.

Lemma lacks_contains c s : lacks c s -> contains_byte c s = false.
Proof.
  intros H. unfold contains_byte. destruct (existsb (Z.eqb c) s) eqn:E; [|reflexivity].
  apply existsb_exists in E as (b & Hb & Eb). apply Z.eqb_eq in Eb. subst b.
  unfold lacks in H. rewrite Forall_forall in H. now specialize (H c Hb).
Qed.

Lemma version_string_no_x v : wf_version v = true -> no_x v = true -> lacks 120 (version_string v).
Proof.
  intros Hw Hx. apply wf_version_unfold in Hw as (Hma & Hmi & Hpa & Hpre & Hbld).
  unfold no_x in Hx. apply andb_true_iff in Hx as [Hxp Hxb].
  assert (D : forall n, 0 <= n -> lacks 120 (dec_nonneg n)) by (intros n Hn; apply digits_lack; [reflexivity|now apply dec_nonneg_digits]).
  apply version_string_forall; try discriminate; try (apply D; lia).
  - intros q Hq. rewrite forallb_forall in Hpre, Hxp. specialize (Hpre q Hq). specialize (Hxp q Hq).
    unfold ident_string. destruct (pr_isnum q) eqn:Eq.
    + unfold wf_ident in Hpre. rewrite Eq in Hpre. apply andb_true_iff in Hpre as [Hpre _]. apply andb_true_iff in Hpre as [_ H0].
      apply Z.leb_le in H0. now apply D.
    + apply contains_byte_false. now apply negb_true_iff in Hxp.
  - intros b Hb. rewrite forallb_forall in Hxb. specialize (Hxb b Hb).
    apply contains_byte_false. now apply negb_true_iff in Hxb.
Qed.

(** * spellings *)
Lemma str_eqb_eq a : forall b, str_eqb a b = true -> a = b.
Proof.
  induction a as [|x a IH]; intros [|y b] H; cbn [str_eqb] in H; try discriminate; [reflexivity|].
  apply andb_true_iff in H as [H1 H2]. apply Z.eqb_eq in H1. subst. f_equal. now apply IH.
Qed.

Lemma spelling_in s c : existsb (str_eqb s) (op_spellings c) = true -> In s (op_spellings c).
Proof. intros H. apply existsb_exists in H as (t & Ht & E). apply str_eqb_eq in E. now subst. Qed.

Definition op_char (c : Z) : bool := (c =? 33) || (c =? 60) || (c =? 61) || (c =? 62).

Lemma spelling_facts s c : In s (op_spellings c) ->
  Forall (fun b => op_char b = true) s /\ trim_space s = s /\ parseComparator s = Some c.
Proof.
  intros H. destruct c; cbn [op_spellings In] in H;
    repeat (destruct H as [<-|H]; [repeat split; try reflexivity; repeat constructor|]); destruct H.
Qed.

Lemma cut_at_digit_app : forall s d t, Forall (fun b => is_digit b = false) s -> is_digit d = true ->
  cut_at_digit (s ++ d :: t) = Some (s, d :: t).
Proof.
  induction s as [|c s IH]; intros d t Hs Hd; cbn [app cut_at_digit].
  - now rewrite Hd.
  - inversion Hs as [|? ? Hc Hs']; subst. rewrite Hc. now rewrite (IH d t Hs' Hd).
Qed.

Lemma last_in {A} (l : list A) d : l <> [] -> In (last l d) l.
Proof.
  induction l as [|x l IH]; intros H; [congruence|].
  destruct l as [|y l']; [left; reflexivity|]. right. apply IH. discriminate.
Qed.

Lemma last_app_r {A} (a b : list A) d : b <> [] -> last (a ++ b) d = last b d.
Proof.
  intros Hb. induction a as [|x a IH]; [reflexivity|].
  cbn [app]. destruct (a ++ b) as [|y l] eqn:E.
  - destruct a; cbn [app] in E; [congruence|discriminate].
  - change (last (x :: y :: l) d) with (last (y :: l) d). exact IH.
Qed.

(** * one comparator token *)
Section Token.
Variable c : comparator.
Variable s : str.
Variable w : Version.
Notation x := (c, s, w).
Hypothesis Hok : scomp_ok x = true.

Lemma scomp_unfold : x = (c, s, w) /\ In s (op_spellings c) /\ wf_version w = true /\ no_x w = true.
Proof.
  unfold scomp_ok in Hok.
  apply andb_true_iff in Hok as [H Hx]. apply andb_true_iff in H as [Hs Hw].
  repeat split; try assumption. now apply spelling_in.
Qed.

Lemma comp_string_eq : comp_string x = s ++ version_string w.
Proof. reflexivity. Qed.

Lemma op_chars_lack b : op_char b = false -> lacks b s.
Proof.
  intros Hb. destruct scomp_unfold as (_ & Hs & _). destruct (spelling_facts s c Hs) as (Hc & _).
  apply Forall_forall. intros z Hz ->. rewrite Forall_forall in Hc. rewrite (Hc b Hz) in Hb. discriminate.
Qed.

Lemma comp_string_lacks b : op_char b = false -> vchar b = false -> lacks b (comp_string x).
Proof.
  intros H1 H2. rewrite comp_string_eq. apply lacks_app; [now apply op_chars_lack|].
  destruct scomp_unfold as (_ & _ & Hw & _). apply vchars_lack; [assumption|now apply version_string_vchars].
Qed.

Lemma comp_string_tok_ok : tok_ok (comp_string x).
Proof.
  destruct scomp_unfold as (_ & _ & Hw & _).
  destruct (version_string_head w Hw) as (d & t & Ev & Hd & Ht).
  constructor.
  - apply comp_string_lacks; reflexivity.
  - rewrite comp_string_eq, app_length, Ev. cbn [length]. lia.
  - rewrite comp_string_eq, last_app_r by (rewrite Ev; discriminate).
    pose proof (last_in (version_string w) 0 ltac:(rewrite Ev; discriminate)) as Hin.
    pose proof (version_string_vchars w Hw) as Hv. rewrite Forall_forall in Hv. specialize (Hv _ Hin).
    unfold exclude_from_split.
    destruct (Z.eqb_spec (last (version_string w) 0) 62) as [E|_]; [rewrite E in Hv; discriminate|].
    destruct (Z.eqb_spec (last (version_string w) 0) 60) as [E|_]; [rewrite E in Hv; discriminate|].
    destruct (Z.eqb_spec (last (version_string w) 0) 61) as [E|_]; [rewrite E in Hv; discriminate|].
    reflexivity.
Qed.

Lemma comp_string_not_or : str_eqb (comp_string x) or_token = false.
Proof.
  destruct (str_eqb (comp_string x) or_token) eqn:E; [|reflexivity].
  apply str_eqb_eq in E. pose proof (comp_string_lacks 124 eq_refl eq_refl) as H. rewrite E in H.
  inversion H. congruence.
Qed.

Lemma expand_one_comp : expand_one (comp_string x) = Ok [comp_string x].
Proof.
  unfold expand_one.
  assert (H : contains_byte 120 (comp_string x) = false).
  { apply lacks_contains. rewrite comp_string_eq. apply lacks_app; [now apply op_chars_lack|].
    destruct scomp_unfold as (_ & _ & Hw & Hx). now apply version_string_no_x. }
  now rewrite H.
Qed.

Lemma parse_ap_comp : parse_ap (comp_string x) = Ok (c, w).
Proof.
  destruct scomp_unfold as (_ & Hs & Hw & _).
  destruct (spelling_facts s c Hs) as (Hc & Ht & Hp).
  destruct (version_string_head w Hw) as (d & t & Ev & Hd & _).
  unfold parse_ap, splitComparatorVersion. rewrite comp_string_eq, Ev.
  rewrite cut_at_digit_app; [|
    apply Forall_forall; intros b Hb; rewrite Forall_forall in Hc; specialize (Hc b Hb);
    unfold op_char in Hc; unfold is_digit;
    repeat (apply orb_true_iff in Hc as [Hc|Hc]); apply Z.eqb_eq in Hc; subst b; reflexivity | assumption].
  rewrite Ht, Hp, <- Ev, (Parse_print w Hw). reflexivity.
Qed.

End Token.

(** * the whole range *)
Lemma res_map_all_ok {A B} (f : A -> res B) (g : A -> B) l :
  (forall a, In a l -> f a = Ok (g a)) -> res_map_all f l = Ok (map g l).
Proof.
  induction l as [|a l IH]; intros H; [reflexivity|].
  cbn [res_map_all map]. unfold bind. rewrite (H a (or_introl eq_refl)), IH; [reflexivity|].
  intros b Hb. apply H. now right.
Qed.

Lemma concat_singletons {A} (l : list A) : concat (map (fun a => [a]) l) = l.
Proof. induction l as [|a l IH]; [reflexivity|]. cbn [map concat app]. now rewrite IH. Qed.

Lemma toks_forall (P : str -> Prop) gs : P or_token -> Forall (Forall P) gs -> Forall P (toks gs).
Proof.
  intros Ho. induction gs as [|g gs IH]; intros H; [constructor|].
  inversion H; subst. destruct gs as [|g2 gs']; [assumption|].
  change (toks (g :: g2 :: gs')) with (g ++ [or_token] ++ toks (g2 :: gs')).
  apply Forall_app. split; [assumption|]. constructor; [assumption|]. now apply IH.
Qed.

Lemma or_token_ok : tok_ok or_token.
Proof. constructor; [repeat constructor; discriminate|cbn; lia|reflexivity]. Qed.

Lemma sgroups_ok_unfold gs : sgroups_ok gs = true ->
  gs <> [] /\ Forall (fun g => g <> [] /\ Forall (fun x => scomp_ok x = true) g) gs.
Proof.
  unfold sgroups_ok. intros H. apply andb_true_iff in H as [Hne H]. split; [destruct gs; [discriminate|discriminate]|].
  apply Forall_forall. intros g Hg. rewrite forallb_forall in H. specialize (H g Hg).
  apply andb_true_iff in H as [H1 H2]. split; [destruct g; [discriminate|discriminate]|].
  apply Forall_forall. rewrite forallb_forall in H2. exact H2.
Qed.

Lemma parse_group g0 : Forall (fun x => scomp_ok x = true) g0 ->
  res_map_all parse_ap (map comp_string g0) = Ok (map (fun x : scomp => let '(c, _, w) := x in (c, w)) g0).
Proof.
  induction g0 as [|x g0 IH]; intros H; [reflexivity|].
  inversion H as [|? ? Hx H']; subst. destruct x as [[c0 s0] w0].
  cbn [map res_map_all]. unfold bind. rewrite (parse_ap_comp c0 s0 w0 Hx), (IH H'). reflexivity.
Qed.

Theorem range_groups_print gs : sgroups_ok gs = true ->
  range_groups (join or_sep (map group_string gs)) = Ok (strip gs).
Proof.
  intros Hok. apply sgroups_ok_unfold in Hok as [Hne Hgs].
  set (TG := map (map comp_string) gs).
  assert (Emap : map group_string gs = map (join [32]) TG).
  { unfold TG, group_string. now rewrite map_map. }
  assert (HTne : TG <> []) by (unfold TG; destruct gs; [congruence|discriminate]).
  assert (HTg : Forall (fun g => g <> []) TG).
  { unfold TG. apply Forall_forall. intros g Hg. apply in_map_iff in Hg as (g0 & <- & Hg0).
    rewrite Forall_forall in Hgs. destruct (Hgs g0 Hg0) as [H _]. destruct g0; [congruence|discriminate]. }
  rewrite Emap, (join_groups TG HTne HTg).
  unfold range_groups.
  rewrite splitAndTrim_tokens.
  2:{ apply toks_nonempty; assumption. }
  2:{ apply toks_forall; [apply or_token_ok|]. unfold TG. apply Forall_forall. intros g Hg.
      apply in_map_iff in Hg as (g0 & <- & Hg0). apply Forall_forall. intros t Ht.
      apply in_map_iff in Ht as (x & <- & Hx). rewrite Forall_forall in Hgs. destruct (Hgs g0 Hg0) as [_ H].
      rewrite Forall_forall in H. destruct x as [[c0 s0] w0]. apply comp_string_tok_ok. now apply H. }
  rewrite splitORParts_toks; [|assumption|].
  2:{ unfold TG. apply Forall_forall. intros g Hg. apply in_map_iff in Hg as (g0 & <- & Hg0).
      rewrite Forall_forall in Hgs. destruct (Hgs g0 Hg0) as [Hn H]. split; [destruct g0; [congruence|discriminate]|].
      apply Forall_forall. intros t Ht. apply in_map_iff in Ht as (x & <- & Hx).
      rewrite Forall_forall in H. destruct x as [[c0 s0] w0]. apply comp_string_not_or. now apply H. }
  cbn [bind].
  assert (Eexp : expandWildcardVersion TG = Ok TG).
  { unfold expandWildcardVersion. rewrite <- (map_id TG) at 2. apply res_map_all_ok. intros p Hp.
    unfold TG in Hp. apply in_map_iff in Hp as (g0 & <- & Hg0).
    rewrite (res_map_all_ok expand_one (fun a => [a])).
    - cbn [bind]. now rewrite concat_singletons.
    - intros t Ht. apply in_map_iff in Ht as (x & <- & Hx). rewrite Forall_forall in Hgs. destruct (Hgs g0 Hg0) as [_ H].
      rewrite Forall_forall in H. destruct x as [[c0 s0] w0]. apply expand_one_comp. now apply H. }
  rewrite Eexp. cbn [bind].
  unfold TG, strip.
  assert (Ep : forall g0, In g0 gs ->
            res_map_all parse_ap (map comp_string g0) = Ok (map (fun x : scomp => let '(c, _, w) := x in (c, w)) g0)).
  { intros g0 Hg0. rewrite Forall_forall in Hgs. destruct (Hgs g0 Hg0) as [_ H]. now apply parse_group. }
  clear -Ep. induction gs as [|g gs IH]; [reflexivity|].
  cbn [map res_map_all]. unfold bind. rewrite (Ep g (or_introl eq_refl)). rewrite IH; [reflexivity|].
  intros g0 Hg0. apply Ep. now right.
Qed.

Lemma strip_wf gs : sgroups_ok gs = true -> groups_wf (strip gs) = true.
Proof.
  intros Hok. apply sgroups_ok_unfold in Hok as [_ Hgs]. unfold groups_wf, strip.
  apply forallb_forall. intros g Hg. apply in_map_iff in Hg as (g0 & <- & Hg0).
  rewrite Forall_forall in Hgs. destruct (Hgs g0 Hg0) as [Hn _]. destruct g0; [congruence|reflexivity].
Qed.

(** the statement of the /ast operations: on the canonical strings of a structured version and range the model of
    vers.IsCompatible / vers.Check is "the range holds" in the precedence order of the standard *)
Theorem IsCompatible_print v gs : wf_version v = true -> sgroups_ok gs = true ->
  IsCompatible (version_string v) (map group_string gs) = Some (range_holds (strip gs) v).
Proof.
  intros Hv Hg. apply IsCompatible_valid; [now apply Parse_print|now apply range_groups_print|now apply strip_wf].
Qed.

Theorem Check_print dbg v gs : wf_version v = true -> sgroups_ok gs = true ->
  Check dbg (version_string v) (map group_string gs) = Some (range_holds (strip gs) v).
Proof.
  intros Hv Hg. apply Check_valid; [now apply Parse_print|now apply range_groups_print|now apply strip_wf].
Qed.

(** the elements of spec are alternatives: on canonical strings, appending spec lists is disjunction *)
Lemma range_holds_app a b v : range_holds (a ++ b) v = range_holds a v || range_holds b v.
Proof. unfold range_holds. apply existsb_app. Qed.

Lemma strip_app a b : strip (a ++ b) = strip a ++ strip b.
Proof. unfold strip. apply map_app. Qed.

Lemma sgroups_ok_app a b : sgroups_ok a = true -> sgroups_ok b = true -> sgroups_ok (a ++ b) = true.
Proof.
  unfold sgroups_ok. intros Ha Hb. apply andb_true_iff in Ha as [Hna Ha]. apply andb_true_iff in Hb as [_ Hb].
  apply andb_true_iff. split; [destruct a; [discriminate|reflexivity]|]. rewrite forallb_app. now rewrite Ha, Hb.
Qed.

Theorem IsCompatible_alternatives v a b : wf_version v = true -> sgroups_ok a = true -> sgroups_ok b = true ->
  IsCompatible (version_string v) (map group_string a ++ map group_string b) =
  match IsCompatible (version_string v) (map group_string a), IsCompatible (version_string v) (map group_string b) with
  | Some x, Some y => Some (x || y)
  | _, _ => None
  end.
Proof.
  intros Hv Ha Hb. rewrite <- map_app.
  rewrite (IsCompatible_print v (a ++ b) Hv (sgroups_ok_app a b Ha Hb)), (IsCompatible_print v a Hv Ha), (IsCompatible_print v b Hv Hb).
  now rewrite strip_app, range_holds_app.
Qed.

Theorem Check_agrees v gs dbg : wf_version v = true -> sgroups_ok gs = true ->
  Check dbg (version_string v) (map group_string gs) = IsCompatible (version_string v) (map group_string gs).
Proof. intros Hv Hg. now rewrite Check_print, IsCompatible_print. Qed.
