(** Proofs for C15 (TailBitmap): histories.

    The state-level lemmas of Proofs/TailBitmapProofs.v lifted by induction
    over [run] to every state reachable from [NewTailBitmap o] by any list of
    Set / Compact / Get / Get1 calls: the invariant, monotonicity of Offset and
    of the end, the value of every probe, "Compact changes no Get result",
    and the bulk loops of the harness as iterated [Set_]. *)
From Coq Require Import ZArith List Bool Lia.
From Low Require Import Lib.MachInt Lib.Bits Lib.BitSeq Model.TailBitmap Spec.TailBitmapInv
  Proofs.TailBitmapProofs.
Import ListNotations.
Open Scope Z_scope.

(** the indices set by a history *)
Definition was_set (ops : list op) (j : Z) : Prop := In (OSet j) ops.

Definition op_sets (p : op) (j : Z) : Prop :=
  match p with OSet i => j = i | _ => False end.

(** what one call may do to the exported state *)
Record Mono (P' : Z -> Prop) (s s' : tb) : Prop := mkMono {
  mo_off : Offset s <= Offset s';
  mo_end : end_of s <= end_of s';
  mo_passed : forall j, Offset s <= j < Offset s' -> P' j
}.

Lemma Mono_refl P s : Mono P s s.
Proof. constructor; try lia. Qed.

Lemma Mono_trans (P Q R : Z -> Prop) s1 s2 s3 :
  (forall j, P j -> R j) -> (forall j, Q j -> R j) ->
  Mono P s1 s2 -> Mono Q s2 s3 -> Mono R s1 s3.
Proof.
  intros HP HQ A B. constructor.
  - pose proof (mo_off _ _ _ A). pose proof (mo_off _ _ _ B). lia.
  - pose proof (mo_end _ _ _ A). pose proof (mo_end _ _ _ B). lia.
  - intros j Hj. destruct (Z_lt_le_dec j (Offset s2)).
    + apply HP. apply (mo_passed _ _ _ A). lia.
    + apply HQ. apply (mo_passed _ _ _ B). lia.
Qed.

(** ** one call *)

Lemma step_Inv st o P s p s' r : Inv st o P s -> step s p = Some (s', r) ->
  Inv st o (fun j => P j \/ op_sets p j) s' /\ Mono (fun j => P j \/ op_sets p j) s s'.
Proof.
  intros H E. destruct p as [idx| |j|j]; cbn [step op_sets] in *.
  - destruct (Set_spec st o P s idx H) as (s1 & E1 & I1 & M1 & M2 & M3).
    rewrite E1 in E. inversion E; subst s' r. split; [exact I1|].
    constructor; assumption.
  - inversion E; subst s' r. destruct (Inv_Compact st o P s H) as (I1 & M1 & M2 & M3).
    split.
    + eapply Inv_ext; [|exact (Inv_weaken True st o P _ (fun _ => Logic.I) I1)]. intros j. tauto.
    + constructor; [exact M1|lia|]. intros j Hj. left. apply M3. exact Hj.
  - destruct (Get s j); [|discriminate]. inversion E; subst s' r. split.
    + eapply Inv_ext; [|exact H]. intros k. tauto.
    + apply Mono_refl.
  - destruct (Get1 s j); [|discriminate]. inversion E; subst s' r. split.
    + eapply Inv_ext; [|exact H]. intros k. tauto.
    + apply Mono_refl.
Qed.

(** Set and Compact never panic (no hypothesis on the state is needed for Compact;
    Set needs none either, but the proof goes through the invariant's word arithmetic) *)
Lemma Set_total st o P s idx : Inv st o P s -> Set_ s idx <> None.
Proof.
  intros H. destruct (Set_spec st o P s idx H) as (s1 & E1 & _). congruence.
Qed.

(** ** whole histories *)

Lemma run_Inv st o : forall ops P s s' rs, Inv st o P s -> run s ops = Some (s', rs) ->
  Inv st o (fun j => P j \/ was_set ops j) s' /\ Mono (fun j => P j \/ was_set ops j) s s' /\
  length rs = length ops.
Proof.
  induction ops as [|p t IH]; intros P s s' rs H E; cbn [run] in E.
  - inversion E; subst s' rs. split; [|split; [apply Mono_refl|reflexivity]].
    eapply Inv_ext; [|exact H]. intros j. unfold was_set. cbn [In]. tauto.
  - destruct (step s p) as [[s1 r]|] eqn:E1; [|discriminate].
    destruct (run s1 t) as [[s2 rs2]|] eqn:E2; [|discriminate].
    inversion E; subst s' rs.
    destruct (step_Inv st o P s p s1 r H E1) as [I1 M1].
    destruct (IH _ _ _ _ I1 E2) as (I2 & M2 & L2).
    assert (Hiff : forall j, ((P j \/ op_sets p j) \/ was_set t j) <-> (P j \/ was_set (p :: t) j)).
    { intros j. unfold was_set. cbn [In]. destruct p; cbn [op_sets]; split; intros A.
      - destruct A as [[A|A]|A]; [left; exact A|right; left; congruence|right; right; exact A].
      - destruct A as [A|[A|A]]; [left; left; exact A|left; right; congruence|right; exact A].
      - destruct A as [[A|[]]|A]; [left; exact A|right; right; exact A].
      - destruct A as [A|[A|A]]; [left; left; exact A|discriminate|right; exact A].
      - destruct A as [[A|[]]|A]; [left; exact A|right; right; exact A].
      - destruct A as [A|[A|A]]; [left; left; exact A|discriminate|right; exact A].
      - destruct A as [[A|[]]|A]; [left; exact A|right; right; exact A].
      - destruct A as [A|[A|A]]; [left; left; exact A|discriminate|right; exact A]. }
    split; [|split].
    + eapply Inv_ext; [exact Hiff|exact I2].
    + eapply Mono_trans; [| |exact M1|exact M2].
      * intros j A. apply Hiff. left. exact A.
      * intros j A. apply Hiff. exact A.
    + cbn [length]. congruence.
Qed.

Lemma run_app : forall a b s,
  run s (a ++ b) =
  match run s a with
  | Some (s1, r1) => match run s1 b with Some (s2, r2) => Some (s2, r1 ++ r2) | None => None end
  | None => None
  end.
Proof.
  induction a as [|p t IH]; intros b s; cbn [app run].
  - destruct (run s b) as [[s2 r2]|]; reflexivity.
  - destruct (step s p) as [[s1 r]|]; [|reflexivity].
    rewrite IH. destruct (run s1 t) as [[s2 r2]|]; [|reflexivity].
    destruct (run s2 b) as [[s3 r3]|]; reflexivity.
Qed.

(** every reachable state satisfies the invariant for the set of indices set so far *)
Lemma reach_Inv o ops s rs : o mod 64 = 0 -> run (NewTailBitmap o) ops = Some (s, rs) ->
  Inv True o (was_set ops) s.
Proof.
  intros Ho E. destruct (run_Inv True o ops _ _ _ _ (Inv_New True o Ho) E) as (I & _ & _).
  eapply Inv_ext; [|exact I]. intros j. tauto.
Qed.

Lemma reach_TInv o ops s rs : o mod 64 = 0 -> run (NewTailBitmap o) ops = Some (s, rs) ->
  TInv o (was_set ops) (Offset s) (Words s).
Proof. intros Ho E. apply (Inv_TInv True); [exact Logic.I|]. eapply reach_Inv; eassumption. Qed.

(** Offset and the end never decrease along a history, and Offset only moves past set positions *)
Lemma reach_mono o ops1 ops2 s1 rs1 s2 rs2 : o mod 64 = 0 ->
  run (NewTailBitmap o) ops1 = Some (s1, rs1) -> run s1 ops2 = Some (s2, rs2) ->
  Offset s1 <= Offset s2 /\
  tb_end (Offset s1) (Words s1) <= tb_end (Offset s2) (Words s2) /\
  (forall j, Offset s1 <= j < Offset s2 -> was_set (ops1 ++ ops2) j) /\
  run (NewTailBitmap o) (ops1 ++ ops2) = Some (s2, rs1 ++ rs2).
Proof.
  intros Ho E1 E2. pose proof (reach_Inv o ops1 s1 rs1 Ho E1) as I1.
  destruct (run_Inv True o ops2 _ _ _ _ I1 E2) as (_ & M & _).
  split; [apply M|]. split; [apply M|]. split.
  - intros j Hj. apply (mo_passed _ _ _ M) in Hj. unfold was_set in *.
    apply in_or_app. exact Hj.
  - rewrite run_app, E1, E2. reflexivity.
Qed.

(** Get1 = membership, Get = that bit at position j mod 64, for every j below the end *)
Lemma reach_Get o ops s rs j (m : bool) : o mod 64 = 0 ->
  run (NewTailBitmap o) ops = Some (s, rs) ->
  j < tb_end (Offset s) (Words s) ->
  (m = true <-> j < o \/ was_set ops j) ->
  Get1 s j = Some (Z.b2z m) /\ Get s j = Some (Z.shiftl (Z.b2z m) (j mod 64)).
Proof.
  intros Ho E Hj Hm. eapply Get_spec; [eapply reach_Inv; eassumption|exact Hj|exact Hm].
Qed.

(** Get/Get1 are defined exactly below the end *)
Lemma reach_Get_defined o ops s rs j : o mod 64 = 0 ->
  run (NewTailBitmap o) ops = Some (s, rs) ->
  (Get s j <> None <-> j < tb_end (Offset s) (Words s)) /\
  (Get1 s j <> None <-> j < tb_end (Offset s) (Words s)).
Proof.
  intros Ho E. pose proof (reach_Inv o ops s rs Ho E) as I.
  assert (Hdec : forall P : Prop, P \/ ~ P -> exists m : bool, m = true <-> P).
  { intros P [A|A]; [exists true; tauto|exists false; split; [discriminate|tauto]]. }
  destruct (Z_lt_le_dec j (end_of s)) as [Hlt|Hge].
  - assert (Hm : exists m : bool, m = true <-> j < o \/ was_set ops j).
    { destruct (Z_lt_le_dec j (Offset s)) as [Hb|Hb].
      - exists true. split; [intros _; apply (inv_below _ _ _ _ I); exact Hb|reflexivity].
      - pose proof (Inv_TInvW _ _ _ _ I) as T.
        exists (bitz (flat (Words s)) (j - Offset s)).
        rewrite (tw_bits _ _ _ _ T j) by (split; [lia|exact Hlt]).
        pose proof (inv_ge _ _ _ _ I). split; [tauto|]. intros [A|A]; [lia|exact A]. }
    destruct Hm as [m Hm].
    destruct (Get_spec True o _ s j m I Hlt Hm) as [G1 G]. rewrite G1, G.
    unfold end_of in Hlt. split; (split; [intros _; exact Hlt|discriminate]).
  - assert (Hoff : Offset s <= j).
    { unfold end_of, tb_end, zlen in Hge. lia. }
    destruct (Get_out s j Hoff Hge) as [G G1]. rewrite G, G1.
    unfold end_of in Hge. split; (split; [congruence|lia]).
Qed.

(** Compact changes no Get / Get1 result (and not the end) *)
Lemma reach_Compact o ops s rs : o mod 64 = 0 ->
  run (NewTailBitmap o) ops = Some (s, rs) ->
  tb_end (Offset (Compact s)) (Words (Compact s)) = tb_end (Offset s) (Words s) /\
  forall j, Get (Compact s) j = Get s j /\ Get1 (Compact s) j = Get1 s j.
Proof.
  intros Ho E. pose proof (reach_Inv o ops s rs Ho E) as I.
  destruct (Inv_Compact True o _ s I) as (IC & M1 & M2 & M3).
  split; [exact M2|]. intros j.
  destruct (Z_lt_le_dec j (end_of s)) as [Hlt|Hge].
  - assert (Hm : exists m : bool, m = true <-> j < o \/ was_set ops j).
    { destruct (Z_lt_le_dec j (Offset s)) as [Hb|Hb].
      - exists true. split; [intros _; apply (inv_below _ _ _ _ I); exact Hb|reflexivity].
      - pose proof (Inv_TInvW _ _ _ _ I) as T.
        exists (bitz (flat (Words s)) (j - Offset s)).
        rewrite (tw_bits _ _ _ _ T j) by (split; [lia|exact Hlt]).
        pose proof (inv_ge _ _ _ _ I). split; [tauto|]. intros [A|A]; [lia|exact A]. }
    destruct Hm as [m Hm].
    destruct (Get_spec True o _ s j m I Hlt Hm) as [G1 G].
    assert (Hlt' : j < end_of (Compact s)) by (rewrite M2; exact Hlt).
    destruct (Get_spec True o _ (Compact s) j m IC Hlt' Hm) as [G1' G'].
    rewrite G1, G, G1', G'. split; reflexivity.
  - assert (Hoff : Offset (Compact s) <= j).
    { rewrite <- M2 in Hge. unfold end_of, tb_end, zlen in Hge. lia. }
    destruct (Get_out s j ltac:(lia) Hge) as [G G1].
    rewrite <- M2 in Hge.
    destruct (Get_out (Compact s) j Hoff Hge) as [G' G1'].
    rewrite G, G1, G', G1'. split; reflexivity.
Qed.

(** the result recorded for the k-th call of a history, when it is a probe *)
Lemma run_nth : forall ops s s' rs k p, run s ops = Some (s', rs) -> nth_error ops k = Some p ->
  exists s1 rs1 s2 r, run s (firstn k ops) = Some (s1, rs1) /\ step s1 p = Some (s2, r) /\
                      nth_error rs k = Some r.
Proof.
  induction ops as [|q t IH]; intros s s' rs k p E Hk.
  - destruct k; discriminate.
  - cbn [run] in E. destruct (step s q) as [[s1 r]|] eqn:E1; [|discriminate].
    destruct (run s1 t) as [[s2 rs2]|] eqn:E2; [|discriminate].
    inversion E; subst s' rs. destruct k as [|k]; cbn [nth_error firstn] in *.
    + inversion Hk; subst q. exists s, [], s1, r. cbn [run]. auto.
    + destruct (IH _ _ _ _ _ E2 Hk) as (sa & rsa & sb & rb & A & B & C).
      exists sa, (r :: rsa), sb, rb. cbn [run]. rewrite E1, A. auto.
Qed.

Lemma reach_probe o ops s rs k j (m : bool) : o mod 64 = 0 ->
  run (NewTailBitmap o) ops = Some (s, rs) ->
  (m = true <-> j < o \/ was_set (firstn k ops) j) ->
  (nth_error ops k = Some (OGet1 j) -> nth_error rs k = Some (Z.b2z m)) /\
  (nth_error ops k = Some (OGet j) -> nth_error rs k = Some (Z.shiftl (Z.b2z m) (j mod 64))).
Proof.
  intros Ho E Hm. split; intros Hk.
  - destruct (run_nth _ _ _ _ _ _ E Hk) as (s1 & rs1 & s2 & r & A & B & C).
    rewrite C. cbn [step] in B. destruct (Get1 s1 j) as [v|] eqn:G; [|discriminate].
    inversion B; subst s2 r.
    destruct (reach_Get_defined o _ s1 rs1 j Ho A) as [_ D].
    assert (Hlt : j < tb_end (Offset s1) (Words s1)) by (apply D; congruence).
    destruct (reach_Get o _ s1 rs1 j m Ho A Hlt Hm) as [G1 _]. congruence.
  - destruct (run_nth _ _ _ _ _ _ E Hk) as (s1 & rs1 & s2 & r & A & B & C).
    rewrite C. cbn [step] in B. destruct (Get s1 j) as [v|] eqn:G; [|discriminate].
    inversion B; subst s2 r.
    destruct (reach_Get_defined o _ s1 rs1 j Ho A) as [D _].
    assert (Hlt : j < tb_end (Offset s1) (Words s1)) by (apply D; congruence).
    destruct (reach_Get o _ s1 rs1 j m Ho A Hlt Hm) as [_ G1]. congruence.
Qed.

(** a history whose probes are all below the end at their time runs to completion *)
Lemma step_total st o P s p : Inv st o P s ->
  (forall j, p = OGet j \/ p = OGet1 j -> j < end_of s) -> step s p <> None.
Proof.
  intros H Hp. destruct p as [idx| |j|j]; cbn [step].
  - destruct (Set_spec st o P s idx H) as (s1 & E1 & _). rewrite E1. discriminate.
  - discriminate.
  - assert (Hlt : j < end_of s) by (apply Hp; left; reflexivity).
    destruct (Z_lt_le_dec j (Offset s)) as [Hb|Hb].
    + unfold Get. destruct (Z.ltb_spec j (Offset s)); [discriminate|lia].
    + unfold Get. destruct (Z.ltb_spec j (Offset s)); [discriminate|]. cbv zeta.
      rewrite shiftr6.
      assert (R : 0 <= (j - Offset s) / 64 < zlen (Words s)).
      { split; [apply Z.div_pos; lia|]. apply Z.div_lt_upper_bound; [lia|].
        unfold end_of, tb_end in Hlt. lia. }
      destruct (nthZ_in_range _ _ R) as [w ->]. discriminate.
  - assert (Hlt : j < end_of s) by (apply Hp; right; reflexivity).
    unfold Get1. destruct (Z.ltb_spec j (Offset s)); [discriminate|]. cbv zeta.
    rewrite shiftr6.
    assert (R : 0 <= (j - Offset s) / 64 < zlen (Words s)).
    { split; [apply Z.div_pos; lia|]. apply Z.div_lt_upper_bound; [lia|].
      unfold end_of, tb_end in Hlt. lia. }
    destruct (nthZ_in_range _ _ R) as [w ->]. discriminate.
Qed.

(** ** the bulk loops of the harness are iterated Set *)

Fixpoint zrange_up (a : Z) (n : nat) : list Z :=
  match n with O => [] | S k => a :: zrange_up (a + 1) k end.
Fixpoint zrange_down (a : Z) (n : nat) : list Z :=
  match n with O => [] | S k => a :: zrange_down (a - 1) k end.

Lemma set_up_run : forall n s idx,
  set_up n s idx = option_map fst (run s (map OSet (zrange_up idx n))).
Proof.
  induction n as [|n IH]; intros s idx; cbn [set_up zrange_up map run step]; [reflexivity|].
  destruct (Set_ s idx) as [s1|]; [|reflexivity]. rewrite IH.
  destruct (run s1 (map OSet (zrange_up (idx + 1) n))) as [[s2 rs]|]; reflexivity.
Qed.

Lemma set_down_run : forall n s idx,
  set_down n s idx = option_map fst (run s (map OSet (zrange_down idx n))).
Proof.
  induction n as [|n IH]; intros s idx; cbn [set_down zrange_down map run step]; [reflexivity|].
  destruct (Set_ s idx) as [s1|]; [|reflexivity]. rewrite IH.
  destruct (run s1 (map OSet (zrange_down (idx - 1) n))) as [[s2 rs]|]; reflexivity.
Qed.

Lemma zrange_up_In : forall n a j, In j (zrange_up a n) <-> a <= j < a + Z.of_nat n.
Proof.
  induction n as [|n IH]; intros a j; cbn [zrange_up In]; [lia|].
  rewrite IH. lia.
Qed.

Lemma zrange_down_In : forall n a j, In j (zrange_down a n) <-> a - Z.of_nat n < j <= a.
Proof.
  induction n as [|n IH]; intros a j; cbn [zrange_down In]; [lia|].
  rewrite IH. lia.
Qed.

Lemma was_set_map_OSet l j : was_set (map OSet l) j <-> In j l.
Proof.
  unfold was_set. rewrite in_map_iff. split.
  - intros (x & E & Hx). inversion E; subst. exact Hx.
  - intros Hj. exists j. auto.
Qed.

Lemma run_sets_total st o : forall l P s, Inv st o P s -> exists s' rs, run s (map OSet l) = Some (s', rs).
Proof.
  induction l as [|i t IH]; intros P s H; cbn [map run].
  - eauto.
  - cbn [step]. destruct (Set_spec st o P s i H) as (s1 & E1 & I1 & _). rewrite E1.
    destruct (IH _ _ I1) as (s2 & rs & E2). rewrite E2. eauto.
Qed.

Lemma set_up_Inv st o P n s idx : Inv st o P s ->
  exists s', set_up n s idx = Some s' /\
    Inv st o (fun j => P j \/ idx <= j < idx + Z.of_nat n) s' /\
    Mono (fun j => P j \/ idx <= j < idx + Z.of_nat n) s s'.
Proof.
  intros H. rewrite set_up_run.
  destruct (run_sets_total st o (zrange_up idx n) P s H) as (s' & rs & E). rewrite E.
  exists s'. split; [reflexivity|].
  destruct (run_Inv st o _ _ _ _ _ H E) as (I & M & _).
  assert (Hiff : forall j, (P j \/ was_set (map OSet (zrange_up idx n)) j) <->
                           (P j \/ idx <= j < idx + Z.of_nat n)).
  { intros j. rewrite was_set_map_OSet, zrange_up_In. tauto. }
  split.
  - eapply Inv_ext; [exact Hiff|exact I].
  - constructor; try apply M. intros j Hj. apply Hiff. apply (mo_passed _ _ _ M). exact Hj.
Qed.

Lemma set_down_Inv st o P n s idx : Inv st o P s ->
  exists s', set_down n s idx = Some s' /\
    Inv st o (fun j => P j \/ idx - Z.of_nat n < j <= idx) s' /\
    Mono (fun j => P j \/ idx - Z.of_nat n < j <= idx) s s'.
Proof.
  intros H. rewrite set_down_run.
  destruct (run_sets_total st o (zrange_down idx n) P s H) as (s' & rs & E). rewrite E.
  exists s'. split; [reflexivity|].
  destruct (run_Inv st o _ _ _ _ _ H E) as (I & M & _).
  assert (Hiff : forall j, (P j \/ was_set (map OSet (zrange_down idx n)) j) <->
                           (P j \/ idx - Z.of_nat n < j <= idx)).
  { intros j. rewrite was_set_map_OSet, zrange_down_In. tauto. }
  split.
  - eapply Inv_ext; [exact Hiff|exact I].
  - constructor; try apply M. intros j Hj. apply Hiff. apply (mo_passed _ _ _ M). exact Hj.
Qed.

(** ** two corollaries in the words of the property *)

Lemma reach_set_below_end o ops s rs idx : o mod 64 = 0 ->
  run (NewTailBitmap o) ops = Some (s, rs) -> In (OSet idx) ops ->
  idx < tb_end (Offset s) (Words s).
Proof.
  intros Ho E Hin. apply (ti_end _ _ _ _ (reach_TInv o ops s rs Ho E)). exact Hin.
Qed.

Lemma reach_no_panic o ops s rs : o mod 64 = 0 ->
  run (NewTailBitmap o) ops = Some (s, rs) ->
  forall p, (forall j, p = OGet j \/ p = OGet1 j -> j < tb_end (Offset s) (Words s)) ->
  step s p <> None.
Proof.
  intros Ho E p Hp. eapply step_total; [eapply reach_Inv; eassumption|exact Hp].
Qed.
