(** C18 widening, cross-package, part 2: pbcmpl.Marshal through
    iohelper.AtToWriter(f, off) leaves exactly the frame at [off]; read back
    through iohelper.AtToReader(f, off) it returns the message, whatever else
    the file holds. *)
From Coq Require Import ZArith List Bool Lia.
From Low Require Import Lib.MachInt Lib.BitSeq Lib.Bytes
  Model.SectionWriter Spec.SectionWriterSpec Model.MemFile Model.SectionReader Spec.SectionReaderSpec
  Model.Pbcmpl Spec.PbcmplSpec Model.PbcmplFile Run.C18.
From Low Require Proofs.SectionWriterProofs Proofs.SectionWriterCalls Proofs.MemFileProofs
  Proofs.SectionIOProofs Proofs.PbcmplIO Proofs.PbcmplHeader Proofs.PbcmplProofs Proofs.PbcmplFrames
  Proofs.PbcmplMarshal Proofs.PbcmplFileProofs.
Import ListNotations.
Open Scope Z_scope.

Module SW := Proofs.SectionWriterProofs.
Module SC := Proofs.SectionWriterCalls.
Module MF := Proofs.MemFileProofs.
Module SIO := Proofs.SectionIOProofs.
Module PIO := Proofs.PbcmplIO.
Module PH := Proofs.PbcmplHeader.
Module PF := Proofs.PbcmplFrames.
Module PM := Proofs.PbcmplMarshal.
Module PFP := Proofs.PbcmplFileProofs.

(** * the writer: one Write with room, over a file that accepts everything *)
Lemma fwrite_ok o n s pos f p :
  SW.sec_ok o n -> SW.R o n s pos -> pos + zlen p < n ->
  exists s',
    fwrite (s, f) p = (zlen p, None, (s', write_at f (o + pos) p))
    /\ SW.R o n s' (pos + zlen p).
Proof.
  intros Hs HR Hroom.
  pose proof (SW.write_accounting_R o n s pos [] p Hs HR ltac:(constructor)) as HA.
  pose proof Hs as (Ho & Hn & Hon). pose proof HR as (Hb & Hl & Hoff & Hp & Hpm).
  unfold SW.write_accounting in HA. replace (off s - o) with pos in HA by lia.
  unfold fwrite. cbn [fst snd].
  destruct (Write s [] p) as [[s' sc'] r].
  pose proof (SW.zlen_nonneg p) as Hlp.
  destruct HA as [(Hge & _)|(_ & HA)]; [lia|].
  cbv zeta in HA. rewrite Z.min_l in HA by lia. rewrite SW.firstn_zlen in HA.
  cbn [under] in HA.
  destruct HA as (Hu & _ & Hoff' & Hb' & Hl' & _ & Hr).
  exists s'. split.
  - rewrite Hr. cbn [nth]. destruct (Z.ltb_spec (zlen p) (zlen p)); [lia|].
    unfold apply_out. rewrite Hu, Hr. cbn [fold_left nth]. unfold apply_ucall. cbn [fst snd].
    rewrite SW.firstn_zlen. reflexivity.
  - unfold SW.R. lia.
Qed.

Section Codec.
  Variable Msg : Type.
  Variable enc : Msg -> list Z.
  Variable dec : list Z -> option Msg.
  Variable grow : Z -> Z.
  Hypothesis Hgrow : forall c, 0 < c -> c < grow c.

  (** Marshal through AtToWriter(f, o): (32 + body length, nil), and the file holds the
      frame at o -- nothing else changed (see [write_at]) *)
  Theorem Marshal_file o f m ver :
    0 <= o -> zlen (ver_of ver) <= 16 -> o + 32 + zlen (enc m) < 2^63 - 1 ->
    exists s',
      Marshal enc fwrite (AtToWriter o, f) m ver
      = Some (32 + zlen (enc m), None, (s', write_at f o (frame (ver_of ver) (enc m)))).
  Proof.
    intros Ho Hv Hroom. pose proof (SW.zlen_nonneg (enc m)) as Hle.
    unfold Marshal.
    change (match ver with Some v => v | None => DefaultVer end) with (ver_of ver).
    unfold marshal. rewrite u64_id by lia.
    destruct (PH.newHeader_Marshal (ver_of ver) (zlen (enc m)) Hv) as (h & Hh & HhM).
    rewrite Hh, HhM.
    assert (Hs : SW.sec_ok o (max_int64 - o)) by (apply SC.at_to_writer_sec_ok; lia).
    assert (HR0 : SW.R o (max_int64 - o) (AtToWriter o) 0).
    { rewrite SW.AtToWriter_section by lia. now apply SW.R_new. }
    pose proof (PH.zlen_frame_header (ver_of ver) (zlen (enc m)) Hv) as Hhl.
    destruct (fwrite_ok o (max_int64 - o) (AtToWriter o) 0 f (frame_header (ver_of ver) (zlen (enc m))) Hs HR0)
      as (s1 & Hw1 & HR1); [unfold max_int64; lia|].
    rewrite Hw1. rewrite Hhl in HR1.
    destruct (fwrite_ok o (max_int64 - o) s1 (0 + 32) (write_at f (o + 0) (frame_header (ver_of ver) (zlen (enc m))))
                (enc m) Hs HR1) as (s2 & Hw2 & HR2); [unfold max_int64; lia|].
    rewrite Hw2. exists s2. f_equal. f_equal; [f_equal; rewrite Hhl; apply i64_id; lia|].
    f_equal. rewrite Z.add_0_r.
    replace (o + (0 + 32)) with (o + zlen (frame_header (ver_of ver) (zlen (enc m)))) by lia.
    rewrite MF.write_at_app by lia. reflexivity.
  Qed.

  Lemma bytes_ok_repeat0 k : bytes_ok (repeat 0 k).
  Proof. unfold bytes_ok. apply Forall_forall. intros x Hx. apply repeat_spec in Hx. subst. unfold byte_ok. lia. Qed.

  Lemma bytes_ok_write_at f a bs : bytes_ok f -> bytes_ok bs -> bytes_ok (write_at f a bs).
  Proof.
    intros Hf Hbs. destruct bs as [|b bs]; [exact Hf|]. rewrite MF.write_at_cons.
    apply PF.bytes_ok_app. split; [|apply PF.bytes_ok_app; split; [exact Hbs|now apply PH.bytes_ok_skipn]].
    apply PH.bytes_ok_firstn. unfold pad. apply PF.bytes_ok_app. split; [exact Hf|apply bytes_ok_repeat0].
  Qed.

  (** Unmarshal through AtToReader(g, o) of ANY file g that holds a frame at o *)
  Theorem Unmarshal_file_frame o g m v rest :
    0 <= o -> zlen v <= 16 -> no_trailing_nul v = true -> dec (enc m) = Some m ->
    bytes_ok g -> zlen g < 2^63 - 1 ->
    skipn (Z.to_nat o) g = frame v (enc m) ++ rest ->
    exists s',
      Unmarshal dec (fread_r g) grow (file_fuel g) (AtToReader o)
      = Some (32 + zlen (enc m), v, None, Some m, s').
  Proof.
    intros Ho Hv Hnul Hdec Hgb Hgl Hsk.
    assert (Hol : o <= 2^63 - 1).
    { destruct (Z.le_gt_cases o (zlen g)) as [|Hgt]; [lia|].
      rewrite skipn_all2 in Hsk by (unfold zlen in Hgt; lia).
      pose proof (PM.zlen_frame v (enc m) Hv) as Hfl.
      apply (f_equal (@zlen Z)) in Hsk. rewrite PIO.zlen_app, Hfl in Hsk.
      unfold zlen at 1 in Hsk. cbn [length Z.of_nat] in Hsk.
      pose proof (SW.zlen_nonneg (enc m)). pose proof (SW.zlen_nonneg rest). lia. }
    assert (Hbody : zlen (enc m) < 2^63).
    { apply (f_equal (@zlen Z)) in Hsk. rewrite PIO.zlen_app, (PM.zlen_frame v (enc m) Hv) in Hsk.
      assert (zlen (skipn (Z.to_nat o) g) <= zlen g) by (unfold zlen; rewrite skipn_length; lia).
      pose proof (SW.zlen_nonneg rest). lia. }
    destruct (PFP.Unmarshal_file_spec Msg dec grow Hgrow g o (file_fuel g) ltac:(lia) Hgl Hgb)
      as (n & ver & err & mm & s' & left & HU & HS).
    { unfold file_fuel. lia. }
    rewrite Hsk in HS.
    rewrite (PF.spec_Unmarshal_frame Msg dec EEOF v (enc m) rest PFP.t_eof m Hv Hnul Hbody Hdec) in HS.
    - inversion HS; subst. exists s'. exact HU.
    - unfold PF.term_ok, PFP.t_eof. cbn [t_with_last]. auto.
  Qed.

  (** Marshal through AtToWriter(f, o), then Unmarshal through AtToReader(., o): the message *)
  Theorem marshal_unmarshal_file o f m ver :
    0 <= o -> zlen (ver_of ver) <= 16 -> no_trailing_nul (ver_of ver) = true ->
    bytes_ok (ver_of ver) -> bytes_ok (enc m) -> bytes_ok f -> dec (enc m) = Some m ->
    o + 32 + zlen (enc m) < 2^63 - 1 -> zlen f < 2^63 - 1 ->
    exists sw' f',
      Marshal enc fwrite (AtToWriter o, f) m ver = Some (32 + zlen (enc m), None, (sw', f'))
      /\ f' = write_at f o (frame (ver_of ver) (enc m))
      /\ (forall i, 0 <= i -> (i < o \/ o + 32 + zlen (enc m) <= i) -> byte_at f' i = byte_at f i)
      /\ exists sr',
           Unmarshal dec (fread_r f') grow (file_fuel f') (AtToReader o)
           = Some (32 + zlen (enc m), ver_of ver, None, Some m, sr').
  Proof.
    intros Ho Hv Hnul Hvb Heb Hfb Hdec Hroom Hfl.
    destruct (Marshal_file o f m ver Ho Hv Hroom) as (sw' & HM).
    pose proof (PM.zlen_frame (ver_of ver) (enc m) Hv) as Hfrl.
    exists sw', (write_at f o (frame (ver_of ver) (enc m))). split; [exact HM|]. split; [reflexivity|].
    split.
    - intros i Hi Hout. apply MF.byte_at_write_at_outside; lia.
    - apply (Unmarshal_file_frame o _ m (ver_of ver) (skipn (Z.to_nat (o + zlen (frame (ver_of ver) (enc m)))) f));
        auto.
      + apply bytes_ok_write_at; [exact Hfb|]. apply PF.frame_bytes; assumption.
      + pose proof (MF.zlen_write_at_bounds f o (frame (ver_of ver) (enc m)) Ho). lia.
      + apply MF.skipn_write_at. lia.
  Qed.
End Codec.
