(** Proofs for C04 (Decode and the round trip), on top of
    Proofs/BmtreeAllPathsProofs.v (AllPaths = the stored words in pre-order),
    C03 (Proofs/BmtreeIndexProofs.v: PathToIndex of the k-th stored node is k)
    and C12 (Proofs/OfProofs.v: Of sets exactly the listed bits). *)
From Coq Require Import ZArith List Lia Bool Sorting.Sorted.
From Low Require Import Lib.MachInt Lib.Bits Lib.BitSeq Lib.Lex Lib.Bytes Lib.BitsExtra_tree
  Lib.BitsExtra_bm2 Lib.SortedZ_tree4 Spec.Bmtree Spec.AllPathsSpec Spec.OfSpec
  Model.BmtreePath Model.BmtreeIndex Model.BmtreeAllPaths Model.BitmapOf
  Proofs.BmtreePathProofs Proofs.BmtreeRankSpec Proofs.BmtreeIndexProofs Proofs.OfProofs
  Proofs.BmtreeAllPathsProofs.
Import ListNotations.
Open Scope Z_scope.

Lemma Height_to_nat T : 1 <= T < 2 ^ 31 -> Height T = Z.of_nat (Z.to_nat (Height T)).
Proof. intros HT. pose proof (Height_range T HT). lia. Qed.

(** every stored word has an index in [0, T) *)
Lemma stored_words_index T : 1 <= T < 2 ^ 31 ->
  forall w, In w (stored_words T (Z.to_nat (Height T))) ->
  exists idx, PathToIndex T w = Some idx /\ 0 <= idx < 2 ^ 31.
Proof.
  intros HT w Hw. apply stored_words_members in Hw. destruct Hw as (q & Hl & Hs & ->).
  destruct (PathToIndex_range T _ q HT (Height_to_nat T HT) Hl Hs) as (i & E & Hi).
  exists i. split; [exact E|lia].
Qed.

(** * Decode = the stored words whose PathToIndex bit is set (0 beyond the bitmap) *)
Lemma decode_by_index T bm : 1 <= T < 2 ^ 31 -> zlen bm < 2 ^ 31 ->
  Decode T bm = Some (filter (idx_bit T bm) (stored_words T (Z.to_nat (Height T)))).
Proof. intros HT Hl. apply decode_rel; [exact HT|exact Hl|apply stored_words_index, HT]. Qed.

(** * Decode = the stored words whose pre-order position is a 1-bit *)
Lemma stored_words_nth_index T k : 1 <= T < 2 ^ 31 ->
  (k < length (stored_words T (Z.to_nat (Height T))))%nat ->
  PathToIndex T (nth k (stored_words T (Z.to_nat (Height T))) 0) = Some (Z.of_nat k).
Proof.
  intros HT Hk. set (h := Z.to_nat (Height T)) in *.
  pose proof (stored_nodes_count_T T h HT (Height_to_nat T HT)) as Hc.
  unfold stored_words in *. rewrite map_length in Hk.
  rewrite <- (enc_nil h), map_nth.
  pose proof (PathToIndex_nth T h (Z.of_nat k) HT (Height_to_nat T HT) ltac:(lia)) as E.
  rewrite Nat2Z.id in E. exact E.
Qed.

Lemma decode_correct T bm : 1 <= T < 2 ^ 31 -> zlen bm < 2 ^ 31 ->
  Decode T bm = Some (spec_decode T (Z.to_nat (Height T)) bm).
Proof.
  intros HT Hl. rewrite decode_by_index by assumption. f_equal. unfold spec_decode.
  apply filter_select_by. intros k Hk. cbn [plus]. apply stored_words_nth_index; assumption.
Qed.

(** only the first T bits of the bitmap matter *)
Lemma select_by_length {A} bs : forall (l : list A) i,
  select_by bs i l = select_by (firstn (i + length l) bs) i l.
Proof.
  induction l as [|x l IH]; intros i; cbn [select_by length]; [reflexivity|].
  rewrite (IH (S i)). replace (S i + length l)%nat with (i + S (length l))%nat by lia.
  replace (nth i (firstn (i + S (length l)) bs) false) with (nth i bs false); [reflexivity|].
  destruct (Nat.lt_ge_cases i (length bs)) as [Hlt|Hge].
  - rewrite <- (firstn_skipn (i + S (length l)) bs) at 1. rewrite app_nth1; [reflexivity|].
    rewrite firstn_length. lia.
  - rewrite !nth_overflow; [reflexivity| |lia]. rewrite firstn_length. lia.
Qed.

Lemma decode_ignores_beyond T bm : 1 <= T < 2 ^ 31 -> zlen bm < 2 ^ 31 ->
  Decode T bm = Some (select_by (firstn (Z.to_nat T) (flat bm)) 0 (stored_words T (Z.to_nat (Height T)))).
Proof.
  intros HT Hl. rewrite decode_correct by assumption. unfold spec_decode. f_equal.
  rewrite select_by_length. cbn [plus]. do 2 f_equal.
  unfold stored_words. rewrite map_length.
  pose proof (stored_nodes_count_T T _ HT (Height_to_nat T HT)). lia.
Qed.

(** * round trip *)

Lemma sasc_iff_sorted l : sasc l <-> StronglySorted Z.lt l.
Proof.
  induction l as [|a l IH]; cbn [sasc]; split.
  - constructor.
  - trivial.
  - intros (F & S). constructor; [now apply IH|exact F].
  - intros H. inversion H; subst. split; [assumption|now apply IH].
Qed.

Lemma last_lt (l : list Z) d B : (forall p, In p l -> p < B) -> d < B -> last l d < B.
Proof.
  induction l as [|a l IH]; intros H Hd; cbn [last]; [exact Hd|].
  destruct l as [|b l]; [apply H; now left|]. apply IH; [intros p Hp; apply H; now right|exact Hd].
Qed.

(** a list of stored nodes in pre-order (a sub-list of [stored_nodes T h]) *)
Definition sub_nodes (T : Z) (h : nat) (ss : list node) : Prop :=
  StronglySorted pre_lt ss /\ forall q, In q ss -> (length q <= h)%nat /\ stored T q = true.

Lemma filter_sub_nodes T h f : sub_nodes T h (filter f (stored_nodes T h)).
Proof.
  split; [apply StronglySorted_filter, stored_nodes_sorted|].
  intros q Hq. apply filter_In in Hq. now apply stored_nodes_In.
Qed.

Lemma sub_nodes_indices T ss : 1 <= T < 2 ^ 31 -> sub_nodes T (Z.to_nat (Height T)) ss ->
  exists idxs, map (fun q => PathToIndex T (enc (Z.to_nat (Height T)) q)) ss = map Some idxs /\
               StronglySorted Z.lt idxs /\ (forall p, In p idxs -> 0 <= p < T).
Proof.
  intros HT. set (h := Z.to_nat (Height T)). pose proof (Height_to_nat T HT) as HH. fold h in HH.
  intros (Hs & Hin). induction Hs as [|q ss Hs IH Hq].
  - exists []. split; [reflexivity|]. split; [constructor|]. intros ? [].
  - destruct IH as (idxs & E & Si & Ri); [intros r Hr; apply Hin; now right|].
    destruct (Hin q (or_introl eq_refl)) as (Hlq & Hsq).
    destruct (PathToIndex_range T h q HT HH Hlq Hsq) as (i & Ei & Hi).
    exists (i :: idxs). cbn [map]. rewrite Ei, E. split; [reflexivity|]. split.
    + constructor; [exact Si|]. apply Forall_forall. intros j Hj.
      (* j is the index of some r in ss, and q is before r *)
      assert (Hjm : In (Some j) (map Some idxs)) by (apply in_map; exact Hj).
      rewrite <- E in Hjm. apply in_map_iff in Hjm. destruct Hjm as (r & Er & Hr).
      destruct (Hin r (or_intror Hr)) as (Hlr & Hsr).
      apply (PathToIndex_mono T h q r i j HT HH Hlq Hlr Hsq Hsr Ei Er).
      exact (proj1 (Forall_forall _ _) Hq r Hr).
    + intros p [<-|Hp]; [exact Hi|now apply Ri].
Qed.

(** a bitmap built by Of from positions below T < 2^31 has fewer than 2^31 words *)
Lemma of_words_small T idxs : 1 <= T < 2 ^ 31 -> (forall p, In p idxs -> 0 <= p < T) ->
  words_for (of_bits idxs None) < 2 ^ 31.
Proof.
  intros HT Ri. unfold words_for, of_bits.
  assert (Hb : match idxs with [] => 0 | _ :: _ => last idxs 0 + 1 end <= T).
  { destruct idxs as [|a l]; [lia|].
    pose proof (last_lt (a :: l) 0 T (fun p Hp => proj2 (Ri p Hp)) ltac:(lia)). lia. }
  change (2 ^ 31) with 2147483648 in *.
  apply Z.div_lt_upper_bound; lia.
Qed.

Lemma roundtrip_correct T ss idxs bm : 1 <= T < 2 ^ 31 ->
  sub_nodes T (Z.to_nat (Height T)) ss ->
  map (fun q => PathToIndex T (enc (Z.to_nat (Height T)) q)) ss = map Some idxs ->
  Of idxs None = Some bm ->
  Decode T bm = Some (map (enc (Z.to_nat (Height T))) ss).
Proof.
  intros HT Hsub Eidx EOf. set (h := Z.to_nat (Height T)) in *.
  pose proof (Height_to_nat T HT) as HH. fold h in HH.
  destruct (Height_spec T h HT HH) as (_ & Hh30).
  destruct (sub_nodes_indices T ss HT Hsub) as (idxs' & E' & Si & Ri). fold h in E'.
  assert (idxs' = idxs).
  { rewrite Eidx in E'. clear - E'. revert idxs' E'.
    induction idxs as [|a l IH]; intros [|b m] E; cbn [map] in E; try discriminate; [reflexivity|].
    injection E as -> E. f_equal. now apply IH. }
  subst idxs'.
  destruct (Of_ascending idxs None Si (fun p Hp => proj1 (Ri p Hp))) as (r & Er & _ & Hlen & Hones).
  rewrite EOf in Er. injection Er as <-.
  assert (Hl : zlen bm < 2 ^ 31) by (rewrite Hlen; exact (of_words_small T idxs HT Ri)).
  rewrite decode_by_index by assumption. fold h. f_equal.
  destruct Hsub as (Hss & Hin).
  apply sasc_ext.
  - apply sasc_filter, stored_words_sasc. lia.
  - apply sasc_iff_sorted. apply (StronglySorted_map_in pre_lt); [|exact Hss].
    intros x y Hx Hy Hlt. apply enc_lt_iff; [lia|apply Hin, Hx|apply Hin, Hy|exact Hlt].
  - intros w. rewrite filter_In, stored_words_members, in_map_iff. split.
    + intros ((q & Hlq & Hsq & ->) & Hb). unfold idx_bit in Hb.
      destruct (PathToIndex_range T h q HT HH Hlq Hsq) as (i & Ei & Hi). rewrite Ei in Hb.
      assert (Hii : In i idxs) by (rewrite <- Hones; apply ones_In_bitz; split; [lia|exact Hb]).
      assert (Him : In (Some i) (map Some idxs)) by (apply in_map; exact Hii).
      rewrite <- Eidx in Him. apply in_map_iff in Him. destruct Him as (r & Er & Hr).
      destruct (Hin r Hr) as (Hlr & Hsr).
      assert (q = r) by (apply (PathToIndex_inj T h q r HT HH Hlq Hlr Hsq Hsr); congruence).
      subst r. exists q. split; [reflexivity|exact Hr].
    + intros (q & <- & Hq). destruct (Hin q Hq) as (Hlq & Hsq). split.
      * exists q. repeat split; assumption.
      * unfold idx_bit.
        destruct (PathToIndex_range T h q HT HH Hlq Hsq) as (i & Ei & Hi). rewrite Ei.
        assert (Him : In (Some i) (map Some idxs)).
        { rewrite <- Eidx, <- Ei. apply (in_map (fun q => PathToIndex T (enc h q))). exact Hq. }
        apply in_map_iff in Him. destruct Him as (i' & Ei' & Hi'). injection Ei' as ->.
        rewrite <- Hones in Hi'. apply ones_In_bitz in Hi'. tauto.
Qed.

(** the whole composition never panics and returns the words of the sub-list *)
Lemma roundtrip_total T ss : 1 <= T < 2 ^ 31 -> sub_nodes T (Z.to_nat (Height T)) ss ->
  exists idxs bm,
    map (fun q => PathToIndex T (enc (Z.to_nat (Height T)) q)) ss = map Some idxs /\
    Of idxs None = Some bm /\
    Decode T bm = Some (map (enc (Z.to_nat (Height T))) ss).
Proof.
  intros HT Hsub. destruct (sub_nodes_indices T ss HT Hsub) as (idxs & E & Si & Ri).
  destruct (Of_ascending idxs None Si (fun p Hp => proj1 (Ri p Hp))) as (bm & EOf & _).
  exists idxs, bm. split; [exact E|]. split; [exact EOf|].
  exact (roundtrip_correct T ss idxs bm HT Hsub E EOf).
Qed.

(** "any subset": every filter of the stored nodes *)
Lemma roundtrip_filter T f : 1 <= T < 2 ^ 31 ->
  let h := Z.to_nat (Height T) in
  let ss := filter f (stored_nodes T h) in
  exists idxs bm,
    map (fun q => PathToIndex T (enc h q)) ss = map Some idxs /\
    Of idxs None = Some bm /\ Decode T bm = Some (map (enc h) ss).
Proof. intros HT h ss. apply roundtrip_total; [exact HT|apply filter_sub_nodes]. Qed.

Lemma roundtrip_bm_len T ss idxs bm : 1 <= T < 2 ^ 31 ->
  sub_nodes T (Z.to_nat (Height T)) ss ->
  map (fun q => PathToIndex T (enc (Z.to_nat (Height T)) q)) ss = map Some idxs ->
  Of idxs None = Some bm -> zlen bm < 2 ^ 31.
Proof.
  intros HT Hsub Eidx EOf.
  destruct (sub_nodes_indices T ss HT Hsub) as (idxs' & E' & Si & Ri).
  assert (idxs' = idxs).
  { rewrite Eidx in E'. clear - E'. revert idxs' E'.
    induction idxs as [|a l IH]; intros [|b m] E; cbn [map] in E; try discriminate; [reflexivity|].
    injection E as -> E. f_equal. now apply IH. }
  subst idxs'.
  destruct (Of_ascending idxs None Si (fun p Hp => proj1 (Ri p Hp))) as (r & Er & _ & Hlen & _).
  rewrite EOf in Er. injection Er as <-. rewrite Hlen. exact (of_words_small T idxs HT Ri).
Qed.
