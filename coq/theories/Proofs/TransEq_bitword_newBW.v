(** Equality of the definition generated from the Go source of bitword.newBW (coq/gen/Trans.v) and the model. *)
From Coq Require Import ZArith List Lia Bool.
From Low Require Import Lib.MachInt Lib.Bits Lib.BitSeq Lib.TransLib Proofs.TransEqLemmas.
From Low Require Model.Bitword.
From LowGen Require Trans.
Import ListNotations.
Open Scope Z_scope.

(** [8 / n] panics for n = 0; for a positive width the record of the model (Go's truncated division is the floor
    division there; [1 << uint(n)] on a byte is 0 from n = 8 on, as is [2^n mod 256]) *)
Lemma TransEq_bitword_newBW n : 0 < n < 2 ^ 63 -> Trans.bitword_newBW n = Some (Bitword.newBW n).
Proof.
  intros Hn. unfold Trans.bitword_newBW, Bitword.newBW. cbv zeta.
  destruct (Z.eqb_spec n 0); [lia|]. cbn [Bitword.width Bitword.byteCap Bitword.wordMask].
  rewrite Z.quot_div_nonneg by lia.
  assert (0 <= 8 / n <= 8).
  { split; [apply Z.div_pos; lia|]. apply Z.div_le_upper_bound; nia. }
  rewrite (i64_id (8 / n)) by lia. rewrite (u64_id n) by lia.
  f_equal. f_equal. f_equal. unfold shl8.
  destruct (Z.ltb_spec n 8); [reflexivity|].
  unfold u8. replace n with (8 + (n - 8)) by lia. rewrite Z.pow_add_r by lia.
  rewrite Z.mul_1_l, Z.mul_comm, Z_mod_mult. reflexivity.
Qed.
