(** Proofs for C14: Join / Getw / Slice of Model/BitmapJoin.v against Spec/JoinSpec.v.
    Route: every statement about [flat] is reduced to single positions ([tb]);
    the loops are characterised by "bit p of the result = bit p before || the bit
    this part of the loop is responsible for". *)
From Coq Require Import ZArith List Lia Bool.
From Low Require Import Lib.MachInt Lib.Bits Lib.BitSeq Lib.BitsExtra_bm2 Lib.BitsExtra_bm14
  Model.BitmapUtil Model.BitmapJoin Spec.JoinSpec.
Import ListNotations.
Open Scope Z_scope.

(** * bit [q] of the packed values *)
Definition pbit (vs : list Z) (w q : Z) : bool :=
  (0 <=? q) && (q <? zlen vs * w) && Z.testbit (nth (Z.to_nat (q / w)) vs 0) (q mod w).

Lemma zlen_cons {A} (a : A) l : zlen (a :: l) = zlen l + 1.
Proof. unfold zlen. cbn [length]. lia. Qed.

Lemma zlen_nonneg {A} (l : list A) : 0 <= zlen l.
Proof. unfold zlen. lia. Qed.

Lemma pbit_nil w q : pbit [] w q = false.
Proof.
  unfold pbit. change (zlen (@nil Z)) with 0. rewrite Z.mul_0_l.
  destruct (Z.leb_spec 0 q), (Z.ltb_spec q 0); try reflexivity; lia.
Qed.

Lemma pbit_cons e t w q : 0 < w ->
  pbit (e :: t) w q = if (0 <=? q) && (q <? w) then Z.testbit e q else pbit t w (q - w).
Proof.
  intros Hw. unfold pbit. rewrite zlen_cons. pose proof (zlen_nonneg t) as Ht.
  destruct (Z.leb_spec 0 q) as [H0|H0]; cbn [andb].
  - destruct (Z.ltb_spec q w) as [H1|H1]; cbn [andb].
    + rewrite Z.div_small, Z.mod_small by lia. cbn [Z.to_nat nth].
      destruct (Z.ltb_spec q ((zlen t + 1) * w)); [reflexivity|nia].
    + assert (Hd : q / w = (q - w) / w + 1).
      { replace q with ((q - w) + 1 * w) at 1 by lia. now rewrite Z.div_add by lia. }
      assert (Hm : q mod w = (q - w) mod w).
      { replace q with ((q - w) + 1 * w) at 1 by lia. now rewrite Z.mod_add by lia. }
      assert (0 <= (q - w) / w) by (apply Z.div_pos; lia).
      rewrite Hd, Hm. replace (Z.to_nat ((q - w) / w + 1)) with (S (Z.to_nat ((q - w) / w))) by lia.
      cbn [nth].
      destruct (Z.leb_spec 0 (q - w)); [|lia]. cbn [andb].
      destruct (Z.ltb_spec q ((zlen t + 1) * w)), (Z.ltb_spec (q - w) (zlen t * w)); try reflexivity; nia.
  - destruct (Z.leb_spec 0 (q - w)); [lia|]. reflexivity.
Qed.

Lemma pbit_elem vs w i t : 0 < w -> 0 <= i < zlen vs -> 0 <= t < w ->
  pbit vs w (i * w + t) = Z.testbit (nth (Z.to_nat i) vs 0) t.
Proof.
  intros Hw Hi Ht. unfold pbit.
  assert (Hd : (i * w + t) / w = i).
  { rewrite Z.add_comm, Z.div_add by lia. rewrite Z.div_small by lia. lia. }
  assert (Hm : (i * w + t) mod w = t).
  { rewrite Z.add_comm, Z.mod_add by lia. apply Z.mod_small. lia. }
  rewrite Hd, Hm.
  destruct (Z.leb_spec 0 (i * w + t)); [|nia].
  destruct (Z.ltb_spec (i * w + t) (zlen vs * w)); [reflexivity|nia].
Qed.

Lemma packed_cons e t w : packed (e :: t) w = bits (Z.to_nat w) e ++ packed t w.
Proof. reflexivity. Qed.

Lemma packed_length vs w : length (packed vs w) = (length vs * Z.to_nat w)%nat.
Proof.
  induction vs as [|e t IH]; [reflexivity|].
  rewrite packed_cons, app_length, bits_length, IH. cbn [length]. lia.
Qed.

Lemma nth_packed w : 0 < w -> forall vs n, nth n (packed vs w) false = pbit vs w (Z.of_nat n).
Proof.
  intros Hw. induction vs as [|e t IH]; intros n.
  - rewrite pbit_nil. destruct n; reflexivity.
  - rewrite packed_cons, pbit_cons by exact Hw.
    destruct (Z.leb_spec 0 (Z.of_nat n)); [|lia]. cbn [andb].
    destruct (Z.ltb_spec (Z.of_nat n) w) as [H1|H1].
    + rewrite app_nth1 by (rewrite bits_length; lia). apply nth_bits. lia.
    + rewrite app_nth2 by (rewrite bits_length; lia). rewrite bits_length, IH.
      f_equal. lia.
Qed.

Lemma pbit_beyond vs w q : zlen vs * w <= q -> pbit vs w q = false.
Proof.
  intros H. unfold pbit. destruct (Z.ltb_spec q (zlen vs * w)); [lia|].
  now rewrite andb_false_r.
Qed.

Lemma pbit_beyond_neg vs w q : q < 0 -> pbit vs w q = false.
Proof. intros H. unfold pbit. destruct (Z.leb_spec 0 q); [lia|]. reflexivity. Qed.

Lemma nth_packed_zeros w vs k n : 0 < w ->
  nth n (packed vs w ++ zeros k) false = pbit vs w (Z.of_nat n).
Proof.
  intros Hw. destruct (Nat.lt_ge_cases n (length (packed vs w))) as [H|H].
  - rewrite app_nth1 by exact H. now apply nth_packed.
  - rewrite app_nth2 by exact H. unfold zeros. rewrite nth_repeat_false.
    symmetry. apply pbit_beyond. rewrite packed_length in H. unfold zlen. nia.
Qed.

(** * Join *)
Section JoinLoop.
Variable w : Z.
Hypothesis Hw : width_ok w.

Lemma w_pos : 0 < w <= 64.
Proof. apply (width_fits w 0 Hw). Qed.

Lemma Join_loop_spec : forall subs i r,
  0 <= i -> words_ok r -> (i + zlen subs) * w <= 64 * zlen r ->
  exists r', Join_loop subs i w r = Some r' /\ length r' = length r /\ words_ok r' /\
    forall p, 0 <= p -> tb r' p = tb r p || pbit subs w (p - i * w).
Proof.
  pose proof w_pos as Hwp.
  induction subs as [|e t IH]; intros i r Hi Hr Hlen.
  - exists r. split; [reflexivity|]. split; [reflexivity|]. split; [exact Hr|].
    intros p Hp. now rewrite pbit_nil, orb_false_r.
  - cbn [Join_loop]. rewrite zlen_cons in Hlen. pose proof (zlen_nonneg t) as Ht.
    destruct (Z.ltb_spec w 0); [lia|]. destruct (Z.ltb_spec 64 w); [lia|]. cbn [orb].
    destruct (width_fits w i Hw) as [_ Hfit].
    rewrite shiftr6, land63.
    set (j := i * w) in *.
    assert (Hj0 : 0 <= j) by (unfold j; nia).
    assert (Hjm : 0 <= j mod 64 < 64) by (apply Z.mod_pos_bound; lia).
    destruct (shl_mask_range e w (j mod 64)) as [Hv Hvr]; [lia|lia|lia|].
    rewrite Hv.
    assert (Hk : 0 <= j / 64 < zlen r).
    { split; [apply Z.div_pos; lia|]. apply Z.div_lt_upper_bound; [lia|]. unfold j. nia. }
    destruct (or_at_spec r (j / 64) _ Hr Hvr Hk) as (r1 & E1 & L1 & O1 & T1).
    rewrite E1.
    destruct (IH (i + 1) r1) as (r' & E' & L' & O' & T').
    { lia. } { exact O1. } { unfold zlen in *. rewrite L1. nia. }
    exists r'. split; [exact E'|]. split; [congruence|]. split; [exact O'|].
    intros p Hp. rewrite T' by exact Hp. rewrite T1 by exact Hp.
    rewrite pbit_cons by lia. rewrite <- orb_assoc. f_equal.
    replace (p - (i + 1) * w) with (p - j - w) by (unfold j; lia).
    assert (Hpm : 0 <= p mod 64 < 64) by (apply Z.mod_pos_bound; lia).
    rewrite testbit_shl_mask by lia.
    pose proof (Z.div_mod p 64 ltac:(lia)) as Dp. pose proof (Z.div_mod j 64 ltac:(lia)) as Dj.
    destruct (Z.leb_spec 0 (p - j)) as [Q0|Q0]; cbn [andb].
    + destruct (Z.ltb_spec (p - j) w) as [Q1|Q1]; cbn [andb].
      * (* the position belongs to this element *)
        assert (p / 64 = j / 64) by lia.
        destruct (Z.eqb_spec (p / 64) (j / 64)); [|lia]. cbn [andb].
        destruct (Z.leb_spec (j mod 64) (p mod 64)); [|lia].
        destruct (Z.ltb_spec (p mod 64) (j mod 64 + w)); [|lia]. cbn [andb].
        rewrite (pbit_beyond_neg t w (p - j - w)) by lia.
        rewrite orb_false_r. f_equal. lia.
      * destruct (Z.eqb_spec (p / 64) (j / 64)); cbn [andb]; [|reflexivity].
        destruct (Z.ltb_spec (p mod 64) (j mod 64 + w)); [lia|].
        now rewrite andb_false_r.
    + destruct (Z.eqb_spec (p / 64) (j / 64)); cbn [andb].
      * destruct (Z.leb_spec (j mod 64) (p mod 64)); [lia|]. cbn [andb].
        unfold pbit. destruct (Z.leb_spec 0 (p - j - w)); [lia|]. reflexivity.
      * unfold pbit. destruct (Z.leb_spec 0 (p - j - w)); [lia|]. reflexivity.
Qed.
End JoinLoop.
