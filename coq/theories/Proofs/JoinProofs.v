(** Proofs for C14: Join / Getw / Slice of Model/BitmapJoin.v against Spec/JoinSpec.v.
    Route: every statement about [flat] is reduced to single positions ([tb]);
    the loops are characterised by "bit p of the result = bit p before || the bit
    this part of the loop is responsible for". *)
From Coq Require Import ZArith List Lia Bool.
From Low Require Import Lib.MachInt Lib.Bits Lib.BitSeq Lib.BitsExtra_bm2 Lib.BitsExtra_bm14
  Model.BitmapUtil Model.BitmapJoin Spec.JoinSpec.
Import ListNotations.
Open Scope Z_scope.

(** * bit [q] of the packed values *)
Definition pbit (vs : list Z) (w q : Z) : bool :=
  (0 <=? q) && (q <? zlen vs * w) && Z.testbit (nth (Z.to_nat (q / w)) vs 0) (q mod w).

Lemma zlen_cons {A} (a : A) l : zlen (a :: l) = zlen l + 1.
Proof. unfold zlen. cbn [length]. lia. Qed.

Lemma zlen_nonneg {A} (l : list A) : 0 <= zlen l.
Proof. unfold zlen. lia. Qed.

Lemma pbit_nil w q : pbit [] w q = false.
Proof.
  unfold pbit. change (zlen (@nil Z)) with 0. rewrite Z.mul_0_l.
  destruct (Z.leb_spec 0 q), (Z.ltb_spec q 0); try reflexivity; lia.
Qed.

Lemma pbit_cons e t w q : 0 < w ->
  pbit (e :: t) w q = if (0 <=? q) && (q <? w) then Z.testbit e q else pbit t w (q - w).
Proof.
  intros Hw. unfold pbit. rewrite zlen_cons. pose proof (zlen_nonneg t) as Ht.
  destruct (Z.leb_spec 0 q) as [H0|H0]; cbn [andb].
  - destruct (Z.ltb_spec q w) as [H1|H1]; cbn [andb].
    + rewrite Z.div_small, Z.mod_small by lia. cbn [Z.to_nat nth].
      destruct (Z.ltb_spec q ((zlen t + 1) * w)); [reflexivity|nia].
    + assert (Hd : q / w = (q - w) / w + 1).
      { replace q with ((q - w) + 1 * w) at 1 by lia. now rewrite Z.div_add by lia. }
      assert (Hm : q mod w = (q - w) mod w).
      { replace q with ((q - w) + 1 * w) at 1 by lia. now rewrite Z.mod_add by lia. }
      assert (0 <= (q - w) / w) by (apply Z.div_pos; lia).
      rewrite Hd, Hm. replace (Z.to_nat ((q - w) / w + 1)) with (S (Z.to_nat ((q - w) / w))) by lia.
      cbn [nth].
      destruct (Z.leb_spec 0 (q - w)); [|lia]. cbn [andb].
      destruct (Z.ltb_spec q ((zlen t + 1) * w)), (Z.ltb_spec (q - w) (zlen t * w)); try reflexivity; nia.
  - destruct (Z.leb_spec 0 (q - w)); [lia|]. reflexivity.
Qed.

Lemma pbit_elem vs w i t : 0 < w -> 0 <= i < zlen vs -> 0 <= t < w ->
  pbit vs w (i * w + t) = Z.testbit (nth (Z.to_nat i) vs 0) t.
Proof.
  intros Hw Hi Ht. unfold pbit.
  assert (Hd : (i * w + t) / w = i).
  { rewrite Z.add_comm, Z.div_add by lia. rewrite Z.div_small by lia. lia. }
  assert (Hm : (i * w + t) mod w = t).
  { rewrite Z.add_comm, Z.mod_add by lia. apply Z.mod_small. lia. }
  rewrite Hd, Hm.
  destruct (Z.leb_spec 0 (i * w + t)); [|nia].
  destruct (Z.ltb_spec (i * w + t) (zlen vs * w)); [reflexivity|nia].
Qed.

Lemma packed_cons e t w : packed (e :: t) w = bits (Z.to_nat w) e ++ packed t w.
Proof. reflexivity. Qed.

Lemma packed_length vs w : length (packed vs w) = (length vs * Z.to_nat w)%nat.
Proof.
  induction vs as [|e t IH]; [reflexivity|].
  rewrite packed_cons, app_length, bits_length, IH. cbn [length]. lia.
Qed.

Lemma nth_packed w : 0 < w -> forall vs n, nth n (packed vs w) false = pbit vs w (Z.of_nat n).
Proof.
  intros Hw. induction vs as [|e t IH]; intros n.
  - rewrite pbit_nil. destruct n; reflexivity.
  - rewrite packed_cons, pbit_cons by exact Hw.
    destruct (Z.leb_spec 0 (Z.of_nat n)); [|lia]. cbn [andb].
    destruct (Z.ltb_spec (Z.of_nat n) w) as [H1|H1].
    + rewrite app_nth1 by (rewrite bits_length; lia). apply nth_bits. lia.
    + rewrite app_nth2 by (rewrite bits_length; lia). rewrite bits_length, IH.
      f_equal. lia.
Qed.

Lemma pbit_beyond vs w q : zlen vs * w <= q -> pbit vs w q = false.
Proof.
  intros H. unfold pbit. destruct (Z.ltb_spec q (zlen vs * w)); [lia|].
  now rewrite andb_false_r.
Qed.

Lemma pbit_beyond_neg vs w q : q < 0 -> pbit vs w q = false.
Proof. intros H. unfold pbit. destruct (Z.leb_spec 0 q); [lia|]. reflexivity. Qed.

Lemma nth_packed_zeros w vs k n : 0 < w ->
  nth n (packed vs w ++ zeros k) false = pbit vs w (Z.of_nat n).
Proof.
  intros Hw. destruct (Nat.lt_ge_cases n (length (packed vs w))) as [H|H].
  - rewrite app_nth1 by exact H. now apply nth_packed.
  - rewrite app_nth2 by exact H. unfold zeros. rewrite nth_repeat_false.
    symmetry. apply pbit_beyond. rewrite packed_length in H. unfold zlen. nia.
Qed.

(** * Join *)
Section JoinLoop.
Variable w : Z.
Hypothesis Hw : width_ok w.

Lemma w_pos : 0 < w <= 64.
Proof. apply (width_fits w 0 Hw). Qed.

Lemma Join_loop_spec : forall subs i r,
  0 <= i -> words_ok r -> (i + zlen subs) * w <= 64 * zlen r ->
  exists r', Join_loop subs i w r = Some r' /\ length r' = length r /\ words_ok r' /\
    forall p, 0 <= p -> tb r' p = tb r p || pbit subs w (p - i * w).
Proof.
  pose proof w_pos as Hwp.
  induction subs as [|e t IH]; intros i r Hi Hr Hlen.
  - exists r. split; [reflexivity|]. split; [reflexivity|]. split; [exact Hr|].
    intros p Hp. now rewrite pbit_nil, orb_false_r.
  - cbn [Join_loop]. rewrite zlen_cons in Hlen. pose proof (zlen_nonneg t) as Ht.
    destruct (Z.ltb_spec w 0); [lia|]. destruct (Z.ltb_spec 64 w); [lia|]. cbn [orb].
    destruct (width_fits w i Hw) as [_ Hfit].
    rewrite shiftr6, land63.
    set (j := i * w) in *.
    assert (Hj0 : 0 <= j) by (unfold j; nia).
    assert (Hjm : 0 <= j mod 64 < 64) by (apply Z.mod_pos_bound; lia).
    destruct (shl_mask_range e w (j mod 64)) as [Hv Hvr]; [lia|lia|lia|].
    rewrite Hv.
    assert (Hk : 0 <= j / 64 < zlen r).
    { split; [apply Z.div_pos; lia|]. apply Z.div_lt_upper_bound; [lia|]. unfold j. nia. }
    destruct (or_at_spec r (j / 64) _ Hr Hvr Hk) as (r1 & E1 & L1 & O1 & T1).
    rewrite E1.
    destruct (IH (i + 1) r1) as (r' & E' & L' & O' & T').
    { lia. } { exact O1. } { unfold zlen in *. rewrite L1. nia. }
    exists r'. split; [exact E'|]. split; [congruence|]. split; [exact O'|].
    intros p Hp. rewrite T' by exact Hp. rewrite T1 by exact Hp.
    rewrite pbit_cons by lia. rewrite <- orb_assoc. f_equal.
    replace (p - (i + 1) * w) with (p - j - w) by (unfold j; lia).
    assert (Hpm : 0 <= p mod 64 < 64) by (apply Z.mod_pos_bound; lia).
    rewrite testbit_shl_mask by lia.
    pose proof (Z.div_mod p 64 ltac:(lia)) as Dp. pose proof (Z.div_mod j 64 ltac:(lia)) as Dj.
    destruct (Z.leb_spec 0 (p - j)) as [Q0|Q0]; cbn [andb].
    + destruct (Z.ltb_spec (p - j) w) as [Q1|Q1]; cbn [andb].
      * (* the position belongs to this element *)
        assert (p / 64 = j / 64) by lia.
        destruct (Z.eqb_spec (p / 64) (j / 64)); [|lia]. cbn [andb].
        destruct (Z.leb_spec (j mod 64) (p mod 64)); [|lia].
        destruct (Z.ltb_spec (p mod 64) (j mod 64 + w)); [|lia]. cbn [andb].
        rewrite (pbit_beyond_neg t w (p - j - w)) by lia.
        rewrite orb_false_r. f_equal. lia.
      * destruct (Z.eqb_spec (p / 64) (j / 64)); cbn [andb]; [|reflexivity].
        destruct (Z.ltb_spec (p mod 64) (j mod 64 + w)); [lia|].
        now rewrite andb_false_r.
    + destruct (Z.eqb_spec (p / 64) (j / 64)); cbn [andb].
      * destruct (Z.leb_spec (j mod 64) (p mod 64)); [lia|]. cbn [andb].
        unfold pbit. destruct (Z.leb_spec 0 (p - j - w)); [lia|]. reflexivity.
      * unfold pbit. destruct (Z.leb_spec 0 (p - j - w)); [lia|]. reflexivity.
Qed.
End JoinLoop.

Lemma cdiv64_shift l : Z.shiftr (Z.land (l + 63) (-64)) 6 = cdiv64 l.
Proof. rewrite land_m64, shiftr6. unfold cdiv64. rewrite Z.mul_comm, Z.div_mul by lia. reflexivity. Qed.

Lemma cdiv64_bounds n : n <= 64 * cdiv64 n < n + 64.
Proof.
  unfold cdiv64. pose proof (Z.div_mod (n + 63) 64 ltac:(lia)).
  pose proof (Z.mod_pos_bound (n + 63) 64 ltac:(lia)). lia.
Qed.

Lemma words_ok_repeat0 n : words_ok (repeat 0 n).
Proof.
  apply Forall_forall. intros x Hx. apply repeat_spec in Hx. subst. unfold word_ok. lia.
Qed.

Lemma make_words_ok n : 0 <= n ->
  make_words n = Some (repeat 0 (Z.to_nat n)) /\ zlen (repeat 0 (Z.to_nat n)) = n.
Proof.
  intros Hn. unfold make_words. destruct (Z.ltb_spec n 0); [lia|]. split; [reflexivity|].
  unfold zlen. rewrite repeat_length. lia.
Qed.

(** Join: never panics on a legal width; result length; every bit of the result *)
Theorem Join_bits vs w : width_ok w ->
  exists r, Join vs w = Some r /\ words_ok r /\ zlen r = cdiv64 (zlen vs * w) /\
    forall p, 0 <= p -> tb r p = pbit vs w p.
Proof.
  intros Hw. pose proof (w_pos w Hw) as Hwp. pose proof (zlen_nonneg vs) as Hv.
  unfold Join. rewrite cdiv64_shift. rewrite (Z.mul_comm w).
  set (m := zlen vs * w). assert (Hm : 0 <= m) by (unfold m; nia).
  pose proof (cdiv64_bounds m) as Hc.
  destruct (make_words_ok (cdiv64 m)) as [E L]; [lia|]. rewrite E.
  destruct (Join_loop_spec w Hw vs 0 (repeat 0 (Z.to_nat (cdiv64 m)))) as (r' & E' & L' & O' & T').
  { lia. } { apply words_ok_repeat0. } { rewrite L. fold m. lia. }
  exists r'. split; [exact E'|]. split; [exact O'|]. split.
  - unfold zlen in *. rewrite L'. exact L.
  - intros p Hp. rewrite T' by exact Hp. rewrite tb_repeat0. cbn [orb]. f_equal. lia.
Qed.

Theorem Join_spec_holds vs w : width_ok w -> exists r, Join vs w = Some r /\ spec_Join vs w r.
Proof.
  intros Hw. pose proof (w_pos w Hw) as Hwp.
  destruct (Join_bits vs w Hw) as (r & E & O & L & T).
  exists r. split; [exact E|]. split; [exact O|]. split; [exact L|].
  pose proof (cdiv64_bounds (zlen vs * w)) as Hc. rewrite <- L in Hc.
  assert (Hpl : Z.of_nat (length (packed vs w)) = zlen vs * w).
  { rewrite packed_length, Nat2Z.inj_mul, Z2Nat.id by lia. reflexivity. }
  apply flat_eq_by_tb.
  - rewrite app_length. unfold zeros. rewrite repeat_length.
    set (m := zlen vs * w) in *. unfold zlen in *. lia.
  - intros n _. rewrite nth_packed_zeros by lia. apply T. lia.
Qed.

(** the statement with the truncation written out: [bits w (v mod 2^w)] *)
Lemma packed_mod vs w : 0 <= w ->
  packed vs w = concat (map (fun v => bits (Z.to_nat w) (v mod 2 ^ w)) vs).
Proof.
  intros Hw. unfold packed. f_equal. apply map_ext. intros v.
  pose proof (bits_mod (Z.to_nat w) v) as H. rewrite Z2Nat.id in H by exact Hw. now rewrite H.
Qed.

Lemma testbit_mod_pow2 x w t : 0 <= w -> 0 <= t ->
  Z.testbit (x mod 2 ^ w) t = (t <? w) && Z.testbit x t.
Proof.
  intros Hw Ht. destruct (Z.ltb_spec t w); cbn [andb].
  - apply Z.mod_pow2_bits_low. lia.
  - apply Z.mod_pow2_bits_high. lia.
Qed.

(** Getw of a joined bitmap returns the low [w] bits of element [i] *)
Theorem Getw_Join vs w : width_ok w ->
  exists r, Join vs w = Some r /\ forall i, 0 <= i < zlen vs -> Getw r i w = Some (spec_Getw vs w i).
Proof.
  intros Hw. pose proof (w_pos w Hw) as Hwp.
  destruct (Join_bits vs w Hw) as (r & E & O & L & T).
  exists r. split; [exact E|]. intros i Hi.
  destruct (width_fits w i Hw) as [_ Hfit].
  unfold Getw. rewrite shiftr6, land63. set (j := i * w) in *.
  assert (Hj0 : 0 <= j) by (unfold j; nia).
  assert (Hjm : 0 <= j mod 64 < 64) by (apply Z.mod_pos_bound; lia).
  pose proof (cdiv64_bounds (zlen vs * w)) as Hc. rewrite <- L in Hc.
  assert (Hjr : 0 <= j < 64 * zlen r) by (unfold j; nia).
  destruct (word_at r j O Hjr) as (word & Hn & Hne & Hword). rewrite Hn.
  destruct (Z.ltb_spec w 0); [lia|]. destruct (Z.ltb_spec 64 w); [lia|]. cbn [orb].
  f_equal. rewrite shr64_div by lia. rewrite land_mask by lia. unfold spec_Getw.
  apply Z.bits_inj'. intros t Ht. rewrite !testbit_mod_pow2 by lia.
  destruct (Z.ltb_spec t w) as [Htw|Htw]; cbn [andb]; [|reflexivity].
  rewrite Z.div_pow2_bits by lia.
  rewrite <- (pbit_elem vs w i t) by lia. fold j. rewrite <- T by lia.
  unfold tb.
  pose proof (Z.div_mod j 64 ltac:(lia)) as Dj.
  assert (Hq : (j + t) / 64 = j / 64).
  { symmetry. apply (Z.div_unique (j + t) 64 (j / 64) (j mod 64 + t)); lia. }
  assert (Hr : (j + t) mod 64 = j mod 64 + t).
  { symmetry. apply (Z.mod_unique (j + t) 64 (j / 64) (j mod 64 + t)); lia. }
  rewrite Hq, Hr. rewrite (nth_error_nth _ _ 0 Hne). f_equal. lia.
Qed.

(** * Slice *)
Section SliceLoop.
Variables (words : list Z) (from to : Z).
Hypothesis Hwords : words_ok words.
Hypothesis Hfrom : 0 <= from.
Hypothesis Hto : to <= 64 * zlen words.

Lemma Slice_loop_spec : forall fuel i r,
  from <= i <= to -> to - i <= Z.of_nat fuel -> words_ok r -> to - from <= 64 * zlen r ->
  exists r', Slice_loop fuel words from i to r = Some r' /\ length r' = length r /\ words_ok r' /\
    forall q, 0 <= q ->
      tb r' q = tb r q || ((i - from <=? q) && (q <? to - from) && tb words (from + q)).
Proof.
  induction fuel as [|fuel IH]; intros i r Hi Hf Hr Hlen.
  - assert (i = to) by lia. subst i. cbn [Slice_loop]. rewrite Z.ltb_irrefl.
    exists r. split; [reflexivity|]. split; [reflexivity|]. split; [exact Hr|].
    intros q Hq. destruct (Z.leb_spec (to - from) q), (Z.ltb_spec q (to - from)); try lia;
      cbn [andb]; now rewrite orb_false_r.
  - cbn [Slice_loop]. destruct (Z.ltb_spec i to) as [Hlt|Hge].
    2:{ exists r. split; [reflexivity|]. split; [reflexivity|]. split; [exact Hr|].
        intros q Hq. destruct (Z.leb_spec (i - from) q), (Z.ltb_spec q (to - from)); try lia;
          cbn [andb]; now rewrite orb_false_r. }
    rewrite shiftr6, land63.
    destruct (word_at words i Hwords ltac:(lia)) as (w & Hn & Hne & Hw). rewrite Hn.
    assert (Him : 0 <= i mod 64 < 64) by (apply Z.mod_pos_bound; lia).
    assert (Hbit : forall k, 0 <= k < 64 -> shl64 1 k = 2 ^ k /\ 0 <= 2 ^ k < 2 ^ 64).
    { intros k Hk. assert (0 < 2 ^ k < 2 ^ 64).
      { split; [apply Z.pow_pos_nonneg; lia|apply Z.pow_lt_mono_r; lia]. }
      split; [|lia]. rewrite shl64_small by lia. lia. }
    destruct (Hbit (i mod 64) Him) as [Es _]. rewrite Es.
    rewrite land_bit_testbit by lia.
    assert (Htbi : tb words i = Z.testbit w (i mod 64)).
    { unfold tb. now rewrite (nth_error_nth _ _ 0 Hne). }
    destruct (Z.testbit w (i mod 64)) eqn:Eb.
    + (* the bit is set: r[j>>6] |= 1 << (j&63) *)
      destruct (Z.eqb_spec (2 ^ (i mod 64)) 0) as [E0|_].
      { pose proof (Z.pow_pos_nonneg 2 (i mod 64)). lia. }
      rewrite shiftr6, land63. set (j := i - from).
      assert (Hjm : 0 <= j mod 64 < 64) by (apply Z.mod_pos_bound; lia).
      destruct (Hbit (j mod 64) Hjm) as [Ej Hjr]. rewrite Ej.
      assert (Hk : 0 <= j / 64 < zlen r).
      { split; [apply Z.div_pos; unfold j; lia|]. apply Z.div_lt_upper_bound; unfold j; lia. }
      destruct (or_at_spec r (j / 64) _ Hr Hjr Hk) as (r1 & E1 & L1 & O1 & T1). rewrite E1.
      destruct (IH (i + 1) r1) as (r' & E' & L' & O' & T').
      { lia. } { lia. } { exact O1. } { unfold zlen in *. rewrite L1. lia. }
      exists r'. split; [exact E'|]. split; [congruence|]. split; [exact O'|].
      intros q Hq. rewrite T', T1 by exact Hq. rewrite <- orb_assoc. f_equal.
      rewrite Z.pow2_bits_eqb by lia. rewrite (Z.eqb_sym (j mod 64)), pos_eq_split.
      destruct (Z.eqb_spec q j) as [->|Hne'].
      * unfold j. replace (from + (i - from)) with i by lia. rewrite Htbi.
        destruct (Z.leb_spec (i - from) (i - from)); [|lia].
        destruct (Z.ltb_spec (i - from) (to - from)); [|lia]. reflexivity.
      * cbn [orb]. unfold j in *.
        destruct (Z.leb_spec (i + 1 - from) q), (Z.leb_spec (i - from) q); try lia; reflexivity.
    + rewrite Z.eqb_refl.
      destruct (IH (i + 1) r) as (r' & E' & L' & O' & T').
      { lia. } { lia. } { exact Hr. } { exact Hlen. }
      exists r'. split; [exact E'|]. split; [exact L'|]. split; [exact O'|].
      intros q Hq. rewrite T' by exact Hq. f_equal.
      destruct (Z.eq_dec q (i - from)) as [->|Hne'].
      * replace (from + (i - from)) with i by lia. rewrite Htbi. now rewrite !andb_false_r.
      * destruct (Z.leb_spec (i + 1 - from) q), (Z.leb_spec (i - from) q); try lia; reflexivity.
Qed.
End SliceLoop.

Theorem Slice_bits ws from to : words_ok ws -> 0 <= from <= to -> to <= 64 * zlen ws ->
  exists r, Slice ws from to = Some r /\ words_ok r /\ zlen r = cdiv64 (to - from) /\
    forall q, 0 <= q -> tb r q = (q <? to - from) && tb ws (from + q).
Proof.
  intros Hws Hft Hto. unfold Slice. rewrite cdiv64_shift.
  pose proof (cdiv64_bounds (to - from)) as Hc.
  destruct (make_words_ok (cdiv64 (to - from))) as [E L]; [lia|]. rewrite E.
  destruct (Slice_loop_spec ws from to Hws ltac:(lia) Hto (Z.to_nat (to - from)) from
              (repeat 0 (Z.to_nat (cdiv64 (to - from))))) as (r' & E' & L' & O' & T').
  { lia. } { lia. } { apply words_ok_repeat0. } { rewrite L. lia. }
  exists r'. split; [exact E'|]. split; [exact O'|]. split.
  - unfold zlen in *. rewrite L'. exact L.
  - intros q Hq. rewrite T' by exact Hq. rewrite tb_repeat0. cbn [orb].
    destruct (Z.leb_spec (from - from) q); [|lia]. reflexivity.
Qed.

Theorem Slice_spec_holds ws from to : words_ok ws -> 0 <= from <= to -> to <= 64 * zlen ws ->
  exists r, Slice ws from to = Some r /\ spec_Slice ws from to r.
Proof.
  intros Hws Hft Hto.
  destruct (Slice_bits ws from to Hws Hft Hto) as (r & E & O & L & T).
  exists r. split; [exact E|]. split; [exact O|]. split; [exact L|].
  pose proof (cdiv64_bounds (to - from)) as Hc. rewrite <- L in Hc.
  assert (Hfl : length (firstn (Z.to_nat (to - from)) (skipn (Z.to_nat from) (flat ws))) = Z.to_nat (to - from)).
  { rewrite firstn_length_le; [reflexivity|]. rewrite skipn_length, flat_length. unfold zlen in Hto. lia. }
  apply flat_eq_by_tb.
  - rewrite app_length, Hfl. unfold zeros. rewrite repeat_length. unfold zlen in *. lia.
  - intros n _. rewrite T by lia.
    destruct (Z.ltb_spec (Z.of_nat n) (to - from)) as [H|H]; cbn [andb].
    + rewrite app_nth1 by lia. rewrite nth_firstn_lt by lia. rewrite nth_skipn, nth_flat_tb.
      f_equal. lia.
    + rewrite app_nth2 by lia. unfold zeros. now rewrite nth_repeat_false.
Qed.

(** * bit-by-bit reading of the Slice result (the wording of the property) *)
Lemma bitz_flat_tb ws q : 0 <= q -> bitz (flat ws) q = tb ws q.
Proof. intros Hq. unfold bitz. rewrite nth_flat_tb. f_equal. lia. Qed.

Theorem Slice_bitwise ws from to : words_ok ws -> 0 <= from <= to -> to <= 64 * zlen ws ->
  exists r, Slice ws from to = Some r /\ zlen r = cdiv64 (to - from) /\
    (forall j, 0 <= j < to - from -> bitz (flat r) j = bitz (flat ws) (from + j)) /\
    (forall j, to - from <= j -> bitz (flat r) j = false).
Proof.
  intros Hws Hft Hto. destruct (Slice_bits ws from to Hws Hft Hto) as (r & E & O & L & T).
  exists r. split; [exact E|]. split; [exact L|]. split; intros j Hj.
  - rewrite !bitz_flat_tb by lia. rewrite T by lia.
    destruct (Z.ltb_spec j (to - from)); [reflexivity|lia].
  - rewrite bitz_flat_tb by lia. rewrite T by lia.
    destruct (Z.ltb_spec j (to - from)); [lia|reflexivity].
Qed.

(** * the boolean checkers run on the implementation's output decide the specification *)
Lemma bools_eqb_eq a : forall b, bools_eqb a b = true <-> a = b.
Proof.
  induction a as [|x a IH]; intros [|y b]; cbn [bools_eqb]; try (split; [discriminate|congruence]).
  - split; reflexivity.
  - rewrite andb_true_iff, IH. split.
    + intros [Hx ->]. apply Bool.eqb_prop in Hx. now subst.
    + intros H. injection H as -> ->. split; [apply Bool.eqb_reflx|reflexivity].
Qed.

Lemma words_okb_iff ws : words_okb ws = true <-> words_ok ws.
Proof.
  split; [apply words_okb_ok|]. unfold words_okb, words_ok. rewrite forallb_forall, Forall_forall.
  intros H w Hw. specialize (H w Hw). unfold word_okb, word_ok in *. lia.
Qed.

Theorem spec_Join_ok_iff vs w r : spec_Join_ok vs w r = true <-> spec_Join vs w r.
Proof.
  unfold spec_Join_ok, spec_Join. rewrite !andb_true_iff, words_okb_iff, Z.eqb_eq, bools_eqb_eq. tauto.
Qed.

Theorem spec_Slice_ok_iff ws from to r : spec_Slice_ok ws from to r = true <-> spec_Slice ws from to r.
Proof.
  unfold spec_Slice_ok, spec_Slice. rewrite !andb_true_iff, words_okb_iff, Z.eqb_eq, bools_eqb_eq. tauto.
Qed.

(** * the specification determines the result: a bitmap is its bits *)
Lemma bits64_inj a b : 0 <= a < 2^64 -> 0 <= b < 2^64 -> bits 64 a = bits 64 b -> a = b.
Proof.
  intros Ha Hb H. apply Z.bits_inj'. intros t Ht.
  destruct (Z.lt_ge_cases t 64) as [Hlt|Hge].
  - assert (E : nth (Z.to_nat t) (bits 64 a) false = nth (Z.to_nat t) (bits 64 b) false) by now rewrite H.
    rewrite !nth_bits in E by lia. now rewrite Z2Nat.id in E by lia.
  - rewrite <- (Z.mod_small a (2^64)), <- (Z.mod_small b (2^64)) by lia.
    rewrite !Z.mod_pow2_bits_high by lia. reflexivity.
Qed.

Lemma app_inj_len {A} (a a' b b' : list A) :
  length a = length a' -> a ++ b = a' ++ b' -> a = a' /\ b = b'.
Proof.
  revert a'. induction a as [|x a IH]; intros [|y a'] Hl H; cbn [length] in Hl; try lia.
  - split; [reflexivity|exact H].
  - cbn [app] in H. injection H as -> H. destruct (IH a' ltac:(lia) H) as [-> ->]. split; reflexivity.
Qed.

Lemma flat_inj a : forall b, words_ok a -> words_ok b -> flat a = flat b -> a = b.
Proof.
  induction a as [|x a IH]; intros [|y b] Ha Hb H.
  - reflexivity.
  - apply (f_equal (@length bool)) in H. rewrite !flat_length in H. cbn [length] in H. lia.
  - apply (f_equal (@length bool)) in H. rewrite !flat_length in H. cbn [length] in H. lia.
  - rewrite !flat_cons in H. inversion Ha; inversion Hb; subst.
    apply app_inj_len in H. 2:{ now rewrite !bits_length. }
    destruct H as [E1 E2]. f_equal; [apply bits64_inj; assumption|apply IH; assumption].
Qed.

Theorem spec_Join_unique vs w r r' : spec_Join vs w r -> spec_Join vs w r' -> r = r'.
Proof.
  intros (O & L & F) (O' & L' & F'). apply flat_inj; try assumption. rewrite F, F'. now rewrite L, L'.
Qed.

Theorem spec_Slice_unique ws from to r r' : spec_Slice ws from to r -> spec_Slice ws from to r' -> r = r'.
Proof.
  intros (O & L & F) (O' & L' & F'). apply flat_inj; try assumption. rewrite F, F'. now rewrite L, L'.
Qed.
