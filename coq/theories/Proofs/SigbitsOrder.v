(** C16, widening: results fit Go's int32 under the stated size hypothesis; for
    ascending keys the first differing bit is 0 in the smaller and 1 in the
    larger key (unless the smaller key ends there). *)
From Coq Require Import ZArith List Lia Bool.
From Low Require Import Lib.Bits Lib.BitSeq Lib.Lex Lib.Bytes Lib.LexExtra_sig Lib.LexLemmas_bw
  Model.Sigbits Spec.SigbitsSpec Proofs.SigbitsFirstDiff Proofs.SigbitsCountPrefixes.
Import ListNotations.
Open Scope Z_scope.

Lemma adj_pairs_In {A} (l : list A) a b : In (a, b) (adj_pairs l) -> In a l /\ In b l.
Proof.
  induction l as [|u l IH]; intros H; [destruct H|].
  destruct l as [|v t]; [destruct H|]. rewrite adj_pairs_cons2 in H.
  destruct H as [E|H]; [injection E as -> ->; split; [now left|right; now left]|].
  destruct (IH H). split; now right.
Qed.

(** every first-difference bit is a non-negative int32 *)
Lemma FirstDiffBits_fit_int32 keys : keys_i32 keys ->
  Forall (fun d => 0 <= d <= 2147483647) (spec_FirstDiffBits keys).
Proof.
  intros H. unfold keys_i32 in H. rewrite Forall_forall in *. intros d Hd.
  unfold spec_FirstDiffBits in Hd. apply in_map_iff in Hd. destruct Hd as ([a b] & <- & Hp).
  cbn [fst snd]. destruct (adj_pairs_In keys a b Hp) as [Ha _].
  pose proof (first_diff_bit_le_l a b). pose proof (first_diff_bit_nonneg a b).
  specialize (H a Ha). cbn beta in H. lia.
Qed.

Lemma bits_lt_at_lcp : forall x y, bits_cmp x y = Lt ->
  let d := length (lcp_bits x y) in
  (d < length y)%nat /\ (d = length x \/ (nth d x false = false /\ nth d y false = true)).
Proof.
  unfold bits_cmp, lcp_bits. cbv zeta.
  induction x as [|a x IH]; intros [|b y]; cbn [lex_cmp lcp length]; try discriminate.
  - intros _. split; [lia|now left].
  - destruct a, b; cbn [bool_cmp Bool.eqb]; try discriminate; intros H; cbn [length nth].
    + destruct (IH y H) as [H1 H2]. split; [lia|]. destruct H2 as [->|H2]; [now left|now right].
    + split; [lia|]. right. split; reflexivity.
    + destruct (IH y H) as [H1 H2]. split; [lia|]. destruct H2 as [->|H2]; [now left|now right].
Qed.

Theorem first_diff_bit_order a b : bytes_ok a -> bytes_ok b -> bytes_cmp a b = Lt ->
  let d := first_diff_bit a b in
  d < 8 * zlen b /\
  (d = 8 * zlen a \/
   (nth (Z.to_nat d) (msb_bits a) false = false /\ nth (Z.to_nat d) (msb_bits b) false = true)).
Proof.
  intros Ha Hb Hlt. rewrite (bytes_cmp_msb_bits a b Ha Hb) in Hlt.
  destruct (bits_lt_at_lcp _ _ Hlt) as [H1 H2]. cbv zeta.
  unfold first_diff_bit, zlen. rewrite Nat2Z.id. rewrite !msb_bits_length in *.
  split; [lia|]. destruct H2 as [E|H2]; [left; lia|right; exact H2].
Qed.
