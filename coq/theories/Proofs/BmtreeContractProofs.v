(** Proofs for C03_debug: the contracts of the [-tags debug] build
    (bitmapSizeCheck, pathCheck, bitmapPathMustHaveEqualHeight,
    bitmapMustHaveLevel) all hold on every valid input, so the debug build
    returns what the release build returns and raises no contract panic. *)
From Coq Require Import ZArith List Lia Bool.
From Low Require Import Lib.MachInt Lib.Bits Lib.BitSeq Lib.Lex Lib.Bytes Lib.BitsExtra_tree
  Spec.Bmtree Spec.IndexSpec Model.BmtreePath Model.BmtreeIndex
  Proofs.BmtreePathProofs Proofs.BmtreeRankSpec Proofs.ShiftMultiProofs Proofs.BmtreeIndexProofs.
Import ListNotations.
Open Scope Z_scope.

(** * bitmapSizeCheck *)

Lemma bitmapSizeCheck_ok T h : 1 <= T < 2 ^ 31 -> Height T = Z.of_nat h -> bitmapSizeCheck T = true.
Proof.
  intros HT HH. destruct (Height_spec T h HT HH) as [_ Hh].
  unfold bitmapSizeCheck. fold (Height T). rewrite HH.
  destruct (Z.leb_spec (Z.of_nat h) 30); [|lia]. destruct (Z.eqb_spec T 0); [lia|]. reflexivity.
Qed.

(** * pathCheck *)

(** "path only has at most 30 bits" *)
Lemma testbit_low30_c x n : 0 <= x < 2 ^ 30 -> 0 <= n -> Z.testbit x n && Z.testbit (3 * 2 ^ 30) n = false.
Proof.
  intros Hx Hn. destruct (Z.lt_ge_cases n 30).
  - rewrite Z.mul_pow2_bits_low by lia. apply andb_false_r.
  - rewrite (testbit_small x 30) by lia. reflexivity.
Qed.

Lemma land_top2 v m : 0 <= v < 2 ^ 30 -> 0 <= m < 2 ^ 30 ->
  Z.land (v * 2 ^ 32 + m) 0xc0000000c0000000 = 0.
Proof.
  intros Hv Hm. change 0xc0000000c0000000 with ((3 * 2 ^ 30) * 2 ^ 32 + 3 * 2 ^ 30).
  apply Z.bits_inj'. intros n Hn.
  rewrite Z.land_spec, Z.bits_0, !testbit_hi_lo by lia.
  destruct (Z.ltb_spec n 32); apply testbit_low30_c; lia.
Qed.

Lemma u32_lor x y : u32 (Z.lor x y) = Z.lor (u32 x) (u32 y).
Proof.
  unfold u32. rewrite <- !Z.land_ones by lia. apply Z.land_lor_distr_l.
Qed.

Lemma testbit_pow2m1 n m : 0 <= n -> 0 <= m -> Z.testbit (2 ^ n - 1) m = (m <? n).
Proof. intros Hn Hm. replace (2 ^ n - 1) with (Z.ones n) by (rewrite Z.ones_equiv; lia). apply Z.testbit_ones_nonneg; lia. Qed.

(** filling the trailing zeros of a left-aligned run of l >= 1 ones gives h ones *)
Lemma lor_fill (l d : Z) : 1 <= l -> 0 <= d ->
  Z.lor ((2 ^ l - 1) * 2 ^ d) ((2 ^ l - 1) * 2 ^ d - 1) = 2 ^ (d + l) - 1.
Proof.
  intros Hl Hd. pose proof (pow2_pos d Hd). pose proof (pow2_pos l ltac:(lia)).
  assert (2 <= 2 ^ l).
  { replace l with ((l - 1) + 1) by lia. rewrite pow2_succ by lia. pose proof (pow2_pos (l - 1)). lia. }
  replace ((2 ^ l - 1) * 2 ^ d - 1) with ((2 ^ l - 2) * 2 ^ d + (2 ^ d - 1)) by lia.
  replace ((2 ^ l - 1) * 2 ^ d) with ((2 ^ l - 1) * 2 ^ d + 0) at 1 by lia.
  apply Z.bits_inj'. intros n Hn.
  rewrite Z.lor_spec, !testbit_hi_lo by lia. rewrite (testbit_pow2m1 (d + l)) by lia.
  destruct (Z.ltb_spec n d).
  - rewrite Z.bits_0, testbit_pow2m1 by lia. cbn [orb].
    destruct (Z.ltb_spec n d); [|lia]. destruct (Z.ltb_spec n (d + l)); [reflexivity|lia].
  - rewrite testbit_pow2m1 by lia.
    destruct (Z.ltb_spec (n - d) l); destruct (Z.ltb_spec n (d + l)); try lia; try reflexivity.
    cbn [orb]. apply (testbit_small _ l); lia.
Qed.

Lemma maskL_form h q : maskL h q = (2 ^ Z.of_nat (length q) - 1) * 2 ^ (Z.of_nat h - Z.of_nat (length q)).
Proof. reflexivity. Qed.

Lemma testbit_maskL h q n : (length q <= h)%nat -> 0 <= n ->
  Z.testbit (maskL h q) n = (Z.of_nat h - Z.of_nat (length q) <=? n) && (n <? Z.of_nat h).
Proof.
  intros Hq Hn. rewrite maskL_form. set (d := Z.of_nat h - Z.of_nat (length q)).
  destruct (Z.leb_spec d n).
  - rewrite Z.mul_pow2_bits by lia. rewrite testbit_pow2m1 by lia. cbn [andb].
    destruct (Z.ltb_spec (n - d) (Z.of_nat (length q))); destruct (Z.ltb_spec n (Z.of_nat h)); lia || reflexivity.
  - rewrite Z.mul_pow2_bits_low by lia. reflexivity.
Qed.

(** the search bits lie under the mask *)
Lemma testbit_valL_mask h q n : (length q <= h)%nat -> 0 <= n ->
  Z.testbit (valL h q) n = true -> Z.testbit (maskL h q) n = true.
Proof.
  intros Hq Hn Hv. rewrite testbit_maskL by assumption.
  set (d := Z.of_nat h - Z.of_nat (length q)) in *.
  destruct (Z.leb_spec d n) as [Hd|Hd].
  - destruct (Z.ltb_spec n (Z.of_nat h)); [reflexivity|].
    rewrite (testbit_small (valL h q) (Z.of_nat h)) in Hv by (try lia; apply valL_lt; exact Hq). discriminate.
  - unfold valL in Hv. fold d in Hv. rewrite Z.mul_pow2_bits_low in Hv by lia. discriminate.
Qed.

Lemma land_not_mask h q : (h <= 32)%nat -> (length q <= h)%nat ->
  Z.land (not32 (maskL h q)) (valL h q) = 0.
Proof.
  intros Hh Hq. pose proof (maskL_lt32 h q Hh Hq) as Hm.
  apply Z.bits_inj'. intros n Hn. rewrite Z.land_spec, Z.bits_0. unfold not32.
  rewrite testbit_compl by lia.
  destruct (Z.testbit (valL h q) n) eqn:Ev; [|apply andb_false_r].
  rewrite (testbit_valL_mask h q n Hq Hn Ev). cbn [negb]. now rewrite andb_false_r.
Qed.

Lemma pathCheck_enc h q : (h <= 30)%nat -> (length q <= h)%nat -> pathCheck (enc h q) = true.
Proof.
  intros Hh Hq. unfold pathCheck.
  pose proof (pow2_30_lt h Hh) as H30.
  pose proof (valL_lt h q Hq) as Hv. pose proof (maskL_bound h q Hq) as Hm.
  pose proof (enc_u64 h q ltac:(lia) Hq) as He.
  rewrite enc_split at 1. rewrite land_top2 by lia. cbn [Z.eqb andb].
  rewrite (enc_mod32 h q) by (try lia; exact Hq).
  destruct (Z.eqb_spec (maskL h q) 0) as [|Hne]; [reflexivity|].
  assert (Hl : (1 <= length q)%nat).
  { destruct q; [|cbn [length]; lia]. now rewrite maskL_nil in Hne. }
  (* pheight = popcount (extended) *)
  pose proof (PathHeight_enc h q ltac:(lia) ltac:(lia)) as Hph. unfold PathHeight in Hph.
  rewrite (enc_mod32 h q) in Hph by (try lia; exact Hq). rewrite Hph.
  rewrite (u64_id (enc h q - 1)) by (rewrite enc_split in *; lia).
  rewrite u32_lor. rewrite (enc_mod32 h q) by (try lia; exact Hq).
  replace (u32 (enc h q - 1)) with (maskL h q - 1).
  2:{ rewrite enc_split. replace (valL h q * 2 ^ 32 + maskL h q - 1) with (valL h q * 2 ^ 32 + (maskL h q - 1)) by lia.
      unfold u32. rewrite mod_hi_lo by lia. reflexivity. }
  rewrite maskL_form. rewrite lor_fill by lia.
  replace (Z.of_nat h - Z.of_nat (length q) + Z.of_nat (length q)) with (Z.of_nat h) by lia.
  rewrite popcount_ones. rewrite Z.eqb_refl. cbn [andb].
  (* ^pmask & pbits = 0 *)
  pose proof (PathBits_enc h q ltac:(lia) Hq) as Hpb. unfold PathBits in Hpb. rewrite Hpb.
  rewrite (u32_id (valL h q)) by lia. rewrite <- maskL_form.
  rewrite land_not_mask by (try lia; exact Hq). reflexivity.
Qed.

(** * the combined contracts *)

Section Contracts.
  Variables (T : Z) (h : nat) (q : node).
  Hypothesis HT : 1 <= T < 2 ^ 31.
  Hypothesis HH : Height T = Z.of_nat h.
  Hypothesis Hq : (length q <= h)%nat.

  Lemma equalHeight_ok : bitmapPathMustHaveEqualHeight T (enc h q) = true.
  Proof.
    destruct (Height_spec T h HT HH) as [_ Hh].
    unfold bitmapPathMustHaveEqualHeight.
    rewrite (bitmapSizeCheck_ok T h HT HH), (pathCheck_enc h q Hh Hq). cbn [andb].
    rewrite (enc_mod32 h q) by (try lia; exact Hq).
    destruct (Z.eqb_spec (maskL h q) 0) as [|Hne]; [reflexivity|].
    assert (Hl : (1 <= length q)%nat).
    { destruct q; [|cbn [length]; lia]. now rewrite maskL_nil in Hne. }
    rewrite (PathHeight_enc h q) by lia. rewrite HH. apply Z.eqb_refl.
  Qed.

  Lemma contracts_loose_ok : contracts_PathToIndexLoose T (enc h q) = true.
  Proof.
    destruct (Height_spec T h HT HH) as [_ Hh].
    unfold contracts_PathToIndexLoose.
    now rewrite (bitmapSizeCheck_ok T h HT HH), (pathCheck_enc h q Hh Hq), equalHeight_ok.
  Qed.

  Lemma haveLevel_ok : stored T q = true -> bitmapMustHaveLevel T (PathLen (enc h q)) = true.
  Proof.
    intros Hs. destruct (Height_spec T h HT HH) as [_ Hh].
    unfold bitmapMustHaveLevel. rewrite (PathLen_enc h q) by (try lia; exact Hq).
    rewrite has_bit by lia. fold (stored T q). now rewrite Hs.
  Qed.

  Lemma contracts_strict_ok : stored T q = true -> contracts_PathToIndex T (enc h q) = true.
  Proof.
    intros Hs. destruct (Height_spec T h HT HH) as [_ Hh].
    unfold contracts_PathToIndex.
    now rewrite (bitmapSizeCheck_ok T h HT HH), (pathCheck_enc h q Hh Hq), equalHeight_ok, (haveLevel_ok Hs).
  Qed.

  (** C03_debug *)
  Lemma PathToIndexLoose_debug_eq : PathToIndexLoose_debug T (enc h q) = PathToIndexLoose T (enc h q).
  Proof. unfold PathToIndexLoose_debug. now rewrite contracts_loose_ok. Qed.

  Lemma PathToIndex_debug_eq : stored T q = true -> PathToIndex_debug T (enc h q) = PathToIndex T (enc h q).
  Proof. intros Hs. unfold PathToIndex_debug. now rewrite (contracts_strict_ok Hs). Qed.

  (** the level contract is exactly the "stored" precondition: on a node of an absent level
      the debug build of PathToIndex does panic (which is why the property claims PathToIndex
      for stored nodes only) *)
  Lemma PathToIndex_debug_absent : stored T q = false -> PathToIndex_debug T (enc h q) = None.
  Proof.
    intros Hs. destruct (Height_spec T h HT HH) as [_ Hh].
    unfold PathToIndex_debug, contracts_PathToIndex, bitmapMustHaveLevel.
    rewrite (PathLen_enc h q) by (try lia; exact Hq).
    rewrite has_bit by lia. fold (stored T q). rewrite Hs. cbn [Z.b2z Z.eqb]. now rewrite andb_false_r.
  Qed.
End Contracts.

(** * the statements in the form the correspondence run evaluates them
    (Run/C03.v: the height is computed from T, the word is built by NewPath,
    the expected value is [spec_rank]/[spec_loose]) *)

Lemma Height_nonneg T : 1 <= T < 2 ^ 31 -> Height T = Z.of_nat (Z.to_nat (Height T)).
Proof.
  intros HT. unfold Height. rewrite u32_id by lia. destruct T as [|p|p]; try lia. cbn [bitlen].
  pose proof (Z.log2_nonneg (Z.pos p)). lia.
Qed.

Section Checker.
  Variables (T : Z) (q : node).
  Hypothesis HT : 1 <= T < 2 ^ 31.
  Let h := Z.to_nat (Height T).
  Hypothesis Hq : (length q <= h)%nat.

  Let HH : Height T = Z.of_nat h := Height_nonneg T HT.

  Lemma word_enc : NewPath (valL h q) (Z.of_nat (length q)) (Height T) = enc h q.
  Proof.
    destruct (Height_spec T h HT HH) as [_ Hh]. rewrite HH. apply NewPath_enc; [lia|exact Hq].
  Qed.

  Lemma spec_loose_eq : spec_loose T h q = (pre_rank T h q, Z.b2z (stored T q)).
  Proof. unfold spec_loose. rewrite spec_rank_pre_rank by (try exact Hq; apply T_range_h; assumption). reflexivity. Qed.

  Lemma checker_loose (b : bool) :
    (if b then PathToIndexLoose_debug else PathToIndexLoose) T (NewPath (valL h q) (Z.of_nat (length q)) (Height T))
    = Some (spec_loose T h q).
  Proof.
    rewrite word_enc, spec_loose_eq. destruct b.
    - rewrite (PathToIndexLoose_debug_eq T h q HT HH Hq). now apply PathToIndexLoose_pre_rank.
    - now apply PathToIndexLoose_pre_rank.
  Qed.

  Lemma checker_strict (b : bool) : stored T q = true ->
    (if b then PathToIndex_debug else PathToIndex) T (NewPath (valL h q) (Z.of_nat (length q)) (Height T))
    = Some (spec_rank T h q).
  Proof.
    intros Hs. rewrite word_enc. rewrite spec_rank_pre_rank by (try exact Hq; apply T_range_h; assumption).
    destruct b.
    - rewrite (PathToIndex_debug_eq T h q HT HH Hq Hs). now apply PathToIndex_pre_rank.
    - now apply PathToIndex_pre_rank.
  Qed.
End Checker.
