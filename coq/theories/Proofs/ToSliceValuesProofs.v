(** Proofs for the extra check X03: typehelper.ToSlice/values returns the elements of a slice, in order, as a fresh
    list of the same length, and panics exactly on the values that are not of kind slice. *)
From Coq Require Import ZArith List Bool Lia.
From Low Require Import Lib.BitSeq Model.ToSliceValues Spec.ToSliceValuesSpec.
Import ListNotations.
Open Scope Z_scope.

(** * rst[i] = x *)
Lemma set_nth_app (a : list gval) x y (b : list gval) :
  set_nth (a ++ y :: b) (length a) x = Some (a ++ x :: b).
Proof. induction a as [|h a IH]; cbn [set_nth app length]; [reflexivity|]. now rewrite IH. Qed.

Lemma set_nth_length l i x r : set_nth l i x = Some r -> length r = length l.
Proof.
  revert i r. induction l as [|h l IH]; intros [|i] r H; cbn [set_nth] in H; try discriminate.
  - inversion H. reflexivity.
  - destruct (set_nth l i x) eqn:E; [|discriminate]. inversion H. cbn [length]. f_equal. eapply IH; eauto.
Qed.

Lemma set_nth_None l i x : set_nth l i x = None <-> (length l <= i)%nat.
Proof.
  revert i. induction l as [|h l IH]; intros [|i]; cbn [set_nth length]; split; intros H; try reflexivity; try lia; try discriminate.
  - destruct (set_nth l i x) eqn:E; [discriminate|]. apply IH in E. lia.
  - assert (E : set_nth l i x = None) by (apply IH; lia). now rewrite E.
Qed.

(** * the copy loop: after the iterations for 0..i-1 the result holds the first i elements followed by nils *)
Definition partial_rst (el : list gval) (i : nat) : list gval :=
  firstn i el ++ repeat GNil (length el - i).

Lemma partial_rst_step el i e : nth_error el i = Some e ->
  set_nth (partial_rst el i) i e = Some (partial_rst el (S i)).
Proof.
  intros He. unfold partial_rst.
  assert (Hi : (i < length el)%nat) by (apply nth_error_Some; congruence).
  replace (length el - i)%nat with (S (length el - S i)) by lia. cbn [repeat].
  assert (Hl : length (firstn i el) = i) by (rewrite firstn_length; lia).
  pose proof (set_nth_app (firstn i el) e GNil (repeat GNil (length el - S i))) as Hs0.
  rewrite Hl in Hs0. rewrite Hs0. f_equal.
  assert (Hs : firstn (S i) el = firstn i el ++ [e]).
  { clear Hl Hi Hs0. revert i He. induction el as [|h t IH]; intros [|i] He; cbn in He; try discriminate.
    - inversion He. reflexivity.
    - cbn [firstn app]. f_equal. now apply IH. }
  rewrite Hs, <- app_assoc. reflexivity.
Qed.

Lemma toSlice_loop_spec el : forall fuel i,
  (i <= length el)%nat -> (length el - i < fuel)%nat ->
  toSlice_loop fuel el (Z.of_nat i) (zlen el) (partial_rst el i) = Some el.
Proof.
  induction fuel as [|f IH]; intros i Hi Hf; [lia|].
  cbn [toSlice_loop]. unfold zlen.
  destruct (Z.ltb_spec (Z.of_nat i) (Z.of_nat (length el))) as [Hlt|Hge].
  - rewrite nthZ_of_nat.
    destruct (nth_error el i) as [e|] eqn:He; [|apply nth_error_None in He; lia].
    unfold set_nthZ. destruct (Z.ltb_spec (Z.of_nat i) 0); [lia|]. rewrite Nat2Z.id.
    rewrite (partial_rst_step el i e He).
    replace (Z.of_nat i + 1) with (Z.of_nat (S i)) by lia.
    apply IH; lia.
  - assert (i = length el) by lia. subst i. unfold partial_rst.
    rewrite firstn_all, Nat.sub_diag. cbn [repeat]. now rewrite app_nil_r.
Qed.

(** * ToSlice *)
Lemma ToSlice_slice t fl el : ToSlice (GSlice t fl el) = Some el.
Proof.
  unfold ToSlice. cbn [kind_of slice_elems]. rewrite Z.eqb_refl. cbn [negb].
  cbv zeta. assert (E : Z.to_nat (zlen el) = length el) by (unfold zlen; apply Nat2Z.id). rewrite !E.
  pose proof (toSlice_loop_spec el (S (length el)) 0 ltac:(lia) ltac:(lia)) as H.
  unfold partial_rst in H. cbn [firstn app] in H. rewrite Nat.sub_0_r in H. exact H.
Qed.

Lemma ToSlice_not_slice arg : kind_of arg <> K_Slice -> ToSlice arg = None.
Proof. intros H. unfold ToSlice. destruct (Z.eqb_spec (kind_of arg) K_Slice); [contradiction|reflexivity]. Qed.

Lemma wf_kind_slice arg : wf arg = true -> kind_of arg = K_Slice -> exists t fl el, arg = GSlice t fl el.
Proof.
  intros Hw Hk. destruct arg; cbn [kind_of] in Hk; try (unfold K_Slice, K_Invalid, K_String, K_Array, K_Ptr in Hk; discriminate).
  - cbn [wf] in Hw. unfold K_Slice in Hk. subst k. discriminate.
  - eauto.
  - cbn [wf] in Hw. unfold K_Slice, K_Chan, K_Func, K_Map, K_Struct in *. subst tag. discriminate.
Qed.

Lemma ToSlice_exact arg : wf arg = true -> ToSlice arg = spec_ToSlice arg.
Proof.
  intros Hw. destruct (Z.eq_dec (kind_of arg) K_Slice) as [Hk|Hk].
  - destruct (wf_kind_slice arg Hw Hk) as (t & fl & el & ->). apply ToSlice_slice.
  - rewrite (ToSlice_not_slice arg Hk). destruct arg; try reflexivity. exfalso. apply Hk. reflexivity.
Qed.

Lemma ToSlice_panics_iff arg : wf arg = true -> (ToSlice arg = None <-> kind_of arg <> K_Slice).
Proof.
  intros Hw. split; [|apply ToSlice_not_slice].
  intros H Hk. destruct (wf_kind_slice arg Hw Hk) as (t & fl & el & ->). rewrite ToSlice_slice in H. discriminate.
Qed.

(** every successful call returns exactly the elements, whatever the argument (no well-formedness needed) *)
Lemma ToSlice_Some arg r : ToSlice arg = Some r -> kind_of arg = K_Slice /\ r = slice_elems arg.
Proof.
  intros H. destruct (Z.eq_dec (kind_of arg) K_Slice) as [Hk|Hk]; [|rewrite (ToSlice_not_slice arg Hk) in H; discriminate].
  split; [assumption|].
  unfold ToSlice in H. rewrite Hk, Z.eqb_refl in H. cbn [negb] in H. cbv zeta in H.
  assert (E : Z.to_nat (zlen (slice_elems arg)) = length (slice_elems arg)) by (unfold zlen; apply Nat2Z.id). rewrite !E in H.
  pose proof (toSlice_loop_spec (slice_elems arg) (S (length (slice_elems arg))) 0 ltac:(lia) ltac:(lia)) as H0.
  unfold partial_rst in H0. cbn [firstn app] in H0. rewrite Nat.sub_0_r in H0.
  change (Z.of_nat 0) with 0 in H0. rewrite H0 in H. now inversion H.
Qed.

Lemma ToSlice_elems arg r : ToSlice arg = Some r -> is_elems_of arg r.
Proof. intros H. apply ToSlice_Some in H as [_ ->]. split; [reflexivity|]. intros; reflexivity. Qed.

Lemma nth_error_ext' {A} (l m : list A) : (forall i, nth_error l i = nth_error m i) -> l = m.
Proof.
  revert m. induction l as [|a l IH]; intros [|b m] H; try reflexivity;
    try (specialize (H O); discriminate).
  pose proof (H O) as H0. cbn in H0. inversion H0. f_equal. apply IH. intros i. exact (H (S i)).
Qed.

Lemma is_elems_of_unique arg r : is_elems_of arg r -> r = slice_elems arg.
Proof.
  intros [Hl Hn]. apply nth_error_ext'. intros i.
  destruct (Nat.lt_ge_cases i (length r)) as [Hi|Hi]; [now apply Hn|].
  rewrite (proj2 (nth_error_None r i)) by lia. symmetry. apply nth_error_None. lia.
Qed.

(** typing: the elements of a well-formed slice fit its element type and are well-formed themselves *)
Lemma ToSlice_typed t fl el r : wf (GSlice t fl el) = true -> ToSlice (GSlice t fl el) = Some r ->
  Forall (fun e => has_type t e = true /\ wf e = true) r.
Proof.
  intros Hw H. rewrite ToSlice_slice in H. inversion H. subst r.
  cbn [wf] in Hw. apply andb_true_iff in Hw as [Hw _].
  apply Forall_forall. intros e He. rewrite forallb_forall in Hw. specialize (Hw e He).
  now apply andb_true_iff in Hw.
Qed.

(** the result, seen as a []interface{} value, is a fixed point: converting it again changes nothing *)
Lemma ToSlice_idem arg r : ToSlice arg = Some r -> ToSlice (GSlice TIface 0 r) = Some r.
Proof. intros _. apply ToSlice_slice. Qed.

Lemma ToSlice_length arg r : ToSlice arg = Some r -> zlen r = zlen (slice_elems arg).
Proof. intros H. apply ToSlice_Some in H as [_ ->]. reflexivity. Qed.

(** a nil slice gives an empty (non-nil) result, not a panic *)
Lemma ToSlice_nil_slice t fl : ToSlice (GSlice t fl []) = Some [].
Proof. apply ToSlice_slice. Qed.
