(** Proofs for C15 (TailBitmap): the state-level invariant lemmas.

    [WInv P off ws] is the per-word form of the invariant (bit [b] of word [i]
    is 1 iff index [off + 64*i + b] has been set; every set index is below the
    end).  It is shown to be preserved by [compact_loop], [grow], the word
    update of [Set_]; then [Inv] (= WInv + alignment + head-not-all-ones +
    "everything below Offset is a member") is preserved by [Compact] and
    [Set_]; [Get]/[Get1] read membership under [Inv].  The history-level
    statements are in Proofs/TailBitmapHist.v. *)
From Coq Require Import ZArith List Bool Lia.
From Low Require Import Lib.MachInt Lib.Bits Lib.BitSeq Model.TailBitmap Spec.TailBitmapInv.
Import ListNotations.
Open Scope Z_scope.

(** * words *)

Lemma allOnes_eq : allOnes = Z.ones 64.
Proof. reflexivity. Qed.

Lemma testbit_high_false w n : 0 <= w < 2^64 -> 64 <= n -> Z.testbit w n = false.
Proof.
  intros Hw Hn. rewrite <- (Z.mod_small w (2^64)) by lia.
  apply Z.mod_pow2_bits_high. lia.
Qed.

Lemma allOnes_bits w : 0 <= w < 2^64 ->
  (w = allOnes <-> forall b, 0 <= b < 64 -> Z.testbit w b = true).
Proof.
  intros Hw. split.
  - intros -> b Hb. rewrite allOnes_eq. apply Z.ones_spec_low. lia.
  - intros H. apply Z.bits_inj'. intros n Hn. rewrite allOnes_eq.
    destruct (Z_lt_le_dec n 64).
    + rewrite H by lia. symmetry. apply Z.ones_spec_low. lia.
    + rewrite testbit_high_false by lia. symmetry. apply Z.ones_spec_high. lia.
Qed.

Lemma lor_bit_range w b : 0 <= w < 2^64 -> 0 <= b < 64 -> 0 <= Z.lor w (Bit b) < 2^64.
Proof.
  intros Hw Hb. unfold Bit.
  assert (H0 : 0 <= Z.lor w (2^b)) by (apply Z.lor_nonneg; split; [lia|apply Z.pow_nonneg; lia]).
  split; [exact H0|].
  destruct (Z.eq_dec (Z.lor w (2^b)) 0) as [->|Hne]; [reflexivity|].
  apply Z.log2_lt_pow2; [lia|].
  rewrite Z.log2_lor by (try apply Z.pow_nonneg; lia).
  rewrite Z.log2_pow2 by lia.
  apply Z.max_lub_lt; [|lia].
  destruct (Z.eq_dec w 0) as [->|Hw0]; [cbn; lia|].
  apply Z.log2_lt_pow2; lia.
Qed.

Lemma testbit_lor_bit w b c : 0 <= b -> 0 <= c ->
  Z.testbit (Z.lor w (Bit b)) c = Z.testbit w c || (b =? c).
Proof.
  intros Hb Hc. unfold Bit. rewrite Z.lor_spec. f_equal.
  destruct (Z.eqb_spec b c) as [->|Hne].
  - apply Z.pow2_bits_true. lia.
  - apply Z.pow2_bits_false. lia.
Qed.

(** * the per-word invariant *)

Record WInv (P : Z -> Prop) (off : Z) (ws : list Z) : Prop := mkWInv {
  wi_words : words_ok ws;
  wi_bits : forall i w b, nth_error ws i = Some w -> 0 <= b < 64 ->
            (Z.testbit w b = true <-> P (off + 64 * Z.of_nat i + b));
  wi_end : forall j, P j -> j < off + 64 * zlen ws
}.

Definition head_ok (ws : list Z) : Prop := forall w t, ws = w :: t -> w <> allOnes.

(** ** compact_loop *)

Lemma compact_loop_spec P : forall ws off, WInv P off ws ->
  let '(off', ws') := compact_loop off ws in
  WInv P off' ws' /\ head_ok ws' /\ off <= off' /\ (off' - off) mod 64 = 0 /\
  (forall j, off <= j < off' -> P j) /\
  off' + 64 * zlen ws' = off + 64 * zlen ws.
Proof.
  induction ws as [|w t IH]; intros off HW.
  - cbn [compact_loop]. split; [exact HW|]. split; [intros x t' E; discriminate|].
    split; [lia|]. split; [rewrite Z.sub_diag; reflexivity|]. split; [intros; lia|lia].
  - cbn [compact_loop]. destruct (Z.eqb_spec w allOnes) as [Ew|Ew].
    + assert (Hw : 0 <= w < 2^64).
      { pose proof (wi_words _ _ _ HW) as Hok. inversion Hok; subst. assumption. }
      assert (Hall : forall b, 0 <= b < 64 -> P (off + b)).
      { intros b Hb. pose proof (wi_bits _ _ _ HW 0%nat w b eq_refl Hb) as Hbit.
        replace (off + 64 * Z.of_nat 0 + b) with (off + b) in Hbit by lia.
        apply Hbit. apply (proj1 (allOnes_bits w Hw)); assumption. }
      assert (HW' : WInv P (off + 64) t).
      { constructor.
        - pose proof (wi_words _ _ _ HW) as Hok. inversion Hok; subst. assumption.
        - intros i w' b Hn Hb.
          pose proof (wi_bits _ _ _ HW (S i) w' b Hn Hb) as Hbit.
          replace (off + 64 + 64 * Z.of_nat i + b) with (off + 64 * Z.of_nat (S i) + b) by lia.
          exact Hbit.
        - intros j Hj. pose proof (wi_end _ _ _ HW j Hj) as He.
          unfold zlen in *. cbn [length] in He. lia. }
      specialize (IH (off + 64) HW').
      destruct (compact_loop (off + 64) t) as [off' ws'].
      destruct IH as (I1 & I2 & I3 & I4 & I5 & I6).
      split; [exact I1|]. split; [exact I2|]. split; [lia|]. split; [|split].
      * replace (off' - off) with ((off' - (off + 64)) + 1 * 64) by lia.
        rewrite Z.mod_add by lia. exact I4.
      * intros j Hj. destruct (Z_lt_le_dec j (off + 64)).
        -- replace j with (off + (j - off)) by lia. apply Hall. lia.
        -- apply I5. lia.
      * unfold zlen in *. cbn [length]. lia.
    + split; [exact HW|]. split; [intros w' t' E; inversion E; subst; exact Ew|].
      split; [lia|]. split; [rewrite Z.sub_diag; reflexivity|]. split; [intros; lia|lia].
Qed.

(** ** grow *)

Lemma grow_eq ws wi : grow ws wi = ws ++ repeat 0 (Z.to_nat (wi + 1 - zlen ws)).
Proof.
  unfold grow. destruct (nthZ ws wi) as [w|] eqn:E; [|reflexivity].
  apply nthZ_Some in E. destruct E as [H0 E].
  assert (Z.to_nat wi < length ws)%nat by (apply nth_error_Some; congruence).
  replace (Z.to_nat (wi + 1 - zlen ws)) with 0%nat by (unfold zlen; lia).
  cbn [repeat]. rewrite app_nil_r. reflexivity.
Qed.

Lemma grow_length ws wi : zlen (grow ws wi) = Z.max (zlen ws) (wi + 1).
Proof.
  rewrite grow_eq. unfold zlen. rewrite app_length, repeat_length. lia.
Qed.

Lemma nth_error_repeat {A} (x : A) n i : (i < n)%nat -> nth_error (repeat x n) i = Some x.
Proof.
  revert i. induction n as [|n IH]; intros i Hi; [lia|].
  destruct i as [|i]; cbn [repeat nth_error]; [reflexivity|]. apply IH. lia.
Qed.

Lemma grow_WInv P off ws wi : WInv P off ws -> WInv P off (grow ws wi).
Proof.
  intros HW. constructor.
  - rewrite grow_eq. unfold words_ok. apply Forall_app. split; [apply HW|].
    apply Forall_forall. intros x Hx. apply repeat_spec in Hx. subst. unfold word_ok. lia.
  - intros i w b Hn Hb. rewrite grow_eq in Hn.
    destruct (Nat.lt_ge_cases i (length ws)) as [Hi|Hi].
    + rewrite nth_error_app1 in Hn by exact Hi. apply (wi_bits _ _ _ HW); assumption.
    + rewrite nth_error_app2 in Hn by exact Hi.
      assert (Hw : w = 0).
      { apply nth_error_In in Hn. apply repeat_spec in Hn. exact Hn. }
      subst w. rewrite Z.bits_0. split; [discriminate|].
      intros HP. apply (wi_end _ _ _ HW) in HP. unfold zlen in HP. lia.
  - intros j Hj. apply (wi_end _ _ _ HW) in Hj.
    rewrite grow_length. lia.
Qed.

(** ** update_nth *)

Lemma update_nth_spec f : forall ws i w, nth_error ws i = Some w ->
  exists ws', update_nth i f ws = Some ws' /\ length ws' = length ws /\
    nth_error ws' i = Some (f w) /\
    (forall k, k <> i -> nth_error ws' k = nth_error ws k).
Proof.
  induction ws as [|x t IH]; intros i w Hn.
  - destruct i; discriminate.
  - destruct i as [|i]; cbn [update_nth nth_error] in *.
    + inversion Hn; subst. eexists. split; [reflexivity|]. repeat split.
      intros k Hk. destruct k; [congruence|reflexivity].
    + destruct (IH i w Hn) as (t' & E & L & N & O). rewrite E.
      eexists. split; [reflexivity|]. cbn [length nth_error]. repeat split; [congruence|exact N|].
      intros k Hk. destruct k; [reflexivity|]. cbn [nth_error]. apply O. congruence.
Qed.

Lemma update_WInv P off ws i w b ws' :
  WInv P off ws -> nth_error ws i = Some w -> 0 <= b < 64 ->
  length ws' = length ws -> nth_error ws' i = Some (Z.lor w (Bit b)) ->
  (forall k, k <> i -> nth_error ws' k = nth_error ws k) ->
  WInv (fun j => P j \/ j = off + 64 * Z.of_nat i + b) off ws'.
Proof.
  intros HW Hn Hb HL HN HO. constructor.
  - unfold words_ok. apply Forall_forall. intros x Hx.
    apply In_nth_error in Hx. destruct Hx as [k Hk].
    destruct (Nat.eq_dec k i) as [->|Hne].
    + rewrite HN in Hk. inversion Hk; subst. apply lor_bit_range; [|exact Hb].
      pose proof (wi_words _ _ _ HW) as Hok. unfold words_ok in Hok.
      rewrite Forall_forall in Hok. apply Hok. eapply nth_error_In; eassumption.
    + rewrite HO in Hk by exact Hne.
      pose proof (wi_words _ _ _ HW) as Hok. unfold words_ok in Hok.
      rewrite Forall_forall in Hok. apply Hok. eapply nth_error_In; eassumption.
  - intros k x c Hk Hc.
    destruct (Nat.eq_dec k i) as [->|Hne].
    + rewrite HN in Hk. inversion Hk; subst x.
      rewrite testbit_lor_bit by lia. rewrite orb_true_iff.
      rewrite (wi_bits _ _ _ HW i w c Hn Hc). rewrite Z.eqb_eq.
      split; (intros [H|H]; [left; exact H|right; lia]).
    + rewrite HO in Hk by exact Hne.
      rewrite (wi_bits _ _ _ HW k x c Hk Hc).
      split; [intros H; left; exact H|].
      intros [H|H]; [exact H|]. exfalso. apply Hne.
      assert (Z.of_nat k = Z.of_nat i) by lia. lia.
  - intros j [Hj|Hj].
    + unfold zlen. rewrite HL. apply (wi_end _ _ _ HW). exact Hj.
    + subst j. unfold zlen. rewrite HL.
      assert (i < length ws)%nat by (apply nth_error_Some; congruence). lia.
Qed.

Lemma WInv_ext P Q off ws : (forall j, P j <-> Q j) -> WInv P off ws -> WInv Q off ws.
Proof.
  intros E HW. constructor.
  - apply HW.
  - intros i w b Hn Hb. rewrite <- E. apply (wi_bits _ _ _ HW); assumption.
  - intros j Hj. apply (wi_end _ _ _ HW). apply E. exact Hj.
Qed.

(** * the state invariant *)

(** [st] says whether the head clause is part of the invariant: [Inv True] is the invariant of the
    states reachable from NewTailBitmap; [Inv False] is what survives from an arbitrary well-formed
    struct literal (whose first word may be all-ones until the first word is touched or Compact runs). *)
Record Inv (st : Prop) (o : Z) (P : Z -> Prop) (s : tb) : Prop := mkInv {
  inv_align : Offset s mod 64 = 0;
  inv_ge : o <= Offset s;
  inv_head : st -> head_ok (Words s);
  inv_below : forall j, j < Offset s -> j < o \/ P j;
  inv_w : WInv P (Offset s) (Words s)
}.

Lemma Inv_ext st o P Q s : (forall j, P j <-> Q j) -> Inv st o P s -> Inv st o Q s.
Proof.
  intros E H. constructor; try apply H.
  - intros j Hj. destruct (inv_below _ _ _ _ H j Hj) as [A|A]; [left; exact A|right; apply E; exact A].
  - eapply WInv_ext; [exact E|apply H].
Qed.

Lemma Inv_New st o : o mod 64 = 0 -> Inv st o (fun _ => False) (NewTailBitmap o).
Proof.
  intros Ho. constructor; cbn [NewTailBitmap Offset Words].
  - exact Ho.
  - lia.
  - intros _ w t E. discriminate.
  - intros j Hj. left. exact Hj.
  - constructor.
    + constructor.
    + intros i w b Hn. destruct i; discriminate.
    + intros j [].
Qed.

(** [Compact] in terms of [compact_loop]: the reclaim bookkeeping changes only [reclaimed] *)
Lemma Compact_fields s :
  Offset (Compact s) = fst (compact_loop (Offset s) (Words s)) /\
  Words (Compact s) = snd (compact_loop (Offset s) (Words s)).
Proof.
  unfold Compact. destruct (compact_loop (Offset s) (Words s)) as [off ws].
  destruct (off - reclaimed s >=? reclaimThreshold); split; reflexivity.
Qed.

Definition end_of (s : tb) : Z := tb_end (Offset s) (Words s).

Lemma Inv_Compact st o P s : Inv st o P s ->
  Inv True o P (Compact s) /\ Offset s <= Offset (Compact s) /\ end_of (Compact s) = end_of s /\
  (forall j, Offset s <= j < Offset (Compact s) -> P j).
Proof.
  intros H. destruct (Compact_fields s) as [EO EW].
  pose proof (compact_loop_spec P (Words s) (Offset s) (inv_w _ _ _ _ H)) as L.
  destruct (compact_loop (Offset s) (Words s)) as [off' ws']. cbn [fst snd] in *.
  destruct L as (I1 & I2 & I3 & I4 & I5 & I6).
  unfold end_of, tb_end. rewrite EO, EW.
  split; [|split; [exact I3|split; [lia|exact I5]]].
  constructor; rewrite ?EO, ?EW.
  - replace off' with (Offset s + (off' - Offset s)) by lia.
    rewrite Z.add_mod by lia. rewrite (inv_align _ _ _ _ H), I4. reflexivity.
  - pose proof (inv_ge _ _ _ _ H). lia.
  - intros _. exact I2.
  - intros j Hj. destruct (Z_lt_le_dec j (Offset s)).
    + apply (inv_below _ _ _ _ H). assumption.
    + right. apply I5. lia.
  - exact I1.
Qed.

Lemma Inv_weaken (st st' : Prop) o P s : (st' -> st) -> Inv st o P s -> Inv st' o P s.
Proof.
  intros W H. constructor; try apply H. intros A. apply (inv_head _ _ _ _ H). apply W. exact A.
Qed.

Lemma Inv_strengthen (st : Prop) o P s : head_ok (Words s) -> Inv st o P s -> Inv True o P s.
Proof. intros Hh H. constructor; try apply H. intros _. exact Hh. Qed.

(** whatever the state, Compact leaves a first word that is not all-ones *)
Lemma compact_loop_head : forall ws off, head_ok (snd (compact_loop off ws)).
Proof.
  induction ws as [|w t IH]; intros off; cbn [compact_loop].
  - intros x t' E. discriminate.
  - destruct (Z.eqb_spec w allOnes) as [E|E]; [apply IH|].
    cbn [snd]. intros x t' E'. inversion E'; subst. exact E.
Qed.

Lemma Compact_head s : head_ok (Words (Compact s)).
Proof. destruct (Compact_fields s) as [_ ->]. apply compact_loop_head. Qed.

(** ** Set *)

Lemma shiftr6 x : Z.shiftr x 6 = x / 64.
Proof. rewrite Z.shiftr_div_pow2 by lia. reflexivity. Qed.

Lemma land63 x : Z.land x 63 = x mod 64.
Proof. change 63 with (Z.ones 6). rewrite Z.land_ones by lia. reflexivity. Qed.

Lemma nth_error_grow_some ws wi : 0 <= wi ->
  exists w, nth_error (grow ws wi) (Z.to_nat wi) = Some w.
Proof.
  intros Hwi. destruct (nth_error (grow ws wi) (Z.to_nat wi)) eqn:E; [eauto|].
  apply nth_error_None in E. pose proof (grow_length ws wi) as L. unfold zlen in L. lia.
Qed.

(** Set never panics, and what it does to the exported fields *)
Lemma Set_spec st o P s idx : Inv st o P s ->
  exists s', Set_ s idx = Some s' /\ Inv st o (fun j => P j \/ j = idx) s' /\
             Offset s <= Offset s' /\ end_of s <= end_of s' /\
             (forall j, Offset s <= j < Offset s' -> P j \/ j = idx).
Proof.
  intros H. unfold Set_. destruct (Z.ltb_spec idx (Offset s)) as [Hlt|Hge].
  - exists s. split; [reflexivity|]. split; [|split; [lia|split; [lia|intros; lia]]].
    constructor; try apply H.
    + intros j Hj. destruct (inv_below _ _ _ _ H j Hj); [left|right; left]; assumption.
    + constructor; try apply H.
      * intros i w b Hn Hb. rewrite (wi_bits _ _ _ (inv_w _ _ _ _ H) i w b Hn Hb).
        split; [intros A; left; exact A|]. intros [A|A]; [exact A|]. lia.
      * intros j [Hj|Hj]; [apply (wi_end _ _ _ (inv_w _ _ _ _ H)); exact Hj|].
        subst j. unfold zlen. lia.
  - cbv zeta. rewrite shiftr6, land63.
    set (d := idx - Offset s). assert (Hd : 0 <= d) by (unfold d; lia).
    set (wi := d / 64). set (b := d mod 64).
    assert (Hwi : 0 <= wi) by (apply Z.div_pos; lia).
    assert (Hb : 0 <= b < 64) by (apply Z.mod_pos_bound; lia).
    assert (Hdec : idx = Offset s + 64 * Z.of_nat (Z.to_nat wi) + b).
    { rewrite Z2Nat.id by exact Hwi. unfold wi, b. pose proof (Z.div_mod d 64). unfold d in *. lia. }
    pose proof (grow_WInv P (Offset s) (Words s) wi (inv_w _ _ _ _ H)) as HG.
    destruct (nth_error_grow_some (Words s) wi Hwi) as [w Hw].
    destruct (update_nth_spec (fun w => Z.lor w (Bit b)) _ _ _ Hw) as (ws' & EU & LU & NU & OU).
    unfold updateZ. destruct (Z.ltb_spec wi 0) as [?|_]; [lia|]. rewrite EU.
    pose proof (update_WInv P _ _ _ _ _ _ HG Hw Hb LU NU OU) as HU.
    rewrite <- Hdec in HU.
    assert (Hlen : zlen ws' = Z.max (zlen (Words s)) (wi + 1)).
    { unfold zlen at 1. rewrite LU. apply grow_length. }
    set (s1 := mkTB (Offset s) ws' (reclaimed s)).
    assert (Hhd : wi <> 0 -> st -> head_ok ws').
    { intros Hne St x t E.
      assert (N0 : nth_error ws' 0 = nth_error (grow (Words s) wi) 0).
      { apply OU. intros E0. apply Hne. apply (f_equal Z.of_nat) in E0.
        rewrite Z2Nat.id in E0 by exact Hwi. cbn in E0. lia. }
      rewrite E in N0. cbn [nth_error] in N0. rewrite grow_eq in N0.
      destruct (Words s) as [|y t'] eqn:EW.
      - cbn [app] in N0.
        destruct (Z.to_nat (wi + 1 - zlen (@nil Z))) eqn:En; cbn [repeat nth_error] in N0; [discriminate|].
        inversion N0; subst x. unfold allOnes. lia.
      - cbn [app nth_error] in N0. inversion N0; subst x.
        apply (inv_head _ _ _ _ H St y t'). exact EW. }
    destruct (Z.eqb_spec wi 0) as [E0|E0].
    + (* the first word was touched: Compact *)
      assert (HI : WInv (fun j => P j \/ j = idx) (Offset s1) (Words s1)) by exact HU.
      pose proof (compact_loop_spec _ (Words s1) (Offset s1) HI) as L.
      destruct (Compact_fields s1) as [EO EW].
      destruct (compact_loop (Offset s1) (Words s1)) as [off' wsc]. cbn [fst snd] in *.
      destruct L as (I1 & I2 & I3 & I4 & I5 & I6).
      exists (Compact s1). split; [reflexivity|].
      cbn [Offset Words s1] in *.
      split; [|split; [lia|split]].
      * constructor; rewrite ?EO, ?EW; try assumption; try (intros _; exact I2).
        -- replace off' with (Offset s + (off' - Offset s)) by lia.
           rewrite Z.add_mod by lia. rewrite (inv_align _ _ _ _ H), I4. reflexivity.
        -- pose proof (inv_ge _ _ _ _ H). lia.
        -- intros j Hj. destruct (Z_lt_le_dec j (Offset s)).
           ++ destruct (inv_below _ _ _ _ H j); [assumption|left; assumption|right; left; assumption].
           ++ right. apply I5. lia.
      * unfold end_of, tb_end. rewrite EO, EW. lia.
      * rewrite EO. intros j Hj. apply I5. lia.
    + exists s1. split; [reflexivity|]. cbn [Offset Words s1].
      split; [|split; [lia|split; [unfold end_of, tb_end; cbn [Offset Words s1]; lia|intros; lia]]].
      constructor; cbn [Offset Words s1]; try apply H.
      * apply Hhd. exact E0.
      * intros j Hj. destruct (inv_below _ _ _ _ H j Hj); [left|right; left]; assumption.
      * exact HU.
Qed.

(** ** Get / Get1 *)

Lemma index_split off j : off mod 64 = 0 -> off <= j ->
  (j - off) mod 64 = j mod 64.
Proof.
  intros Ha Hj. rewrite Zminus_mod, Ha, Z.sub_0_r. apply Z.mod_mod. lia.
Qed.

Lemma Get_spec st o P s j (m : bool) : Inv st o P s -> j < end_of s ->
  (m = true <-> j < o \/ P j) ->
  Get1 s j = Some (Z.b2z m) /\ Get s j = Some (Z.shiftl (Z.b2z m) (j mod 64)).
Proof.
  intros H Hj Hm. unfold Get, Get1. destruct (Z.ltb_spec j (Offset s)) as [Hlt|Hge].
  - assert (m = true) as -> by (apply Hm; apply (inv_below _ _ _ _ H); exact Hlt).
    rewrite land63. cbn [Z.b2z]. rewrite Z.shiftl_1_l. split; reflexivity.
  - cbv zeta. rewrite shiftr6, land63.
    set (d := j - Offset s). assert (Hd : 0 <= d) by (unfold d; lia).
    assert (Hwi : 0 <= d / 64) by (apply Z.div_pos; lia).
    assert (Hb : 0 <= d mod 64 < 64) by (apply Z.mod_pos_bound; lia).
    assert (Hr : d / 64 < zlen (Words s)).
    { unfold end_of, tb_end in Hj. apply Z.div_lt_upper_bound; [lia|]. unfold d. lia. }
    destruct (nthZ_in_range (Words s) (d / 64) (conj Hwi Hr)) as [w Hw]. rewrite Hw.
    apply nthZ_Some in Hw. destruct Hw as [_ Hw].
    pose proof (wi_bits _ _ _ (inv_w _ _ _ _ H) _ w _ Hw Hb) as Hbit.
    rewrite Z2Nat.id in Hbit by exact Hwi.
    replace (Offset s + 64 * (d / 64) + d mod 64) with j in Hbit
      by (pose proof (Z.div_mod d 64); unfold d in *; lia).
    assert (Em : Z.testbit w (d mod 64) = m).
    { destruct m, (Z.testbit w (d mod 64)); try reflexivity.
      - exfalso. assert (A : j < o \/ P j) by (apply Hm; reflexivity).
        destruct A as [A|A]; [pose proof (inv_ge _ _ _ _ H); lia|].
        apply Hbit in A. discriminate.
      - exfalso. assert (A : false = true) by (apply Hm; right; apply Hbit; reflexivity).
        discriminate. }
    split.
    + rewrite shiftr_land_1 by lia. rewrite Em. reflexivity.
    + unfold Bit. rewrite land_bit_testbit by lia. rewrite Em.
      unfold d. rewrite index_split by (try apply H; lia).
      destruct m; cbn [Z.b2z]; [rewrite Z.shiftl_1_l|rewrite Z.shiftl_0_l]; reflexivity.
Qed.

(** outside the stored words Get/Get1 panic (index out of range) *)
Lemma Get_out s j : Offset s <= j -> end_of s <= j -> Get s j = None /\ Get1 s j = None.
Proof.
  intros Hge He. unfold Get, Get1. destruct (Z.ltb_spec j (Offset s)); [lia|].
  cbv zeta. rewrite shiftr6.
  assert (Hn : nthZ (Words s) ((j - Offset s) / 64) = None).
  { unfold nthZ. destruct (Z.ltb_spec ((j - Offset s) / 64) 0); [reflexivity|].
    apply nth_error_None. unfold end_of, tb_end, zlen in He.
    assert (Z.of_nat (length (Words s)) <= (j - Offset s) / 64).
    { apply Z.div_le_lower_bound; lia. }
    lia. }
  rewrite Hn. split; reflexivity.
Qed.

(** * from the per-word form to the bit-sequence form of Spec/TailBitmapInv.v *)

Lemma bitz_flat ws i w b : nth_error ws i = Some w -> 0 <= b < 64 ->
  bitz (flat ws) (64 * Z.of_nat i + b) = Z.testbit w b.
Proof.
  intros Hn Hb. unfold bitz.
  replace (Z.to_nat (64 * Z.of_nat i + b)) with (64 * i + Z.to_nat b)%nat by lia.
  pose proof (nth_error_flat ws i w (Z.to_nat b) Hn ltac:(lia)) as E.
  rewrite Z2Nat.id in E by lia.
  apply nth_error_nth with (d := false) in E. exact E.
Qed.

Lemma Inv_bits st o P s : Inv st o P s ->
  forall j, Offset s <= j < tb_end (Offset s) (Words s) ->
  (bitz (flat (Words s)) (j - Offset s) = true <-> P j).
Proof.
  intros H j Hj. unfold tb_end in Hj.
  set (d := j - Offset s). assert (Hd : 0 <= d) by (unfold d; lia).
  assert (Hwi : 0 <= d / 64) by (apply Z.div_pos; lia).
  assert (Hb : 0 <= d mod 64 < 64) by (apply Z.mod_pos_bound; lia).
  assert (Hr : d / 64 < zlen (Words s)).
  { apply Z.div_lt_upper_bound; [lia|]. unfold d. lia. }
  destruct (nthZ_in_range (Words s) (d / 64) (conj Hwi Hr)) as [w Hw].
  apply nthZ_Some in Hw. destruct Hw as [_ Hw].
  pose proof (wi_bits _ _ _ (inv_w _ _ _ _ H) _ w _ Hw Hb) as Hbit.
  rewrite Z2Nat.id in Hbit by exact Hwi.
  replace (Offset s + 64 * (d / 64) + d mod 64) with j in Hbit
    by (pose proof (Z.div_mod d 64); unfold d in *; lia).
  rewrite <- Hbit.
  pose proof (bitz_flat (Words s) _ w (d mod 64) Hw Hb) as Hz.
  rewrite Z2Nat.id in Hz by exact Hwi.
  replace (64 * (d / 64) + d mod 64) with d in Hz by (pose proof (Z.div_mod d 64); lia).
  rewrite Hz. reflexivity.
Qed.

(** the invariant without the head clause (what holds from an arbitrary struct literal) *)
Lemma Inv_TInvW st o P s : Inv st o P s -> TInvW o P (Offset s) (Words s).
Proof.
  intros H. constructor.
  - apply H.
  - apply H.
  - apply (wi_words _ _ _ (inv_w _ _ _ _ H)).
  - apply H.
  - apply (Inv_bits st o P s H).
  - apply (wi_end _ _ _ (inv_w _ _ _ _ H)).
Qed.

Lemma Inv_TInv (st : Prop) o P s : st -> Inv st o P s -> TInv o P (Offset s) (Words s).
Proof.
  intros St H. constructor.
  - apply H.
  - apply H.
  - apply (wi_words _ _ _ (inv_w _ _ _ _ H)).
  - intros w t E. apply (inv_head _ _ _ _ H St w t E).
  - apply H.
  - apply (Inv_bits st o P s H).
  - apply (wi_end _ _ _ (inv_w _ _ _ _ H)).
Qed.

(** a Set into the first stored word runs Compact: the first word is not all-ones afterwards *)
Lemma Set_head s idx s' : Offset s <= idx < Offset s + 64 -> Set_ s idx = Some s' ->
  head_ok (Words s').
Proof.
  intros Hr E. unfold Set_ in E. destruct (Z.ltb_spec idx (Offset s)); [lia|]. cbv zeta in E.
  rewrite shiftr6 in E.
  assert (Hw : (idx - Offset s) / 64 = 0) by (apply Z.div_small; lia).
  rewrite Hw in E.
  destruct (updateZ 0 _ _) as [ws'|]; [|discriminate].
  cbn [Z.eqb] in E. inversion E; subst s'. apply Compact_head.
Qed.
