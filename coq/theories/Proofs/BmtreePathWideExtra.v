(** C10 widening, second part:
    - the accessors of NewPath(sb, l, h) for ANY search word sb in the documented range;
    - next_out and siblings;
    - the repo's own well-formedness test [pathCheck] (pathcheck.go, debug build only)
      against decoding: on a non-empty mask it accepts exactly the path words of
      trees of height <= 30; on an empty mask it accepts any search bits < 2^30. *)
From Coq Require Import ZArith List Lia Bool.
From Low Require Import Lib.MachInt Lib.Bits Lib.BitSeq Lib.Lex Lib.Bytes Lib.BitsExtra_tree
  Spec.Bmtree Spec.PathSpec Spec.ContractSpec Spec.PathWideSpec
  Model.BmtreePath Model.BmtreePathStr Model.BmtreeIndex Model.BmtreePathWide
  Proofs.BmtreePathProofs Proofs.BmtreeIndexProofs Proofs.BmtreeContractProofs Proofs.BmtreeDomainProofs
  Proofs.BmtreePathFamily Proofs.BmtreePathRawFields Proofs.BmtreeNewPathRaw Proofs.BmtreePathRebuild.
Import ListNotations.
Open Scope Z_scope.

(** * any search word *)
Lemma val_msb_repeat_false n : val_msb (repeat false n) = 0.
Proof.
  induction n as [|n IH]; [reflexivity|]. cbn [repeat]. rewrite val_msb_cons, IH. cbn [Z.b2z]. lia.
Qed.

Lemma enc_zero_node h l : enc h (repeat false l) = Mask (Z.of_nat l) * 2 ^ (Z.of_nat h - Z.of_nat l).
Proof. unfold enc, valL. rewrite repeat_length, val_msb_repeat_false. lia. Qed.

Lemma NewPath_full_anybits sb h l : (h <= 32)%nat -> (l <= h)%nat ->
  NewPath_full sb (Z.of_nat l) (Z.of_nat h) = Some (enc h (repeat false l) + (sb mod 2 ^ 32) * 2 ^ 32).
Proof. intros Hh Hl. rewrite NewPath_full_range by lia. rewrite enc_zero_node. f_equal. lia. Qed.

Lemma fields_anybits sb h l w : (h <= 32)%nat -> (l <= h)%nat ->
  NewPath_full sb (Z.of_nat l) (Z.of_nat h) = Some w ->
  PathLen w = Z.of_nat l /\ ((1 <= l)%nat -> PathHeight w = Z.of_nat h) /\
  PathBits w = sb mod 2 ^ 32 /\ PathMask w = Mask (Z.of_nat l) * 2 ^ (Z.of_nat h - Z.of_nat l).
Proof.
  intros Hh Hl E. rewrite NewPath_full_anybits in E by assumption.
  assert (Ew : w = enc h (repeat false l) + (sb mod 2 ^ 32) * 2 ^ 32) by congruence. clear E. subst w.
  assert (Hq : (length (repeat false l) <= h)%nat) by (rewrite repeat_length; exact Hl).
  pose proof (Z.mod_pos_bound sb (2 ^ 32) ltac:(lia)) as Hsb.
  pose proof (enc_u64 h (repeat false l) Hh Hq) as He.
  pose proof (maskL_lt32 h (repeat false l) Hh Hq) as Hm. unfold maskL in Hm. rewrite repeat_length in Hm.
  repeat split.
  - rewrite PathLen_noncanon by assumption. now rewrite repeat_length.
  - intros H1. apply PathHeight_noncanon; [exact Hh|rewrite repeat_length; lia].
  - rewrite PathBits_half, enc_zero_node.
    rewrite Z.add_comm. apply div_hi_lo; lia.
  - rewrite PathMask_half, enc_zero_node.
    rewrite Z.add_comm. apply mod_hi_lo; lia.
Qed.

(** * siblings *)
Lemma next_out_app_false p : next_out (p ++ [false]) = Some (p ++ [true]).
Proof.
  induction p as [|b p IH]; [reflexivity|]. cbn [app next_out]. now rewrite IH.
Qed.

Lemma next_out_app_true p : next_out (p ++ [true]) = next_out p.
Proof.
  induction p as [|b p IH]; [reflexivity|]. cbn [app next_out]. now rewrite IH.
Qed.

(** the whole sub-tree of a left child lies below its right sibling's word *)
Lemma left_subtree_below_sibling h p s : (h <= 32)%nat -> (length p + 1 + length s <= h)%nat ->
  enc h (p ++ [false] ++ s) < enc h (p ++ [true]).
Proof.
  intros Hh Hl.
  apply (subtree_interval h (p ++ [false]) (p ++ [false] ++ s) (p ++ [true])).
  - exact Hh.
  - rewrite app_length. cbn [length]. lia.
  - rewrite !app_length. cbn [length]. lia.
  - apply next_out_app_false.
  - rewrite app_assoc. apply is_prefix_app.
Qed.

(** * pathCheck *)
Lemma pathCheck_iff_decodes w : 0 <= w < 2 ^ 64 -> u32 w <> 0 ->
  (pathCheck w = true <-> PathHeight w <= 30 /\ is_some (dec_word w (PathHeight w)) = true).
Proof.
  intros Hw Hne. split.
  - intros H. destruct (pathCheck_inv w Hw H) as (Hp30 & Hm30 & [E0 | (l & d & Hl1 & Hld & Em & Hmod & Hlt)]); [contradiction|].
    assert (Hh : PathHeight w <= 30).
    { unfold PathHeight. apply bitlen_le; [lia|]. pose proof (u32_range w). lia. }
    split; [exact Hh|].
    apply decode_some_iff; [exact Hw|].
    assert (EL : PathLen w = Z.of_nat l).
    { unfold PathLen. rewrite Em. pose proof (pow2_pos (Z.of_nat l) ltac:(lia)).
      rewrite popcount_mul_pow2 by lia. apply popcount_ones. }
    assert (EH : PathHeight w = Z.of_nat l + Z.of_nat d) by (unfold PathHeight; lia).
    rewrite EL, EH. replace (Z.of_nat l + Z.of_nat d - Z.of_nat l) with (Z.of_nat d) by lia.
    unfold u32 in Em. unfold Mask. tauto.
  - intros [Hh Hd]. destruct (dec_word w (PathHeight w)) as [q|] eqn:E; [|discriminate].
    destruct (enc_dec w q Hw E) as [Hl Ew]. rewrite <- Ew.
    pose proof (PathHeight_le32 w). apply pathCheck_enc; lia.
Qed.

(** the gap of pathCheck's early return: with an empty mask half any search bits
    below 2^30 pass, although only w = 0 is a path word *)
Lemma pathCheck_empty_mask w : 0 <= w < 2 ^ 64 -> u32 w = 0 ->
  (pathCheck w = true <-> w / 2 ^ 32 < 2 ^ 30).
Proof.
  intros Hw E0. destruct (word_split w Hw) as (Ew & Hp & Hm).
  unfold pathCheck. rewrite E0. cbn [Z.eqb]. rewrite andb_true_r, Z.eqb_eq. split.
  - intros H. rewrite Ew in H. apply land_top2_inv in H; [tauto|lia|lia].
  - intros H. rewrite Ew, E0. apply land_top2; lia.
Qed.

Lemma decodes_empty_mask w : 0 <= w < 2 ^ 64 -> u32 w = 0 ->
  (is_some (dec_word w (PathHeight w)) = true <-> w = 0).
Proof.
  intros Hw E0. destruct (word_split w Hw) as (Ew & Hp & Hm).
  rewrite decode_some_iff by exact Hw.
  unfold PathLen, PathHeight. rewrite E0. cbn [popcount bitlen]. unfold u32 in E0. rewrite E0.
  change (2 ^ (0 - 0)) with 1. change (2 ^ 0) with 1. rewrite Z.mod_1_r. unfold Mask. change (2 ^ 0 - 1) with 0.
  unfold u32 in Ew. split; [intros (_ & _ & H); lia|intros ->; cbn; lia].
Qed.
