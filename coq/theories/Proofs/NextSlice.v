(** C13 widened: cut a range out of a bitmap with Slice (slice.go), walk the result with
    NextOne / PrevOne: the walk returns the 1-bits of the range, shifted to start at 0.
    (Single NextOne / PrevOne calls on a slice: Proofs/SliceCompose.v, C14.) *)
From Coq Require Import ZArith List Lia Bool.
From Low Require Import Lib.Bits Lib.BitSeq Model.BitmapNext Model.BitmapNextIter Model.BitmapOf Model.BitmapJoin
  Model.BitmapSliceArray Model.BitmapNextReaders Spec.NextSpec Spec.SliceArraySpec
  Proofs.NextLaws Proofs.JoinProofs Proofs.SliceArrayProofs.
Import ListNotations.
Open Scope Z_scope.

Theorem SliceWalk_exact ws from to : words_ok ws -> 0 <= from <= to -> to <= 64 * zlen ws ->
  let l := map (fun p => p - from) (ones_in ws from to) in
  SliceWalk ws from to = Some (l, rev l).
Proof.
  intros Hws Hft Hto l.
  destruct (Slice_bits ws from to Hws Hft Hto) as (r & E & Hr & _).
  pose proof (SliceToArray_correct ws from to Hws Hft Hto) as H. unfold SliceToArray in H. rewrite E in H.
  unfold SliceWalk. rewrite E.
  rewrite (IterNext_ToArray r Hr), (IterPrev_ToArray r Hr), H. cbn [option_map].
  reflexivity.
Qed.
