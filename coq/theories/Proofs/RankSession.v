(** C01 widening, round c: sessions and concurrent builds return what the bit-by-bit vocabulary says. *)
From Coq Require Import ZArith List Lia Bool.
From Low Require Import Lib.MachInt Lib.Bits Lib.BitSeq Spec.RankSpec Spec.RankLawsSpec Spec.RankSessionSpec
  Model.Rank Model.RankOps Model.RankSession Proofs.RankProofs Proofs.RankLaws Proofs.RankIndexLaws.
Import ListNotations.
Open Scope Z_scope.

Lemma expand_runs_eq runs : expand_runs runs = expand_rle runs.
Proof. reflexivity. Qed.

Lemma map_repeat' {A B} (f : A -> B) x n : map f (repeat x n) = repeat (f x) n.
Proof. induction n as [|n IH]; [reflexivity|]. cbn [repeat map]. now rewrite IH. Qed.

Lemma run_counts_eq runs : run_counts runs = map pop1 (expand_rle runs).
Proof.
  unfold run_counts, expand_runs, expand_rle. induction runs as [|[c w] t IH]; [reflexivity|].
  cbn [map concat fst snd]. rewrite map_app, map_repeat', IH. reflexivity.
Qed.

(** the per-run formulation is the running-sum formulation of Spec/RankLawsSpec.v on the expanded bitmap *)
Theorem spec_index_rle_indexes runs :
  (spec_index_rle (F64 false) runs, spec_index_rle (F64 true) runs, spec_index_rle F128 runs)
  = spec_indexes (expand_rle runs).
Proof. unfold spec_index_rle, spec_index_of_counts, spec_indexes. now rewrite run_counts_eq. Qed.

Theorem index_of_exact f runs : words_ok (expand_rle runs) ->
  index_of f (expand_rle runs) = spec_index_rle f runs.
Proof.
  intros Hok. pose proof (index_all_exact _ Hok) as E. rewrite <- spec_index_rle_indexes in E.
  injection E as E1 E2 E3. destruct f as [[|]|]; cbn [index_of]; assumption.
Qed.

Lemma query_with_index f ws i : query_with f ws (index_of f ws) i = query f ws i.
Proof. destruct f; reflexivity. Qed.

(** one step of a session, and any session: a pure function of the step alone, whatever ran before and whatever the
    caller did to the indexes it was given *)
Theorem session_step_exact f runs : words_ok (expand_rle runs) ->
  session_step (f, runs) =
  (spec_index_rle f runs, spec_query (expand_rle runs) (64 * zlen (expand_rle runs) - 1)).
Proof.
  intros Hok. unfold session_step. cbn [fst snd].
  rewrite query_with_index, query_total, index_of_exact by exact Hok. reflexivity.
Qed.

Theorem session_exact steps reps :
  Forall (fun s => words_ok (expand_rle (snd s))) steps ->
  session steps reps =
  map (fun s => (spec_index_rle (fst s) (snd s),
                 spec_query (expand_rle (snd s)) (64 * zlen (expand_rle (snd s)) - 1)))
      (repeat_list steps reps).
Proof.
  intros H. unfold session.
  assert (Hall : Forall (fun s => words_ok (expand_rle (snd s))) (repeat_list steps reps)).
  { induction reps as [|n IH]; cbn [repeat_list]; [constructor|]. apply Forall_app. split; assumption. }
  apply map_ext_in. intros [f runs] Hin. cbn [fst snd].
  apply session_step_exact.
  exact (proj1 (Forall_forall _ _) Hall (f, runs) Hin).
Qed.

Theorem concurrent_exact bms tr stride ncalls :
  Forall (fun runs => words_ok (expand_rle runs)) bms ->
  concurrent bms tr stride ncalls =
  (map (fun runs => sample_every stride (spec_index_rle (F64 tr) runs)) bms, repeat 1 ncalls).
Proof.
  intros H. unfold concurrent. f_equal. apply map_ext_in. intros runs Hin.
  rewrite <- (index_of_exact (F64 tr) runs) by exact (proj1 (Forall_forall _ _) H runs Hin). reflexivity.
Qed.
