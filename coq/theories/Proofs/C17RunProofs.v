(** C17: what the protocol op evaluates ([Run.C17.c17_run]) is the model's output on the whole
    domain [c17_dom] -- also for the key sets with very long keys, where the run evaluates the
    naive functional description instead of the (quadratic) faithful model. *)
From Coq Require Import ZArith List Lia Bool.
From Low Require Import Lib.BitSeq Lib.Lex Lib.Bytes Model.Sigbits Spec.SigbitsSpec Spec.ShardSplitSpec
  Proofs.SigbitsShard Run.C17.
Import ListNotations.
Open Scope Z_scope.

Lemma keys_okb_ok keys : keys_okb keys = true -> keys_ok keys.
Proof.
  unfold keys_okb, keys_ok. rewrite forallb_forall, Forall_forall.
  intros H k Hk. apply bytes_okb_ok. now apply H.
Qed.

Lemma strict_ascb_ok keys : strict_ascb keys = true -> strict_asc keys.
Proof.
  unfold strict_ascb, strict_asc. rewrite forallb_forall. intros H p Hp. specialize (H p Hp).
  destruct (bytes_cmp (fst p) (snd p)); congruence.
Qed.

Theorem c17_run_is_model keys maxSize : c17_dom keys maxSize = true ->
  c17_run keys maxSize = ShardByPrefix keys maxSize.
Proof.
  unfold c17_dom. rewrite !andb_true_iff, negb_true_iff, Z.eqb_neq, Z.leb_le.
  intros [[[Hok Hasc] Hne] Hms]. unfold c17_run.
  destruct (forallb _ keys); [reflexivity|].
  assert (keys <> []) by (intros ->; now apply Hne).
  symmetry. apply ShardByPrefix_exact; auto using keys_okb_ok, strict_ascb_ok.
Qed.
