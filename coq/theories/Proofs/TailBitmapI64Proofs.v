(** Proofs for C15: Go's int64 arithmetic.  The int64 model (Model/TailBitmapI64.v) and the
    unbounded model (Model/TailBitmap.v) agree on every history from NewTailBitmap(o), o any int64,
    whose indices are int64, at most 2^61 - 64 above o, and below the LAST 64-bit word of the int64
    range (j <= 2^63 - 65) -- so every theorem of Properties/C15.v is a theorem about the int64 code
    there.  When that last word [2^63 - 64, 2^63) is completed, [Offset += 64] wraps and the property
    fails (a concrete witness, replayed on the real code in docs/selftest-C15.md). *)
From Coq Require Import ZArith List Bool Lia.
From Low Require Import Lib.MachInt Lib.Bits Lib.BitSeq Model.TailBitmap
  Spec.TailBitmapInv Proofs.TailBitmapProofs Proofs.TailBitmapHist.
From Low Require Import Model.TailBitmapI64.
Import ListNotations.
Open Scope Z_scope.

(** a state in which no int64 operation of the code can wrap *)
Definition near (s : tb) : Prop :=
  in_i64 (reclaimed s) /\ in_i64 (Offset s) /\
  - 2^61 <= Offset s - reclaimed s <= 2^61 /\
  64 * zlen (Words s) <= 2^61 /\
  Offset s + 64 * zlen (Words s) <= 2^63 - 1.

(** an index that Set can take there: an int64, not more than 2^61 - 64 above Offset, below the last
    word of the int64 range *)
Definition near_set (s : tb) (j : Z) : Prop := in_i64 j /\ j - Offset s <= 2^61 - 64 /\ j <= 2^63 - 65.
Definition near_get (s : tb) (j : Z) : Prop := in_i64 j /\ j - Offset s <= 2^61.

Definition near_op (s : tb) (p : op) : Prop :=
  match p with
  | OSet j => near_set s j
  | OGet j | OGet1 j => near_get s j
  | OCompact => True
  end.

Lemma compact_loop_range : forall ws off,
  off <= fst (compact_loop off ws) /\
  fst (compact_loop off ws) + 64 * zlen (snd (compact_loop off ws)) = off + 64 * zlen ws.
Proof.
  induction ws as [|w t IH]; intros off; cbn [compact_loop].
  - cbn [fst snd]. lia.
  - destruct (w =? allOnes).
    + destruct (IH (off + 64)) as [A B]. unfold zlen in *. cbn [length]. lia.
    + cbn [fst snd]. lia.
Qed.

Lemma compact_loop64_eq : forall ws off, - 2^63 <= off -> off + 64 * zlen ws <= 2^63 - 1 ->
  compact_loop64 off ws = compact_loop off ws.
Proof.
  induction ws as [|w t IH]; intros off Hlo Hhi; cbn [compact_loop64 compact_loop]; [reflexivity|].
  destruct (w =? allOnes); [|reflexivity].
  unfold zlen in Hhi. cbn [length] in Hhi.
  rewrite i64_id by lia. apply IH; unfold zlen; lia.
Qed.

Lemma Compact64_eq s : near s -> Compact64 s = Compact s.
Proof.
  intros (Hr & Ho & Hd & Hl & He). unfold in_i64 in *. unfold Compact64, Compact.
  rewrite compact_loop64_eq by lia.
  destruct (compact_loop_range (Words s) (Offset s)) as [A B].
  destruct (compact_loop (Offset s) (Words s)) as [off ws]. cbn [fst snd] in *.
  assert (0 <= zlen ws) by (unfold zlen; lia).
  rewrite i64_id by lia. reflexivity.
Qed.

Lemma near_Compact s : near s -> near (Compact s) /\ Offset s <= Offset (Compact s).
Proof.
  intros (Hr & Ho & Hd & Hl & He). unfold in_i64 in *.
  destruct (compact_loop_range (Words s) (Offset s)) as [A B].
  unfold near, in_i64, Compact.
  destruct (compact_loop (Offset s) (Words s)) as [off ws]. cbn [fst snd] in *.
  assert (0 <= zlen ws) by (unfold zlen; lia).
  assert (0 <= zlen (Words s)) by (unfold zlen; lia).
  destruct (Z.geb_spec (off - reclaimed s) reclaimThreshold) as [G|G];
    cbn [reclaimed Offset Words]; unfold reclaimThreshold in G; lia.
Qed.

(** the state of Set before its Compact *)
Lemma Set_inner s idx : Offset s <= idx ->
  exists ws', updateZ ((idx - Offset s) / 64) (fun w => Z.lor w (Bit ((idx - Offset s) mod 64)))
                      (grow (Words s) ((idx - Offset s) / 64)) = Some ws' /\
              zlen ws' = Z.max (zlen (Words s)) ((idx - Offset s) / 64 + 1).
Proof.
  intros Hge. set (d := idx - Offset s). assert (Hd : 0 <= d) by (unfold d; lia).
  assert (Hwi : 0 <= d / 64) by (apply Z.div_pos; lia).
  destruct (nth_error_grow_some (Words s) (d / 64) Hwi) as [w Hw].
  destruct (update_nth_spec (fun w => Z.lor w (Bit (d mod 64))) _ _ _ Hw) as (ws' & EU & LU & _).
  exists ws'. unfold updateZ. destruct (Z.ltb_spec (d / 64) 0); [lia|]. split; [exact EU|].
  unfold zlen at 1. rewrite LU. apply grow_length.
Qed.

Lemma near_inner s idx ws' : near s -> near_set s idx -> Offset s <= idx ->
  zlen ws' = Z.max (zlen (Words s)) ((idx - Offset s) / 64 + 1) ->
  near (mkTB (Offset s) ws' (reclaimed s)).
Proof.
  intros (Hr & Ho & Hd & Hl & He) (Hi1 & Hi2 & Hi3) Hge LU. unfold near, in_i64 in *.
  cbn [Offset Words reclaimed]. rewrite LU.
  assert (0 <= zlen (Words s)) by (unfold zlen; lia).
  pose proof (Z.div_mod (idx - Offset s) 64 ltac:(lia)).
  pose proof (Z.mod_pos_bound (idx - Offset s) 64 ltac:(lia)).
  (* Offset + 64*(q+1) <= idx + 64 <= 2^63 - 1 *)
  lia.
Qed.

Lemma Set64_eq s idx : near s -> near_set s idx -> Set64 s idx = Set_ s idx.
Proof.
  intros Hs Hi. pose proof Hs as (Hr & Ho & Hd & Hl & He). pose proof Hi as (Hi1 & Hi2 & Hi3).
  unfold in_i64 in *. unfold Set64, Set_.
  destruct (Z.ltb_spec idx (Offset s)) as [Hlt|Hge]; [reflexivity|]. cbv zeta.
  rewrite i64_id by lia. rewrite shiftr6, land63.
  destruct (Set_inner s idx Hge) as (ws' & EU & LU). rewrite EU.
  destruct ((idx - Offset s) / 64 =? 0); [|reflexivity].
  f_equal. apply Compact64_eq. eapply near_inner; eassumption.
Qed.

Lemma near_Set s idx s' : near s -> near_set s idx -> Set_ s idx = Some s' ->
  near s' /\ Offset s <= Offset s'.
Proof.
  intros Hs Hi E. unfold Set_ in E.
  destruct (Z.ltb_spec idx (Offset s)) as [Hlt|Hge]; [inversion E; subst; split; [exact Hs|lia]|].
  cbv zeta in E. rewrite shiftr6, land63 in E.
  destruct (Set_inner s idx Hge) as (ws' & EU & LU). rewrite EU in E.
  pose proof (near_inner s idx ws' Hs Hi Hge LU) as Hs1.
  destruct ((idx - Offset s) / 64 =? 0); inversion E; subst s'.
  - destruct (near_Compact _ Hs1) as [A B]. split; [exact A|exact B].
  - split; [exact Hs1|cbn [Offset]; lia].
Qed.

Lemma Get64_eq s j : near s -> near_get s j ->
  Get64 s j = Get s j /\ Get1_64 s j = Get1 s j.
Proof.
  intros (Hr & Ho & Hd & Hl & He) (Hj1 & Hj2). unfold in_i64 in *. unfold Get64, Get, Get1_64, Get1.
  destruct (Z.ltb_spec j (Offset s)); [split; reflexivity|]. cbv zeta.
  rewrite i64_id by lia. split; reflexivity.
Qed.

Lemma step64_eq s p : near s -> near_op s p ->
  step64 s p = step s p /\
  (forall s' r, step s p = Some (s', r) -> near s' /\ Offset s <= Offset s').
Proof.
  intros Hs Hp. destruct p as [idx| |j|j]; cbn [step64 step near_op] in *.
  - rewrite Set64_eq by assumption. split; [reflexivity|]. intros s' r E.
    destruct (Set_ s idx) as [s1|] eqn:ES; [|discriminate]. inversion E; subst.
    eapply near_Set; eassumption.
  - rewrite Compact64_eq by assumption. split; [reflexivity|]. intros s' r E.
    inversion E; subst. apply near_Compact. exact Hs.
  - destruct (Get64_eq s j Hs Hp) as [-> _]. split; [reflexivity|]. intros s' r E.
    destruct (Get s j); [|discriminate]. inversion E; subst. split; [exact Hs|lia].
  - destruct (Get64_eq s j Hs Hp) as [_ ->]. split; [reflexivity|]. intros s' r E.
    destruct (Get1 s j); [|discriminate]. inversion E; subst. split; [exact Hs|lia].
Qed.

(** indices bounded relative to a fixed offset [o] below the current one *)
Definition abs_op (o : Z) (p : op) : Prop :=
  match p with
  | OSet j => in_i64 j /\ j - o <= 2^61 - 64 /\ j <= 2^63 - 65
  | OGet j | OGet1 j => in_i64 j /\ j - o <= 2^61
  | OCompact => True
  end.

Lemma abs_near o s p : o <= Offset s -> abs_op o p -> near_op s p.
Proof.
  intros Ho Hp. destruct p; cbn [abs_op near_op] in *; unfold near_set, near_get, in_i64 in *; try exact I; lia.
Qed.

Lemma run64_eq o : forall ops s, near s -> o <= Offset s -> Forall (abs_op o) ops ->
  run64 s ops = run s ops.
Proof.
  induction ops as [|p t IH]; intros s Hs Ho Hp; cbn [run64 run]; [reflexivity|].
  inversion Hp as [|x l Hp1 Hp2]; subst.
  destruct (step64_eq s p Hs (abs_near o s p Ho Hp1)) as [-> Hsm].
  destruct (step s p) as [[s1 r]|] eqn:E; [|reflexivity].
  destruct (Hsm s1 r eq_refl) as [N1 M1].
  rewrite (IH s1 N1 ltac:(lia) Hp2). reflexivity.
Qed.

(** the int64 code and the unbounded model agree on every history from NewTailBitmap(o), for ANY
    int64 o, as long as no index is more than 2^61 - 64 above o or inside the last word of the range *)
Lemma reach64_eq o ops : in_i64 o -> o <= 2^63 - 1 -> Forall (abs_op o) ops ->
  run64 (NewTailBitmap o) ops = run (NewTailBitmap o) ops.
Proof.
  intros Ho Ho' Hp. apply (run64_eq o); [|cbn; lia|exact Hp].
  unfold near, NewTailBitmap, zlen, in_i64 in *. cbn [reclaimed Offset Words length]. lia.
Qed.

(** at the top of the int64 range the property fails: NewTailBitmap(MaxInt64 - 63), the 64 bits
    of its only word set one by one (every index is a valid int64): [Offset += 64] wraps to MinInt64,
    so Offset DEcreased, and Get1 of a bit that was set panics (index out of range [-1]). *)
Lemma top_of_range_witness :
  let o := 2^63 - 64 in
  let ops := map OSet (zrange_up o 64) in
  o mod 64 = 0 /\ in_i64 o /\ Forall (fun p => match p with OSet j => in_i64 j | _ => True end) ops /\
  exists s rs, run64 (NewTailBitmap o) ops = Some (s, rs) /\
    Offset s = - 2^63 /\ Offset s < o /\ Words s = [] /\
    Get1_64 s (2^63 - 1) = None /\ Get64 s (2^63 - 1) = None.
Proof.
  cbv zeta. split; [reflexivity|]. split; [unfold in_i64; lia|]. split.
  - apply Forall_forall. intros p Hp. apply in_map_iff in Hp. destruct Hp as (j & <- & Hj).
    apply zrange_up_In in Hj. unfold in_i64. lia.
  - eexists. eexists. split; [vm_compute; reflexivity|]. vm_compute. repeat split; congruence.
Qed.
