(** Equality of the definition generated from the Go source of bitmap.Getw (coq/gen/Trans.v) and the model. *)
From Coq Require Import ZArith List Lia Bool.
From Low Require Import Lib.MachInt Lib.Bits Lib.BitSeq Lib.TransLib Proofs.TransEqLemmas.
From LowGen Require Trans.
Import ListNotations.
Open Scope Z_scope.

From Low Require Model.BitmapJoin Model.BitmapGetw32 Proofs.GetwProofs.

(** against the int32 model of C14 (Model/BitmapGetw32.v): no hypothesis *)
Lemma TransEq_bitmap_Getw bm i w : Trans.bitmap_Getw bm i w = BitmapGetw32.Getw32 bm i w.
Proof.
  unfold Trans.bitmap_Getw, BitmapGetw32.Getw32. cbv zeta.
  rewrite GetwProofs.rd_nthZ.
  destruct (nthZ bm (sar32 (i32 (i * w)) 6)) as [word|]; [|reflexivity].
  rewrite u64_id by (pose proof (land_63_range (i32 (i * w))); lia).
  unfold tblZ.
  destruct (Z.leb_spec 0 w); destruct (Z.ltb_spec w 65); destruct (Z.ltb_spec w 0); destruct (Z.ltb_spec 64 w);
    cbn [andb orb]; try reflexivity; lia.
Qed.

(** against the unbounded model (Model/BitmapJoin.v), while the bit position fits int32 *)
Lemma TransEq_bitmap_Getw_unbounded bm i w : in_i32 (i * w) ->
  Trans.bitmap_Getw bm i w = BitmapJoin.Getw bm i w.
Proof.
  unfold in_i32. intros H. unfold Trans.bitmap_Getw, BitmapJoin.Getw. cbv zeta.
  rewrite i32_id by lia. rewrite sar32_shiftr by lia.
  destruct (nthZ bm (Z.shiftr (i * w) 6)) as [word|]; [|reflexivity].
  rewrite u64_id by (pose proof (land_63_range (i * w)); lia).
  unfold tblZ.
  destruct (Z.leb_spec 0 w); destruct (Z.ltb_spec w 65); destruct (Z.ltb_spec w 0); destruct (Z.ltb_spec 64 w);
    cbn [andb orb]; try reflexivity; lia.
Qed.
