(** C06 / C07, part 3: pbcmpl.ReadHeader, pbcmpl.Unmarshal and pbcmpl.Marshal of the
    model (Model/Pbcmpl.v) compute exactly what the specification (Spec/PbcmplSpec.v)
    says on the flat byte string, for every chunking of the stream, every terminal
    condition, every writer script.  The body codec is a Section variable. *)
From Coq Require Import ZArith List Bool Lia.
From Low Require Import Lib.MachInt Lib.BitSeq Lib.Bytes
  Model.Pbcmpl Spec.PbcmplSpec Proofs.PbcmplIO Proofs.PbcmplHeader.
Import ListNotations.
Open Scope Z_scope.

Lemma i64_zlen {A} (l : list A) : zlen l < 2 ^ 63 -> i64 (zlen l) = zlen l.
Proof. intros. apply i64_id. pose proof (zlen_nonneg l). lia. Qed.

Lemma as_int64_32 x : 0 <= x < 2 ^ 64 -> (as_int64 x =? 32) = (x =? 32).
Proof.
  intros. unfold as_int64. destruct (Z.geb_spec x (2 ^ 63)).
  - destruct (Z.eqb_spec (x - 2 ^ 64) 32), (Z.eqb_spec x 32); try reflexivity; lia.
  - reflexivity.
Qed.

Lemma as_int64_neg x : 0 <= x < 2 ^ 64 -> (as_int64 x <? 0) = (x >=? 2 ^ 63).
Proof.
  intros. unfold as_int64. destruct (Z.geb_spec x (2 ^ 63)).
  - apply Z.ltb_lt. lia.
  - apply Z.ltb_ge. lia.
Qed.

Lemma as_int64_small x : 0 <= x < 2 ^ 63 -> as_int64 x = x.
Proof. intros. unfold as_int64. destruct (Z.geb_spec x (2 ^ 63)); [lia|reflexivity]. Qed.

Lemma firstn32_short {A} (s : list A) : zlen s < 32 -> firstn 32 s = s.
Proof. intros. apply firstn_all2. unfold zlen in *. lia. Qed.
Lemma skipn32_short {A} (s : list A) : zlen s < 32 -> skipn 32 s = [].
Proof. intros. apply skipn_all2. unfold zlen in *. lia. Qed.
Lemma zlen_firstn32 {A} (s : list A) : 32 <= zlen s -> zlen (firstn 32 s) = 32.
Proof. intros. unfold zlen in *. rewrite firstn_length. lia. Qed.
Lemma zlen_skipn32 {A} (s : list A) : 32 <= zlen s -> zlen (skipn 32 s) = zlen s - 32.
Proof. intros. unfold zlen in *. rewrite skipn_length. lia. Qed.

(** how the protocol views the result of ReadHeader: (n, err, version, header size, body size) *)
Definition rh_view {St} (r : Z * option header * option perr * St) : Z * option perr * list Z * Z * Z :=
  match r with
  | (n, None, err, _) => (n, err, [], 0, 0)
  | (n, Some h, err, _) => (n, err, GetVersion h, GetHeaderSize h, GetBodySize h)
  end.

(** ** ReadHeader over any chunking *)
Theorem ReadHeader_spec cs t fuel :
  chunks_ok cs -> bytes_ok (concat cs) -> zlen (concat cs) < 2 ^ 63 -> (length cs + 2 <= fuel)%nat ->
  exists n ho err cs',
    ReadHeader cread fuel (cs, t) = Some (n, ho, err, (cs', t))
    /\ rh_view (n, ho, err, (cs', t)) = spec_ReadHeader (concat cs) t
    /\ concat cs' = skipn 32 (concat cs)
    /\ chunks_ok cs'.
Proof.
  intros Hok Hb Hlen Hfuel. set (s := concat cs) in *.
  destruct (ReadFull_cread cs t 32 fuel) as (cs1 & HRF & Hc1 & Hok1 & Hl1); [lia|assumption|].
  specialize (Hok1 Hok). fold s in HRF, Hc1. unfold ReadHeader, fixedSize, spec_ReadHeader. rewrite HRF.
  destruct (Z.ltb_spec (zlen s) 32) as [Hs|Hs].
  - do 4 eexists. split; [reflexivity|]. cbn [rh_view].
    change (Z.to_nat 32) with 32%nat in *.
    rewrite firstn32_short by lia. rewrite i64_zlen by assumption. auto.
  - do 4 eexists. split; [reflexivity|]. cbn [rh_view].
    change (Z.to_nat 32) with 32%nat in *.
    destruct (header_of_stream s Hb Hs) as (Hv & Hh & Hbs & _ & _).
    rewrite Hv, Hh, Hbs.
    rewrite zlen_firstn32 by lia. change (i64 32) with 32. auto.
Qed.

Section Codec.
  Variable Msg : Type.
  Variable dec : list Z -> option Msg.
  Variable grow : Z -> Z.
  Hypothesis Hgrow : forall c, 0 < c -> c < grow c.

  (** ** Unmarshal over any chunking, any terminal condition, any bytes *)
  Theorem Unmarshal_spec cs t fuel :
    chunks_ok cs -> bytes_ok (concat cs) -> zlen (concat cs) < 2 ^ 63 ->
    (length cs + length (concat cs) + 2 <= fuel)%nat ->
    exists n ver err m cs',
      Unmarshal dec cread grow fuel (cs, t) = Some (n, ver, err, m, (cs', t))
      /\ chunks_ok cs'
      /\ spec_Unmarshal dec EEOF (concat cs) t = (n, ver, err, m, concat cs').
  Proof.
    intros Hok Hb Hlen Hfuel. set (s := concat cs) in *.
    destruct (ReadFull_cread cs t 32 fuel) as (cs1 & HRF & Hc1 & Hok1 & Hl1); [lia|lia|].
    specialize (Hok1 Hok). fold s in HRF, Hc1. unfold Unmarshal, ReadHeader, fixedSize, spec_Unmarshal. rewrite HRF.
    change (Z.to_nat 32) with 32%nat in *.
    destruct (Z.ltb_spec (zlen s) 32) as [Hs|Hs].
    - (* short header *)
      do 5 eexists. split; [reflexivity|]. split; [assumption|].
      rewrite firstn32_short by lia. rewrite i64_zlen by assumption.
      rewrite Hc1. rewrite skipn32_short by lia. reflexivity.
    - destruct (header_of_stream s Hb Hs) as (Hv & Hh & Hbs & Rh & Rb).
      cbv beta iota zeta.
      rewrite Hv, Hh, Hbs.
      rewrite zlen_firstn32 by lia.
      change (i64 32) with 32.
      rewrite as_int64_32 by assumption.
      set (hs := le_val (firstn 8 (skipn 16 s))) in *.
      set (bs := le_val (firstn 8 (skipn 24 s))) in *.
      set (rest := skipn 32 s) in *.
      destruct (hs =? 32); cbn [negb].
      2:{ do 5 eexists. split; [reflexivity|]. split; [assumption|]. rewrite Hc1. reflexivity. }
      rewrite as_int64_neg by assumption.
      destruct (Z.geb_spec bs (2 ^ 63)) as [Hbig|Hsmall].
      { do 5 eexists. split; [reflexivity|]. split; [assumption|]. rewrite Hc1. reflexivity. }
      rewrite as_int64_small by lia.
      destruct (ReadAll_limited_cread grow Hgrow t fuel cs1 bs Hok1) as (cs2 & n2 & HRA & Hc2 & Hok2 & Hl2).
      { rewrite Hc1. unfold rest. rewrite skipn_length. lia. }
      unfold creader in *. rewrite HRA. rewrite Hc1 in *. clear HRA.
      assert (Hrl : zlen rest = zlen s - 32).
      { unfold rest. apply zlen_skipn32. lia. }
      assert (Hbl : zlen (firstn (Z.to_nat bs) rest) < 2 ^ 63).
      { rewrite zlen_firstn by lia. lia. }
      rewrite (i64_zlen _ Hbl).
      destruct (Z.ltb_spec (zlen rest) bs) as [Htr|Hfull].
      + (* truncated body *)
        rewrite (firstn_all_z bs rest) in * by lia.
        rewrite (skipn_all_z bs rest) in Hc2 by lia.
        unfold rall_err. destruct (Z.leb_spec bs 0); [lia|].
        destruct (Z.ltb_spec (zlen rest) bs); [|lia].
        replace (32 + zlen rest) with (zlen s) by lia.
        unfold end_err.
        destruct (t_err t); cbn [noneof];
          try (do 5 eexists; split; [reflexivity|]; split; [assumption|]; rewrite Hc2; reflexivity).
        destruct (Z.eqb_spec (zlen rest) 0);
          (do 5 eexists; split; [reflexivity|]; split; [assumption|]; rewrite Hc2; reflexivity).
      + assert (Hfl : zlen (firstn (Z.to_nat bs) rest) = bs) by (rewrite zlen_firstn by lia; lia).
        destruct ((zlen rest =? bs) && (0 <? bs) && t_with_last t && negb (is_eofb (t_err t))) eqn:Hlast.
        * (* a read error delivered together with the last byte of the body *)
          apply andb_prop in Hlast. destruct Hlast as [Hlast Hne].
          apply andb_prop in Hlast. destruct Hlast as [Hlast Hwl].
          apply andb_prop in Hlast. destruct Hlast as [Heq Hpos].
          apply Z.eqb_eq in Heq. apply Z.ltb_lt in Hpos.
          unfold rall_err. destruct (Z.leb_spec bs 0); [lia|].
          destruct (Z.ltb_spec (zlen rest) bs); [lia|].
          rewrite Hwl. destruct (Z.eqb_spec (zlen rest) bs); [|lia]. cbn [andb].
          rewrite (skipn_all_z bs rest) in Hc2 by lia.
          rewrite Hfl. replace (32 + bs) with (zlen s) by lia.
          destruct (t_err t); try discriminate; cbn [noneof];
            (do 5 eexists; split; [reflexivity|]; split; [assumption|]; rewrite Hc2; reflexivity).
        * (* the body is complete *)
          assert (Hre : rall_err rest bs t = None).
          { unfold rall_err. destruct (Z.leb_spec bs 0); [reflexivity|].
            destruct (Z.ltb_spec (zlen rest) bs); [lia|].
            destruct (Z.eqb_spec (zlen rest) bs) as [E|E]; cbn [andb]; [|reflexivity].
            destruct (t_with_last t); [|reflexivity].
            destruct (Z.ltb_spec 0 bs); [|lia]. cbn [andb] in Hlast.
            destruct (t_err t); try discriminate; reflexivity. }
          rewrite Hre. rewrite Hfl. rewrite Z.ltb_irrefl.
          destruct (dec (firstn (Z.to_nat bs) rest)).
          -- do 5 eexists. split; [reflexivity|]. split; [assumption|]. rewrite Hc2. reflexivity.
          -- do 5 eexists. split; [reflexivity|]. split; [assumption|]. rewrite Hc2. reflexivity.
  Qed.
End Codec.
