(** C17, widening: the int32-explicit model of ShardByPrefix (Model/Sharding32.v)
    agrees with the unbounded one (Model/Sigbits.v) when the number of keys and
    every key length fit into int32 -- so the C17 theorems hold of it, and the
    "size hypothesis" of the unbounded model is discharged inside Coq. *)
From Coq Require Import ZArith List Lia Bool.
From Low Require Import Lib.MachInt Lib.Bits Lib.BitSeq Lib.Lex Lib.Bytes
  Model.Sigbits Model.Sharding32 Spec.SigbitsSpec Spec.ShardRouteSpec
  Proofs.SigbitsShardDomain Proofs.SigbitsShard.
Import ListNotations.
Open Scope Z_scope.

Definition max32 : Z := 2147483647.

Lemma c17_i32_small x : - 2147483648 <= x <= max32 -> i32 x = x.
Proof.
  unfold max32, i32. intros H. change (2 ^ 31) with 2147483648. change (2 ^ 32) with 4294967296.
  rewrite Z.mod_small by lia. lia.
Qed.

Lemma idx_range32_eq s e : 0 <= e <= max32 -> idx_range32 s e = idx_range s e.
Proof. intros H. unfold idx_range32, idx_range. rewrite c17_i32_small by (unfold max32 in *; lia). reflexivity. Qed.

Lemma idx_range_lt s e i : In i (idx_range s e) -> s <= i < e - 1.
Proof.
  unfold idx_range. intros H. apply in_map_iff in H. destruct H as (k & <- & Hk).
  apply in_seq in Hk. lia.
Qed.

Lemma shard_split32_eq fd : forall is lo E, (forall i, In i is -> 0 <= i < max32) ->
  shard_split32 fd is lo E = shard_split fd is lo E.
Proof.
  induction is as [|i is IH]; intros lo E H; [reflexivity|].
  cbn [shard_split32 shard_split].
  assert (Hi : 0 <= i < max32) by (apply H; now left).
  assert (H' : forall j, In j is -> 0 <= j < max32) by (intros j Hj; apply H; now right).
  rewrite c17_i32_small by (unfold max32 in *; lia).
  destruct (nthZ fd i); [|reflexivity].
  destruct (_ <? _); [now apply IH|]. destruct (_ =? _); now apply IH.
Qed.

Lemma dfs_each_ext (f g : Z -> Z -> shard_out -> option shard_out) hi :
  (forall a b st, 0 <= a <= hi -> 0 <= b <= hi -> f a b st = g a b st) ->
  forall l s st, 0 <= s <= hi -> (forall x, In x l -> 0 <= x <= hi) ->
  dfs_each f l s st = dfs_each g l s st.
Proof.
  intros Hfg. induction l as [|x l IH]; intros s st Hs Hl; [reflexivity|].
  cbn [dfs_each]. rewrite Hfg by (try assumption; apply Hl; now left).
  destruct (g s x st); [|reflexivity].
  apply IH; [apply Hl; now left|intros y Hy; apply Hl; now right].
Qed.

Section Agree.
  Variable keys : list (list Z).
  Variable fd : list Z.
  Variable maxSize : Z.
  Hypothesis Hkeys : Forall (fun k => zlen k <= max32) keys.

  Theorem dfs32_eq : forall fuel s e st, 0 <= s <= max32 -> 0 <= e <= max32 ->
    dfs32 keys fd maxSize fuel s e st = dfs keys fd maxSize fuel s e st.
  Proof.
    induction fuel as [|fuel IH]; intros s e st Hs He; [reflexivity|].
    cbn [dfs32 dfs]. destruct (nthZ keys s) as [ks|] eqn:Hks; [|reflexivity].
    assert (Hlen : zlen ks <= max32).
    { apply nthZ_Some in Hks. destruct Hks as [_ Hks]. apply nth_error_In in Hks.
      rewrite Forall_forall in Hkeys. now apply Hkeys. }
    rewrite (c17_i32_small (e - s)) by (unfold max32 in *; lia).
    rewrite (c17_i32_small (zlen ks)) by (unfold zlen, max32 in *; lia).
    rewrite idx_range32_eq by exact He.
    destruct (e - s <=? maxSize); [reflexivity|].
    rewrite shard_split32_eq by (intros i Hi; apply idx_range_lt in Hi; lia).
    destruct (shard_split fd (idx_range s e) (zlen ks) []) as [[lo endsAt]|] eqn:Hsp; [|reflexivity].
    apply (dfs_each_ext _ _ max32); [intros a b st' Ha Hb; now apply IH|exact Hs|].
    intros x Hx. apply in_app_or in Hx. destruct Hx as [Hx|[<-|[]]]; [|exact He].
    destruct (shard_split_elems _ _ _ _ _ _ Hsp x Hx) as [[]|(i & Hi & ->)].
    apply idx_range_lt in Hi. lia.
  Qed.
End Agree.

Lemma fdb_loop_length : forall keys fd, fdb_loop keys = Some fd -> length fd = (length keys - 1)%nat.
Proof.
  induction keys as [|a t IHt]; intros fd Hfd.
  - injection Hfd as <-. reflexivity.
  - destruct t as [|b t'].
    + injection Hfd as <-. reflexivity.
    + change (fdb_loop (a :: b :: t')) with
        (match sFirstDiffBit a b, fdb_loop (b :: t') with Some d, Some ds => Some (d :: ds) | _, _ => None end) in Hfd.
      destruct (sFirstDiffBit a b); [|discriminate].
      destruct (fdb_loop (b :: t')) as [ds|]; [|discriminate].
      injection Hfd as <-. specialize (IHt ds eq_refl). cbn [length] in *. lia.
Qed.

(** the int32-explicit ShardByPrefix, over any FirstDiffBits implementation [FDB] that agrees
    with the modelled one on [keys], is the unbounded model *)
Theorem ShardByPrefix32_eq FDB keys maxSize :
  FDB keys = FirstDiffBits keys ->
  zlen keys <= max32 -> Forall (fun k => zlen k <= max32) keys ->
  ShardByPrefix32_with FDB keys maxSize = ShardByPrefix keys maxSize.
Proof.
  intros HF Hn Hk. unfold ShardByPrefix32_with, ShardByPrefix. rewrite HF.
  destruct (FirstDiffBits keys) as [fd|] eqn:Hfd; [|reflexivity].
  assert (Hl : length fd = (length keys - 1)%nat).
  { unfold FirstDiffBits in Hfd. destruct (zlen keys - 1 <? 0); [discriminate|].
    now apply fdb_loop_length. }
  assert (Hne : keys <> []) by (intros ->; discriminate Hfd).
  assert (0 < length keys)%nat by (destruct keys; [congruence|cbn [length]; lia]).
  rewrite c17_i32_small by (unfold zlen, max32 in *; lia).
  apply dfs32_eq; [exact Hk|unfold max32; lia|unfold zlen, max32 in *; lia].
Qed.

(** hence the property, stated of the int32-explicit model *)
Theorem ShardByPrefix32_correct keys maxSize :
  keys <> [] -> keys_ok keys -> strict_asc keys -> 1 <= maxSize ->
  zlen keys <= max32 -> Forall (fun k => zlen k <= max32) keys ->
  exists L B, ShardByPrefix32_with FirstDiffBits keys maxSize = Some (L, B) /\
              shard_spec keys maxSize L B /\ route_spec keys L B.
Proof.
  intros Hne Hok Hasc Hms Hn Hk.
  rewrite (ShardByPrefix32_eq FirstDiffBits keys maxSize eq_refl Hn Hk).
  now apply ShardByPrefix_route.
Qed.
