(** Proofs for typehelper.ToSlice (C20 widening): the index loop over a
    pre-allocated result fills every slot with the boxed element, in order;
    the size of the result as size.Of measures it. *)
From Coq Require Import ZArith List Bool Lia.
From Low Require Import Lib.BitSeq Model.Size Spec.SizeSpec Proofs.SizeProofs Model.TypeHelper Spec.TypeHelperSpec.
Import ListNotations.
Open Scope Z_scope.

Section Generic.
  Variables A B : Type.
  Variable box : A -> B.
  Let f := fun x : A => Some (box x).

  Lemma set_at_app (pre : list (option B)) o post x :
    set_at B (pre ++ o :: post) (length pre) x = Some (pre ++ Some x :: post).
  Proof.
    induction pre as [|h t IH]; cbn [app length set_at]; [reflexivity|].
    rewrite IH. reflexivity.
  Qed.

  Lemma firstn_snoc (s : list A) i x :
    nth_error s i = Some x -> firstn (S i) s = firstn i s ++ [x].
  Proof.
    revert i. induction s as [|h t IH]; intros [|i] H; cbn [nth_error] in H; try discriminate.
    - injection H as ->. reflexivity.
    - cbn [firstn app]. f_equal. apply (IH i H).
  Qed.

  Lemma fill_ok (s : list A) : forall k i,
    (i + k = length s)%nat ->
    fill A B box (S k) s (Z.of_nat i) (Z.of_nat (length s)) (map f (firstn i s) ++ repeat None k)
    = Some (map f s).
  Proof.
    induction k as [|k IH]; intros i Hik.
    - cbn [fill repeat]. replace (Z.of_nat i <? Z.of_nat (length s)) with false by (symmetry; apply Z.ltb_ge; lia).
      rewrite app_nil_r. rewrite (firstn_all2 (n:=i) s) by lia. reflexivity.
    - cbn [fill]. replace (Z.of_nat i <? Z.of_nat (length s)) with true by (symmetry; apply Z.ltb_lt; lia).
      unfold nthZ. replace (Z.of_nat i <? 0) with false by (symmetry; apply Z.ltb_ge; lia).
      rewrite Nat2Z.id.
      destruct (nth_error s i) as [x|] eqn:Hn.
      2:{ apply nth_error_None in Hn. lia. }
      cbn [repeat].
      assert (Hlen : length (map f (firstn i s)) = i).
      { rewrite map_length, firstn_length. lia. }
      pose proof (set_at_app (map f (firstn i s)) None (repeat None k) (box x)) as E.
      rewrite Hlen in E. rewrite E.
      replace (Z.of_nat i + 1) with (Z.of_nat (S i)) by lia.
      replace (map f (firstn i s) ++ Some (box x) :: repeat None k)
        with (map f (firstn (S i) s) ++ repeat None k).
      + apply IH. lia.
      + rewrite (firstn_snoc s i x Hn), map_app, <- app_assoc. reflexivity.
  Qed.

  (** every slot is filled with the boxed element, in order; a non-slice panics *)
  Theorem ToSlice_spec : forall arg, ToSlice box arg = spec_ToSlice box arg.
  Proof.
    intros [|s]; [reflexivity|]. cbn [ToSlice spec_ToSlice].
    exact (fill_ok s (length s) 0%nat eq_refl).
  Qed.

  Corollary ToSlice_length : forall s rst,
    ToSlice box (ArgSlice s) = Some rst -> length rst = length s.
  Proof. intros s rst. rewrite ToSlice_spec. cbn. intros [= <-]. apply map_length. Qed.

  Corollary ToSlice_nth : forall s rst i x,
    ToSlice box (ArgSlice s) = Some rst -> nth_error s i = Some x -> nth_error rst i = Some (Some (box x)).
  Proof.
    intros s rst i x. rewrite ToSlice_spec. cbn. intros [= <-] H.
    rewrite nth_error_map, H. reflexivity.
  Qed.

  Corollary ToSlice_length_nth : forall s rst i x,
    ToSlice box (ArgSlice s) = Some rst -> nth_error s i = Some x ->
    length rst = length s /\ nth_error rst i = Some (Some (box x)).
  Proof. intros s rst i x H1 H2. split; [eapply ToSlice_length|eapply ToSlice_nth]; eauto. Qed.
End Generic.

(** * The size of the result *)
Lemma slots_of_map (l : list value) :
  slots_value (map (fun x => Some (box_value x)) l) = VSlice (Some (map box_value l)).
Proof. unfold slots_value. rewrite map_map. reflexivity. Qed.

Lemma box_value_supported x : supported x -> supported (box_value x).
Proof. destruct x; intros H; exact H. Qed.

Lemma box_value_size x : spec_size (box_value x) = boxed_size x.
Proof.
  destruct x; cbn [box_value boxed_size]; try apply spec_size_iface; reflexivity.
Qed.

Theorem ToSlice_size : forall l rst,
  Forall supported l ->
  ToSlice box_value (ArgSlice l) = Some rst ->
  sizeof (slots_value rst) = Some (spec_ToSlice_size l).
Proof.
  intros l rst S. rewrite ToSlice_spec. cbn [spec_ToSlice]. intros [= <-].
  rewrite slots_of_map.
  rewrite sizeof_structural.
  - rewrite spec_size_slice. unfold spec_ToSlice_size, sizes. rewrite map_map.
    do 2 f_equal. unfold zsum. f_equal. apply map_ext. apply box_value_size.
  - unfold supported. cbn [supportedb]. apply forallb_forall. intros y Hy.
    apply in_map_iff in Hy as [x [<- Hx]]. apply box_value_supported.
    rewrite Forall_forall in S. apply S, Hx.
Qed.

(** boxing costs one interface header per element that is not an interface already *)
Theorem ToSlice_size_plain : forall l,
  Forall (fun x => match x with VIface _ => False | _ => True end) l ->
  spec_ToSlice_size l = spec_size (VSlice (Some l)) + 16 * Z.of_nat (length l).
Proof.
  intros l H. rewrite spec_size_slice. unfold spec_ToSlice_size, sizes.
  induction H as [|x t Hx _ IH]; [reflexivity|].
  cbn [map length]. rewrite !zsum_cons. rewrite Nat2Z.inj_succ.
  destruct x; cbn [boxed_size]; try contradiction; lia.
Qed.
