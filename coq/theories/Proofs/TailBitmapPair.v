(** Proofs for C15: two TailBitmaps alive at the same time with interleaved calls (op
    bitmap.TailBitmap/pair).  In the model the objects are independent values, so what each object
    shows is exactly its own history; hence the pair checker accepts the model. *)
From Coq Require Import ZArith List Bool Lia.
From Low Require Import Lib.Bits Lib.BitSeq Model.TailBitmap Spec.TailBitmapSpec Spec.TailBitmapInv
  Spec.TailBitmapObs Proofs.TailBitmapProofs Proofs.TailBitmapHist Proofs.TailBitmapChecker Run.C15.
Import ListNotations.
Open Scope Z_scope.

Lemma sel_cons {A} w (b : bool) (x : A) l :
  sel w ((b, x) :: l) = if Bool.eqb b w then x :: sel w l else sel w l.
Proof. unfold sel. cbn [filter fst]. destruct (Bool.eqb b w); reflexivity. Qed.

Lemma run_pair_split : forall cs sa sb l, run_pair sa sb cs = OOk l ->
  length l = length cs /\
  run_proto sa (sel false cs) = OOk (sel false (combine (map fst cs) l)) /\
  run_proto sb (sel true cs) = OOk (sel true (combine (map fst cs) l)).
Proof.
  induction cs as [|[w p] t IH]; intros sa sb l E; cbn [run_pair] in E.
  - inversion E; subst. repeat split; reflexivity.
  - destruct w.
    + destruct (pop_in_domain sb p) eqn:D; cbn [negb] in E; [|discriminate].
      destruct (pstep sb p) as [[s' r]|] eqn:E1; [|discriminate].
      destruct (run_pair sa s' t) as [| |l1] eqn:E2; try discriminate.
      inversion E; subst l. destruct (IH _ _ _ E2) as (L & A & B).
      cbn [map fst combine length]. rewrite !sel_cons. cbn [Bool.eqb].
      split; [lia|]. split; [exact A|].
      cbn [run_proto]. rewrite D, E1, B. reflexivity.
    + destruct (pop_in_domain sa p) eqn:D; cbn [negb] in E; [|discriminate].
      destruct (pstep sa p) as [[s' r]|] eqn:E1; [|discriminate].
      destruct (run_pair s' sb t) as [| |l1] eqn:E2; try discriminate.
      inversion E; subst l. destruct (IH _ _ _ E2) as (L & A & B).
      cbn [map fst combine length]. rewrite !sel_cons. cbn [Bool.eqb].
      split; [lia|]. split; [|exact B].
      cbn [run_proto]. rewrite D, E1, A. reflexivity.
Qed.

Lemma model_pair_accepted oa ob cs l : model_pair oa ob cs = OOk l -> check_pair oa ob cs l = true.
Proof.
  unfold model_pair, check_pair. intros E.
  destruct (offset_in_domain oa && offset_in_domain ob) eqn:D; [|discriminate].
  apply andb_true_iff in D. destruct D as [Da Db].
  destruct (run_pair_split _ _ _ _ E) as (L & A & B).
  assert (HA : model_history oa (sel false cs) = OOk (sel false (combine (map fst cs) l))).
  { unfold model_history. rewrite Da. exact A. }
  assert (HB : model_history ob (sel true cs) = OOk (sel true (combine (map fst cs) l))).
  { unfold model_history. rewrite Db. exact B. }
  rewrite (model_history_accepted _ _ _ HA), (model_history_accepted _ _ _ HB).
  rewrite L, Nat.eqb_refl. reflexivity.
Qed.
