(** Equality of the definition generated from the Go source of bitmap.NextOne (coq/gen/Trans.v) and the model:
    a masked first word, then a loop with a break (recursion on fuel; the join after the loop takes [nxt]). *)
From Coq Require Import ZArith List Lia Bool.
From Low Require Import Lib.MachInt Lib.Bits Lib.BitSeq Lib.TransLib Proofs.TransEqLemmas.
From Low Require Model.BitmapNext.
From LowGen Require Trans.
Import ListNotations.
Open Scope Z_scope.

(** the model (Model/BitmapNext.v) computes positions in unbounded Z, the code in int32: hypotheses under which
    no addition of the code wraps (a start position and an end at least 64 below 2^31), for EVERY fuel *)
Lemma TransEq_bitmap_NextOne_fuel fuel bm i e : words bm -> 0 <= i < 2 ^ 31 - 64 -> - 2 ^ 31 <= e < 2 ^ 31 - 64 ->
  Trans.bitmap_NextOne fuel bm i e =
  let wordIdx := Z.shiftr i 6 in
  match nthZ bm wordIdx with
  | None => None
  | Some w0 =>
      let word := Z.land w0 (RMask (Z.land i 63)) in
      match (if word =? 0 then BitmapNext.NextOne_loop fuel bm (Z.land (i + 63) (-64)) e
             else Some (Z.shiftl wordIdx 6 + tz64 word)) with
      | None => None
      | Some nxt => Some (if nxt >=? e then -1 else nxt)
      end
  end.
Proof.
  intros Hb Hi He. unfold Trans.bitmap_NextOne. cbv zeta.
  rewrite sar32_shiftr by lia.
  destruct (nthZ bm (Z.shiftr i 6)) as [w0|] eqn:E0; [|reflexivity].
  pose proof (word_of _ _ _ Hb E0) as Hw0.
  rewrite tblZ_in by (pose proof (land_63_range i); lia).
  set (word := Z.land w0 (RMask (Z.land i 63))).
  assert (Hword : 0 <= word < 2 ^ 64) by (apply land_u_range; lia).
  destruct (word =? 0) eqn:Ez; cbn [negb].
  - (* the loop *)
    rewrite (i32_id (i + 63)) by lia.
    match goal with |- ?K fuel _ = _ =>
      assert (L : forall n t, - 2 ^ 31 <= t < 2 ^ 31 ->
                K n t = match BitmapNext.NextOne_loop n bm t e with
                        | None => None | Some nxt => Some (if nxt >=? e then -1 else nxt) end) end.
    { induction n as [|n IH]; intros t Ht; [reflexivity|].
      cbn [BitmapNext.NextOne_loop]. cbv beta iota zeta fix.
      destruct (Z.ltb_spec t e) as [Hlt|Hge].
      - rewrite sar32_shiftr by lia.
        destruct (nthZ bm (Z.shiftr t 6)) as [w|] eqn:Ew; [|reflexivity].
        pose proof (word_of _ _ _ Hb Ew) as Hw. pose proof (tz64_range w Hw) as Htz.
        destruct (w =? 0); cbn [negb].
        + rewrite (i32_id (t + 64)) by lia. apply IH. lia.
        + rewrite (i32_id (tz64 w)) by lia. rewrite (i32_id (t + tz64 w)) by lia.
          destruct (t + tz64 w >=? e); reflexivity.
      - destruct (-1 >=? e); reflexivity. }
    apply L. pose proof (land_m64_range (i + 63)). lia.
  - (* the first word has a 1 at or after i *)
    pose proof (tz64_range word Hword) as Htz.
    unfold sshl32. destruct (Z.ltb_spec 6 32); [|lia].
    rewrite Z.shiftl_mul_pow2 by lia.
    assert (Hq : i - 63 <= Z.shiftr i 6 * 2 ^ 6 <= i).
    { rewrite Z.shiftr_div_pow2 by lia. change (2 ^ 6) with 64.
      pose proof (Z.div_mod i 64 ltac:(lia)). pose proof (Z.mod_pos_bound i 64 ltac:(lia)). lia. }
    rewrite (i32_id (Z.shiftr i 6 * 2 ^ 6)) by lia.
    rewrite (i32_id (tz64 word)) by lia.
    rewrite i32_id by lia.
    destruct (Z.shiftr i 6 * 2 ^ 6 + tz64 word >=? e); reflexivity.
Qed.

(** the model runs its loop on [S (length bm)] units of fuel *)
Lemma TransEq_bitmap_NextOne bm i e : words bm -> 0 <= i < 2 ^ 31 - 64 -> - 2 ^ 31 <= e < 2 ^ 31 - 64 ->
  Trans.bitmap_NextOne (S (length bm)) bm i e = BitmapNext.NextOne bm i e.
Proof.
  intros Hb Hi He. rewrite TransEq_bitmap_NextOne_fuel by assumption.
  unfold BitmapNext.NextOne. cbv zeta. reflexivity.
Qed.
