(** ToArray = the positions of the 1-bits; ToArray of a Slice = the 1-bits of the
    input inside the range, shifted. *)
From Coq Require Import ZArith List Lia Bool Sorted.
From Low Require Import Lib.MachInt Lib.Bits Lib.BitSeq Lib.BitsExtra_bm2 Lib.BitsExtra_c02 Lib.BitsExtra_bm14
  Model.BitmapUtil Model.BitmapJoin Model.BitmapOf Model.BitmapSliceArray
  Spec.JoinSpec Spec.SliceArraySpec Proofs.JoinProofs.
Import ListNotations.
Open Scope Z_scope.

(** * ToArray *)
Lemma ToArray_loop_spec ws : words_ok ws ->
  forall fuel i, 0 <= i <= 64 * zlen ws -> 64 * zlen ws - i <= Z.of_nat fuel ->
  ToArray_loop fuel ws i (64 * zlen ws) = Some (ones_from i (skipn (Z.to_nat i) (flat ws))).
Proof.
  intros Hws. induction fuel as [|fuel IH]; intros i Hi Hf.
  - assert (i = 64 * zlen ws) by lia. subst i. cbn [ToArray_loop]. rewrite Z.ltb_irrefl.
    rewrite skipn_all2; [reflexivity|]. rewrite flat_length. unfold zlen. lia.
  - cbn [ToArray_loop]. destruct (Z.ltb_spec i (64 * zlen ws)) as [Hlt|Hge].
    2:{ rewrite skipn_all2; [reflexivity|]. rewrite flat_length. unfold zlen in *. lia. }
    rewrite shiftr6, land63.
    destruct (word_at ws i Hws ltac:(lia)) as (w & Hn & Hne & Hw). rewrite Hn.
    rewrite IH by lia.
    assert (Him : 0 <= i mod 64 < 64) by (apply Z.mod_pos_bound; lia).
    assert (Hp : 0 < 2 ^ (i mod 64) < 2 ^ 64).
    { split; [apply Z.pow_pos_nonneg; lia|apply Z.pow_lt_mono_r; lia]. }
    rewrite shl64_small by lia. rewrite Z.mul_1_l, land_bit_testbit by lia.
    assert (Hbit : nth_error (flat ws) (Z.to_nat i) = Some (Z.testbit w (i mod 64))).
    { pose proof (Z.div_mod i 64 ltac:(lia)) as D.
      replace (Z.to_nat i) with (64 * Z.to_nat (i / 64) + Z.to_nat (i mod 64))%nat.
      2:{ assert (0 <= i / 64) by (apply Z.div_pos; lia). lia. }
      rewrite (nth_error_flat ws _ w _ Hne) by lia. f_equal. f_equal. lia. }
    rewrite (skipn_nth_cons _ _ _ Hbit). cbn [ones_from].
    replace (S (Z.to_nat i)) with (Z.to_nat (i + 1)) by lia.
    f_equal. destruct (Z.testbit w (i mod 64)).
    + destruct (Z.eqb_spec (2 ^ (i mod 64)) 0); [lia|reflexivity].
    + reflexivity.
Qed.

Theorem ToArray_ones ws : words_ok ws -> ToArray ws = Some (ones (flat ws)).
Proof.
  intros Hws. unfold ToArray. rewrite (Z.mul_comm (zlen ws)).
  rewrite (ToArray_loop_spec ws Hws) by (pose proof (zlen_nonneg ws); lia). reflexivity.
Qed.

(** * the 1-bits of a sub-range *)
Lemma filter_all {A} (f : A -> bool) l : (forall x, In x l -> f x = true) -> filter f l = l.
Proof.
  induction l as [|a l IH]; intros H; [reflexivity|].
  cbn [filter]. rewrite (H a (or_introl eq_refl)). f_equal. apply IH. intros x Hx. apply H. now right.
Qed.

Lemma ones_app_zeros l k : ones (l ++ zeros k) = ones l.
Proof.
  unfold ones, zeros. rewrite ones_from_app, ones_from_all_false. apply app_nil_r.
Qed.

Lemma ones_range (L : list bool) (f n : nat) : (f + n <= length L)%nat ->
  map (fun p => p - Z.of_nat f)
      (filter (fun p => (Z.of_nat f <=? p) && (p <? Z.of_nat f + Z.of_nat n)) (ones L))
  = ones (firstn n (skipn f L)).
Proof.
  intros Hlen. set (g := fun p => (Z.of_nat f <=? p) && (p <? Z.of_nat f + Z.of_nat n)).
  rewrite <- (firstn_skipn f L) at 1.
  rewrite <- (firstn_skipn n (skipn f L)) at 1.
  unfold ones. rewrite !ones_from_app, !filter_app.
  assert (La : length (firstn f L) = f) by (apply firstn_length_le; lia).
  assert (Lm : length (firstn n (skipn f L)) = n) by (apply firstn_length_le; rewrite skipn_length; lia).
  rewrite La, Lm.
  rewrite (filter_none g (ones_from 0 (firstn f L))).
  2:{ intros q Hq. apply ones_from_lb in Hq. rewrite La in Hq. unfold g.
      destruct (Z.leb_spec (Z.of_nat f) q); [lia|reflexivity]. }
  rewrite (filter_none g (ones_from _ (skipn n (skipn f L)))).
  2:{ intros q Hq. apply ones_from_lb in Hq. unfold g.
      destruct (Z.ltb_spec q (Z.of_nat f + Z.of_nat n)); [lia|]. now rewrite andb_false_r. }
  rewrite (filter_all g).
  2:{ intros q Hq. apply ones_from_lb in Hq. rewrite Lm in Hq. unfold g.
      destruct (Z.leb_spec (Z.of_nat f) q); [|lia].
      destruct (Z.ltb_spec q (Z.of_nat f + Z.of_nat n)); [reflexivity|lia]. }
  cbn [app]. rewrite app_nil_r. rewrite (ones_from_shift (0 + Z.of_nat f)), map_map.
  rewrite <- (map_id (ones_from 0 _)) at 2. apply map_ext. intros a. lia.
Qed.

Theorem spec_Slice_ones ws from to r : 0 <= from <= to -> to <= 64 * zlen ws ->
  spec_Slice ws from to r -> ones (flat r) = spec_SliceArray ws from to.
Proof.
  intros Hft Hto (_ & _ & F). rewrite F, ones_app_zeros. unfold spec_SliceArray.
  rewrite <- (ones_range (flat ws) (Z.to_nat from) (Z.to_nat (to - from))).
  2:{ rewrite flat_length. unfold zlen in Hto. lia. }
  rewrite !Z2Nat.id by lia. f_equal.
  apply filter_ext. intros p. f_equal. f_equal. lia.
Qed.

Theorem SliceToArray_correct ws from to : words_ok ws -> 0 <= from <= to -> to <= 64 * zlen ws ->
  SliceToArray ws from to = Some (spec_SliceArray ws from to).
Proof.
  intros Hws Hft Hto. unfold SliceToArray.
  destruct (Slice_spec_holds ws from to Hws Hft Hto) as (r & E & S). rewrite E.
  rewrite ToArray_ones by apply S. f_equal. now apply spec_Slice_ones.
Qed.
