(** C04 widening: laws that users of AllPaths / PathToIndex / Decode combine.
    - adjacent windows concatenate: AllPaths a b ++ AllPaths b c = AllPaths a c;
    - the PathToIndex values of AllPaths(T, from, to) are a run of consecutive
      integers a, a+1, ..., a+n-1 (the whole range gives 0 .. T-1);
    - Decode then re-encode: the indices of the decoded words are the 1-bits of
      the bitmap below T, and Of of them has exactly those bits. *)
From Coq Require Import ZArith List Lia Bool Sorting.Sorted.
From Low Require Import Lib.MachInt Lib.Bits Lib.BitSeq Lib.Lex Lib.Bytes Lib.BitsExtra_tree
  Lib.BitsExtra_bm2 Lib.SortedZ_tree4 Spec.Bmtree Spec.AllPathsSpec Spec.OfSpec
  Model.BmtreePath Model.BmtreeIndex Model.BmtreeAllPaths Model.BitmapOf
  Proofs.BmtreePathProofs Proofs.BmtreeRankSpec Proofs.BmtreeIndexProofs Proofs.OfProofs
  Proofs.BmtreeAllPathsProofs Proofs.BmtreeDecodeProofs.
Import ListNotations.
Open Scope Z_scope.

(** * adjacent windows *)
Lemma window_split l a b c : sasc l -> a <= b <= c ->
  filter (in_win a b) l ++ filter (in_win b c) l = filter (in_win a c) l.
Proof.
  intros Sl Habc. apply sasc_ext.
  - apply sasc_app. split; [now apply sasc_filter|]. split; [now apply sasc_filter|].
    intros x y Hx Hy. apply filter_In in Hx, Hy. destruct Hx as (_ & Hx), Hy as (_ & Hy).
    unfold in_win in *. apply andb_true_iff in Hx, Hy.
    destruct Hx as (_ & Hx), Hy as (Hy & _). apply Z.ltb_lt in Hx. apply Z.leb_le in Hy. lia.
  - now apply sasc_filter.
  - intros x. rewrite in_app_iff, !filter_In. unfold in_win. rewrite !andb_true_iff, !Z.leb_le, !Z.ltb_lt.
    split; [intros [(H & ?)|(H & ?)]; (split; [exact H|lia])|].
    intros (H & ?). destruct (Z_lt_le_dec x b); [left|right]; (split; [exact H|lia]).
Qed.

Lemma allpaths_split T a b c l1 l2 : 1 <= T < 2 ^ 31 -> 0 <= a -> a <= b <= c -> c < 2 ^ 64 ->
  AllPaths T a b = Some l1 -> AllPaths T b c = Some l2 -> AllPaths T a c = Some (l1 ++ l2).
Proof.
  intros HT Ha Habc Hc E1 E2. pose proof (Height_range T HT).
  rewrite allpaths_correct in * by (try assumption; lia).
  injection E1 as <-. injection E2 as <-. f_equal. unfold spec_allpaths. symmetry.
  apply (window_split _ a b c); [apply stored_words_sasc; lia|exact Habc].
Qed.

(** * a window of an ascending list is a segment of it *)
Lemma prefix_below l to : wasc l ->
  filter (fun w => w <? to) l = firstn (length (filter (fun w => w <? to) l)) l.
Proof.
  induction l as [|p l IH]; cbn [wasc filter]; [reflexivity|].
  intros (F & S). destruct (p <? to) eqn:E.
  - cbn [length firstn]. now rewrite <- IH.
  - replace (filter (fun w => w <? to) l) with (@nil Z); [reflexivity|].
    symmetry. apply filter_none. intros x Hx.
    pose proof (Forall_le_In _ _ _ F Hx). apply Z.ltb_ge in E. apply Z.ltb_ge. lia.
Qed.

Lemma window_segment l from to : wasc l ->
  filter (in_win from to) l =
  firstn (length (filter (in_win from to) l)) (skipn (length (filter (fun w => w <? from) l)) l).
Proof.
  induction l as [|p l IH]; cbn [wasc]; [reflexivity|].
  intros (F & S). destruct (from <=? p) eqn:E.
  - (* every element is >= from: the window is a prefix *)
    apply Z.leb_le in E.
    assert (Hge : forall x, In x (p :: l) -> from <= x).
    { intros x [<-|Hx]; [lia|]. pose proof (Forall_le_In _ _ _ F Hx). lia. }
    replace (filter (fun w => w <? from) (p :: l)) with (@nil Z).
    2:{ symmetry. apply filter_none. intros x Hx. apply Z.ltb_ge. now apply Hge. }
    cbn [length skipn].
    rewrite (filter_ext_in (in_win from to) (fun w => w <? to)).
    + apply (prefix_below (p :: l) to (conj F S)).
    + intros x Hx. unfold in_win. replace (from <=? x) with true by (symmetry; apply Z.leb_le; now apply Hge).
      reflexivity.
  - assert (Ew : in_win from to p = false) by (unfold in_win; now rewrite E).
    cbn [filter]. rewrite Ew.
    apply Z.leb_gt in E. replace (p <? from) with true by (symmetry; apply Z.ltb_lt; lia).
    cbn [length skipn]. exact (IH S).
Qed.

Lemma firstn_seq n : forall s len, firstn n (seq s len) = seq s (Nat.min n len).
Proof.
  induction n as [|n IH]; intros s [|len]; cbn [firstn seq Nat.min]; try reflexivity.
  now rewrite IH.
Qed.

(** the indices of the words of any window are consecutive: they start at the number of stored
    words below [from] *)
Lemma allpaths_index_exact T from to l : 1 <= T < 2 ^ 31 -> 0 <= from < 2 ^ 64 -> 0 <= to < 2 ^ 64 ->
  AllPaths T from to = Some l ->
  map (PathToIndex T) l =
  map (fun k => Some (Z.of_nat k))
      (seq (length (filter (fun w => w <? from) (stored_words T (Z.to_nat (Height T))))) (length l)).
Proof.
  intros HT Hf Ht E. pose proof (Height_range T HT) as Hh.
  rewrite allpaths_correct in E by assumption. injection E as <-. unfold spec_allpaths.
  change (in_window from to) with (in_win from to).
  set (h := Z.to_nat (Height T)). set (W := stored_words T h).
  assert (HW : wasc W) by (apply sasc_wasc, stored_words_sasc; unfold h; lia).
  set (a := length (filter (fun w => w <? from) W)). set (n := length (filter (in_win from to) W)).
  assert (Hlen : length W = Z.to_nat T).
  { unfold W, stored_words. rewrite map_length.
    pose proof (stored_nodes_count_T T h HT (Height_to_nat T HT)). lia. }
  assert (Han : (a + n <= length W)%nat).
  { pose proof (f_equal (@length Z) (window_segment W from to HW)) as HL. fold a n in HL.
    rewrite firstn_length, skipn_length in HL.
    pose proof (filter_length_le (fun w => w <? from) W) as Ha. fold a in Ha. lia. }
  rewrite (window_segment W from to HW). fold a n.
  rewrite <- firstn_map, <- skipn_map. unfold W, stored_words.
  rewrite (PathToIndex_enum T h HT (Height_to_nat T HT)).
  rewrite skipn_map, firstn_map, skipn_seq, firstn_seq. cbn [plus].
  rewrite Nat.min_l by lia. reflexivity.
Qed.

Lemma allpaths_index_run T from to l : 1 <= T < 2 ^ 31 -> 0 <= from < 2 ^ 64 -> 0 <= to < 2 ^ 64 ->
  AllPaths T from to = Some l ->
  exists a, map (PathToIndex T) l = map (fun k => Some (Z.of_nat k)) (seq a (length l)).
Proof. intros HT Hf Ht E. eexists. exact (allpaths_index_exact T from to l HT Hf Ht E). Qed.

(** the whole range enumerates 0 .. T-1 *)
Lemma allpaths_index_all T to : 1 <= T < 2 ^ 31 -> 2 ^ 63 <= to < 2 ^ 64 ->
  exists l, AllPaths T 0 to = Some l /\
            map (PathToIndex T) l = map (fun k => Some (Z.of_nat k)) (seq 0 (Z.to_nat T)).
Proof.
  intros HT Hto. pose proof (Height_range T HT) as Hh.
  assert (H0 : 0 <= 0 < 2 ^ 64) by (split; [lia|reflexivity]).
  assert (Ht : 0 <= to < 2 ^ 64) by (change (2 ^ 63) with 9223372036854775808 in Hto; lia).
  rewrite (allpaths_correct T 0 to HT H0 Ht). eexists. split; [reflexivity|].
  unfold spec_allpaths. rewrite filter_all.
  - apply (PathToIndex_enum T _ HT (Height_to_nat T HT)).
  - intros w Hw. apply stored_words_bound in Hw; [|lia]. rewrite Z2Nat.id in Hw by lia.
    assert (2 ^ (Height T + 32) <= 2 ^ 62) by (apply pow2_le; lia).
    unfold in_window. apply andb_true_iff. split; [apply Z.leb_le; lia|apply Z.ltb_lt].
    change (2 ^ 62) with 4611686018427387904 in *. change (2 ^ 63) with 9223372036854775808 in *. lia.
Qed.

(** * Decode, then re-encode *)

(** positions selected from a list whose k-th element has index base+k *)
Lemma select_by_indices (idx : Z -> option Z) bs : forall l base,
  (forall k, (k < length l)%nat -> idx (nth k l 0) = Some (Z.of_nat (base + k))) ->
  map idx (select_by bs base l) =
  map Some (filter (fun p => nth (Z.to_nat p) bs false) (zrange (Z.of_nat base) (length l))).
Proof.
  induction l as [|p l IH]; intros base H; cbn [select_by length zrange filter map]; [reflexivity|].
  pose proof (H 0%nat ltac:(cbn [length]; lia)) as H0. cbn [nth] in H0. rewrite Nat.add_0_r in H0.
  rewrite Nat2Z.id.
  assert (IH' : map idx (select_by bs (S base) l) =
                map Some (filter (fun p => nth (Z.to_nat p) bs false) (zrange (Z.of_nat base + 1) (length l)))).
  { replace (Z.of_nat base + 1) with (Z.of_nat (S base)) by lia. apply IH.
    intros k Hk. specialize (H (S k)). cbn [nth length] in H.
    replace (S base + k)%nat with (base + S k)%nat by lia. apply H. lia. }
  destruct (nth base bs false); cbn [map]; rewrite IH'; [now rewrite H0|reflexivity].
Qed.

Lemma zrange_filter_ones bs : forall n base,
  filter (fun p => nth (Z.to_nat p) bs false) (zrange (Z.of_nat base) n) =
  filter (fun p => p <? Z.of_nat (base + n)) (ones_from (Z.of_nat base) (skipn base bs)).
Proof.
  induction n as [|n IH]; intros base.
  - cbn [zrange filter]. rewrite Nat.add_0_r. symmetry. apply filter_none. intros p Hp.
    apply Z.ltb_ge. clear - Hp. revert Hp. generalize (skipn base bs) as l. generalize (Z.of_nat base) as b.
    intros b l. revert b. induction l as [|x l IHl]; intros b; cbn [ones_from]; [intros []|].
    destruct x; [intros [<-|Hp]; [lia|]|intros Hp]; apply IHl in Hp; lia.
  - cbn [zrange filter]. rewrite Nat2Z.id.
    replace (Z.of_nat base + 1) with (Z.of_nat (S base)) by lia. rewrite IH.
    replace (S base + n)%nat with (base + S n)%nat by lia.
    destruct (Nat.lt_ge_cases base (length bs)) as [Hlt|Hge].
    + destruct (nth_split bs false Hlt) as (l1 & l2 & E & Hl1).
      assert (Es : skipn base bs = nth base bs false :: l2).
      { rewrite E at 1. rewrite <- Hl1, skipn_app, skipn_all, Nat.sub_diag. reflexivity. }
      assert (Es' : skipn (S base) bs = l2).
      { rewrite E at 1. replace (S base) with (length l1 + 1)%nat by lia.
        rewrite skipn_app. rewrite skipn_all2 by lia.
        replace (length l1 + 1 - length l1)%nat with 1%nat by lia. reflexivity. }
      rewrite Es, Es'. cbn [ones_from].
      replace (Z.of_nat (S base)) with (Z.of_nat base + 1) by lia.
      destruct (nth base bs false); [|reflexivity].
      cbn [filter]. replace (Z.of_nat base <? Z.of_nat (base + S n)) with true by (symmetry; apply Z.ltb_lt; lia).
      reflexivity.
    + rewrite nth_overflow by lia. rewrite !skipn_all2 by lia. reflexivity.
Qed.

Lemma decode_reencode T bm : 1 <= T < 2 ^ 31 -> zlen bm < 2 ^ 31 ->
  exists l idxs r,
    Decode T bm = Some l /\
    map (PathToIndex T) l = map Some idxs /\
    idxs = filter (fun p => p <? T) (ones (flat bm)) /\
    Of idxs None = Some r /\ ones (flat r) = idxs /\ zlen r = words_for (of_bits idxs None).
Proof.
  intros HT Hl. set (h := Z.to_nat (Height T)).
  pose proof (stored_nodes_count_T T h HT (Height_to_nat T HT)) as Hc.
  set (idxs := filter (fun p => p <? T) (ones (flat bm))).
  assert (Si : StronglySorted Z.lt idxs).
  { apply StronglySorted_filter. apply ones_sorted. }
  assert (Ni : forall p, In p idxs -> 0 <= p).
  { intros p Hp. apply filter_In in Hp. destruct Hp as (Hp & _). apply ones_In_bitz in Hp. tauto. }
  destruct (Of_ascending idxs None Si Ni) as (r & Er & _ & Hzl & Hones).
  exists (spec_decode T h bm), idxs, r.
  split; [apply decode_correct; assumption|]. split; [|split; [reflexivity|split; [assumption|split; assumption]]].
  unfold spec_decode.
  rewrite (select_by_indices (PathToIndex T) (flat bm) (stored_words T h) 0).
  2:{ intros k Hk. cbn [plus]. apply stored_words_nth_index; assumption. }
  f_equal.
  rewrite (zrange_filter_ones (flat bm) (length (stored_words T h)) 0). cbn [skipn plus].
  change (Z.of_nat 0) with 0. unfold stored_words. rewrite map_length, Hc. reflexivity.
Qed.
