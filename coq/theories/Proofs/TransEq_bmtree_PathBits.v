(** Equality of the definition generated from the Go source of bmtree.PathBits (coq/gen/Trans.v) and the model. *)
From Coq Require Import ZArith List Lia Bool.
From Low Require Import Lib.MachInt Lib.Bits Lib.BitSeq Lib.TransLib Proofs.TransEqLemmas.
From LowGen Require Trans.
Import ListNotations.
Open Scope Z_scope.

From Low Require Import Model.BmtreePath.

Lemma TransEq_bmtree_PathBits p : Trans.bmtree_PathBits p = PathBits p.
Proof. reflexivity. Qed.
