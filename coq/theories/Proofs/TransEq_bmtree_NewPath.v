(** Equality of the definition generated from the Go source of bmtree.NewPath (coq/gen/Trans.v) and the model. *)
From Coq Require Import ZArith List Lia Bool.
From Low Require Import Lib.MachInt Lib.Bits Lib.BitSeq Lib.TransLib Proofs.TransEqLemmas.
From LowGen Require Trans.
Import ListNotations.
Open Scope Z_scope.

From Low Require Import Model.BmtreePath.

(** [bitmap.Mask[length]] panics outside [0, 64]; otherwise the model's value, for every int32 [length],
    [height] (a negative or wrapped [height-length] shifts everything out on both sides) *)
Lemma TransEq_bmtree_NewPath sb l h : in_i32 l -> in_i32 h ->
  Trans.bmtree_NewPath sb l h = if (0 <=? l) && (l <? 65) then Some (NewPath sb l h) else None.
Proof.
  unfold in_i32. intros Hl Hh. unfold Trans.bmtree_NewPath, NewPath, tblZ. cbv zeta.
  destruct ((0 <=? l) && (l <? 65)) eqn:E; [|reflexivity].
  apply andb_true_iff in E. destruct E as [E1 E2]. apply Z.leb_le in E1. apply Z.ltb_lt in E2.
  f_equal. f_equal. rewrite shl64_count_i32.
  (* i32 (h - l) differs from h - l only when h - l < -2^31: then both counts shift everything out *)
  destruct (Z_le_gt_dec (- 2 ^ 31) (h - l)) as [Hd|Hd].
  - rewrite i32_id by lia. reflexivity.
  - assert (Hw : i32 (h - l) = h - l + 2 ^ 32).
    { unfold i32. rewrite <- (Z_mod_plus_full (h - l + 2 ^ 31) 1 (2 ^ 32)).
      rewrite Z.mod_small by lia. lia. }
    rewrite Hw. unfold shl64.
    destruct (Z.ltb_spec (h - l + 2 ^ 32) 64); [lia|].
    destruct (Z.ltb_spec (h - l) 64); [|lia].
    rewrite Z.pow_neg_r by lia. rewrite Z.mul_0_r. reflexivity.
Qed.

(** on the domain of the function (a length inside the table) *)
Lemma TransEq_bmtree_NewPath_dom sb l h : 0 <= l <= 64 -> in_i32 h ->
  Trans.bmtree_NewPath sb l h = Some (NewPath sb l h).
Proof.
  intros Hl Hh. rewrite TransEq_bmtree_NewPath; [|unfold in_i32; lia|exact Hh].
  destruct (Z.leb_spec 0 l); [|lia]. destruct (Z.ltb_spec l 65); [|lia]. reflexivity.
Qed.
