(** C10 widening: the accessors PathLen / PathHeight / PathBits / PathMask /
    PathStr on an ARBITRARY uint64 (not only on path words), against the naive
    vocabulary of Spec/PathWideSpec.v. *)
From Coq Require Import ZArith List Lia Bool.
From Low Require Import Lib.MachInt Lib.Bits Lib.BitSeq Lib.Lex Lib.Bytes Lib.BitsExtra_tree
  Spec.Bmtree Spec.PathSpec Spec.PathWideSpec Model.BmtreePath Model.BmtreePathStr
  Proofs.BmtreePathProofs Proofs.BmtreeDomainProofs.
Import ListNotations.
Open Scope Z_scope.

(** * bit length *)
Lemma bitlen_unique x h : 0 < x -> 2 ^ (h - 1) <= x < 2 ^ h -> bitlen x = h.
Proof.
  intros Hx Hb. rewrite bitlen_pos by exact Hx.
  assert (Hh : 1 <= h).
  { destruct (Z.lt_ge_cases h 1) as [Hlt|]; [|assumption].
    assert (2 ^ h <= 2 ^ 0) by (destruct (Z.lt_ge_cases h 0); [rewrite Z.pow_neg_r by lia; cbn; lia|apply pow2_le; lia]).
    change (2 ^ 0) with 1 in *. lia. }
  rewrite (Z.log2_unique x (h - 1)); [lia|lia|].
  replace (Z.succ (h - 1)) with h by lia. exact Hb.
Qed.

Lemma bitlen_half v : 2 <= v -> bitlen v = bitlen (v / 2) + 1.
Proof.
  intros Hv. assert (Hh : 0 < v / 2) by (apply Z.div_str_pos; lia).
  pose proof (bitlen_bound (v / 2) Hh) as Hb. pose proof (bitlen_nonneg (v / 2)) as Hn.
  assert (H1 : 1 <= bitlen (v / 2)).
  { destruct (Z.eq_dec (bitlen (v / 2)) 0) as [E|]; [|lia]. rewrite E in Hb. change (2 ^ 0) with 1 in Hb. lia. }
  apply bitlen_unique; [lia|].
  replace (bitlen (v / 2) + 1 - 1) with (bitlen (v / 2) - 1 + 1) by lia.
  rewrite !pow2_succ by lia.
  pose proof (Z.div_mod v 2 ltac:(lia)). pose proof (Z.mod_pos_bound v 2 ltac:(lia)). lia.
Qed.

Lemma popcount_le_bitlen m : 0 <= m -> popcount m <= bitlen m.
Proof.
  intros Hm. destruct (Z.eq_dec m 0) as [->|Hne]; [cbn; lia|].
  pose proof (bitlen_bound m ltac:(lia)) as Hb. pose proof (bitlen_nonneg m) as Hn.
  pose proof (popcount_bound (Z.to_nat (bitlen m)) m) as Hp.
  rewrite Z2Nat.id in Hp by lia. lia.
Qed.

(** * PathLen, PathHeight *)
Lemma PathLen_raw w : PathLen w = len_spec w.
Proof.
  unfold PathLen, len_spec, u32. apply (popcount_bits 32).
  change (2 ^ Z.of_nat 32) with (2 ^ 32). apply Z.mod_pos_bound. lia.
Qed.

Lemma PathHeight_raw_ok w : height_ok w (PathHeight w) = true.
Proof.
  unfold height_ok, PathHeight, u32. pose proof (Z.mod_pos_bound w (2 ^ 32) ltac:(lia)) as Hm.
  destruct (Z.eqb_spec (w mod 2 ^ 32) 0) as [->|Hne]; [reflexivity|].
  pose proof (bitlen_bound (w mod 2 ^ 32) ltac:(lia)) as Hb.
  pose proof (bitlen_nonneg (w mod 2 ^ 32)) as Hn.
  assert (1 <= bitlen (w mod 2 ^ 32)).
  { destruct (Z.eq_dec (bitlen (w mod 2 ^ 32)) 0) as [E|]; [|lia]. rewrite E in Hb. change (2 ^ 0) with 1 in Hb. lia. }
  repeat (apply andb_true_intro; split); [apply Z.leb_le|apply Z.leb_le|apply Z.ltb_lt]; lia.
Qed.

Lemma height_ok_unique w h : height_ok w h = true -> h = PathHeight w.
Proof.
  unfold height_ok, PathHeight, u32. pose proof (Z.mod_pos_bound w (2 ^ 32) ltac:(lia)) as Hm.
  destruct (Z.eqb_spec (w mod 2 ^ 32) 0) as [->|Hne].
  - intros H. apply Z.eqb_eq in H. subst h. reflexivity.
  - intros H. apply andb_prop in H. destruct H as [H H3]. apply andb_prop in H. destruct H as [H1 H2].
    apply Z.leb_le in H1, H2. apply Z.ltb_lt in H3.
    symmetry. apply bitlen_unique; lia.
Qed.

Lemma PathHeight_le32 w : 0 <= PathHeight w <= 32.
Proof.
  unfold PathHeight. split; [apply bitlen_nonneg|].
  apply bitlen_le; [lia|]. apply u32_range.
Qed.

Lemma PathLen_le_height w : 0 <= PathLen w <= PathHeight w.
Proof.
  unfold PathLen, PathHeight. pose proof (u32_range w). split; [apply popcount_nonneg|].
  apply popcount_le_bitlen. lia.
Qed.

(** * the numeral printed by [%0*b] *)
Lemma bin_digits_length : forall fuel v, (1 <= fuel)%nat -> 0 <= v < 2 ^ Z.of_nat fuel ->
  zlen (bin_digits fuel v) = Z.max 1 (bitlen v).
Proof.
  unfold zlen. induction fuel as [|f IH]; intros v Hf Hv; [lia|].
  cbn [bin_digits]. destruct (Z.ltb_spec v 2) as [Hlt|Hge].
  - cbn [length]. assert (v = 0 \/ v = 1) as [-> | ->] by lia; reflexivity.
  - cbn [length]. rewrite pow2_S in Hv.
    assert (Hf1 : (1 <= f)%nat).
    { destruct f; [|lia]. change (2 ^ Z.of_nat 0) with 1 in Hv. lia. }
    rewrite Nat2Z.inj_succ, IH by (try lia; apply half_bound; lia).
    rewrite (bitlen_half v Hge).
    assert (0 < v / 2) by (apply Z.div_str_pos; lia).
    pose proof (bitlen_bound (v / 2) ltac:(lia)) as Hb. pose proof (bitlen_nonneg (v / 2)).
    assert (1 <= bitlen (v / 2)).
    { destruct (Z.eq_dec (bitlen (v / 2)) 0) as [E|]; [|lia]. rewrite E in Hb. change (2 ^ 0) with 1 in Hb. lia. }
    lia.
Qed.

Lemma fmt_0b_numeral width v : 1 <= width <= 64 -> 0 <= v < 2 ^ 64 ->
  fmt_0b width v = numeral_spec width v.
Proof.
  intros Hw Hv. unfold fmt_0b, numeral_spec.
  pose proof (bitlen_nonneg v) as Hbn.
  assert (Hb64 : bitlen v <= 64) by (apply bitlen_le; lia).
  set (n := Z.to_nat (Z.max width (bitlen v))).
  assert (Hn : (1 <= n <= 64)%nat) by (unfold n; lia).
  assert (Hvn : 0 <= v < 2 ^ Z.of_nat n).
  { split; [lia|]. destruct (Z.eq_dec v 0) as [->|]; [apply pow2_pos; lia|].
    pose proof (bitlen_bound v ltac:(lia)) as Hb. pose proof (pow2_le (bitlen v) (Z.of_nat n)). unfold n in *. lia. }
  destruct (bin_digits_spec n 64 v) as [H1 H2]; [lia|exact Hvn|].
  pose proof (bin_digits_length 64 v ltac:(lia) Hv) as Hlen. unfold zlen in *.
  replace (Z.to_nat (width - Z.of_nat (length (bin_digits 64 v)))) with (n - length (bin_digits 64 v))%nat
    by (unfold n in *; lia).
  rewrite H2. now rewrite map_rev.
Qed.

(** * PathStr on an arbitrary word *)
Lemma PathStr_raw w : 0 <= w < 2 ^ 64 -> PathStr w = str_spec w (PathLen w) (PathHeight w).
Proof.
  intros Hw. unfold PathStr, str_spec.
  destruct (Z.eqb_spec (PathLen w) 0) as [E|E]; [reflexivity|].
  pose proof (PathLen_le_height w) as Hl. pose proof (PathHeight_le32 w) as Hh.
  rewrite shr64_div by lia.
  apply fmt_0b_numeral; [lia|].
  split; [apply Z.div_pos; [lia|apply pow2_pos; lia]|].
  apply Z.div_lt_upper_bound; [apply pow2_pos; lia|].
  pose proof (pow2_pos (32 + PathHeight w - PathLen w) ltac:(lia)). nia.
Qed.

Lemma zs_eqb_eq a b : zs_eqb a b = true <-> a = b.
Proof. unfold zs_eqb. destruct (list_eq_dec Z.eq_dec a b); split; congruence. Qed.

(** the checker of [bmtree.PathFields/raw] accepts exactly the model's observation *)
Lemma rawfields_ok_iff w pl ph pb pm ps : 0 <= w < 2 ^ 64 ->
  rawfields_ok w pl ph pb pm ps = true <->
  pl = PathLen w /\ ph = PathHeight w /\ pb = PathBits w /\ pm = PathMask w /\ ps = PathStr w.
Proof.
  intros Hw. unfold rawfields_ok. rewrite !andb_true_iff, !Z.eqb_eq, zs_eqb_eq.
  rewrite PathBits_half, PathMask_half, <- PathLen_raw. split.
  - intros ((((H1 & H2) & H3) & H4) & H5). apply height_ok_unique in H2. subst pl ph.
    rewrite PathStr_raw by exact Hw. tauto.
  - intros (H1 & H2 & H3 & H4 & H5). subst pl ph. rewrite <- PathStr_raw by exact Hw.
    pose proof (PathHeight_raw_ok w). tauto.
Qed.
