(** Proofs for C15, widened: histories that start from an arbitrary well-formed struct literal
    [TailBitmap{Offset: off, Words: ws}] (users and the package's own tests build such values
    directly) instead of [NewTailBitmap].  The bits stored in the literal count as set; everything of
    the invariant but the head clause holds from the start, the head clause from the first Compact on
    (or from the start when the literal's first word is not all-ones).  Also: the executable checker
    of the literal protocol operation accepts the model. *)
From Coq Require Import ZArith List Bool Lia.
From Low Require Import Lib.MachInt Lib.Bits Lib.BitSeq Model.TailBitmap
  Spec.TailBitmapSpec Spec.TailBitmapInv Spec.TailBitmapObs
  Proofs.TailBitmapProofs Proofs.TailBitmapHist Proofs.TailBitmapChecker Proofs.TailBitmapSound Run.C15.
Import ListNotations.
Open Scope Z_scope.

(** ** the literal satisfies the invariant for its own bits *)

Lemma lit_WInv off ws : words_ok ws -> WInv (lit_set off ws) off ws.
Proof.
  intros Hw. constructor.
  - exact Hw.
  - intros i w b Hn Hb. unfold lit_set, tb_end.
    assert (Hi : (i < length ws)%nat) by (apply nth_error_Some; congruence).
    replace (off + 64 * Z.of_nat i + b - off) with (64 * Z.of_nat i + b) by lia.
    rewrite (bitz_flat ws i w b Hn Hb). unfold zlen. split; [intros A; split; [lia|exact A]|tauto].
  - intros j [Hj _]. unfold tb_end in Hj. lia.
Qed.

Lemma lit_Inv off ws r0 : off mod 64 = 0 -> words_ok ws ->
  Inv (head_ok ws) off (lit_set off ws) (mkTB off ws r0).
Proof.
  intros Ho Hw. constructor; cbn [Offset Words].
  - exact Ho.
  - lia.
  - intros A. exact A.
  - intros j Hj. left. exact Hj.
  - apply lit_WInv. exact Hw.
Qed.

(** ** every state reachable from the literal *)

Lemma lit_reach_Inv off ws r0 ops s rs : off mod 64 = 0 -> words_ok ws ->
  run (mkTB off ws r0) ops = Some (s, rs) ->
  Inv (head_ok ws) off (fun j => lit_set off ws j \/ was_set ops j) s /\
  Mono (fun j => lit_set off ws j \/ was_set ops j) (mkTB off ws r0) s.
Proof.
  intros Ho Hw E.
  destruct (run_Inv _ off ops _ _ _ _ (lit_Inv off ws r0 Ho Hw) E) as (I & M & _).
  split; assumption.
Qed.

Lemma lit_reach off ws r0 ops s rs : off mod 64 = 0 -> words_ok ws ->
  run (mkTB off ws r0) ops = Some (s, rs) ->
  TInvW off (fun j => lit_set off ws j \/ was_set ops j) (Offset s) (Words s) /\
  off <= Offset s /\ tb_end off ws <= tb_end (Offset s) (Words s) /\
  (head_ok ws -> head_ok (Words s)).
Proof.
  intros Ho Hw E. destruct (lit_reach_Inv off ws r0 ops s rs Ho Hw E) as [I M].
  split; [eapply Inv_TInvW; exact I|].
  split; [exact (mo_off _ _ _ M)|]. split; [exact (mo_end _ _ _ M)|].
  apply (inv_head _ _ _ _ I).
Qed.

Lemma lit_Get off ws r0 ops s rs j (m : bool) : off mod 64 = 0 -> words_ok ws ->
  run (mkTB off ws r0) ops = Some (s, rs) ->
  j < tb_end (Offset s) (Words s) ->
  (m = true <-> j < off \/ lit_set off ws j \/ was_set ops j) ->
  Get1 s j = Some (Z.b2z m) /\ Get s j = Some (Z.shiftl (Z.b2z m) (j mod 64)).
Proof.
  intros Ho Hw E Hj Hm. destruct (lit_reach_Inv off ws r0 ops s rs Ho Hw E) as [I _].
  eapply Get_spec; [exact I|exact Hj|exact Hm].
Qed.

(** from the first Compact on, the first stored word is not all-ones *)
Lemma lit_head_after_Compact off ws r0 ops s rs : off mod 64 = 0 -> words_ok ws ->
  run (mkTB off ws r0) ops = Some (s, rs) -> In OCompact ops -> head_ok (Words s).
Proof.
  intros Ho Hw E Hin. apply in_split in Hin. destruct Hin as (a & b & ->).
  rewrite run_app in E.
  destruct (run (mkTB off ws r0) a) as [[s1 r1]|] eqn:E1; [|discriminate].
  destruct (run s1 (OCompact :: b)) as [[s2 r2]|] eqn:E2; [|discriminate].
  inversion E; subst s rs. cbn [run step] in E2.
  destruct (run (Compact s1) b) as [[s3 r3]|] eqn:E3; [|discriminate].
  inversion E2; subst s2 r2.
  destruct (lit_reach_Inv off ws r0 a s1 r1 Ho Hw E1) as [I1 _].
  destruct (Inv_Compact _ off _ s1 I1) as (IC & _).
  destruct (run_Inv True off b _ _ _ _ IC E3) as (I3 & _).
  apply (inv_head _ _ _ _ I3 Logic.I).
Qed.

(** Set / Compact never panic from a literal either; a probe below the end never panics *)
Lemma lit_no_panic off ws r0 ops s rs : off mod 64 = 0 -> words_ok ws ->
  run (mkTB off ws r0) ops = Some (s, rs) ->
  forall p, (forall j, p = OGet j \/ p = OGet1 j -> j < tb_end (Offset s) (Words s)) ->
  step s p <> None.
Proof.
  intros Ho Hw E p Hp. destruct (lit_reach_Inv off ws r0 ops s rs Ho Hw E) as [I _].
  eapply step_total; [exact I|exact Hp].
Qed.

(** ** the checker of the literal protocol operation accepts the model *)

Lemma runs_mem : forall bs base cur j,
  (forall a, cur = Some a -> a <= base) ->
  (memP (runs base bs cur) j <->
   ((exists a, cur = Some a /\ a <= j < base) \/
    (base <= j /\ nth_error bs (Z.to_nat (j - base)) = Some true))).
Proof.
  induction bs as [|x t IH]; intros base cur j Hc; cbn [runs].
  - destruct cur as [a|].
    + rewrite memP_cons, memP_nil. split.
      * intros [[]|A]. left. exists a. split; [reflexivity|exact A].
      * intros [(a' & E & A)|[_ B]]; [inversion E; subst; right; exact A|].
        destruct (Z.to_nat (j - base)); discriminate.
    + rewrite memP_nil. split; [intros []|].
      intros [(a' & E & _)|[_ B]]; [discriminate|]. destruct (Z.to_nat (j - base)); discriminate.
  - assert (Hsplit : base <= j ->
             (nth_error (x :: t) (Z.to_nat (j - base)) = Some true <->
              ((j = base /\ x = true) \/
               (base + 1 <= j /\ nth_error t (Z.to_nat (j - (base + 1))) = Some true)))).
    { intros Hj. destruct (Z.eq_dec j base) as [->|Hne].
      - rewrite Z.sub_diag. cbn [Z.to_nat nth_error]. split.
        + intros E. inversion E. left. auto.
        + intros [[_ ->]|[A _]]; [reflexivity|lia].
      - replace (Z.to_nat (j - base)) with (S (Z.to_nat (j - (base + 1)))) by lia.
        cbn [nth_error]. split; [intros E; right; split; [lia|exact E]|].
        intros [[A _]|[_ B]]; [lia|exact B]. }
    destruct x.
    + (* a 1-bit: the run goes on / starts here *)
      destruct cur as [a|].
      * pose proof (Hc a eq_refl) as Ha.
        rewrite (IH (base + 1) (Some a) j) by (intros a' E; inversion E; subst; lia). split.
        -- intros [(a' & E & A)|[A B]].
           ++ inversion E; subst a'. destruct (Z.eq_dec j base) as [->|Hne].
              ** right. split; [lia|]. apply Hsplit; [lia|]. left. auto.
              ** left. exists a. split; [reflexivity|lia].
           ++ right. split; [lia|]. apply Hsplit; [lia|]. right. auto.
        -- intros [(a' & E & A)|[A B]].
           ++ inversion E; subst a'. left. exists a. split; [reflexivity|lia].
           ++ apply Hsplit in B; [|exact A]. destruct B as [[-> _]|[B1 B2]].
              ** left. exists a. split; [reflexivity|lia].
              ** right. auto.
      * rewrite (IH (base + 1) (Some base) j) by (intros a' E; inversion E; subst; lia). split.
        -- intros [(a' & E & A)|[A B]].
           ++ inversion E; subst a'. right. split; [lia|]. apply Hsplit; [lia|]. left. split; [lia|reflexivity].
           ++ right. split; [lia|]. apply Hsplit; [lia|]. right. auto.
        -- intros [(a' & E & _)|[A B]]; [discriminate|].
           apply Hsplit in B; [|exact A]. destruct B as [[-> _]|[B1 B2]].
           ++ left. exists base. split; [reflexivity|lia].
           ++ right. auto.
    + (* a 0-bit: the run (if any) ends here *)
      destruct cur as [a|].
      * rewrite memP_cons. rewrite (IH (base + 1) None j) by (intros a' E; discriminate). split.
        -- intros [[(a' & E & _)|[A B]]|A]; [discriminate| |].
           ++ right. split; [lia|]. apply Hsplit; [lia|]. right. auto.
           ++ left. exists a. auto.
        -- intros [(a' & E & A)|[A B]].
           ++ inversion E; subst a'. right. exact A.
           ++ apply Hsplit in B; [|exact A]. destruct B as [[_ B]|[B1 B2]]; [discriminate|].
              left. right. auto.
      * rewrite (IH (base + 1) None j) by (intros a' E; discriminate). split.
        -- intros [(a' & E & _)|[A B]]; [discriminate|].
           right. split; [lia|]. apply Hsplit; [lia|]. right. auto.
        -- intros [(a' & E & _)|[A B]]; [discriminate|].
           apply Hsplit in B; [|exact A]. destruct B as [[_ B]|[B1 B2]]; [discriminate|].
           right. auto.
Qed.

Lemma memP_hist_of_words off ws j : memP (hist_of_words off ws) j <-> lit_set off ws j.
Proof.
  unfold hist_of_words. rewrite runs_mem by (intros a E; discriminate).
  unfold lit_set, tb_end, zlen, bitz. split.
  - intros [(a & E & _)|[A B]]; [discriminate|].
    assert (Hlt : (Z.to_nat (j - off) < length (flat ws))%nat) by (apply nth_error_Some; congruence).
    rewrite flat_length in Hlt. split; [lia|].
    apply nth_error_nth with (d := false) in B. exact B.
  - intros [Hr Hb]. right. split; [lia|].
    assert (Hlt : (Z.to_nat (j - off) < length (flat ws))%nat) by (rewrite flat_length; lia).
    destruct (nth_error (flat ws) (Z.to_nat (j - off))) as [x|] eqn:En.
    + apply nth_error_nth with (d := false) in En. congruence.
    + apply nth_error_None in En. lia.
Qed.

Lemma Inv_flag (b : bool) (st : Prop) o P s : (b = true -> st) -> Inv st o P s -> Inv (b = true) o P s.
Proof. intros W I. eapply Inv_weaken; [exact W|exact I]. Qed.

Lemma run_proto_lit_ok o : forall ps (b : bool) H s l, Inv (b = true) o (memP H) s ->
  run_proto s ps = OOk l -> check_run_lit b o (Offset s, Words s) H ps l = true.
Proof.
  induction ps as [|p t IH]; intros b H s l I E; cbn [run_proto] in E.
  - inversion E; subst. reflexivity.
  - destruct (pop_in_domain s p); cbn [negb] in E; [|discriminate].
    destruct (pstep s p) as [[s1 r]|] eqn:E1; [|discriminate].
    destruct (run_proto s1 t) as [| |l1] eqn:E2; try discriminate.
    inversion E; subst l. cbn [check_run_lit fst snd].
    destruct (pstep_Inv _ o H s p s1 r I E1) as [I1 _].
    assert (Inow : Inv ((b || touches_head (Offset s) p) = true) o (memP (abs_step H p)) s1).
    { destruct b; cbn [orb]; [exact I1|].
      destruct (touches_head (Offset s) p) eqn:Th; [|eapply Inv_weaken; [|exact I1]; discriminate].
      assert (Hh : head_ok (Words s1)).
      { destruct p; cbn [touches_head] in Th; try discriminate.
        - apply andb_true_iff in Th. destruct Th as [A B]. apply Z.leb_le in A. apply Z.ltb_lt in B.
          cbn [pstep step] in E1. destruct (Set_ s idx) as [s2|] eqn:ES; [|discriminate].
          inversion E1; subst s1 r. apply (Set_head s idx s2); [lia|exact ES].
        - cbn [pstep step] in E1. inversion E1; subst s1 r. apply Compact_head. }
      eapply Inv_weaken; [|exact (Inv_strengthen _ o _ s1 Hh I1)]. intros _. exact Logic.I. }
    rewrite (check_step_gen_ok _ _ o H s p s1 r I Inow E1). cbn [andb].
    apply IH; [|exact E2].
    destruct (head_okb (Words s1)) eqn:Hh.
    + rewrite orb_true_r. apply head_okb_iff in Hh.
      eapply Inv_weaken; [|exact (Inv_strengthen _ o _ s1 Hh Inow)]. intros _. exact Logic.I.
    + rewrite orb_false_r. exact Inow.
Qed.

Lemma model_literal_accepted off ws ps l :
  model_literal off ws ps = OOk l -> check_literal off ws ps l = true.
Proof.
  unfold model_literal, check_literal, offset_in_domain. intros E.
  destruct ((- BIG <=? off) && (off <=? BIG) && (off mod 64 =? 0) && words_okb ws && (zlen ws <=? 2 ^ 16)) eqn:D;
    [|discriminate].
  apply andb_true_iff in D. destruct D as [D _]. apply andb_true_iff in D. destruct D as [D Dw].
  apply andb_true_iff in D. destruct D as [_ D]. apply Z.eqb_eq in D. apply words_okb_ok in Dw.
  assert (I : Inv (head_okb ws = true) off (memP (hist_of_words off ws)) (mkTB off ws 0)).
  { eapply Inv_ext; [intros j; symmetry; apply memP_hist_of_words|].
    eapply Inv_weaken; [|exact (lit_Inv off ws 0 D Dw)]. apply head_okb_iff. }
  exact (run_proto_lit_ok off ps _ _ _ l I E).
Qed.

(** ** the checker of the literal operation decides the Prop-level property of an observed history *)

Lemma lit_TInvW off ws : off mod 64 = 0 -> words_ok ws ->
  TInvW off (memP (hist_of_words off ws)) off ws.
Proof.
  intros Ho Hw.
  assert (I : Inv (head_ok ws) off (memP (hist_of_words off ws)) (mkTB off ws 0)).
  { eapply Inv_ext; [intros j; symmetry; apply memP_hist_of_words|]. apply lit_Inv; assumption. }
  exact (Inv_TInvW _ _ _ _ I).
Qed.

Lemma check_literal_iff off ws ps obs : off mod 64 = 0 -> words_ok ws ->
  Forall (fun ob => words_ok (snd (fst ob))) obs ->
  (check_literal off ws ps obs = true <-> lit_obs_ok off ws ps obs).
Proof.
  intros Ho Hw Hobs. unfold check_literal, lit_obs_ok.
  apply check_run_lit_iff; [apply s_head_okb_iff|apply lit_TInvW; assumption|exact Hobs].
Qed.
