(** C13 widened, part (a): NextOne / PrevOne for every [i], [end] (exact panic
    characterisation), and the int32-faithful model (Model/BitmapNext32.v) is
    the unbounded model for every int32 [i], [end] while [64 * len < 2^31]. *)
From Coq Require Import ZArith List Lia Bool Sorted.
From Low Require Import Lib.MachInt Lib.Bits Lib.BitSeq Lib.BitsExtra_bm2
  Model.BitmapNext Model.BitmapGetw32 Model.BitmapNext32
  Spec.NextSpec Spec.NextTotalSpec Proofs.NextProofs Proofs.GetwProofs.
From Low Require Lib.BitsExtra_idx5.
Import ListNotations.
Open Scope Z_scope.

Local Ltac dm := Z.div_mod_to_equations; lia.

(** * the specification outside the domain *)
Lemma ones_in_empty bm i e : e <= i -> ones_in bm i e = [].
Proof.
  intros H. unfold ones_in. apply filter_none. intros q _. unfold in_rangeb.
  destruct (Z.leb_spec i q), (Z.ltb_spec q e); try reflexivity; lia.
Qed.

Lemma ones_lt_len bm q : In q (ones (flat bm)) -> 0 <= q < 64 * zlen bm.
Proof.
  intros H. apply ones_In_bitz in H. destruct H as [H0 H1]. split; [exact H0|].
  pose proof (bitz_true_lt _ _ H0 H1) as Hl. rewrite flat_length in Hl. unfold zlen. lia.
Qed.

Lemma filter_ext_in' {A} (f g : A -> bool) l : (forall q, In q l -> f q = g q) -> filter f l = filter g l.
Proof.
  induction l as [|a l IH]; intros H; [reflexivity|]. cbn [filter].
  rewrite (H a (or_introl eq_refl)), IH; [reflexivity|]. intros q Hq. apply H. now right.
Qed.

(** an [end] beyond the bitmap selects the same 1-bits as [64 * len] *)
Lemma ones_in_beyond bm i e : 64 * zlen bm <= e -> ones_in bm i e = ones_in bm i (64 * zlen bm).
Proof.
  intros H. unfold ones_in. apply filter_ext_in'. intros q Hq. apply ones_lt_len in Hq.
  unfold in_rangeb. destruct (Z.ltb_spec q e), (Z.ltb_spec q (64 * zlen bm)); try reflexivity; lia.
Qed.

(** a negative [i] selects the same 1-bits as 0 *)
Lemma ones_in_below bm i e : i <= 0 -> ones_in bm i e = ones_in bm 0 e.
Proof.
  intros H. unfold ones_in. apply filter_ext_in'. intros q Hq. apply ones_lt_len in Hq.
  unfold in_rangeb. destruct (Z.leb_spec i q), (Z.leb_spec 0 q); try reflexivity; lia.
Qed.

Lemma spec_NextOne_beyond bm i e : 64 * zlen bm <= e -> spec_NextOne bm i e = spec_NextOne bm i (64 * zlen bm).
Proof. intros H. unfold spec_NextOne. now rewrite (ones_in_beyond bm i e H). Qed.

Lemma spec_PrevOne_below bm i e : i <= 0 -> spec_PrevOne bm i e = spec_PrevOne bm 0 e.
Proof. intros H. unfold spec_PrevOne. now rewrite (ones_in_below bm i e H). Qed.

Lemma land_RMask_lt w j : 0 <= w < 2^64 -> 0 <= j <= 64 -> Z.land w (RMask j) < 2 ^ 64.
Proof.
  intros Hw Hj. assert (2 ^ j <= 2 ^ 64) by (apply Z.pow_le_mono_r; lia).
  apply (BitsExtra_idx5.land_bound w (RMask j) 64); unfold RMask; lia.
Qed.

Lemma land_MaskUpto_lt w j : 0 <= w < 2^64 -> 0 <= j -> Z.land w (MaskUpto j) < 2 ^ 64.
Proof.
  intros Hw Hj. assert (0 < 2 ^ (j + 1)) by (apply Z.pow_pos_nonneg; lia).
  apply (BitsExtra_idx5.land_bound w (MaskUpto j) 64); unfold MaskUpto; lia.
Qed.

Section Total.
Variable bm : list Z.
Hypothesis Hok : words_ok bm.
Let B (p : Z) : bool := bitz (flat bm) p.
Local Notation N := (64 * zlen bm).

(** * NextOne: [end] beyond the bitmap *)
Lemma NextOne_loop_beyond e : N < e ->
  forall fuel (k : nat), (k <= length bm)%nat ->
  NextOne_loop fuel bm (64 * Z.of_nat k) e =
  match NextOne_loop fuel bm (64 * Z.of_nat k) N with
  | Some n => if n =? -1 then None else Some n
  | None => None
  end.
Proof.
  intros He. unfold zlen in *. induction fuel as [|fuel IH]; intros k Hk; [reflexivity|].
  cbn [NextOne_loop]. destruct (Z.ltb_spec (64 * Z.of_nat k) (64 * Z.of_nat (length bm))) as [Hlt|Hge].
  - destruct (Z.ltb_spec (64 * Z.of_nat k) e); [|lia].
    destruct (nthZ bm (Z.shiftr (64 * Z.of_nat k) 6)) as [w|]; [|reflexivity].
    destruct (Z.eqb_spec w 0) as [Hz|Hnz].
    + replace (64 * Z.of_nat k + 64) with (64 * Z.of_nat (S k)) by lia. apply IH. lia.
    + assert (0 <= tz64 w) by (unfold tz64, tz; destruct w; try lia; apply pos_tz_nonneg).
      destruct (Z.eqb_spec (64 * Z.of_nat k + tz64 w) (-1)); [lia|reflexivity].
  - assert (k = length bm) by lia. subst k.
    destruct (Z.ltb_spec (64 * Z.of_nat (length bm)) e); [|lia].
    rewrite shiftr6. replace (64 * Z.of_nat (length bm) / 64) with (zlen bm) by (unfold zlen; dm).
    rewrite nthZ_beyond by lia. reflexivity.
Qed.

Lemma NextOne_beyond i e : 0 <= i < N -> N < e ->
  NextOne bm i e =
  match NextOne bm i N with
  | Some n => if n =? -1 then None else Some n
  | None => None
  end.
Proof.
  intros Hi He. unfold zlen in *.
  set (k := Z.to_nat (i / 64)).
  assert (Hk : Z.of_nat k = i / 64) by (subst k; dm).
  assert (Hkl : (k < length bm)%nat) by (subst k; dm).
  destruct (word_bits bm Hok k Hkl) as (w & Hw & Hwr & Hbits).
  unfold NextOne. rewrite shiftr6, land63, <- Hk, Hw.
  set (j := i mod 64). assert (Hj : 0 <= j < 64) by (subst j; dm).
  destruct (Z.eqb_spec (Z.land w (RMask j)) 0) as [Hz|Hnz].
  - rewrite land_m64.
    set (k' := Z.to_nat ((i + 63) / 64)).
    assert (Hk' : Z.of_nat k' = (i + 63) / 64) by (subst k'; dm).
    assert (Hk'l : (k' <= length bm)%nat) by (subst k'; dm).
    rewrite <- Hk'. rewrite (NextOne_loop_beyond e He (S (length bm)) k' Hk'l).
    destruct (NextOne_loop_spec bm Hok (64 * zlen bm) (Z.le_refl _) (S (length bm)) k' Hk'l ltac:(lia))
      as (n & Hn & Hpost).
    fold (zlen bm). rewrite Hn.
    destruct Hpost as [[-> _]|(Hle & Hb & _)].
    + repeat match goal with |- context [Z.geb ?a ?b] => destruct (Z.geb_spec a b) end; reflexivity.
    + assert (Hn0 : 0 <= n) by lia. pose proof (bitz_true_lt _ _ Hn0 Hb) as Hl. rewrite flat_length in Hl.
      destruct (Z.eqb_spec n (-1)); [lia|].
      destruct (Z.geb_spec n e); [unfold zlen in *; lia|].
      destruct (Z.geb_spec n (64 * zlen bm)); [unfold zlen in *; lia|].
      destruct (Z.eqb_spec n (-1)); [lia|reflexivity].
  - assert (Hpos : 0 < Z.land w (RMask j)).
    { assert (0 <= Z.land w (RMask j)) by (apply Z.land_nonneg; lia). lia. }
    destruct (tz_spec 64 _ Hpos) as (Ht0 & Ht1 & _).
    assert (Hlt : Z.land w (RMask j) < 2 ^ 64) by (apply land_RMask_lt; lia).
    pose proof (tz_lt 64 _ 64 (conj Hpos Hlt) ltac:(lia)) as Ht3.
    fold tz64 in Ht0, Ht3. rewrite shiftl6.
    set (t := tz64 (Z.land w (RMask j))) in *.
    destruct (Z.geb_spec (64 * Z.of_nat k + t) e); [lia|].
    destruct (Z.geb_spec (64 * Z.of_nat k + t) (64 * Z.of_nat (length bm))); [lia|].
    destruct (Z.eqb_spec (64 * Z.of_nat k + t) (-1)); [lia|reflexivity].
Qed.

(** * NextOne: [end] before [i] *)
Lemma NextOne_empty i e : 0 <= i < N -> e <= i -> NextOne bm i e = Some (-1).
Proof.
  intros Hi He. unfold zlen in *.
  set (k := Z.to_nat (i / 64)).
  assert (Hk : Z.of_nat k = i / 64) by (subst k; dm).
  assert (Hkl : (k < length bm)%nat) by (subst k; dm).
  destruct (word_bits bm Hok k Hkl) as (w & Hw & Hwr & Hbits).
  unfold NextOne. rewrite shiftr6, land63, <- Hk, Hw.
  set (j := i mod 64). assert (Hj : 0 <= j < 64) by (subst j; dm).
  destruct (Z.eqb_spec (Z.land w (RMask j)) 0) as [Hz|Hnz].
  - rewrite land_m64. cbn [NextOne_loop].
    destruct (Z.ltb_spec (64 * ((i + 63) / 64)) e); [dm|].
    destruct (Z.geb_spec (-1) e); reflexivity.
  - assert (Hpos : 0 < Z.land w (RMask j)).
    { assert (0 <= Z.land w (RMask j)) by (apply Z.land_nonneg; lia). lia. }
    destruct (tz_spec 64 _ Hpos) as (Ht0 & Ht1 & _).
    rewrite testbit_land_RMask in Ht1 by lia.
    apply andb_true_iff in Ht1. destruct Ht1 as [_ Hrng].
    apply andb_true_iff in Hrng. destruct Hrng as [Hjt _]. apply Z.leb_le in Hjt.
    rewrite shiftl6. fold tz64 in Hjt.
    destruct (Z.geb_spec (64 * Z.of_nat k + tz64 (Z.land w (RMask j))) e); [reflexivity|dm].
Qed.

Theorem NextOne_any i e : NextOne bm i e = spec_NextOne_any bm i e.
Proof.
  unfold spec_NextOne_any, inside_bm.
  destruct (Z.leb_spec 0 i) as [Hi0|Hi0]; cbn [andb].
  2:{ unfold NextOne. rewrite shiftr6, nthZ_neg by dm. reflexivity. }
  destruct (Z.ltb_spec i N) as [HiN|HiN].
  2:{ unfold NextOne. rewrite shiftr6, nthZ_beyond by (unfold zlen in *; dm). reflexivity. }
  destruct (Z.leb_spec e N) as [HeN|HeN]; cbn [orb].
  - destruct (Z.le_gt_cases i e).
    + apply NextOne_exact; try assumption; lia.
    + rewrite NextOne_empty by lia. unfold spec_NextOne. rewrite ones_in_empty by lia. reflexivity.
  - rewrite NextOne_beyond by lia.
    rewrite (NextOne_exact bm Hok i N) by (lia).
    rewrite (spec_NextOne_beyond bm i e) by lia.
    destruct (Z.eqb_spec (spec_NextOne bm i N) (-1)); reflexivity.
Qed.

(** * PrevOne: negative [i] *)
Lemma PrevOne_loop_below i : i < 0 ->
  forall fuel (k : nat),
  PrevOne_loop fuel bm (64 * Z.of_nat k - 1) i =
  match PrevOne_loop fuel bm (64 * Z.of_nat k - 1) 0 with
  | Some n => if n =? -1 then None else Some n
  | None => None
  end.
Proof.
  intros Hi. induction fuel as [|fuel IH]; intros k; [reflexivity|].
  cbn [PrevOne_loop]. destruct k as [|k].
  - change (64 * Z.of_nat 0 - 1) with (-1).
    destruct (Z.geb_spec (-1) i); [|lia]. destruct (Z.geb_spec (-1) 0); [lia|].
    rewrite shiftr6, nthZ_neg by dm. reflexivity.
  - destruct (Z.geb_spec (64 * Z.of_nat (S k) - 1) i); [|lia].
    destruct (Z.geb_spec (64 * Z.of_nat (S k) - 1) 0); [|lia].
    destruct (nthZ bm (Z.shiftr (64 * Z.of_nat (S k) - 1) 6)) as [w|] eqn:E; [|reflexivity].
    apply nthZ_Some in E. destruct E as [_ E]. pose proof (words_ok_nth_error _ _ _ Hok E) as Hw.
    destruct (Z.eqb_spec w 0) as [Hz|Hnz].
    + replace (64 * Z.of_nat (S k) - 1 - 64) with (64 * Z.of_nat k - 1) by lia. apply IH.
    + assert (lz64 w < 64) by (unfold lz64; pose proof (bitlen_pos w ltac:(lia)); lia).
      destruct (Z.eqb_spec (64 * Z.of_nat (S k) - 1 - lz64 w) (-1)); [lia|reflexivity].
Qed.

Lemma PrevOne_below i e : i < 0 -> 1 <= e <= N ->
  PrevOne bm i e =
  match PrevOne bm 0 e with
  | Some n => if n =? -1 then None else Some n
  | None => None
  end.
Proof.
  intros Hi He. unfold zlen in *.
  set (k := Z.to_nat ((e - 1) / 64)).
  assert (Hk : Z.of_nat k = (e - 1) / 64) by (subst k; dm).
  assert (Hkl : (k < length bm)%nat) by (subst k; dm).
  destruct (word_bits bm Hok k Hkl) as (w & Hw & Hwr & Hbits).
  unfold PrevOne. rewrite shiftr6, land63, <- Hk, Hw.
  set (j := (e - 1) mod 64). assert (Hj : 0 <= j < 64) by (subst j; dm).
  destruct (Z.eqb_spec (Z.land w (MaskUpto j)) 0) as [Hz|Hnz].
  - rewrite land_m64, <- Hk. rewrite (PrevOne_loop_below i Hi (S (length bm)) k).
    destruct (PrevOne_loop_spec bm Hok 0 (Z.le_refl 0) (S (length bm)) k ltac:(lia) ltac:(lia))
      as (n & Hn & Hpost).
    rewrite Hn. destruct Hpost as [[-> _]|(Hle & _)].
    + repeat match goal with |- context [Z.ltb ?a ?b] => destruct (Z.ltb_spec a b) end; reflexivity.
    + destruct (Z.eqb_spec n (-1)); [lia|].
      destruct (Z.ltb_spec n i); [lia|]. destruct (Z.ltb_spec n 0); [lia|].
      destruct (Z.eqb_spec n (-1)); [lia|reflexivity].
  - assert (Hpos : 0 < Z.land w (MaskUpto j)).
    { assert (0 <= Z.land w (MaskUpto j)) by (apply Z.land_nonneg; lia). lia. }
    pose proof (bitlen_pos _ Hpos) as Hb3.
    assert (Hlt : Z.land w (MaskUpto j) < 2 ^ 64) by (apply land_MaskUpto_lt; lia).
    pose proof (bitlen_le _ 64 ltac:(lia) (conj (Z.lt_le_incl _ _ Hpos) Hlt)) as Hb4.
    rewrite shiftl6. unfold lz64.
    set (t := bitlen (Z.land w (MaskUpto j))) in *.
    destruct (Z.ltb_spec (64 * Z.of_nat k + 63 - (64 - t)) i); [lia|].
    destruct (Z.ltb_spec (64 * Z.of_nat k + 63 - (64 - t)) 0); [lia|].
    destruct (Z.eqb_spec (64 * Z.of_nat k + 63 - (64 - t)) (-1)); [lia|reflexivity].
Qed.

(** * PrevOne: [i] at or after [end] *)
Lemma PrevOne_empty i e : 1 <= e <= N -> e <= i -> PrevOne bm i e = Some (-1).
Proof.
  intros He Hi. unfold zlen in *.
  set (k := Z.to_nat ((e - 1) / 64)).
  assert (Hk : Z.of_nat k = (e - 1) / 64) by (subst k; dm).
  assert (Hkl : (k < length bm)%nat) by (subst k; dm).
  destruct (word_bits bm Hok k Hkl) as (w & Hw & Hwr & Hbits).
  unfold PrevOne. rewrite shiftr6, land63, <- Hk, Hw.
  set (j := (e - 1) mod 64). assert (Hj : 0 <= j < 64) by (subst j; dm).
  destruct (Z.eqb_spec (Z.land w (MaskUpto j)) 0) as [Hz|Hnz].
  - rewrite land_m64. cbn [PrevOne_loop].
    destruct (Z.geb_spec (64 * ((e - 1) / 64) - 1) i); [dm|].
    destruct (Z.ltb_spec (-1) i); [reflexivity|lia].
  - assert (Hpos : 0 < Z.land w (MaskUpto j)).
    { assert (0 <= Z.land w (MaskUpto j)) by (apply Z.land_nonneg; lia). lia. }
    destruct (bitlen_spec _ Hpos) as (Hb1 & _).
    pose proof (bitlen_pos _ Hpos) as Hb3.
    rewrite testbit_land_MaskUpto in Hb1 by lia.
    apply andb_true_iff in Hb1. destruct Hb1 as [_ Htj]. apply Z.leb_le in Htj.
    rewrite shiftl6. unfold lz64.
    destruct (Z.ltb_spec (64 * Z.of_nat k + 63 - (64 - bitlen (Z.land w (MaskUpto j)))) i); [reflexivity|dm].
Qed.

Theorem PrevOne_any i e : PrevOne bm i e = spec_PrevOne_any bm i e.
Proof.
  unfold spec_PrevOne_any.
  destruct (Z.leb_spec 1 e) as [He1|He1]; cbn [andb].
  2:{ unfold PrevOne. rewrite shiftr6, nthZ_neg by dm. reflexivity. }
  destruct (Z.leb_spec e N) as [HeN|HeN].
  2:{ unfold PrevOne. rewrite shiftr6, nthZ_beyond by (unfold zlen in *; dm). reflexivity. }
  destruct (Z.leb_spec 0 i) as [Hi0|Hi0]; cbn [orb].
  - destruct (Z.le_gt_cases e i).
    + rewrite PrevOne_empty by lia. unfold spec_PrevOne. rewrite ones_in_empty by lia. reflexivity.
    + apply PrevOne_exact; try assumption; lia.
  - rewrite PrevOne_below by lia.
    rewrite (PrevOne_exact bm Hok 0 e) by (lia).
    rewrite (spec_PrevOne_below bm i e) by lia.
    destruct (Z.eqb_spec (spec_PrevOne bm 0 e) (-1)); reflexivity.
Qed.

(** hence the exact panic sets *)
Corollary NextOne_panics_iff i e :
  NextOne bm i e = None <->
  (i < 0 \/ N <= i \/ (N < e /\ forall p, i <= p < N -> B p = false)).
Proof.
  rewrite NextOne_any. unfold spec_NextOne_any, inside_bm.
  destruct (Z.leb_spec 0 i); cbn [andb]; [|split; [intros _; lia|reflexivity]].
  destruct (Z.ltb_spec i N); [|split; [intros _; lia|reflexivity]].
  destruct (Z.leb_spec e N); cbn [orb]; [split; [discriminate|intros [?|[?|[? _]]]; lia]|].
  destruct (Z.eqb_spec (spec_NextOne bm i N) (-1)) as [Hm|Hm]; cbn [negb].
  - split; [intros _|reflexivity]. right. right. split; [lia|]. intros p Hp.
    destruct (B p) eqn:Hb; [|reflexivity]. exfalso.
    assert (Hin : In p (ones_in bm i N)) by (apply in_ones_in; repeat split; try lia; exact Hb).
    unfold spec_NextOne in Hm. destruct (ones_in bm i N) as [|q l] eqn:E; [destruct Hin|].
    cbn [hd] in Hm. assert (Hq : In q (ones_in bm i N)) by (rewrite E; now left).
    apply in_ones_in in Hq. destruct Hq as (_ & Hq0 & _). lia.
  - split; [discriminate|]. intros [?|[?|[_ Hnone]]]; try lia. exfalso. apply Hm.
    apply spec_NextOne_none; [lia|exact Hnone].
Qed.

Corollary PrevOne_panics_iff i e :
  PrevOne bm i e = None <->
  (e < 1 \/ N < e \/ (i < 0 /\ forall p, 0 <= p < e -> B p = false)).
Proof.
  rewrite PrevOne_any. unfold spec_PrevOne_any.
  destruct (Z.leb_spec 1 e); cbn [andb]; [|split; [intros _; lia|reflexivity]].
  destruct (Z.leb_spec e N); [|split; [intros _; lia|reflexivity]].
  destruct (Z.leb_spec 0 i); cbn [orb]; [split; [discriminate|intros [?|[?|[? _]]]; lia]|].
  destruct (Z.eqb_spec (spec_PrevOne bm 0 e) (-1)) as [Hm|Hm]; cbn [negb].
  - split; [intros _|reflexivity]. right. right. split; [lia|]. intros p Hp.
    destruct (B p) eqn:Hb; [|reflexivity]. exfalso.
    assert (Hin : In p (ones_in bm 0 e)) by (apply in_ones_in; repeat split; try lia; exact Hb).
    unfold spec_PrevOne in Hm.
    destruct (ones_in bm 0 e) as [|q l] eqn:E; [destruct Hin|].
    assert (Hl : In (last (q :: l) (-1)) (ones_in bm 0 e)).
    { rewrite E. destruct (exists_last (l := q :: l) ltac:(discriminate)) as (l' & a & ->).
      rewrite last_last. apply in_or_app. right. now left. }
    rewrite Hm in Hl. apply in_ones_in in Hl. destruct Hl as (_ & Hl0 & _). lia.
  - split; [discriminate|]. intros [?|[?|[_ Hnone]]]; try lia. exfalso. apply Hm.
    apply spec_PrevOne_none; [lia|exact Hnone].
Qed.

(** * the int32 model *)
Hypothesis Hsize : N < 2^31.

Lemma tz64_range w : 0 < w < 2^64 -> 0 <= tz64 w < 64.
Proof.
  intros H. destruct (tz_spec 64 w ltac:(lia)) as (H0 & _).
  pose proof (tz_lt 64 w 64 H ltac:(lia)). unfold tz64. lia.
Qed.

Lemma lz64_range w : 0 < w < 2^64 -> 0 <= lz64 w < 64.
Proof.
  intros H. pose proof (bitlen_pos w ltac:(lia)). pose proof (bitlen_le w 64 ltac:(lia) ltac:(lia)).
  unfold lz64. lia.
Qed.

Lemma NextOne32_loop_eq e : forall fuel (k : nat), (k <= length bm)%nat ->
  NextOne32_loop fuel bm (64 * Z.of_nat k) e = NextOne_loop fuel bm (64 * Z.of_nat k) e.
Proof.
  unfold zlen in *. induction fuel as [|fuel IH]; intros k Hk; [reflexivity|].
  cbn [NextOne32_loop NextOne_loop]. destruct (Z.ltb_spec (64 * Z.of_nat k) e); [|reflexivity].
  rewrite rd_nthZ, sar32_6, shiftr6. replace (64 * Z.of_nat k / 64) with (Z.of_nat k) by dm.
  rewrite nthZ_of_nat. destruct (nth_error bm k) as [w|] eqn:E; [|reflexivity].
  assert (Hkl : (k < length bm)%nat) by (apply nth_error_Some; congruence).
  pose proof (words_ok_nth_error _ _ _ Hok E) as Hw.
  destruct (Z.eqb_spec w 0).
  - rewrite i32_id by lia. replace (64 * Z.of_nat k + 64) with (64 * Z.of_nat (S k)) by lia.
    apply IH. lia.
  - pose proof (tz64_range w ltac:(lia)). rewrite i32_id by lia. reflexivity.
Qed.

Theorem NextOne32_eq i e : in_i32 i -> NextOne32 bm i e = NextOne bm i e.
Proof.
  intros Hi. unfold in_i32 in Hi. unfold zlen in *.
  unfold NextOne32, NextOne. rewrite rd_nthZ, sar32_6.
  destruct (nthZ bm (Z.shiftr i 6)) as [w0|] eqn:E; [|reflexivity].
  rewrite shiftr6 in E |- *. apply nthZ_Some in E. destruct E as [Hr E].
  assert (Hw : 0 <= w0 < 2^64).
  { apply (words_ok_nth_error bm (Z.to_nat (i / 64)) w0 Hok). exact E. }
  assert (Hlen : (Z.to_nat (i / 64) < length bm)%nat) by (apply nth_error_Some; congruence).
  assert (Hi' : 0 <= i < 64 * Z.of_nat (length bm)) by dm.
  set (j := Z.land i 63). assert (Hj : 0 <= j < 64) by (subst j; rewrite land63; dm).
  destruct (Z.eqb_spec (Z.land w0 (RMask j)) 0) as [Hz|Hnz].
  - rewrite i32_id by lia. rewrite land_m64.
    set (k' := Z.to_nat ((i + 63) / 64)).
    assert (Hk' : Z.of_nat k' = (i + 63) / 64) by (subst k'; dm).
    assert (Hk'l : (k' <= length bm)%nat) by (subst k'; dm).
    rewrite <- Hk', NextOne32_loop_eq by exact Hk'l. reflexivity.
  - assert (Hpos : 0 < Z.land w0 (RMask j)).
    { assert (0 <= Z.land w0 (RMask j)) by (apply Z.land_nonneg; lia). lia. }
    assert (Hlt : Z.land w0 (RMask j) < 2 ^ 64) by (apply land_RMask_lt; lia).
    pose proof (tz64_range _ (conj Hpos Hlt)) as Ht.
    unfold sshl32. cbn [Z.ltb Z.compare Pos.compare Pos.compare_cont]. rewrite shiftl6.
    change (2 ^ 6) with 64. rewrite (i32_id (i / 64 * 64)) by dm.
    rewrite i32_id by dm. replace (i / 64 * 64) with (64 * (i / 64)) by lia. reflexivity.
Qed.

Lemma PrevOne32_loop_eq i : in_i32 i -> forall fuel (k : nat), (k <= length bm)%nat ->
  PrevOne32_loop fuel bm (64 * Z.of_nat k - 1) i = PrevOne_loop fuel bm (64 * Z.of_nat k - 1) i.
Proof.
  intros Hi. unfold in_i32 in Hi. unfold zlen in *.
  induction fuel as [|fuel IH]; intros k Hk; [reflexivity|].
  cbn [PrevOne32_loop PrevOne_loop]. destruct (Z.geb_spec (64 * Z.of_nat k - 1) i); [|reflexivity].
  rewrite rd_nthZ, sar32_6, shiftr6. destruct k as [|k].
  - rewrite nthZ_neg by (change (64 * Z.of_nat 0 - 1) with (-1); dm). reflexivity.
  - replace ((64 * Z.of_nat (S k) - 1) / 64) with (Z.of_nat k) by dm.
    rewrite nthZ_of_nat. destruct (nth_error bm k) as [w|] eqn:E; [|reflexivity].
    pose proof (words_ok_nth_error _ _ _ Hok E) as Hw.
    destruct (Z.eqb_spec w 0).
    + rewrite i32_id by lia. replace (64 * Z.of_nat (S k) - 1 - 64) with (64 * Z.of_nat k - 1) by lia.
      apply IH. lia.
    + pose proof (lz64_range w ltac:(lia)). rewrite i32_id by lia. reflexivity.
Qed.

Theorem PrevOne32_eq i e : in_i32 i -> in_i32 e -> PrevOne32 bm i e = PrevOne bm i e.
Proof.
  intros Hi He. unfold in_i32 in He. unfold zlen in *.
  destruct (Z.eq_dec e (- 2^31)) as [->|Hne].
  - (* end-- wraps to MaxInt32: word index 2^25 - 1 is beyond the bitmap *)
    unfold PrevOne32, PrevOne. rewrite rd_nthZ, sar32_6, !shiftr6.
    rewrite nthZ_beyond by (unfold zlen; change (i32 (- 2 ^ 31 - 1)) with (2^31 - 1); dm).
    rewrite nthZ_neg by dm. reflexivity.
  - unfold PrevOne32, PrevOne. rewrite i32_id by lia. rewrite rd_nthZ, sar32_6.
    destruct (nthZ bm (Z.shiftr (e - 1) 6)) as [w0|] eqn:E; [|reflexivity].
    rewrite shiftr6 in E |- *. apply nthZ_Some in E. destruct E as [Hr E].
    assert (Hw : 0 <= w0 < 2^64).
    { apply (words_ok_nth_error bm (Z.to_nat ((e - 1) / 64)) w0 Hok). exact E. }
    assert (Hlen : (Z.to_nat ((e - 1) / 64) < length bm)%nat) by (apply nth_error_Some; congruence).
    assert (He' : 0 <= e - 1 < 64 * Z.of_nat (length bm)) by dm.
    set (j := Z.land (e - 1) 63). assert (Hj : 0 <= j < 64) by (subst j; rewrite land63; dm).
    destruct (Z.eqb_spec (Z.land w0 (MaskUpto j)) 0) as [Hz|Hnz].
    + rewrite land_m64. rewrite i32_id by dm.
      set (k := Z.to_nat ((e - 1) / 64)).
      assert (Hk : Z.of_nat k = (e - 1) / 64) by (subst k; dm).
      rewrite <- Hk, PrevOne32_loop_eq by (try assumption; subst k; dm). reflexivity.
    + assert (Hpos : 0 < Z.land w0 (MaskUpto j)).
      { assert (0 <= Z.land w0 (MaskUpto j)) by (apply Z.land_nonneg; lia). lia. }
      assert (Hlt : Z.land w0 (MaskUpto j) < 2 ^ 64) by (apply land_MaskUpto_lt; lia).
      pose proof (lz64_range _ (conj Hpos Hlt)) as Ht.
      unfold sshl32. cbn [Z.ltb Z.compare Pos.compare Pos.compare_cont]. rewrite shiftl6.
      change (2 ^ 6) with 64. rewrite (i32_id ((e - 1) / 64 * 64)) by dm.
      rewrite (i32_id ((e - 1) / 64 * 64 + 63)) by dm.
      rewrite i32_id by dm. replace ((e - 1) / 64 * 64) with (64 * ((e - 1) / 64)) by lia. reflexivity.
Qed.

End Total.

(** * the int32 model on the property's domain, and everywhere *)
Theorem NextOne32_any bm : words_ok bm -> 64 * zlen bm < 2^31 -> forall i e, in_i32 i ->
  NextOne32 bm i e = spec_NextOne_any bm i e.
Proof. intros Hok Hs i e Hi. rewrite NextOne32_eq by assumption. now apply NextOne_any. Qed.

Theorem PrevOne32_any bm : words_ok bm -> 64 * zlen bm < 2^31 -> forall i e, in_i32 i -> in_i32 e ->
  PrevOne32 bm i e = spec_PrevOne_any bm i e.
Proof. intros Hok Hs i e Hi He. rewrite PrevOne32_eq by assumption. now apply PrevOne_any. Qed.

Theorem NextOne32_exact bm : words_ok bm -> 64 * zlen bm < 2^31 -> forall i e,
  0 <= i <= e -> e <= 64 * zlen bm -> i < 64 * zlen bm ->
  NextOne32 bm i e = Some (spec_NextOne bm i e).
Proof.
  intros Hok Hs i e Hi He HiN. rewrite NextOne32_eq by (try assumption; unfold in_i32; lia).
  now apply NextOne_exact.
Qed.

Theorem PrevOne32_exact bm : words_ok bm -> 64 * zlen bm < 2^31 -> forall i e,
  0 <= i <= e -> e <= 64 * zlen bm -> i < 64 * zlen bm -> 1 <= e ->
  PrevOne32 bm i e = Some (spec_PrevOne bm i e).
Proof.
  intros Hok Hs i e Hi He HiN He1. rewrite PrevOne32_eq by (try assumption; unfold in_i32; lia).
  now apply PrevOne_exact.
Qed.
