(** C06, bodies above 1 MiB: the run-length form used by the operation
    pbcmpl.Roundtrip/big (Run/PbcmplSessionOps.v) denotes exactly the frames of the
    materialised messages, so the value that operation compares with is the value
    C06_op_roundtrip proves for them. *)
From Coq Require Import ZArith List Bool Lia.
From Low Require Import Lib.BitSeq Lib.Bytes Lib.Val Model.Pbcmpl Spec.PbcmplSpec
  Run.PbcmplOps Run.PbcmplWalkOps Run.PbcmplSessionOps
  Proofs.PbcmplIO Proofs.PbcmplHeader Proofs.PbcmplMarshal Proofs.PbcmplStream.
Import ListNotations.
Open Scope Z_scope.

Lemma expand_app a b : expand_runs (a ++ b) = expand_runs a ++ expand_runs b.
Proof. unfold expand_runs. apply flat_map_app. Qed.

Lemma expand_bytes_runs l : expand_runs (bytes_runs l) = l.
Proof.
  induction l as [|x l IH]; [reflexivity|].
  unfold expand_runs, bytes_runs in *. cbn [map flat_map fst snd]. rewrite IH. reflexivity.
Qed.

Lemma norm_runs_pos r : Forall (fun cb => 0 < fst cb) (norm_runs r).
Proof.
  induction r as [|[c b] t IH]; [constructor|]. cbn [norm_runs].
  destruct (Z.leb_spec c 0); [exact IH|].
  destruct (norm_runs t) as [|[c' b'] t']; [constructor; [cbn; lia|constructor]|].
  inversion IH as [|? ? Hc' Ht']; subst. cbn [fst] in Hc'.
  destruct (b =? b'); constructor; try (cbn [fst]; lia); auto.
Qed.

(** maximal runs denote the same bytes *)
Lemma expand_norm r : expand_runs (norm_runs r) = expand_runs r.
Proof.
  induction r as [|[c b] t IH]; [reflexivity|]. cbn [norm_runs].
  unfold expand_runs at 2. cbn [flat_map fst snd]. fold (expand_runs t).
  destruct (Z.leb_spec c 0) as [Hc|Hc].
  { replace (Z.to_nat c) with 0%nat by lia. cbn [repeat app]. exact IH. }
  pose proof (norm_runs_pos t) as Hpos. rewrite <- IH.
  destruct (norm_runs t) as [|[c' b'] t']; [reflexivity|].
  inversion Hpos as [|? ? Hc' _]; subst. cbn [fst] in Hc'.
  destruct (Z.eqb_spec b b') as [->|Hb]; [|reflexivity].
  unfold expand_runs. cbn [flat_map fst snd].
  rewrite Z2Nat.inj_add by lia. rewrite repeat_app, <- app_assoc. reflexivity.
Qed.

Definition materialise (m : option (list Z) * Z * Z) : option (list Z) * list Z :=
  let '(ver, c, b) := m in (ver, repeat b (Z.to_nat c)).

Lemma big_enc_expand kind c b :
  0 <= c -> expand_runs (big_enc_runs kind c b) = k_enc kind (repeat b (Z.to_nat c)).
Proof.
  intros Hc. unfold big_enc_runs, k_enc. destruct (kind =? 1).
  - destruct (Z.leb_spec c 0).
    + replace (Z.to_nat c) with 0%nat by lia. reflexivity.
    + rewrite expand_app, expand_bytes_runs.
      unfold expand_runs. cbn [flat_map fst snd]. rewrite app_nil_r.
      destruct (Z.to_nat c) as [|n] eqn:En; [lia|].
      cbn [repeat]. unfold bv_enc. cbv beta iota. rewrite zlen_cons, zlen_repeat.
      replace (1 + Z.of_nat n) with c by lia. reflexivity.
  - unfold expand_runs, raw_enc. cbn [flat_map fst snd]. apply app_nil_r.
Qed.

Lemma big_enc_len_spec kind c b :
  0 <= c -> big_enc_len kind c = zlen (k_enc kind (repeat b (Z.to_nat c))).
Proof.
  intros Hc. unfold big_enc_len, k_enc. destruct (kind =? 1).
  - destruct (Z.leb_spec c 0).
    + replace (Z.to_nat c) with 0%nat by lia. reflexivity.
    + destruct (Z.to_nat c) as [|n] eqn:En; [lia|].
      cbn [repeat]. unfold bv_enc. cbv beta iota.
      rewrite (zlen_cons 10), zlen_app, !zlen_cons, zlen_repeat.
      replace (1 + Z.of_nat n) with c by lia. lia.
  - unfold raw_enc. rewrite zlen_repeat. lia.
Qed.

(** one frame in run-length form *)
Theorem big_frame_expand kind m :
  0 <= snd (fst m) ->
  expand_runs (big_frame_runs kind m) = frame_of (k_enc kind) (materialise m)
  /\ 32 + big_enc_len kind (snd (fst m)) = 32 + zlen (k_enc kind (snd (materialise m))).
Proof.
  destruct m as [[ver c] b]. cbn [fst snd]. intros Hc. split.
  - unfold big_frame_runs, materialise, frame_of, frame. cbn [fst snd].
    rewrite expand_app, expand_bytes_runs, big_enc_expand by assumption.
    rewrite (big_enc_len_spec kind c b) by assumption. reflexivity.
  - unfold materialise. cbn [snd]. rewrite (big_enc_len_spec kind c b) by assumption. reflexivity.
Qed.

(** the whole wire: what pbcmpl.Roundtrip/big prints in maximal runs denotes the wire of
    the materialised messages *)
Theorem big_wire_expand kind ms :
  Forall (fun m => 0 <= snd (fst m)) ms ->
  expand_runs (norm_runs (List.concat (map (big_frame_runs kind) ms)))
    = wire_of (k_enc kind) (map materialise ms).
Proof.
  intros H. rewrite expand_norm. induction H as [|m ms Hm _ IH]; [reflexivity|].
  cbn [map concat]. rewrite expand_app, IH.
  destruct (big_frame_expand kind m Hm) as [E _]. rewrite E. reflexivity.
Qed.
