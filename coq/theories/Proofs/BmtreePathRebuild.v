(** C10 widening: rebuilding a word from its fields, and decoding.
    [NewPath(PathBits w, PathLen w, PathHeight w)] keeps the search bits and
    normalises the mask; together with "no search bit outside the mask" it is
    the identity exactly on the image of [enc] (the words that decode). *)
From Coq Require Import ZArith List Lia Bool.
From Low Require Import Lib.MachInt Lib.Bits Lib.BitSeq Lib.Lex Lib.Bytes Lib.BitsExtra_tree
  Spec.Bmtree Spec.PathSpec Spec.ContractSpec Spec.PathWideSpec
  Model.BmtreePath Model.BmtreePathStr Model.BmtreeIndex Model.BmtreePathWide
  Proofs.BmtreePathProofs Proofs.BmtreeIndexProofs Proofs.BmtreeContractProofs Proofs.BmtreeDomainProofs
  Proofs.BmtreePathRawFields Proofs.BmtreeNewPathRaw.
Import ListNotations.
Open Scope Z_scope.

Lemma rebuild_raw w : 0 <= w < 2 ^ 64 -> rebuild w = Some (rebuild_spec w (PathHeight w)).
Proof.
  intros Hw. unfold rebuild, rebuild_spec.
  pose proof (PathLen_le_height w). pose proof (PathHeight_le32 w).
  rewrite NewPath_full_range by lia. rewrite PathBits_half, <- PathLen_raw.
  destruct (word_split w Hw) as (_ & Hp & _). rewrite Z.mod_small by lia. reflexivity.
Qed.

Lemma stray_raw w : 0 <= w < 2 ^ 64 ->
  stray w = Z.land (w / 2 ^ 32) (2 ^ 32 - 1 - w mod 2 ^ 32).
Proof.
  intros Hw. unfold stray, not32. rewrite PathBits_half, PathMask_half.
  destruct (word_split w Hw) as (_ & Hp & Hm). unfold u32 in *.
  rewrite (Z.mod_small (w mod 2 ^ 32)) by lia. rewrite (Z.mod_small (w / 2 ^ 32)) by lia.
  apply Z.land_comm.
Qed.

(** * no search bit outside a block mask *)
Lemma testbit_block l d n : 0 <= l -> 0 <= d -> 0 <= n ->
  Z.testbit (Mask l * 2 ^ d) n = (d <=? n) && (n <? d + l).
Proof.
  intros Hl Hd Hn. unfold Mask. destruct (Z.leb_spec d n).
  - rewrite Z.mul_pow2_bits by lia. rewrite testbit_pow2m1 by lia. cbn [andb].
    destruct (Z.ltb_spec (n - d) l); destruct (Z.ltb_spec n (d + l)); lia || reflexivity.
  - rewrite Z.mul_pow2_bits_low by lia. reflexivity.
Qed.

Lemma land_not_block p l d : 0 <= l -> 0 <= d -> l + d <= 32 -> 0 <= p < 2 ^ 32 ->
  Z.land p (2 ^ 32 - 1 - Mask l * 2 ^ d) = 0 <-> p mod 2 ^ d = 0 /\ p < 2 ^ (l + d).
Proof.
  intros Hl Hd Hld Hp.
  pose proof (block_bound l d Hl Hd) as Hb. pose proof (pow2_le (l + d) 32 ltac:(lia)) as Hle.
  assert (Hbit : forall n, 0 <= n ->
    Z.testbit (Z.land p (2 ^ 32 - 1 - Mask l * 2 ^ d)) n =
    Z.testbit p n && ((n <? 32) && negb ((d <=? n) && (n <? d + l)))).
  { intros n Hn. rewrite Z.land_spec, testbit_compl by lia. now rewrite testbit_block by lia. }
  split.
  - intros H0.
    assert (Hz : forall n, 0 <= n -> Z.testbit p n && ((n <? 32) && negb ((d <=? n) && (n <? d + l))) = false).
    { intros n Hn. rewrite <- Hbit by lia. rewrite H0. apply Z.bits_0. }
    split.
    + apply Z.bits_inj'. intros n Hn. rewrite Z.bits_0.
      destruct (Z.lt_ge_cases n d).
      * rewrite Z.mod_pow2_bits_low by lia. specialize (Hz n Hn).
        destruct (Z.ltb_spec n 32); [|lia]. destruct (Z.leb_spec d n); [lia|].
        cbn [andb negb] in Hz. now rewrite andb_true_r in Hz.
      * apply Z.mod_pow2_bits_high. lia.
    + apply bits_above_false_lt; [lia|lia|]. intros n Hn.
      destruct (Z.lt_ge_cases n 32); [|apply (testbit_small p 32); lia].
      specialize (Hz n ltac:(lia)).
      destruct (Z.ltb_spec n 32); [|lia]. destruct (Z.ltb_spec n (d + l)); [lia|].
      rewrite andb_false_r in Hz. cbn [andb negb] in Hz. now rewrite andb_true_r in Hz.
  - intros [Hmod Hlt]. apply Z.bits_inj'. intros n Hn. rewrite Z.bits_0, Hbit by lia.
    destruct (Z.testbit p n) eqn:Ep; [|reflexivity]. cbn [andb].
    destruct (Z.leb_spec d n) as [Hdn|Hdn].
    + destruct (Z.ltb_spec n (d + l)) as [|Hge]; [cbn [andb negb]; apply andb_false_r|].
      rewrite (testbit_small p (l + d) n) in Ep by lia. discriminate.
    + rewrite <- (Z.mod_pow2_bits_low p d n) in Ep by lia. rewrite Hmod, Z.bits_0 in Ep. discriminate.
Qed.

(** * decoding with the height read from the word *)
Lemma decode_some_iff w : 0 <= w < 2 ^ 64 ->
  is_some (dec_word w (PathHeight w)) = true <->
  w mod 2 ^ 32 = Mask (PathLen w) * 2 ^ (PathHeight w - PathLen w) /\
  (w / 2 ^ 32) mod 2 ^ (PathHeight w - PathLen w) = 0 /\ w / 2 ^ 32 < 2 ^ PathHeight w.
Proof.
  intros Hw. pose proof (PathLen_le_height w) as Hl. pose proof (PathHeight_le32 w) as Hh.
  unfold dec_word, decode_word.
  change (popcount (w mod 2 ^ 32)) with (PathLen w).
  rewrite !Z2Nat.id by lia.
  destruct (Nat.leb_spec (Z.to_nat (PathLen w)) (Z.to_nat (PathHeight w))); [|lia]. cbn [andb].
  destruct (Z.eqb_spec (w mod 2 ^ 32) (Mask (PathLen w) * 2 ^ (PathHeight w - PathLen w)));
  destruct (Z.eqb_spec ((w / 2 ^ 32) mod 2 ^ (PathHeight w - PathLen w)) 0);
  destruct (Z.ltb_spec (w / 2 ^ 32) (2 ^ PathHeight w)); cbn [andb is_some];
  (split; intros HH; [try discriminate; tauto | try reflexivity; destruct HH as (? & ? & ?); try contradiction; lia]).
Qed.

(** the round trip through the fields is the identity, and no search bit lies
    outside the mask, exactly when the word decodes *)
Lemma rebuild_fix_iff w : 0 <= w < 2 ^ 64 ->
  (rebuild w = Some w /\ stray w = 0) <-> is_some (dec_word w (PathHeight w)) = true.
Proof.
  intros Hw. rewrite decode_some_iff by exact Hw.
  rewrite rebuild_raw, stray_raw by exact Hw. unfold rebuild_spec. rewrite <- PathLen_raw.
  pose proof (PathLen_le_height w) as Hl. pose proof (PathHeight_le32 w) as Hh.
  destruct (word_split w Hw) as (Ew & Hp & Hm). unfold u32 in *.
  set (m := w mod 2 ^ 32) in *. set (p := w / 2 ^ 32) in *.
  set (l := PathLen w) in *. set (h := PathHeight w) in *.
  split.
  - intros [Hr Hs]. injection Hr as Hr.
    assert (Em : m = Mask l * 2 ^ (h - l)) by lia.
    split; [exact Em|]. rewrite Em in Hs.
    apply land_not_block in Hs; [|lia..]. replace (l + (h - l)) with h in Hs by lia. exact Hs.
  - intros (Em & Hmod & Hlt). split; [f_equal; lia|].
    rewrite Em. apply land_not_block; [lia..|]. replace (l + (h - l)) with h by lia. tauto.
Qed.

(** the words that decode are exactly the path words of nodes *)
Lemma decodes_iff_image w : 0 <= w < 2 ^ 64 ->
  is_some (dec_word w (PathHeight w)) = true <->
  exists h q, (h <= 32)%nat /\ (length q <= h)%nat /\ w = enc h q.
Proof.
  intros Hw. pose proof (PathHeight_le32 w) as Hh. split.
  - unfold dec_word. destruct (decode_word (Z.to_nat (PathHeight w)) w) as [q|] eqn:E; [|discriminate].
    intros _. apply decode_sound in E; [|lia]. destruct E as [Hl ->].
    exists (Z.to_nat (PathHeight (enc (Z.to_nat (PathHeight w)) q))), q.
    (* the height read from the word is the height it decodes at *)
    assert (Hh' : (Z.to_nat (PathHeight w) <= 32)%nat) by lia.
    destruct q as [|b q].
    + rewrite !enc_nil. change (PathHeight 0) with 0. cbn. repeat split; lia.
    + rewrite PathHeight_enc by (cbn [length] in *; lia). rewrite Nat2Z.id. repeat split; assumption.
  - intros (h & q & Hh32 & Hl & ->). unfold dec_word.
    destruct q as [|b q].
    + rewrite enc_nil. change (PathHeight 0) with 0. rewrite decode_zero. reflexivity.
    + rewrite PathHeight_enc by (cbn [length] in *; lia). rewrite Nat2Z.id.
      rewrite decode_enc by assumption. reflexivity.
Qed.

(** decoding inverts [enc] *)
Lemma dec_enc h q : (h <= 32)%nat -> (length q <= h)%nat ->
  dec_word (enc h q) (PathHeight (enc h q)) = Some q.
Proof.
  intros Hh Hl. unfold dec_word. destruct q as [|b q].
  - rewrite enc_nil. change (PathHeight 0) with 0. apply decode_zero.
  - rewrite PathHeight_enc by (cbn [length] in *; lia). rewrite Nat2Z.id. now apply decode_enc.
Qed.

Lemma enc_dec w q : 0 <= w < 2 ^ 64 -> dec_word w (PathHeight w) = Some q ->
  (length q <= Z.to_nat (PathHeight w))%nat /\ enc (Z.to_nat (PathHeight w)) q = w.
Proof.
  intros Hw E. unfold dec_word in E. apply decode_sound in E; [|lia]. destruct E as [Hl E]. now split.
Qed.

(** the checker of [bmtree.NewPath/rebuild] accepts the model's observation *)
Lemma rebuild_ok_model w r : 0 <= w < 2 ^ 64 -> rebuild w = Some r ->
  rebuild_ok w r (stray w) (PathHeight w) = true.
Proof.
  intros Hw Hr. unfold rebuild_ok.
  rewrite PathHeight_raw_ok. rewrite <- stray_raw by exact Hw.
  pose proof (rebuild_raw w Hw) as Hr'. rewrite Hr in Hr'. injection Hr' as ->.
  rewrite !Z.eqb_refl. cbn [andb].
  pose proof (rebuild_fix_iff w Hw) as Hi. rewrite rebuild_raw in Hi by exact Hw.
  destruct (is_some (dec_word w (PathHeight w))).
  - destruct Hi as [_ Hi]. destruct (Hi eq_refl) as [H1 H2]. injection H1 as H1.
    rewrite H1 at 1. rewrite H2, !Z.eqb_refl. reflexivity.
  - destruct (Z.eqb_spec (rebuild_spec w (PathHeight w)) w) as [E1|]; [|reflexivity].
    destruct (Z.eqb_spec (stray w) 0) as [E2|]; [|reflexivity].
    destruct Hi as [Hi _]. discriminate Hi. split; [now rewrite E1|exact E2].
Qed.
