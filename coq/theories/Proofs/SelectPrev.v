(** Proofs for C02, widened: the library's select against the library's PrevOne (C13's model):
    the last 1-bit before the [i]-th 1-bit is the [i-1]-th (or there is none when [i = 0]). *)
From Coq Require Import ZArith List Lia Bool ZifyNat.
From Low Require Import Lib.MachInt Lib.Bits Lib.BitSeq Lib.BitsExtra_c02 Model.Rank Model.Select Model.BitmapNext
  Spec.RankSpec Spec.SelectSpec Spec.NextSpec Proofs.RankProofs Proofs.SelectProofs Proofs.SelectMain
  Proofs.SelectExtra Proofs.NextProofs.
Import ListNotations.
Open Scope Z_scope.

(** a 1-bit strictly between two positions raises the rank *)
Lemma rank_gap ws lo hi q : 0 <= lo <= q -> q < hi -> bitz (flat ws) q = true ->
  rank1z (flat ws) lo + 1 <= rank1z (flat ws) hi.
Proof.
  intros Hlo Hhi Hb. pose proof (bitz_nth_error (flat ws) q ltac:(lia) Hb) as Hn.
  unfold rank1z.
  pose proof (rank1_mono (flat ws) (Z.to_nat lo) (Z.to_nat q) ltac:(lia)).
  pose proof (rank1_mono (flat ws) (S (Z.to_nat q)) (Z.to_nat hi) ltac:(lia)).
  rewrite rank1_succ_set in * by exact Hn. lia.
Qed.

Theorem PrevOne_before_select ws i : words_ok ws -> 0 <= i < zlen (all_ones ws) ->
  let a := fst (spec_Select ws i) in
  1 <= a ->
  PrevOne ws 0 a = Some (if 0 <? i then fst (spec_Select ws (i - 1)) else -1).
Proof.
  intros Hok Hi a Ha1.
  destruct (spec_Select_fst ws i Hi) as (Ha & Hra & Hba). fold a in Ha, Hra, Hba.
  rewrite PrevOne_exact by (assumption || lia). f_equal.
  destruct (Z.ltb_spec 0 i) as [Hpos|Hzero].
  - destruct (spec_Select_fst ws (i - 1) ltac:(lia)) as (Hr & Hrr & Hbr).
    pose proof (spec_Select_increasing ws (i - 1) i ltac:(lia) ltac:(lia)) as Hlt. fold a in Hlt.
    apply spec_PrevOne_found; try (assumption || lia).
    intros p Hp. destruct (bitz (flat ws) p) eqn:Eb; [exfalso|reflexivity].
    pose proof (bitz_nth_error (flat ws) _ (proj1 Hr) Hbr) as Hnr.
    (* rank just after r is i; a 1-bit at p in (r, a) would make rank a >= i + 1 *)
    pose proof (rank_gap ws (fst (spec_Select ws (i - 1)) + 1) a p ltac:(lia) ltac:(lia) Eb) as Hg.
    unfold rank1z in *.
    replace (Z.to_nat (fst (spec_Select ws (i - 1)) + 1)) with (S (Z.to_nat (fst (spec_Select ws (i - 1))))) in Hg by lia.
    rewrite rank1_succ_set in Hg by exact Hnr. lia.
  - apply spec_PrevOne_none; [lia|]. intros p Hp.
    destruct (bitz (flat ws) p) eqn:Eb; [exfalso|reflexivity].
    pose proof (rank_gap ws 0 a p ltac:(lia) ltac:(lia) Eb) as Hg.
    pose proof (rank1z_nonneg' := count_true_nonneg (firstn (Z.to_nat 0) (flat ws))).
    unfold rank1z, rank1 in *. lia.
Qed.

Theorem Select32_then_PrevOne ws sidx i a b : words_ok ws -> IndexSelect32 ws = Some sidx ->
  0 <= i < zlen (all_ones ws) -> Select32 ws sidx i = Some (a, b) -> 1 <= a ->
  PrevOne ws 0 a =
  match (if 0 <? i then Select32 ws sidx (i - 1) else Some (-1, 0)) with
  | Some (r, _) => Some r
  | None => None
  end.
Proof.
  intros Hok Hs Hi Hsel Ha1. rewrite (Select32_indexed ws sidx i Hok Hs Hi) in Hsel.
  assert (E : spec_Select ws i = (a, b)) by congruence. clear Hsel.
  pose proof (PrevOne_before_select ws i Hok Hi) as HP. cbv zeta in HP.
  rewrite E in HP. cbn [fst] in HP. rewrite HP by exact Ha1.
  destruct (Z.ltb_spec 0 i) as [Hpos|]; [|reflexivity].
  rewrite (Select32_indexed ws sidx (i - 1) Hok Hs) by lia.
  destruct (spec_Select ws (i - 1)); reflexivity.
Qed.

Theorem Select32R64_then_PrevOne ws sidx ridx i a b : words_ok ws ->
  IndexSelect32R64 ws = Some (sidx, ridx) ->
  0 <= i < zlen (all_ones ws) -> Select32R64 ws sidx ridx i = Some (a, b) -> 1 <= a ->
  PrevOne ws 0 a =
  match (if 0 <? i then Select32R64 ws sidx ridx (i - 1) else Some (-1, 0)) with
  | Some (r, _) => Some r
  | None => None
  end.
Proof.
  intros Hok Hs Hi Hsel Ha1. rewrite (Select32R64_indexed ws sidx ridx i Hok Hs Hi) in Hsel.
  assert (E : spec_Select ws i = (a, b)) by congruence. clear Hsel.
  pose proof (PrevOne_before_select ws i Hok Hi) as HP. cbv zeta in HP.
  rewrite E in HP. cbn [fst] in HP. rewrite HP by exact Ha1.
  destruct (Z.ltb_spec 0 i) as [Hpos|]; [|reflexivity].
  rewrite (Select32R64_indexed ws sidx ridx (i - 1) Hok Hs) by lia.
  destruct (spec_Select ws (i - 1)); reflexivity.
Qed.
