(** C10 widening: sessions.  PathStr is a function of the word alone, so a whole
    session of calls (any order, any repetition, any mix of heights) returns the
    texts of its nodes; the bulk operation's model (words through NewPath, texts
    through PathStr) equals its specification (texts of the enumerated nodes). *)
From Coq Require Import ZArith List Lia Bool.
From Low Require Import Lib.MachInt Lib.Bits Lib.BitSeq Lib.Lex Lib.Bytes Lib.BitsExtra_tree Lib.Val
  Spec.Bmtree Spec.PathSpec Spec.ContractSpec Spec.PathWideSpec
  Model.BmtreePath Model.BmtreePathStr Model.BmtreePathWide
  Proofs.BmtreePathProofs Proofs.BmtreeDomainProofs Proofs.BmtreeNewPathRaw Run.WideC10.
Import ListNotations.
Open Scope Z_scope.

Lemma session_strs (l : list (nat * node)) :
  Forall (fun hq => (fst hq <= 32)%nat /\ (length (snd hq) <= fst hq)%nat) l ->
  map (fun hq => PathStr (enc (fst hq) (snd hq))) l = map (fun hq => node_str (snd hq)) l.
Proof.
  induction 1 as [|hq l [Hh Hl] _ IH]; [reflexivity|].
  cbn [map]. rewrite IH. f_equal. now apply PathStr_enc.
Qed.

(** the word of the l-bit prefix x, left-aligned in h bits *)
Lemma seg_word h l x : 0 <= h <= 32 -> 1 <= l <= h -> 0 <= x < 2 ^ l ->
  NewPath_full (x * 2 ^ (h - l)) l h = Some (enc (Z.to_nat h) (node_of (Z.to_nat l) x)).
Proof.
  intros Hh Hl Hx.
  pose proof (NewPath_full_enc (Z.to_nat h) (node_of (Z.to_nat l) x)) as E.
  rewrite node_of_length in E. unfold valL in E. rewrite node_of_length, val_msb_node_of in E.
  rewrite !Z2Nat.id in E by lia. rewrite Z.mod_small in E by lia.
  apply E; lia.
Qed.

Lemma seg_str h l x : 0 <= h <= 32 -> 1 <= l <= h -> 0 <= x < 2 ^ l ->
  match NewPath_full (x * 2 ^ (h - l)) l h with Some w => Some (PathStr w) | None => None end
  = Some (node_str (node_of (Z.to_nat l) x)).
Proof.
  intros Hh Hl Hx. rewrite seg_word by assumption. f_equal.
  apply PathStr_enc; [lia|]. rewrite node_of_length. lia.
Qed.

Lemma opt_all_app {A} (a b : list (option A)) la lb :
  opt_all a = Some la -> opt_all b = Some lb -> opt_all (a ++ b) = Some (la ++ lb).
Proof.
  revert la. induction a as [|[x|] a IH]; intros la Ha Hb; cbn [opt_all app] in *.
  - injection Ha as <-. exact Hb.
  - destruct (opt_all a) as [r|] eqn:E; [|discriminate]. injection Ha as <-.
    rewrite (IH r eq_refl Hb). reflexivity.
  - discriminate.
Qed.

Lemma strs_ok h l : 0 <= h <= 32 -> 1 <= l <= h -> forall xs,
  Forall (fun x => 0 <= x < 2 ^ l) xs ->
  opt_all (c10w_strs h l xs) = Some (map node_str (map (node_of (Z.to_nat l)) xs)).
Proof.
  intros Hh Hl. induction 1 as [|x xs Hx _ IH]; [reflexivity|].
  unfold c10w_strs in *. cbn [map opt_all]. rewrite seg_str by lia. rewrite IH. reflexivity.
Qed.

Lemma zrange_bound step bound : 0 < step -> forall n x,
  0 <= x -> x + (Z.of_nat n - 1) * step < bound -> Forall (fun y => 0 <= y < bound) (zrange n x step).
Proof.
  intros Hs. induction n as [|n IH]; intros x Hx Hb; [constructor|].
  cbn [zrange]. constructor; [nia|]. apply IH; nia.
Qed.

Lemma seg_xs_bound start count stride bound : 0 <= start -> 0 <= count -> 1 <= stride -> start + count <= bound ->
  Forall (fun y => 0 <= y < bound) (seg_xs start count stride).
Proof.
  intros Hs Hc Hst Hb. unfold seg_xs.
  destruct (Z.eq_dec count 0) as [->|Hne].
  - rewrite Z.div_small by lia. constructor.
  - apply zrange_bound; [lia|lia|].
    assert (0 <= (count + stride - 1) / stride) by (apply Z.div_pos; lia).
    rewrite Z2Nat.id by lia.
    pose proof (Z.mul_div_le (count + stride - 1) stride ltac:(lia)). nia.
Qed.

Definition seg_dom (s : Z * Z * Z * Z) : Prop :=
  match s with (h, l, start, count) =>
    0 <= h <= 32 /\ 1 <= l <= h /\ 0 <= start /\ 0 <= count /\ start + count <= 2 ^ l end.

Lemma bulk_strs_ok segs stride : 1 <= stride -> Forall seg_dom segs ->
  opt_all (flat_map (c10w_seg_strs stride) segs) = Some (map node_str (bulk_nodes segs stride)).
Proof.
  intros Hst. induction 1 as [|[[[h l] start] count] segs (Hh & Hl & Hs & Hc & He) _ IH]; [reflexivity|].
  cbn [flat_map bulk_nodes]. fold (bulk_nodes segs stride). rewrite map_app.
  apply opt_all_app; [|exact IH].
  unfold c10w_seg_strs, seg_nodes. apply strs_ok; try lia. apply seg_xs_bound; lia.
Qed.

Lemma first_strs_ok segs K : 0 <= K -> Forall seg_dom segs ->
  opt_all (c10w_first_strs segs K) = Some (map node_str (first_nodes segs K)).
Proof.
  intros HK H. destruct H as [|[[[h l] start] count] segs (Hh & Hl & Hs & Hc & He) _]; [reflexivity|].
  unfold c10w_first_strs, first_nodes, seg_nodes. apply strs_ok; try lia. apply seg_xs_bound; lia.
Qed.

(** the bulk operation: model = specification *)
Lemma bulk_model_spec segs K stride : 0 <= K -> 1 <= stride -> Forall seg_dom segs ->
  c10w_bulk segs K stride = Some (bulk_spec segs K stride).
Proof.
  intros HK Hst H. unfold c10w_bulk, bulk_spec.
  now rewrite bulk_strs_ok, first_strs_ok.
Qed.
