(** C10 widening: sessions.  PathStr is a function of the word alone, so a whole
    session of calls (any order, any repetition, any mix of heights) returns the
    texts of its nodes; the bulk operation's model (words through NewPath, texts
    through PathStr) equals its specification (texts of the enumerated nodes). *)
From Coq Require Import ZArith List Lia Bool.
From Low Require Import Lib.MachInt Lib.Bits Lib.BitSeq Lib.Lex Lib.Bytes Lib.BitsExtra_tree Lib.Val
  Spec.Bmtree Spec.PathSpec Spec.ContractSpec Spec.PathWideSpec
  Model.BmtreePath Model.BmtreePathStr Model.BmtreePathWide
  Proofs.BmtreePathProofs Proofs.BmtreeDomainProofs Proofs.BmtreeNewPathRaw Run.WideC10.
Import ListNotations.
Open Scope Z_scope.

Lemma session_strs (l : list (nat * node)) :
  Forall (fun hq => (fst hq <= 32)%nat /\ (length (snd hq) <= fst hq)%nat) l ->
  map (fun hq => PathStr (enc (fst hq) (snd hq))) l = map (fun hq => node_str (snd hq)) l.
Proof.
  induction 1 as [|hq l [Hh Hl] _ IH]; [reflexivity|].
  cbn [map]. rewrite IH. f_equal. now apply PathStr_enc.
Qed.

(** the word of the l-bit prefix x, left-aligned in h bits *)
Lemma seg_word h l x : 0 <= h <= 32 -> 1 <= l <= h -> 0 <= x < 2 ^ l ->
  NewPath_full (x * 2 ^ (h - l)) l h = Some (enc (Z.to_nat h) (node_of (Z.to_nat l) x)).
Proof.
  intros Hh Hl Hx.
  pose proof (NewPath_full_enc (Z.to_nat h) (node_of (Z.to_nat l) x)) as E.
  rewrite node_of_length in E. unfold valL in E. rewrite node_of_length, val_msb_node_of in E.
  rewrite !Z2Nat.id in E by lia. rewrite Z.mod_small in E by lia.
  apply E; lia.
Qed.

Lemma seg_str h l x : 0 <= h <= 32 -> 1 <= l <= h -> 0 <= x < 2 ^ l ->
  match NewPath_full (x * 2 ^ (h - l)) l h with Some w => Some (PathStr w) | None => None end
  = Some (node_str (node_of (Z.to_nat l) x)).
Proof.
  intros Hh Hl Hx. rewrite seg_word by assumption. f_equal.
  apply PathStr_enc; [lia|]. rewrite node_of_length. lia.
Qed.

Lemma opt_all_app {A} (a b : list (option A)) la lb :
  opt_all a = Some la -> opt_all b = Some lb -> opt_all (a ++ b) = Some (la ++ lb).
Proof.
  revert la. induction a as [|[x|] a IH]; intros la Ha Hb; cbn [opt_all app] in *.
  - injection Ha as <-. exact Hb.
  - destruct (opt_all a) as [r|] eqn:E; [|discriminate]. injection Ha as <-.
    rewrite (IH r eq_refl Hb). reflexivity.
  - discriminate.
Qed.

Lemma seg_strs_ok h l : 0 <= h <= 32 -> 1 <= l <= h -> forall n start,
  0 <= start -> start + Z.of_nat n <= 2 ^ l ->
  opt_all (map (fun x => match NewPath_full (x * 2 ^ (h - l)) l h with
                         | Some w => Some (PathStr w) | None => None end) (zrange n start))
  = Some (map node_str (map (node_of (Z.to_nat l)) (zrange n start))).
Proof.
  intros Hh Hl. induction n as [|n IH]; intros start Hs He; [reflexivity|].
  cbn [zrange map opt_all]. rewrite seg_str by lia.
  rewrite IH by lia. reflexivity.
Qed.

Definition seg_dom (s : Z * Z * Z * Z) : Prop :=
  match s with (h, l, start, count) =>
    0 <= h <= 32 /\ 1 <= l <= h /\ 0 <= start /\ 0 <= count /\ start + count <= 2 ^ l end.

Lemma bulk_strs_ok segs : Forall seg_dom segs ->
  opt_all (flat_map c10w_seg_strs segs) = Some (map node_str (bulk_nodes segs)).
Proof.
  induction 1 as [|[[[h l] start] count] segs (Hh & Hl & Hs & Hc & He) _ IH]; [reflexivity|].
  cbn [flat_map bulk_nodes]. fold (bulk_nodes segs). rewrite map_app.
  apply opt_all_app; [|exact IH].
  unfold c10w_seg_strs, seg_nodes. apply seg_strs_ok; try lia.
Qed.

(** the bulk operation: model = specification *)
Lemma bulk_model_spec segs K : Forall seg_dom segs -> c10w_bulk segs K = Some (bulk_spec segs K).
Proof. intros H. unfold c10w_bulk, bulk_spec. now rewrite bulk_strs_ok. Qed.
