(** Equality of the definition generated from the Go source of bitmap.Select32R64 (coq/gen/Trans.v) and the model:
    the advance loop over the rank index (empty body, the condition reads rankIndex[wordI+1]), the 32/16/8 halving
    of the in-word search, a read of select8Lookup, and the scan for the next 1-bit (same shape as in Select32). *)
From Coq Require Import ZArith List Lia Bool.
From Low Require Import Lib.MachInt Lib.Bits Lib.BitSeq Lib.TransLib Proofs.TransEqLemmas.
From Low Require Model.Select.
From Low Require Import Proofs.TransEq_bitmap_Select32.
From LowGen Require Trans.
Import ListNotations.
Open Scope Z_scope.

(** what the model does once the offset [off] of the bit inside its word is known *)
Definition MF2 (ws : list Z) (wordI w off : Z) : option (Z * Z) :=
  let base := Z.shiftl wordI 6 in
  let a := off + base in
  let w := Z.land w (RMaskUpto (Z.land a 63)) in
  if negb (w =? 0) then Some (a, base + tz64 w)
  else
    match Select.next_one_scan (length ws) ws (wordI + 1) (zlen ws) with
    | Some b => Some (a, b)
    | None => None
    end.

Lemma FIN2 ws fuel off wI w : words ws -> zlen ws < 2 ^ 25 -> fuel = S (length ws) ->
  0 <= off <= 100 -> 0 <= wI < zlen ws -> 0 <= w < 2 ^ 64 ->
  match tblZ 64 RMaskUpto (Z.land (i32 (off + sshl32 wI 6)) 63) with
  | Some t53 =>
      if negb (Z.land w t53 =? 0)
      then Some (i32 (off + sshl32 wI 6), i32 (sshl32 wI 6 + i32 (tz64 (Z.land w t53))))
      else scanT ws (i32 (off + sshl32 wI 6)) fuel (wI + 1)
  | None => None
  end = MF2 ws wI w off.
Proof.
  intros Hws Hl Ef Hoff HwI Hw. unfold MF2. cbv zeta.
  rewrite sshl32_6, shiftl_6 by lia. rewrite (i32_id (off + wI * 64)) by lia.
  set (a := off + wI * 64) in *.
  rewrite tblZ_in by (pose proof (land_63_range a); lia).
  set (w' := Z.land w (RMaskUpto (Z.land a 63))).
  assert (Hw' : 0 <= w' < 2 ^ 64) by (apply land_u_range; lia).
  pose proof (tz64_range w' Hw') as Htz.
  destruct (w' =? 0); cbn [negb].
  - subst fuel. apply scanT_eq; try assumption; [lia|]. unfold zlen. lia.
  - rewrite (i32_id (tz64 w')) by lia. rewrite i32_id by lia. reflexivity.
Qed.

(** a negative [findIth] (an inconsistent rank index): Go converts it to a huge uint64 and the table read panics;
    in the model the index is negative *)
Lemma lor_ge_r a b : 0 <= a -> 0 < b -> b <= 2 * Z.lor a b.
Proof.
  intros Ha Hb.
  assert (Hl : 0 < Z.lor a b).
  { destruct (Z.eq_dec (Z.lor a b) 0) as [E|E]; [apply Z.lor_eq_0_iff in E; lia|].
    assert (0 <= Z.lor a b) by (apply Z.lor_nonneg; lia). lia. }
  pose proof (Z.log2_lor a b Ha ltac:(lia)) as Hlog.
  pose proof (Z.log2_spec b Hb) as [_ Hb2]. pose proof (Z.log2_spec _ Hl) as [Hl1 _].
  assert (Z.log2 b <= Z.log2 (Z.lor a b)) by lia.
  assert (2 ^ Z.succ (Z.log2 b) <= 2 ^ Z.succ (Z.log2 (Z.lor a b))) by (apply Z.pow_le_mono_r; lia).
  rewrite !Z.pow_succ_r in * by apply Z.log2_nonneg. lia.
Qed.

Lemma neg_index x f : 0 <= x -> - 2 ^ 63 <= f < 0 ->
  (if Z.lor x (u64 f) <? 2048 then nthZ Select.select8Lookup (Z.lor x (u64 f)) else None) = None /\
  forall y, nthZ Select.select8Lookup (Z.lor y f) = None.
Proof.
  intros Hx Hf. split.
  - assert (Hu : u64 f = f + 2 ^ 64).
    { unfold u64. rewrite <- (Z_mod_plus_full f 1 (2 ^ 64)). apply Z.mod_small. lia. }
    pose proof (lor_ge_r x (u64 f) Hx ltac:(lia)).
    destruct (Z.ltb_spec (Z.lor x (u64 f)) 2048); [lia|reflexivity].
  - intros y. apply nthZ_None_neg. apply Z.lor_neg. right. lia.
Qed.

(** what the model does once the advance loop has found the word *)
Definition MT2 (ws ridx : list Z) (i wordI : Z) : option (Z * Z) :=
  match nthZ ws wordI, nthZ ridx wordI with
  | Some w, Some r =>
      match Select.select_in_word w (i - r) with
      | None => None
      | Some off => MF2 ws wordI w off
      end
  | _, _ => None
  end.

Local Ltac halve o kt kf :=
  match goal with
  | |- context [popcount (o ?x) <=? ?g] =>
      let C := fresh "C" in
      rewrite ?(i64_id (g - popcount (o x))) by lia;
      destruct (Z.leb_spec (popcount (o x)) g) as [C|C]; [kt x|kf x]
  end.

Local Ltac leaf2 ws wI Hws Hl Ef HwI Hw :=
  rewrite s8_guard;
  rewrite ?u64_id by lia;
  rewrite ?(shr64_shiftr _ 5) by lia;
  rewrite ?shl64_3 by apply land_255_range;
  match goal with |- context [nthZ Select.select8Lookup ?idx] =>
    let v := fresh "v" in let Ev := fresh "Ev" in let Hv := fresh "Hv" in
    destruct (nthZ Select.select8Lookup idx) as [v|] eqn:Ev; cbv beta iota; [|reflexivity];
    pose proof (nthZ_Forall _ _ _ _ s8_vals Ev) as Hv; cbv beta in Hv;
    rewrite (i32_id v) by lia;
    match goal with |- context [i32 (v + ?c)] => rewrite (i32_id (v + c)) by lia end;
    try match goal with |- context [i32 (v + ?c + 8)] => rewrite (i32_id (v + c + 8)) by lia end;
    match goal with |- context [Some (?A, i32 (sshl32 wI 6 + _))] => fold (scanT ws A) end;
    apply FIN2; try assumption; lia
  end.

Lemma TransEq_bitmap_Select32R64 ws sidx ridx i :
  words ws -> zlen ws < 2 ^ 25 -> Forall (fun b => - 2 ^ 31 <= b < 2 ^ 31) sidx ->
  Forall (fun r => 0 <= r < 2 ^ 31) ridx -> zlen ridx < 2 ^ 31 -> 0 <= i < 2 ^ 31 ->
  Trans.bitmap_Select32R64 (S (length ws)) ws sidx ridx i = Select.Select32R64 ws sidx ridx i.
Proof.
  intros Hws Hl Hsx Hrx Hrl Hi. remember (S (length ws)) as fuel eqn:Ef.
  unfold Trans.bitmap_Select32R64, Select.Select32R64. cbv zeta beta.
  rewrite !(sar32_shiftr i) by lia.
  destruct (nthZ sidx (Z.shiftr i 5)) as [s|] eqn:Es; [|reflexivity].
  pose proof (nthZ_Forall _ _ _ _ Hsx Es) as Hs. cbv beta in Hs.
  rewrite !(sar32_shiftr s) by lia.
  assert (Hq : - 2 ^ 25 <= Z.shiftr s 6 < 2 ^ 25).
  { rewrite Z.shiftr_div_pow2 by lia. change (2 ^ 6) with 64.
    split; [apply Z.div_le_lower_bound|apply Z.div_lt_upper_bound]; lia. }
  transitivity (match Select.Select32R64_advance (length ws) ridx (Z.shiftr s 6) i with
                | Some wI => MT2 ws ridx i wI | None => None end);
    [|destruct (Select.Select32R64_advance (length ws) ridx (Z.shiftr s 6) i) as [wI|]; [|reflexivity];
      unfold MT2; destruct (nthZ ws wI) as [w|]; [|reflexivity]; destruct (nthZ ridx wI) as [r|]; reflexivity].
  match goal with |- ?K fuel _ = _ => set (K3 := K) end.
  (* leaving the advance loop *)
  assert (EXIT : forall wI r1, - 2 ^ 31 <= wI < 2 ^ 31 - 1 -> nthZ ridx (wI + 1) = Some r1 -> (r1 <=? i) = false ->
                 K3 1%nat wI = MT2 ws ridx i wI).
  { intros wI r1 HwI Er1 Hc. unfold K3. cbv beta iota zeta fix.
    rewrite (i32_id (wI + 1)) by lia. rewrite Er1, Hc.
    unfold MT2. destruct (nthZ ws wI) as [w|] eqn:Ew; [|reflexivity].
    pose proof (nthZ_Some_range _ _ _ Ew) as HwI'. pose proof (word_of _ _ _ Hws Ew) as Hw'.
    destruct (nthZ ridx wI) as [r|] eqn:Er; [|reflexivity].
    pose proof (nthZ_Forall _ _ _ _ Hrx Er) as Hr. cbv beta in Hr.
    rewrite (i32_id (i - r)) by lia. rewrite (i64_id (i - r)) by lia.
    set (f := i - r) in *. assert (Hf : - 2 ^ 31 < f < 2 ^ 31) by (unfold f; lia).
    unfold Select.select_in_word. cbv zeta.
    pose proof (popcount_u32_range w) as Ho1.
    halve u32
      ltac:(fun x => assert (Hx : 0 <= shr64 x 32 < 2 ^ 64) by (apply shr64_range; lia);
                     pose proof (popcount_u16_range (shr64 x 32)) as Ho2)
      ltac:(fun x => pose proof (popcount_u16_range x) as Ho2);
    change (Z.lor 0 32) with 32;
    (halve u16
      ltac:(fun x => assert (Hy : 0 <= shr64 x 16 < 2 ^ 64) by (apply shr64_range; lia);
                     pose proof (popcount_u8_range (shr64 x 16)) as Ho3)
      ltac:(fun x => pose proof (popcount_u8_range x) as Ho3));
    change (Z.lor 32 16) with 48; change (Z.lor 0 16) with 16;
    (halve u8 ltac:(fun x => idtac) ltac:(fun x => idtac));
    try (leaf2 ws wI Hws Hl Ef HwI' Hw').
    (* what is left: no halving step was taken and findIth may be negative *)
    all: match goal with Hf' : - 2 ^ 31 < ?g < 2 ^ 31 |- _ =>
           destruct (Z.ltb_spec g 0) as [Hneg|Hpos]; [|leaf2 ws wI Hws Hl Ef HwI' Hw'];
           match goal with |- context [Z.lor ?x (u64 g)] =>
             let N1 := fresh "N" in let N2 := fresh "N" in
             destruct (neg_index x g) as [N1 N2];
               [rewrite shl64_3 by apply land_255_range; apply Z.shiftl_nonneg;
                match goal with |- 0 <= Z.land ?y 255 => pose proof (land_255_range y); lia end
               |lia
               |rewrite N1, N2; reflexivity]
           end
         end. }
  assert (L1 : forall m wI, - 2 ^ 31 <= wI < 2 ^ 31 - 1 ->
            K3 (S m) wI = match Select.Select32R64_advance m ridx wI i with
                          | Some wI' => MT2 ws ridx i wI' | None => None end).
  { induction m as [|m IH]; intros wI HwI.
    - destruct (nthZ ridx (wI + 1)) as [r1|] eqn:Er1.
      + destruct (r1 <=? i) eqn:Hc.
        * unfold K3. cbv beta iota zeta fix. rewrite (i32_id (wI + 1)) by lia. rewrite Er1, Hc.
          cbn [Select.Select32R64_advance]. rewrite Er1, Hc. reflexivity.
        * rewrite (EXIT wI r1) by assumption. cbn [Select.Select32R64_advance]. rewrite Er1, Hc. reflexivity.
      + unfold K3. cbv beta iota zeta fix. rewrite (i32_id (wI + 1)) by lia. rewrite Er1.
        cbn [Select.Select32R64_advance]. rewrite Er1. reflexivity.
    - destruct (nthZ ridx (wI + 1)) as [r1|] eqn:Er1.
      + destruct (r1 <=? i) eqn:Hc.
        * remember (S m) as m' eqn:Em. unfold K3. cbv beta iota zeta fix. rewrite (i32_id (wI + 1)) by lia.
          rewrite Er1, Hc. fold K3. subst m'. cbn [Select.Select32R64_advance]. rewrite Er1, Hc.
          apply IH. pose proof (nthZ_Some_range _ _ _ Er1). lia.
        * transitivity (K3 1%nat wI).
          -- unfold K3. cbv beta iota zeta fix. rewrite (i32_id (wI + 1)) by lia. rewrite Er1, Hc. reflexivity.
          -- rewrite (EXIT wI r1) by assumption. cbn [Select.Select32R64_advance]. rewrite Er1, Hc. reflexivity.
      + remember (S m) as m' eqn:Em. unfold K3. cbv beta iota zeta fix. rewrite (i32_id (wI + 1)) by lia. rewrite Er1.
        subst m'. cbn [Select.Select32R64_advance]. rewrite Er1. reflexivity. }
  rewrite Ef. apply L1. lia.
Qed.
