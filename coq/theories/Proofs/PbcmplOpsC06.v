(** C06 at the level of the protocol operations (Run/C06.v): on every in-domain
    argument the value computed from the model IS the value computed from the
    specification (verdict MODELBUG impossible; OK means the implementation
    returned the specification's value). *)
From Coq Require Import ZArith List Bool Lia.
From Low Require Import Lib.MachInt Lib.BitSeq Lib.Bytes Lib.Val
  Model.Pbcmpl Model.PbcmplWalk Spec.PbcmplSpec Spec.PbcmplWalkSpec
  Run.PbcmplOps Run.PbcmplWalkOps Run.C06
  Proofs.PbcmplIO Proofs.PbcmplHeader Proofs.PbcmplProofs Proofs.PbcmplMarshal
  Proofs.PbcmplFrames Proofs.PbcmplStream Proofs.PbcmplHistory Proofs.PbcmplWalk.
Import ListNotations.
Open Scope Z_scope.

Lemma opt_all_map_Some {A B} (f : A -> B) l : opt_all (map (fun x => Some (f x)) l) = Some (map f l).
Proof. induction l as [|x l IH]; cbn [map opt_all]; [reflexivity|]. rewrite IH. reflexivity. Qed.

(** ** inserting empty chunks (Reads that return (0, nil)) changes neither the bytes nor
    the well-formedness of the chunk list *)
Lemma concat_insert_at n : forall (l : list (list Z)), concat (insert_at n [] l) = concat l.
Proof.
  induction n as [|n IH]; intros l; [reflexivity|].
  destruct l as [|y t]; [reflexivity|]. cbn [insert_at concat]. rewrite IH. reflexivity.
Qed.

Lemma last_insert_at n : forall (l : list (list Z)) d, (n < length l)%nat -> last (insert_at n [] l) d = last l d.
Proof.
  induction n as [|n IH]; intros l d Hn.
  - destruct l; [cbn in Hn; lia|]. reflexivity.
  - destruct l as [|y t]; [cbn in Hn; lia|]. cbn [insert_at].
    cbn [length] in Hn. assert (Hn' : (n < length t)%nat) by lia.
    destruct t as [|z t']; [cbn in Hn'; lia|].
    specialize (IH (z :: t') d Hn').
    destruct n; cbn [insert_at] in *; cbn [last] in *; exact IH.
Qed.

Lemma insert_empties_ok : forall pos cs,
  all_nonneg pos = true -> chunks_ok cs ->
  concat (insert_empties pos cs) = concat cs /\ chunks_ok (insert_empties pos cs).
Proof.
  unfold insert_empties.
  induction pos as [|p pos IH]; intros cs Hpos Hok; [split; [reflexivity|assumption]|].
  cbn [all_nonneg forallb] in Hpos. apply andb_prop in Hpos. destruct Hpos as [Hp Hpos].
  cbn [fold_left]. destruct cs as [|c cs'].
  - apply IH; assumption.
  - set (l := c :: cs') in *.
    assert (Hl : 0 < zlen l) by (unfold l; rewrite zlen_cons; pose proof (zlen_nonneg cs'); lia).
    pose proof (Z.mod_pos_bound p (zlen l) Hl) as Hm.
    assert (Hn : (Z.to_nat (p mod zlen l) < length l)%nat) by (unfold zlen in *; lia).
    destruct (IH (insert_at (Z.to_nat (p mod zlen l)) [] l) Hpos) as [H1 H2].
    + unfold chunks_ok. rewrite last_insert_at by assumption. exact Hok.
    + split; [|exact H2]. fold (all_nonneg pos) in Hpos. rewrite H1. apply concat_insert_at.
Qed.

Section Ops.
  Variable kind : Z.
  Hypothesis Hkind : kind = 0 \/ kind = 1.

  Lemma s_Marshal_wf m : msg_wf m ->
    s_Marshal kind [] (snd m) (fst m)
      = Some (zlen (frame_of (k_enc kind) m), None, ([], frame_of (k_enc kind) m)).
  Proof. intros Hm. apply (marshal_then_unmarshal kind m Hkind Hm). Qed.

  Lemma map_s_Marshal ms : Forall msg_wf ms ->
    map (fun m => s_Marshal kind [] (snd m) (fst m)) ms
      = map (fun m => Some (zlen (frame_of (k_enc kind) m), @None perr, (@nil (Z * bool), frame_of (k_enc kind) m))) ms.
  Proof.
    intros H. apply map_ext_in. intros m Hin. rewrite Forall_forall in H. apply s_Marshal_wf, H, Hin.
  Qed.

  Lemma model_wire_wf ms : Forall msg_wf ms -> model_wire kind ms = Some (wire_of (k_enc kind) ms).
  Proof.
    intros H. unfold model_wire. rewrite map_s_Marshal by assumption.
    rewrite (opt_all_map_Some (fun m => (zlen (frame_of (k_enc kind) m), @None perr, (@nil (Z * bool), frame_of (k_enc kind) m)))).
    rewrite map_map. reflexivity.
  Qed.

  (** pbcmpl.Marshal *)
  Theorem op_Marshal m : msg_wf m -> v_marshal_model kind [] m = v_marshal_spec kind [] m.
  Proof.
    intros Hm. apply v_marshal_model_spec; [|reflexivity].
    apply k_enc_len. apply Hm.
  Qed.

  (** pbcmpl.ReadHeader *)
  Theorem op_ReadHeader m pat :
    msg_wf m -> all_pos pat = true ->
    match s_Marshal kind [] (snd m) (fst m) with
    | None => VPanic
    | Some (_, _, (_, wire)) => v_readheader_model (chunks_of pat wire, term_of 0 false)
    end = v_readheader (32, None, ver_of (fst m), 32, zlen (k_enc kind (snd m))).
  Proof.
    intros Hm Hpat. rewrite s_Marshal_wf by assumption.
    set (wire := frame_of (k_enc kind) m).
    destruct (chunks_of_ok pat wire Hpat) as [Hc Hok].
    destruct (msg_wf_ver m Hm) as [Hv Hnul]. pose proof Hm as (_ & Bv & Bp & Hp).
    pose proof (k_enc_len kind _ Hp) as Hlen.
    destruct (ReadHeader_frame (ver_of (fst m)) (k_enc kind (snd m)) [] (chunks_of pat wire)
                (term_of 0 false) (rd_fuel (chunks_of pat wire, term_of 0 false)))
      as (h & cs' & HR & E1 & E2 & E3 & _); try assumption.
    - lia.
    - apply k_enc_bytes, Bp.
    - constructor.
    - rewrite Hc, app_nil_r. reflexivity.
    - rewrite Hc. unfold wire, frame_of. rewrite zlen_frame by assumption. lia.
    - unfold rd_fuel, rd_bytes. cbn [fst]. lia.
    - unfold v_readheader_model, c_ReadHeader. rewrite HR, E1, E2, E3. reflexivity.
  Qed.

  Lemma per_figures ms : Forall msg_wf ms ->
    map (fun mr : (option (list Z) * list Z) * (Z * option perr * swriter) =>
           let '(m, (n, err, _)) := mr in
           VL [VZ n; v_err err; VZ (SizeOf (k_size kind) (snd m)); VZ (HeaderSizeOf (snd m))])
        (combine ms (map (fun m => (zlen (frame_of (k_enc kind) m), @None perr,
                                    (@nil (Z * bool), frame_of (k_enc kind) m))) ms))
    = map (fun m => let n := zlen (frame_of (k_enc kind) m) in VL [VZ n; VZ 0; VZ n; VZ 32]) ms.
  Proof.
    induction 1 as [|m ms Hm Hwf IH]; [reflexivity|].
    cbn [map combine]. rewrite IH. f_equal.
    destruct (marshal_then_unmarshal kind m Hkind Hm) as (_ & Hsz & Hh & _).
    cbv zeta in Hsz, Hh. rewrite <- Hsz. unfold HeaderSizeOf, fixedSize. reflexivity.
  Qed.

  (** pbcmpl.Roundtrip *)
  Theorem op_Roundtrip ms pat wl :
    Forall msg_wf ms -> all_pos pat = true -> zlen (wire_of (k_enc kind) ms) < 2 ^ 63 ->
    roundtrip_model kind ms pat wl = roundtrip_spec kind ms.
  Proof.
    intros Hwf Hpat Hlen. unfold roundtrip_model, roundtrip_spec.
    rewrite map_s_Marshal by assumption.
    rewrite (opt_all_map_Some (fun m => (zlen (frame_of (k_enc kind) m), @None perr, (@nil (Z * bool), frame_of (k_enc kind) m)))).
    rewrite map_map. cbn [snd].
    change (concat (map (fun x => frame_of (k_enc kind) x) ms)) with (wire_of (k_enc kind) ms).
    destruct (chunks_of_ok pat (wire_of (k_enc kind) ms) Hpat) as [Hc Hok].
    rewrite (c_Stream_frames kind Hkind (term_of 0 wl) eq_refl ms _ Hwf Hok Hc Hlen).
    rewrite per_figures by assumption. reflexivity.
  Qed.

  (** pbcmpl.Roundtrip/empties *)
  Theorem op_Roundtrip_empties ms pat wl pos :
    Forall msg_wf ms -> all_pos pat = true -> all_nonneg pos = true ->
    zlen (wire_of (k_enc kind) ms) < 2 ^ 63 ->
    match model_wire kind ms with
    | None => VPanic
    | Some wire =>
        match c_Stream kind (insert_empties pos (chunks_of pat wire), term_of 0 wl) with
        | None => VPanic
        | Some (steps, r') => VL [vzs wire; VL (map v_step steps); vzs (rd_bytes r')]
        end
    end = VL [vzs (wire_of (k_enc kind) ms); VL (map v_step (frames_steps (k_enc kind) 0 ms)); vzs []].
  Proof.
    intros Hwf Hpat Hpos Hlen. rewrite model_wire_wf by assumption.
    destruct (chunks_of_ok pat (wire_of (k_enc kind) ms) Hpat) as [Hc Hok].
    destruct (insert_empties_ok pos _ Hpos Hok) as [Hc' Hok'].
    rewrite (c_Stream_frames kind Hkind (term_of 0 wl) eq_refl ms _ Hwf Hok'); [reflexivity| |assumption].
    rewrite Hc'. exact Hc.
  Qed.

  (** pbcmpl.Walk/frames *)
  Theorem op_Walk_frames ms pat wl :
    Forall msg_wf ms -> forallb (walk_body_ok kind) ms = true -> all_pos pat = true ->
    zlen (wire_of (k_enc kind) ms) < 2 ^ 63 ->
    match model_wire kind ms with
    | None => VPanic
    | Some wire => v_walk_model (chunks_of pat wire, term_of 0 wl)
    end = VL [VL (map v_wstep (frames_walk (k_enc kind) ms)); vzs []].
  Proof.
    intros Hwf Hbody Hpat Hlen. rewrite model_wire_wf by assumption.
    destruct (chunks_of_ok pat (wire_of (k_enc kind) ms) Hpat) as [Hc Hok].
    unfold v_walk_model.
    rewrite (c_Walk_frames (k_enc kind) (term_of 0 wl) eq_refl ms _) ; try assumption.
    - reflexivity.
    - apply Forall_forall. intros m Hin. rewrite Forall_forall in Hwf. rewrite forallb_forall in Hbody.
      destruct (msg_wf_ver m (Hwf m Hin)) as [Hv Hnul]. split; [exact Hv|]. split; [exact Hnul|].
      apply Z.leb_le. apply (Hbody m Hin).
    - apply wire_bytes; assumption.
  Qed.
End Ops.
