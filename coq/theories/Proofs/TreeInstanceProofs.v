(** Proofs for the extra check X02, second part: the implementation of the interface that the harness uses
    ([rose_tree], Spec/TreeSpec.v) presents its tree; facts about the specification itself (row and visit
    counts, the last visit, post-order = reversed pre-order of the mirrored tree). *)
From Coq Require Import ZArith List Bool Lia.
From Low Require Import Lib.Decimal_xpk Model.Tree Spec.TreeSpec Proofs.TreeProofs.
Import ListNotations.
Open Scope Z_scope.

Definition is_nil_edge (e : edge) : bool := match fst e with None => true | Some _ => false end.

Lemma find_unique_nil pre e post :
  (length (filter is_nil_edge (pre ++ e :: post)) <= 1)%nat -> is_nil_edge e = true ->
  find is_nil_edge (pre ++ e :: post) = Some e.
Proof.
  induction pre as [|h pre IH]; intros Hc He; cbn [app find filter] in *.
  - now rewrite He.
  - destruct (is_nil_edge h) eqn:Eh.
    + exfalso. cbn [length] in Hc. rewrite filter_app in Hc. cbn [filter] in Hc. rewrite He in Hc.
      rewrite app_length in Hc. cbn [length] in Hc. lia.
    + apply IH; assumption.
Qed.

Lemma nil_edges_ok_unfold u i f l kids :
  nil_edges_ok (Rose u i f l kids) = true ->
  (length (filter is_nil_edge kids) <= 1)%nat /\ forall e, In e kids -> nil_edges_ok (snd e) = true.
Proof.
  cbn [nil_edges_ok]. intros H. apply andb_true_iff in H as [H1 H2].
  split; [apply Nat.leb_le in H1; exact H1|]. rewrite forallb_forall in H2. exact H2.
Qed.

Lemma nil_edges_ok_fields r :
  nil_edges_ok r = true ->
  (length (filter is_nil_edge (r_kids r)) <= 1)%nat /\ forall e, In e (r_kids r) -> nil_edges_ok (snd e) = true.
Proof. destruct r. apply nil_edges_ok_unfold. Qed.

Lemma rep_fields {node label : Type} (t : TreeI node label) n r :
  rep t n r <->
  t_nodeID t n = r_id r /\ t_nodeInfo t n = r_info r /\ leaf_matches (t_leafVal t n) (r_leaf r) /\
  kids_rep t n (r_kids r) (t_labels t n).
Proof. destruct r. apply rep_unfold. Qed.

Section Instance.
Variable rootnil : bool.
Variable root : rose.
Local Notation T := (rose_tree rootnil root).

Lemma rose_tree_kids (n : option rose) (x : rose) all :
  (match n with Some y => y = x | None => x = root /\ forallb (fun e => negb (is_nil_edge e)) all = true end) ->
  r_kids x = all -> (length (filter is_nil_edge all) <= 1)%nat ->
  (forall e, In e all -> rep T (Some (snd e)) (snd e)) ->
  forall pre ks, all = pre ++ ks -> kids_rep T n ks (map edge_label ks).
Proof.
  intros Hn Hall Hc Hrep pre ks. revert pre. induction ks as [|k ks IH]; intros pre Hs; cbn [map kids_rep]; [exact I|].
  assert (Hin : In k all) by (rewrite Hs; apply in_or_app; right; left; reflexivity).
  split; [|split].
  - unfold edge_label. destruct k as [[s|] c]; cbn [fst label_matches]; [reflexivity|exact I].
  - unfold edge_label. destruct k as [[s|] c]; cbn [fst snd].
    + cbn [rose_tree t_child snd]. apply (Hrep _ Hin).
    + (* the edge without text: Child(node, nil) finds it because it is the only one *)
      destruct n as [y|].
      * subst y. cbn [rose_tree t_child]. rewrite Hall.
        change (fun e : option (list Z) * rose => match fst e with None => true | Some _ => false end) with is_nil_edge.
        rewrite Hs in Hc |- *. pose proof (find_unique_nil pre (None, c) ks Hc eq_refl) as Hf.
        unfold edge in *. rewrite Hf. cbn [snd].
        apply (Hrep (None, c) Hin).
      * destruct Hn as [_ Hno]. rewrite forallb_forall in Hno. specialize (Hno _ Hin). discriminate.
  - apply (IH (pre ++ [k])). rewrite <- app_assoc. exact Hs.
Qed.

Lemma rose_tree_rep_some : forall x, nil_edges_ok x = true -> rep T (Some x) x.
Proof.
  induction x as [u id info leaf kids IH] using rose_ind'. intros Hok.
  apply nil_edges_ok_unfold in Hok as [Hc Hk].
  apply rep_unfold. repeat split.
  - cbn. destruct leaf; reflexivity.
  - cbn [rose_tree t_labels r_kids].
    apply (rose_tree_kids (Some (Rose u id info leaf kids)) (Rose u id info leaf kids) kids eq_refl eq_refl Hc) with (pre := []); [|reflexivity].
    intros e He. rewrite Forall_forall in IH. apply (IH e He). now apply Hk.
Qed.

Lemma rose_tree_rep_root : rose_ok root = true -> rep T None root.
Proof.
  unfold rose_ok. intros H. apply andb_true_iff in H as [Hok Hno].
  apply nil_edges_ok_fields in Hok as [Hc Hk].
  apply rep_fields. repeat split.
  - cbn. destruct (r_leaf root); reflexivity.
  - cbn [rose_tree t_labels].
    apply (rose_tree_kids None root (r_kids root)) with (pre := []); try reflexivity; try assumption.
    + split; [reflexivity|]. rewrite forallb_forall in Hno |- *. intros e He. specialize (Hno e He).
      unfold is_nil_edge. destruct (fst e); [reflexivity|discriminate].
    + intros e He. apply rose_tree_rep_some. now apply Hk.
Qed.

Lemma rose_tree_rep_child_root : rose_ok root = true -> rep T (t_child T None None) root.
Proof.
  intros H. pose proof (rose_tree_rep_root H) as H1.
  assert (H2 : rep T (Some root) root).
  { apply rose_tree_rep_some. unfold rose_ok in H. now apply andb_true_iff in H as [H _]. }
  cbn [rose_tree t_child]. destruct rootnil; assumption.
Qed.

Lemma String_rose fuel : rose_ok root = true -> (height root <= fuel)%nat ->
  String T fuel = Some (spec_String root).
Proof. intros Hok Hf. apply String_rep; [assumption|now apply rose_tree_rep_root]. Qed.

Lemma DepthFirst_rose fuel : rose_ok root = true -> (height root <= fuel)%nat ->
  exists calls, DepthFirst T fuel = Some calls /\ Forall2 (call_matches T) calls (spec_visits None None root).
Proof. intros Hok Hf. apply DepthFirst_rep; [assumption|now apply rose_tree_rep_child_root]. Qed.

End Instance.

(** * facts about the specification *)
Lemma flat_map_length_sum {A B} (f : A -> list B) (g : A -> nat) l :
  (forall a, In a l -> length (f a) = g a) ->
  length (flat_map f l) = fold_right (fun a m => (g a + m)%nat) O l.
Proof.
  induction l as [|a l IH]; intros H; cbn [flat_map fold_right length]; [reflexivity|].
  rewrite app_length, (H a (or_introl eq_refl)), IH; [reflexivity|]. intros b Hb. apply H. now right.
Qed.

Lemma rows_length : forall r c inb, length (rows c inb r) = size r.
Proof.
  induction r as [u id info leaf kids IH] using rose_ind'. intros c inb.
  cbn [rows size length]. f_equal.
  rewrite Forall_forall in IH.
  apply (flat_map_length_sum _ (fun e => size (snd e))). intros e He. now apply IH.
Qed.

Lemma spec_lines_length r : length (spec_lines r) = size r.
Proof. unfold spec_lines. now rewrite map_length, rows_length. Qed.

Lemma spec_visits_length : forall r p inb, length (spec_visits p inb r) = size r.
Proof.
  induction r as [u id info leaf kids IH] using rose_ind'. intros p inb.
  cbn [spec_visits size]. rewrite app_length. cbn [length]. rewrite Nat.add_1_r. f_equal.
  rewrite Forall_forall in IH.
  apply (flat_map_length_sum _ (fun e => size (snd e))). intros e He. now apply IH.
Qed.

Lemma spec_lines_head r : exists rest, spec_lines r = line_of None r :: rest.
Proof. destruct r. unfold spec_lines. cbn [rows map row_text]. eexists. reflexivity. Qed.

Lemma spec_visits_last r p inb : exists front, spec_visits p inb r = front ++ [(p, inb, r)].
Proof. destruct r. cbn [spec_visits]. eexists. reflexivity. Qed.

Lemma flat_map_app' {A B} (f : A -> list B) l m : flat_map f (l ++ m) = flat_map f l ++ flat_map f m.
Proof. induction l as [|a l IH]; cbn [app flat_map]; [reflexivity|]. now rewrite IH, app_assoc. Qed.

Lemma rev_flat_map_rev {A B} (f : A -> list B) l : rev (flat_map f (rev l)) = flat_map (fun x => rev (f x)) l.
Proof.
  induction l as [|a l IH]; [reflexivity|].
  cbn [rev flat_map]. rewrite flat_map_app'. cbn [flat_map]. rewrite app_nil_r, rev_app_distr. now rewrite IH.
Qed.

Lemma mirror_uid r : r_uid (mirror r) = r_uid r.
Proof. destruct r. reflexivity. Qed.

Lemma flat_map_map' {A B C} (f : B -> list C) (g : A -> B) l : flat_map f (map g l) = flat_map (fun x => f (g x)) l.
Proof. induction l as [|a l IH]; cbn [map flat_map]; [reflexivity|]. now rewrite IH. Qed.

(** DepthFirst's order is the reverse of the pre-order of the mirrored tree (compared by uid: mirroring changes the sub-trees) *)
Lemma spec_visits_mirror : forall r p inb,
  map (fun v => r_uid (snd v)) (spec_visits p inb r) = rev (map r_uid (preorder (mirror r))).
Proof.
  induction r as [u id info leaf kids IH] using rose_ind'. intros p inb.
  cbn [spec_visits mirror preorder map rev]. rewrite map_app. cbn [map snd r_uid]. f_equal.
  rewrite <- (map_rev (fun e : option (list Z) * rose => (fst e, mirror (snd e))) kids), flat_map_map'. cbn [snd].
  rewrite !map_flat_map, rev_flat_map_rev.
  apply flat_map_ext_in'. intros e He. rewrite Forall_forall in IH. apply (IH e He).
Qed.
