(** Proofs for sections of sections (C18 widening): the stacked int64 writers refine the
    stack of abstract windows; a write through a stack of windows lands inside EVERY window. *)
From Coq Require Import ZArith List Bool Lia.
From Low Require Import Lib.MachInt Lib.BitSeq Model.SectionWriter Spec.SectionWriterSpec
  Model.SectionNest Spec.SectionNestSpec Run.C18 Proofs.SectionWriterProofs.
Import ListNotations.
Open Scope Z_scope.

(** writer [s] is a section (o, n) (its cursor does not matter for WriteAt) *)
Definition is_win (s : sw) (w : Z * Z) : Prop := base s = fst w /\ limit s = fst w + snd w.
Definition win_ok (w : Z * Z) : Prop := sec_ok (fst w) (snd w).

(** * the count a stack of windows returns *)
Lemma aw_count : forall ws sc p a, script_ok sc ->
  let '((cnt, e), sc', us) := aw ws sc p a in 0 <= cnt <= zlen p /\ script_ok sc'.
Proof.
  induction ws as [|[o n] ws IH]; intros sc p a Hsc; cbn [aw].
  - change respond with under.
    pose proof (under_count sc p Hsc). pose proof (under_script_ok sc p Hsc).
    destruct (under sc p) as [[cnt e] sc']. cbn [fst snd] in *. auto.
  - pose proof (zlen_nonneg p) as Hp.
    destruct ((a <? 0) || (a >=? n)) eqn:Hr; [split; [lia|exact Hsc]|].
    apply orb_false_elim in Hr. destruct Hr as [H0 H1]. apply Z.ltb_ge in H0.
    destruct (Z.geb_spec a n); [discriminate|].
    specialize (IH sc (firstn (Z.to_nat (Z.min (zlen p) (n - a))) p) (o + a) Hsc).
    destruct (aw ws sc _ (o + a)) as [[[cnt e] sc'] us].
    rewrite zlen_firstn in IH by lia. destruct IH. split; [lia|assumption].
Qed.

(** * the stacked model is the stack of windows *)
Lemma wat_aw : forall ss ws, Forall2 is_win ss ws -> Forall win_ok ws ->
  forall sc p o, - 2^63 <= o < 2^63 ->
  wat ss sc p o = aw ws sc p o.
Proof.
  induction 1 as [|s [ow n] ss ws (Hb & Hl) _ IH]; intros Hok sc p o Ho; [reflexivity|].
  inversion Hok as [|? ? (Hw0 & Hn0 & Hwn) Hok']; subst. cbn [fst snd] in *.
  cbn [wat aw]. rewrite Hb, Hl.
  rewrite (i64_id (ow + n - ow)) by lia. replace (ow + n - ow) with n by lia.
  destruct ((o <? 0) || (o >=? n)) eqn:Hr; [reflexivity|].
  apply orb_false_elim in Hr. destruct Hr as [H0 H1]. apply Z.ltb_ge in H0.
  destruct (Z.geb_spec o n); [discriminate|].
  rewrite (i64_id (o + ow)) by lia.
  rewrite (i64_id (ow + n - (o + ow))) by lia.
  replace (ow + n - (o + ow)) with (n - o) by lia.
  replace (o + ow) with (ow + o) by lia.
  pose proof (zlen_nonneg p) as Hp.
  destruct (Z.gtb_spec (zlen p) (n - o)) as [Hgt|Hle].
  - rewrite Z.min_r by lia. rewrite (IH Hok') by lia.
    destruct (aw ws sc (firstn (Z.to_nat (n - o)) p) (ow + o)) as [[[cnt e] sc'] us].
    destruct (Z.ltb_spec (n - o) (zlen p)); [|lia]. reflexivity.
  - rewrite Z.min_l by lia. rewrite firstn_zlen. rewrite (IH Hok') by lia.
    destruct (aw ws sc p (ow + o)) as [[[cnt e] sc'] us].
    destruct (Z.ltb_spec (zlen p) (zlen p)); [lia|].
    unfold A_nil. destruct (Z.eqb_spec e 0); subst; reflexivity.
Qed.

(** * containment: a write through a stack of windows lands inside every one of them *)
Fixpoint sumo (ws : list (Z * Z)) : Z := match ws with [] => 0 | (o, _) :: t => o + sumo t end.

(** [l] bytes at relative offset [a] of the first window lie inside it, and (seen from the
    window below, at o + a) inside that one, and so on down *)
Fixpoint inside (ws : list (Z * Z)) (a l : Z) : Prop :=
  match ws with
  | [] => True
  | (o, n) :: below => 0 <= a /\ a + l <= n /\ inside below (o + a) l
  end.

Lemma inside_mono ws : forall a l l', 0 <= l' <= l -> inside ws a l -> inside ws a l'.
Proof.
  induction ws as [|[o n] ws IH]; intros a l l' Hl; cbn [inside]; [auto|].
  intros (H1 & H2 & H3). repeat split; try lia. eapply IH; eauto.
Qed.

Theorem aw_contained : forall ws sc p a x bs,
  In (x, bs) (snd (aw ws sc p a)) ->
  x = sumo ws + a /\ inside ws a (zlen bs) /\ bs = firstn (length bs) p.
Proof.
  induction ws as [|[o n] ws IH]; intros sc p a x bs; cbn [aw].
  - destruct (respond sc p) as [r sc']. cbn [snd]. intros [E|[]]. inversion E; subst.
    cbn [sumo inside]. repeat split; auto. symmetry. apply firstn_all.
  - destruct ((a <? 0) || (a >=? n)) eqn:Hr; [cbn; tauto|].
    apply orb_false_elim in Hr. destruct Hr as [H0 H1]. apply Z.ltb_ge in H0.
    destruct (Z.geb_spec a n); [discriminate|].
    pose proof (zlen_nonneg p) as Hp.
    set (m := Z.min (zlen p) (n - a)).
    specialize (IH sc (firstn (Z.to_nat m) p) (o + a) x bs).
    destruct (aw ws sc (firstn (Z.to_nat m) p) (o + a)) as [[[cnt e] sc'] us]. cbn [snd] in *.
    intros Hin. destruct (IH Hin) as (Hx & Hins & Hbs).
    assert (Hlen : zlen bs <= m).
    { rewrite Hbs. unfold zlen. rewrite firstn_length.
      assert (length (firstn (Z.to_nat m) p) <= Z.to_nat m)%nat by (rewrite firstn_length; lia). lia. }
    pose proof (zlen_nonneg bs).
    cbn [sumo inside]. split; [lia|]. split; [repeat split; try lia; exact Hins|].
    rewrite Hbs at 1. rewrite firstn_firstn. f_equal.
    unfold zlen in Hlen. lia.
Qed.

(** two levels, in absolute file positions: inside the inner section AND inside the outer one *)
Corollary aw2_intersection o1 n1 o2 n2 sc p a x bs :
  In (x, bs) (snd (aw [(o2, n2); (o1, n1)] sc p a)) ->
  o1 + o2 <= x /\ x + zlen bs <= o1 + o2 + n2 /\ o1 <= x /\ x + zlen bs <= o1 + n1.
Proof.
  intros Hin. destruct (aw_contained _ _ _ _ _ _ Hin) as (Hx & (H1 & H2 & H3 & H4 & _) & _).
  cbn [sumo] in Hx. lia.
Qed.

(** * whole interleaved call sequences *)
Definition RW (s : sw) (t : awin) : Prop := R (fst (fst t)) (snd (fst t)) s (snd t).
Definition awin_ok (t : awin) : Prop := sec_ok (fst (fst t)) (snd (fst t)).
Definition lcall_ok (lc : nat * call) : Prop := call_ok (snd lc).

Lemma RW_is_win s t : RW s t -> is_win s (win_of t).
Proof. destruct t as [[o n] pos]. unfold RW, R, is_win, win_of. cbn [fst snd]. tauto. Qed.

Lemma Forall2_firstn {A B} (P : A -> B -> Prop) k : forall l1 l2,
  Forall2 P l1 l2 -> Forall2 P (firstn k l1) (firstn k l2).
Proof.
  induction k as [|k IH]; intros l1 l2 H; [constructor|].
  inversion H; subst; cbn [firstn]; constructor; auto.
Qed.

Lemma Forall2_rev' {A B} (P : A -> B -> Prop) l1 l2 :
  Forall2 P l1 l2 -> Forall2 P (rev l1) (rev l2).
Proof.
  induction 1; cbn [rev]; [constructor|]. apply Forall2_app; [assumption|]. constructor; [assumption|constructor].
Qed.

Lemma Forall2_nth_error {A B} (P : A -> B -> Prop) : forall k l1 l2, Forall2 P l1 l2 ->
  match nth_error l1 k, nth_error l2 k with
  | Some x, Some y => P x y
  | None, None => True
  | _, _ => False
  end.
Proof.
  induction k as [|k IH]; intros l1 l2 H; inversion H; subst; cbn [nth_error]; auto.
  apply IH; assumption.
Qed.

Lemma Forall2_upd {A B} (P : A -> B -> Prop) x y : P x y -> forall k l1 l2,
  Forall2 P l1 l2 -> Forall2 P (upd k x l1) (aupd k y l2).
Proof.
  intros Hxy. induction k as [|k IH]; intros l1 l2 H; inversion H; subst; cbn [upd aupd];
    constructor; auto.
Qed.

Lemma Forall_upd {A} (P : A -> Prop) y : P y -> forall k l, Forall P l -> Forall P (aupd k y l).
Proof.
  intros Hy. induction k as [|k IH]; intros l H; inversion H; subst; cbn [aupd]; constructor; auto.
Qed.

Lemma upd_same {A} : forall k (l : list A) x, nth_error l k = Some x -> upd k x l = l.
Proof.
  induction k as [|k IH]; intros [|h t] x H; cbn [nth_error upd] in *; try discriminate.
  - now inversion H.
  - f_equal. now apply IH.
Qed.

Lemma Forall_firstn' {A} (P : A -> Prop) k : forall l, Forall P l -> Forall P (firstn k l).
Proof.
  induction k as [|k IH]; intros l H; [constructor|]. inversion H; subst; cbn [firstn]; constructor; auto.
Qed.

Lemma below_rel ss st L : Forall2 RW ss st -> Forall awin_ok st ->
  Forall2 is_win (rev (firstn L ss)) (rev (map win_of (firstn L st))) /\
  Forall win_ok (rev (map win_of (firstn L st))).
Proof.
  intros H Hok. split.
  - apply Forall2_rev'. pose proof (Forall2_firstn RW L ss st H) as HF.
    clear H. induction HF; cbn [map]; constructor; auto using RW_is_win.
  - apply Forall_rev. apply Forall_map.
    assert (HF : Forall awin_ok (firstn L st)) by (apply Forall_firstn'; exact Hok).
    eapply Forall_impl; [|exact HF]. intros [[o n] pos] Ht. exact Ht.
Qed.

Definition stepN_rel (x : list sw * list resp * out) (y : list awin * list (Z * Z) * aout) : Prop :=
  let '(ss', sc', r) := x in
  let '(st', asc', ar) := y in
  Forall2 RW ss' st' /\ Forall awin_ok st' /\ sc' = asc' /\ obs r = ar /\ script_ok sc'.

Lemma stepN_refines ss st sc lc :
  Forall2 RW ss st -> Forall awin_ok st -> script_ok sc -> lcall_ok lc ->
  stepN_rel (stepN ss sc lc) (astepN st sc (to_lacall lc)).
Proof.
  intros HF Hok Hsc Hc. destruct lc as [L c]. unfold lcall_ok in Hc. cbn [snd] in Hc.
  unfold stepN, astepN, to_lacall. cbn [fst snd].
  pose proof (Forall2_nth_error RW L ss st HF) as Hn.
  destruct (nth_error ss L) as [s|] eqn:Es; destruct (nth_error st L) as [[[o n] pos]|] eqn:Et;
    try contradiction.
  2:{ unfold stepN_rel, obs; cbn [rets ucalls]; repeat split; auto. }
  unfold RW in Hn. cbn [fst snd] in Hn.
  assert (Hs : sec_ok o n).
  { apply nth_error_In in Et. exact (proj1 (Forall_forall _ _) Hok _ Et). }
  destruct (below_rel ss st L HF Hok) as [Hbel Hbok].
  set (below := rev (firstn L ss)) in *. set (wbelow := rev (map win_of (firstn L st))) in *.
  pose proof Hs as (Ho & Hn0 & Hon). pose proof Hn as (Hb & Hl & Hoff & Hp & Hpm).
  destruct c as [p|p a|d wh|]; cbn [to_acall call_ok] in *.
  - (* Write *)
    unfold WriteN. rewrite Hl, Hoff.
    destruct (Z.geb_spec (o + pos) (o + n)) as [Hge|Hlt].
    + destruct (Z.geb_spec pos n); [|lia]. rewrite (upd_same L ss s Es).
      unfold stepN_rel, obs; cbn [rets ucalls]; repeat split; auto.
    + destruct (Z.geb_spec pos n); [lia|].
      rewrite (i64_id (o + n - (o + pos))) by lia.
      replace (o + n - (o + pos)) with (n - pos) by lia.
      pose proof (zlen_nonneg p) as Hlen.
      assert (Hp' : (if zlen p >? n - pos then (firstn (Z.to_nat (n - pos)) p, E_short) else (p, E_nil))
                    = (firstn (Z.to_nat (Z.min (zlen p) (n - pos))) p,
                       if Z.min (zlen p) (n - pos) <? zlen p then A_short else A_nil)).
      { destruct (Z.gtb_spec (zlen p) (n - pos)).
        - rewrite Z.min_r by lia. destruct (Z.ltb_spec (n - pos) (zlen p)); [reflexivity|lia].
        - rewrite Z.min_l by lia. rewrite firstn_zlen. destruct (Z.ltb_spec (zlen p) (zlen p)); [lia|reflexivity]. }
      rewrite Hp'. set (m := Z.min (zlen p) (n - pos)).
      rewrite (wat_aw below wbelow Hbel Hbok) by lia.
      pose proof (aw_count wbelow sc (firstn (Z.to_nat m) p) (o + pos) Hsc) as Hcnt.
      destruct (aw wbelow sc (firstn (Z.to_nat m) p) (o + pos)) as [[[cnt e] sc'] us].
      rewrite zlen_firstn in Hcnt by lia. destruct Hcnt as [Hc1 Hc2].
      unfold stepN_rel. split; [|split; [|split; [reflexivity|split; [|exact Hc2]]]].
      * apply Forall2_upd; [|exact HF]. unfold RW, R. cbn [fst snd base off limit].
        rewrite (i64_id (o + pos + cnt)) by lia. lia.
      * apply Forall_upd; [exact Hs|exact Hok].
      * unfold obs. cbn [rets ucalls]. unfold E_nil, A_nil. reflexivity.
  - (* WriteAt *)
    assert (Hst : Forall2 is_win (s :: below) ((o, n) :: wbelow)).
    { constructor; [|exact Hbel]. unfold is_win. cbn [fst snd]. auto. }
    assert (Hsok : Forall win_ok ((o, n) :: wbelow)) by (constructor; [exact Hs|exact Hbok]).
    rewrite (wat_aw _ _ Hst Hsok) by lia.
    pose proof (aw_count ((o, n) :: wbelow) sc p a Hsc) as Hcnt.
    destruct (aw ((o, n) :: wbelow) sc p a) as [[[cnt e] sc'] us]. destruct Hcnt as [_ Hc2].
    unfold stepN_rel, obs; cbn [rets ucalls]; repeat split; auto.
  - (* Seek *)
    pose proof (seek_refines o n s pos sc d wh Hs Hn Hsc Hc) as Href.
    destruct (Seek s d wh) as [s' r].
    destruct (astep o n pos sc (ASeek d wh)) as [[pos' asc'] ar].
    destruct Href as (HR' & _ & (Hr1 & Hr2) & _).
    unfold stepN_rel. split; [|split; [|split; [reflexivity|split; [|exact Hsc]]]].
    + apply Forall2_upd; [exact HR'|exact HF].
    + apply Forall_upd; [exact Hs|exact Hok].
    + unfold obs. destruct ar; cbn [fst snd] in *. now subst.
  - (* Size *)
    unfold Size. rewrite Hb, Hl. rewrite i64_id by lia. replace (o + n - o) with n by lia.
    unfold stepN_rel, obs; cbn [rets ucalls]; repeat split; auto.
Qed.

Lemma runN_refines_from : forall lcs ss st sc,
  Forall2 RW ss st -> Forall awin_ok st -> script_ok sc -> Forall lcall_ok lcs ->
  map obs (runN ss sc lcs) = arunN st sc (map to_lacall lcs).
Proof.
  induction lcs as [|lc lcs IH]; intros ss st sc HF Hok Hsc Hl; [reflexivity|].
  inversion Hl as [|? ? Hc Hl']; subst. cbn [runN arunN map].
  pose proof (stepN_refines ss st sc lc HF Hok Hsc Hc) as Hstep.
  destruct (stepN ss sc lc) as [[ss' sc'] r].
  destruct (astepN st sc (to_lacall lc)) as [[st' asc'] ar].
  destruct Hstep as (HF' & Hok' & -> & Hr & Hsc'). cbn [map]. rewrite Hr. f_equal. now apply IH.
Qed.

(** sections of sections of ... refine the stack of cursor/length windows, for every call
    sequence addressed to any of the levels and every faulty underlying writer *)
Theorem nested_refines ws sc lcs :
  Forall win_ok ws -> script_ok sc -> Forall lcall_ok lcs ->
  map obs (runN (map (fun w => NewSectionWriter (fst w) (snd w)) ws) sc lcs)
  = spec_nested ws sc (map to_lacall lcs).
Proof.
  intros Hok Hsc Hl. unfold spec_nested. apply runN_refines_from; auto.
  - induction Hok as [|[o n] ws Hw _ IH]; cbn [map]; constructor; auto.
    unfold RW. cbn [fst snd]. now apply R_new.
  - apply Forall_map. eapply Forall_impl; [|exact Hok]. intros [o n] H. exact H.
Qed.
