(** C17, widening: totality.  For EVERY non-empty key list -- any order, repeated
    keys allowed -- and every maxSize >= 1, ShardByPrefix neither panics nor
    recurses forever (fuel len(keys)+1 suffices) and returns contiguous shards of
    at most maxSize keys with their exact common-prefix lengths.  Only the order
    of the prefixes needs the keys to be strictly ascending.
    (Termination does not use the order: at i = s the common prefix with the
    next key is at most len(keys[s]), so a split point always exists.) *)
From Coq Require Import ZArith List Lia Bool.
From Low Require Import Lib.MachInt Lib.Bits Lib.BitSeq Lib.Lex Lib.Bytes
  Model.Sigbits Spec.SigbitsSpec Spec.ShardTotalSpec
  Proofs.SigbitsFirstDiff Proofs.SigbitsShardChecker Proofs.SigbitsShard.
Import ListNotations.
Open Scope Z_scope.

Section Total.
  Variable keys : list (list Z).
  Hypothesis Hok : keys_ok keys.
  Variable maxSize : Z.
  Hypothesis Hms : 1 <= maxSize.

  Let fd := spec_FirstDiffBits keys.

  Lemma dfs_each_total lam e F :
    (e <= length keys)%nat ->
    (forall a b, (a < b)%nat -> (b <= e)%nat -> (b - a <= F)%nat -> forall st,
       exists ts, dfs keys fd maxSize F (Z.of_nat a) (Z.of_nat b) st = Some (app_st st ts) /\
                  chain keys maxSize a b ts) ->
    forall a ends, groups keys lam e F a ends -> forall st,
      exists ts, dfs_each (dfs keys fd maxSize F) (map Z.of_nat ends) (Z.of_nat a) st = Some (app_st st ts) /\
                 chain keys maxSize a e ts.
  Proof.
    intros He IHdfs. induction 1 as [a Hae HF Hin|a i r Hai Hie HF Hin Hq Hg IH]; intros st.
    - cbn [map dfs_each]. destruct (IHdfs a e Hae ltac:(lia) HF st) as (ts & Hd & Hc).
      rewrite Hd. now exists ts.
    - cbn [map dfs_each]. destruct (IHdfs a (S i) ltac:(lia) ltac:(lia) HF st) as (ts1 & Hd1 & Hc1).
      rewrite Hd1. destruct (IH (app_st st ts1)) as (ts2 & Hd2 & Hc2).
      rewrite Hd2, app_st_app. exists (ts1 ++ ts2). split; [reflexivity|].
      eapply chain_app; eassumption.
  Qed.

  Lemma dfs_total : forall fuel s e, (s < e)%nat -> (e <= length keys)%nat -> (e - s <= fuel)%nat ->
    forall st, exists ts, dfs keys fd maxSize fuel (Z.of_nat s) (Z.of_nat e) st = Some (app_st st ts) /\
                          chain keys maxSize s e ts.
  Proof.
    induction fuel as [|F IH]; intros s e Hse He Hf st; [lia|].
    cbn [dfs]. rewrite nthZ_keys by lia.
    destruct (Z.leb_spec (Z.of_nat e - Z.of_nat s) maxSize) as [Hsz|Hsz].
    - rewrite idx_range_nat. unfold zlen. unfold fd. rewrite (shard_min_ok keys Hok) by lia.
      fold (M keys s e). exists [(s, e, M keys s e)]. split; [reflexivity|].
      cbn [chain tb te tl fst snd]. repeat split; try lia.
    - unfold fd. rewrite (shard_split_top keys Hok) by exact He.
      change [Z.of_nat e] with (map Z.of_nat [e]). rewrite <- map_app.
      apply (dfs_each_total (M keys s e) e F He).
      + intros a b Hab Hbe HF st'. apply IH; lia.
      + apply (groups_build keys (M keys s e) e F s); try lia.
        * intros j Hj. apply mlen_le_q. lia.
        * right. unfold M. destruct (mlen_attain keys s (e - s - 1) (length (K keys s))) as [H|(j & Hj & Hq)].
          -- exists s. split; [lia|]. pose proof (q_le_len keys s).
             pose proof (mlen_le_q keys s (e - s - 1) (length (K keys s)) s ltac:(lia)). lia.
          -- exists j. split; [lia|exact Hq].
  Qed.
End Total.

Theorem ShardByPrefix_total keys maxSize :
  keys <> [] -> keys_ok keys -> 1 <= maxSize ->
  exists L B, ShardByPrefix keys maxSize = Some (L, B) /\ shard_spec_unordered keys maxSize L B.
Proof.
  intros Hne Hok Hms. unfold ShardByPrefix. rewrite (FirstDiffBits_exact keys Hne Hok).
  assert (Hlen : (0 < length keys)%nat) by (destruct keys; [congruence|cbn [length]; lia]).
  replace (zlen (spec_FirstDiffBits keys) + 1) with (Z.of_nat (length keys))
    by (unfold zlen; rewrite (fd_length keys); lia).
  destruct (dfs_total keys Hok maxSize Hms (S (length keys)) 0 (length keys) Hlen (le_n _) ltac:(lia) ([], [0]))
    as (ts & Hd & Hc).
  change (Z.of_nat 0) with 0 in Hd. rewrite Hd.
  exists (outL ts), (outB 0 ts). split; [reflexivity|].
  pose proof (bounds_chain keys maxSize ts 0%nat (length keys) Hc) as Hb.
  pose proof (lcps_chain keys maxSize ts 0%nat (length keys) Hc (le_n _)) as Hl.
  apply bounds_okb_spec in Hb. destruct Hb as (k & Hk & H0 & Hlast & Hst).
  assert (HB : length (outB 0 ts) = S (length (outL ts))).
  { unfold outB, outL. cbn [length]. now rewrite !map_length. }
  assert (k = length (outL ts)) by lia. subst k.
  rewrite (lcp_lengths_spec keys _ _ HB) in Hl.
  unfold shard_spec_unordered. repeat split; try assumption; try (apply (Hst j H)). now apply Hl.
Qed.

Lemma shard_spec_unordered_of_spec keys maxSize L B :
  shard_spec keys maxSize L B -> shard_spec_unordered keys maxSize L B.
Proof. intros (A & B0 & C & D & _). split; [exact A|]. split; [exact B0|]. split; [exact C|exact D]. Qed.
