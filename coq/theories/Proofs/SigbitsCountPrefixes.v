(** C16, second half: countPrefixes / SigBits.CountPrefixes return the
    smallest first-difference bit of the range and, for every width, the number
    of distinct truncations of the keys' bit strings.

    Route: (1) slicing the first-difference list = first differences of the
    sub-range; (2) the code's min / histogram / prefix sums compute
    [1 + #{d | d < m0 + i}]; (3) for a strictly ascending list of bit strings
    the number of distinct [k]-truncations is [1 + #{adjacent pairs with
    lcp < k}]. *)
From Coq Require Import ZArith List Lia Bool.
From Low Require Import Lib.MachInt Lib.Bits Lib.BitSeq Lib.Lex Lib.Bytes Lib.LexExtra_sig Lib.LexLemmas_bw
  Model.Sigbits Spec.SigbitsSpec Proofs.SigbitsFirstDiff.
Import ListNotations.
Open Scope Z_scope.

(** * adjacent pairs and sub-ranges *)
Lemma adj_pairs_skipn {A} n : forall l : list A, adj_pairs (skipn n l) = skipn n (adj_pairs l).
Proof.
  induction n as [|n IH]; intros l; [reflexivity|].
  destruct l as [|a l]; [reflexivity|].
  destruct l as [|b t].
  - cbn [skipn adj_pairs]. now rewrite skipn_nil.
  - rewrite adj_pairs_cons2. cbn [skipn]. apply IH.
Qed.

Lemma adj_pairs_firstn {A} n : forall l : list A, adj_pairs (firstn (S n) l) = firstn n (adj_pairs l).
Proof.
  induction n as [|n IH]; intros l.
  - destruct l as [|a [|b t]]; reflexivity.
  - destruct l as [|a [|b t]]; try reflexivity.
    replace (firstn (S (S n)) (a :: b :: t)) with (a :: b :: firstn n t) by reflexivity.
    rewrite !adj_pairs_cons2.
    replace (b :: firstn n t) with (firstn (S n) (b :: t)) by reflexivity.
    rewrite IH. reflexivity.
Qed.

Lemma adj_pairs_length {A} (l : list A) : length (adj_pairs l) = (length l - 1)%nat.
Proof.
  induction l as [|a l IH]; [reflexivity|].
  destruct l as [|b t]; [reflexivity|].
  rewrite adj_pairs_cons2. cbn [length] in *. lia.
Qed.

Lemma adj_pairs_map {A B} (f : A -> B) (l : list A) :
  adj_pairs (map f l) = map (fun p => (f (fst p), f (snd p))) (adj_pairs l).
Proof.
  induction l as [|a l IH]; [reflexivity|].
  destruct l as [|b t]; [reflexivity|].
  rewrite adj_pairs_cons2. cbn [map] in *. rewrite adj_pairs_cons2. cbn [fst snd]. now rewrite IH.
Qed.

Lemma In_firstn {A} n : forall (l : list A) x, In x (firstn n l) -> In x l.
Proof.
  induction n as [|n IH]; intros l x H; [destruct H|].
  destruct l as [|a l]; [destruct H|]. cbn in H. destruct H as [->|H]; [now left|right; now apply IH].
Qed.

Lemma In_skipn {A} n : forall (l : list A) x, In x (skipn n l) -> In x l.
Proof.
  induction n as [|n IH]; intros l x H; [exact H|].
  destruct l as [|a l]; [destruct H|]. right. now apply IH.
Qed.

Lemma spec_FirstDiffBits_length keys : zlen (spec_FirstDiffBits keys) = Z.max 0 (zlen keys - 1).
Proof. unfold spec_FirstDiffBits, zlen. rewrite map_length, adj_pairs_length. lia. Qed.

(** the first differences of [keys[s:e]] are the slice [s, e-1) of those of [keys] *)
Lemma spec_FirstDiffBits_sub keys s e : 0 <= s -> s + 1 <= e ->
  spec_FirstDiffBits (sub_keys keys s e) =
  firstn (Z.to_nat (e - 1 - s)) (skipn (Z.to_nat s) (spec_FirstDiffBits keys)).
Proof.
  intros Hs He. unfold spec_FirstDiffBits, sub_keys.
  replace (Z.to_nat (e - s)) with (S (Z.to_nat (e - 1 - s))) by lia.
  rewrite adj_pairs_firstn, adj_pairs_skipn. now rewrite skipn_map, firstn_map.
Qed.

Lemma sliceZ_firstdiffs keys s e : 0 <= s -> s + 1 <= e -> e <= zlen keys ->
  sliceZ (spec_FirstDiffBits keys) s (e - 1) = Some (spec_FirstDiffBits (sub_keys keys s e)).
Proof.
  intros Hs He Hl. unfold sliceZ. rewrite spec_FirstDiffBits_length.
  destruct (Z.leb_spec 0 s); [|lia]. destruct (Z.leb_spec s (e - 1)); [|lia].
  destruct (Z.leb_spec (e - 1) (Z.max 0 (zlen keys - 1))); [|lia]. cbn [andb].
  now rewrite spec_FirstDiffBits_sub by lia.
Qed.

Lemma strict_asc_sub keys s e : strict_asc keys -> strict_asc (sub_keys keys s e).
Proof.
  unfold strict_asc, sub_keys. intros H p Hp. apply H.
  destruct (Z.to_nat (e - s)) as [|n]; [destruct Hp|].
  rewrite adj_pairs_firstn, adj_pairs_skipn in Hp.
  eapply In_skipn, In_firstn, Hp.
Qed.

Lemma keys_ok_sub keys s e : keys_ok keys -> keys_ok (sub_keys keys s e).
Proof. unfold keys_ok, sub_keys. intros H. now apply Forall_firstn, Forall_skipn. Qed.

Lemma sub_keys_length {A} (keys : list A) s e : 0 <= s -> s <= e -> e <= zlen keys ->
  zlen (sub_keys keys s e) = e - s.
Proof.
  intros Hs He Hl. unfold sub_keys, zlen in *. rewrite firstn_length, skipn_length. lia.
Qed.

Lemma keys_okb_ok keys : keys_okb keys = true -> keys_ok keys.
Proof.
  unfold keys_okb, keys_ok. rewrite forallb_forall, Forall_forall.
  intros H k Hk. apply bytes_okb_ok. now apply H.
Qed.

Lemma strict_ascb_ok keys : strict_ascb keys = true -> strict_asc keys.
Proof.
  unfold strict_ascb, strict_asc. rewrite forallb_forall. intros H p Hp. specialize (H p Hp).
  destruct (bytes_cmp (fst p) (snd p)); congruence.
Qed.

(** * the code: min, histogram, prefix sums *)
Fixpoint count_if (f : Z -> bool) (ds : list Z) : Z :=
  match ds with [] => 0 | d :: t => (if f d then 1 else 0) + count_if f t end.
Definition count_lt (k : Z) (ds : list Z) : Z := count_if (fun d => d <? k) ds.
Fixpoint sumz (l : list Z) : Z := match l with [] => 0 | x :: t => x + sumz t end.

Lemma count_if_ext f g ds : (forall d, In d ds -> f d = g d) -> count_if f ds = count_if g ds.
Proof.
  induction ds as [|d t IH]; intros H; [reflexivity|].
  cbn [count_if]. rewrite (H d) by now left. rewrite IH; [reflexivity|]. intros x Hx. apply H. now right.
Qed.

Lemma count_if_nonneg f ds : 0 <= count_if f ds.
Proof. induction ds as [|d t IH]; cbn [count_if]; [lia|]. destruct (f d); lia. Qed.

Lemma fold_min_if t : forall x,
  fold_left (fun min d => if min >? d then d else min) t x = fold_left Z.min t x.
Proof.
  induction t as [|d t IH]; intros x; [reflexivity|]. cbn [fold_left].
  replace (if x >? d then d else x) with (Z.min x d) by (destruct (Z.gtb_spec x d); lia). apply IH.
Qed.

Lemma cp_min_list_min ds : ds <> [] -> hd 0 ds <= 2147483647 -> cp_min ds = list_min ds.
Proof.
  destruct ds as [|x t]; [congruence|]. intros _ Hx. cbn [hd] in Hx.
  unfold cp_min, list_min. rewrite fold_min_if. cbn [fold_left]. f_equal. lia.
Qed.

Lemma fold_min_lower t : forall x,
  fold_left Z.min t x <= x /\ Forall (fun d => fold_left Z.min t x <= d) t.
Proof.
  induction t as [|d t IH]; intros x; cbn [fold_left]; [split; [lia|constructor]|].
  destruct (IH (Z.min x d)) as [H1 H2]. split; [lia|]. constructor; [lia|exact H2].
Qed.

Lemma fold_min_In t : forall x, fold_left Z.min t x = x \/ In (fold_left Z.min t x) t.
Proof.
  induction t as [|d t IH]; intros x; cbn [fold_left]; [now left|].
  destruct (IH (Z.min x d)) as [H|H]; [|right; now right].
  destruct (Z.min_spec x d) as [[_ E]|[_ E]]; rewrite E in *.
  - now left.
  - right. left. congruence.
Qed.

Lemma list_min_lower ds : Forall (fun d => list_min ds <= d) ds.
Proof.
  destruct ds as [|x t]; [constructor|]. unfold list_min.
  destruct (fold_min_lower t x). now constructor.
Qed.

Lemma list_min_In ds : ds <> [] -> In (list_min ds) ds.
Proof.
  destruct ds as [|x t]; [congruence|]. intros _. unfold list_min.
  destruct (fold_min_In t x) as [H|H]; [left; congruence|now right].
Qed.

Lemma incr_at_ok : forall l n, (n < length l)%nat ->
  exists l', incr_at l n = Some l' /\ length l' = length l /\
    forall j, nth j l' 0 = nth j l 0 + (if Nat.eqb j n then 1 else 0).
Proof.
  induction l as [|x t IH]; intros n Hn; [cbn in Hn; lia|].
  destruct n as [|n].
  - exists ((x + 1) :: t). split; [reflexivity|]. split; [reflexivity|].
    intros [|j]; cbn [nth Nat.eqb]; lia.
  - cbn [length] in Hn. destruct (IH n ltac:(lia)) as (t' & E & L & N).
    exists (x :: t'). cbn [incr_at]. rewrite E. split; [reflexivity|]. split; [cbn [length]; lia|].
    intros [|j]; cbn [nth Nat.eqb]; [lia|apply N].
Qed.

Lemma cp_hist_ok ds : forall min m counts,
  Forall (fun d => min <= d) ds -> Z.of_nat (length counts) = m - 1 ->
  exists counts', cp_hist ds min m counts = Some counts' /\ length counts' = length counts /\
    forall j, (j < length counts)%nat ->
      nth j counts' 0 = nth j counts 0 + count_if (fun d => d - min =? Z.of_nat j) ds.
Proof.
  induction ds as [|d t IH]; intros min m counts Hlow Hlen.
  - exists counts. split; [reflexivity|]. split; [reflexivity|]. intros j _. cbn [count_if]. lia.
  - inversion Hlow as [|? ? Hd Ht]; subst. cbn [cp_hist count_if].
    destruct (Z.ltb_spec (d - min) (m - 1)) as [Hin|Hout].
    + unfold incr_atZ. destruct (Z.ltb_spec (d - min) 0); [lia|].
      destruct (incr_at_ok counts (Z.to_nat (d - min)) ltac:(lia)) as (c1 & E & L & N).
      rewrite E. destruct (IH min m c1 Ht ltac:(lia)) as (c2 & E2 & L2 & N2).
      exists c2. split; [exact E2|]. split; [lia|].
      intros j Hj. rewrite N2 by lia. rewrite N.
      destruct (Nat.eqb_spec j (Z.to_nat (d - min))); destruct (Z.eqb_spec (d - min) (Z.of_nat j)); lia.
    + destruct (IH min m counts Ht Hlen) as (c2 & E2 & L2 & N2).
      exists c2. split; [exact E2|]. split; [exact L2|].
      intros j Hj. rewrite N2 by lia.
      destruct (Z.eqb_spec (d - min) (Z.of_nat j)); lia.
Qed.

Lemma cp_sums_length counts : forall last, length (cp_sums last counts) = S (length counts).
Proof.
  induction counts as [|c t IH]; intros last; [reflexivity|].
  cbn [cp_sums length]. now rewrite IH.
Qed.

Lemma cp_sums_nth counts : forall last i, (i <= length counts)%nat ->
  nth i (cp_sums last counts) 0 = last + sumz (firstn i counts).
Proof.
  induction counts as [|c t IH]; intros last i Hi.
  - cbn [length] in Hi. replace i with 0%nat by lia. cbn. lia.
  - destruct i as [|i]; [cbn; lia|].
    cbn [cp_sums nth firstn sumz].
    cbn [length] in Hi. rewrite IH by lia. lia.
Qed.

Lemma sumz_app a b : sumz (a ++ b) = sumz a + sumz b.
Proof. induction a as [|x a IH]; cbn [app sumz]; lia. Qed.

Lemma firstn_snoc_nth {A} (d : A) : forall i l, (i < length l)%nat ->
  firstn (S i) l = firstn i l ++ [nth i l d].
Proof.
  induction i as [|i IH]; intros l Hi; (destruct l as [|x l]; [cbn in Hi; lia|]).
  - reflexivity.
  - cbn [length] in Hi. cbn [firstn nth app]. f_equal. rewrite <- IH by lia. reflexivity.
Qed.

Lemma count_if_lt_succ ds mn i :
  count_if (fun d => d - mn <? Z.of_nat (S i)) ds =
  count_if (fun d => d - mn <? Z.of_nat i) ds + count_if (fun d => d - mn =? Z.of_nat i) ds.
Proof.
  induction ds as [|d t IH]; [reflexivity|]. cbn [count_if]. rewrite IH.
  destruct (Z.ltb_spec (d - mn) (Z.of_nat (S i))); destruct (Z.ltb_spec (d - mn) (Z.of_nat i));
    destruct (Z.eqb_spec (d - mn) (Z.of_nat i)); lia.
Qed.

Lemma count_if_lt_zero ds mn : Forall (fun d => mn <= d) ds -> count_if (fun d => d - mn <? 0) ds = 0.
Proof.
  induction 1 as [|d t Hd Ht IH]; [reflexivity|]. cbn [count_if]. rewrite IH.
  destruct (Z.ltb_spec (d - mn) 0); lia.
Qed.

(** the prefix sums of the histogram count the differences below each width *)
Lemma sumz_hist ds mn counts : Forall (fun d => mn <= d) ds ->
  (forall j, (j < length counts)%nat -> nth j counts 0 = count_if (fun d => d - mn =? Z.of_nat j) ds) ->
  forall i, (i <= length counts)%nat ->
  sumz (firstn i counts) = count_if (fun d => d - mn <? Z.of_nat i) ds.
Proof.
  intros Hlow Hc. induction i as [|i IH]; intros Hi.
  - cbn [firstn sumz]. change (Z.of_nat 0) with 0. now rewrite count_if_lt_zero.
  - rewrite (firstn_snoc_nth 0) by lia. rewrite sumz_app, IH by lia.
    rewrite count_if_lt_succ. rewrite Hc by lia. cbn [sumz]. lia.
Qed.

Lemma list_eq_map_seq (f : nat -> Z) n : forall l, length l = n ->
  (forall i, (i < n)%nat -> nth i l 0 = f i) -> l = map f (seq 0 n).
Proof.
  intros l Hl H. apply (nth_ext l (map f (seq 0 n)) 0 (f 0%nat)).
  - now rewrite map_length, seq_length.
  - intros i Hi. rewrite Hl in Hi. rewrite map_nth, seq_nth by exact Hi. now apply H.
Qed.

Lemma nth_repeat_0 n j : nth j (repeat 0 n) 0 = 0.
Proof.
  revert j. induction n as [|n IH]; intros [|j]; cbn [repeat nth]; auto.
Qed.

(** countPrefixes on any non-empty list of differences in int32 range *)
Lemma countPrefixes_exact ds m : ds <> [] -> hd 0 ds <= 2147483647 -> 1 <= m ->
  countPrefixes ds m =
  Some (list_min ds, map (fun i => 1 + count_lt (list_min ds + Z.of_nat i) ds) (seq 0 (Z.to_nat m))).
Proof.
  intros Hne Hhd Hm. unfold countPrefixes. rewrite (cp_min_list_min ds Hne Hhd).
  destruct (Z.ltb_spec (m - 1) 0); [lia|].
  set (mn := list_min ds).
  destruct (cp_hist_ok ds mn m (repeat 0 (Z.to_nat (m - 1))) (list_min_lower ds)
              ltac:(rewrite repeat_length; lia)) as (c & E & L & N).
  rewrite E. rewrite repeat_length in L. f_equal. f_equal.
  apply list_eq_map_seq.
  - rewrite cp_sums_length. lia.
  - intros i Hi. rewrite cp_sums_nth by lia.
    rewrite (sumz_hist ds mn c (list_min_lower ds)).
    + f_equal. unfold count_lt. apply count_if_ext. intros d _.
      destruct (Z.ltb_spec (d - mn) (Z.of_nat i)); destruct (Z.ltb_spec d (mn + Z.of_nat i)); lia.
    + intros j Hj. rewrite N by (rewrite repeat_length; lia). rewrite nth_repeat_0. lia.
    + lia.
Qed.

(** * the specification: distinct truncations of a strictly ascending list *)
Definition lcpn (x y : list bool) : Z := zlen (lcp_bits x y).
Definition bsorted (bs : list (list bool)) : Prop :=
  forall p, In p (adj_pairs bs) -> bits_cmp (fst p) (snd p) = Lt.

Lemma bsorted_cons2 x y t : bsorted (x :: y :: t) -> bits_cmp x y = Lt /\ bsorted (y :: t).
Proof.
  unfold bsorted. intros H. split.
  - apply (H (x, y)). rewrite adj_pairs_cons2. now left.
  - intros p Hp. apply H. rewrite adj_pairs_cons2. now right.
Qed.

Lemma bits_lt_trans a b c : bits_cmp a b = Lt -> bits_cmp b c = Lt -> bits_cmp a c = Lt.
Proof. apply (lex_lt_trans bool_cmp bool_cmp_eq bool_cmp_lt_trans). Qed.

Lemma bits_lt_neq a b : bits_cmp a b = Lt -> a <> b.
Proof. apply (lex_lt_neq bool_cmp bool_cmp_eq). Qed.

Lemma bsorted_head_lt t : forall x, bsorted (x :: t) -> forall z, In z t -> bits_cmp x z = Lt.
Proof.
  induction t as [|y t IH]; intros x H z Hz; [destruct Hz|].
  destruct (bsorted_cons2 x y t H) as [Hxy Hs].
  destruct Hz as [->|Hz]; [exact Hxy|].
  eapply bits_lt_trans; [exact Hxy|]. now apply IH.
Qed.

(** the truncation of the head is repeated later iff it is repeated by its neighbour
    iff their common prefix reaches the width *)
Lemma head_trunc_in k x y t : bsorted (x :: y :: t) ->
  In (firstn k x) (map (firstn k) (y :: t)) <-> (k <= length (lcp_bits x y))%nat.
Proof.
  intros H. destruct (bsorted_cons2 x y t H) as [Hxy Hs]. split.
  - intros Hin. apply in_map_iff in Hin. destruct Hin as (z & Ez & Hz).
    destruct Hz as [->|Hz].
    + apply (trunc_eq_lcp Bool.eqb bool_eqb_spec); [now symmetry|now apply bits_lt_neq].
    + pose proof (bsorted_head_lt t y Hs z Hz) as Hyz.
      pose proof (bits_lt_trans _ _ _ Hxy Hyz) as Hxz.
      pose proof (trunc_eq_lcp Bool.eqb bool_eqb_spec k x z (eq_sym Ez) (bits_lt_neq _ _ Hxz)) as Hk.
      pose proof (lcp_sorted3 bool_cmp Bool.eqb bool_eqb_spec bool_cmp_eq bool_cmp_lt_trans x y z Hxy Hyz) as H3.
      unfold lcp_bits. lia.
  - intros Hk. left. symmetry. now apply (lcp_ge_trunc_eq Bool.eqb bool_eqb_spec).
Qed.

Lemma count_trunc_cons k x bs :
  count_trunc k (x :: bs) =
  count_trunc k bs +
  (if in_dec bits_eq_dec (firstn (Z.to_nat k) x) (map (firstn (Z.to_nat k)) bs) then 0 else 1).
Proof.
  unfold count_trunc. cbn [map nodup].
  destruct (in_dec bits_eq_dec (firstn (Z.to_nat k) x) (map (firstn (Z.to_nat k)) bs)); [lia|].
  unfold zlen. cbn [length]. lia.
Qed.

Lemma count_trunc_sorted k bs : bsorted bs -> bs <> [] ->
  count_trunc k bs = 1 + count_lt k (map (fun p => lcpn (fst p) (snd p)) (adj_pairs bs)).
Proof.
  induction bs as [|x bs IH]; intros Hs Hne; [congruence|].
  destruct bs as [|y t].
  - rewrite count_trunc_cons. cbn [map].
    destruct (in_dec bits_eq_dec (firstn (Z.to_nat k) x) []) as [[]|_]. reflexivity.
  - rewrite count_trunc_cons. destruct (bsorted_cons2 x y t Hs) as [Hxy Hs'].
    rewrite IH by (auto; discriminate).
    pose proof (head_trunc_in (Z.to_nat k) x y t Hs) as Hiff.
    set (L := map (firstn (Z.to_nat k)) (y :: t)) in *.
    rewrite adj_pairs_cons2. cbn [map fst snd]. unfold count_lt at 2. cbn [count_if].
    fold (count_lt k (map (fun p => lcpn (fst p) (snd p)) (adj_pairs (y :: t)))).
    unfold lcpn at 2. unfold zlen.
    destruct (in_dec bits_eq_dec (firstn (Z.to_nat k) x) L) as [Hin|Hnin].
    + apply Hiff in Hin. destruct (Z.ltb_spec (Z.of_nat (length (lcp_bits x y))) k); lia.
    + destruct (Z.ltb_spec (Z.of_nat (length (lcp_bits x y))) k); [lia|].
      exfalso. apply Hnin, Hiff. lia.
Qed.

(** * assembling *)
Lemma bsorted_msb ks : keys_ok ks -> strict_asc ks -> bsorted (map msb_bits ks).
Proof.
  intros Hok Hs p Hp. rewrite adj_pairs_map in Hp. apply in_map_iff in Hp.
  destruct Hp as ([a b] & <- & Hab). cbn [fst snd].
  assert (Ha : In a ks /\ In b ks).
  { clear -Hab. induction ks as [|u ks IH]; [destruct Hab|].
    destruct ks as [|v t]; [destruct Hab|]. rewrite adj_pairs_cons2 in Hab.
    destruct Hab as [E|Hab]; [injection E as -> ->; split; [now left|right; now left]|].
    destruct (IH Hab). split; now right. }
  unfold keys_ok in Hok. rewrite Forall_forall in Hok.
  rewrite <- bytes_cmp_msb_bits by (apply Hok; tauto).
  apply (Hs (a, b) Hab).
Qed.

Lemma spec_FirstDiffBits_bits ks :
  spec_FirstDiffBits ks = map (fun p => lcpn (fst p) (snd p)) (adj_pairs (map msb_bits ks)).
Proof.
  unfold spec_FirstDiffBits. rewrite adj_pairs_map, map_map. reflexivity.
Qed.

Lemma first_diff_bit_le_l a b : first_diff_bit a b <= 8 * zlen a.
Proof.
  unfold first_diff_bit, zlen, lcp_bits.
  pose proof (lcp_length_l Bool.eqb (msb_bits a) (msb_bits b)) as H.
  rewrite msb_bits_length in H. lia.
Qed.

Lemma first_diff_bit_nonneg a b : 0 <= first_diff_bit a b.
Proof. unfold first_diff_bit, zlen. lia. Qed.

(** Go's int32 holds every bit position of every key *)
Definition keys_i32 (keys : list (list Z)) : Prop := Forall (fun k => 8 * zlen k <= 2147483647) keys.

Lemma keys_i32_sub keys s e : keys_i32 keys -> keys_i32 (sub_keys keys s e).
Proof. unfold keys_i32, sub_keys. intros H. now apply Forall_firstn, Forall_skipn. Qed.

(** the specification in the words of the code's result, for any strictly ascending key list *)
Lemma spec_CountPrefixes_counts keys s e m :
  keys_ok keys -> strict_asc keys -> 0 <= s -> s + 1 <= e -> e <= zlen keys ->
  spec_CountPrefixes keys s e m =
  let ds := spec_FirstDiffBits (sub_keys keys s e) in
  (list_min ds, map (fun i => 1 + count_lt (list_min ds + Z.of_nat i) ds) (seq 0 (Z.to_nat m))).
Proof.
  intros Hok Hasc Hs He Hl. unfold spec_CountPrefixes. cbv zeta. f_equal.
  apply map_ext. intros i.
  set (ks := sub_keys keys s e).
  rewrite (spec_FirstDiffBits_bits ks).
  apply count_trunc_sorted.
  - apply bsorted_msb; [now apply keys_ok_sub|now apply strict_asc_sub].
  - intros E. apply (f_equal (@length _)) in E. rewrite map_length in E.
    pose proof (sub_keys_length keys s e Hs ltac:(lia) Hl) as L. unfold zlen in L. fold ks in L.
    cbn [length] in E. lia.
Qed.

Theorem countPrefixes_sub_exact keys s e m :
  keys_ok keys -> strict_asc keys -> keys_i32 keys ->
  0 <= s -> s + 2 <= e -> e <= zlen keys -> 1 <= m ->
  countPrefixes (spec_FirstDiffBits (sub_keys keys s e)) m = Some (spec_CountPrefixes keys s e m).
Proof.
  intros Hok Hasc H32 Hs He Hl Hm.
  rewrite (spec_CountPrefixes_counts keys s e m Hok Hasc Hs ltac:(lia) Hl). cbv zeta.
  pose proof (sub_keys_length keys s e Hs ltac:(lia) Hl) as L.
  pose proof (keys_i32_sub keys s e H32) as H32'.
  destruct (sub_keys keys s e) as [|a [|b t]] eqn:Ek; unfold zlen in L; cbn [length] in L; try lia.
  apply countPrefixes_exact; [discriminate| |exact Hm].
  unfold spec_FirstDiffBits. rewrite adj_pairs_cons2. cbn [map hd fst snd].
  inversion H32' as [|? ? Ha _]; subst.
  pose proof (first_diff_bit_le_l a b). lia.
Qed.

(** the SigBits methods wrapper: New precomputes, CountPrefixes slices *)
Theorem CountPrefixes_exact keys s e m :
  keys_ok keys -> strict_asc keys -> keys_i32 keys ->
  0 <= s -> s + 2 <= e -> e <= zlen keys -> 1 <= m ->
  exists sb, New keys = Some sb /\ sb_keys sb = keys /\ sb_sigbits sb = spec_FirstDiffBits keys /\
             CountPrefixes sb s e m = Some (spec_CountPrefixes keys s e m).
Proof.
  intros Hok Hasc H32 Hs He Hl Hm.
  assert (Hne : keys <> []) by (intros ->; unfold zlen in Hl; cbn [length] in Hl; lia).
  exists {| sb_keys := keys; sb_sigbits := spec_FirstDiffBits keys |}.
  unfold New. rewrite (FirstDiffBits_exact keys Hne Hok).
  split; [reflexivity|]. split; [reflexivity|]. split; [reflexivity|].
  unfold CountPrefixes. cbn [sb_sigbits].
  rewrite (sliceZ_firstdiffs keys s e Hs ltac:(lia) Hl).
  now apply countPrefixes_sub_exact.
Qed.

(** what the returned pair says, clause by clause *)
Theorem spec_CountPrefixes_meaning keys s e m : 0 <= m ->
  let ks := sub_keys keys s e in
  let m0 := fst (spec_CountPrefixes keys s e m) in
  let cs := snd (spec_CountPrefixes keys s e m) in
  m0 = list_min (spec_FirstDiffBits ks) /\
  zlen cs = m /\
  forall i, (i < Z.to_nat m)%nat ->
    nth i cs 0 = zlen (nodup bits_eq_dec (map (fun k => firstn (Z.to_nat (m0 + Z.of_nat i)) (msb_bits k)) ks)).
Proof.
  intros Hm. cbv zeta. unfold spec_CountPrefixes. cbn [fst snd].
  split; [reflexivity|]. split; [unfold zlen; rewrite map_length, seq_length; lia|].
  intros i Hi.
  set (f := fun i0 : nat => count_trunc (list_min (spec_FirstDiffBits (sub_keys keys s e)) + Z.of_nat i0)
                              (map msb_bits (sub_keys keys s e))).
  rewrite (nth_indep (map f (seq 0 (Z.to_nat m))) 0 (f 0%nat)) by (now rewrite map_length, seq_length).
  rewrite map_nth. rewrite seq_nth by exact Hi.
  unfold f, count_trunc. now rewrite map_map.
Qed.

(** the minimum is attained by a pair of the range and bounds all of them *)
Theorem list_min_meaning ds : ds <> [] -> In (list_min ds) ds /\ forall d, In d ds -> list_min ds <= d.
Proof.
  intros Hne. split; [now apply list_min_In|].
  pose proof (list_min_lower ds) as H. rewrite Forall_forall in H. exact H.
Qed.
