(** The boolean domain check and checkers of Run/C04.v against the hypotheses and
    conclusions of the C04 theorems: what the correspondence run evaluates is what
    the theorems state. *)
From Coq Require Import ZArith List Lia Bool Sorting.Sorted.
From Low Require Import Lib.MachInt Lib.Bits Lib.BitSeq Lib.Lex Lib.Bytes Lib.Val Lib.BitsExtra_bm2
  Lib.SortedZ_tree4 Spec.Bmtree Spec.AllPathsSpec Spec.OfSpec
  Model.BmtreePath Model.BmtreeIndex Model.BmtreeAllPaths Model.BitmapOf
  Proofs.BmtreePathProofs Proofs.BmtreeRankSpec Proofs.BmtreeIndexProofs Proofs.OfProofs
  Proofs.BmtreeAllPathsProofs Proofs.BmtreeDecodeProofs Proofs.BmtreeAllPathsLaws Proofs.BmtreeWinProofs Proofs.BmtreeDecodeDebugProofs Proofs.BmtreeDecodeFast Run.C04.
Import ListNotations.
Open Scope Z_scope.

(** adjacent pairs ascending => strongly sorted (pre_lt is transitive) *)
Lemma c04_sorted_strong : forall l, c04_sorted l = true -> StronglySorted pre_lt l.
Proof.
  induction l as [|a l IH]; intros H; [constructor|].
  destruct l as [|b l]; [constructor; constructor|].
  cbn [c04_sorted] in H. apply andb_true_iff in H. destruct H as (Hab & Hs).
  specialize (IH Hs). constructor; [exact IH|].
  apply pre_ltb_iff in Hab. constructor; [exact Hab|].
  inversion IH as [|? ? _ Hb]; subst. eapply Forall_impl; [|exact Hb].
  intros c Hc. exact (pre_lt_trans a b c Hab Hc).
Qed.

(** the domain check of the round-trip operation is the hypothesis of C04_roundtrip *)
Lemma c04_sub_ok_sub_nodes T ss : 1 <= T < 2 ^ 31 -> c04_sub_ok T ss = true ->
  sub_nodes T (Z.to_nat (Height T)) ss.
Proof.
  intros HT H. unfold c04_sub_ok in H. apply andb_true_iff in H. destruct H as (Hall & Hs).
  split; [now apply c04_sorted_strong|].
  intros q Hq. rewrite forallb_forall in Hall. specialize (Hall q Hq).
  apply andb_true_iff in Hall. destruct Hall as (Hl & Hst). apply Z.leb_le in Hl.
  pose proof (Height_range T HT). unfold zlen in Hl. split; [lia|exact Hst].
Qed.

(** the word the two sides build with NewPath is [enc] *)
Lemma c04_word_enc T q : 1 <= T < 2 ^ 31 -> (length q <= Z.to_nat (Height T))%nat ->
  c04_word T q = enc (Z.to_nat (Height T)) q.
Proof.
  intros HT Hl. pose proof (Height_range T HT) as Hh. unfold c04_word, zlen.
  rewrite <- (NewPath_enc (Z.to_nat (Height T)) q) by lia.
  now rewrite Z2Nat.id by lia.
Qed.

(** the release-build model of the round-trip operation returns the words of the sub-list *)
Lemma c04_roundtrip_model T ss : 1 <= T < 2 ^ 31 -> c04_sub_ok T ss = true ->
  c04_roundtrip false T ss = Some (map (enc (c04_h T)) ss).
Proof.
  intros HT Hok. pose proof (c04_sub_ok_sub_nodes T ss HT Hok) as Hsub.
  destruct (roundtrip_total T ss HT Hsub) as (idxs & bm & E & EOf & ED).
  unfold c04_roundtrip, c04_h.
  rewrite (map_ext_in _ (fun q => PathToIndex T (enc (Z.to_nat (Height T)) q))).
  2:{ intros q Hq. rewrite c04_word_enc; [reflexivity|exact HT|]. now apply (proj2 Hsub). }
  rewrite E.
  assert (Ho : opt_all (map Some idxs) = Some idxs).
  { clear. induction idxs as [|a l IH]; cbn [map opt_all]; [reflexivity|now rewrite IH]. }
  rewrite Ho, EOf. unfold c04_dec. destruct (Height T <=? 10); [exact ED|].
  rewrite <- ED. symmetry. apply decode_fast; [exact HT|].
  exact (roundtrip_bm_len T ss idxs bm HT Hsub E EOf).
Qed.

(** * on every in-domain case the model side of an operation equals its specification side *)

Lemma c04_T_ok_range T : c04_T_ok T = true -> 1 <= T < 2 ^ 31.
Proof. unfold c04_T_ok. rewrite andb_true_iff, Z.leb_le, Z.ltb_lt. tauto. Qed.

Lemma c04_u64_range x : c04_u64 x = true -> 0 <= x < 2 ^ 64.
Proof. unfold c04_u64. rewrite andb_true_iff, Z.leb_le, Z.ltb_lt. tauto. Qed.

Lemma c04_h_le T : 1 <= T < 2 ^ 31 -> (c04_h T <= 32)%nat.
Proof. intros HT. pose proof (Height_range T HT). unfold c04_h. lia. Qed.

Lemma c04_op_allpaths T f t : c04_T_ok T = true -> c04_u64 f = true -> c04_u64 t = true ->
  c04_win_ok T f t = true ->
  c04_run_allpaths [VZ T; VZ f; VZ t] = c04_spec_allpaths [VZ T; VZ f; VZ t].
Proof.
  intros HT Hf Ht Hw. unfold c04_run_allpaths, c04_spec_allpaths. cbn [as_z].
  rewrite HT, Hf, Ht, Hw. cbn [andb].
  apply c04_T_ok_range in HT. apply c04_u64_range in Hf, Ht.
  rewrite allpaths_correct by assumption. unfold c04_h. rewrite check_allpaths_eq; [reflexivity|].
  now apply c04_h_le.
Qed.


Lemma c04_op_decode (dbg : bool) T bm : c04_T_ok T = true -> c04_dec_ok T = true -> words_okb bm = true ->
  zlen bm < 2 ^ 31 ->
  c04_run_decode_b dbg [VZ T; vzs bm] = c04_spec_decode [VZ T; vzs bm].
Proof.
  intros HT Hd Hb Hl. unfold c04_run_decode_b, c04_spec_decode. cbn [as_z].
  assert (Ez : as_zs (vzs bm) = Some bm).
  { unfold as_zs, vzs. rewrite map_map. cbn [as_z]. clear. induction bm as [|a l IH]; cbn [map opt_all]; [reflexivity|].
    now rewrite IH. }
  rewrite Ez, HT, Hd, Hb. cbn [andb]. apply c04_T_ok_range in HT.
  assert (E : c04_dec dbg T bm = Some (check_decode T (c04_h T) bm)).
  { unfold c04_dec, c04_h. rewrite check_decode_eq by exact HT.
    destruct (Height T <=? 10).
    - destruct dbg; [rewrite decode_debug_eq by exact HT|]; now apply decode_correct.
    - f_equal. apply fast_decode_spec, T_range, HT. }
  now rewrite E.
Qed.
