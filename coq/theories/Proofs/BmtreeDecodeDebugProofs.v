(** C04 widening: in the [-tags debug] build (github.com/openacid/must active) no contract of
    PathToIndex fires on a word produced by AllPaths, so Decode behaves as in the release build. *)
From Coq Require Import ZArith List Lia Bool.
From Low Require Import Lib.MachInt Lib.Bits Lib.BitSeq Lib.SortedZ_tree4 Spec.Bmtree Spec.AllPathsSpec
  Model.BmtreePath Model.BmtreeIndex Model.BmtreeAllPaths
  Proofs.BmtreePathProofs Proofs.BmtreeRankSpec Proofs.BmtreeIndexProofs Proofs.BmtreeContractProofs
  Proofs.BmtreeAllPathsProofs Proofs.BmtreeDecodeProofs.
Import ListNotations.
Open Scope Z_scope.

Lemma decode_loop_debug_ext T bm : forall paths,
  (forall p, In p paths -> PathToIndex_debug T p = PathToIndex T p) ->
  decode_loop_debug T bm paths = decode_loop T bm paths.
Proof.
  induction paths as [|p rest IH]; intros H; cbn [decode_loop_debug decode_loop]; [reflexivity|].
  rewrite (H p (or_introl eq_refl)), (IH (fun q Hq => H q (or_intror Hq))). reflexivity.
Qed.

(** every word of a stored node passes the contracts *)
Lemma stored_words_debug T w : 1 <= T < 2 ^ 31 -> In w (stored_words T (Z.to_nat (Height T))) ->
  PathToIndex_debug T w = PathToIndex T w.
Proof.
  intros HT Hw. apply stored_words_members in Hw. destruct Hw as (q & Hl & Hs & ->).
  exact (PathToIndex_debug_eq T _ q HT (Height_to_nat T HT) Hl Hs).
Qed.

Lemma allpaths_words_debug T from to l w : 1 <= T < 2 ^ 31 -> 0 <= from < 2 ^ 64 -> 0 <= to < 2 ^ 64 ->
  AllPaths T from to = Some l -> In w l -> PathToIndex_debug T w = PathToIndex T w.
Proof.
  intros HT Hf Ht E Hw. rewrite allpaths_correct in E by assumption. injection E as <-.
  unfold spec_allpaths in Hw. apply filter_In in Hw. apply stored_words_debug; tauto.
Qed.

Lemma decode_debug_eq T bm : 1 <= T < 2 ^ 31 -> Decode_debug T bm = Decode T bm.
Proof.
  intros HT. unfold Decode_debug, Decode. rewrite allpaths_full by exact HT.
  apply decode_loop_debug_ext. intros p Hp. now apply stored_words_debug.
Qed.
