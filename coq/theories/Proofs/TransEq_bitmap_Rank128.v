(** Equality of the definition generated from the Go source of bitmap.Rank128 (coq/gen/Trans.v) and the model. *)
From Coq Require Import ZArith List Lia Bool.
From Low Require Import Lib.MachInt Lib.Bits Lib.BitSeq Lib.TransLib Proofs.TransEqLemmas.
From LowGen Require Trans.
Import ListNotations.
Open Scope Z_scope.

From Low Require Model.Rank.

Definition wrap_count (r : Z * Z) : Z * Z := (i32 (fst r), snd r).

(** [(i+64)>>7] is computed in int32: hypothesis [i + 64] fits (true of every position of a bitmap of
    fewer than 2^31 - 64 bits); the count is the model's, wrapped to int32 *)
Lemma TransEq_bitmap_Rank128 ws rindex i : in_i32 (i + 64) ->
  Trans.bitmap_Rank128 ws rindex i = option_map wrap_count (Rank.Rank128 ws rindex i).
Proof.
  unfold in_i32. intros Hi. unfold Trans.bitmap_Rank128, Rank.Rank128. cbv zeta.
  rewrite (i32_id (i + 64)) by lia.
  rewrite !sar32_shiftr by lia.
  pose proof (land_63_range i) as Hj.
  rewrite (u32_id (Z.land i 63)) by lia.
  destruct (nthZ rindex (Z.shiftr (i + 64) 7)) as [n|]; [|reflexivity].
  destruct (nthZ ws (Z.shiftr i 6)) as [w|]; [|reflexivity].
  rewrite tblZ_in by lia.
  rewrite u64_id by lia. rewrite shr64_shiftr by lia.
  cbn [option_map]. unfold wrap_count. cbn [fst snd].
  rewrite i32_add_r, i32_mul_r, i32_sub_r, i32_add_l, land_i32_1. reflexivity.
Qed.

Lemma TransEq_bitmap_Rank128_fits ws rindex i c b : in_i32 (i + 64) ->
  Rank.Rank128 ws rindex i = Some (c, b) -> in_i32 c -> Trans.bitmap_Rank128 ws rindex i = Some (c, b).
Proof.
  intros Hi E Hc. rewrite TransEq_bitmap_Rank128 by exact Hi. rewrite E. cbn [option_map]. unfold wrap_count. cbn [fst snd].
  rewrite i32_id by exact Hc. reflexivity.
Qed.
