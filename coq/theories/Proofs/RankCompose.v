(** C01 widening (b): rank composed with the other readers of the package (ToArray, Get1), reusing the proofs
    of C12 (Proofs/OfInspect.v, Proofs/OfCompose.v); constant bitmaps. *)
From Coq Require Import ZArith List Lia Bool.
From Low Require Import Lib.MachInt Lib.Bits Lib.BitSeq
  Model.Rank Model.RankOps Model.BitmapOf Spec.RankSpec Spec.RankLawsSpec Spec.OfSpec Spec.OfQuerySpec
  Proofs.RankProofs Proofs.Rank32Proofs Proofs.RankLaws Proofs.OfInspect Proofs.OfCompose.
Import ListNotations.
Open Scope Z_scope.

(** the count is the number of elements of ToArray(words) below [i]; the bit says whether [i] is one of them *)
Theorem rank_ToArray f ws ta i r b : words_ok ws -> ToArray ws = Some ta ->
  query f ws i = Some (r, b) -> r = count_below ta i /\ b = Z.b2z (member ta i).
Proof.
  intros Hok HT Q. rewrite ToArray_exact in HT. injection HT as <-.
  pose proof (query_Some f ws i r b Hok Q) as (Hi & _ & _).
  destruct (query_by_ones ws _ Hok eq_refl i (64 * zlen ws) false ltac:(lia) ltac:(lia) ltac:(lia) ltac:(lia))
    as (R & _).
  rewrite (law_agree f (F64 false) ws i Hok) in Q. cbn [query] in Q. rewrite R in Q.
  injection Q as <- <-. split; reflexivity.
Qed.

(** the bit returned next to the count is what Get1 returns *)
Theorem rank_Get1 f ws i r b : words_ok ws -> query f ws i = Some (r, b) -> Get1 ws i = Some b.
Proof.
  intros Hok Q. pose proof (query_Some f ws i r b Hok Q) as (Hi & _ & ->).
  rewrite Get1_exact by exact Hi. reflexivity.
Qed.

(** constant bitmaps *)
Lemma flat_repeat w n : flat (repeat w n) = concat (repeat (bits 64 w) n).
Proof. induction n as [|n IH]; [reflexivity|]. cbn [repeat concat]. now rewrite flat_cons, IH. Qed.

Lemma bits_zero n : bits n 0 = repeat false n.
Proof.
  unfold bits. induction n as [|n IH]; [reflexivity|].
  rewrite seq_S, map_app, IH. cbn [map]. rewrite Z.bits_0.
  clear IH. induction n as [|n IH]; [reflexivity|]. cbn [repeat app]. now rewrite IH.
Qed.

Lemma bits_all_ones n : bits n (2 ^ Z.of_nat n - 1) = repeat true n.
Proof.
  apply (nth_ext _ _ false false).
  - now rewrite bits_length, repeat_length.
  - intros k Hk. rewrite bits_length in Hk.
    rewrite (nth_error_nth _ _ false (nth_error_bits n _ k Hk)).
    rewrite (nth_error_nth _ _ false (nth_error_repeat true Hk)).
    replace (2 ^ Z.of_nat n - 1) with (Z.ones (Z.of_nat n)) by (rewrite Z.ones_equiv; lia).
    apply Z.ones_spec_low. lia.
Qed.

Lemma concat_repeat_const (b : bool) m n : concat (repeat (repeat b m) n) = repeat b (n * m).
Proof.
  induction n as [|n IH]; [reflexivity|]. cbn [repeat concat Nat.mul]. now rewrite IH, repeat_app.
Qed.

Lemma count_true_firstn_repeat (b : bool) n k : (k <= n)%nat ->
  count_true (firstn k (repeat b n)) = Z.b2z b * Z.of_nat k.
Proof.
  revert n. induction k as [|k IH]; intros n H; [cbn; lia|].
  destruct n as [|n]; [lia|]. cbn [repeat firstn count_true]. rewrite IH by lia. lia.
Qed.

Lemma words_ok_repeat w n : word_ok w -> words_ok (repeat w n).
Proof. intros H. apply Forall_forall. intros x Hx. apply repeat_spec in Hx. now subst. Qed.

Theorem rank_zeros f n i : 0 <= i < 64 * Z.of_nat n -> query f (zeros_bm n) i = Some (0, 0).
Proof.
  intros Hi. assert (Hok : words_ok (zeros_bm n)) by (apply words_ok_repeat; unfold word_ok; lia).
  rewrite query_total by exact Hok. unfold RankLawsSpec.spec_query, pos_in, zeros_bm, zlen. rewrite repeat_length.
  destruct (Z.leb_spec 0 i); [|lia]. destruct (Z.ltb_spec i (64 * Z.of_nat n)); [|lia]. cbn [andb].
  unfold rank1z, bitz, rank1. rewrite flat_repeat, bits_zero, concat_repeat_const.
  rewrite count_true_firstn_repeat by lia. rewrite nth_repeat. reflexivity.
Qed.

Theorem rank_ones f n i : 0 <= i < 64 * Z.of_nat n -> query f (ones_bm n) i = Some (i, 1).
Proof.
  intros Hi. assert (Hok : words_ok (ones_bm n)) by (apply words_ok_repeat; unfold word_ok; lia).
  rewrite query_total by exact Hok. unfold RankLawsSpec.spec_query, pos_in, ones_bm, zlen. rewrite repeat_length.
  destruct (Z.leb_spec 0 i); [|lia]. destruct (Z.ltb_spec i (64 * Z.of_nat n)); [|lia]. cbn [andb].
  unfold rank1z, bitz, rank1. rewrite flat_repeat.
  change (2 ^ 64 - 1) with (2 ^ Z.of_nat 64 - 1). rewrite bits_all_ones, concat_repeat_const.
  rewrite count_true_firstn_repeat by lia.
  rewrite (nth_indep _ false true) by (rewrite repeat_length; lia). rewrite nth_repeat.
  cbn [Z.b2z]. f_equal. f_equal. lia.
Qed.

(** rank on the bitmap [Of] builds from ascending positions = the number of listed positions below [i]
    (a corollary of C12's [Of_query_ascending], restated for every flavour) *)
Theorem rank_Of ps opt : Sorted.StronglySorted Z.lt ps -> (forall p, In p ps -> 0 <= p) ->
  exists r, Of ps opt = Some r /\
    forall f i, 0 <= i < 64 * zlen r -> query f r i = Some (count_below ps i, Z.b2z (member ps i)).
Proof.
  intros Hs Hp. destruct (Of_query_ascending ps opt Hs Hp) as (r & HO & _ & Hq).
  exists r. split; [exact HO|]. intros [tr|] i Hi; cbn [query].
  - destruct (Hq i (64 * zlen r) tr ltac:(lia) ltac:(lia) ltac:(lia) ltac:(lia)) as (R & _). exact R.
  - destruct (Hq i (64 * zlen r) false ltac:(lia) ltac:(lia) ltac:(lia) ltac:(lia)) as (_ & R & _). exact R.
Qed.
