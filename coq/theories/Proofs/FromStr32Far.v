(** C11 at the far end of int32: start bits within 40 of MaxInt32, where
    [from + w] (PathOf's own [frombit+height]) wraps negative.  The real code only
    uses differences of [tobit] and [frombit], and tests the string end first, so
    a start at or beyond the end of the string gives (0, 0) / the empty path
    whatever [tobit] is.  These lemmas remove the side condition
    [from + w + 7 < 2^31] of Proofs/FromStr32Proofs.v for such starts. *)
From Coq Require Import ZArith List Lia Bool.
From Low Require Import Lib.MachInt Lib.Bits Lib.BitSeq Lib.Bytes Lib.BitsExtra_tree
  Spec.Bmtree Spec.PathSpec Spec.FromStr32Spec
  Model.BmtreePath Model.BmtreePathStr Model.FromStr32
  Proofs.BmtreePathProofs Proofs.FromStr32Proofs.
Import ListNotations.
Open Scope Z_scope.

(** a start at or beyond the end of the string: (0, 0) for EVERY tobit *)
Lemma FromStr32_beyond s from to :
  0 <= from < 2 ^ 31 -> 8 * zlen s < 2 ^ 31 -> 8 * zlen s <= from ->
  FromStr32 s from to = Some (0, 0).
Proof.
  intros Hf Hlen Hb. unfold FromStr32. cbv zeta.
  assert (Hz : 0 <= zlen s) by (unfold zlen; lia).
  rewrite (i32_id (zlen s * 8)) by lia.
  rewrite (i32_id (zlen s * 8 - from)) by lia.
  pose proof (i32_range (to - from)) as Hr.
  set (size := i32 (to - from)) in *.
  destruct (Z.leb_spec (if zlen s * 8 - from >? size then size else zlen s * 8 - from) 0) as [_|H]; [reflexivity|].
  destruct (zlen s * 8 - from >? size) eqn:E; lia.
Qed.

Lemma spec_FromStr32_beyond s from w : 0 <= from -> 0 <= w -> 8 * zlen s <= from ->
  spec_FromStr32 s from w = (0, 0).
Proof.
  intros Hf Hw Hb. unfold spec_FromStr32. cbv zeta. fold (spec_bits s from w). f_equal.
  - unfold spec_k, clamp. lia.
  - symmetry. apply spec_value_eq; [lia|lia|pose proof (pow2_pos w); lia|].
    intros n Hn. rewrite Z.bits_0. symmetry. apply mbit_outside. lia.
Qed.

(** FromStr32 as PathOf calls it, [tobit = int32(from + w)] with the wrap, on the whole
    int32 range of [from]: either nothing overflows, or the start is beyond the string *)
Lemma FromStr32_spec_wrap s from w :
  bytes_ok s -> 0 <= from < 2 ^ 31 -> 0 <= w <= 32 -> 8 * zlen s < 2 ^ 31 ->
  (from + w + 7 < 2 ^ 31 \/ 8 * zlen s <= from) ->
  FromStr32 s from (i32 (from + w)) = Some (spec_FromStr32 s from w).
Proof.
  intros Hs Hf Hw Hlen [Hov|Hb].
  - rewrite i32_id by lia. apply FromStr32_spec; (assumption || lia).
  - rewrite FromStr32_beyond by lia. now rewrite spec_FromStr32_beyond by lia.
Qed.

Lemma spec_PathOf_beyond s from h : 0 <= from -> 0 <= h -> 8 * zlen s <= from -> spec_PathOf s from h = 0.
Proof.
  intros Hf Hh Hb. unfold spec_PathOf.
  assert (E : sel_bits s from (spec_k s from h) = []).
  { apply length_zero_iff_nil. rewrite sel_bits_length by lia. unfold spec_k, clamp. lia. }
  rewrite E. apply enc_nil.
Qed.

Lemma PathOf_beyond s from h :
  0 <= from < 2 ^ 31 -> 0 <= h <= 32 -> 8 * zlen s < 2 ^ 31 -> 8 * zlen s <= from ->
  PathOf s from h = Some 0.
Proof.
  intros Hf Hh Hlen Hb. unfold PathOf. rewrite FromStr32_beyond by lia.
  unfold NewPathChk. rewrite MaskAt_ok by lia. rewrite i32_id by lia.
  destruct (Z.ltb_spec (h - 0) 0); [lia|]. change (Mask 0) with 0. unfold shl64.
  destruct (h - 0 <? 64); reflexivity.
Qed.

Lemma PathOf_spec_wrap s from h :
  bytes_ok s -> 0 <= from < 2 ^ 31 -> 0 <= h <= 32 -> 8 * zlen s < 2 ^ 31 ->
  (from + h + 7 < 2 ^ 31 \/ 8 * zlen s <= from) ->
  PathOf s from h = Some (spec_PathOf s from h).
Proof.
  intros Hs Hf Hh Hlen [Hov|Hb].
  - apply PathOf_spec; (assumption || lia).
  - rewrite PathOf_beyond by lia. now rewrite spec_PathOf_beyond by lia.
Qed.

Lemma PathsOf_loop_spec_wrap from h dd :
  0 <= from < 2 ^ 31 -> 0 <= h <= 32 ->
  forall keys, Forall (fun s => bytes_ok s /\ 8 * zlen s < 2 ^ 31 /\ (from + h + 7 < 2 ^ 31 \/ 8 * zlen s <= from)) keys ->
  forall i prev, 0 <= i ->
  PathsOf_loop keys from h dd i prev =
  Some (let ps := map (fun s => spec_PathOf s from h) keys in
        if dd then (if i =? 0 then dedup_adjacent ps else dedup_after prev ps) else ps).
Proof.
  intros Hf Hh keys Hkeys. induction Hkeys as [|s t (Hs & Hlen & Hc) Ht IH]; intros i prev Hi.
  - cbn [PathsOf_loop map]. cbv zeta. destruct dd; [destruct (i =? 0)|]; reflexivity.
  - cbn [PathsOf_loop map]. rewrite PathOf_spec_wrap by assumption.
    rewrite IH by lia. cbv zeta. f_equal.
    set (p := spec_PathOf s from h). set (ps := map (fun s0 => spec_PathOf s0 from h) t).
    destruct dd; cbn [negb orb]; [|reflexivity].
    destruct (Z.eqb_spec (i + 1) 0) as [E|_]; [lia|].
    destruct (Z.eqb_spec i 0) as [E|E]; cbn [orb]; [reflexivity|].
    cbn [dedup_after]. destruct (p =? prev); reflexivity.
Qed.

Lemma PathsOf_spec_wrap keys from h dd :
  0 <= from < 2 ^ 31 -> 0 <= h <= 32 ->
  Forall (fun s => bytes_ok s /\ 8 * zlen s < 2 ^ 31 /\ (from + h + 7 < 2 ^ 31 \/ 8 * zlen s <= from)) keys ->
  PathsOf keys from h dd = Some (spec_PathsOf keys from h dd).
Proof.
  intros Hf Hh Hkeys. unfold PathsOf. rewrite (PathsOf_loop_spec_wrap from h dd) by (assumption || lia).
  reflexivity.
Qed.

(** the empty path renders as "" and has length 0 *)
Lemma PathOf_beyond_empty s from h :
  0 <= from < 2 ^ 31 -> 0 <= h <= 32 -> 8 * zlen s < 2 ^ 31 -> 8 * zlen s <= from ->
  exists p, PathOf s from h = Some p /\ p = 0 /\ PathLen p = 0 /\ PathStr p = [].
Proof.
  intros Hf Hh Hlen Hb. exists 0. split; [now apply PathOf_beyond|]. repeat split.
Qed.

(** * locality: FromStr32 depends only on the bytes under the window and on where the string ends

    Whole leading bytes can be dropped (shifting the window), and trailing bytes behind a
    window that lies inside the string can be dropped.  This is what lets the correspondence
    run judge a call on a 40 MB string by running the model on the few bytes that matter
    (op bitmap.FromStr32/big). *)

Lemma zlen_app {A} (a b : list A) : zlen (a ++ b) = zlen a + zlen b.
Proof. unfold zlen. rewrite app_length. lia. Qed.

Lemma spec_FromStr32_drop_prefix pre t f w : 0 <= f -> 0 <= w ->
  spec_FromStr32 (pre ++ t) (8 * zlen pre + f) w = spec_FromStr32 t f w.
Proof.
  intros Hf Hw. unfold spec_FromStr32. cbv zeta.
  assert (Ek : spec_k (pre ++ t) (8 * zlen pre + f) w = spec_k t f w)
    by (unfold spec_k, clamp; rewrite zlen_app; lia).
  rewrite Ek. f_equal. f_equal. f_equal.
  rewrite !sel_bits_naive. f_equal.
  rewrite msb_bits_app, skipn_app.
  rewrite skipn_all2 by (rewrite msb_bits_length; unfold zlen; lia).
  rewrite msb_bits_length. cbn [app]. f_equal. unfold zlen. lia.
Qed.

Lemma spec_FromStr32_drop_suffix t post f w : 0 <= f -> 0 <= w -> f + w <= 8 * zlen t ->
  spec_FromStr32 (t ++ post) f w = spec_FromStr32 t f w.
Proof.
  intros Hf Hw Hin. unfold spec_FromStr32. cbv zeta.
  assert (Ek : spec_k (t ++ post) f w = w) by (unfold spec_k, clamp; rewrite zlen_app; unfold zlen in *; lia).
  assert (Ek' : spec_k t f w = w) by (unfold spec_k, clamp; lia).
  rewrite Ek, Ek'. f_equal. f_equal. f_equal.
  rewrite !sel_bits_naive. rewrite msb_bits_app, skipn_app, msb_bits_length.
  replace (Z.to_nat f - 8 * length t)%nat with 0%nat by (unfold zlen in Hin; lia). cbn [skipn].
  rewrite firstn_app, skipn_length, msb_bits_length.
  replace (Z.to_nat w - (8 * length t - Z.to_nat f))%nat with 0%nat by (unfold zlen in Hin; lia).
  cbn [firstn]. apply app_nil_r.
Qed.

Lemma bytes_ok_app a b : bytes_ok (a ++ b) <-> bytes_ok a /\ bytes_ok b.
Proof. unfold bytes_ok. apply Forall_app. Qed.

Lemma FromStr32_local pre t post f w :
  bytes_ok (pre ++ t ++ post) -> 0 <= f -> 0 <= w <= 32 ->
  8 * zlen pre + f + w + 7 < 2 ^ 31 -> 8 * zlen (pre ++ t ++ post) < 2 ^ 31 ->
  (post = [] \/ f + w <= 8 * zlen t) ->
  FromStr32 (pre ++ t ++ post) (8 * zlen pre + f) (8 * zlen pre + f + w) = FromStr32 t f (f + w).
Proof.
  intros Hs Hf Hw Hov Hlen Hpost.
  assert (Hz : 0 <= zlen pre) by (unfold zlen; lia).
  apply bytes_ok_app in Hs as Hs'. destruct Hs' as [_ Hs']. apply bytes_ok_app in Hs'. destruct Hs' as [Ht _].
  rewrite !zlen_app in Hlen. assert (0 <= zlen post) by (unfold zlen; lia).
  rewrite FromStr32_spec by (rewrite ?zlen_app; assumption || lia).
  rewrite (FromStr32_spec t) by (assumption || lia). f_equal.
  rewrite spec_FromStr32_drop_prefix by lia.
  destruct Hpost as [->|Hin]; [now rewrite app_nil_r|]. apply spec_FromStr32_drop_suffix; lia.
Qed.
