(** The linear-time Decode evaluator of Spec/AllPathsSpec.v ([fast_decode]: one word per 1-bit of
    the bitmap, found by descending the tree) equals the specification [spec_decode] and hence the
    model (release and debug).  The correspondence run uses it on trees higher than 10. *)
From Coq Require Import ZArith List Lia Bool Sorting.Sorted.
From Low Require Import Lib.MachInt Lib.Bits Lib.BitSeq Lib.Lex Lib.Bytes Lib.BitsExtra_tree
  Lib.BitsExtra_bm2 Lib.SortedZ_tree4 Spec.Bmtree Spec.AllPathsSpec
  Model.BmtreePath Model.BmtreeIndex Model.BmtreeAllPaths
  Proofs.BmtreePathProofs Proofs.BmtreeRankSpec Proofs.BmtreeIndexProofs
  Proofs.BmtreeAllPathsProofs Proofs.BmtreeDecodeProofs Proofs.BmtreeAllPathsLaws
  Proofs.BmtreeDecodeDebugProofs.
Import ListNotations.
Open Scope Z_scope.

Lemma stored_words_length T h : 0 <= T < 2 ^ (Z.of_nat h + 1) -> Z.of_nat (length (stored_words T h)) = T.
Proof. intros HT. unfold stored_words. rewrite map_length. now apply stored_nodes_count. Qed.

Lemma half_range T h : 0 <= T < 2 ^ (Z.of_nat (S h) + 1) -> 0 <= T / 2 < 2 ^ (Z.of_nat h + 1).
Proof.
  intros HT. rewrite Nat2Z.inj_succ in HT. unfold Z.succ in HT.
  rewrite (pow2_succ (Z.of_nat h + 1)) in HT by lia. apply half_bound. lia.
Qed.

Lemma nth_word_spec : forall h T k, 0 <= T < 2 ^ (Z.of_nat h + 1) -> 0 <= k < T ->
  nth (Z.to_nat k) (stored_words T h) 0 = nth_word h T k.
Proof.
  induction h as [|h IH]; intros T k HT Hk.
  - change (2 ^ (Z.of_nat 0 + 1)) with 2 in HT. assert (T = 1) by lia. assert (k = 0) by lia. subst.
    reflexivity.
  - cbn [nth_word]. rewrite stored_words_S.
    pose proof (half_range T h HT) as Hhalf.
    pose proof (stored_words_length (T / 2) h Hhalf) as Hlen.
    pose proof (half_decomp T) as Hd.
    assert (Hchild : forall j, 0 <= j < 2 * (T / 2) ->
      nth (Z.to_nat j)
          (map (fun w => 2 ^ Z.of_nat h + w) (stored_words (T / 2) h) ++
           map (fun w => 2 ^ (Z.of_nat h + 32) + 2 ^ Z.of_nat h + w) (stored_words (T / 2) h)) 0 =
      if j <? T / 2 then 2 ^ Z.of_nat h + nth_word h (T / 2) j
      else 2 ^ (Z.of_nat h + 32) + 2 ^ Z.of_nat h + nth_word h (T / 2) (j - T / 2)).
    { intros j Hj. destruct (Z.ltb_spec j (T / 2)) as [Hl|Hr].
      - rewrite app_nth1 by (rewrite map_length; lia).
        rewrite <- (IH (T / 2) j) by lia.
        rewrite (nth_indep _ 0 (2 ^ Z.of_nat h + 0)) by (rewrite map_length; lia).
        apply (map_nth (fun w => 2 ^ Z.of_nat h + w)).
      - rewrite app_nth2 by (rewrite map_length; lia). rewrite map_length.
        replace (Z.to_nat j - length (stored_words (T / 2) h))%nat with (Z.to_nat (j - T / 2)) by lia.
        rewrite <- (IH (T / 2) (j - T / 2)) by lia.
        rewrite (nth_indep _ 0 (2 ^ (Z.of_nat h + 32) + 2 ^ Z.of_nat h + 0)) by (rewrite map_length; lia).
        apply (map_nth (fun w => 2 ^ (Z.of_nat h + 32) + 2 ^ Z.of_nat h + w)). }
    destruct (Z.testbit T 0); cbn [Z.b2z app] in *.
    + destruct (Z.ltb_spec k 1) as [Hlt|Hge].
      * assert (k = 0) by lia. subst k. reflexivity.
      * replace (Z.to_nat k) with (S (Z.to_nat (k - 1))) by lia. cbn [nth]. apply Hchild. lia.
    + destruct (Z.ltb_spec k 0) as [Hlt|Hge]; [lia|]. rewrite Z.sub_0_r. apply Hchild. lia.
Qed.

(** the selection by position, as a map over the selected positions *)
Lemma select_by_positions {A} (d : A) bs : forall (l : list A) base,
  select_by bs base l =
  map (fun p => nth (Z.to_nat p - base) l d)
      (filter (fun p => nth (Z.to_nat p) bs false) (zrange (Z.of_nat base) (length l))).
Proof.
  induction l as [|x l IH]; intros base; cbn [select_by length zrange filter map]; [reflexivity|].
  rewrite Nat2Z.id. replace (Z.of_nat base + 1) with (Z.of_nat (S base)) by lia.
  rewrite (IH (S base)).
  assert (E : map (fun p => nth (Z.to_nat p - S base) l d)
                  (filter (fun p => nth (Z.to_nat p) bs false) (zrange (Z.of_nat (S base)) (length l))) =
              map (fun p => nth (Z.to_nat p - base) (x :: l) d)
                  (filter (fun p => nth (Z.to_nat p) bs false) (zrange (Z.of_nat (S base)) (length l)))).
  { apply map_ext_in. intros p Hp. apply filter_In in Hp. destruct Hp as (Hp & _). apply zrange_In in Hp.
    replace (Z.to_nat p - base)%nat with (S (Z.to_nat p - S base)) by lia. reflexivity. }
  rewrite E. destruct (nth base bs false); cbn [map]; [|reflexivity].
  rewrite Nat2Z.id, Nat.sub_diag. reflexivity.
Qed.

Lemma fast_decode_spec T h bm : 0 <= T < 2 ^ (Z.of_nat h + 1) ->
  fast_decode T h bm = spec_decode T h bm.
Proof.
  intros HT. unfold fast_decode, spec_decode.
  rewrite (select_by_positions 0 (flat bm) (stored_words T h) 0).
  rewrite (zrange_filter_ones (flat bm) (length (stored_words T h)) 0). cbn [skipn plus].
  change (Z.of_nat 0) with 0. rewrite (stored_words_length T h HT).
  apply map_ext_in. intros p Hp. apply filter_In in Hp. destruct Hp as (Ho & Hlt).
  apply Z.ltb_lt in Hlt. apply ones_In_bitz in Ho. destruct Ho as (Hp0 & _).
  rewrite Nat.sub_0_r. symmetry. apply nth_word_spec; lia.
Qed.

Lemma T_range T : 1 <= T < 2 ^ 31 -> 0 <= T < 2 ^ (Z.of_nat (Z.to_nat (Height T)) + 1).
Proof. intros HT. exact (T_range_h T _ HT (Height_to_nat T HT)). Qed.

Lemma check_decode_eq T bm : 1 <= T < 2 ^ 31 ->
  check_decode T (Z.to_nat (Height T)) bm = spec_decode T (Z.to_nat (Height T)) bm.
Proof.
  intros HT. unfold check_decode. destruct (_ <=? 10)%nat; [reflexivity|].
  apply fast_decode_spec, T_range, HT.
Qed.

Lemma decode_fast T bm : 1 <= T < 2 ^ 31 -> zlen bm < 2 ^ 31 ->
  Decode T bm = Some (fast_decode T (Z.to_nat (Height T)) bm).
Proof. intros HT Hl. rewrite decode_correct by assumption. f_equal. symmetry. apply fast_decode_spec, T_range, HT. Qed.

Lemma decode_debug_fast T bm : 1 <= T < 2 ^ 31 -> zlen bm < 2 ^ 31 ->
  Decode_debug T bm = Some (fast_decode T (Z.to_nat (Height T)) bm).
Proof. intros HT Hl. rewrite decode_debug_eq by exact HT. now apply decode_fast. Qed.
