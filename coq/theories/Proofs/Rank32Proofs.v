(** C01 widening (a): the int32-faithful model Model/Rank32.v against the unbounded model Model/Rank.v.

    - the int32 indexes are the [i32]-wraps of the unbounded ones, for bitmaps of ANY length;
    - [Rank64] answers exactly on every int32 position inside ANY bitmap (the count before [i] is at
      most [i < 2^31]) and panics on every other int32 position;
    - [Rank128] answers exactly for [0 <= i < min (64 len) (2^31 - 64)], and panics on every other int32
      position - in particular on the last 64 positions [2^31-64 .. 2^31-1] of a bitmap of 2^25 (or more)
      words, where [i + 64] wraps to a negative number: this is what happens at the boundary of the
      framework-wide assumption [64 * len < 2^31]. *)
From Coq Require Import ZArith List Lia Bool.
From Low Require Import Lib.MachInt Lib.Bits Lib.BitSeq Lib.MachIntExtra_w01
  Model.Rank Model.Rank32 Spec.RankSpec Spec.RankLawsSpec Proofs.RankProofs.
Import ListNotations.
Open Scope Z_scope.

(** * the indexes *)
Lemma IndexRank64_loop32_wrap ws : forall n,
  IndexRank64_loop32 ws (i32 n) =
  (map i32 (fst (IndexRank64_loop ws n)), i32 (snd (IndexRank64_loop ws n))).
Proof.
  induction ws as [|w t IH]; intros n; cbn [IndexRank64_loop32 IndexRank64_loop].
  - reflexivity.
  - rewrite i32_add_l, i32_add_r, IH.
    destruct (IndexRank64_loop t (n + popcount w)) as [r tot]. reflexivity.
Qed.

Theorem IndexRank64_32_wrap ws tr : IndexRank64_32 ws tr = map i32 (IndexRank64 ws tr).
Proof.
  pose proof (IndexRank64_loop32_wrap ws 0) as H. rewrite i32_0 in H.
  unfold IndexRank64_32, IndexRank64. rewrite H.
  destruct (IndexRank64_loop ws 0) as [l t]. cbn [fst snd].
  destruct tr; [rewrite map_app|]; reflexivity.
Qed.

Lemma i32_sum3 n a b : i32 (i32 (i32 n + i32 a) + i32 b) = i32 (n + a + b).
Proof.
  rewrite i32_add_r, i32_add_l.
  replace (i32 n + i32 a + b) with (i32 n + b + i32 a) by ring. rewrite i32_add_r.
  replace (i32 n + b + a) with (i32 n + (b + a)) by ring. rewrite i32_add_l. f_equal. ring.
Qed.

Lemma IndexRank128_loop32_wrap : forall m ws, (length ws <= m)%nat -> forall n,
  IndexRank128_loop32 ws (i32 n) =
  (map i32 (fst (IndexRank128_loop ws n)), i32 (snd (IndexRank128_loop ws n))).
Proof.
  induction m as [|m IH]; intros ws Hm n.
  - destruct ws; [reflexivity|cbn in Hm; lia].
  - destruct ws as [|w0 [|w1 t]].
    + reflexivity.
    + cbn [IndexRank128_loop32 IndexRank128_loop fst snd map]. rewrite i32_add_l, i32_add_r. reflexivity.
    + cbn [IndexRank128_loop32 IndexRank128_loop].
      rewrite i32_sum3.
      rewrite IH by (cbn [length] in Hm; lia).
      destruct (IndexRank128_loop t (n + popcount w0 + popcount w1)) as [r tot]. reflexivity.
Qed.

Theorem IndexRank128_32_wrap ws : IndexRank128_32 ws = map i32 (IndexRank128 ws).
Proof.
  pose proof (IndexRank128_loop32_wrap (length ws) ws (le_n _) 0) as H. rewrite i32_0 in H.
  unfold IndexRank128_32, IndexRank128. rewrite H.
  destruct (IndexRank128_loop ws 0) as [l t]. cbn [fst snd].
  destruct (Z.land (zlen ws) 1 =? 0); [rewrite map_app|]; reflexivity.
Qed.

(** counts never exceed the number of positions counted *)
Lemma rank1_bounds bs n : 0 <= rank1 bs n <= Z.of_nat n.
Proof.
  unfold rank1. split; [apply count_true_nonneg|].
  pose proof (count_true_le_length (firstn n bs)). pose proof (firstn_le_length n bs). lia.
Qed.

Lemma rank1_le_total bs n : rank1 bs n <= count_true bs.
Proof. apply count_true_firstn_le. Qed.

Lemma map_i32_id l : Forall (fun x => - 2^31 <= x < 2^31) l -> map i32 l = l.
Proof.
  induction 1 as [|x t Hx _ IH]; [reflexivity|]. cbn [map]. now rewrite IH, i32_id.
Qed.

Lemma spec_IndexRank64_range ws tr : 64 * zlen ws < 2^31 ->
  Forall (fun x => - 2^31 <= x < 2^31) (spec_IndexRank64 ws tr).
Proof.
  intros Hb. unfold zlen in Hb. unfold spec_IndexRank64. apply Forall_app. split.
  - apply Forall_forall. intros x Hx. apply in_map_iff in Hx. destruct Hx as (k & <- & Hk).
    apply in_seq in Hk. pose proof (rank1_bounds (flat ws) (64 * k)). lia.
  - destruct tr; [|constructor]. constructor; [|constructor].
    pose proof (rank1_bounds (flat ws) (64 * length ws)). lia.
Qed.

Lemma spec_IndexRank128_range ws : 64 * zlen ws < 2^31 ->
  Forall (fun x => - 2^31 <= x < 2^31) (spec_IndexRank128 ws).
Proof.
  intros Hb. unfold zlen in Hb. unfold spec_IndexRank128.
  apply Forall_forall. intros x Hx. apply in_map_iff in Hx. destruct Hx as (k & <- & Hk).
  apply in_seq in Hk. pose proof (rank1_bounds (flat ws) (128 * k)).
  pose proof (rank1_le_total (flat ws) (128 * k)).
  pose proof (count_true_le_length (flat ws)). rewrite flat_length in *. lia.
Qed.

Theorem IndexRank64_32_agree ws tr : words_ok ws -> 64 * zlen ws < 2^31 ->
  IndexRank64_32 ws tr = IndexRank64 ws tr.
Proof.
  intros Hok Hb. rewrite IndexRank64_32_wrap, IndexRank64_exact by exact Hok.
  apply map_i32_id, spec_IndexRank64_range, Hb.
Qed.

Theorem IndexRank128_32_agree ws : words_ok ws -> 64 * zlen ws < 2^31 ->
  IndexRank128_32 ws = IndexRank128 ws.
Proof.
  intros Hok Hb. rewrite IndexRank128_32_wrap, IndexRank128_exact by exact Hok.
  apply map_i32_id, spec_IndexRank128_range, Hb.
Qed.

(** * the queries *)
Lemma nthZ_map {A B} (f : A -> B) l i : nthZ (map f l) i = option_map f (nthZ l i).
Proof. unfold nthZ. destruct (i <? 0); [reflexivity|apply nth_error_map]. Qed.

Lemma nthZ_out {A} (l : list A) k : k < 0 \/ zlen l <= k -> nthZ l k = None.
Proof.
  intros H. unfold nthZ. destruct (Z.ltb_spec k 0); [reflexivity|].
  apply nth_error_None. unfold zlen in H. lia.
Qed.

Lemma sar32_6_out (ws : list Z) i : ~ (0 <= i < 64 * zlen ws) -> sar32 i 6 < 0 \/ zlen ws <= sar32 i 6.
Proof.
  intros H. unfold sar32. change (6 <? 32) with true. cbv iota. change (2 ^ 6) with 64.
  destruct (Z.lt_ge_cases i 0) as [Hn|Hp].
  - left. apply Z.div_lt_upper_bound; lia.
  - right. apply Z.div_le_lower_bound; lia.
Qed.

Definition wrap32 (p : Z * Z) : Z * Z := (i32 (fst p), snd p).

Lemma bit_trunc w i : Z.land (i32 (shr64 w (Z.land i 63))) 1 = Z.land (Z.shiftr w (Z.land i 63)) 1.
Proof.
  rewrite land1_i32. unfold shr64. pose proof (land63_range i).
  destruct (Z.ltb_spec (Z.land i 63) 64); [|lia].
  now rewrite Z.shiftr_div_pow2 by lia.
Qed.

Lemma Rank64_32_wrap ws ridx i : 0 <= i < 2^31 ->
  Rank64_32 ws (map i32 ridx) i = option_map wrap32 (Rank64 ws ridx i).
Proof.
  intros Hi. unfold Rank64_32, Rank64. rewrite sar32_shiftr by lia. rewrite u32_land63, nthZ_map.
  destruct (nthZ ridx (Z.shiftr i 6)) as [n|]; cbn [option_map]; [|reflexivity].
  destruct (nthZ ws (Z.shiftr i 6)) as [w|]; cbn [option_map]; [|reflexivity].
  unfold wrap32. cbn [fst snd]. rewrite i32_add_l, i32_add_r, bit_trunc. reflexivity.
Qed.

Lemma i32_rank128_expr n a c p :
  i32 (i32 (i32 n - i32 (a * i32 c)) + i32 p) = i32 (n - a * c + p).
Proof.
  rewrite i32_add_l, i32_add_r.
  replace (i32 n - i32 (a * i32 c) + p) with (i32 n - (i32 (a * i32 c) - p)) by ring.
  rewrite i32_sub_l.
  replace (n - (i32 (a * i32 c) - p)) with (n + p - i32 (a * i32 c)) by ring.
  rewrite i32_sub_r. destruct (i32_diff c) as [k ->].
  replace (n + p - a * (c + 2^32 * k)) with (n - a * c + p + 2^32 * (- (a * k))) by ring. apply i32_shift.
Qed.

Lemma Rank128_32_wrap ws ridx i : 0 <= i < 2^31 - 64 ->
  Rank128_32 ws (map i32 ridx) i = option_map wrap32 (Rank128 ws ridx i).
Proof.
  intros Hi. unfold Rank128_32, Rank128.
  rewrite (i32_id (i + 64)) by lia.
  rewrite !sar32_shiftr by lia. rewrite u32_land63, nthZ_map.
  destruct (nthZ ridx (Z.shiftr (i + 64) 7)) as [n|]; cbn [option_map]; [|reflexivity].
  destruct (nthZ ws (Z.shiftr i 6)) as [w|]; cbn [option_map]; [|reflexivity].
  unfold wrap32. cbn [fst snd]. rewrite i32_rank128_expr, bit_trunc. reflexivity.
Qed.

Lemma Rank64_32_out ws ridx i : ~ (0 <= i < 64 * zlen ws) -> Rank64_32 ws ridx i = None.
Proof.
  intros H. unfold Rank64_32. rewrite (nthZ_out ws) by (apply sar32_6_out, H).
  now destruct (nthZ ridx (sar32 i 6)).
Qed.

Lemma Rank128_32_out ws ridx i : ~ (0 <= i < 64 * zlen ws) -> Rank128_32 ws ridx i = None.
Proof.
  intros H. unfold Rank128_32. rewrite (nthZ_out ws) by (apply sar32_6_out, H).
  now destruct (nthZ ridx (sar32 (i32 (i + 64)) 7)).
Qed.

(** the boundary: [i + 64] wraps, the checkpoint index is negative, Go panics - whatever the bitmap and the index *)
Theorem Rank128_32_boundary ws ridx i : 2^31 - 64 <= i < 2^31 -> Rank128_32 ws ridx i = None.
Proof.
  intros H. unfold Rank128_32.
  assert (E : i32 (i + 64) = i + 64 - 2^32).
  { transitivity (i32 (i + 64 - 2^32)); [|apply i32_id; lia].
    rewrite <- (i32_shift (i + 64 - 2^32) 1). f_equal. ring. }
  rewrite E. rewrite (nthZ_out ridx); [reflexivity|]. left. apply sar32_neg; lia.
Qed.

Lemma spec_Rank_bounds ws i : 0 <= i -> 0 <= fst (spec_Rank ws i) <= i.
Proof.
  intros Hi. unfold spec_Rank, rank1z. cbn [fst].
  pose proof (rank1_bounds (flat ws) (Z.to_nat i)). lia.
Qed.

(** Rank64: exact on every int32 position inside a bitmap of ANY length, a panic on every other one *)
Theorem Rank64_32_exact ws tr i : words_ok ws -> - 2^31 <= i < 2^31 ->
  Rank64_32 ws (IndexRank64_32 ws tr) i = if pos_in ws i then Some (spec_Rank ws i) else None.
Proof.
  intros Hok Hi. unfold pos_in.
  destruct (Z.leb_spec 0 i) as [H0|H0]; cbn [andb]; [|apply Rank64_32_out; lia].
  destruct (Z.ltb_spec i (64 * zlen ws)) as [H1|H1]; [|apply Rank64_32_out; lia].
  rewrite IndexRank64_32_wrap, Rank64_32_wrap by lia.
  rewrite Rank64_exact by (assumption || lia). cbn [option_map]. f_equal.
  unfold wrap32. pose proof (spec_Rank_bounds ws i H0).
  rewrite i32_id by lia. now destruct (spec_Rank ws i).
Qed.

(** Rank128: exact for [0 <= i < min (64 len) (2^31 - 64)], a panic on every other int32 position *)
Theorem Rank128_32_exact ws i : words_ok ws -> - 2^31 <= i < 2^31 ->
  Rank128_32 ws (IndexRank128_32 ws) i =
  if pos_in ws i && (i <? 2^31 - 64) then Some (spec_Rank ws i) else None.
Proof.
  intros Hok Hi. unfold pos_in.
  destruct (Z.leb_spec 0 i) as [H0|H0]; cbn [andb]; [|apply Rank128_32_out; lia].
  destruct (Z.ltb_spec i (64 * zlen ws)) as [H1|H1]; cbn [andb]; [|apply Rank128_32_out; lia].
  destruct (Z.ltb_spec i (2^31 - 64)) as [H2|H2]; [|apply Rank128_32_boundary; lia].
  rewrite IndexRank128_32_wrap, Rank128_32_wrap by lia.
  rewrite Rank128_exact by (assumption || lia). cbn [option_map]. f_equal.
  unfold wrap32. pose proof (spec_Rank_bounds ws i H0).
  rewrite i32_id by lia. now destruct (spec_Rank ws i).
Qed.

(** under the framework-wide size assumption the two models cannot be told apart on positions inside the bitmap *)
Theorem Rank32_agree ws tr i : words_ok ws -> 64 * zlen ws < 2^31 -> 0 <= i < 64 * zlen ws ->
  Rank64_32 ws (IndexRank64_32 ws tr) i = Rank64 ws (IndexRank64 ws tr) i /\
  Rank128_32 ws (IndexRank128_32 ws) i = Rank128 ws (IndexRank128 ws) i.
Proof.
  intros Hok Hb Hi.
  rewrite Rank64_32_exact, Rank128_32_exact by (assumption || lia).
  rewrite Rank64_exact, Rank128_exact by assumption.
  unfold pos_in. destruct (Z.leb_spec 0 i); [|lia]. destruct (Z.ltb_spec i (64 * zlen ws)); [|lia].
  unfold zlen in *. destruct (Z.ltb_spec i (2^31 - 64)); [|lia]. split; reflexivity.
Qed.

(** the trailing total of the int32 index is the wrapped total: -2^31 for the all-ones bitmap of 2^25 words *)
Theorem IndexRank64_32_trailing ws : words_ok ws ->
  nthZ (IndexRank64_32 ws true) (zlen ws) = Some (i32 (total1 ws)).
Proof.
  intros Hok. rewrite IndexRank64_32_wrap, nthZ_map, IndexRank64_exact by exact Hok.
  unfold spec_IndexRank64, zlen. rewrite nthZ_of_nat.
  rewrite nth_error_app2 by (rewrite map_length, seq_length; lia).
  rewrite map_length, seq_length, Nat.sub_diag. cbn [nth_error option_map]. f_equal. f_equal.
  unfold total1, rank1. rewrite firstn_all2 by (rewrite flat_length; lia). reflexivity.
Qed.
