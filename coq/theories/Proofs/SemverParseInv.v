(** Proofs for the extra check X01, part 6 (widening): the modelled version parser accepts ONLY canonical strings:
        Parse s = Some v   ->   wf_version v = true  /\  s = version_string v.
    Together with Parse_print (part 4) this characterises the model of semver.Parse completely: it is the inverse
    of Version.String() on the well-formed versions and fails everywhere else. *)
From Coq Require Import ZArith List Bool Lia.
From Low Require Import Lib.Decimal_xpk Proofs.DecimalProofs_xpk Model.Semver Model.Vers Spec.VersSpec Spec.VersPrint
  Proofs.SemverOrder Proofs.SemverNoPanic Proofs.SemverPrintParse.
Import ListNotations.
Open Scope Z_scope.

(** * canonical decimals are unique *)
Lemma parse_digits_ge : forall s acc r, 0 <= acc -> parse_digits acc s = Some r -> acc <= r.
Proof.
  induction s as [|c s IH]; intros acc r Ha H; cbn [parse_digits] in H.
  - inversion H. lia.
  - destruct (is_digit c) eqn:Ec; [|discriminate]. unfold is_digit in Ec. apply andb_true_iff in Ec as [E1 E2].
    apply Z.leb_le in E1, E2. apply IH in H; lia.
Qed.

Lemma parse_digits_snoc_inv q d n : parse_digits 0 (q ++ [d]) = Some n -> is_digit d = true ->
  exists m, parse_digits 0 q = Some m /\ n = m * 10 + (d - 48).
Proof.
  intros H Hd. rewrite (parse_digits_app q 0 d Hd) in H. destruct (parse_digits 0 q) as [m|]; [|discriminate].
  inversion H. eauto.
Qed.

Lemma is_digit_range d : is_digit d = true -> 0 <= d - 48 < 10.
Proof. unfold is_digit. intros H. apply andb_true_iff in H as [E1 E2]. apply Z.leb_le in E1, E2. lia. Qed.

(** a digit string without a leading zero is the rendering of its value *)
Lemma canonical_rev : forall fuel p n,
  p <> [] -> forallb is_digit p = true -> hasLeadingZeroes p = false ->
  parse_digits 0 p = Some n -> n < 10 ^ Z.of_nat (S fuel) ->
  rev p = dec_digits_rev (S fuel) n.
Proof.
  induction fuel as [|f IH]; intros p n Hne Hd Hz Hp Hn.
  - (* n < 10: one digit *)
    change (10 ^ Z.of_nat 1) with 10 in Hn.
    destruct p as [|h q]; [congruence|]. cbn [forallb] in Hd. apply andb_true_iff in Hd as [Hh Hq].
    cbn [parse_digits] in Hp. rewrite Hh in Hp.
    destruct q as [|h2 q'].
    + cbn [parse_digits] in Hp. inversion Hp. cbn [rev app dec_digits_rev].
      pose proof (is_digit_range h Hh).
      match goal with |- context [?a <? 10] => destruct (Z.ltb_spec a 10) end; [|lia]. f_equal. lia.
    + exfalso. cbn [hasLeadingZeroes] in Hz. apply Z.eqb_neq in Hz.
      pose proof (is_digit_range h Hh). cbn [forallb] in Hq. apply andb_true_iff in Hq as [Hh2 _].
      cbn [parse_digits] in Hp. rewrite Hh2 in Hp. apply parse_digits_ge in Hp; [|pose proof (is_digit_range h2 Hh2); lia].
      pose proof (is_digit_range h2 Hh2). lia.
  - remember (S f) as f1 eqn:Ef.
    destruct (exists_last Hne) as (q & d & ->).
    rewrite forallb_app in Hd. apply andb_true_iff in Hd as [Hq Hdd]. cbn [forallb] in Hdd. rewrite andb_true_r in Hdd.
    destruct (parse_digits_snoc_inv q d n Hp Hdd) as (m & Hm & ->).
    pose proof (is_digit_range d Hdd) as Hr.
    rewrite rev_app_distr. cbn [rev app]. cbn [dec_digits_rev].
    destruct q as [|h q'].
    + cbn [parse_digits] in Hm. inversion Hm; subst m.
      match goal with |- context [?a <? 10] => destruct (Z.ltb_spec a 10) end; [|lia].
      cbn [rev]. f_equal. lia.
    + (* at least two digits: the value is >= 10 *)
      assert (Hh : is_digit h = true) by (cbn [forallb] in Hq; now apply andb_true_iff in Hq as [? _]).
      assert (Hh0 : h <> 48).
      { cbn [app hasLeadingZeroes] in Hz. destruct (q' ++ [d]) eqn:E; [destruct q'; discriminate|]. now apply Z.eqb_neq in Hz. }
      assert (Hm1 : 1 <= m).
      { cbn [parse_digits] in Hm. rewrite Hh in Hm. apply parse_digits_ge in Hm; pose proof (is_digit_range h Hh); lia. }
      match goal with |- context [?a <? 10] => destruct (Z.ltb_spec a 10) end; [lia|].
      replace ((m * 10 + (d - 48)) mod 10) with (d - 48)
        by (rewrite Z.add_comm, Z.mod_add by lia; symmetry; apply Z.mod_small; lia).
      replace ((m * 10 + (d - 48)) / 10) with m
        by (rewrite Z.add_comm, Z.div_add by lia; rewrite (Z.div_small (d - 48) 10) by lia; lia).
      replace (48 + (d - 48)) with d by lia. f_equal.
      subst f1. apply IH; try assumption; try discriminate.
      * cbn [hasLeadingZeroes]. destruct q'; [reflexivity|]. now apply Z.eqb_neq.
      * rewrite Nat2Z.inj_succ, Z.pow_succ_r in Hn by lia. lia.
Qed.

Lemma canonical_dec p n : p <> [] -> forallb is_digit p = true -> hasLeadingZeroes p = false ->
  parse_digits 0 p = Some n -> p = dec_nonneg n.
Proof.
  intros Hne Hd Hz Hp. unfold dec_nonneg.
  assert (Hn0 : 0 <= n) by (apply parse_digits_ge in Hp; lia).
  rewrite <- (canonical_rev (Z.to_nat (Z.log2 n)) p n Hne Hd Hz Hp (dec_fuel_ok n Hn0)).
  now rewrite rev_involutive.
Qed.

Lemma parse_uint_inv p n : forallb is_digit p = true -> hasLeadingZeroes p = false -> parse_uint p = Some n ->
  p = dec_nonneg n /\ 0 <= n < 2 ^ 64.
Proof.
  intros Hd Hz H. unfold parse_uint in H. destruct p as [|c p']; [discriminate|].
  destruct (parse_digits 0 (c :: p')) as [m|] eqn:Em; [|discriminate].
  destruct (Z.ltb_spec m (2 ^ 64)); [|discriminate]. inversion H; subst m.
  split; [apply canonical_dec; try assumption; discriminate|].
  apply parse_digits_ge in Em; lia.
Qed.

Lemma parse_component_inv p n : parse_component p = Some n -> p = dec_nonneg n /\ 0 <= n < 2 ^ 64.
Proof.
  unfold parse_component, only_numbers. destruct (forallb is_digit p) eqn:Hd; [|discriminate]. cbn [negb].
  destruct (hasLeadingZeroes p) eqn:Hz; [discriminate|]. now apply parse_uint_inv.
Qed.

(** * cutting and splitting, read backwards *)
Lemma split_first_byte_inv c : forall s,
  match split_first [c] s with
  | Some (a, b) => s = a ++ c :: b /\ lacks c a
  | None => lacks c s
  end.
Proof.
  induction s as [|x s IH]; [constructor|].
  cbn [split_first prefixb]. destruct (Z.eqb_spec c x) as [<-|Hne].
  - cbn [andb]. destruct s; cbn [prefixb]; split; try reflexivity; constructor.
  - cbn [andb]. destruct (split_first [c] s) as [[a b]|].
    + destruct IH as [-> Ha]. split; [reflexivity|]. constructor; [congruence|assumption].
    + constructor; [congruence|assumption].
Qed.

Lemma split_fuel_join_inv : forall fuel s, Nat.lt (length s) fuel -> join [46] (split_fuel fuel [46] s) = s.
Proof.
  induction fuel as [|f IH]; intros s Hf; [inversion Hf|].
  cbn [split_fuel]. pose proof (split_first_byte_inv 46 s) as H.
  destruct (split_first [46] s) as [[a b]|]; [|reflexivity].
  destruct H as [-> _].
  assert (Hb : Nat.lt (length b) f) by (rewrite app_length in Hf; cbn [length] in Hf; unfold Nat.lt in *; lia).
  specialize (IH b Hb).
  destruct (split_fuel f [46] b) as [|y l] eqn:E.
  - exfalso. destruct f; [inversion Hb|]. cbn [split_fuel] in E. destruct (split_first [46] b) as [[? ?]|]; discriminate.
  - change (join [46] (a :: y :: l)) with (a ++ [46] ++ join [46] (y :: l)). now rewrite IH.
Qed.

Lemma join_split s : join [46] (split [46] s) = s.
Proof. unfold split. apply split_fuel_join_inv. unfold Nat.lt. lia. Qed.

Lemma split_nonempty s : split [46] s <> [].
Proof. unfold split. cbn [split_fuel]. destruct (split_first [46] s) as [[? ?]|]; discriminate. Qed.

Lemma splitN3_inv s p0 p1 p2 : splitN 3 [46] s = [p0; p1; p2] -> s = p0 ++ 46 :: (p1 ++ 46 :: p2).
Proof.
  cbn [splitN]. pose proof (split_first_byte_inv 46 s) as H1.
  destruct (split_first [46] s) as [[a b]|]; [|discriminate]. destruct H1 as [-> _].
  pose proof (split_first_byte_inv 46 b) as H2.
  destruct (split_first [46] b) as [[a' b']|]; [|discriminate]. destruct H2 as [-> _].
  intros H. inversion H. reflexivity.
Qed.

(** * identifiers and build strings, read backwards *)
Lemma NewPRVersion_inv s p : NewPRVersion s = Some p -> s = ident_string p /\ wf_ident p = true.
Proof.
  unfold NewPRVersion. destruct s as [|c s']; [discriminate|].
  destruct (only_numbers (c :: s')) eqn:Hn.
  - destruct (hasLeadingZeroes (c :: s')) eqn:Hz; [discriminate|].
    destruct (parse_uint (c :: s')) as [n|] eqn:Hp; [|discriminate]. intros H. inversion H; subst p.
    destruct (parse_uint_inv _ n Hn Hz Hp) as [E [H0 H1]].
    unfold ident_string, wf_ident. cbn [pr_isnum pr_num pr_str]. split; [exact E|].
    apply andb_true_iff. split; [apply andb_true_iff; split; [reflexivity|now apply Z.leb_le]|now apply Z.ltb_lt].
  - destruct (only_alphanum (c :: s')) eqn:Ha; [|discriminate]. intros H. inversion H; subst p.
    unfold ident_string, wf_ident. cbn [pr_isnum pr_num pr_str]. split; [reflexivity|].
    rewrite Ha, Hn. reflexivity.
Qed.

Lemma opt_map_all_idents_inv l pre : opt_map_all NewPRVersion l = Some pre ->
  l = map ident_string pre /\ forallb wf_ident pre = true.
Proof.
  revert pre. induction l as [|s l IH]; intros pre H; cbn [opt_map_all] in H.
  - inversion H. split; reflexivity.
  - destruct (NewPRVersion s) as [p|] eqn:Ep; [|discriminate]. destruct (opt_map_all NewPRVersion l) as [r|]; [|discriminate].
    inversion H; subst pre. destruct (NewPRVersion_inv s p Ep) as [-> Hw]. destruct (IH r eq_refl) as [-> Hr].
    split; [reflexivity|]. cbn [forallb]. now rewrite Hw, Hr.
Qed.

Lemma opt_map_all_builds_inv l bld : opt_map_all check_build l = Some bld -> l = bld /\ forallb wf_build bld = true.
Proof.
  revert bld. induction l as [|s l IH]; intros bld H; cbn [opt_map_all] in H.
  - inversion H. split; reflexivity.
  - destruct (check_build s) as [b|] eqn:Eb; [|discriminate]. destruct (opt_map_all check_build l) as [r|]; [|discriminate].
    inversion H; subst bld. destruct (IH r eq_refl) as [-> Hr].
    unfold check_build in Eb. destruct s as [|c s']; [discriminate|]. destruct (only_alphanum (c :: s')) eqn:Ha; [|discriminate].
    inversion Eb; subst b. split; [reflexivity|]. cbn [forallb]. unfold wf_build at 1. now rewrite Ha, Hr.
Qed.

(** * Parse accepts only canonical strings *)
Theorem Parse_inv s v : Parse s = Some v -> wf_version v = true /\ s = version_string v.
Proof.
  unfold Parse. destruct (Nat.eqb (length s) 0); [discriminate|].
  destruct (splitN 3 [46] s) as [|p0 [|p1 [|p2 [|? ?]]]] eqn:Es; try discriminate.
  apply splitN3_inv in Es. subst s.
  destruct (parse_component p0) as [major|] eqn:E0; [|discriminate].
  destruct (parse_component p1) as [minor|] eqn:E1; [|discriminate].
  destruct (parse_component_inv p0 major E0) as [-> Hma]. destruct (parse_component_inv p1 minor E1) as [-> Hmi].
  pose proof (split_first_byte_inv 43 p2) as H43. unfold cut_byte.
  destruct (split_first [43] p2) as [[a b]|].
  - (* with build metadata *)
    destruct H43 as [-> _].
    pose proof (split_first_byte_inv 45 a) as H45.
    destruct (split_first [45] a) as [[a' b']|].
    + destruct H45 as [-> _].
      destruct (parse_component a') as [patch|] eqn:E2; [|discriminate]. destruct (parse_component_inv a' patch E2) as [-> Hpa].
      destruct (opt_map_all NewPRVersion (split [46] b')) as [pre|] eqn:Ep; [|discriminate].
      destruct (opt_map_all check_build (split [46] b)) as [bld|] eqn:Eb; [|discriminate].
      intros H. inversion H; subst v. clear H.
      destruct (opt_map_all_idents_inv _ pre Ep) as [Hl Hwp]. destruct (opt_map_all_builds_inv _ bld Eb) as [Hlb Hwb].
      split.
      * unfold wf_version. cbn [v_major v_minor v_patch v_pre v_build forallb]. rewrite Hwp, Hwb.
        repeat (apply andb_true_iff; split); try reflexivity; try (apply Z.leb_le; lia); try (apply Z.ltb_lt; lia).
      * unfold version_string. cbn [v_major v_minor v_patch v_pre v_build].
        assert (Hpne : pre <> []) by (intros ->; cbn [map] in Hl; now apply (split_nonempty b')).
        assert (Hbne : bld <> []) by (intros ->; now apply (split_nonempty b)).
        destruct pre as [|p pre']; [congruence|]. destruct bld as [|bb bld']; [congruence|].
        rewrite <- Hl, <- Hlb, !join_split. cbn [app]; rewrite <- ?app_assoc, ?app_nil_r; reflexivity.
    + destruct (parse_component a) as [patch|] eqn:E2; [|discriminate]. destruct (parse_component_inv a patch E2) as [-> Hpa].
      cbn [opt_map_all].
      destruct (opt_map_all check_build (split [46] b)) as [bld|] eqn:Eb; [|discriminate].
      intros H. inversion H; subst v. clear H.
      destruct (opt_map_all_builds_inv _ bld Eb) as [Hlb Hwb].
      split.
      * unfold wf_version. cbn [v_major v_minor v_patch v_pre v_build forallb]. rewrite Hwb.
        repeat (apply andb_true_iff; split); try reflexivity; try (apply Z.leb_le; lia); try (apply Z.ltb_lt; lia).
      * unfold version_string. cbn [v_major v_minor v_patch v_pre v_build].
        assert (Hbne : bld <> []) by (intros ->; now apply (split_nonempty b)).
        destruct bld as [|bb bld']; [congruence|].
        rewrite <- Hlb, !join_split. cbn [app]; rewrite <- ?app_assoc, ?app_nil_r; reflexivity.
  - (* no build metadata *)
    pose proof (split_first_byte_inv 45 p2) as H45.
    destruct (split_first [45] p2) as [[a' b']|].
    + destruct H45 as [-> _].
      destruct (parse_component a') as [patch|] eqn:E2; [|discriminate]. destruct (parse_component_inv a' patch E2) as [-> Hpa].
      destruct (opt_map_all NewPRVersion (split [46] b')) as [pre|] eqn:Ep; [|discriminate].
      cbn [opt_map_all]. intros H. inversion H; subst v. clear H.
      destruct (opt_map_all_idents_inv _ pre Ep) as [Hl Hwp].
      split.
      * unfold wf_version. cbn [v_major v_minor v_patch v_pre v_build forallb]. rewrite Hwp.
        repeat (apply andb_true_iff; split); try reflexivity; try (apply Z.leb_le; lia); try (apply Z.ltb_lt; lia).
      * unfold version_string. cbn [v_major v_minor v_patch v_pre v_build].
        assert (Hpne : pre <> []) by (intros ->; cbn [map] in Hl; now apply (split_nonempty b')).
        destruct pre as [|p pre']; [congruence|].
        rewrite <- Hl, !join_split. cbn [app]; rewrite <- ?app_assoc, ?app_nil_r; reflexivity.
    + destruct (parse_component p2) as [patch|] eqn:E2; [|discriminate]. destruct (parse_component_inv p2 patch E2) as [-> Hpa].
      cbn [opt_map_all]. intros H. inversion H; subst v. clear H.
      split.
      * unfold wf_version. cbn [v_major v_minor v_patch v_pre v_build forallb].
        repeat (apply andb_true_iff; split); try reflexivity; try (apply Z.leb_le; lia); try (apply Z.ltb_lt; lia).
      * unfold version_string. cbn [v_major v_minor v_patch v_pre v_build]. cbn [app]; rewrite <- ?app_assoc, ?app_nil_r; reflexivity.
Qed.

(** the complete characterisation of the modelled version parser *)
Theorem Parse_iff s v : Parse s = Some v <-> wf_version v = true /\ s = version_string v.
Proof. split; [apply Parse_inv|]. intros [Hw ->]. now apply Parse_print. Qed.


(** parsed versions carry canonical identifiers, so that [prec] = Eq means "equal up to build metadata" for them *)
Lemma wf_ident_canon p : wf_ident p = true -> canon_ident p.
Proof.
  unfold wf_ident, canon_ident. destruct (pr_isnum p).
  - intros H. apply andb_true_iff in H as [H _]. apply andb_true_iff in H as [H _]. destruct (pr_str p); [reflexivity|discriminate].
  - intros H. apply andb_true_iff in H as [H _]. apply andb_true_iff in H as [H _]. apply andb_true_iff in H as [H _]. now apply Z.eqb_eq.
Qed.

Lemma Parse_canon s v : Parse s = Some v -> Forall canon_ident (v_pre v).
Proof.
  intros H. apply Parse_inv in H as [Hw _]. apply wf_version_unfold in Hw as (_ & _ & _ & Hp & _).
  apply Forall_forall. intros p Hp'. rewrite forallb_forall in Hp. apply wf_ident_canon. now apply Hp.
Qed.

Theorem parsed_prec_eq a b v w : Parse a = Some v -> Parse b = Some w ->
  (prec v w = Eq <-> v_major v = v_major w /\ v_minor v = v_minor w /\ v_patch v = v_patch w /\ v_pre v = v_pre w).
Proof. intros Ha Hb. apply prec_eq_iff; eapply Parse_canon; eassumption. Qed.
