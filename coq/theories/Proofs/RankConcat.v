(** C01 widening (b): rank of a concatenation; a bitmap kept in two pieces with their own indexes. *)
From Coq Require Import ZArith List Lia Bool.
From Low Require Import Lib.MachInt Lib.Bits Lib.BitSeq
  Model.Rank Model.RankOps Spec.RankSpec Spec.RankLawsSpec Proofs.RankProofs Proofs.Rank32Proofs Proofs.RankLaws.
Import ListNotations.
Open Scope Z_scope.

Lemma zlen_app {A} (a b : list A) : zlen (a ++ b) = zlen a + zlen b.
Proof. unfold zlen. rewrite app_length. lia. Qed.

Lemma zlen_nonneg {A} (a : list A) : 0 <= zlen a.
Proof. unfold zlen. lia. Qed.

Lemma words_ok_app a b : words_ok a -> words_ok b -> words_ok (a ++ b).
Proof. intros. now apply Forall_app. Qed.

(** the bit-by-bit count over two pieces *)
Theorem spec_query_app a b i :
  spec_query (a ++ b) i =
  if i <? 64 * zlen a then spec_query a i
  else option_map (fun p => (total1 a + fst p, snd p)) (spec_query b (i - 64 * zlen a)).
Proof.
  pose proof (zlen_nonneg a) as Ha. pose proof (zlen_nonneg b) as Hb.
  unfold spec_query, pos_in. rewrite zlen_app.
  destruct (Z.ltb_spec i (64 * zlen a)) as [H1|H1].
  - destruct (Z.leb_spec 0 i) as [H0|H0]; cbn [andb]; [|reflexivity].
    destruct (Z.ltb_spec i (64 * (zlen a + zlen b))); [|lia].
    f_equal. unfold rank1z, bitz, rank1. rewrite flat_app.
    assert (Hl : (Z.to_nat i < length (flat a))%nat) by (rewrite flat_length; unfold zlen in *; lia).
    rewrite firstn_app. replace (Z.to_nat i - length (flat a))%nat with 0%nat by lia.
    rewrite firstn_O, app_nil_r. rewrite app_nth1 by exact Hl. reflexivity.
  - destruct (Z.leb_spec 0 i) as [H0|H0]; [|lia].
    destruct (Z.leb_spec 0 (i - 64 * zlen a)) as [H0'|H0']; [|lia]. cbn [andb].
    destruct (Z.ltb_spec i (64 * (zlen a + zlen b))) as [H2|H2];
      destruct (Z.ltb_spec (i - 64 * zlen a) (64 * zlen b)) as [H2'|H2']; try lia; [|reflexivity].
    cbn [option_map fst snd]. f_equal. unfold rank1z, bitz, rank1, total1. rewrite flat_app.
    assert (Hl : length (flat a) = Z.to_nat (64 * zlen a)) by (rewrite flat_length; unfold zlen; lia).
    assert (Hd : (Z.to_nat i - length (flat a))%nat = Z.to_nat (i - 64 * zlen a)) by lia.
    rewrite firstn_app, Hd. rewrite (firstn_all2 (n:=Z.to_nat i) (flat a)) by lia.
    rewrite count_true_app. rewrite app_nth2 by lia. rewrite Hd. reflexivity.
Qed.

(** the piecewise computation is exact, whatever the parity of the first piece (the 128-bit blocks of the pieces
    are not those of the whole when [|a|] is odd) *)
Theorem query_parts_exact f a b i : words_ok a -> words_ok b ->
  query_parts f a b i = spec_query (a ++ b) i.
Proof.
  intros Ha Hb. unfold query_parts. rewrite !query_total, trailing_total_exact, spec_query_app by assumption.
  destruct (i <? 64 * zlen a); [reflexivity|].
  destruct (spec_query b (i - 64 * zlen a)) as [[r bit]|]; reflexivity.
Qed.

Theorem query_concat f f' a b i : words_ok a -> words_ok b ->
  query f (a ++ b) i = query_parts f' a b i.
Proof.
  intros Ha Hb. rewrite query_parts_exact, query_total by (assumption || now apply words_ok_app). reflexivity.
Qed.

(** the 64-bit index of a concatenation: the first index, then the second one shifted by the first total *)
Lemma IndexRank64_loop_shift ws : forall c n,
  IndexRank64_loop ws (c + n) =
  (map (Z.add c) (fst (IndexRank64_loop ws n)), c + snd (IndexRank64_loop ws n)).
Proof.
  induction ws as [|w t IH]; intros c n; cbn [IndexRank64_loop].
  - reflexivity.
  - replace (c + n + popcount w) with (c + (n + popcount w)) by ring. rewrite IH.
    destruct (IndexRank64_loop t (n + popcount w)) as [r tot]. reflexivity.
Qed.

Lemma IndexRank64_loop_app a : forall b n,
  IndexRank64_loop (a ++ b) n =
  (fst (IndexRank64_loop a n) ++ fst (IndexRank64_loop b (snd (IndexRank64_loop a n))),
   snd (IndexRank64_loop b (snd (IndexRank64_loop a n)))).
Proof.
  induction a as [|w t IH]; intros b n; cbn [app IndexRank64_loop].
  - cbn [fst snd app]. now destruct (IndexRank64_loop b n).
  - rewrite IH. destruct (IndexRank64_loop t (n + popcount w)) as [r tot]. reflexivity.
Qed.

Theorem IndexRank64_app a b tr : words_ok a ->
  IndexRank64 (a ++ b) tr = IndexRank64 a false ++ map (Z.add (total1 a)) (IndexRank64 b tr).
Proof.
  intros Ha. unfold IndexRank64. rewrite IndexRank64_loop_app.
  rewrite (IndexRank64_loop_spec a Ha 0). cbn [fst snd].
  replace (0 + count_true (flat a)) with (total1 a + 0) by (unfold total1; ring).
  rewrite IndexRank64_loop_shift.
  destruct (IndexRank64_loop b 0) as [lb tb]. cbn [fst snd].
  destruct tr; [|reflexivity]. rewrite map_app, app_assoc. reflexivity.
Qed.
