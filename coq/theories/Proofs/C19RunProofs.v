(** C19 - the protocol operation [c19.Batch] (Run/C19.v) against the schedule-independence theorem:
    the pool of T goroutines the model runs is a pool of read-only operations, so under EVERY complete
    schedule every goroutine obtains exactly the refs and the shared memory is unchanged (what the harness
    expects of the implementation), and the specification accepts the model's answer (M satisfies S). *)
From Coq Require Import ZArith List Bool Arith Lia.
From Low Require Import Lib.Val Spec.Concurrency Proofs.ConcurrencyProofs Run.C19.
Import ListNotations.
Open Scope Z_scope.

Lemma val_eqb_refl : forall v, val_eqb v v = true.
Proof.
  fix IH 1. intros [z|l| |]; simpl; try reflexivity.
  - apply Z.eqb_refl.
  - induction l as [|x l IHl]; [reflexivity|]. rewrite (IH x). simpl. exact IHl.
Qed.

Lemma map_repeat' : forall {A B} (f : A -> B) x n, map f (repeat x n) = repeat (f x) n.
Proof. induction n as [|n IH]; simpl; [reflexivity|]. rewrite IH. reflexivity. Qed.

Lemma c19_thread_read_only : forall refs : list val,
  Forall read_only (map (fun r => pure_op (fun _ : val * val => r)) refs).
Proof.
  intros refs. rewrite Forall_map. apply Forall_forall. intros r _. apply pure_op_read_only.
Qed.

Lemma c19_pool_read_only : forall n refs, Forall (Forall read_only) (c19_pool n refs).
Proof.
  intros n refs. unfold c19_pool. apply Forall_forall. intros t Ht.
  apply repeat_spec in Ht. subst t. apply c19_thread_read_only.
Qed.

Lemma c19_thread_results : forall (refs : list val) (m : val * val),
  map (res_on _ _ m) (map (fun r => pure_op (fun _ : val * val => r)) refs) = refs.
Proof.
  intros refs m. rewrite map_map. rewrite <- (map_id refs) at 2. apply map_ext. intros r. reflexivity.
Qed.

Lemma c19_run_seq : forall n refs m, run_seq (c19_pool n refs) m = (m, repeat refs n).
Proof.
  intros n refs m. rewrite (run_seq_ro _ _ _ m (c19_pool_read_only n refs)). f_equal.
  unfold c19_pool. rewrite map_repeat'. rewrite c19_thread_results. reflexivity.
Qed.

(** every complete schedule of the T goroutines: memory unchanged, every goroutine has exactly the refs *)
Theorem c19_batch_any_schedule : forall (n : nat) (refs : list val) (m : val * val) (s : list nat),
  complete s (c19_pool n refs) ->
  fst (run_sched s (init_config m (c19_pool n refs))) = m /\
  results (run_sched s (init_config m (c19_pool n refs))) = repeat refs n.
Proof.
  intros n refs m s Hc.
  destruct (complete_schedule_sequential _ _ (c19_pool n refs) m s (c19_pool_read_only n refs) Hc) as [Hm Hr].
  split; [exact Hm|]. rewrite Hr, c19_run_seq. reflexivity.
Qed.

(** the model's answer is accepted by the specification, for every in-domain batch *)
Theorem c19_model_meets_spec : forall t r words tsize keys calls,
  c19_refs calls <> None -> c19_in_domain t r words keys calls = true ->
  let a := [VZ t; VZ r; VL words; VZ tsize; VL keys; VL calls] in
  c19_spec a (c19_run a) = true.
Proof.
  intros t r words tsize keys calls Hrefs Hdom a. unfold a, c19_run.
  destruct (c19_refs calls) as [refs|] eqn:E; [|congruence]. rewrite Hdom.
  unfold c19_model. rewrite c19_run_seq. simpl fst. simpl snd.
  unfold c19_spec. rewrite E.
  assert (Ht : 1 <= t).
  { unfold c19_in_domain in Hdom. repeat (apply andb_true_iff in Hdom; destruct Hdom as [Hdom ?]). lia. }
  rewrite map_length, repeat_length, Z2Nat.id by lia. rewrite Z.eqb_refl.
  rewrite !val_eqb_refl. simpl.
  rewrite !andb_true_r. apply forallb_forall. intros x Hx.
  apply in_map_iff in Hx. destruct Hx as [y [<- Hy]]. apply repeat_spec in Hy. subst y. apply val_eqb_refl.
Qed.
