(** C06 / C07, part 1: Go's io.ReadFull and io.ReadAll(io.LimitReader(r, n)) over the
    chunk reader of Model/Pbcmpl.v, for EVERY chunking of the stream into non-empty
    chunks and every terminal condition.  The results are stated on the flat byte
    string [concat cs]: what is read is [firstn n], what is left is [skipn n]. *)
From Coq Require Import ZArith List Bool Lia.
From Low Require Import Lib.MachInt Lib.BitSeq Lib.Bytes Model.Pbcmpl Spec.PbcmplSpec.
Import ListNotations.
Open Scope Z_scope.

(** ** [zlen] arithmetic *)
Lemma zlen_nil {A} : zlen (@nil A) = 0.
Proof. reflexivity. Qed.

Lemma zlen_cons {A} (x : A) l : zlen (x :: l) = 1 + zlen l.
Proof. unfold zlen. cbn [length]. lia. Qed.

Lemma zlen_app {A} (a b : list A) : zlen (a ++ b) = zlen a + zlen b.
Proof. unfold zlen. rewrite app_length. lia. Qed.

Lemma zlen_nonneg {A} (l : list A) : 0 <= zlen l.
Proof. unfold zlen. lia. Qed.

Lemma zlen_zero_nil {A} (l : list A) : zlen l = 0 -> l = [].
Proof. destruct l; [reflexivity|]. rewrite zlen_cons. pose proof (zlen_nonneg l). lia. Qed.

Lemma zlen_firstn {A} k (l : list A) : 0 <= k -> zlen (firstn (Z.to_nat k) l) = Z.min k (zlen l).
Proof. intros. unfold zlen. rewrite firstn_length. lia. Qed.

Lemma zlen_skipn {A} k (l : list A) : 0 <= k -> zlen (skipn (Z.to_nat k) l) = Z.max 0 (zlen l - k).
Proof. intros. unfold zlen. rewrite skipn_length. lia. Qed.

Lemma zlen_repeat {A} (x : A) n : zlen (repeat x n) = Z.of_nat n.
Proof. unfold zlen. rewrite repeat_length. reflexivity. Qed.

Lemma firstn_all_z {A} k (l : list A) : zlen l <= k -> firstn (Z.to_nat k) l = l.
Proof. intros. apply firstn_all2. unfold zlen in *. lia. Qed.

Lemma skipn_all_z {A} k (l : list A) : zlen l <= k -> skipn (Z.to_nat k) l = [].
Proof. intros. apply skipn_all2. unfold zlen in *. lia. Qed.

Lemma firstn_app_z {A} k (a b : list A) :
  zlen a <= k -> firstn (Z.to_nat k) (a ++ b) = a ++ firstn (Z.to_nat (k - zlen a)) b.
Proof.
  intros. rewrite firstn_app. rewrite firstn_all_z by assumption. f_equal. f_equal.
  unfold zlen in *. lia.
Qed.

Lemma skipn_app_z {A} k (a b : list A) :
  zlen a <= k -> skipn (Z.to_nat k) (a ++ b) = skipn (Z.to_nat (k - zlen a)) b.
Proof.
  intros. rewrite skipn_app. rewrite skipn_all_z by assumption. cbn [app]. f_equal.
  unfold zlen in *. lia.
Qed.

Lemma firstn_app_short_z {A} k (a b : list A) :
  0 <= k <= zlen a -> firstn (Z.to_nat k) (a ++ b) = firstn (Z.to_nat k) a.
Proof.
  intros. rewrite firstn_app.
  replace (Z.to_nat k - length a)%nat with 0%nat by (unfold zlen in *; lia).
  cbn [firstn]. apply app_nil_r.
Qed.

Lemma skipn_app_short_z {A} k (a b : list A) :
  0 <= k <= zlen a -> skipn (Z.to_nat k) (a ++ b) = skipn (Z.to_nat k) a ++ b.
Proof.
  intros. rewrite skipn_app.
  replace (Z.to_nat k - length a)%nat with 0%nat by (unfold zlen in *; lia).
  reflexivity.
Qed.

(** reading [j] bytes and then [n - j] more is reading [n] bytes *)
Lemma firstn_split_z {A} j n (l : list A) :
  0 <= j <= n ->
  firstn (Z.to_nat n) l = firstn (Z.to_nat j) l ++ firstn (Z.to_nat (n - j)) (skipn (Z.to_nat j) l).
Proof.
  intros. rewrite <- (firstn_skipn (Z.to_nat j) l) at 1.
  destruct (Z.le_gt_cases (zlen l) j) as [Hs|Hs].
  - rewrite (skipn_all_z j l Hs). rewrite app_nil_r. cbn [firstn].
    rewrite firstn_nil, app_nil_r. rewrite firstn_firstn. f_equal. lia.
  - rewrite firstn_app_z by (rewrite zlen_firstn by lia; lia).
    rewrite zlen_firstn by lia. f_equal. f_equal. f_equal. lia.
Qed.

Lemma skipn_skipn_nat {A} : forall a b (l : list A), skipn a (skipn b l) = skipn (b + a) l.
Proof.
  induction b as [|b IH]; intros l; [reflexivity|].
  destruct l; [rewrite !skipn_nil; reflexivity|]. cbn [skipn Nat.add]. apply IH.
Qed.

Lemma skipn_split_z {A} j n (l : list A) :
  0 <= j <= n -> skipn (Z.to_nat n) l = skipn (Z.to_nat (n - j)) (skipn (Z.to_nat j) l).
Proof.
  intros. rewrite skipn_skipn_nat. f_equal. lia.
Qed.

(** ** chunkings
    A reader is ANY finite list of chunks — empty chunks included: a Read that returns
    (0, nil), which io.Reader discourages but allows — except that the list does not
    END with an empty chunk (that would be the terminal condition delivered alone,
    which the terminal's [t_with_last = false] already describes). *)
Definition chunks_ok (cs : list (list Z)) : Prop := last cs [0] <> [].

(** the stricter notion "every chunk is non-empty" (what [chunks_of] produces) *)
Definition chunks_pos (cs : list (list Z)) : Prop := Forall (fun c => 0 < zlen c) cs.

Lemma chunks_ok_nil : chunks_ok [].
Proof. unfold chunks_ok. cbn. discriminate. Qed.

Lemma chunks_ok_tail c rest : chunks_ok (c :: rest) -> rest <> [] -> chunks_ok rest.
Proof. unfold chunks_ok. destruct rest; [contradiction|]. cbn [last]. auto. Qed.

Lemma chunks_ok_single c : chunks_ok [c] -> c <> [].
Proof. unfold chunks_ok. cbn [last]. auto. Qed.

Lemma chunks_ok_cons c rest : (rest = [] -> c <> []) -> (rest <> [] -> chunks_ok rest) -> chunks_ok (c :: rest).
Proof.
  unfold chunks_ok. intros H1 H2. destruct rest as [|d rest]; cbn [last]; [apply H1; reflexivity|].
  apply H2. discriminate.
Qed.

Lemma chunks_pos_ok cs : chunks_pos cs -> chunks_ok cs.
Proof.
  induction 1 as [|c cs Hc _ IH]; [apply chunks_ok_nil|].
  apply chunks_ok_cons; intros.
  - intros ->. unfold zlen in Hc. cbn [length] in Hc. lia.
  - exact IH.
Qed.

Lemma chunks_ok_concat_nil cs : chunks_ok cs -> concat cs = [] -> cs = [].
Proof.
  induction cs as [|c rest IH]; intros Hok E; [reflexivity|]. exfalso.
  cbn [concat] in E. apply app_eq_nil in E. destruct E as [Ec Er].
  destruct rest as [|d rest'].
  - apply (chunks_ok_single c Hok Ec).
  - assert (Hr : d :: rest' = []) by (apply IH; [apply (chunks_ok_tail c); [assumption|discriminate]|assumption]).
    discriminate.
Qed.

(** ** io.ReadFull *)
Lemma readfull_loop_eq {St} (read : St -> Z -> list Z * option perr * St) fuel r got err min :
  readfull_loop read fuel r got err min =
  if (zlen got <? min) && is_none err then
    match fuel with
    | O => None
    | S f => let '(d, e, r') := read r (min - zlen got) in readfull_loop read f r' (got ++ d) e min
    end
  else Some (got, err, r).
Proof. destruct fuel; reflexivity. Qed.

Lemma readfull_loop_cread t min : forall cs got fuel,
  zlen got <= min -> (length cs + 2 <= fuel)%nat ->
  exists e cs',
    readfull_loop cread fuel (cs, t) got None min
      = Some (got ++ firstn (Z.to_nat (min - zlen got)) (concat cs), e, (cs', t))
    /\ concat cs' = skipn (Z.to_nat (min - zlen got)) (concat cs)
    /\ (chunks_ok cs -> chunks_ok cs')
    /\ (zlen got + zlen (concat cs) < min -> e = Some (t_err t))
    /\ (length cs' <= length cs)%nat.
Proof.
  induction cs as [|c rest IH]; intros got fuel Hgot Hfuel.
  - (* no chunk left *)
    rewrite readfull_loop_eq. cbn [is_none concat].
    destruct (Z.ltb_spec (zlen got) min) as [Hlt|Hge]; cbn [andb].
    + destruct fuel as [|f]; [cbn in Hfuel; lia|].
      cbn [cread]. rewrite readfull_loop_eq. cbn [is_none]. rewrite andb_false_r.
      exists (Some (t_err t)), []. rewrite firstn_nil, skipn_nil. cbn [concat].
      repeat split; auto; try (cbn [length]; lia).
    + exists None, []. rewrite firstn_nil, skipn_nil, app_nil_r. cbn [concat].
      repeat split; auto; try (cbn [length]; lia). rewrite zlen_nil. lia.
  - rewrite readfull_loop_eq. cbn [is_none].
    destruct (Z.ltb_spec (zlen got) min) as [Hlt|Hge]; cbn [andb].
    + destruct fuel as [|f]; [cbn in Hfuel; lia|].
      cbn [cread concat].
      destruct (Z.leb_spec (zlen c) (min - zlen got)) as [Hfit|Hbig].
      * (* the whole chunk is delivered (possibly an empty one: a (0, nil) Read) *)
        destruct (is_nil rest && t_with_last t) eqn:Hlast.
        -- (* ... together with the terminal error *)
           apply andb_prop in Hlast. destruct Hlast as [Hnil _].
           destruct rest; [|discriminate]. cbn [concat]. rewrite app_nil_r.
           rewrite readfull_loop_eq. cbn [is_none]. rewrite andb_false_r.
           exists (Some (t_err t)), [].
           rewrite firstn_all_z by lia. rewrite skipn_all_z by lia. cbn [concat].
           repeat split; auto; try (cbn [length]; lia). intros _. apply chunks_ok_nil.
        -- cbn [length] in Hfuel.
           destruct (IH (got ++ c) f) as (e & cs' & He & Hc' & Hok' & Herr & Hlen').
           { rewrite zlen_app. lia. } { lia. }
           exists e, cs'. rewrite He. rewrite zlen_app in *.
           rewrite firstn_app_z by lia. rewrite skipn_app_z by lia.
           replace (min - zlen got - zlen c) with (min - (zlen got + zlen c)) by lia.
           rewrite <- app_assoc. repeat split; auto; try (cbn [length]; lia).
           ++ intros Hok. destruct rest as [|d rest'].
              ** (* nothing after c: the loop ran on the empty list *)
                 assert (Hnil : concat cs' = []) by (rewrite Hc'; cbn [concat]; apply skipn_nil).
                 clear He. revert Hc'. cbn [concat]. rewrite skipn_nil. intros Hc'.
                 apply Hok'. apply chunks_ok_nil.
              ** apply Hok'. apply (chunks_ok_tail c); [assumption|discriminate].
           ++ intros H. rewrite zlen_app in H. apply Herr. lia.
      * (* only the first [min - |got|] bytes of the chunk fit *)
        set (k := min - zlen got) in *.
        rewrite readfull_loop_eq.
        assert (Hk : zlen (firstn (Z.to_nat k) c) = k) by (rewrite zlen_firstn by lia; lia).
        rewrite zlen_app, Hk.
        replace (zlen got + k <? min) with false by (symmetry; apply Z.ltb_ge; lia).
        cbn [andb].
        exists None, (skipn (Z.to_nat k) c :: rest).
        rewrite firstn_app_short_z by lia. rewrite skipn_app_short_z by lia. cbn [concat].
        repeat split; auto; try (cbn [length]; lia).
        -- intros Hok. apply chunks_ok_cons.
           ++ intros _ E. apply (f_equal (@zlen Z)) in E. rewrite zlen_skipn in E by lia. unfold zlen at 2 in E. cbn [length] in E. lia.
           ++ intros Hr. apply (chunks_ok_tail c); assumption.
        -- intros H. rewrite zlen_app in H. pose proof (zlen_nonneg (concat rest)). unfold k in *. lia.
    + exists None, (c :: rest).
      replace (min - zlen got) with 0 by lia. cbn [Z.to_nat firstn skipn].
      rewrite app_nil_r. repeat split; auto; try (cbn [length]; lia).
      pose proof (zlen_nonneg (concat (c :: rest))). lia.
Qed.

(** the error io.ReadFull reports when the stream ends (as [t] says) after [got] < min bytes *)
Theorem ReadFull_cread cs t min fuel :
  0 <= min -> (length cs + 2 <= fuel)%nat ->
  exists cs',
    ReadFull cread fuel (cs, t) min
      = Some (firstn (Z.to_nat min) (concat cs),
              (if zlen (concat cs) <? min then Some (end_err t (zlen (concat cs)) EEOF) else None),
              (cs', t))
    /\ concat cs' = skipn (Z.to_nat min) (concat cs)
    /\ (chunks_ok cs -> chunks_ok cs')
    /\ (length cs' <= length cs)%nat.
Proof.
  intros Hmin Hfuel.
  destruct (readfull_loop_cread t min cs [] fuel) as (e & cs' & He & Hc' & Hok' & Herr & Hlen').
  { rewrite zlen_nil. lia. } { lia. }
  rewrite zlen_nil, Z.sub_0_r, Z.add_0_l in *. cbn [app] in He.
  exists cs'. unfold ReadFull. rewrite He. split; [|split; [assumption|split; assumption]].
  f_equal. f_equal. f_equal.
  rewrite zlen_firstn by lia.
  destruct (Z.ltb_spec (zlen (concat cs)) min) as [Hlt|Hge].
  - rewrite (Herr Hlt). rewrite Z.min_r by lia.
    replace (zlen (concat cs) >=? min) with false by (symmetry; rewrite Z.geb_leb; apply Z.leb_gt; lia).
    unfold end_err. destruct (t_err t); cbn [is_eof]; rewrite ?andb_false_r; try reflexivity.
    rewrite andb_true_r.
    destruct (Z.ltb_spec 0 (zlen (concat cs))), (Z.eqb_spec (zlen (concat cs)) 0); try reflexivity; try lia.
    pose proof (zlen_nonneg (concat cs)). lia.
  - rewrite Z.min_l by lia.
    replace (min >=? min) with true by (symmetry; rewrite Z.geb_leb; apply Z.leb_le; lia).
    reflexivity.
Qed.

(** ** io.ReadAll(io.LimitReader(r, n)) *)
Definition noneof (e : perr) : option perr := match e with EEOF => None | _ => Some e end.

(** the error it returns on a stream [s] ending as [t] says *)
Definition rall_err (s : list Z) (n : Z) (t : terminal) : option perr :=
  if n <=? 0 then None
  else if zlen s <? n then noneof (t_err t)
  else if (zlen s =? n) && t_with_last t then noneof (t_err t)
  else None.

Lemma readall_loop_eq {St} (read : St -> Z -> list Z * option perr * St) grow fuel r b cap :
  readall_loop read grow (S fuel) r b cap =
  let '(d, e, r') := read r (cap - zlen b) in
  let b' := b ++ d in
  match e with
  | Some e' => Some (b', match e' with EEOF => None | _ => Some e' end, r')
  | None => readall_loop read grow fuel r' b' (if zlen b' =? cap then grow cap else cap)
  end.
Proof. reflexivity. Qed.

Lemma noneof_match e : match e with EEOF => None | _ => Some e end = noneof e.
Proof. destruct e; reflexivity. Qed.

(** consuming [j] bytes without meeting the end does not change the final error *)
Lemma rall_err_step S n t j :
  0 <= j <= n -> 0 < n -> j <= zlen S -> ~ (j = zlen S /\ t_with_last t = true) ->
  rall_err (skipn (Z.to_nat j) S) (n - j) t = rall_err S n t.
Proof.
  intros Hj Hn HS Hnl.
  destruct (Z.eq_dec j 0) as [->|Hj0].
  { cbn [Z.to_nat skipn]. rewrite Z.sub_0_r. reflexivity. }
  unfold rall_err. rewrite zlen_skipn by lia.
  destruct (Z.leb_spec n 0); [lia|].
  destruct (Z.leb_spec (n - j) 0) as [Hz|Hz].
  - assert (n = j) by lia. subst n.
    destruct (Z.ltb_spec (zlen S) j); [lia|].
    destruct (Z.eqb_spec (zlen S) j) as [E|E]; cbn [andb]; [|reflexivity].
    destruct (t_with_last t); [exfalso; apply Hnl; split; auto|reflexivity].
  - rewrite Z.max_r by lia.
    destruct (Z.ltb_spec (zlen S - j) (n - j)), (Z.ltb_spec (zlen S) n); try lia; try reflexivity.
    destruct (Z.eqb_spec (zlen S - j) (n - j)), (Z.eqb_spec (zlen S) n); try lia; reflexivity.
Qed.

Section ReadAll.
  Variable grow : Z -> Z.
  Hypothesis Hgrow : forall c, 0 < c -> c < grow c.

  Lemma readall_loop_cread t : forall fuel cs n b cap,
    chunks_ok cs -> zlen b < cap -> (length cs + length (concat cs) + 1 <= fuel)%nat ->
    exists cs' n',
      readall_loop (limited_read cread) grow fuel ((cs, t), n) b cap
        = Some (b ++ firstn (Z.to_nat n) (concat cs), rall_err (concat cs) n t, ((cs', t), n'))
      /\ concat cs' = skipn (Z.to_nat n) (concat cs)
      /\ chunks_ok cs' /\ (length cs' <= length cs)%nat.
  Proof.
    induction fuel as [|f IH]; intros cs n b cap Hok Hcap Hfuel; [lia|].
    rewrite readall_loop_eq. cbn [limited_read].
    destruct (Z.leb_spec n 0) as [Hn0|Hn0].
    - (* the limit is used up: LimitedReader reports EOF without touching r *)
      exists cs, n. replace (Z.to_nat n) with 0%nat by lia. cbn [firstn skipn].
      unfold rall_err. destruct (Z.leb_spec n 0); [|lia]. repeat split; auto.
    - set (k := cap - zlen b) in *.
      set (k' := if k >? n then n else k).
      assert (Hk' : 0 < k' /\ k' <= n /\ k' <= k).
      { unfold k'. destruct (Z.gtb_spec k n); lia. }
      destruct cs as [|c rest].
      + (* the stream has ended *)
        cbn [cread concat]. rewrite zlen_nil, Z.sub_0_r. rewrite noneof_match.
        exists [], n. rewrite firstn_nil, skipn_nil. cbn [concat].
        unfold rall_err. destruct (Z.leb_spec n 0); [lia|]. rewrite zlen_nil.
        destruct (Z.ltb_spec 0 n); [|lia]. repeat split; auto.
      + cbn [cread concat].
        destruct (Z.leb_spec (zlen c) k') as [Hfit|Hbig].
        * destruct (is_nil rest && t_with_last t) eqn:Hlast.
          -- apply andb_prop in Hlast. destruct Hlast as [Hnil Hwl].
             destruct rest; [|discriminate]. cbn [concat]. rewrite app_nil_r.
             rewrite noneof_match.
             exists [], (n - zlen c). rewrite firstn_all_z by lia. rewrite skipn_all_z by lia.
             cbn [concat]. split; [|split; [reflexivity|split; [apply chunks_ok_nil|cbn [length]; lia]]].
             f_equal. f_equal. f_equal.
             unfold rall_err. destruct (Z.leb_spec n 0); [lia|]. rewrite Hwl, andb_true_r.
             destruct (Z.ltb_spec (zlen c) n); [reflexivity|].
             destruct (Z.eqb_spec (zlen c) n); [reflexivity|lia].
          -- set (cap' := if zlen (b ++ c) =? cap then grow cap else cap).
             assert (Hrest : chunks_ok rest).
             { destruct rest; [apply chunks_ok_nil|]. apply (chunks_ok_tail c); [assumption|discriminate]. }
             pose proof (zlen_nonneg c) as Hc0.
             destruct (IH rest (n - zlen c) (b ++ c) cap' Hrest) as (cs' & n' & He & Hc' & Hok' & Hlen').
             { unfold cap'. rewrite zlen_app. destruct (Z.eqb_spec (zlen b + zlen c) cap).
               - pose proof (zlen_nonneg b). specialize (Hgrow cap). lia.
               - lia. }
             { cbn [concat length] in Hfuel. rewrite app_length in Hfuel. lia. }
             exists cs', n'.
             rewrite (firstn_app_z n c) by lia. rewrite (skipn_app_z n c) by lia.
             split; [|split; [assumption|split; [assumption|cbn [length]; lia]]].
             etransitivity; [exact He|]. rewrite <- app_assoc.
             f_equal. f_equal. f_equal.
             rewrite <- (rall_err_step (c ++ concat rest) n t (zlen c)); try lia.
             ++ rewrite skipn_app_z by lia. rewrite Z.sub_diag. reflexivity.
             ++ rewrite zlen_app. pose proof (zlen_nonneg (concat rest)). lia.
             ++ intros [E Hwl]. rewrite zlen_app in E.
                assert (Hr : concat rest = []) by (apply zlen_zero_nil; lia).
                apply chunks_ok_concat_nil in Hr; [|assumption]. subst rest.
                cbn [is_nil] in Hlast. rewrite Hwl in Hlast. discriminate.
        * assert (Hd : zlen (firstn (Z.to_nat k') c) = k') by (rewrite zlen_firstn by lia; lia).
          rewrite Hd.
          set (d := firstn (Z.to_nat k') c) in *.
          set (cap' := if zlen (b ++ d) =? cap then grow cap else cap).
          destruct (IH (skipn (Z.to_nat k') c :: rest) (n - k') (b ++ d) cap') as (cs' & n' & He & Hc' & Hok' & Hlen').
          { apply chunks_ok_cons.
            - intros _ E. apply (f_equal (@zlen Z)) in E. rewrite zlen_skipn in E by lia.
              unfold zlen at 2 in E. cbn [length] in E. lia.
            - intros Hr. apply (chunks_ok_tail c); assumption. }
          { unfold cap'. rewrite zlen_app, Hd. destruct (Z.eqb_spec (zlen b + k') cap).
            - pose proof (zlen_nonneg b). specialize (Hgrow cap). lia.
            - lia. }
          { cbn [concat length] in *. rewrite app_length in *. rewrite skipn_length.
            unfold zlen in Hbig. lia. }
          exists cs', n'. cbn [concat] in *.
          rewrite <- (skipn_app_short_z k' c (concat rest)) in * by lia.
          split; [|split; [|split]].
          -- etransitivity; [exact He|]. rewrite <- app_assoc.
             f_equal. f_equal. f_equal.
             ++ f_equal. unfold d. rewrite <- (firstn_app_short_z k' c (concat rest)) by lia.
                symmetry. apply firstn_split_z. lia.
             ++ apply rall_err_step; try lia.
                ** rewrite zlen_app. pose proof (zlen_nonneg (concat rest)). lia.
                ** rewrite zlen_app. pose proof (zlen_nonneg (concat rest)). lia.
          -- rewrite Hc'. symmetry. apply skipn_split_z. lia.
          -- assumption.
          -- cbn [length] in *. lia.
  Qed.

  Theorem ReadAll_limited_cread t fuel cs n :
    chunks_ok cs -> (length cs + length (concat cs) + 1 <= fuel)%nat ->
    exists cs' n',
      ReadAll (limited_read cread) grow fuel ((cs, t), n)
        = Some (firstn (Z.to_nat n) (concat cs), rall_err (concat cs) n t, ((cs', t), n'))
      /\ concat cs' = skipn (Z.to_nat n) (concat cs)
      /\ chunks_ok cs' /\ (length cs' <= length cs)%nat.
  Proof.
    intros Hok Hfuel. unfold ReadAll.
    destruct (readall_loop_cread t fuel cs n [] 512 Hok) as (cs' & n' & He & H).
    { rewrite zlen_nil. lia. } { assumption. }
    exists cs', n'. split; [exact He|assumption].
  Qed.
End ReadAll.
