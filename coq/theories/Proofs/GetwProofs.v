(** Proofs for the widening of C14: the mask tables of bitmap/mask.go, Getw on
    arbitrary bitmaps and indexes (with and without the int32 wrap), Slice with
    the int32 arithmetic, and "split into elements, Join again = identity". *)
From Coq Require Import ZArith List Lia Bool.
From Low Require Import Lib.MachInt Lib.Bits Lib.BitSeq Lib.BitsExtra_bm2 Lib.BitsExtra_bm14
  Model.BitmapUtil Model.BitmapJoin Model.BitmapMask Model.BitmapGetw32
  Spec.JoinSpec Spec.MaskSpec Spec.GetwSpec Proofs.JoinProofs.
Import ListNotations.
Open Scope Z_scope.

(** * mask tables *)
Lemma in_idx n j : 0 <= j < Z.of_nat n -> In j (idx n).
Proof.
  intros H. unfold idx. rewrite <- (Z2Nat.id j) by lia. apply in_map. apply in_seq. lia.
Qed.

Lemma mask_tables_inside : Forall (fun j => mask_lookups initMasks j = spec_mask_lookups j) (idx 65).
Proof.
  let l := eval vm_compute in (idx 65) in change (idx 65) with l.
  repeat (apply Forall_cons; [vm_compute; reflexivity|]). apply Forall_nil.
Qed.

Lemma nthZ_beyond {A} (l : list A) j : zlen l <= j -> nthZ l j = None.
Proof.
  intros H. unfold nthZ, zlen in *. destruct (Z.ltb_spec j 0); [reflexivity|].
  apply nth_error_None. lia.
Qed.

Lemma nthZ_neg {A} (l : list A) j : j < 0 -> nthZ l j = None.
Proof. intros H. unfold nthZ. destruct (Z.ltb_spec j 0); [reflexivity|lia]. Qed.

Theorem mask_tables_correct j : mask_lookups initMasks j = spec_mask_lookups j.
Proof.
  destruct (Z.lt_ge_cases j 0) as [Hneg|Hpos].
  - unfold mask_lookups, spec_mask_lookups, in_tab. rewrite !nthZ_neg by exact Hneg.
    destruct (Z.leb_spec 0 j); [lia|]. reflexivity.
  - destruct (Z.lt_ge_cases j 65) as [Hin|Hout].
    + pose proof mask_tables_inside as H. rewrite Forall_forall in H. apply H.
      apply in_idx. lia.
    + unfold mask_lookups, spec_mask_lookups, in_tab.
      rewrite !nthZ_beyond by (vm_compute zlen; lia).
      destruct (Z.ltb_spec j 65); [lia|]. destruct (Z.ltb_spec j 64); [lia|].
      rewrite !andb_false_r. reflexivity.
Qed.

(** * Getw on any bitmap *)
Lemma rd_nthZ bm k : rd bm k = nthZ bm k.
Proof.
  unfold rd. destruct (Z.ltb_spec k 0); cbn [orb]; [now rewrite nthZ_neg|].
  destruct (Z.leb_spec (zlen bm) k); [now rewrite nthZ_beyond|reflexivity].
Qed.

Lemma sar32_6 x : sar32 x 6 = Z.shiftr x 6.
Proof. unfold sar32. cbn [Z.ltb Z.compare Pos.compare Pos.compare_cont]. now rewrite Z.shiftr_div_pow2 by lia. Qed.

Theorem Getw32_eq bm i w : - 2^31 <= i * w < 2^31 -> Getw32 bm i w = Getw bm i w.
Proof.
  intros H. unfold Getw32, Getw. rewrite i32_id by exact H. now rewrite rd_nthZ, sar32_6.
Qed.

Lemma testbit_val_lsb l : forall t, 0 <= t -> Z.testbit (val_lsb l) t = nth (Z.to_nat t) l false.
Proof.
  induction l as [|b l IH]; intros t Ht; cbn [val_lsb].
  - rewrite Z.bits_0. now destruct (Z.to_nat t).
  - rewrite Z.add_comm. destruct (Z.eq_dec t 0) as [->|Hne].
    + now rewrite Z.testbit_0_r.
    + replace t with (Z.succ (t - 1)) at 1 by lia. rewrite Z.testbit_succ_r by lia.
      rewrite IH by lia. replace (Z.to_nat t) with (S (Z.to_nat (t - 1))) by lia. reflexivity.
Qed.

Lemma window_testbit bm k w t : 0 <= w -> 0 <= k * w -> 0 <= t ->
  Z.testbit (window bm k w) t = (t <? w) && tb bm (k * w + t).
Proof.
  intros Hw Hk Ht. unfold window. rewrite testbit_val_lsb by exact Ht.
  destruct (Z.ltb_spec t w) as [H|H]; cbn [andb].
  - rewrite nth_firstn_lt by lia. rewrite nth_skipn, nth_flat_tb. f_equal. lia.
  - apply nth_overflow. rewrite firstn_length. lia.
Qed.

Lemma tb_in_word j t : 0 <= j -> 0 <= t -> j mod 64 + t < 64 ->
  (j + t) / 64 = j / 64 /\ (j + t) mod 64 = j mod 64 + t.
Proof.
  intros Hj Ht H. pose proof (Z.div_mod j 64 ltac:(lia)) as Dj.
  pose proof (Z.mod_pos_bound j 64 ltac:(lia)).
  split; symmetry.
  - apply (Z.div_unique (j + t) 64 (j / 64) (j mod 64 + t)); lia.
  - apply (Z.mod_unique (j + t) 64 (j / 64) (j mod 64 + t)); lia.
Qed.

Theorem Getw_window bm i w : width_ok w -> words_ok bm -> 0 <= i -> i * w < 64 * zlen bm ->
  Getw bm i w = Some (window bm i w).
Proof.
  intros Hw Hbm Hi Hr. pose proof (w_pos w Hw) as Hwp.
  destruct (width_fits w i Hw) as [_ Hfit].
  unfold Getw. rewrite shiftr6, land63.
  assert (Hj0 : 0 <= i * w) by nia.
  destruct (word_at bm (i * w) Hbm ltac:(lia)) as (word & Hn & Hne & Hword). rewrite Hn.
  destruct (Z.ltb_spec w 0); [lia|]. destruct (Z.ltb_spec 64 w); [lia|]. cbn [orb]. f_equal.
  assert (Hjm : 0 <= (i * w) mod 64 < 64) by (apply Z.mod_pos_bound; lia).
  rewrite shr64_div by lia. rewrite land_mask by lia.
  apply Z.bits_inj'. intros t Ht. rewrite testbit_mod_pow2, window_testbit by lia.
  destruct (Z.ltb_spec t w) as [Htw|Htw]; cbn [andb]; [|reflexivity].
  rewrite Z.div_pow2_bits by lia. unfold tb.
  destruct (tb_in_word (i * w) t) as [Hq Hr']; [lia|lia|lia|].
  rewrite Hq, Hr', (nth_error_nth _ _ 0 Hne). f_equal. lia.
Qed.

Theorem Getw_outside bm i w : 0 < w -> i < 0 \/ 64 * zlen bm <= i * w -> Getw bm i w = None.
Proof.
  intros Hw H. unfold Getw. rewrite shiftr6.
  destruct H as [H|H].
  - rewrite nthZ_neg; [reflexivity|]. apply Z.div_lt_upper_bound; nia.
  - rewrite nthZ_beyond; [reflexivity|]. apply Z.div_le_lower_bound; lia.
Qed.

Theorem Getw_any bm i w : width_ok w -> words_ok bm -> Getw bm i w = spec_Getw_any bm i w.
Proof.
  intros Hw Hbm. pose proof (w_pos w Hw). unfold spec_Getw_any.
  destruct (Z.leb_spec 0 i); cbn [andb].
  - destruct (Z.ltb_spec (i * w) (64 * zlen bm)).
    + now apply Getw_window.
    + apply Getw_outside; [lia|now right].
  - apply Getw_outside; [lia|now left].
Qed.

Theorem Getw32_any bm i w : width_ok w -> words_ok bm -> - 2^31 <= i * w < 2^31 ->
  Getw32 bm i w = spec_Getw_any bm i w.
Proof. intros Hw Hbm H. rewrite Getw32_eq by exact H. now apply Getw_any. Qed.

(** the element is a [w]-bit number *)
Lemma val_lsb_range l : 0 <= val_lsb l < 2 ^ Z.of_nat (length l).
Proof.
  induction l as [|b l IH]; cbn [val_lsb length]; [change (2 ^ Z.of_nat 0) with 1; lia|].
  rewrite Nat2Z.inj_succ, Z.pow_succ_r by lia. destruct b; cbn [Z.b2z]; lia.
Qed.

(** * Slice with int32 arithmetic *)
Theorem Slice32_eq ws from to : 0 <= to - from -> to - from + 63 < 2^31 -> Slice32 ws from to = Slice ws from to.
Proof.
  intros H0 H1. unfold Slice32, Slice. rewrite (i32_id (to - from)) by lia.
  rewrite i32_id by lia. now rewrite sar32_6.
Qed.

(** * split into elements, Join again *)
Lemma all_some_map {A B} (f : A -> option B) (g : A -> B) l :
  (forall x, In x l -> f x = Some (g x)) -> all_some (map f l) = Some (map g l).
Proof.
  induction l as [|a l IH]; intros H; [reflexivity|].
  cbn [map all_some]. rewrite (H a (or_introl eq_refl)). rewrite IH; [reflexivity|].
  intros x Hx. apply H. now right.
Qed.

Lemma width_div w : width_ok w -> exists c, 0 < c /\ 64 = c * w.
Proof.
  intros H. exists (64 / w). cbn [In] in H.
  destruct H as [<-|[<-|[<-|[<-|[<-|[<-|[<-|[]]]]]]]]; vm_compute; split; reflexivity.
Qed.

Theorem SplitJoin_id bm w : width_ok w -> words_ok bm -> 64 * zlen bm < 2^31 -> SplitJoin bm w = Some bm.
Proof.
  intros Hw Hbm Hsz. pose proof (w_pos w Hw) as Hwp. pose proof (zlen_nonneg bm) as HL.
  destruct (width_div w Hw) as (c & Hc & E64).
  unfold SplitJoin. destruct (Z.eqb_spec w 0); [lia|].
  rewrite Z.quot_div_nonneg by lia.
  assert (Hn : 64 * zlen bm / w = c * zlen bm).
  { rewrite E64. replace (c * w * zlen bm) with (c * zlen bm * w) by lia. apply Z.div_mul. lia. }
  rewrite (all_some_map _ (fun i => window bm (Z.of_nat i) w)).
  2:{ intros x Hx. apply in_seq in Hx. rewrite Getw32_eq by nia.
      apply Getw_window; try assumption; nia. }
  fold (elements bm w).
  destruct (Join_bits (elements bm w) w Hw) as (r & E & O & L & T). rewrite E. f_equal.
  assert (Hel : zlen (elements bm w) = c * zlen bm).
  { unfold elements, zlen. rewrite map_length, seq_length. unfold zlen in Hn. rewrite Hn. nia. }
  assert (Hr : zlen r = zlen bm).
  { rewrite L, Hel. unfold cdiv64. replace (c * zlen bm * w + 63) with (63 + zlen bm * 64) by (rewrite E64; ring).
    rewrite Z.div_add by lia. change (63 / 64) with 0. lia. }
  apply flat_inj; try assumption.
  apply flat_eq_by_tb.
  - rewrite flat_length. unfold zlen in Hr. lia.
  - intros m Hlt. rewrite flat_length in Hlt. rewrite nth_flat_tb.
    set (p := Z.of_nat m). assert (Hp : 0 <= p < 64 * zlen bm) by (unfold p, zlen; lia).
    rewrite T by lia. unfold pbit.
    destruct (Z.leb_spec 0 p); [|lia]. rewrite Hel.
    destruct (Z.ltb_spec p (c * zlen bm * w)); [|nia]. cbn [andb].
    pose proof (Z.div_mod p w ltac:(lia)) as Dp. pose proof (Z.mod_pos_bound p w ltac:(lia)) as Mp.
    assert (Hq : 0 <= p / w) by (apply Z.div_pos; lia).
    assert (Hq' : p / w < c * zlen bm) by (apply Z.div_lt_upper_bound; nia).
    assert (Hnth : nth (Z.to_nat (p / w)) (elements bm w) 0 = window bm (p / w) w).
    { apply nth_error_nth. unfold elements. rewrite nth_error_map, seq_nth_error.
      - cbn [option_map]. f_equal. f_equal. lia.
      - rewrite Hn. lia. }
    rewrite Hnth, window_testbit by nia.
    destruct (Z.ltb_spec (p mod w) w); [|lia]. cbn [andb]. f_equal. lia.
Qed.
