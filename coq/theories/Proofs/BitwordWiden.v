(** Proofs for the widened C08 statements (Spec/BitwordSpecWiden.v). *)
From Coq Require Import ZArith List Bool Lia PeanoNat.
From Low Require Import Lib.MachInt Lib.Bits Lib.BitSeq Lib.Bytes Lib.Lex Lib.Val Lib.Pack_bw Lib.PackLemmas_bw Lib.LexLemmas_bw
  Model.Bitword Spec.BitwordSpec Spec.BitwordSpecDirect Spec.BitwordSpecWiden
  Proofs.BitwordProofs Proofs.BitwordToStr Proofs.BitwordFirstDiff Proofs.BitwordDirect.
Import ListNotations.
Open Scope Z_scope.

(** * FromStr keeps the order *)
Lemma FromStr_byte_cmp n x y : widthP n -> byte_ok x -> byte_ok y ->
  bytes_cmp (FromStr_byte (newBW (Z.of_nat n)) x) (FromStr_byte (newBW (Z.of_nat n)) y) = (x ?= y).
Proof.
  intros Hn Hx Hy.
  assert (T : forallb (fun n => forallb (fun x => forallb (fun y =>
             comparison_eqb (bytes_cmp (FromStr_byte (newBW (Z.of_nat n)) x) (FromStr_byte (newBW (Z.of_nat n)) y)) (x ?= y))
             (zrange 256)) (zrange 256)) [1%nat; 2%nat; 4%nat; 8%nat] = true) by (vm_compute; reflexivity).
  apply comparison_eqb_eq. rewrite forallb_forall in T.
  specialize (T n ltac:(destruct Hn as [ -> | [ -> | [ -> | -> ]]]; cbn; auto)).
  pose proof (forall_zrange _ _ T x Hx) as T2. cbv beta in T2.
  exact (forall_zrange _ _ T2 y Hy).
Qed.

Lemma FromStr_cons w b s : FromStr w (b :: s) = FromStr_byte w b ++ FromStr w s.
Proof. reflexivity. Qed.

Lemma FromStr_order n a : widthP n -> forall b, bytes_ok a -> bytes_ok b ->
  bytes_cmp (FromStr (newBW (Z.of_nat n)) a) (FromStr (newBW (Z.of_nat n)) b) = bytes_cmp a b.
Proof.
  intros Hn. assert (Hm : (0 < capn n)%nat) by (destruct Hn as [ -> | [ -> | [ -> | -> ]]]; cbn; lia).
  induction a as [|x a IH]; intros [|y b] Ha Hb.
  - reflexivity.
  - rewrite FromStr_cons. pose proof (FromStr_byte_length n y Hn) as L.
    destruct (FromStr_byte (newBW (Z.of_nat n)) y); [cbn in L; lia|reflexivity].
  - rewrite FromStr_cons. pose proof (FromStr_byte_length n x Hn) as L.
    destruct (FromStr_byte (newBW (Z.of_nat n)) x); [cbn in L; lia|reflexivity].
  - inversion Ha; inversion Hb; subst. rewrite !FromStr_cons.
    unfold bytes_cmp. rewrite lex_cmp_app_eqlen by (rewrite !FromStr_byte_length by exact Hn; reflexivity).
    fold bytes_cmp. rewrite FromStr_byte_cmp by assumption.
    unfold bytes_cmp at 2. cbn [lex_cmp]. fold bytes_cmp. destruct (x ?= y); try reflexivity. now apply IH.
Qed.

Lemma FromStr_cmp n a b : widthP n -> bytes_ok a -> bytes_ok b ->
  cmp_sign (bytes_cmp (FromStr (newBW (Z.of_nat n)) a) (FromStr (newBW (Z.of_nat n)) b)) = spec_FromStr_cmp a b.
Proof. intros. unfold spec_FromStr_cmp. now rewrite FromStr_order. Qed.

(** FromStr is injective (a consequence of the round trip) *)
Lemma FromStr_inj n a b : widthP n -> bytes_ok a -> bytes_ok b ->
  FromStr (newBW (Z.of_nat n)) a = FromStr (newBW (Z.of_nat n)) b -> a = b.
Proof.
  intros Hn Ha Hb E. apply (f_equal (ToStr (newBW (Z.of_nat n)))) in E.
  rewrite !ToStr_FromStr in E by assumption. congruence.
Qed.

(** * Get for every index *)
Lemma Get_any n s i : widthP n -> bytes_ok s -> Get (newBW (Z.of_nat n)) s i = spec_Get_any n s i.
Proof.
  intros Hn Hs. unfold spec_Get_any.
  destruct (Z.leb_spec 0 i); [destruct (Z.ltb_spec i (nwords n s))|].
  - now apply Get_word.
  - rewrite Get_outside by (try exact Hn; lia). unfold spec_word.
    destruct (Z.ltb_spec i (nwords n s)); [lia|]. now rewrite andb_false_r.
  - rewrite Get_outside by (try exact Hn; lia). unfold spec_word.
    destruct (Z.leb_spec 0 i); [lia|]. reflexivity.
Qed.

(** * FirstDiff for every (from, end) *)
Lemma FirstDiff_unfold n a b from end_ : widthP n ->
  FirstDiff (newBW (Z.of_nat n)) a b from end_ =
  FirstDiff_loop (newBW (Z.of_nat n)) a b from (spec_lim n a b end_) (Z.to_nat (spec_lim n a b end_ - from)).
Proof.
  intros Hn. unfold FirstDiff.
  set (w := newBW (Z.of_nat n)).
  set (la := zlen a * byteCap w). set (lb := zlen b * byteCap w).
  assert (Ela : nwords n a = la).
  { subst la w. unfold nwords. rewrite <- (FromStr_length n a Hn), (FromStr_zlen n Hn), (byteCap_capn n Hn). reflexivity. }
  assert (Elb : nwords n b = lb).
  { subst lb w. unfold nwords. rewrite <- (FromStr_length n b Hn), (FromStr_zlen n Hn), (byteCap_capn n Hn). reflexivity. }
  set (e1 := if end_ =? -1 then la else end_).
  set (e2 := if e1 >? la then la else e1).
  set (e3 := if e2 >? lb then lb else e2).
  assert (E3 : e3 = spec_lim n a b end_).
  { unfold spec_lim. cbv zeta. rewrite Ela, Elb. fold e1. subst e3 e2.
    rewrite !Z.gtb_ltb. destruct (Z.ltb_spec la e1); destruct (Z.ltb_spec lb la);
      destruct (Z.ltb_spec lb e1); lia. }
  now rewrite E3.
Qed.

Lemma FirstDiff_any n a b from end_ : widthP n -> bytes_ok a -> bytes_ok b ->
  FirstDiff (newBW (Z.of_nat n)) a b from end_ = spec_FirstDiff_any n a b from end_.
Proof.
  intros Hn Ha Hb. unfold spec_FirstDiff_any. cbv zeta.
  rewrite FirstDiff_unfold by exact Hn.
  set (L := spec_lim n a b end_).
  destruct (Z.leb_spec L from) as [Hle|Hlt]; destruct (Z.ltb_spec from 0) as [Hneg|Hpos].
  - clearbody L. replace (Z.to_nat (L - from)) with 0%nat by lia.
    cbn [FirstDiff_loop]. destruct (Z.ltb_spec from L); [lia|reflexivity].
  - clearbody L. replace (Z.to_nat (L - from)) with 0%nat by lia.
    cbn [FirstDiff_loop]. destruct (Z.ltb_spec from L); [lia|reflexivity].
  - clearbody L. assert (Ef : Z.to_nat (L - from) = S (Z.to_nat (L - from - 1))) by lia.
    rewrite Ef. cbn [FirstDiff_loop]. destruct (Z.ltb_spec from L); [|lia].
    rewrite (Get_outside n a from Hn) by lia. reflexivity.
  - subst L. rewrite <- FirstDiff_unfold by exact Hn.
    rewrite spec_FirstDiff_direct_eq by now apply widthP_pos.
    rewrite (FirstDiff_model n Hn) by exact Hpos.
    unfold spec_FirstDiff, fd_lim, first_in, win. cbv zeta.
    rewrite !FromStr_exact by assumption. reflexivity.
Qed.

(** * ToStr on arbitrary bytes *)
Lemma shl8_mod b k : 0 <= k <= 8 -> shl8 b k = (b * 2 ^ k) mod 256.
Proof.
  intros Hk. unfold shl8. destruct (Z.leb_spec 0 k); [|lia]. destruct (Z.ltb_spec k 8); cbn [andb].
  - reflexivity.
  - assert (k = 8) by lia. subst k. change (2 ^ 8) with 256. now rewrite Z.mod_mul by lia.
Qed.

Lemma numeral_snoc n g x : numeral n (g ++ [x]) = numeral n g * 2 ^ Z.of_nat n + x.
Proof. unfold numeral. now rewrite fold_left_app. Qed.

Section ToStrAny.
  Variable n : nat.
  Hypothesis Hn : widthP n.
  Local Notation w := (newBW (Z.of_nat n)).
  Local Notation m := (capn n).

  Lemma n_le8 : 0 <= Z.of_nat n <= 8.
  Proof. destruct Hn as [ -> | [ -> | [ -> | -> ]]]; lia. Qed.

  Lemma tostr_fold_any bs : forall t, (t <= m)%nat ->
    fold_left (tostr_step (Z.of_nat n) (Z.of_nat m) bs 0) (zrange (Z.of_nat t)) (Some 0) =
    Some (numeral n (firstn t (grp m bs)) mod 256).
  Proof.
    induction t as [|t IH]; intros Ht; [reflexivity|].
    rewrite zrange_S, fold_left_app, IH by lia. cbn [fold_left].
    set (g := grp m bs). set (N := numeral n (firstn t g)).
    assert (Hsh : shl8 (N mod 256) (Z.of_nat n) = (N * 2 ^ Z.of_nat n) mod 256).
    { rewrite shl8_mod by apply n_le8. now rewrite Z.mul_mod_idemp_l by lia. }
    assert (Hg : forall x, nth_error g t = Some x ->
                 numeral n (firstn (S t) g) = N * 2 ^ Z.of_nat n + x).
    { intros x Hx. now rewrite (firstn_succ_nth _ _ _ Hx), numeral_snoc. }
    unfold tostr_step. rewrite Z.mul_0_l, Z.add_0_l, nthZ_of_nat.
    unfold zlen. destruct (Z.ltb_spec (Z.of_nat t) (Z.of_nat (length bs))) as [Hlt|Hge].
    - assert (Hnth : nth_error g t = nth_error bs t) by (apply grp_nth_lt; lia).
      destruct (nth_error bs t) as [x|] eqn:Ex; [|apply nth_error_None in Ex; lia].
      rewrite (Hg x Hnth), Hsh. f_equal. unfold u8. change (2 ^ 8) with 256.
      now rewrite Z.add_mod_idemp_l by lia.
    - assert (Hnth : nth_error g t = Some 0) by (apply grp_nth_ge; lia).
      rewrite (Hg 0 Hnth), Hsh. f_equal. f_equal. lia.
  Qed.

  Lemma ToStr_byte_0_any bs : ToStr_byte w bs 0 = Some (numeral n (grp m bs) mod 256).
  Proof.
    rewrite ToStr_byte_fold, (width_w n Hn), (byteCap_w n Hn).
    rewrite (tostr_fold_any bs m) by lia.
    rewrite firstn_all2 by (rewrite grp_length; lia). reflexivity.
  Qed.

  Definition padm (len : nat) : nat := ((m - len mod m) mod m)%nat.

  Lemma spec_ToStr_any_eq ws :
    spec_ToStr_any n ws = map (fun g => numeral n g mod 256) (chunks m (ws ++ repeat 0 (padm (length ws)))).
  Proof. unfold spec_ToStr_any. cbv zeta. rewrite chunks_seq_eq by (try apply (m_pos n Hn); lia). reflexivity. Qed.

  Lemma ToStr_any_w ws : ToStr w ws = Some (spec_ToStr_any n ws).
  Proof.
    pose proof (m_pos n Hn) as Hm.
    revert ws.
    apply (list_ind_block m (fun ws => ToStr w ws = Some (spec_ToStr_any n ws)) Hm);
      [ | intros c Hc | intros c l Hc Hl IH].
    - rewrite ToStr_unfold, (tostr_sz_nil n Hn), spec_ToStr_any_eq. unfold padm.
      cbn [length]. rewrite Nat.mod_0_l, Nat.sub_0_r, Nat.mod_same by lia. cbn [repeat app].
      rewrite chunks_short by (cbn; lia). reflexivity.
    - rewrite ToStr_unfold, (tostr_sz_short n Hn) by exact Hc.
      change (zrange 1) with [0]. cbn [map opt_all]. rewrite ToStr_byte_0_any.
      f_equal. rewrite spec_ToStr_any_eq.
      assert (Ep : padm (length c) = (m - length c)%nat).
      { unfold padm. destruct (Nat.eq_dec (length c) m) as [E|E].
        - rewrite E, Nat.mod_same, Nat.sub_0_r, Nat.mod_same, Nat.sub_diag by lia. reflexivity.
        - rewrite (Nat.mod_small (length c)) by lia. apply Nat.mod_small. lia. }
      rewrite Ep, chunks_one by (try rewrite app_length, repeat_length; lia).
      cbn [map]. rewrite grp_short by lia. reflexivity.
    - rewrite ToStr_unfold, (tostr_sz_block n Hn) by exact Hc.
      rewrite zrange_cons by apply (tostr_sz_nonneg n Hn). cbn [map opt_all].
      rewrite ToStr_byte_0_any, grp_full by exact Hc.
      rewrite map_map.
      rewrite (map_ext_in _ (ToStr_byte w l)).
      2:{ intros i Hi. apply in_zrange in Hi. apply (ToStr_byte_shift n Hn); [exact Hc|lia]. }
      rewrite <- ToStr_unfold, IH.
      f_equal. rewrite !spec_ToStr_any_eq.
      assert (Ep : padm (length (c ++ l)) = padm (length l)).
      { unfold padm. rewrite app_length, Hc. replace (m + length l)%nat with (length l + 1 * m)%nat by lia.
        now rewrite Nat.mod_add by lia. }
      rewrite Ep, <- app_assoc, (chunks_app_block m c) by (lia || exact Hc). reflexivity.
  Qed.
End ToStrAny.

Lemma ToStr_any n ws : widthP n -> ToStr (newBW (Z.of_nat n)) ws = Some (spec_ToStr_any n ws).
Proof. intros Hn. now apply ToStr_any_w. Qed.

(** on in-range words the numeral of a group is the value of its bits (< 256): the two
    readings of ToStr agree *)
Lemma spec_ToStr_any_in n ws : widthP n -> words_in n ws -> spec_ToStr_any n ws = spec_ToStr n ws.
Proof.
  intros Hn Hin. pose proof (ToStr_any n ws Hn) as A. rewrite (ToStr_exact n ws Hn Hin) in A. congruence.
Qed.
