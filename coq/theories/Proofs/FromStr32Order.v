(** C11, widened: PathOf is monotone from Go's string order to the numeric
    order of path words; PathsOf with dedup on sorted keys is the strictly
    increasing set of paths; the C10 accessors read back what FromStr32 returned. *)
From Coq Require Import ZArith List Lia Bool Sorted RelationClasses.
From Low Require Import Lib.MachInt Lib.Bits Lib.BitSeq Lib.Lex Lib.Bytes Lib.BitsExtra_tree Lib.LexLemmas_bw
  Spec.Bmtree Spec.PathSpec Spec.FromStr32Spec Spec.PathsOfSortedSpec
  Model.BmtreePath Model.BmtreePathStr Model.FromStr32 Model.FromStr32Variants
  Proofs.BmtreePathProofs Proofs.FromStr32Proofs.
Import ListNotations.
Open Scope Z_scope.

Local Ltac Zify.zify_post_hook ::= Z.div_mod_to_equations.

(** * lexicographic order, truncation and a common prefix *)

Lemma lex_cmp_firstn_le {A} (cmp : A -> A -> comparison) n : forall a b,
  lex_cmp cmp a b <> Gt -> lex_cmp cmp (firstn n a) (firstn n b) <> Gt.
Proof.
  induction n as [|n IH]; intros a b H; [cbn; discriminate|].
  destruct a as [|x a], b as [|y b]; cbn [firstn lex_cmp] in *; try congruence.
  destruct (cmp x y); try congruence. now apply IH.
Qed.

Lemma lex_cmp_skipn_le {A} (cmp : A -> A -> comparison) (R : forall x, cmp x x = Eq) n : forall a b,
  firstn n a = firstn n b -> lex_cmp cmp a b <> Gt -> lex_cmp cmp (skipn n a) (skipn n b) <> Gt.
Proof.
  induction n as [|n IH]; intros a b E H; [exact H|].
  destruct a as [|x a], b as [|y b]; cbn [firstn skipn] in *; try discriminate E; [exact H|].
  injection E as -> E. cbn [lex_cmp] in H. rewrite R in H. now apply IH.
Qed.

(** * PathOf is monotone *)

(** the selected bits are the first h bits after [from] (the clamp only says where the string ends) *)
Lemma sel_bits_firstn_h s from h : 0 <= from -> 0 <= h ->
  sel_bits s from (spec_k s from h) = firstn (Z.to_nat h) (skipn (Z.to_nat from) (msb_bits s)).
Proof.
  intros Hf Hh. rewrite sel_bits_naive. set (l := skipn (Z.to_nat from) (msb_bits s)).
  assert (Hl : length l = (8 * length s - Z.to_nat from)%nat) by (subst l; now rewrite skipn_length, msb_bits_length).
  unfold spec_k, clamp, zlen. destruct (Z.le_gt_cases h (8 * Z.of_nat (length s) - from)).
  - replace (Z.max 0 (Z.min (8 * Z.of_nat (length s) - from) h)) with h by lia. reflexivity.
  - rewrite (firstn_all2 (n := Z.to_nat h)) by lia. rewrite firstn_all2 by lia. reflexivity.
Qed.

Lemma spec_PathOf_compare s1 s2 from h : 0 <= from -> 0 <= h <= 32 ->
  (spec_PathOf s1 from h ?= spec_PathOf s2 from h) =
  bits_cmp (firstn (Z.to_nat h) (skipn (Z.to_nat from) (msb_bits s1)))
           (firstn (Z.to_nat h) (skipn (Z.to_nat from) (msb_bits s2))).
Proof.
  intros Hf Hh. unfold spec_PathOf. rewrite !sel_bits_firstn_h by lia.
  apply enc_compare; [lia| |]; rewrite firstn_length; lia.
Qed.

Lemma spec_PathOf_mono s1 s2 from h :
  bytes_ok s1 -> bytes_ok s2 -> 0 <= from -> 0 <= h <= 32 ->
  firstn (Z.to_nat from) (msb_bits s1) = firstn (Z.to_nat from) (msb_bits s2) ->
  bytes_cmp s1 s2 <> Gt ->
  spec_PathOf s1 from h <= spec_PathOf s2 from h.
Proof.
  intros H1 H2 Hf Hh Hp Hc. unfold Z.le. rewrite spec_PathOf_compare by lia.
  apply lex_cmp_firstn_le. apply lex_cmp_skipn_le; [apply bool_cmp_refl|exact Hp|].
  fold bits_cmp. rewrite <- bytes_cmp_msb_bits by assumption. exact Hc.
Qed.

(** equal paths <-> equal selected bit strings *)
Lemma spec_PathOf_eq_iff s1 s2 from h : 0 <= from -> 0 <= h <= 32 ->
  spec_PathOf s1 from h = spec_PathOf s2 from h <->
  firstn (Z.to_nat h) (skipn (Z.to_nat from) (msb_bits s1)) = firstn (Z.to_nat h) (skipn (Z.to_nat from) (msb_bits s2)).
Proof.
  intros Hf Hh. rewrite <- Z.compare_eq_iff, spec_PathOf_compare by lia. apply bits_cmp_eq.
Qed.

(** * dedup of a non-decreasing list *)

Lemma dedup_after_sorted l : forall prev, Sorted Z.le (prev :: l) -> Sorted Z.lt (prev :: dedup_after prev l).
Proof.
  induction l as [|x l IH]; intros prev H; [repeat constructor|].
  inversion H as [|? ? Hs Hh]; subst. inversion Hh as [|? ? Hle]; subst.
  cbn [dedup_after]. destruct (Z.eqb_spec x prev) as [->|Hne]; [now apply IH|].
  constructor; [now apply IH|constructor; lia].
Qed.

Lemma dedup_adjacent_sorted l : Sorted Z.le l -> Sorted Z.lt (dedup_adjacent l).
Proof. destruct l as [|x l]; [constructor|apply dedup_after_sorted]. Qed.

Lemma In_dedup_after x l : forall prev, In x l -> x = prev \/ In x (dedup_after prev l).
Proof.
  induction l as [|y l IH]; intros prev H; [destruct H|].
  cbn [dedup_after]. destruct (Z.eqb_spec y prev) as [->|Hne]; destruct H as [->|H].
  - now left.
  - destruct (IH prev H) as [->|]; [now left|now right].
  - right. now left.
  - right. destruct (IH y H) as [->|]; [now left|now right].
Qed.

Lemma dedup_after_In x l : forall prev, In x (dedup_after prev l) -> In x l.
Proof.
  induction l as [|y l IH]; intros prev H; [destruct H|].
  cbn [dedup_after] in H. destruct (y =? prev).
  - right. eapply IH; eauto.
  - destruct H as [->|H]; [now left|right; eapply IH; eauto].
Qed.

Lemma In_dedup_adjacent x l : In x (dedup_adjacent l) <-> In x l.
Proof.
  destruct l as [|y l]; [reflexivity|]. cbn [dedup_adjacent]. split.
  - intros [->|H]; [now left|right; eapply dedup_after_In; eauto].
  - intros [->|H]; [now left|]. destruct (In_dedup_after x l y H) as [->|]; [now left|now right].
Qed.

(** * PathsOf on sorted keys *)

Lemma paths_sorted keys from h p :
  0 <= from -> 0 <= h <= 32 ->
  Forall bytes_ok keys ->
  Forall (fun s => firstn (Z.to_nat from) (msb_bits s) = p) keys ->
  Sorted (fun a b => bytes_cmp a b <> Gt) keys ->
  Sorted Z.le (map (fun s => spec_PathOf s from h) keys).
Proof.
  intros Hf Hh Hok Hp Hs. induction Hs as [|s t Ht IH Hhd]; [constructor|].
  inversion Hok as [|? ? Hs0 Hok']; subst. inversion Hp as [|? ? Hp0 Hp']; subst.
  cbn [map]. constructor; [now apply IH|].
  destruct Hhd as [|s' t' Hc]; cbn [map]; constructor.
  inversion Hok' as [|? ? Hs1 _]; subst. inversion Hp' as [|? ? Hp1 _]; subst.
  apply spec_PathOf_mono; try assumption. congruence.
Qed.

Lemma key_ok_bytes keys : Forall key_ok keys -> Forall bytes_ok keys.
Proof. intros H. eapply Forall_impl; [|exact H]. now intros s [? ?]. Qed.

Lemma Zlt_trans_inst : Transitive Z.lt.
Proof. intros a b c. apply Z.lt_trans. Qed.

(** on sorted keys with a common first-[from]-bits prefix, PathsOf with dedup is the
    strictly increasing list of the set of the keys' paths *)
Lemma PathsOf_sorted keys from h p :
  Forall (fun s => bytes_ok s /\ 8 * zlen s < 2 ^ 31) keys ->
  0 <= from -> 0 <= h <= 32 -> from + h + 7 < 2 ^ 31 ->
  Forall (fun s => firstn (Z.to_nat from) (msb_bits s) = p) keys ->
  Sorted (fun a b => bytes_cmp a b <> Gt) keys ->
  exists ps, PathsOf keys from h true = Some ps /\
    StronglySorted Z.lt ps /\
    forall x, In x ps <-> exists s, In s keys /\ PathOf s from h = Some x.
Proof.
  intros Hk Hf Hh Hov Hp Hs. exists (spec_PathsOf keys from h true).
  split; [now apply PathsOf_spec|]. unfold spec_PathsOf. split.
  - apply Sorted_StronglySorted; [exact Zlt_trans_inst|].
    apply dedup_adjacent_sorted. eapply paths_sorted; eauto. now apply key_ok_bytes.
  - intros x. rewrite In_dedup_adjacent, in_map_iff. rewrite Forall_forall in Hk. split.
    + intros [s [<- Hin]]. exists s. split; [exact Hin|]. destruct (Hk s Hin). now apply PathOf_spec.
    + intros [s [Hin E]]. exists s. split; [|exact Hin]. destruct (Hk s Hin).
      rewrite PathOf_spec in E by assumption. congruence.
Qed.

(** PathOf is monotone (model function on both sides) *)
Lemma PathOf_monotone s1 s2 from h :
  bytes_ok s1 -> 8 * zlen s1 < 2 ^ 31 -> bytes_ok s2 -> 8 * zlen s2 < 2 ^ 31 ->
  0 <= from -> 0 <= h <= 32 -> from + h + 7 < 2 ^ 31 ->
  firstn (Z.to_nat from) (msb_bits s1) = firstn (Z.to_nat from) (msb_bits s2) ->
  bytes_cmp s1 s2 <> Gt ->
  exists p1 p2, PathOf s1 from h = Some p1 /\ PathOf s2 from h = Some p2 /\ p1 <= p2 /\
    (p1 = p2 <-> firstn (Z.to_nat h) (skipn (Z.to_nat from) (msb_bits s1)) =
                 firstn (Z.to_nat h) (skipn (Z.to_nat from) (msb_bits s2))).
Proof.
  intros H1 L1 H2 L2 Hf Hh Hov Hp Hc.
  exists (spec_PathOf s1 from h), (spec_PathOf s2 from h).
  split; [now apply PathOf_spec|]. split; [now apply PathOf_spec|].
  split; [now apply spec_PathOf_mono|]. now apply spec_PathOf_eq_iff.
Qed.

(** * the boolean checkers of Spec/PathsOfSortedSpec.v *)

Lemma adjacentb_Sorted {A} (r : A -> A -> bool) (R : A -> A -> Prop) :
  (forall x y, r x y = true <-> R x y) -> forall l, adjacentb r l = true <-> Sorted R l.
Proof.
  intros H l. induction l as [|x l IH]; [split; [constructor|reflexivity]|].
  destruct l as [|y l].
  - split; [repeat constructor|reflexivity].
  - change (adjacentb r (x :: y :: l)) with (r x y && adjacentb r (y :: l)).
    rewrite andb_true_iff, IH, H. split.
    + intros [Hr Hs]. constructor; [exact Hs|now constructor].
    + intros Hs. inversion Hs as [|? ? Hs' Hh]; subst. inversion Hh; subst. now split.
Qed.

Lemma bytes_leb_iff a b : bytes_leb a b = true <-> bytes_cmp a b <> Gt.
Proof. unfold bytes_leb. destruct (bytes_cmp a b); split; congruence. Qed.

Lemma bits_eqb_eq a : forall b, bits_eqb a b = true <-> a = b.
Proof.
  induction a as [|x a IH]; intros [|y b]; cbn [bits_eqb]; try (split; congruence).
  rewrite andb_true_iff, IH. split.
  - intros [E ->]. apply Bool.eqb_prop in E. now subst.
  - intros E. injection E as -> ->. split; [apply Bool.eqb_reflx|reflexivity].
Qed.

Lemma same_prefixb_ok from keys : same_prefixb from keys = true ->
  exists p, Forall (fun s => firstn (Z.to_nat from) (msb_bits s) = p) keys.
Proof.
  destruct keys as [|s0 t]; [exists []; constructor|]. cbn [same_prefixb]. intros H.
  exists (firstn (Z.to_nat from) (msb_bits s0)). constructor; [reflexivity|].
  rewrite forallb_forall in H. apply Forall_forall. intros s Hs. now apply bits_eqb_eq, H.
Qed.

Lemma memZ_In x l : memZ x l = true <-> In x l.
Proof.
  unfold memZ. rewrite existsb_exists. split.
  - intros [y [Hy E]]. apply Z.eqb_eq in E. now subst.
  - intros H. exists x. split; [exact H|apply Z.eqb_refl].
Qed.

Lemma strictly_incb_Sorted l : strictly_incb l = true <-> Sorted Z.lt l.
Proof. apply adjacentb_Sorted. intros x y. apply Z.ltb_lt. Qed.

(** the relational checker accepts the model's output on every in-domain input *)
Lemma sorted_paths_ok_model keys from h :
  Forall (fun s => bytes_ok s /\ 8 * zlen s < 2 ^ 31) keys ->
  0 <= from -> 0 <= h <= 32 -> from + h + 7 < 2 ^ 31 ->
  keys_sortedb keys = true -> same_prefixb from keys = true ->
  exists ps, PathsOf keys from h true = Some ps /\ sorted_paths_ok keys from h ps = true.
Proof.
  intros Hk Hf Hh Hov Hs Hp. exists (spec_PathsOf keys from h true).
  split; [now apply PathsOf_spec|].
  destruct (same_prefixb_ok from keys Hp) as [p Hp'].
  apply (adjacentb_Sorted bytes_leb (fun a b => bytes_cmp a b <> Gt) bytes_leb_iff) in Hs.
  unfold sorted_paths_ok, spec_PathsOf. rewrite !andb_true_iff. repeat split.
  - apply strictly_incb_Sorted, dedup_adjacent_sorted. eapply paths_sorted; eauto. now apply key_ok_bytes.
  - apply forallb_forall. intros s Hin. apply memZ_In, In_dedup_adjacent, in_map_iff. now exists s.
  - apply forallb_forall. intros x Hin. apply memZ_In. exact (proj1 (In_dedup_adjacent _ _) Hin).
Qed.

(** ... and whatever it accepts is that list: a strictly increasing list is determined by its set *)
Lemma Sorted_lt_set_eq : forall l1 l2, Sorted Z.lt l1 -> Sorted Z.lt l2 ->
  (forall x, In x l1 <-> In x l2) -> l1 = l2.
Proof.
  intros l1 l2 H1 H2. apply (Sorted_StronglySorted Zlt_trans_inst) in H1, H2.
  revert l2 H2. induction H1 as [|a l1 Hs1 IH Hall1]; intros l2 H2 E.
  - destruct l2 as [|b l2]; [reflexivity|]. destruct (proj2 (E b)); now left.
  - destruct H2 as [|b l2 Hs2 Hall2]; [destruct (proj1 (E a)); now left|].
    rewrite Forall_forall in Hall1, Hall2.
    assert (a = b).
    { destruct (proj1 (E a) (or_introl eq_refl)) as [->|Ha]; [reflexivity|].
      destruct (proj2 (E b) (or_introl eq_refl)) as [->|Hb]; [reflexivity|].
      specialize (Hall1 b Hb). specialize (Hall2 a Ha). lia. }
    subst b. f_equal. apply IH; [exact Hs2|]. intros x. split; intros Hx.
    + destruct (proj1 (E x) (or_intror Hx)) as [<-|]; [|assumption]. specialize (Hall1 a Hx). lia.
    + destruct (proj2 (E x) (or_intror Hx)) as [<-|]; [|assumption]. specialize (Hall2 a Hx). lia.
Qed.

Lemma sorted_paths_ok_unique keys from h obs :
  Forall (fun s => bytes_ok s /\ 8 * zlen s < 2 ^ 31) keys ->
  0 <= from -> 0 <= h <= 32 -> from + h + 7 < 2 ^ 31 ->
  keys_sortedb keys = true -> same_prefixb from keys = true ->
  sorted_paths_ok keys from h obs = true -> PathsOf keys from h true = Some obs.
Proof.
  intros Hk Hf Hh Hov Hs Hp Hobs.
  destruct (sorted_paths_ok_model keys from h Hk Hf Hh Hov Hs Hp) as [ps [E Hps]].
  rewrite E. f_equal. unfold sorted_paths_ok in *. rewrite !andb_true_iff in *.
  destruct Hobs as [[O1 O2] O3]. destruct Hps as [[P1 P2] P3].
  rewrite forallb_forall in O2, O3, P2, P3.
  apply Sorted_lt_set_eq; [now apply strictly_incb_Sorted|now apply strictly_incb_Sorted|].
  intros x. split; intros Hx.
  - apply P3, memZ_In, in_map_iff in Hx. destruct Hx as [s [<- Hin]]. now apply memZ_In, O2.
  - apply O3, memZ_In, in_map_iff in Hx. destruct Hx as [s [<- Hin]]. now apply memZ_In, P2.
Qed.

(** * the C10 accessors read back what FromStr32 returned *)
Lemma PathOf_fields s from h :
  bytes_ok s -> 0 <= from -> 0 <= h <= 32 -> from + h + 7 < 2 ^ 31 -> 8 * zlen s < 2 ^ 31 ->
  exists p k v, PathOf s from h = Some p /\ FromStr32 s from (from + h) = Some (k, v) /\
    k = clamp (8 * zlen s - from) 0 h /\
    PathLen p = k /\ (1 <= k -> PathHeight p = h) /\ (k = 0 -> p = 0) /\
    PathBits p = v /\ PathMask p = Mask k * 2 ^ (h - k).
Proof.
  intros Hs Hf Hh Hov Hlen.
  exists (spec_PathOf s from h), (spec_k s from h), (val_msb (spec_bits s from h)).
  split; [now apply PathOf_spec|]. split; [now apply FromStr32_spec|]. split; [reflexivity|].
  pose proof (spec_k_range s from h (proj1 Hh)) as Hk.
  pose proof (sel_bits_length s from h Hf (proj1 Hh)) as Hl.
  unfold spec_PathOf. set (q := sel_bits s from (spec_k s from h)) in *.
  assert (Hq : (length q <= Z.to_nat h)%nat) by lia.
  assert (H32 : (Z.to_nat h <= 32)%nat) by lia.
  split; [rewrite PathLen_enc by assumption; lia|].
  split; [intros Hk1; rewrite PathHeight_enc by lia; lia|].
  split; [intros Hk0; destruct q; [apply enc_nil|cbn [length] in Hl; lia]|].
  split.
  - rewrite PathBits_enc by assumption. rewrite spec_value_valL by lia. reflexivity.
  - rewrite PathMask_enc by assumption. unfold maskL. rewrite Hl. rewrite !Z2Nat.id by lia. reflexivity.
Qed.

Lemma PathOf_fields_checker s from h :
  bytes_ok s -> 0 <= from -> 0 <= h <= 32 -> from + h + 7 < 2 ^ 31 -> 8 * zlen s < 2 ^ 31 ->
  exists p, PathOf s from h = Some p /\
    [PathLen p; PathHeight p; PathBits p; PathMask p] = spec_PathOf_fields s from h.
Proof.
  intros Hs Hf Hh Hov Hlen.
  destruct (PathOf_fields s from h Hs Hf Hh Hov Hlen) as (p & k & v & Hp & Hv & Hk & H1 & H2 & H3 & H4 & H5).
  exists p. split; [exact Hp|]. unfold spec_PathOf_fields.
  rewrite FromStr32_spec in Hv by assumption.
  assert (E : spec_FromStr32 s from h = (k, v)) by congruence.
  rewrite E. cbn [fst snd]. rewrite H1, H4, H5. f_equal. f_equal.
  destruct (Z.leb_spec 1 k); [now apply H2|].
  assert (k = 0) as K0 by (unfold clamp in Hk; lia). rewrite (H3 K0). reflexivity.
Qed.

(** * consecutive windows compose *)

Lemma spec_bits_split s from w1 w2 : 0 <= from -> 0 <= w1 -> 0 <= w2 ->
  spec_bits s from (w1 + w2) = spec_bits s from w1 ++ spec_bits s (from + w1) w2.
Proof.
  intros Hf H1 H2. apply (nth_ext _ _ false false).
  - rewrite app_length, !spec_bits_length by lia. lia.
  - intros n Hn. rewrite spec_bits_length in Hn by lia. rewrite spec_bits_nth by lia.
    destruct (Nat.lt_ge_cases n (Z.to_nat w1)).
    + rewrite app_nth1 by (rewrite spec_bits_length; lia). now rewrite spec_bits_nth by lia.
    + rewrite app_nth2 by (rewrite spec_bits_length; lia). rewrite spec_bits_length by lia.
      rewrite spec_bits_nth by lia. f_equal. lia.
Qed.

Lemma FromStr32_split s from w1 w2 :
  bytes_ok s -> 0 <= from -> 0 <= w1 -> 0 <= w2 -> w1 + w2 <= 32 ->
  from + w1 + w2 + 7 < 2 ^ 31 -> 8 * zlen s < 2 ^ 31 ->
  exists k1 v1 k2 v2 k v,
    FromStr32 s from (from + w1) = Some (k1, v1) /\
    FromStr32 s (from + w1) (from + w1 + w2) = Some (k2, v2) /\
    FromStr32 s from (from + (w1 + w2)) = Some (k, v) /\
    k = k1 + k2 /\ v = v1 * 2 ^ w2 + v2 /\ (k1 < w1 -> k2 = 0).
Proof.
  intros Hs Hf H1 H2 H32 Hov Hlen.
  exists (spec_k s from w1), (val_msb (spec_bits s from w1)),
         (spec_k s (from + w1) w2), (val_msb (spec_bits s (from + w1) w2)),
         (spec_k s from (w1 + w2)), (val_msb (spec_bits s from (w1 + w2))).
  split; [apply FromStr32_spec; (assumption || lia)|].
  split; [apply FromStr32_spec; (assumption || lia)|].
  split; [apply FromStr32_spec; (assumption || lia)|].
  split; [unfold spec_k, clamp; lia|].
  split; [|unfold spec_k, clamp; lia].
  rewrite spec_bits_split, val_msb_app, spec_bits_length by lia. rewrite Z2Nat.id by lia. reflexivity.
Qed.

Lemma FromStr32_split_checker s from w1 w2 :
  bytes_ok s -> 0 <= from -> 0 <= w1 -> 0 <= w2 -> w1 + w2 <= 32 ->
  from + w1 + w2 + 7 < 2 ^ 31 -> 8 * zlen s < 2 ^ 31 ->
  split_ok w1 w2 (spec_FromStr32 s from w1) (spec_FromStr32 s (from + w1) w2)
                 (spec_FromStr32 s from (w1 + w2)) = true.
Proof.
  intros Hs Hf H1 H2 H32 Hov Hlen.
  destruct (FromStr32_split s from w1 w2 Hs Hf H1 H2 H32 Hov Hlen)
    as (k1 & v1 & k2 & v2 & k & v & E1 & E2 & E & Hk & Hv & Hz).
  rewrite FromStr32_spec in E1, E2, E by (assumption || lia).
  assert (A1 : spec_FromStr32 s from w1 = (k1, v1)) by congruence.
  assert (A2 : spec_FromStr32 s (from + w1) w2 = (k2, v2)) by congruence.
  assert (A : spec_FromStr32 s from (w1 + w2) = (k, v)) by congruence.
  rewrite A1, A2, A. clear E1 E2 E A1 A2 A.
  unfold split_ok. cbn [fst snd]. rewrite !andb_true_iff. repeat split. 1-2: lia.
  destruct (Z.ltb_spec k1 w1); [|reflexivity]. apply Z.eqb_eq. now apply Hz.
Qed.

(** * the clip of the byte limit at ceil(tobit/8) is only an optimisation

    FromStr32 clips [l := min(len(s), (tobit+7)>>3)] before the nested loads.  [FromStr32_noclip]
    (Model/FromStr32Variants.v) is FromStr32 with that clip removed ([l := len(s)]); on the domain
    of the property it returns the same result: the bytes beyond ceil(tobit/8) land in
    the low [40 - spanSize] bits of the window, which are shifted out.  (This is why
    the mutants "clip removed" / "(tobit+8)>>3" are equivalent, docs/selftest-C11.md.) *)
(** any byte limit between the clipped one and the string length selects the same bits *)
Lemma window_select s from w l :
  bytes_ok s -> 0 <= from -> 1 <= w <= 32 ->
  Z.min (zlen s) ((from + w + 7) / 8) <= l <= zlen s ->
  (window s (from / 8) l / 2 ^ (40 - (from + w - 8 * (from / 8)))) mod 2 ^ w = val_msb (spec_bits s from w).
Proof.
  intros Hs Hf Hw Hl.
  set (sh := 40 - (from + w - 8 * (from / 8))).
  assert (Hsh : 1 <= sh <= 40) by (subst sh; lia).
  apply spec_value_eq; [lia|lia|apply Z.mod_pos_bound; apply pow2_pos; lia|].
  intros n Hn. rewrite Z.mod_pow2_bits_low by lia. rewrite Z.div_pow2_bits by lia.
  set (t := from mod 8 + (w - 1 - n)).
  assert (Ht : 0 <= t < 40) by (subst t; lia).
  replace (n + sh) with (39 - t) by (subst t sh; lia).
  rewrite window_mbit; [f_equal; subst t; lia|assumption|lia|lia|lia|].
  subst t. lia.
Qed.

Lemma FromStr32_noclip_same s from w :
  bytes_ok s -> 0 <= from -> 0 <= w <= 32 -> from + w + 7 < 2 ^ 31 -> 8 * zlen s < 2 ^ 31 ->
  FromStr32_noclip s from (from + w) = FromStr32 s from (from + w).
Proof.
  intros Hs Hf Hw Hov Hlen. rewrite FromStr32_spec by assumption.
  unfold FromStr32_noclip, spec_FromStr32. cbv zeta. fold (spec_bits s from w).
  assert (Hz : 0 <= zlen s) by (unfold zlen; lia).
  replace (from + w - from) with w by lia. rewrite land_m8.
  rewrite (i32_id w) by lia.
  rewrite (i32_id (zlen s * 8)) by lia.
  rewrite (i32_id (zlen s * 8 - from)) by lia.
  rewrite (i32_id (from + w - 8 * (from / 8))) by lia.
  rewrite (i32_id (zlen s)) by lia.
  unfold sar32. change (3 <? 32) with true. cbv iota. change (2 ^ 3) with 8.
  set (k := if zlen s * 8 - from >? w then w else zlen s * 8 - from).
  assert (Hk : k = Z.min (8 * zlen s - from) w) by (subst k; destruct (zlen s * 8 - from >? w) eqn:E; lia).
  clearbody k.
  destruct (Z.leb_spec k 0) as [Hk0|Hk0].
  - f_equal. f_equal.
    + unfold spec_k, clamp. lia.
    + apply spec_value_eq; [lia|lia|pose proof (pow2_pos w); lia|].
      intros n Hn. rewrite Z.bits_0. symmetry. apply mbit_outside. lia.
  - rewrite gather_window by (assumption || lia).
    rewrite MaskAt_ok by lia.
    rewrite (i32_id (40 - (from + w - 8 * (from / 8)))) by lia.
    destruct (Z.ltb_spec (40 - (from + w - 8 * (from / 8))) 0) as [Hneg|_]; [lia|].
    rewrite shr64_div by lia. rewrite land_mask by lia.
    f_equal. f_equal.
    + unfold spec_k, clamp. lia.
    + apply window_select; (assumption || lia).
Qed.
