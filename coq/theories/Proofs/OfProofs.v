(** Proofs for C12, part 1: [Of] sets exactly the listed bits and has the stated length. *)
From Coq Require Import ZArith List Lia Bool Sorted.
From Low Require Import Lib.MachInt Lib.Bits Lib.BitSeq Lib.BitsExtra_bm2 Lib.BitsExtra_bm12
  Model.BitmapUtil Model.BuilderOps Model.BitmapOf Spec.OfSpec.
Import ListNotations.
Open Scope Z_scope.

(** * [set_nth] *)
Lemma set_nth_length {A} (l : list A) n x : length (set_nth l n x) = length l.
Proof. revert n. induction l as [|a l IH]; intros [|n]; cbn [set_nth length]; auto. Qed.

Lemma nth_set_nth_eq {A} (l : list A) n x d : (n < length l)%nat -> nth n (set_nth l n x) d = x.
Proof.
  revert n. induction l as [|a l IH]; intros [|n] H; cbn [length] in H; try lia; cbn [set_nth nth].
  - reflexivity.
  - apply IH. lia.
Qed.

Lemma nth_set_nth_ne {A} (l : list A) n m x d : n <> m -> nth m (set_nth l n x) d = nth m l d.
Proof.
  revert n m. induction l as [|a l IH]; intros [|n] [|m] H; cbn [set_nth nth]; try reflexivity; try congruence.
  apply IH. congruence.
Qed.

Lemma Forall_set_nth {A} (P : A -> Prop) l n x : Forall P l -> P x -> Forall P (set_nth l n x).
Proof.
  intros Hl Hx. revert n. induction Hl as [|a l Ha Hl IH]; intros [|n]; cbn [set_nth]; constructor; auto.
Qed.


(** * [r[k] |= v] *)
Lemma or_at_spec ws k v :
  words_ok ws -> 0 <= k < zlen ws -> 0 <= v < 2^64 ->
  exists ws', or_at ws k v = Some ws' /\ words_ok ws' /\ length ws' = length ws /\
    forall q, 0 <= q -> wbit ws' q = wbit ws q || ((q / 64 =? k) && Z.testbit v (q mod 64)).
Proof.
  intros Hok Hk Hv. unfold or_at.
  destruct (nthZ_in_range ws k Hk) as [w Hw]. rewrite Hw.
  apply nthZ_Some in Hw. destruct Hw as [_ Hw].
  assert (Hwr : 0 <= w < 2^64) by (eapply words_ok_nth_error; eauto).
  assert (Hlen : (Z.to_nat k < length ws)%nat) by (unfold zlen in Hk; lia).
  eexists. split; [reflexivity|]. split; [|split].
  - apply Forall_set_nth; [exact Hok|]. apply lor_word; assumption.
  - apply set_nth_length.
  - intros q Hq. unfold wbit.
    assert (0 <= q / 64) by (apply Z.div_pos; lia).
    destruct (Z.eqb_spec (q / 64) k) as [E|E].
    + rewrite E, nth_set_nth_eq by exact Hlen.
      rewrite Z.lor_spec, (nth_error_nth _ _ 0 Hw). reflexivity.
    + rewrite nth_set_nth_ne by lia. cbn [andb]. now rewrite orb_false_r.
Qed.

Lemma or_at_pow2 ws p :
  words_ok ws -> 0 <= p < 64 * zlen ws ->
  exists ws', or_at ws (p / 64) (2 ^ (p mod 64)) = Some ws' /\ words_ok ws' /\ length ws' = length ws /\
    forall q, 0 <= q -> wbit ws' q = wbit ws q || (q =? p).
Proof.
  intros Hok Hp.
  assert (Hj : 0 <= p mod 64 < 64) by (apply Z.mod_pos_bound; lia).
  assert (Hk : 0 <= p / 64 < zlen ws).
  { split; [apply Z.div_pos; lia|apply Z.div_lt_upper_bound; lia]. }
  destruct (or_at_spec ws (p / 64) (2 ^ (p mod 64)) Hok Hk (pow2_word _ Hj)) as (ws' & E & Hok' & Hlen & Hb).
  exists ws'. repeat split; auto.
  intros q Hq. rewrite Hb by exact Hq. f_equal.
  rewrite Z.pow2_bits_eqb by lia.
  pose proof (Z.div_mod q 64 ltac:(lia)). pose proof (Z.div_mod p 64 ltac:(lia)).
  destruct (Z.eqb_spec (q / 64) (p / 64)); destruct (Z.eqb_spec (p mod 64) (q mod 64));
    destruct (Z.eqb_spec q p); cbn [andb]; try reflexivity; try lia; subst; try congruence.
Qed.

(** * sorted lists, [usort] *)
Lemma uinsert_In x l p : In p (uinsert x l) <-> p = x \/ In p l.
Proof.
  induction l as [|y l IH]; cbn [uinsert In].
  - intuition.
  - destruct (Z.ltb_spec x y); [cbn [In]; intuition|].
    destruct (Z.eqb_spec x y); cbn [In]; [subst; intuition|]. rewrite IH. intuition.
Qed.

Lemma uinsert_sorted x l : StronglySorted Z.lt l -> StronglySorted Z.lt (uinsert x l).
Proof.
  induction 1 as [|y l Hs IH Hy]; cbn [uinsert].
  - constructor; constructor.
  - destruct (Z.ltb_spec x y).
    + constructor; [constructor; assumption|]. constructor; [assumption|].
      apply Forall_forall. intros q Hq. eapply Forall_forall in Hy; eauto. lia.
    + destruct (Z.eqb_spec x y); [constructor; assumption|].
      constructor; [exact IH|]. apply Forall_forall. intros q Hq.
      apply uinsert_In in Hq. destruct Hq as [->|Hq]; [lia|].
      eapply Forall_forall in Hy; eauto.
Qed.

Lemma usort_In l p : In p (usort l) <-> In p l.
Proof.
  induction l as [|x l IH]; cbn [usort fold_right In]; [tauto|].
  fold (usort l). rewrite uinsert_In, IH. intuition.
Qed.

Lemma usort_sorted l : StronglySorted Z.lt (usort l).
Proof.
  induction l as [|x l IH]; cbn [usort fold_right]; [constructor|]. now apply uinsert_sorted.
Qed.

Lemma usort_id l : StronglySorted Z.lt l -> usort l = l.
Proof. intros H. apply ssorted_ext; [apply usort_sorted|exact H|apply usort_In]. Qed.

Lemma usort_app_comm a b : usort (a ++ b) = usort (b ++ a).
Proof.
  apply ssorted_ext; try apply usort_sorted. intros p. rewrite !usort_In, !in_app_iff. tauto.
Qed.

Lemma sortedb_cons x l : sortedb (x :: l) = true -> sortedb l = true /\ forall q, In q l -> x <= q.
Proof.
  revert x. induction l as [|y l IH]; intros x H.
  - split; [reflexivity|intros q []].
  - cbn [sortedb] in H. apply andb_true_iff in H. destruct H as [Hxy Hs].
    split; [exact Hs|]. intros q [<-|Hq]; [lia|].
    destruct (IH y Hs) as [_ Hy]. specialize (Hy q Hq). lia.
Qed.

Lemma sortedb_last_max l d : sortedb l = true -> forall q, In q l -> q <= last l d.
Proof.
  induction l as [|a l IH]; intros H q Hq; [destruct Hq|].
  destruct (sortedb_cons a l H) as [Hs Ha].
  destruct l as [|b l].
  - destruct Hq as [<-|[]]. cbn [last]. lia.
  - rewrite last_cons_ne by discriminate. destruct Hq as [<-|Hq].
    + specialize (Ha b (or_introl eq_refl)). specialize (IH Hs b (or_introl eq_refl)). lia.
    + now apply IH.
Qed.

Lemma ssorted_sortedb l : StronglySorted Z.lt l -> sortedb l = true.
Proof.
  induction 1 as [|a l Hs IH Ha]; [reflexivity|].
  destruct l as [|b l]; [reflexivity|].
  cbn [sortedb]. apply andb_true_iff. split; [|exact IH].
  assert (a < b) by (eapply Forall_forall in Ha; [exact Ha|now left]). lia.
Qed.

Lemma nonnegb_In l : nonnegb l = true <-> forall p, In p l -> 0 <= p.
Proof.
  unfold nonnegb. rewrite forallb_forall. split; intros H p Hp; specialize (H p Hp); lia.
Qed.

(** * the loop of [Of] *)
Lemma Of_loop_spec ps : forall ws,
  words_ok ws -> (forall p, In p ps -> 0 <= p < 64 * zlen ws) ->
  exists ws', Of_loop ps ws = Some ws' /\ words_ok ws' /\ length ws' = length ws /\
    forall q, 0 <= q -> (wbit ws' q = true <-> wbit ws q = true \/ In q ps).
Proof.
  induction ps as [|i ps IH]; intros ws Hok Hin.
  - exists ws. cbn [Of_loop In]. repeat split; auto; tauto.
  - cbn [Of_loop].
    assert (Hi : 0 <= i < 64 * zlen ws) by (apply Hin; now left).
    rewrite shiftr6, land63, shl64_1 by (apply Z.mod_pos_bound; lia).
    destruct (or_at_pow2 ws i Hok Hi) as (w1 & -> & Hok1 & Hlen1 & Hb1).
    destruct (IH w1 Hok1) as (ws' & E & Hok' & Hlen' & Hb').
    { intros p Hp. unfold zlen. rewrite Hlen1. apply Hin. now right. }
    exists ws'. split; [exact E|]. split; [exact Hok'|]. split; [congruence|].
    intros q Hq. rewrite Hb', Hb1 by exact Hq. cbn [In].
    rewrite orb_true_iff, Z.eqb_eq. intuition.
Qed.

Lemma wbit_repeat0 n q : wbit (repeat 0 n) q = false.
Proof.
  unfold wbit. replace (nth (Z.to_nat (q / 64)) (repeat 0 n) 0) with 0; [apply Z.bits_0|].
  symmetry. destruct (Nat.lt_ge_cases (Z.to_nat (q / 64)) n).
  - apply nth_repeat.
  - apply nth_overflow. rewrite repeat_length. lia.
Qed.

Lemma words_ok_repeat0 n : words_ok (repeat 0 n).
Proof. apply Forall_forall. intros w Hw. apply repeat_spec in Hw. subst. unfold word_ok. lia. Qed.

(** the number of bits [Of] provides, as the code computes it *)
Lemma Of_nbits ps opt :
  (let n := match opt with Some n => n | None => 0 end in
   let n := match ps with [] => n | _ => let mx := last ps 0 + 1 in if n <? mx then mx else n end in
   if n <? 0 then 0 else n) = of_bits ps opt.
Proof.
  unfold of_bits. cbv zeta. destruct ps as [|a ps].
  - destruct (Z.ltb_spec (match opt with Some n => n | None => 0 end) 0); lia.
  - set (n := match opt with Some n => n | None => 0 end).
    set (mx := last (a :: ps) 0 + 1).
    destruct (Z.ltb_spec n mx); destruct (Z.ltb_spec mx 0); destruct (Z.ltb_spec n 0); lia.
Qed.

Lemma words_for_shiftr n : Z.shiftr (n + 63) 6 = words_for n.
Proof. unfold words_for. apply shiftr6. Qed.

Lemma words_for_cover n : 0 <= n -> n <= 64 * words_for n /\ 0 <= words_for n.
Proof.
  intros Hn. unfold words_for.
  pose proof (Z.div_mod (n + 63) 64 ltac:(lia)). pose proof (Z.mod_pos_bound (n + 63) 64 ltac:(lia)).
  assert (0 <= (n + 63) / 64) by (apply Z.div_pos; lia). lia.
Qed.

Lemma of_bits_nonneg ps opt : 0 <= of_bits ps opt.
Proof. unfold of_bits. lia. Qed.

Lemma of_bits_last ps opt : ps <> [] -> last ps 0 + 1 <= of_bits ps opt.
Proof. unfold of_bits. destruct ps; [congruence|]. lia. Qed.

(** Of on a sorted (duplicates allowed), non-negative position list: never panics, has
    ceil(max(n, last+1, 0)/64) words, and exactly the listed bits are 1. *)
Theorem Of_sorted ps opt :
  sortedb ps = true -> nonnegb ps = true ->
  exists r, Of ps opt = Some r /\ spec_Of ps opt r.
Proof.
  intros Hs Hnn. unfold Of. rewrite Of_nbits, words_for_shiftr.
  pose proof (of_bits_nonneg ps opt) as Hb0.
  destruct (words_for_cover _ Hb0) as [Hcov Hw0].
  unfold make_words. destruct (Z.ltb_spec (words_for (of_bits ps opt)) 0); [lia|].
  set (m := Z.to_nat (words_for (of_bits ps opt))).
  destruct (Of_loop_spec ps (repeat 0 m) (words_ok_repeat0 m)) as (r & E & Hok & Hlen & Hbits).
  { intros p Hp. unfold zlen. rewrite repeat_length. subst m. rewrite Z2Nat.id by lia.
    split; [now apply nonnegb_In with (l := ps)|].
    pose proof (sortedb_last_max ps 0 Hs p Hp).
    assert (ps <> []) by (intros ->; destruct Hp).
    pose proof (of_bits_last ps opt H1). lia. }
  exists r. split; [exact E|]. unfold spec_Of. split; [exact Hok|]. split.
  - unfold zlen. rewrite Hlen, repeat_length. subst m. lia.
  - apply ssorted_ext; [apply ones_sorted|apply usort_sorted|].
    intros p. rewrite ones_In_wbit, usort_In. split.
    + intros [Hp Hw]. apply Hbits in Hw; [|exact Hp]. rewrite wbit_repeat0 in Hw.
      destruct Hw as [Hw|Hw]; [discriminate|exact Hw].
    + intros Hp. assert (0 <= p) by (now apply nonnegb_In with (l := ps)).
      split; [assumption|]. apply Hbits; [assumption|]. now right.
Qed.

(** strictly ascending: the 1-bits of the result are the list itself *)
Theorem Of_ascending ps opt :
  StronglySorted Z.lt ps -> (forall p, In p ps -> 0 <= p) ->
  exists r, Of ps opt = Some r /\ words_ok r /\ zlen r = words_for (of_bits ps opt) /\
            ones (flat r) = ps.
Proof.
  intros Hs Hnn.
  destruct (Of_sorted ps opt (ssorted_sortedb ps Hs) (proj2 (nonnegb_In ps) Hnn)) as (r & E & Hok & Hlen & Hones).
  exists r. repeat split; auto. rewrite Hones. now apply usort_id.
Qed.

(** merely sorted: the same set of positions *)
Theorem Of_sorted_set ps opt :
  sortedb ps = true -> nonnegb ps = true ->
  exists r, Of ps opt = Some r /\ forall p, In p (ones (flat r)) <-> In p ps.
Proof.
  intros Hs Hnn. destruct (Of_sorted ps opt Hs Hnn) as (r & E & _ & _ & Hones).
  exists r. split; [exact E|]. intros p. rewrite Hones. apply usort_In.
Qed.

(** every listed position is inside the result *)
Lemma spec_Of_inside ps opt r : spec_Of ps opt r -> forall p, In p ps -> 0 <= p < 64 * zlen r.
Proof.
  intros (_ & _ & Hones) p Hp. apply usort_In in Hp. rewrite <- Hones in Hp.
  apply ones_In_wbit in Hp. destruct Hp as [Hp Hw]. split; [exact Hp|]. now apply wbit_lt.
Qed.
