(** The int32-faithful model of bitstr.New / bitstr.Len (Model/Bitstr32.v) against
    the unbounded one (Model/Bitstr.v): equal below the top of the int32 range,
    and a panic of New32 within 7 bits of MaxInt32. *)
From Coq Require Import ZArith List Bool Lia.
From Low Require Import Lib.MachInt Lib.Bits Lib.BitSeq Lib.Bytes Lib.Lex Lib.Pack_bw Lib.PackLemmas_bw
  Model.Bitstr Model.Bitstr32 Spec.BitstrSpec Proofs.BitstrProofs.
Import ListNotations.
Open Scope Z_scope.

Lemma sar32_3 x : sar32 x 3 = x / 8.
Proof. reflexivity. Qed.

Lemma shiftr_3 x : Z.shiftr x 3 = x / 8.
Proof. now rewrite Z.shiftr_div_pow2 by lia. Qed.

(** * below the top of the range the wraps are invisible *)
Lemma New32_eq s f t : 0 <= f <= t -> t + 7 < 2 ^ 31 -> New32 s f t = New s f t.
Proof.
  intros H Ht. unfold New32, New. cbv zeta.
  destruct ((f =? t) && (Z.land f 7 =? 0)); [reflexivity|].
  rewrite !sar32_3, !shiftr_3.
  rewrite (i32_id (t + 7)) by lia.
  assert (0 <= f / 8 <= (t + 7) / 8) by (split; [apply Z.div_pos; lia|apply Z.div_le_mono; lia]).
  assert ((t + 7) / 8 < 2 ^ 28) by (apply Z.div_lt_upper_bound; lia).
  rewrite (i32_id ((t + 7) / 8 - f / 8)) by lia.
  rewrite (i32_id ((t + 7) / 8 - f / 8 + 1)) by lia.
  rewrite (i32_id (8 - t)) by lia.
  rewrite (i32_id ((t + 7) / 8 - f / 8 - 1)) by lia.
  reflexivity.
Qed.

Lemma Len32_eq bs : 8 * zlen bs < 2 ^ 31 -> bytes_ok bs -> Len32 bs = Len bs.
Proof.
  intros H Hb. unfold Len32, Len. cbv zeta.
  destruct (nthZ bs (zlen bs - 1)) as [last|] eqn:E; [|reflexivity]. f_equal.
  assert (Hl : 0 <= last < 256).
  { apply nthZ_Some in E as [_ E]. apply nth_error_In in E.
    unfold bytes_ok in Hb. rewrite Forall_forall in Hb. apply Hb. exact E. }
  assert (Hp : 0 <= popcount last <= 8).
  { split; [apply popcount_nonneg|].
    rewrite (popcount_bits 8) by (change (2 ^ Z.of_nat 8) with 256; lia).
    pose proof (count_true_le_length (bits 8 last)) as L. rewrite bits_length in L. lia. }
  pose proof (zlen_nonneg bs) as Hz.
  assert (Hz1 : 1 <= zlen bs).
  { apply nthZ_Some in E as [E0 _]. lia. }
  rewrite (i32_id (zlen bs)) by lia.
  unfold sshl32. change (3 <? 32) with true. cbv iota. change (2 ^ 3) with 8.
  rewrite (i32_id (zlen bs * 8)) by lia.
  rewrite (i32_id (zlen bs * 8 - 16)) by lia.
  rewrite i32_id by lia. reflexivity.
Qed.

(** hence the property theorems hold for the int32 model on Go's own range *)
Lemma New32_encB s f t : bytes_ok s -> 0 <= f <= t -> t <= 8 * zlen s -> t + 7 < 2 ^ 31 ->
  New32 s f t = Some (encB (B s f t)).
Proof. intros Hs H Ht H31. rewrite New32_eq by assumption. now apply New_encB. Qed.

Lemma Len32_encB b : 8 * zlen (encB b) < 2 ^ 31 -> Len32 (encB b) = Some (zlen b).
Proof.
  intros H. rewrite Len32_eq; [apply Len_encB|exact H|].
  unfold encB. apply Forall_app. split; [apply pack_bytes_ok|].
  constructor; [|constructor]. rewrite mask_eq. pose proof (padn_lt (length b)) as P.
  unfold byte_ok.
  assert (0 < 2 ^ Z.of_nat (padn (length b))) by (apply Z.pow_pos_nonneg; lia).
  assert (2 ^ Z.of_nat (padn (length b)) <= 2 ^ 7) by (apply Z.pow_le_mono_r; lia).
  change (2 ^ 7) with 128 in *. lia.
Qed.

(** * within 7 bits of MaxInt32, [(toBit + 7) >> 3] overflows and [make] panics,
      whatever the string — although such [toBit] are valid int32 values and can be
      [<= 8*len(s)] (for a string of 2^28 bytes) *)
Lemma New32_top s f t : 0 <= f <= t -> 2 ^ 31 - 7 <= t < 2 ^ 31 -> New32 s f t = None.
Proof.
  intros H Ht. unfold New32. cbv zeta.
  assert (Hc : (f =? t) && (Z.land f 7 =? 0) = false).
  { apply andb_false_iff. destruct (Z.eqb_spec f t) as [->|]; [right|now left].
    apply Z.eqb_neq. change 7 with (Z.ones 3). rewrite Z.land_ones by lia. change (2 ^ 3) with 8.
    intros E. Z.div_mod_to_equations. lia. }
  rewrite Hc. rewrite !sar32_3.
  assert (E1 : i32 (t + 7) = t + 7 - 2 ^ 32).
  { unfold i32. replace (t + 7 + 2 ^ 31) with ((t + 7 - 2 ^ 31) + 1 * 2 ^ 32) by lia.
    rewrite Z.mod_add by lia. rewrite Z.mod_small by lia. lia. }
  rewrite E1.
  assert (E2 : (t + 7 - 2 ^ 32) / 8 = - 2 ^ 28) by (Z.div_mod_to_equations; lia).
  rewrite E2.
  assert (0 <= f / 8 < 2 ^ 28) by (Z.div_mod_to_equations; lia).
  rewrite (i32_id (- 2 ^ 28 - f / 8)) by lia.
  rewrite (i32_id (- 2 ^ 28 - f / 8 + 1)) by lia.
  destruct (Z.ltb_spec (- 2 ^ 28 - f / 8 + 1) 0); [reflexivity|lia].
Qed.

(** a witness inside the property's stated domain: a string of 2^28 bytes *)
Lemma New32_top_witness : exists s f t,
  bytes_ok s /\ 0 <= f <= t /\ t <= 8 * zlen s /\ in_i32 f /\ in_i32 t /\ New32 s f t = None.
Proof.
  exists (repeat 0 (Z.to_nat (2 ^ 28))), (2 ^ 31 - 4), (2 ^ 31 - 1).
  assert (L : zlen (repeat 0 (Z.to_nat (2 ^ 28))) = 2 ^ 28) by (unfold zlen; rewrite repeat_length; lia).
  split; [|split; [lia|split; [rewrite L; lia|split; [unfold in_i32; lia|split; [unfold in_i32; lia|]]]]].
  - unfold bytes_ok. apply Forall_forall. intros x Hx. apply repeat_spec in Hx. subst. unfold byte_ok. lia.
  - apply New32_top; lia.
Qed.
