(** The int32-faithful model of bitstr.New / bitstr.Len (Model/Bitstr32.v) against
    the unbounded one (Model/Bitstr.v): equal on the whole int32 range (since the
    /repo fix b2a771a), Len whenever its value fits int32; and, for the pre-fix
    arithmetic (Model/LegacyBitstr32.v), a panic of New within 7 bits of MaxInt32. *)
From Coq Require Import ZArith List Bool Lia.
From Low Require Import Lib.MachInt Lib.Bits Lib.BitSeq Lib.Bytes Lib.Lex Lib.Pack_bw Lib.PackLemmas_bw
  Model.Bitstr Model.Bitstr32 Model.LegacyBitstr32 Spec.BitstrSpec Proofs.BitstrProofs.
Import ListNotations.
Open Scope Z_scope.

Lemma sar32_3 x : sar32 x 3 = x / 8.
Proof. reflexivity. Qed.

Lemma shiftr_3 x : Z.shiftr x 3 = x / 8.
Proof. now rewrite Z.shiftr_div_pow2 by lia. Qed.

Lemma sar64_3 x : sar64 x 3 = x / 8.
Proof. reflexivity. Qed.

(** * the current code: no wrap is visible anywhere on the int32 range *)
Lemma New32_eq s f t : 0 <= f <= t -> t < 2 ^ 31 -> New32 s f t = New s f t.
Proof.
  intros H Ht. unfold New32, New. cbv zeta.
  destruct ((f =? t) && (Z.land f 7 =? 0)); [reflexivity|].
  rewrite !sar32_3, !shiftr_3.
  rewrite (i64_id (t + 7)) by lia. rewrite sar64_3.
  assert (0 <= f / 8 <= (t + 7) / 8) by (split; [apply Z.div_pos; lia|apply Z.div_le_mono; lia]).
  assert ((t + 7) / 8 <= 2 ^ 28) by (Z.div_mod_to_equations; lia).
  rewrite (i32_id ((t + 7) / 8)) by lia.
  rewrite (i32_id ((t + 7) / 8 - f / 8)) by lia.
  rewrite (i32_id ((t + 7) / 8 - f / 8 + 1)) by lia.
  rewrite (i32_id (8 - t)) by lia.
  rewrite (i32_id ((t + 7) / 8 - f / 8 - 1)) by lia.
  reflexivity.
Qed.

(** int32 arithmetic is arithmetic modulo 2^32: intermediate wraps cancel *)
Lemma i32_add_l x y : i32 (i32 x + y) = i32 (x + y).
Proof. apply i32_congr. unfold i32. Z.div_mod_to_equations. lia. Qed.

Lemma i32_mul8 x : i32 (i32 x * 8) = i32 (x * 8).
Proof. apply i32_congr. unfold i32. Z.div_mod_to_equations. lia. Qed.

(** Len: [int32(l)<<3] and [- 16] may wrap (an encoding of 2^28 payload bytes has
    l*8 = 2^31 + 8), the final value is right whenever it fits int32 *)
Lemma Len32_eq bs v : Len bs = Some v -> - 2 ^ 31 <= v < 2 ^ 31 -> Len32 bs = Some v.
Proof.
  unfold Len32, Len. cbv zeta.
  destruct (nthZ bs (zlen bs - 1)) as [last|]; [|discriminate].
  intros E Hv. injection E as E. f_equal.
  unfold sshl32. change (3 <? 32) with true. cbv iota. change (2 ^ 3) with 8.
  rewrite i32_mul8.
  replace (i32 (zlen bs * 8) - 16) with (i32 (zlen bs * 8) + (- 16)) by lia.
  rewrite i32_add_l, <- Z.add_assoc, i32_add_l.
  replace (zlen bs * 8 + (-16 + popcount last)) with v by lia.
  now apply i32_id.
Qed.

(** hence the property theorems hold for the int32 model on Go's own range *)
Lemma New32_encB s f t : bytes_ok s -> 0 <= f <= t -> t <= 8 * zlen s -> t < 2 ^ 31 ->
  New32 s f t = Some (encB (B s f t)).
Proof. intros Hs H Ht H31. rewrite New32_eq by assumption. now apply New_encB. Qed.

Lemma Len32_encB b : zlen b < 2 ^ 31 -> Len32 (encB b) = Some (zlen b).
Proof.
  intros H. apply Len32_eq; [apply Len_encB|]. pose proof (zlen_nonneg b). lia.
Qed.

(** the composition the protocol operation runs, on the whole literal domain
    0 <= from <= to <= 8*len(s), to an int32 *)
Lemma Len32_New32 s f t : bytes_ok s -> 0 <= f <= t -> t <= 8 * zlen s -> t < 2 ^ 31 ->
  match New32 s f t with Some e => Len32 e | None => None end = Some (t - 8 * (f / 8)).
Proof.
  intros Hs H Ht H31. rewrite New32_encB by assumption.
  assert (L : zlen (B s f t) = t - 8 * (f / 8)).
  { unfold B, zlen in *. rewrite firstn_length, skipn_length, Lib.Bytes.msb_bits_length.
    assert (0 <= 8 * (f / 8) <= f) by (Z.div_mod_to_equations; lia). lia. }
  rewrite Len32_encB; [now rewrite L|].
  rewrite L. assert (0 <= 8 * (f / 8)) by (Z.div_mod_to_equations; lia). lia.
Qed.

(** * LEGACY (before b2a771a): below the top of the range the old arithmetic was right … *)
Lemma New32_legacy_eq s f t : 0 <= f <= t -> t + 7 < 2 ^ 31 -> New32_legacy s f t = New s f t.
Proof.
  intros H Ht. unfold New32_legacy, New. cbv zeta.
  destruct ((f =? t) && (Z.land f 7 =? 0)); [reflexivity|].
  rewrite !sar32_3, !shiftr_3.
  rewrite (i32_id (t + 7)) by lia.
  assert (0 <= f / 8 <= (t + 7) / 8) by (split; [apply Z.div_pos; lia|apply Z.div_le_mono; lia]).
  assert ((t + 7) / 8 < 2 ^ 28) by (apply Z.div_lt_upper_bound; lia).
  rewrite (i32_id ((t + 7) / 8 - f / 8)) by lia.
  rewrite (i32_id ((t + 7) / 8 - f / 8 + 1)) by lia.
  rewrite (i32_id (8 - t)) by lia.
  rewrite (i32_id ((t + 7) / 8 - f / 8 - 1)) by lia.
  reflexivity.
Qed.

(** … but within 7 bits of MaxInt32, [(toBit + 7) >> 3] overflowed and [make] panicked,
      whatever the string — although such [toBit] are valid int32 values and can be
      [<= 8*len(s)] (for a string of 2^28 bytes) *)
Lemma New32_legacy_top s f t : 0 <= f <= t -> 2 ^ 31 - 7 <= t < 2 ^ 31 -> New32_legacy s f t = None.
Proof.
  intros H Ht. unfold New32_legacy. cbv zeta.
  assert (Hc : (f =? t) && (Z.land f 7 =? 0) = false).
  { apply andb_false_iff. destruct (Z.eqb_spec f t) as [->|]; [right|now left].
    apply Z.eqb_neq. change 7 with (Z.ones 3). rewrite Z.land_ones by lia. change (2 ^ 3) with 8.
    intros E. Z.div_mod_to_equations. lia. }
  rewrite Hc. rewrite !sar32_3.
  assert (E1 : i32 (t + 7) = t + 7 - 2 ^ 32).
  { unfold i32. replace (t + 7 + 2 ^ 31) with ((t + 7 - 2 ^ 31) + 1 * 2 ^ 32) by lia.
    rewrite Z.mod_add by lia. rewrite Z.mod_small by lia. lia. }
  rewrite E1.
  assert (E2 : (t + 7 - 2 ^ 32) / 8 = - 2 ^ 28) by (Z.div_mod_to_equations; lia).
  rewrite E2.
  assert (0 <= f / 8 < 2 ^ 28) by (Z.div_mod_to_equations; lia).
  rewrite (i32_id (- 2 ^ 28 - f / 8)) by lia.
  rewrite (i32_id (- 2 ^ 28 - f / 8 + 1)) by lia.
  destruct (Z.ltb_spec (- 2 ^ 28 - f / 8 + 1) 0); [reflexivity|lia].
Qed.

(** a witness inside the property's stated domain: a string of 2^28 bytes *)
Lemma New32_legacy_top_witness : exists s f t,
  bytes_ok s /\ 0 <= f <= t /\ t <= 8 * zlen s /\ in_i32 f /\ in_i32 t /\ New32_legacy s f t = None.
Proof.
  exists (repeat 0 (Z.to_nat (2 ^ 28))), (2 ^ 31 - 4), (2 ^ 31 - 1).
  assert (L : zlen (repeat 0 (Z.to_nat (2 ^ 28))) = 2 ^ 28) by (unfold zlen; rewrite repeat_length; lia).
  split; [|split; [lia|split; [rewrite L; lia|split; [unfold in_i32; lia|split; [unfold in_i32; lia|]]]]].
  - unfold bytes_ok. apply Forall_forall. intros x Hx. apply repeat_spec in Hx. subst. unfold byte_ok. lia.
  - apply New32_legacy_top; lia.
Qed.

(** … where the repaired code works: the same witness, and every call in that band on a long enough string *)
Lemma New32_top_fixed s f t : bytes_ok s -> 0 <= f <= t -> t <= 8 * zlen s ->
  2 ^ 31 - 7 <= t < 2 ^ 31 -> New32 s f t = Some (encB (B s f t)).
Proof. intros Hs H Ht Hb. apply New32_encB; try assumption; lia. Qed.
