(** Lemmas and proofs for C09 (bitstr). *)
From Coq Require Import ZArith List Bool Lia.
From Low Require Import Lib.MachInt Lib.Bits Lib.BitSeq Lib.Bytes Lib.Lex Lib.Pack_bw Model.Bitstr Spec.BitstrSpec.
Import ListNotations.
Open Scope Z_scope.

Lemma StrCmpUpto_eq a b : StrCmpUpto a b = CmpUpto a b.
Proof. reflexivity. Qed.
