(** Lemmas and proofs for C09 (bitstr). *)
From Coq Require Import ZArith List Bool Lia PeanoNat.
From Low Require Import Lib.MachInt Lib.Bits Lib.BitSeq Lib.Bytes Lib.Lex Lib.Pack_bw
  Lib.PackLemmas_bw Lib.LexLemmas_bw Lib.LexExtra_sig Lib.PadLex_bw9 Model.Bitstr Spec.BitstrSpec.
Import ListNotations.
Open Scope Z_scope.

Lemma StrCmpUpto_eq a b : StrCmpUpto a b = CmpUpto a b.
Proof. reflexivity. Qed.

(** * list plumbing *)
Lemma zlen_app {A} (a b : list A) : zlen (a ++ b) = zlen a + zlen b.
Proof. unfold zlen. rewrite app_length. lia. Qed.

Lemma zlen_cons {A} (x : A) l : zlen (x :: l) = 1 + zlen l.
Proof. unfold zlen. cbn [length]. lia. Qed.

Lemma zlen_nonneg {A} (l : list A) : 0 <= zlen l.
Proof. unfold zlen. lia. Qed.

(** [s[:n]] of a list that starts with the n elements [a] *)
Lemma sliceZ_prefix (a r : list Z) n : n = zlen a -> sliceZ (a ++ r) 0 n = Some a.
Proof.
  intros ->. unfold sliceZ. pose proof (zlen_nonneg a). pose proof (zlen_nonneg r). rewrite zlen_app.
  replace ((0 <=? 0) && (0 <=? zlen a) && (zlen a <=? zlen a + zlen r)) with true
    by (symmetry; rewrite !andb_true_iff, !Z.leb_le; lia).
  f_equal. cbn [Z.to_nat skipn]. rewrite Z.sub_0_r. unfold zlen. rewrite Nat2Z.id.
  rewrite firstn_app, Nat.sub_diag, firstn_O, app_nil_r. apply firstn_all.
Qed.

Lemma nthZ_app_at {A} (a : list A) x r i : i = zlen a -> nthZ (a ++ x :: r) i = Some x.
Proof.
  intros ->. unfold zlen. rewrite nthZ_of_nat, nth_error_app2 by lia. now rewrite Nat.sub_diag.
Qed.

(** * the mask byte *)
Lemma mask_eq n : high_mask (last_bits n) = 256 - 2 ^ Z.of_nat (padn n).
Proof.
  unfold high_mask, last_bits. cbv zeta. rewrite last_bits_padn. do 2 f_equal. lia.
Qed.

Lemma sub_compare c x y : (c - x ?= c - y) = (y ?= x).
Proof.
  destruct (Z.compare_spec y x) as [E|E|E].
  - subst. apply Z.compare_refl.
  - apply Z.compare_lt_iff. lia.
  - apply Z.compare_gt_iff. lia.
Qed.

(** same number of payload bytes: the mask bytes order like the bit lengths *)
Lemma mask_compare n1 n2 : (n1 + padn n1 = n2 + padn n2)%nat ->
  (high_mask (last_bits n1) ?= high_mask (last_bits n2)) = Nat.compare n1 n2.
Proof.
  intros H. rewrite !mask_eq, sub_compare, pow2_compare, Nat2Z.inj_compare by lia.
  destruct (Nat.compare_spec (padn n2) (padn n1)), (Nat.compare_spec n1 n2); try reflexivity; lia.
Qed.

Lemma zlen_encB b : zlen (encB b) = zlen (pack b) + 1.
Proof. unfold encB. rewrite zlen_app. reflexivity. Qed.

(** * Len *)
Lemma Len_encB b : Len (encB b) = Some (zlen b).
Proof.
  unfold Len. cbv zeta. rewrite zlen_encB. unfold encB.
  rewrite nthZ_app_at by lia. f_equal.
  rewrite mask_eq. pose proof (padn_lt (length b)) as P.
  rewrite popcount_high_mask by lia.
  pose proof (pack_length8 b) as L. unfold zlen. lia.
Qed.

(** * Cmp *)
Lemma pack_cmp b1 b2 : bytes_cmp (pack b1) (pack b2) = bits_cmp (pad8 b1) (pad8 b2).
Proof. rewrite bytes_cmp_msb_bits by apply pack_bytes_ok. now rewrite !msb_bits_pack. Qed.

Lemma bytes_cmp_single x y : bytes_cmp [x] [y] = (x ?= y).
Proof. unfold bytes_cmp. cbn [lex_cmp]. now destruct (x ?= y). Qed.

Lemma pack_cmp_shorter b1 b2 : (length (pack b1) < length (pack b2))%nat ->
  bytes_cmp (pack b1) (pack b2) = bits_cmp b1 b2.
Proof.
  intros H. rewrite pack_cmp. unfold pad8. apply pad_cmp_shorter2.
  pose proof (pack_length8 b1). pose proof (pack_length8 b2). pose proof (padn_lt (length b2)). lia.
Qed.

Lemma Cmp_encB b1 b2 : Cmp (encB b1) (encB b2) = Some (cmp_sign (bits_cmp b1 b2)).
Proof.
  unfold Cmp. cbv zeta. rewrite !zlen_encB.
  destruct (Z.eqb_spec (zlen (pack b1) + 1) (zlen (pack b2) + 1)) as [E|E].
  - f_equal. unfold bytesCompare. f_equal.
    assert (L : length (pack b1) = length (pack b2)) by (unfold zlen in E; lia).
    unfold encB, bytes_cmp. rewrite lex_cmp_app_eqlen by exact L. fold bytes_cmp.
    rewrite bytes_cmp_single, pack_cmp. unfold pad8.
    pose proof (pack_length8 b1) as L1. pose proof (pack_length8 b2) as L2.
    rewrite mask_compare by lia. apply pad_cmp_same_total. lia.
  - unfold encB. rewrite !sliceZ_prefix by lia. f_equal. unfold bytesCompare. f_equal.
    destruct (Nat.lt_ge_cases (length (pack b1)) (length (pack b2))) as [Hlt|Hge].
    + now apply pack_cmp_shorter.
    + rewrite bytes_cmp_antisym, (bits_cmp_antisym b2 b1). f_equal.
      apply pack_cmp_shorter. unfold zlen in E. lia.
Qed.

(** * cmpBytes *)
Lemma cmpBytes_loop_eq a : forall b, (length a <= length b)%nat ->
  cmpBytes_loop a b = Some (cmp_sign (bytes_cmp a b)).
Proof.
  induction a as [|x a IH]; intros [|y b] H; cbn [length] in H; try lia.
  - reflexivity.
  - reflexivity.
  - cbn [cmpBytes_loop]. unfold bytes_cmp. cbn [lex_cmp]. fold bytes_cmp.
    unfold Z.ltb, Z.gtb. destruct (x ?= y); try reflexivity. apply IH. lia.
Qed.

(** the manual loop indexes [b] out of range exactly when [b] is a proper prefix of [a] *)
Lemma cmpBytes_loop_panic a : forall b,
  cmpBytes_loop a b = None <-> exists r, r <> [] /\ a = b ++ r.
Proof.
  induction a as [|x a IH]; intros [|y b]; cbn [cmpBytes_loop].
  - split; [discriminate|]. intros (r & Hr & E). destruct r; [congruence|discriminate].
  - split; [discriminate|]. intros (r & Hr & E). discriminate.
  - split; [|reflexivity]. intros _. exists (x :: a). split; [discriminate|reflexivity].
  - unfold Z.ltb, Z.gtb. destruct (Z.compare_spec x y) as [E|E|E].
    + subst. rewrite IH. split; intros (r & Hr & Er); exists r; (split; [exact Hr|]).
      * cbn [app]. now f_equal.
      * cbn [app] in Er. now injection Er.
    + split; [discriminate|]. intros (r & Hr & Er). cbn [app] in Er. injection Er as -> _. lia.
    + split; [discriminate|]. intros (r & Hr & Er). cbn [app] in Er. injection Er as -> _. lia.
Qed.

Lemma cmpBytes_long a b : 8 <= zlen a -> cmpBytes a b = Some (cmp_sign (bytes_cmp a b)).
Proof. intros H. unfold cmpBytes. destruct (Z.ltb_spec (zlen a) 8); [lia|reflexivity]. Qed.

Lemma cmpBytes_short a b : zlen a < 8 -> (length a <= length b)%nat ->
  cmpBytes a b = Some (cmp_sign (bytes_cmp a b)).
Proof. intros H L. unfold cmpBytes. destruct (Z.ltb_spec (zlen a) 8); [|lia]. now apply cmpBytes_loop_eq. Qed.

(** both sides of the 8-byte switch, on every call that does not index out of range *)
Lemma cmpBytes_eq a b : (length a <= length b)%nat \/ 8 <= zlen a ->
  cmpBytes a b = Some (cmp_sign (bytes_cmp a b)).
Proof.
  intros [H|H].
  - destruct (Z.lt_ge_cases (zlen a) 8); [now apply cmpBytes_short|apply cmpBytes_long; lia].
  - now apply cmpBytes_long.
Qed.

Lemma cmpBytes_panic a b : cmpBytes a b = None <-> zlen a < 8 /\ exists r, r <> [] /\ a = b ++ r.
Proof.
  unfold cmpBytes. destruct (Z.ltb_spec (zlen a) 8) as [H|H].
  - rewrite cmpBytes_loop_panic. tauto.
  - split; [discriminate|]. intros [? _]. lia.
Qed.

(** * CmpUpto: the two branches on explicit shapes *)
Lemma nthZ_last2a {A} (p : list A) v m i : i = zlen p -> nthZ (p ++ [v; m]) i = Some v.
Proof. intros H. now apply nthZ_app_at. Qed.

Lemma nthZ_last2b {A} (p : list A) v m i : i = zlen p + 1 -> nthZ (p ++ [v; m]) i = Some m.
Proof.
  intros H. change (p ++ [v; m]) with (p ++ [v] ++ [m]). rewrite app_assoc.
  apply nthZ_app_at. rewrite zlen_app. exact H.
Qed.

Lemma CmpUpto_short a p v m : (length a <= length p)%nat ->
  CmpUpto a (p ++ [v; m]) = Some (cmp_sign (bytes_cmp a (p ++ [v]))).
Proof.
  intros H. unfold CmpUpto. cbv zeta.
  rewrite zlen_app. change (zlen [v; m]) with 2.
  pose proof (zlen_nonneg p).
  destruct (Z.eqb_spec (zlen p + 2) 1); [lia|].
  destruct (Z.ltb_spec (zlen a) (zlen p + 2 - 1)); [|unfold zlen in *; lia].
  change (p ++ [v; m]) with (p ++ [v] ++ [m]). rewrite app_assoc.
  rewrite sliceZ_prefix by (rewrite zlen_app; change (zlen [v]) with 1; lia).
  apply cmpBytes_eq. left. rewrite app_length. cbn [length]. lia.
Qed.

Lemma CmpUpto_long a1 x a2 p v m : length a1 = length p ->
  CmpUpto (a1 ++ x :: a2) (p ++ [v; m]) =
  Some (match bytes_cmp a1 p with Eq => cmp_sign (Z.land x m ?= v) | r => cmp_sign r end).
Proof.
  intros H. unfold CmpUpto. cbv zeta.
  rewrite !zlen_app. change (zlen [v; m]) with 2. rewrite zlen_cons.
  pose proof (zlen_nonneg p). pose proof (zlen_nonneg a2).
  assert (zlen a1 = zlen p) by (unfold zlen; lia).
  destruct (Z.eqb_spec (zlen p + 2) 1); [lia|].
  destruct (Z.ltb_spec (zlen a1 + (1 + zlen a2)) (zlen p + 2 - 1)); [lia|].
  rewrite !sliceZ_prefix by lia.
  rewrite cmpBytes_eq by (left; lia).
  rewrite nthZ_app_at by lia. rewrite nthZ_last2b by lia. rewrite nthZ_last2a by lia.
  f_equal. destruct (bytes_cmp a1 p); cbn [cmp_sign Z.eqb negb]; try reflexivity.
  unfold Z.gtb, Z.ltb. now destruct (Z.land x m ?= v).
Qed.

(** the last, masked byte of [a] against the last payload byte *)
Lemma byte_cmp_masked x c : byte_ok x -> (0 < length c <= 8)%nat ->
  (Z.land x (256 - 2 ^ (8 - Z.of_nat (length c))) ?= val_msb (c ++ repeat false (8 - length c)))
  = bits_cmp (firstn (length c) (byte_bits x)) c.
Proof.
  intros Hx Hc. rewrite land_high_mask by assumption.
  set (k := length c). set (u := firstn k (byte_bits x)).
  assert (Lu : length u = k) by (unfold u; rewrite firstn_length, byte_bits_length; lia).
  rewrite byte_cmp_bits by (apply val_msb8_byte_ok; rewrite app_length, repeat_length; lia).
  rewrite !byte_bits_val_msb by (rewrite app_length, repeat_length; lia).
  unfold bits_cmp. rewrite lex_cmp_app_eqlen by lia. rewrite (lex_cmp_refl bool_cmp bool_cmp_refl).
  now destruct (lex_cmp bool_cmp u c).
Qed.

Lemma split_at {A} (l : list A) n : (n < length l)%nat ->
  exists l1 x l2, l = l1 ++ x :: l2 /\ length l1 = n.
Proof.
  intros H. destruct (skipn n l) as [|x l2] eqn:E.
  - apply (f_equal (@length A)) in E. rewrite skipn_length in E. cbn in E. lia.
  - exists (firstn n l), x, l2. split.
    + rewrite <- E. symmetry. apply firstn_skipn.
    + rewrite firstn_length. lia.
Qed.

Lemma CmpUpto_encB a b : bytes_ok a -> CmpUpto a (encB b) = Some (cmp_sign (bits_cmp (upto a b) b)).
Proof.
  intros Ha. destruct (list_eq_dec Bool.bool_dec b []) as [->|Hne]; [reflexivity|].
  destruct (pack_decomp b Hne) as (p & c & Hp & Hc & Eb & Epack & Epad).
  unfold encB. rewrite mask_eq, Epad, Epack, <- app_assoc. cbn [app].
  replace (Z.of_nat (8 - length c)) with (8 - Z.of_nat (length c)) by lia.
  assert (Hv : byte_ok (val_msb (c ++ repeat false (8 - length c))))
    by (apply val_msb8_byte_ok; rewrite app_length, repeat_length; lia).
  unfold upto. subst b. rewrite app_length, msb_bits_length.
  destruct (le_lt_dec (length a) (length p)) as [Hs|Hl].
  - rewrite CmpUpto_short by exact Hs. do 2 f_equal.
    rewrite bytes_cmp_msb_bits; [|exact Ha|apply Forall_app; split; [exact Hp|constructor; [exact Hv|constructor]]].
    rewrite msb_bits_app. cbn [msb_bits flat_map]. rewrite app_nil_r.
    rewrite byte_bits_val_msb by (rewrite app_length, repeat_length; lia).
    rewrite firstn_all2 by (rewrite msb_bits_length; lia).
    fold (msb_bits p). rewrite app_assoc. unfold bits_cmp. apply lex_cmp_shorter_app.
    rewrite app_length, !msb_bits_length. lia.
  - destruct (split_at a (length p) Hl) as (a1 & x & a2 & -> & La1).
    apply Forall_app in Ha as [Ha1 Ha2]. inversion Ha2 as [|? ? Hx Ha2']; subst.
    rewrite CmpUpto_long by exact La1. f_equal.
    rewrite msb_bits_app, msb_bits_cons.
    rewrite firstn_app, msb_bits_length, La1.
    rewrite (firstn_all2 (msb_bits a1)) by (rewrite msb_bits_length; lia).
    replace (8 * length p + length c - 8 * length p)%nat with (length c) by lia.
    rewrite firstn_app, byte_bits_length.
    replace (length c - 8)%nat with 0%nat by lia. rewrite firstn_O, app_nil_r.
    unfold bits_cmp. rewrite lex_cmp_app_eqlen by (rewrite !msb_bits_length; lia). fold bits_cmp.
    rewrite <- bytes_cmp_msb_bits by assumption.
    rewrite byte_cmp_masked by assumption.
    now destruct (bytes_cmp a1 p).
Qed.

(** * New: index arithmetic *)
Lemma new_arith f t : 0 <= f <= t -> (f =? t) && (Z.land f 7 =? 0) = false ->
  let fb := Z.shiftr f 3 in let tb := Z.shiftr (t + 7) 3 in let k := t - 8 * (tb - 1) in
  fb = f / 8 /\ 0 <= fb < tb /\ 1 <= k <= 8 /\ Z.land (8 - t) 7 = 8 - k /\ 8 * tb < t + 8.
Proof.
  intros H Hc. cbv zeta. rewrite !Z.shiftr_div_pow2 by lia. change (2 ^ 3) with 8.
  change 7 with (Z.ones 3) in *. rewrite !Z.land_ones in * by lia. change (2 ^ 3) with 8 in *.
  change (Z.ones 3) with 7.
  assert (Hc' : ~ (f = t /\ f mod 8 = 0)).
  { intros [E1 E2]. rewrite E2 in Hc. subst. rewrite Z.eqb_refl in Hc. discriminate. }
  clear Hc. Z.div_mod_to_equations. lia.
Qed.

Lemma rmask8_eq q : 0 <= q < 8 -> rmask8 q = 256 - 2 ^ q.
Proof.
  intros H.
  assert (T : forallb (fun q => rmask8 q =? 256 - 2 ^ q) (zrange 8) = true) by (vm_compute; reflexivity).
  apply Z.eqb_eq. apply (forall_zrange _ _ T q H).
Qed.

(** * New on explicit shapes *)
Lemma sliceZ_mid (s0 m r : list Z) lo hi : lo = zlen s0 -> hi = lo + zlen m ->
  sliceZ (s0 ++ m ++ r) lo hi = Some m.
Proof.
  intros -> ->. unfold sliceZ. rewrite !zlen_app.
  pose proof (zlen_nonneg s0). pose proof (zlen_nonneg m). pose proof (zlen_nonneg r).
  replace ((0 <=? zlen s0) && (zlen s0 <=? zlen s0 + zlen m) && (zlen s0 + zlen m <=? zlen s0 + (zlen m + zlen r)))
    with true by (symmetry; rewrite !andb_true_iff, !Z.leb_le; lia).
  f_equal. replace (zlen s0 + zlen m - zlen s0) with (zlen m) by lia. unfold zlen. rewrite !Nat2Z.id.
  rewrite skipn_app, Nat.sub_diag, skipn_all. cbn [app skipn].
  rewrite firstn_app, Nat.sub_diag, firstn_O, app_nil_r. apply firstn_all.
Qed.

Lemma updZ_app_at (a : list Z) y r i z : i = zlen a -> updZ (a ++ y :: r) i z = a ++ z :: r.
Proof.
  intros ->. unfold updZ, zlen. rewrite Nat2Z.id.
  rewrite firstn_app, Nat.sub_diag, firstn_O, app_nil_r, firstn_all.
  f_equal. f_equal. rewrite skipn_app. rewrite skipn_all2 by lia.
  replace (length a + 1 - length a)%nat with 1%nat by lia. reflexivity.
Qed.

Lemma copyZ_fresh (src : list Z) : copyZ (repeat 0 (length src + 1)) src = src ++ [0].
Proof.
  unfold copyZ. rewrite repeat_length. replace (Nat.min (length src + 1) (length src)) with (length src) by lia.
  rewrite firstn_all. f_equal. rewrite repeat_app, skipn_app, repeat_length, Nat.sub_diag.
  rewrite skipn_all2 by (rewrite repeat_length; lia). reflexivity.
Qed.

Lemma New_shape s0 mid x s2 f t :
  Z.shiftr f 3 = zlen s0 -> Z.shiftr (t + 7) 3 = zlen s0 + zlen mid + 1 ->
  (f =? t) && (Z.land f 7 =? 0) = false ->
  New (s0 ++ mid ++ x :: s2) f t =
  Some (mid ++ [Z.land x (rmask8 (Z.land (8 - t) 7)); rmask8 (Z.land (8 - t) 7)]).
Proof.
  intros Hf Ht Hc. unfold New. rewrite Hc. cbv zeta. rewrite Hf, Ht.
  pose proof (zlen_nonneg mid) as Hm.
  replace (zlen s0 + zlen mid + 1 - zlen s0) with (zlen mid + 1) by lia.
  destruct (Z.ltb_spec (zlen mid + 1 + 1) 0); [lia|].
  change (mid ++ x :: s2) with (mid ++ [x] ++ s2). rewrite (app_assoc mid).
  rewrite (sliceZ_mid s0 (mid ++ [x]) s2) by (rewrite ?zlen_app; change (zlen [x]) with 1; lia).
  replace (Z.to_nat (zlen mid + 1 + 1)) with (length (mid ++ [x]) + 1)%nat
    by (rewrite app_length; unfold zlen; cbn [length]; lia).
  rewrite copyZ_fresh. rewrite <- app_assoc. cbn [app].
  rewrite nthZ_app_at by lia. rewrite updZ_app_at by lia.
  rewrite nthZ_last2b by lia.
  change (mid ++ [Z.land x (rmask8 (Z.land (8 - t) 7)); 0]) with (mid ++ [Z.land x (rmask8 (Z.land (8 - t) 7))] ++ [0]).
  rewrite app_assoc. rewrite updZ_app_at by (rewrite zlen_app; change (zlen [Z.land x (rmask8 (Z.land (8 - t) 7))]) with 1; lia).
  now rewrite <- app_assoc.
Qed.

(** * the bit string of a range, and its encoding, on explicit shapes *)
Lemma B_shape s0 mid x s2 f t k :
  f / 8 = zlen s0 -> (0 < k <= 8)%nat -> t = 8 * zlen s0 + 8 * zlen mid + Z.of_nat k ->
  B (s0 ++ mid ++ x :: s2) f t = msb_bits mid ++ firstn k (byte_bits x).
Proof.
  intros Hf Hk ->. unfold B. rewrite Hf.
  replace (Z.to_nat (8 * zlen s0)) with (8 * length s0)%nat by (unfold zlen; lia).
  replace (Z.to_nat (8 * zlen s0 + 8 * zlen mid + Z.of_nat k - 8 * zlen s0)) with (8 * length mid + k)%nat
    by (unfold zlen; lia).
  rewrite !msb_bits_app, msb_bits_cons.
  rewrite skipn_app, msb_bits_length, Nat.sub_diag.
  rewrite skipn_all2 by (rewrite msb_bits_length; lia). cbn [app skipn].
  rewrite firstn_app, msb_bits_length.
  rewrite (firstn_all2 (msb_bits mid)) by (rewrite msb_bits_length; lia).
  f_equal. replace (8 * length mid + k - 8 * length mid)%nat with k by lia.
  rewrite firstn_app, byte_bits_length. replace (k - 8)%nat with 0%nat by lia.
  now rewrite firstn_O, app_nil_r.
Qed.

Lemma padn_add_mult j n : padn (8 * j + n) = padn n.
Proof.
  induction j as [|j IH]; [reflexivity|].
  replace (8 * S j + n)%nat with (8 + (8 * j + n))%nat by lia. now rewrite padn_add8.
Qed.

Lemma encB_shape mid x k : bytes_ok mid -> byte_ok x -> (0 < k <= 8)%nat ->
  encB (msb_bits mid ++ firstn k (byte_bits x)) =
  mid ++ [Z.land x (256 - 2 ^ (8 - Z.of_nat k)); 256 - 2 ^ (8 - Z.of_nat k)].
Proof.
  intros Hm Hx Hk.
  assert (Lk : length (firstn k (byte_bits x)) = k) by (rewrite firstn_length, byte_bits_length; lia).
  unfold encB. rewrite pack_msb_bits_app by exact Hm.
  rewrite pack_short by lia. rewrite Lk.
  rewrite mask_eq, app_length, msb_bits_length, Lk, padn_add_mult, padn_small by lia.
  rewrite <- land_high_mask by assumption.
  replace (Z.of_nat (8 - k)) with (8 - Z.of_nat k) by lia.
  rewrite <- app_assoc. reflexivity.
Qed.

(** * New = canonical encoding of the bit string of the range *)
Lemma New_encB s f t : bytes_ok s -> 0 <= f <= t -> t <= 8 * zlen s ->
  New s f t = Some (encB (B s f t)).
Proof.
  intros Hs H Ht.
  destruct ((f =? t) && (Z.land f 7 =? 0)) eqn:Hc.
  - unfold New. rewrite Hc. f_equal.
    apply andb_prop in Hc as [E1 E2]. apply Z.eqb_eq in E1, E2. subst t.
    change 7 with (Z.ones 3) in E2. rewrite Z.land_ones in E2 by lia. change (2 ^ 3) with 8 in E2.
    unfold B. replace (f - 8 * (f / 8)) with 0 by (Z.div_mod_to_equations; lia). reflexivity.
  - destruct (new_arith f t ltac:(lia) Hc) as (Efb & Hfb & Hk & Em & Htb).
    set (fb := Z.shiftr f 3) in *. set (tb := Z.shiftr (t + 7) 3) in *.
    set (k := t - 8 * (tb - 1)) in *.
    assert (Htb' : tb <= zlen s) by lia.
    (* cut s at fb and at tb - 1 *)
    set (s0 := firstn (Z.to_nat fb) s). set (rest := skipn (Z.to_nat fb) s).
    assert (Es : s = s0 ++ rest) by (symmetry; apply firstn_skipn).
    assert (L0 : zlen s0 = fb) by (unfold s0, zlen in *; rewrite firstn_length; lia).
    assert (Lr : (Z.to_nat (tb - fb - 1) < length rest)%nat)
      by (unfold rest; rewrite skipn_length; unfold zlen in *; lia).
    destruct (split_at rest _ Lr) as (mid & x & s2 & Er & Lmid).
    assert (Lm : zlen mid = tb - fb - 1) by (unfold zlen; lia).
    rewrite Es, Er in Hs. apply Forall_app in Hs as [_ Hs]. apply Forall_app in Hs as [Hmid Hs].
    inversion Hs as [|? ? Hx _]; subst x0 l.
    rewrite Es, Er.
    rewrite New_shape by (fold fb tb; lia || exact Hc).
    fold tb k. rewrite Em. rewrite rmask8_eq by lia.
    rewrite (B_shape s0 mid x s2 f t (Z.to_nat k)) by lia.
    rewrite encB_shape by (assumption || lia).
    replace (Z.of_nat (Z.to_nat k)) with k by lia.
    replace (8 - (8 - k)) with k by lia. reflexivity.
Qed.

(** * consequences: Cmp is a total order on canonical encodings *)
Lemma cmp_sign_inj c d : cmp_sign c = cmp_sign d -> c = d.
Proof. destruct c, d; cbn; congruence || lia. Qed.

Lemma bits_cmp_lt_trans a b c : bits_cmp a b = Lt -> bits_cmp b c = Lt -> bits_cmp a c = Lt.
Proof. apply lex_lt_trans; [apply bool_cmp_eq|apply bool_cmp_lt_trans]. Qed.

Lemma bits_cmp_prefix b r : r <> [] -> bits_cmp b (b ++ r) = Lt.
Proof.
  intros Hr. unfold bits_cmp. rewrite <- (app_nil_r b) at 1.
  rewrite lex_cmp_app_same by apply bool_cmp_refl. destruct r; [congruence|reflexivity].
Qed.

Lemma bits_cmp_first_diff c r1 r2 : bits_cmp (c ++ false :: r1) (c ++ true :: r2) = Lt.
Proof. unfold bits_cmp. rewrite lex_cmp_app_same by apply bool_cmp_refl. reflexivity. Qed.

Lemma Cmp_zero_iff b1 b2 : Cmp (encB b1) (encB b2) = Some 0 <-> b1 = b2.
Proof.
  rewrite Cmp_encB. rewrite <- bits_cmp_eq. split.
  - intros E. injection E as E. now apply (cmp_sign_inj _ Eq).
  - now intros ->.
Qed.

Lemma Cmp_antisym b1 b2 : Cmp (encB b2) (encB b1) = option_map Z.opp (Cmp (encB b1) (encB b2)).
Proof. rewrite !Cmp_encB. cbn [option_map]. now rewrite bits_cmp_antisym, cmp_sign_opp. Qed.

Lemma Cmp_lt_trans b1 b2 b3 :
  Cmp (encB b1) (encB b2) = Some (-1) -> Cmp (encB b2) (encB b3) = Some (-1) ->
  Cmp (encB b1) (encB b3) = Some (-1).
Proof.
  rewrite !Cmp_encB. intros E1 E2. injection E1 as E1. injection E2 as E2.
  apply (cmp_sign_inj _ Lt) in E1, E2. now rewrite (bits_cmp_lt_trans _ _ _ E1 E2).
Qed.

Lemma Cmp_prefix b r : r <> [] -> Cmp (encB b) (encB (b ++ r)) = Some (-1).
Proof. intros Hr. now rewrite Cmp_encB, bits_cmp_prefix. Qed.

Lemma Cmp_first_diff c r1 r2 : Cmp (encB (c ++ false :: r1)) (encB (c ++ true :: r2)) = Some (-1).
Proof. now rewrite Cmp_encB, bits_cmp_first_diff. Qed.

Lemma Cmp_range b1 b2 : exists r, Cmp (encB b1) (encB b2) = Some r /\ (r = -1 \/ r = 0 \/ r = 1).
Proof. rewrite Cmp_encB. eexists. split; [reflexivity|]. destruct (bits_cmp b1 b2); cbn; auto. Qed.

Lemma encB_inj b1 b2 : encB b1 = encB b2 -> b1 = b2.
Proof. intros E. apply Cmp_zero_iff. rewrite E. now apply Cmp_zero_iff. Qed.

Lemma CmpUpto_zero_iff a b : bytes_ok a -> CmpUpto a (encB b) = Some 0 <-> upto a b = b.
Proof.
  intros Ha. rewrite CmpUpto_encB by exact Ha. rewrite <- bits_cmp_eq. split.
  - intros E. injection E as E. now apply (cmp_sign_inj _ Eq).
  - now intros ->.
Qed.

(** * the compositions the protocol operations run *)
Lemma Len_New s f t : bytes_ok s -> 0 <= f <= t -> t <= 8 * zlen s ->
  match New s f t with Some e => Len e | None => None end = Some (spec_Len s f t).
Proof. intros Hs H Ht. rewrite New_encB by assumption. apply Len_encB. Qed.

Lemma Cmp_New s1 f1 t1 s2 f2 t2 :
  bytes_ok s1 -> 0 <= f1 <= t1 -> t1 <= 8 * zlen s1 ->
  bytes_ok s2 -> 0 <= f2 <= t2 -> t2 <= 8 * zlen s2 ->
  match New s1 f1 t1, New s2 f2 t2 with Some e1, Some e2 => Cmp e1 e2 | _, _ => None end
  = Some (spec_Cmp s1 f1 t1 s2 f2 t2).
Proof. intros. rewrite !New_encB by assumption. apply Cmp_encB. Qed.

Lemma CmpUpto_New a s f t : bytes_ok a -> bytes_ok s -> 0 <= f <= t -> t <= 8 * zlen s ->
  match New s f t with Some e => CmpUpto a e | None => None end = Some (spec_CmpUpto a s f t).
Proof. intros. rewrite New_encB by assumption. now apply CmpUpto_encB. Qed.
