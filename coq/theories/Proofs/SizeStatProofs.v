(** Proofs for the full report of size.Stat (C20 widening): the model [stat]
    (Model/SizeStat.v: recursion on depth, loops with early exit, bottom-up
    indentation) prints exactly the rendering of the visible entries of the
    complete listing (Spec/SizeStatSpec.v). *)
From Coq Require Import ZArith List Bool Lia.
From Low Require Import Model.Size Model.SizeFmt Model.SizeStat Spec.SizeSpec Spec.SizeStatSpec Proofs.SizeProofs.
Import ListNotations.
Open Scope Z_scope.

(** * Induction principle for the nested inductive [lvalue] *)
Section LvalueInd.
  Variable P : lvalue -> Prop.
  Hypothesis Hscalar : forall ty k, P (LScalar ty k).
  Hypothesis Hstring : forall ty bs, P (LString ty bs).
  Hypothesis Hslice_nil : forall ty, P (LSlice ty None).
  Hypothesis Hslice : forall ty l, Forall P l -> P (LSlice ty (Some l)).
  Hypothesis Harray : forall ty l, Forall P l -> P (LArray ty l).
  Hypothesis Hmap : forall ty kvs, Forall (fun e => P (snd e)) kvs -> P (LMap ty kvs).
  Hypothesis Hptr_nil : forall ty, P (LPtr ty None).
  Hypothesis Hptr : forall ty x, P x -> P (LPtr ty (Some x)).
  Hypothesis Hiface_nil : forall ty, P (LIface ty None).
  Hypothesis Hiface : forall ty x, P x -> P (LIface ty (Some x)).
  Hypothesis Hstruct : forall ty fs, Forall (fun e => P (snd e)) fs -> P (LStruct ty fs).
  Hypothesis Hother : forall ty, P (LOther ty).

  Fixpoint lvalue_ind' (v : lvalue) : P v :=
    let fix all (l : list lvalue) : Forall P l :=
      match l with
      | [] => Forall_nil P
      | x :: t => Forall_cons x (lvalue_ind' x) (all t)
      end in
    match v with
    | LScalar ty k => Hscalar ty k
    | LString ty bs => Hstring ty bs
    | LSlice ty None => Hslice_nil ty
    | LSlice ty (Some l) => Hslice ty l (all l)
    | LArray ty l => Harray ty l (all l)
    | LMap ty kvs =>
        Hmap ty kvs
          ((fix allp (l : list (list Z * value * lvalue)) : Forall (fun e => P (snd e)) l :=
              match l with
              | [] => Forall_nil _
              | e :: t => Forall_cons e (lvalue_ind' (snd e)) (allp t)
              end) kvs)
    | LPtr ty None => Hptr_nil ty
    | LPtr ty (Some x) => Hptr ty x (lvalue_ind' x)
    | LIface ty None => Hiface_nil ty
    | LIface ty (Some x) => Hiface ty x (lvalue_ind' x)
    | LStruct ty fs =>
        Hstruct ty fs
          ((fix allf (l : list (list Z * lvalue)) : Forall (fun e => P (snd e)) l :=
              match l with
              | [] => Forall_nil _
              | e :: t => Forall_cons e (lvalue_ind' (snd e)) (allf t)
              end) fs)
    | LOther ty => Hother ty
    end.
End LvalueInd.

(** * The listing: root entry and kids *)
Definition mk_entry (level : nat) (idxs label : list Z) (n : option lvalue) : entry :=
  {| e_level := level; e_idxs := idxs; e_label := label; e_node := n |}.

Definition kids (v : lvalue) (level : nat) (idxs : list Z) : list entry :=
  match v with
  | LSlice _ (Some l) => kids_elems (fun x i lb => listing x (S level) (i :: idxs) lb) l 0
  | LArray _ l => kids_elems (fun x i lb => listing x (S level) (i :: idxs) lb) l 0
  | LMap _ kvs => kids_pairs (fun x i lb => listing x (S level) (i :: idxs) lb) kvs 0
  | LPtr _ (Some x) => listing x (S level) idxs []
  | LIface _ (Some x) => listing x (S level) idxs []
  | LIface _ None => [mk_entry (S level) idxs [] None]
  | LStruct _ fs => flat_map (fun e => listing (snd e) (S level) idxs (fst e ++ s_colon)) fs
  | _ => []
  end.

Lemma listing_eq v level idxs label :
  listing v level idxs label = mk_entry level idxs label (Some v) :: kids v level idxs.
Proof. destruct v as [| |? [?|]| | |? [?|]|? [?|]| |]; reflexivity. Qed.

(** Forall over the three kinds of kid lists *)
Lemma kids_elems_Forall (Q : entry -> Prop) g l :
  (forall x, In x l -> forall i lb, Forall Q (g x i lb)) ->
  forall i, Forall Q (kids_elems g l i).
Proof.
  induction l as [|x t IH]; intros H i; cbn [kids_elems]; [constructor|].
  apply Forall_app. split; [apply H; left; reflexivity|].
  apply IH. intros y Hy. apply H. right; exact Hy.
Qed.

Lemma kids_pairs_Forall (Q : entry -> Prop) g (l : list (list Z * value * lvalue)) :
  (forall e, In e l -> forall i lb, Forall Q (g (snd e) i lb)) ->
  forall i, Forall Q (kids_pairs g l i).
Proof.
  induction l as [|[[kt k] x] t IH]; intros H i; cbn [kids_pairs]; [constructor|].
  apply Forall_app. split; [apply (H (kt, k, x)); left; reflexivity|].
  apply IH. intros y Hy. apply H. right; exact Hy.
Qed.

Lemma flat_map_Forall {A} (Q : entry -> Prop) (f : A -> list entry) l :
  (forall x, In x l -> Forall Q (f x)) -> Forall Q (flat_map f l).
Proof.
  induction l as [|x t IH]; intros H; cbn [flat_map]; [constructor|].
  apply Forall_app. split; [apply H; left; reflexivity|].
  apply IH. intros y Hy. apply H. right; exact Hy.
Qed.

(** a property of (level, idxs) that is inherited by the children is a property of every entry *)
Section Inherited.
  Variable Q : nat -> list Z -> Prop.
  Hypothesis Qdown : forall level idxs, Q level idxs -> Q (S level) idxs.
  Hypothesis Qitem : forall level idxs i, Q level idxs -> Q (S level) (i :: idxs).

  Lemma listing_inherits : forall v level idxs label,
    Q level idxs -> Forall (fun e => Q (e_level e) (e_idxs e)) (listing v level idxs label).
  Proof.
    induction v using lvalue_ind'; intros level idxs label HQ; rewrite listing_eq;
      (constructor; [exact HQ|]); cbn [kids]; try constructor.
    - apply kids_elems_Forall. intros x Hx i lb.
      rewrite Forall_forall in H. apply (H x Hx). apply Qitem, HQ.
    - apply kids_elems_Forall. intros x Hx i lb.
      rewrite Forall_forall in H. apply (H x Hx). apply Qitem, HQ.
    - apply kids_pairs_Forall. intros e He i lb.
      rewrite Forall_forall in H. apply (H e He). apply Qitem, HQ.
    - apply IHv. apply Qdown, HQ.
    - cbn [e_level e_idxs mk_entry]. apply Qdown, HQ.
    - constructor.
    - apply IHv. apply Qdown, HQ.
    - apply flat_map_Forall. intros e He.
      rewrite Forall_forall in H. apply (H e He). apply Qdown, HQ.
  Qed.

  Lemma kids_inherit v level idxs :
    Q level idxs -> Forall (fun e => Q (e_level e) (e_idxs e)) (kids v level idxs).
  Proof.
    intros HQ. pose proof (listing_inherits v level idxs [] HQ) as H.
    rewrite listing_eq in H. inversion H; assumption.
  Qed.
End Inherited.

(** every kid is at least one level below *)
Lemma kids_levels v level idxs :
  Forall (fun e => (S level <= e_level e)%nat) (kids v level idxs).
Proof.
  pose proof (listing_inherits (fun lv _ => (level <= lv)%nat)) as L.
  assert (D : forall lv (ids : list Z), (level <= lv)%nat -> (level <= S lv)%nat) by (intros; lia).
  assert (K : forall x lv ids lb, (S level <= lv)%nat ->
              Forall (fun e => (S level <= e_level e)%nat) (listing x lv ids lb)).
  { intros x lv ids lb Hlv.
    apply (listing_inherits (fun l _ => (S level <= l)%nat)); auto; intros; lia. }
  destruct v as [| |? [?|]| | |? [?|]|? [?|]| |]; cbn [kids]; try constructor.
  - apply kids_elems_Forall. intros. apply K. lia.
  - apply kids_elems_Forall. intros. apply K. lia.
  - apply kids_pairs_Forall. intros. apply K. lia.
  - apply K. lia.
  - apply K. lia.
  - cbn [e_level mk_entry]. lia.
  - constructor.
  - apply flat_map_Forall. intros. apply K. lia.
Qed.

(** an item index at or above [m] on the path stays on the path of every entry below *)
Definition bad (m : Z) (idxs : list Z) : bool := existsb (fun j => m <=? j) idxs.

Lemma listing_bad m v level idxs label :
  bad m idxs = true -> Forall (fun e => bad m (e_idxs e) = true) (listing v level idxs label).
Proof.
  intros H.
  apply (listing_inherits (fun _ ids => bad m ids = true)); auto.
  intros _ ids i Hi. unfold bad in *. cbn [existsb]. rewrite Hi. apply orb_true_r.
Qed.

Lemma bad_invisible depth m e : bad m (e_idxs e) = true -> visible depth m e = false.
Proof.
  intros H. unfold visible. apply andb_false_intro2.
  unfold bad in H. apply existsb_exists in H as [j [Hin Hj]].
  destruct (forallb (fun i => i <? m) (e_idxs e)) eqn:F; [|reflexivity].
  rewrite forallb_forall in F. specialize (F j Hin). lia.
Qed.

Lemma filter_none {A} (p : A -> bool) l : Forall (fun x => p x = false) l -> filter p l = [].
Proof. induction 1 as [|x l Hx _ IH]; cbn [filter]; [reflexivity|]. rewrite Hx. exact IH. Qed.

Lemma Forall_filter {A} (Q : A -> Prop) (p : A -> bool) l : Forall Q l -> Forall Q (filter p l).
Proof.
  induction 1 as [|x l Hx _ IH]; cbn [filter]; [constructor|].
  destruct (p x); [constructor|]; assumption.
Qed.

(** * Rendering relative to a level *)
Definition body (o : sopt) (e : entry) : list Z :=
  match e_node e with
  | None => s_nil
  | Some x => header_text o (ty_of x) (spec_size (erase x))
  end.
Definition render_rel (o : sopt) (level0 : nat) (e : entry) : list Z :=
  indent (e_level e - level0) ++ e_label e ++ body o e.
Definition R (o : sopt) (level0 : nat) (es : list entry) : list (list Z) := map (render_rel o level0) es.

Lemma render_rel_0 o e : render_rel o 0 e = render o e.
Proof. unfold render_rel, render, body. rewrite Nat.sub_0_r. reflexivity. Qed.

Lemma R_0 o es : R o 0 es = map (render o) es.
Proof. unfold R. apply map_ext. apply render_rel_0. Qed.

Lemma indent_S n : indent (S n) = s_indent ++ indent n.
Proof. reflexivity. Qed.

Lemma R_cons o lv e es : R o lv (e :: es) = render_rel o lv e :: R o lv es.
Proof. reflexivity. Qed.

Lemma R_app o lv a b : R o lv (a ++ b) = R o lv a ++ R o lv b.
Proof. apply map_app. Qed.

Lemma R_shift o level es :
  Forall (fun e => (S level <= e_level e)%nat) es ->
  map (fun s => s_indent ++ s) (R o (S level) es) = R o level es.
Proof.
  induction 1 as [|e es He _ IH]; [reflexivity|].
  unfold R in *. cbn [map]. rewrite IH. f_equal.
  unfold render_rel. rewrite app_assoc, <- indent_S. do 2 f_equal. lia.
Qed.

Definition hdr (o : sopt) (v : lvalue) : list Z := header_text o (ty_of v) (spec_size (erase v)).

(** * The model, one step *)
Lemma stat_eq o m v depth :
  stat o m v depth =
  match sizeof (erase v) with
  | None => None
  | Some s =>
      let header := header_text o (ty_of v) s in
      if depth =? 0 then Some [header]
      else
        let depth := depth - 1 in
        let lines := [header] in
        let body :=
          match v with
          | LMap _ kvs => stat_pairs (fun x => stat o m x depth) m kvs 0 lines
          | LSlice _ None => Some lines
          | LSlice _ (Some l) => stat_elems (fun x => stat o m x depth) m l 0 lines
          | LArray _ l => stat_elems (fun x => stat o m x depth) m l 0 lines
          | LPtr _ None => Some lines
          | LPtr _ (Some x) =>
              match stat o m x depth with
              | None => None
              | Some subs => Some (lines ++ subs)
              end
          | LIface _ None => Some (lines ++ [s_nil])
          | LIface _ (Some x) =>
              match stat o m x depth with
              | None => None
              | Some subs => Some (lines ++ subs)
              end
          | LStruct _ fs => stat_fields (fun x => stat o m x depth) fs lines
          | _ => Some lines
          end in
        match body with
        | None => None
        | Some lines => Some (indent_tail lines)
        end
  end.
Proof. destruct v as [| |? [?|]| | |? [?|]|? [?|]| |]; reflexivity. Qed.

(** * Invariants *)
Definition path_ok (m : Z) (idxs : list Z) : Prop := forallb (fun i => i <? m) idxs = true.

(** the remaining depth [d] of the model at nesting level [level] of a report asked with [depth] *)
Definition rem (depth : Z) (level : nat) (d : Z) : Prop :=
  (depth < 0 /\ d < 0) \/ (0 <= depth /\ d = depth - Z.of_nat level /\ 0 <= d).

Lemma rem_step depth level d : rem depth level d -> d <> 0 -> rem depth (S level) (d - 1).
Proof. unfold rem. intros [[A B]|[A [B C]]] Hd; [left|right]; lia. Qed.

Lemma rem_visible depth m level idxs label n d :
  rem depth level d -> path_ok m idxs -> visible depth m (mk_entry level idxs label n) = true.
Proof.
  unfold rem, path_ok, visible. cbn [e_level e_idxs mk_entry]. intros [[A B]|[A [B C]]] ->; rewrite andb_true_r.
  - apply orb_true_intro. left. lia.
  - apply orb_true_intro. right. lia.
Qed.

Lemma rem_zero_invisible depth m level e :
  rem depth level 0 -> (S level <= e_level e)%nat -> visible depth m e = false.
Proof.
  unfold rem, visible. intros [[A B]|[A [B C]]] L; [lia|].
  apply andb_false_intro1. apply orb_false_intro; lia.
Qed.

(** the statement proved for every node *)
Definition node_ok (o : sopt) (m : Z) (v : lvalue) : Prop :=
  lsupported v ->
  forall level idxs d depth, path_ok m idxs -> rem depth level d ->
  stat o m v d = Some (hdr o v :: R o level (filter (visible depth m) (kids v level idxs))).

(** what the parent needs from a child: its lines, prefixed and indented once, are the
    rendering (relative to the parent's level) of the visible part of the child's listing *)
Lemma child_lines o m x level idxs d depth lb :
  node_ok o m x -> lsupported x -> path_ok m idxs -> rem depth (S level) d ->
  exists h t,
    stat o m x d = Some (h :: t) /\
    map (fun s => s_indent ++ s) ((lb ++ h) :: t) =
    R o level (filter (visible depth m) (listing x (S level) idxs lb)).
Proof.
  intros IH S P Rm. specialize (IH S (Datatypes.S level) idxs d depth P Rm).
  eexists _, _. split; [exact IH|].
  rewrite listing_eq. cbn [filter]. rewrite (rem_visible depth m _ idxs lb (Some x) d Rm P).
  rewrite R_cons. cbn [map]. f_equal.
  - unfold render_rel, body, hdr. cbn [e_level e_label e_node mk_entry].
    replace (Datatypes.S level - level)%nat with 1%nat by lia.
    unfold indent. cbn [repeat concat]. rewrite app_nil_r. reflexivity.
  - apply R_shift. apply Forall_filter.
    eapply Forall_impl; [|apply kids_levels]. cbv beta. intros; lia.
Qed.

Lemma map_indent_app (a b : list (list Z)) :
  map (fun s => s_indent ++ s) (a ++ b) = map (fun s => s_indent ++ s) a ++ map (fun s => s_indent ++ s) b.
Proof. apply map_app. Qed.

(** * The three loops *)
Lemma stat_elems_ok o m level idxs d depth l :
  Forall (node_ok o m) l -> Forall lsupported l -> path_ok m idxs -> rem depth (S level) d ->
  forall i lines, exists X,
    stat_elems (fun x => stat o m x d) m l i lines = Some (lines ++ X) /\
    map (fun s => s_indent ++ s) X =
    R o level (filter (visible depth m) (kids_elems (fun x i lb => listing x (S level) (i :: idxs) lb) l i)).
Proof.
  intros IH S P Rm. induction l as [|x t IHl]; intros i lines.
  - exists []. cbn [stat_elems kids_elems filter R map]. rewrite app_nil_r. split; reflexivity.
  - inversion IH as [|? ? IHx IHt]; subst. inversion S as [|? ? Sx St]; subst.
    cbn [stat_elems kids_elems]. destruct (i <? m) eqn:Him.
    + assert (P' : path_ok m (i :: idxs)).
      { unfold path_ok in *. cbn [forallb]. rewrite Him, P. reflexivity. }
      destruct (child_lines o m x level (i :: idxs) d depth (dec i ++ s_colon) IHx Sx P' Rm)
        as [h [tl [E1 E2]]].
      rewrite E1. cbn [prefix_first].
      destruct (IHl IHt St (i + 1) (lines ++ ((dec i ++ s_colon) ++ h) :: tl)) as [X [E3 E4]].
      exists ((((dec i ++ s_colon) ++ h) :: tl) ++ X). split.
      * rewrite E3. rewrite app_assoc. reflexivity.
      * rewrite map_indent_app, E2, E4, filter_app, R_app. reflexivity.
    + exists []. rewrite app_nil_r. split; [reflexivity|].
      rewrite filter_none; [reflexivity|].
      change (listing x (Datatypes.S level) (i :: idxs) (dec i ++ s_colon) ++
              kids_elems (fun x i lb => listing x (Datatypes.S level) (i :: idxs) lb) t (i + 1))
        with (kids_elems (fun x i lb => listing x (Datatypes.S level) (i :: idxs) lb) (x :: t) i).
      assert (G : forall (l : list lvalue) j, m <= j ->
                  Forall (fun e => bad m (e_idxs e) = true)
                         (kids_elems (fun x i lb => listing x (Datatypes.S level) (i :: idxs) lb) l j)).
      { clear. induction l as [|y l IH]; intros j Hj; cbn [kids_elems]; [constructor|].
        apply Forall_app. split.
        - apply listing_bad. unfold bad. cbn [existsb]. apply orb_true_intro. left. lia.
        - apply IH. lia. }
      eapply Forall_impl; [|apply (G (x :: t) i); lia].
      intros e He. apply bad_invisible. exact He.
Qed.

Lemma stat_pairs_ok o m level idxs d depth (l : list (list Z * value * lvalue)) :
  Forall (fun e => node_ok o m (snd e)) l -> Forall (fun e => lsupported (snd e)) l ->
  path_ok m idxs -> rem depth (S level) d ->
  forall i lines, exists X,
    stat_pairs (fun x => stat o m x d) m l i lines = Some (lines ++ X) /\
    map (fun s => s_indent ++ s) X =
    R o level (filter (visible depth m) (kids_pairs (fun x i lb => listing x (S level) (i :: idxs) lb) l i)).
Proof.
  intros IH S P Rm. induction l as [|[[kt k] x] t IHl]; intros i lines.
  - exists []. cbn [stat_pairs kids_pairs filter R map]. rewrite app_nil_r. split; reflexivity.
  - inversion IH as [|? ? IHx IHt]; subst. inversion S as [|? ? Sx St]; subst.
    cbn [snd] in IHx, Sx.
    cbn [stat_pairs kids_pairs]. destruct (i <? m) eqn:Him.
    + assert (P' : path_ok m (i :: idxs)).
      { unfold path_ok in *. cbn [forallb]. rewrite Him, P. reflexivity. }
      destruct (child_lines o m x level (i :: idxs) d depth (kt ++ s_colon) IHx Sx P' Rm)
        as [h [tl [E1 E2]]].
      rewrite E1. cbn [prefix_first].
      destruct (IHl IHt St (i + 1) (lines ++ ((kt ++ s_colon) ++ h) :: tl)) as [X [E3 E4]].
      exists ((((kt ++ s_colon) ++ h) :: tl) ++ X). split.
      * rewrite E3. rewrite app_assoc. reflexivity.
      * rewrite map_indent_app, E2, E4, filter_app, R_app. reflexivity.
    + exists []. rewrite app_nil_r. split; [reflexivity|].
      rewrite filter_none; [reflexivity|].
      change (listing x (Datatypes.S level) (i :: idxs) (kt ++ s_colon) ++
              kids_pairs (fun x i lb => listing x (Datatypes.S level) (i :: idxs) lb) t (i + 1))
        with (kids_pairs (fun x i lb => listing x (Datatypes.S level) (i :: idxs) lb) ((kt, k, x) :: t) i).
      assert (G : forall (l : list (list Z * value * lvalue)) j, m <= j ->
                  Forall (fun e => bad m (e_idxs e) = true)
                         (kids_pairs (fun x i lb => listing x (Datatypes.S level) (i :: idxs) lb) l j)).
      { clear. induction l as [|[[kt' k'] y] l IH]; intros j Hj; cbn [kids_pairs]; [constructor|].
        apply Forall_app. split.
        - apply listing_bad. unfold bad. cbn [existsb]. apply orb_true_intro. left. lia.
        - apply IH. lia. }
      eapply Forall_impl; [|apply (G ((kt, k, x) :: t) i); lia].
      intros e He. apply bad_invisible. exact He.
Qed.

Lemma stat_fields_ok o m level idxs d depth (l : list (list Z * lvalue)) :
  Forall (fun e => node_ok o m (snd e)) l -> Forall (fun e => lsupported (snd e)) l ->
  path_ok m idxs -> rem depth (S level) d ->
  forall lines, exists X,
    stat_fields (fun x => stat o m x d) l lines = Some (lines ++ X) /\
    map (fun s => s_indent ++ s) X =
    R o level (filter (visible depth m)
                 (flat_map (fun e => listing (snd e) (S level) idxs (fst e ++ s_colon)) l)).
Proof.
  intros IH S P Rm. induction l as [|[nm x] t IHl]; intros lines.
  - exists []. cbn [stat_fields flat_map filter R map]. rewrite app_nil_r. split; reflexivity.
  - inversion IH as [|? ? IHx IHt]; subst. inversion S as [|? ? Sx St]; subst.
    cbn [snd] in IHx, Sx.
    cbn [stat_fields flat_map fst snd].
    destruct (child_lines o m x level idxs d depth (nm ++ s_colon) IHx Sx P Rm) as [h [tl [E1 E2]]].
    rewrite E1. cbn [prefix_first].
    destruct (IHl IHt St (lines ++ ((nm ++ s_colon) ++ h) :: tl)) as [X [E3 E4]].
    exists ((((nm ++ s_colon) ++ h) :: tl) ++ X). split.
    + rewrite E3. rewrite app_assoc. reflexivity.
    + rewrite map_indent_app, E2, E4, filter_app, R_app. reflexivity.
Qed.

(** * Supported children *)
Lemma forallb_map {A B} (f : A -> B) (p : B -> bool) l : forallb p (map f l) = forallb (fun x => p (f x)) l.
Proof. induction l as [|x t IH]; cbn [map forallb]; [reflexivity|]. rewrite IH. reflexivity. Qed.

Lemma lsupported_list (l : list lvalue) :
  forallb supportedb (map erase l) = true -> Forall lsupported l.
Proof.
  rewrite forallb_map. intros H. rewrite forallb_forall in H.
  apply Forall_forall. intros x Hx. apply H, Hx.
Qed.

Lemma lsupported_pairs (l : list (list Z * value * lvalue)) :
  forallb (fun kv : value * value => let '(k, x) := kv in supportedb k && supportedb x)
          (map (fun e : list Z * value * lvalue => let '(_, k, x) := e in (k, erase x)) l) = true ->
  Forall (fun e => lsupported (snd e)) l.
Proof.
  rewrite forallb_map. intros H. rewrite forallb_forall in H.
  apply Forall_forall. intros [[kt k] x] Hx. specialize (H _ Hx). cbn [snd].
  apply andb_prop in H as [_ H]. exact H.
Qed.

Lemma lsupported_fields (l : list (list Z * lvalue)) :
  forallb supportedb (map (fun e : list Z * lvalue => erase (snd e)) l) = true ->
  Forall (fun e => lsupported (snd e)) l.
Proof.
  rewrite forallb_map. intros H. rewrite forallb_forall in H.
  apply Forall_forall. intros e Hx. apply (H _ Hx).
Qed.

(** * Main lemma *)
Lemma indent_tail_cons h X : indent_tail (h :: X) = h :: map (fun s => s_indent ++ s) X.
Proof. reflexivity. Qed.

Lemma stat_node o m : forall v, node_ok o m v.
Proof.
  induction v using lvalue_ind'; intros S level idxs d depth P Rm;
    rewrite stat_eq; rewrite (sizeof_structural _ S); cbv zeta;
    fold (hdr o (LScalar ty k)) || fold (hdr o (LString ty bs)) || idtac.
  all: destruct (d =? 0) eqn:Hd;
    [ apply Z.eqb_eq in Hd; subst d;
      rewrite filter_none;
        [reflexivity
        | eapply Forall_impl; [|apply kids_levels]; intros e He; apply (rem_zero_invisible depth m level e Rm He)]
    | apply Z.eqb_neq in Hd; pose proof (rem_step depth level d Rm Hd) as Rm' ].
  - reflexivity.
  - reflexivity.
  - reflexivity.
  - (* slice *)
    unfold lsupported in S. cbn [erase supportedb] in S. unfold supported in S. cbn [supportedb] in S.
    destruct (stat_elems_ok o m level idxs (d - 1) depth l H (lsupported_list l S) P Rm' 0 [hdr o (LSlice ty (Some l))])
      as [X [E1 E2]].
    unfold hdr in E1. cbn [ty_of] in E1 |- *. rewrite E1. cbn [app]. rewrite indent_tail_cons, E2. reflexivity.
  - (* array *)
    unfold lsupported, supported in S. cbn [erase supportedb] in S.
    destruct (stat_elems_ok o m level idxs (d - 1) depth l H (lsupported_list l S) P Rm' 0 [hdr o (LArray ty l)])
      as [X [E1 E2]].
    unfold hdr in E1. cbn [ty_of] in E1 |- *. rewrite E1. cbn [app]. rewrite indent_tail_cons, E2. reflexivity.
  - (* map *)
    unfold lsupported, supported in S. cbn [erase supportedb] in S.
    destruct (stat_pairs_ok o m level idxs (d - 1) depth kvs H (lsupported_pairs kvs S) P Rm' 0 [hdr o (LMap ty kvs)])
      as [X [E1 E2]].
    unfold hdr in E1. cbn [ty_of] in E1 |- *. rewrite E1. cbn [app]. rewrite indent_tail_cons, E2. reflexivity.
  - reflexivity.
  - (* pointer *)
    assert (Sx : lsupported v) by exact S.
    destruct (child_lines o m v level idxs (d - 1) depth [] IHv Sx P Rm') as [h [tl [E1 E2]]].
    rewrite E1. cbn [app]. rewrite indent_tail_cons. cbn [kids]. rewrite <- E2. reflexivity.
  - (* nil interface *)
    cbn [app]. rewrite indent_tail_cons. cbn [kids filter].
    rewrite (rem_visible depth m _ idxs [] None (d - 1) Rm' P). rewrite R_cons. cbn [R map]. do 2 f_equal.
    unfold render_rel, body. cbn [e_level e_label e_node mk_entry].
    replace (Datatypes.S level - level)%nat with 1%nat by lia.
    unfold indent. cbn [repeat concat]. rewrite app_nil_r. reflexivity.
  - (* interface *)
    assert (Sx : lsupported v) by exact S.
    destruct (child_lines o m v level idxs (d - 1) depth [] IHv Sx P Rm') as [h [tl [E1 E2]]].
    rewrite E1. cbn [app]. rewrite indent_tail_cons. cbn [kids]. rewrite <- E2. reflexivity.
  - (* struct *)
    unfold lsupported, supported in S. cbn [erase supportedb] in S.
    destruct (stat_fields_ok o m level idxs (d - 1) depth fs H (lsupported_fields fs S) P Rm' [hdr o (LStruct ty fs)])
      as [X [E1 E2]].
    unfold hdr in E1. cbn [ty_of] in E1 |- *. rewrite E1. cbn [app]. rewrite indent_tail_cons, E2. reflexivity.
  - discriminate S.
Qed.

(** * Top level *)
Lemma rem_top depth : rem depth 0 depth.
Proof. unfold rem. destruct (Z_lt_dec depth 0); [left|right]; cbn; lia. Qed.

Lemma path_ok_nil m : path_ok m [].
Proof. reflexivity. Qed.

Lemma render_root o v : render_rel o 0 (mk_entry 0 [] [] (Some v)) = hdr o v.
Proof. reflexivity. Qed.

Theorem Stat_report : forall data depth maxItem o,
  match data with Some v => lsupported v | None => True end ->
  StatLines data depth maxItem o = Some (spec_lines data depth maxItem o).
Proof.
  intros [v|] depth m o S; [|reflexivity].
  cbn [StatLines spec_lines].
  rewrite (stat_node o m v S 0%nat [] depth depth (path_ok_nil m) (rem_top depth)).
  rewrite listing_eq. cbn [filter].
  rewrite (rem_visible depth m 0%nat [] [] (Some v) depth (rem_top depth) (path_ok_nil m)).
  cbn [map]. rewrite <- R_0, <- render_rel_0, render_root. reflexivity.
Qed.

Lemma join_nl_spec lines : join_nl lines = spec_join lines.
Proof.
  destruct lines as [|h t]; [reflexivity|]. cbn [spec_join].
  revert h. induction t as [|s t IH]; intros h.
  - cbn [join_nl flat_map]. rewrite app_nil_r. reflexivity.
  - change (join_nl (h :: s :: t)) with (h ++ 10 :: join_nl (s :: t)).
    rewrite IH. cbn [flat_map]. reflexivity.
Qed.

Theorem StatText_report : forall data depth maxItem o,
  match data with Some v => lsupported v | None => True end ->
  StatText data depth maxItem o = Some (spec_text data depth maxItem o).
Proof.
  intros data depth m o S. unfold StatText, spec_text.
  rewrite (Stat_report data depth m o S), join_nl_spec. reflexivity.
Qed.

(** the first line: type, ": ", the number [Of] returns *)
Theorem Stat_first_line_text : forall v depth maxItem n,
  lsupported v -> Of (Some (erase v)) = Some n ->
  exists rest, StatLines (Some v) depth maxItem no_opt = Some ((ty_of v ++ s_colon ++ dec n) :: rest).
Proof.
  intros v depth m n S HO.
  cbn [Of Of_gen] in HO. change (sizeof_gen false (erase v)) with (sizeof (erase v)) in HO.
  rewrite (sizeof_structural _ S) in HO. injection HO as <-.
  cbn [StatLines].
  rewrite (stat_node no_opt m v S 0%nat [] depth depth (path_ok_nil m) (rem_top depth)).
  eexists. reflexivity.
Qed.

(** depth 0: the header alone *)
Theorem Stat_depth0 : forall v maxItem o,
  lsupported v -> StatLines (Some v) 0 maxItem o = Some [hdr o v].
Proof.
  intros v m o S. cbn [StatLines]. rewrite stat_eq, (sizeof_structural _ S). reflexivity.
Qed.

Lemma filter_all {A} (p : A -> bool) l : (forall x, In x l -> p x = true) -> filter p l = l.
Proof.
  induction l as [|x t IH]; intros H; cbn [filter]; [reflexivity|].
  rewrite (H x (or_introl eq_refl)). f_equal. apply IH. intros y Hy. apply H. right; exact Hy.
Qed.

(** no limit in effect: every node of the value has its line, in pre-order *)
Theorem Stat_complete : forall v depth maxItem o,
  lsupported v -> depth < 0 ->
  (forall e, In e (listing v 0 [] []) -> forallb (fun i => i <? maxItem) (e_idxs e) = true) ->
  StatLines (Some v) depth maxItem o = Some (map (render o) (listing v 0 [] [])).
Proof.
  intros v depth m o S Hd Hall.
  rewrite (Stat_report (Some v) depth m o S). cbn [spec_lines]. do 2 f_equal.
  apply filter_all.
  intros e He. unfold visible. rewrite (Hall e He).
  replace (depth <? 0) with true by (symmetry; apply Z.ltb_lt; exact Hd). reflexivity.
Qed.

Theorem StatOpts_report : forall data depth maxItem opts,
  match data with Some v => lsupported v | None => True end ->
  StatOpts data depth maxItem opts = spec_opts data depth maxItem opts.
Proof.
  intros data depth m opts S. unfold StatOpts, spec_opts.
  destruct opts as [|[o|] rest]; cbn [hd_error]; try reflexivity; apply StatText_report; exact S.
Qed.
