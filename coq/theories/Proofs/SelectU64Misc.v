(** Proofs for the C02 widening: the rows of the byte table as the protocol operation reads them, and the
    session operation on one held buffer (queries interleaved with in-place writes): the model's observations are
    the specification's, step by step, for histories of any length. *)
From Coq Require Import ZArith List Lia Bool.
From Low Require Import Lib.MachInt Lib.Bits Lib.BitSeq Lib.BitsExtra_c02 Lib.BitsExtra_c02u Lib.Val Model.Rank Model.Select
  Model.SelectU64 Spec.RankSpec Spec.SelectSpec Spec.SelectLinSpec Spec.SelectU64Spec Proofs.RankProofs Proofs.SelectProofs
  Proofs.SelectMain Proofs.SelectLin Proofs.SelectU64Index Proofs.SelectU64Indexed Proofs.SelectU64Single.
From Low Require Run.C02.
Import ListNotations.
Open Scope Z_scope.

(** * rows of select8Lookup *)
Lemma table_rows_ok :
  forallb (fun b => let r := firstn 8 (skipn (8 * b) select8Lookup) in
                    forallb (fun p => fst p =? snd p) (combine r (spec_select8_row (Z.of_nat b))) &&
                    (length r =? 8)%nat) (seq 0 256) = true.
Proof. vm_compute. reflexivity. Qed.

Lemma combine_eqb_eq : forall (l r : list Z), length l = length r ->
  forallb (fun p => fst p =? snd p) (combine l r) = true -> l = r.
Proof.
  induction l as [|x l IH]; intros [|y r] Hlen Hall; try discriminate; [reflexivity|].
  cbn [combine forallb fst snd] in Hall. apply andb_prop in Hall. destruct Hall as [Hxy Hall].
  apply Z.eqb_eq in Hxy. subst. f_equal. apply IH; [now injection Hlen|exact Hall].
Qed.

Theorem select8Lookup_row b : 0 <= b < 256 ->
  firstn 8 (skipn (Z.to_nat (8 * b)) select8Lookup) = spec_select8_row b.
Proof.
  intros Hb. pose proof table_rows_ok as T. rewrite forallb_forall in T.
  specialize (T (Z.to_nat b) ltac:(apply in_seq; lia)). cbv zeta in T.
  apply andb_prop in T. destruct T as [T1 T2]. apply Nat.eqb_eq in T2.
  rewrite Z2Nat.id in T1 by lia.
  replace (Z.to_nat (8 * b)) with (8 * Z.to_nat b)%nat by lia.
  apply combine_eqb_eq; [|exact T1].
  rewrite T2. unfold spec_select8_row. now rewrite map_length, seq_length.
Qed.

(** * the session operation *)
Import Run.C02.

Lemma c02_set_word_ok ws k x : words_ok ws -> 0 <= x < 2 ^ 64 -> words_ok (c02_set_word ws k x).
Proof.
  intros Hok Hx. revert k. induction Hok as [|w ws Hw Hws IH]; intros k; [constructor|].
  destruct k; cbn [c02_set_word]; constructor; try assumption; try exact Hx; apply IH.
Qed.

Lemma word_okb_ok x : word_okb x = true -> 0 <= x < 2 ^ 64.
Proof. unfold word_okb. intros E. apply andb_prop in E. destruct E as [A B]. apply Z.leb_le in A. apply Z.ltb_lt in B. lia. Qed.

Lemma session_sel_agree ws i : words_ok ws -> c02_session_model_sel ws i <> VBad ->
  c02_session_model_sel ws i = c02_session_spec_sel ws i.
Proof.
  intros Hok Hnb. unfold c02_session_model_sel, c02_session_spec_sel in *.
  destruct (c02_in_range ws i) eqn:Er; [|congruence].
  unfold c02_in_range in Er. apply andb_prop in Er. destruct Er as [A B].
  apply Z.leb_le in A. apply Z.ltb_lt in B. rewrite <- zlen_all_ones in B.
  rewrite (IndexSelect32R64_exact ws Hok). unfold spec_IndexSelect32R64.
  rewrite Select32R64_exact by (assumption || lia). reflexivity.
Qed.

(** queries and writes in any number and order: as long as the history is well-formed (every query inside the
    domain, every write inside the buffer) the model's observations are the specification's *)
Theorem session_model_is_spec : forall steps ws, words_ok ws ->
  ~ In VBad (c02_session_run c02_session_model_sel ws steps) ->
  c02_session_run c02_session_model_sel ws steps = c02_session_run c02_session_spec_sel ws steps.
Proof.
  induction steps as [|st t IH]; intros ws Hok Hnb; [reflexivity|].
  cbn [c02_session_run] in *.
  destruct (c02_parse_step st) as [[i|[k x]]|]; cbn [In] in Hnb.
  - rewrite session_sel_agree by (assumption || intuition congruence).
    f_equal. apply IH; [exact Hok|]. intros Hin. apply Hnb. now right.
  - destruct ((0 <=? k) && (k <? zlen ws) && word_okb x) eqn:E; [|exfalso; apply Hnb; cbn; auto].
    apply andb_prop in E. destruct E as [_ Ex].
    f_equal. apply IH; [apply c02_set_word_ok; [exact Hok|now apply word_okb_ok]|].
    intros Hin. apply Hnb. cbn [In]. now right.
  - exfalso. apply Hnb. cbn. auto.
Qed.

(** * corollaries in the form the property theorems state them *)
Theorem select32single_domain ws sidx i : words_ok ws -> IndexSelect32 ws = Some sidx ->
  0 <= i < zlen (all_ones ws) -> select32single ws sidx i = Some (fst (spec_Select ws i)).
Proof. intros Hok Hs Hi. exact (proj2 (select32single_is_fst_Select32 ws sidx i Hok Hs Hi)). Qed.

Theorem select32single_fst_Select32 ws sidx i : words_ok ws -> IndexSelect32 ws = Some sidx ->
  0 <= i < zlen (all_ones ws) -> select32single ws sidx i = option_map fst (Select32 ws sidx i).
Proof. intros Hok Hs Hi. exact (proj1 (select32single_is_fst_Select32 ws sidx i Hok Hs Hi)). Qed.

(** what the run-length-encoded operation evaluates is the model's output *)
Theorem lin_Select_is_select32single ws sidx i : words_ok ws -> IndexSelect32 ws = Some sidx ->
  0 <= i < zlen (all_ones ws) -> option_map fst (lin_Select ws i) = select32single ws sidx i.
Proof.
  intros Hok Hs Hi. rewrite (lin_Select_spec ws i Hok Hi), (select32single_domain ws sidx i Hok Hs Hi). reflexivity.
Qed.

Lemma zlen_word_ones w : 0 <= w < 2 ^ 64 -> zlen (ones (bits 64 w)) = popcount w.
Proof. intros Hw. unfold zlen. rewrite ones_length. symmetry. now apply popcount_bits64. Qed.

(** selectU64Indexed in the property's own vocabulary: [k] below the number of 1-bits of the word *)
Theorem selectU64Indexed_exact w k : 0 <= w < 2 ^ 64 -> 0 <= k < zlen (ones (bits 64 w)) ->
  selectU64Indexed w (indexSelectU64 w) k = Some (nth (Z.to_nat k) (ones (bits 64 w)) 0, 0).
Proof. intros Hw Hk. rewrite zlen_word_ones in Hk by exact Hw. now apply selectU64Indexed_spec. Qed.

(** the position it names: inside the word, a 1-bit, with exactly [k] 1-bits below it *)
Lemma ones_list_position (l : list bool) (c : nat) p : nth_error (ones l) c = Some p ->
  0 <= p < Z.of_nat (length l) /\ nth_error l (Z.to_nat p) = Some true /\ rank1 l (Z.to_nat p) = Z.of_nat c.
Proof.
  intros Hn. unfold ones in Hn. destruct (ones_from_nth_rank _ _ _ _ Hn) as (H0 & Hc & Hb).
  rewrite Z.sub_0_r in Hc, Hb.
  assert (Hl : (Z.to_nat p < length l)%nat) by (apply nth_error_Some; congruence).
  split; [lia|]. split; [exact Hb|].
  unfold rank1. rewrite <- (ones_from_length 0). lia.
Qed.

Lemma ones_word_position w (c : nat) p : nth_error (ones (bits 64 w)) c = Some p ->
  0 <= p < 64 /\ Z.testbit w p = true /\ rank1 (bits 64 w) (Z.to_nat p) = Z.of_nat c.
Proof.
  intros Hn. generalize (ones_list_position _ _ _ Hn). generalize (bits_length 64 w). generalize (nth_error_bits 64 w (Z.to_nat p)).
  generalize (bits 64 w). intros l Hbits Hlen (Hp & Hb & Hr). rewrite Hlen in Hp.
  split; [lia|]. split; [|exact Hr].
  rewrite Hbits in Hb by lia. injection Hb as Hb. now rewrite Z2Nat.id in Hb by lia.
Qed.

Theorem selectU64Indexed_position w k p q : 0 <= w < 2 ^ 64 -> 0 <= k < zlen (ones (bits 64 w)) ->
  selectU64Indexed w (indexSelectU64 w) k = Some (p, q) ->
  0 <= p < 64 /\ Z.testbit w p = true /\ rank1 (bits 64 w) (Z.to_nat p) = k /\ q = 0.
Proof.
  intros Hw Hk Hsel. rewrite selectU64Indexed_exact in Hsel by assumption.
  pose proof (ones_word_position w (Z.to_nat k)) as P.
  (* from here on the list of 1-positions is opaque (its normal form is exponential in the word width) *)
  revert Hk Hsel P. generalize (ones (bits 64 w)). intros L Hk Hsel P.
  injection Hsel as <- <-. unfold zlen in Hk.
  destruct (P _ (nth_error_nth_Some L (Z.to_nat k) 0 ltac:(lia))) as (P1 & P2 & P3).
  rewrite Z2Nat.id in P3 by lia. repeat split; (lia || assumption).
Qed.

(** ... and it is what Select32 returns on the one-word bitmap *)
Theorem selectU64Indexed_is_Select32 w sidx k : 0 <= w < 2 ^ 64 -> IndexSelect32 [w] = Some sidx ->
  0 <= k < zlen (ones (bits 64 w)) ->
  option_map fst (selectU64Indexed w (indexSelectU64 w) k) = option_map fst (Select32 [w] sidx k).
Proof.
  intros Hw Hs Hk.
  assert (Hok : words_ok [w]) by (constructor; [exact Hw|constructor]).
  assert (E : all_ones [w] = ones (bits 64 w)).
  { unfold all_ones, flat. cbn [flat_map]. now rewrite app_nil_r. }
  rewrite (Select32_indexed [w] sidx k Hok Hs) by (rewrite E; exact Hk).
  rewrite selectU64Indexed_exact by assumption. cbn [option_map fst]. unfold spec_Select. cbv zeta. cbn [fst].
  now rewrite E.
Qed.

(** the result of select32single fits Go's int32 under the size hypothesis of DESIGN section 3 *)
Theorem spec_select32single_int32 ws i : 64 * zlen ws < 2 ^ 31 ->
  -1 <= spec_select32single ws i <= 64 * zlen ws /\ - 2 ^ 31 <= spec_select32single ws i < 2 ^ 31.
Proof.
  intros Hsz. unfold spec_select32single.
  pose proof (Zle_0_nat (length ws)) as Hl. unfold zlen in *.
  destruct (Z.ltb_spec i 0); [lia|].
  destruct (Z.ltb_spec i (Z.of_nat (length (all_ones ws)))) as [Hlt|]; [|lia].
  pose proof (spec_Select_fst ws i ltac:(unfold zlen; lia)) as HF. cbv zeta in HF.
  unfold spec_Select in HF. cbv zeta in HF. cbn [fst] in HF. unfold zlen in HF. lia.
Qed.
