(** Proofs for C04 (AllPaths): the loops of Model/BmtreeAllPaths.v return the
    path words of the stored nodes in pre-order, clipped to [from, to).

    Route: (1) the inner loop is the generic skip/stop loop [scan] over the
    "block" of one search value, the outer loop is [scan] over the
    concatenation of the blocks; (2) every block element has the arithmetic
    form  i * 2^32 + 2^h - 2^k  with  2^k | i  and level h-k stored
    ([isword]); the concatenation is strictly ascending; (3) the words of the
    stored nodes in pre-order ([stored_words]) are strictly ascending and have
    the same members; (4) two strictly ascending lists with the same members
    are equal. *)
From Coq Require Import ZArith List Lia Bool.
From Low Require Import Lib.MachInt Lib.Bits Lib.BitSeq Lib.Lex Lib.Bytes Lib.BitsExtra_tree
  Lib.SortedZ_tree4 Spec.Bmtree Spec.AllPathsSpec Model.BmtreePath Model.BmtreeIndex
  Model.BmtreeAllPaths Proofs.BmtreePathProofs.
Import ListNotations.
Open Scope Z_scope.

(** * 1. the loops as [scan] over blocks *)

(** the word built in the loop body *)
Definition pword (fm i k : Z) : Z := Z.lor (shl64 i 32) (Z.lxor fm (Mask k)).

(** the candidates of one search value [i], in loop order: tz = K-1 downto 0 *)
Fixpoint blk (K : nat) (T h fm i : Z) : list Z :=
  match K with
  | O => []
  | S k' =>
      (if Z.land T (i32 (Bit (h - Z.of_nat k'))) =? 0 then [] else [pword fm i (Z.of_nat k')])
      ++ blk k' T h fm i
  end.

Lemma inner_scan K T h fm i from to :
  allpaths_inner K T h fm i from to = scan from to (blk K T h fm i).
Proof.
  induction K as [|k IH]; cbn [allpaths_inner blk]; [reflexivity|].
  destruct (Z.land T (i32 (Bit (h - Z.of_nat k))) =? 0); cbn [app]; [exact IH|].
  cbn [scan]. fold (pword fm i (Z.of_nat k)).
  destruct (pword fm i (Z.of_nat k) <? from); [exact IH|].
  destruct (to <=? pword fm i (Z.of_nat k)); [reflexivity|].
  rewrite IH. reflexivity.
Qed.

(** number of inner iterations for search value [i] *)
Definition Kof (h i : Z) : nat := Z.to_nat ((if tz64 i >? h then h else tz64 i) + 1).

Definition blocks (T h fm : Z) (js : list Z) : list Z :=
  flat_map (fun j => blk (Kof h j) T h fm j) js.

Lemma outer_scan T h fm from to : forall n i,
  allpaths_outer n T h fm i from to = fst (scan from to (blocks T h fm (zrange i n))).
Proof.
  unfold blocks. induction n as [|n IH]; intros i; cbn [allpaths_outer zrange flat_map]; [reflexivity|].
  rewrite inner_scan, scan_app. fold (Kof h i).
  destruct (scan from to (blk (Kof h i) T h fm i)) as [r stop].
  destruct stop; cbn [fst]; [reflexivity|].
  rewrite IH. destruct (scan from to (flat_map _ (zrange (i + 1) n))) as [rb sb]. reflexivity.
Qed.

(** * 2. arithmetic form of the candidates *)

Lemma land_pow2 T j : 0 <= j -> Z.land T (2 ^ j) = if Z.testbit T j then 2 ^ j else 0.
Proof.
  intros Hj. destruct (Z.testbit T j) eqn:E; apply Z.bits_inj'; intros n Hn;
    rewrite Z.land_spec, ?Z.bits_0, Z.pow2_bits_eqb by lia.
  - destruct (Z.eqb_spec j n) as [->|]; [rewrite E; reflexivity|apply andb_false_r].
  - destruct (Z.eqb_spec j n) as [->|]; [rewrite E; reflexivity|apply andb_false_r].
Qed.

Lemma level_test T j : 0 <= j <= 30 ->
  (Z.land T (i32 (Bit j)) =? 0) = negb (Z.testbit T j).
Proof.
  intros Hj. unfold Bit, i32.
  assert (0 < 2 ^ j <= 2 ^ 30) by (split; [apply pow2_pos; lia|apply pow2_le; lia]).
  rewrite Z.mod_small by (change (2 ^ 31) with 2147483648; change (2 ^ 32) with 4294967296;
                          change (2 ^ 30) with 1073741824 in *; lia).
  replace (2 ^ j + 2 ^ 31 - 2 ^ 31) with (2 ^ j) by lia.
  rewrite land_pow2 by lia. destruct (Z.testbit T j); cbn [negb]; [apply Z.eqb_neq; lia|reflexivity].
Qed.

Lemma lxor_masks h k : 0 <= k <= h -> Z.lxor (2 ^ h - 1) (2 ^ k - 1) = 2 ^ h - 2 ^ k.
Proof.
  intros Hk.
  replace (2 ^ h - 1) with (Z.ones h) by (rewrite Z.ones_equiv; lia).
  replace (2 ^ k - 1) with (Z.ones k) by (rewrite Z.ones_equiv; lia).
  replace (2 ^ h - 2 ^ k) with (Z.shiftl (Z.ones (h - k)) k).
  2:{ rewrite Z.shiftl_mul_pow2 by lia. rewrite Z.ones_equiv. rewrite (pow2_split h k) by lia. lia. }
  apply Z.bits_inj'. intros n Hn.
  rewrite Z.lxor_spec, Z.shiftl_spec by lia. rewrite !Z.testbit_ones_nonneg by lia.
  destruct (Z.ltb_spec n k).
  - rewrite Z.testbit_neg_r by lia. replace (n <? h) with true by (symmetry; apply Z.ltb_lt; lia). reflexivity.
  - rewrite Z.testbit_ones_nonneg by lia. rewrite xorb_false_r.
    destruct (Z.ltb_spec n h), (Z.ltb_spec (n - k) (h - k)); try reflexivity; lia.
Qed.

Lemma pword_eq h i k : 0 <= h <= 32 -> 0 <= k <= h -> 0 <= i < 2 ^ h ->
  pword (Mask h) i k = i * 2 ^ 32 + (2 ^ h - 2 ^ k).
Proof.
  intros Hh Hk Hi. unfold pword, Mask. rewrite lxor_masks by lia.
  unfold shl64. change (32 <? 64) with true. cbv iota. unfold u64.
  assert (2 ^ h <= 2 ^ 32) by (apply pow2_le; lia).
  assert (0 < 2 ^ k <= 2 ^ h) by (split; [apply pow2_pos; lia|apply pow2_le; lia]).
  rewrite Z.mod_small.
  2:{ change (2 ^ 64) with (2 ^ 32 * 2 ^ 32). nia. }
  apply lor_hi_lo; lia.
Qed.

(** the arithmetic description of a path word of a stored node *)
Definition isword (T h w : Z) : Prop :=
  exists i k, 0 <= i < 2 ^ h /\ 0 <= k <= h /\ (exists j, i = j * 2 ^ k) /\
              Z.testbit T (h - k) = true /\ w = i * 2 ^ 32 + (2 ^ h - 2 ^ k).

Lemma blk_In K T h i w : 0 <= h <= 30 -> 0 <= i < 2 ^ h -> (Z.of_nat K <= h + 1) ->
  In w (blk K T h (Mask h) i) <->
  exists k, 0 <= k < Z.of_nat K /\ Z.testbit T (h - k) = true /\ w = i * 2 ^ 32 + (2 ^ h - 2 ^ k).
Proof.
  intros Hh Hi. induction K as [|K IH]; intros HK; cbn [blk].
  - split; [intros []|intros (k & ? & _); lia].
  - rewrite in_app_iff, IH by lia. rewrite level_test by lia. rewrite pword_eq by lia.
    split.
    + intros [H|(k & Hk & Ht & E)].
      * destruct (Z.testbit T (h - Z.of_nat K)) eqn:Et; cbn [negb] in H; [|destruct H].
        destruct H as [<-|[]]. exists (Z.of_nat K). repeat split; try lia. exact Et.
      * exists k. repeat split; try lia; assumption.
    + intros (k & Hk & Ht & E). destruct (Z.eq_dec k (Z.of_nat K)) as [->|Hne].
      * left. rewrite Ht. cbn [negb]. left. now symmetry.
      * right. exists k. repeat split; try lia; assumption.
Qed.

Lemma blk_sasc K T h i : 0 <= h <= 30 -> 0 <= i < 2 ^ h -> (Z.of_nat K <= h + 1) ->
  sasc (blk K T h (Mask h) i).
Proof.
  intros Hh Hi. induction K as [|K IH]; intros HK; cbn [blk]; [exact I|].
  apply sasc_app. split; [|split].
  - destruct (_ =? 0); [exact I|apply sasc_single].
  - apply IH. lia.
  - intros x y Hx Hy. apply blk_In in Hy; try lia. destruct Hy as (k & Hk & _ & ->).
    destruct (_ =? 0); [destruct Hx|]. destruct Hx as [<-|[]].
    rewrite pword_eq by lia.
    assert (2 ^ k < 2 ^ Z.of_nat K) by (apply pow2_lt; lia). lia.
Qed.

(** [k <= tz64 i]  <->  [2^k | i] *)
Lemma tz64_ge i k : 0 < i -> 0 <= k -> (k <= tz64 i <-> exists j, i = j * 2 ^ k).
Proof.
  intros Hi Hk. unfold tz64. destruct (tz_decomp 64 i Hi) as (y & Hy & Ht & E).
  set (t := tz 64 i) in *. split.
  - intros Hle. exists (2 ^ (t - k) * (2 * y + 1)). rewrite E at 1.
    rewrite (pow2_split t k) by lia. lia.
  - intros (j & Ej). destruct (Z.le_gt_cases k t) as [|Hgt]; [assumption|exfalso].
    rewrite Ej in E. rewrite (pow2_split k t) in E by lia.
    pose proof (pow2_pos t Ht).
    assert (E' : j * 2 ^ (k - t) = 2 * y + 1) by nia.
    replace (k - t) with ((k - t - 1) + 1) in E' by lia. rewrite pow2_succ in E' by lia. lia.
Qed.

Lemma Kof_spec h i k : 0 <= h <= 30 -> 0 <= i < 2 ^ h -> 0 <= k ->
  (k < Z.of_nat (Kof h i) <-> k <= h /\ exists j, i = j * 2 ^ k).
Proof.
  intros Hh Hi Hk. unfold Kof.
  destruct (Z.eq_dec i 0) as [->|Hne].
  - change (tz64 0) with 64. replace (64 >? h) with true by (symmetry; apply Z.gtb_lt; lia).
    rewrite Z2Nat.id by lia. split; [intros; split; [lia|exists 0; lia]|lia].
  - assert (Hpos : 0 < i) by lia. pose proof (tz64_ge i k Hpos Hk) as Htz.
    destruct (tz_decomp 64 i Hpos) as (_ & _ & Ht & _). fold tz64 in Ht.
    destruct (Z.gtb_spec (tz64 i) h); rewrite Z2Nat.id by lia.
    + split; [intros; split; [lia|apply Htz; lia]|lia].
    + split; [intros; split; [lia|apply Htz; lia]|intros (_ & Hj); apply Htz in Hj; lia].
Qed.

Lemma Kof_le h i : 0 <= h <= 30 -> Z.of_nat (Kof h i) <= h + 1.
Proof.
  intros Hh. unfold Kof. destruct (Z.gtb_spec (tz64 i) h); lia.
Qed.

Lemma blocks_In T h js w : 0 <= h <= 30 -> (forall j, In j js -> 0 <= j < 2 ^ h) ->
  In w (blocks T h (Mask h) js) <->
  exists i k, In i js /\ 0 <= k <= h /\ (exists j, i = j * 2 ^ k) /\
              Z.testbit T (h - k) = true /\ w = i * 2 ^ 32 + (2 ^ h - 2 ^ k).
Proof.
  intros Hh Hjs. unfold blocks. rewrite in_flat_map. split.
  - intros (i & Hi & Hw). pose proof (Hjs i Hi) as Hr.
    apply blk_In in Hw; [|lia|lia|apply Kof_le; lia].
    destruct Hw as (k & Hk & Ht & E). exists i, k.
    destruct (proj1 (Kof_spec h i k Hh Hr (proj1 Hk)) (proj2 Hk)) as (Hkh & Hj).
    repeat split; try lia; assumption.
  - intros (i & k & Hi & Hk & Hj & Ht & E). exists i. split; [exact Hi|].
    pose proof (Hjs i Hi) as Hr.
    apply blk_In; [lia|lia|apply Kof_le; lia|]. exists k.
    repeat split; try lia; try assumption.
    apply (Kof_spec h i k Hh Hr); [lia|]. split; [lia|exact Hj].
Qed.

Lemma blocks_sasc T h js : 0 <= h <= 30 -> (forall j, In j js -> 0 <= j < 2 ^ h) -> sasc js ->
  sasc (blocks T h (Mask h) js).
Proof.
  intros Hh Hjs Sj. unfold blocks. apply sasc_flat_map; [exact Sj| |].
  - intros j Hj. apply blk_sasc; [lia|auto|apply Kof_le; lia].
  - intros j j' x y Hj Hj' Hlt Hx Hy.
    apply blk_In in Hx; [|lia|auto|apply Kof_le; lia].
    apply blk_In in Hy; [|lia|auto|apply Kof_le; lia].
    destruct Hx as (k & Hk & _ & ->). destruct Hy as (k' & Hk' & _ & ->).
    pose proof (Kof_le h j Hh). pose proof (Kof_le h j' Hh).
    assert (0 < 2 ^ k <= 2 ^ h) by (split; [apply pow2_pos; lia|apply pow2_le; lia]).
    assert (0 < 2 ^ k' <= 2 ^ h) by (split; [apply pow2_pos; lia|apply pow2_le; lia]).
    assert (2 ^ h <= 2 ^ 30) by (apply pow2_le; lia).
    change (2 ^ 30) with 1073741824 in *. change (2 ^ 32) with 4294967296. lia.
Qed.
