(** Proofs for C04 (AllPaths): the loops of Model/BmtreeAllPaths.v return the
    path words of the stored nodes in pre-order, clipped to [from, to).

    Route: (1) the inner loop is the generic skip/stop loop [scan] over the
    "block" of one search value, the outer loop is [scan] over the
    concatenation of the blocks; (2) every block element has the arithmetic
    form  i * 2^32 + 2^h - 2^k  with  2^k | i  and level h-k stored
    ([isword]); the concatenation is strictly ascending; (3) the words of the
    stored nodes in pre-order ([stored_words]) are strictly ascending and have
    the same members; (4) two strictly ascending lists with the same members
    are equal. *)
From Coq Require Import ZArith List Lia Bool.
From Low Require Import Lib.MachInt Lib.Bits Lib.BitSeq Lib.Lex Lib.Bytes Lib.BitsExtra_tree
  Lib.BitsExtra_bm2 Lib.SortedZ_tree4 Spec.Bmtree Spec.AllPathsSpec Model.BmtreePath Model.BmtreeIndex
  Model.BmtreeAllPaths Proofs.BmtreePathProofs.
Import ListNotations.
Open Scope Z_scope.

(** * 1. the loops as [scan] over blocks *)

(** the word built in the loop body *)
Definition pword (fm i k : Z) : Z := Z.lor (shl64 i 32) (Z.lxor fm (Mask k)).

(** the candidates of one search value [i], in loop order: tz = K-1 downto 0 *)
Fixpoint blk (K : nat) (T h fm i : Z) : list Z :=
  match K with
  | O => []
  | S k' =>
      (if Z.land T (i32 (Bit (h - Z.of_nat k'))) =? 0 then [] else [pword fm i (Z.of_nat k')])
      ++ blk k' T h fm i
  end.

Lemma inner_scan K T h fm i from to :
  allpaths_inner K T h fm i from to = scan from to (blk K T h fm i).
Proof.
  induction K as [|k IH]; cbn [allpaths_inner blk]; [reflexivity|].
  destruct (Z.land T (i32 (Bit (h - Z.of_nat k))) =? 0); cbn [app]; [exact IH|].
  cbn [scan]. fold (pword fm i (Z.of_nat k)).
  destruct (pword fm i (Z.of_nat k) <? from); [exact IH|].
  destruct (to <=? pword fm i (Z.of_nat k)); [reflexivity|].
  rewrite IH. reflexivity.
Qed.

(** number of inner iterations for search value [i] *)
Definition Kof (h i : Z) : nat := Z.to_nat ((if tz64 i >? h then h else tz64 i) + 1).

Definition blocks (T h fm : Z) (js : list Z) : list Z :=
  flat_map (fun j => blk (Kof h j) T h fm j) js.

Lemma outer_scan T h fm from to : forall n i,
  allpaths_outer n T h fm i from to = fst (scan from to (blocks T h fm (zrange i n))).
Proof.
  unfold blocks. induction n as [|n IH]; intros i; cbn [allpaths_outer zrange flat_map]; [reflexivity|].
  rewrite inner_scan, scan_app. fold (Kof h i).
  destruct (scan from to (blk (Kof h i) T h fm i)) as [r stop].
  destruct stop; cbn [fst]; [reflexivity|].
  rewrite IH. destruct (scan from to (flat_map _ (zrange (i + 1) n))) as [rb sb]. reflexivity.
Qed.

(** * 2. arithmetic form of the candidates *)

Lemma land_pow2 T j : 0 <= j -> Z.land T (2 ^ j) = if Z.testbit T j then 2 ^ j else 0.
Proof.
  intros Hj. destruct (Z.testbit T j) eqn:E; apply Z.bits_inj'; intros n Hn;
    rewrite Z.land_spec, ?Z.bits_0, Z.pow2_bits_eqb by lia.
  - destruct (Z.eqb_spec j n) as [->|]; [rewrite E; reflexivity|apply andb_false_r].
  - destruct (Z.eqb_spec j n) as [->|]; [rewrite E; reflexivity|apply andb_false_r].
Qed.

Lemma level_test T j : 0 <= j <= 30 ->
  (Z.land T (i32 (Bit j)) =? 0) = negb (Z.testbit T j).
Proof.
  intros Hj. unfold Bit, i32.
  assert (0 < 2 ^ j <= 2 ^ 30) by (split; [apply pow2_pos; lia|apply pow2_le; lia]).
  rewrite Z.mod_small by (change (2 ^ 31) with 2147483648; change (2 ^ 32) with 4294967296;
                          change (2 ^ 30) with 1073741824 in *; lia).
  replace (2 ^ j + 2 ^ 31 - 2 ^ 31) with (2 ^ j) by lia.
  rewrite land_pow2 by lia. destruct (Z.testbit T j); cbn [negb]; [apply Z.eqb_neq; lia|reflexivity].
Qed.

Lemma lxor_masks h k : 0 <= k <= h -> Z.lxor (2 ^ h - 1) (2 ^ k - 1) = 2 ^ h - 2 ^ k.
Proof.
  intros Hk.
  replace (2 ^ h - 1) with (Z.ones h) by (rewrite Z.ones_equiv; lia).
  replace (2 ^ k - 1) with (Z.ones k) by (rewrite Z.ones_equiv; lia).
  replace (2 ^ h - 2 ^ k) with (Z.shiftl (Z.ones (h - k)) k).
  2:{ rewrite Z.shiftl_mul_pow2 by lia. rewrite Z.ones_equiv. rewrite (pow2_split h k) by lia. lia. }
  apply Z.bits_inj'. intros n Hn.
  rewrite Z.lxor_spec, Z.shiftl_spec by lia. rewrite !Z.testbit_ones_nonneg by lia.
  destruct (Z.ltb_spec n k).
  - rewrite Z.testbit_neg_r by lia. replace (n <? h) with true by (symmetry; apply Z.ltb_lt; lia). reflexivity.
  - rewrite Z.testbit_ones_nonneg by lia. rewrite xorb_false_r.
    destruct (Z.ltb_spec n h), (Z.ltb_spec (n - k) (h - k)); try reflexivity; lia.
Qed.

Lemma pword_eq h i k : 0 <= h <= 32 -> 0 <= k <= h -> 0 <= i < 2 ^ h ->
  pword (Mask h) i k = i * 2 ^ 32 + (2 ^ h - 2 ^ k).
Proof.
  intros Hh Hk Hi. unfold pword, Mask. rewrite lxor_masks by lia.
  unfold shl64. change (32 <? 64) with true. cbv iota. unfold u64.
  assert (2 ^ h <= 2 ^ 32) by (apply pow2_le; lia).
  assert (0 < 2 ^ k <= 2 ^ h) by (split; [apply pow2_pos; lia|apply pow2_le; lia]).
  rewrite Z.mod_small.
  2:{ change (2 ^ 64) with (2 ^ 32 * 2 ^ 32). nia. }
  apply lor_hi_lo; lia.
Qed.

(** the arithmetic description of a path word of a stored node *)
Definition isword (T h w : Z) : Prop :=
  exists i k, 0 <= i < 2 ^ h /\ 0 <= k <= h /\ (exists j, i = j * 2 ^ k) /\
              Z.testbit T (h - k) = true /\ w = i * 2 ^ 32 + (2 ^ h - 2 ^ k).

Lemma blk_In K T h i w : 0 <= h <= 30 -> 0 <= i < 2 ^ h -> (Z.of_nat K <= h + 1) ->
  In w (blk K T h (Mask h) i) <->
  exists k, 0 <= k < Z.of_nat K /\ Z.testbit T (h - k) = true /\ w = i * 2 ^ 32 + (2 ^ h - 2 ^ k).
Proof.
  intros Hh Hi. induction K as [|K IH]; intros HK; cbn [blk].
  - split; [intros []|intros (k & ? & _); lia].
  - rewrite in_app_iff, IH by lia. rewrite level_test by lia. rewrite pword_eq by lia.
    split.
    + intros [H|(k & Hk & Ht & E)].
      * destruct (Z.testbit T (h - Z.of_nat K)) eqn:Et; cbn [negb] in H; [|destruct H].
        destruct H as [<-|[]]. exists (Z.of_nat K). repeat split; try lia. exact Et.
      * exists k. repeat split; try lia; assumption.
    + intros (k & Hk & Ht & E). destruct (Z.eq_dec k (Z.of_nat K)) as [->|Hne].
      * left. rewrite Ht. cbn [negb]. left. now symmetry.
      * right. exists k. repeat split; try lia; assumption.
Qed.

Lemma blk_sasc K T h i : 0 <= h <= 30 -> 0 <= i < 2 ^ h -> (Z.of_nat K <= h + 1) ->
  sasc (blk K T h (Mask h) i).
Proof.
  intros Hh Hi. induction K as [|K IH]; intros HK; cbn [blk]; [exact I|].
  apply sasc_app. split; [|split].
  - destruct (_ =? 0); [exact I|apply sasc_single].
  - apply IH. lia.
  - intros x y Hx Hy. apply blk_In in Hy; try lia. destruct Hy as (k & Hk & _ & ->).
    destruct (_ =? 0); [destruct Hx|]. destruct Hx as [<-|[]].
    rewrite pword_eq by lia.
    assert (2 ^ k < 2 ^ Z.of_nat K) by (apply pow2_lt; lia). lia.
Qed.

(** [k <= tz64 i]  <->  [2^k | i] *)
Lemma tz64_ge i k : 0 < i -> 0 <= k -> (k <= tz64 i <-> exists j, i = j * 2 ^ k).
Proof.
  intros Hi Hk. unfold tz64. destruct (tz_decomp 64 i Hi) as (y & Hy & Ht & E).
  set (t := tz 64 i) in *. split.
  - intros Hle. exists (2 ^ (t - k) * (2 * y + 1)). rewrite E at 1.
    rewrite (pow2_split t k) by lia. lia.
  - intros (j & Ej). destruct (Z.le_gt_cases k t) as [|Hgt]; [assumption|exfalso].
    rewrite Ej in E. rewrite (pow2_split k t) in E by lia.
    pose proof (pow2_pos t Ht).
    assert (E' : j * 2 ^ (k - t) = 2 * y + 1) by nia.
    replace (k - t) with ((k - t - 1) + 1) in E' by lia. rewrite pow2_succ in E' by lia. lia.
Qed.

Lemma Kof_spec h i k : 0 <= h <= 30 -> 0 <= i < 2 ^ h -> 0 <= k ->
  (k < Z.of_nat (Kof h i) <-> k <= h /\ exists j, i = j * 2 ^ k).
Proof.
  intros Hh Hi Hk. unfold Kof.
  destruct (Z.eq_dec i 0) as [->|Hne].
  - change (tz64 0) with 64. replace (64 >? h) with true by (symmetry; apply Z.gtb_lt; lia).
    rewrite Z2Nat.id by lia. split; [intros; split; [lia|exists 0; lia]|lia].
  - assert (Hpos : 0 < i) by lia. pose proof (tz64_ge i k Hpos Hk) as Htz.
    destruct (tz_decomp 64 i Hpos) as (_ & _ & Ht & _). fold tz64 in Ht.
    destruct (Z.gtb_spec (tz64 i) h); rewrite Z2Nat.id by lia.
    + split; [intros; split; [lia|apply Htz; lia]|lia].
    + split; [intros; split; [lia|apply Htz; lia]|intros (_ & Hj); apply Htz in Hj; lia].
Qed.

Lemma Kof_le h i : 0 <= h <= 30 -> Z.of_nat (Kof h i) <= h + 1.
Proof.
  intros Hh. unfold Kof. destruct (Z.gtb_spec (tz64 i) h); lia.
Qed.

Lemma blocks_In T h js w : 0 <= h <= 30 -> (forall j, In j js -> 0 <= j < 2 ^ h) ->
  In w (blocks T h (Mask h) js) <->
  exists i k, In i js /\ 0 <= k <= h /\ (exists j, i = j * 2 ^ k) /\
              Z.testbit T (h - k) = true /\ w = i * 2 ^ 32 + (2 ^ h - 2 ^ k).
Proof.
  intros Hh Hjs. unfold blocks. rewrite in_flat_map. split.
  - intros (i & Hi & Hw). pose proof (Hjs i Hi) as Hr.
    apply blk_In in Hw; [|lia|lia|apply Kof_le; lia].
    destruct Hw as (k & Hk & Ht & E). exists i, k.
    destruct (proj1 (Kof_spec h i k Hh Hr (proj1 Hk)) (proj2 Hk)) as (Hkh & Hj).
    repeat split; try lia; assumption.
  - intros (i & k & Hi & Hk & Hj & Ht & E). exists i. split; [exact Hi|].
    pose proof (Hjs i Hi) as Hr.
    apply blk_In; [lia|lia|apply Kof_le; lia|]. exists k.
    repeat split; try lia; try assumption.
    apply (Kof_spec h i k Hh Hr); [lia|]. split; [lia|exact Hj].
Qed.

Lemma blocks_sasc T h js : 0 <= h <= 30 -> (forall j, In j js -> 0 <= j < 2 ^ h) -> sasc js ->
  sasc (blocks T h (Mask h) js).
Proof.
  intros Hh Hjs Sj. unfold blocks. apply sasc_flat_map; [exact Sj| |].
  - intros j Hj. apply blk_sasc; [lia|auto|apply Kof_le; lia].
  - intros j j' x y Hj Hj' Hlt Hx Hy.
    apply blk_In in Hx; [|lia|auto|apply Kof_le; lia].
    apply blk_In in Hy; [|lia|auto|apply Kof_le; lia].
    destruct Hx as (k & Hk & _ & ->). destruct Hy as (k' & Hk' & _ & ->).
    pose proof (Kof_le h j Hh). pose proof (Kof_le h j' Hh).
    assert (0 < 2 ^ k <= 2 ^ h) by (split; [apply pow2_pos; lia|apply pow2_le; lia]).
    assert (0 < 2 ^ k' <= 2 ^ h) by (split; [apply pow2_pos; lia|apply pow2_le; lia]).
    assert (2 ^ h <= 2 ^ 30) by (apply pow2_le; lia).
    change (2 ^ 30) with 1073741824 in *. change (2 ^ 32) with 4294967296. lia.
Qed.

(** * 3. the words of the stored nodes in pre-order *)

Lemma all_nodes_length : forall h q, In q (all_nodes h) <-> (length q <= h)%nat.
Proof.
  induction h as [|h IH]; intros q; cbn [all_nodes In].
  - split; [intros [<-|[]]; cbn; lia|]. destruct q; cbn [length]; [now left|lia].
  - rewrite in_app_iff, !in_map_iff. split.
    + intros [<-|[(r & <- & Hr)|(r & <- & Hr)]]; cbn [length]; [lia| |]; apply IH in Hr; lia.
    + destruct q as [|b q]; [now left|]. cbn [length]. intros Hl. right.
      destruct b; [right|left]; exists q; (split; [reflexivity|apply IH; lia]).
Qed.

Lemma stored_cons T b q : stored T (b :: q) = stored (T / 2) q.
Proof.
  unfold stored. cbn [length]. rewrite Nat2Z.inj_succ. symmetry. apply Z.div2_bits. lia.
Qed.

Lemma filter_map_comm {A B} (f : B -> bool) (g : A -> B) l :
  filter f (map g l) = map g (filter (fun x => f (g x)) l).
Proof.
  induction l as [|a l IH]; cbn [map filter]; [reflexivity|].
  destruct (f (g a)); cbn [map]; now rewrite IH.
Qed.

Lemma stored_words_0 T : stored_words T 0 = if Z.testbit T 0 then [0] else [].
Proof.
  unfold stored_words, stored_nodes. cbn [all_nodes filter]. unfold stored at 1. cbn [length].
  change (Z.of_nat 0) with 0. destruct (Z.testbit T 0); [|reflexivity].
  cbn [map]. now rewrite enc_nil.
Qed.

Lemma stored_words_S T k : stored_words T (S k) =
  (if Z.testbit T 0 then [0] else []) ++
  map (fun w => 2 ^ Z.of_nat k + w) (stored_words (T / 2) k) ++
  map (fun w => 2 ^ (Z.of_nat k + 32) + 2 ^ Z.of_nat k + w) (stored_words (T / 2) k).
Proof.
  unfold stored_words, stored_nodes. cbn [all_nodes filter]. unfold stored at 1. cbn [length].
  change (Z.of_nat 0) with 0.
  rewrite filter_app, !filter_map_comm.
  rewrite (filter_ext (fun x => stored T (false :: x)) (stored (T / 2))) by (intros; apply stored_cons).
  rewrite (filter_ext (fun x => stored T (true :: x)) (stored (T / 2))) by (intros; apply stored_cons).
  assert (Hl : forall q, In q (filter (stored (T / 2)) (all_nodes k)) -> (length q <= k)%nat).
  { intros q Hq. apply filter_In in Hq. now apply all_nodes_length. }
  replace (map (enc (S k)) (if Z.testbit T 0 then [] :: _ else _))
    with ((if Z.testbit T 0 then [0] else []) ++
          map (enc (S k)) (map (cons false) (filter (stored (T / 2)) (all_nodes k)) ++
                           map (cons true) (filter (stored (T / 2)) (all_nodes k)))).
  2:{ destruct (Z.testbit T 0); cbn [map app]; [now rewrite enc_nil|reflexivity]. }
  f_equal. rewrite map_app, !map_map. f_equal; apply map_ext_in; intros q Hq;
    rewrite enc_cons by (now apply Hl); cbn [Z.b2z]; lia.
Qed.

Lemma stored_words_bound T h w : (h <= 32)%nat -> In w (stored_words T h) -> 0 <= w < 2 ^ (Z.of_nat h + 32).
Proof.
  intros Hh Hw. unfold stored_words, stored_nodes in Hw. apply in_map_iff in Hw.
  destruct Hw as (q & <- & Hq). apply filter_In in Hq. apply enc_bound; [exact Hh|].
  now apply all_nodes_length.
Qed.

Lemma stored_words_sasc : forall h T, (h <= 32)%nat -> sasc (stored_words T h).
Proof.
  induction h as [|h IH]; intros T Hh.
  - rewrite stored_words_0. destruct (Z.testbit T 0); [apply sasc_single|exact I].
  - rewrite stored_words_S.
    pose proof (pow2_pos (Z.of_nat h) ltac:(lia)) as Hp.
    pose proof (pow2_pos (Z.of_nat h + 32) ltac:(lia)) as Hp2.
    assert (Hb : forall w, In w (stored_words (T / 2) h) -> 0 <= w < 2 ^ (Z.of_nat h + 32))
      by (intros w; apply stored_words_bound; lia).
    apply sasc_app. split; [destruct (Z.testbit T 0); [apply sasc_single|exact I]|]. split.
    + apply sasc_app. split; [apply sasc_map; [intros; lia|apply IH; lia]|]. split.
      * apply sasc_map; [intros; lia|apply IH; lia].
      * intros x y Hx Hy. apply in_map_iff in Hx, Hy.
        destruct Hx as (x' & <- & Hx), Hy as (y' & <- & Hy). apply Hb in Hx, Hy. lia.
    + intros x y Hx Hy. destruct (Z.testbit T 0); [|destruct Hx]. destruct Hx as [<-|[]].
      apply in_app_iff in Hy. destruct Hy as [Hy|Hy]; apply in_map_iff in Hy;
        destruct Hy as (y' & <- & Hy); apply Hb in Hy; lia.
Qed.

Lemma testbit_half T m : 0 <= m -> Z.testbit (T / 2) m = Z.testbit T (m + 1).
Proof. intros Hm. now rewrite Z.div2_bits. Qed.

Lemma stored_words_In : forall h T w, In w (stored_words T h) <-> isword T (Z.of_nat h) w.
Proof.
  induction h as [|h IH]; intros T w.
  - rewrite stored_words_0. unfold isword. change (Z.of_nat 0) with 0. change (2 ^ 0) with 1. split.
    + intros Hw. destruct (Z.testbit T 0) eqn:Et; [|destruct Hw]. destruct Hw as [<-|[]].
      exists 0, 0. split; [lia|]. split; [lia|]. split; [exists 0; lia|]. split; [exact Et|lia].
    + intros (i & k & Hi & Hk & _ & Ht & ->). assert (k = 0) by lia. subst k.
      change (0 - 0) with 0 in Ht. rewrite Ht. left. change (2 ^ 0) with 1. lia.
  - rewrite stored_words_S, !in_app_iff, !in_map_iff.
    rewrite Nat2Z.inj_succ. unfold Z.succ. set (n := Z.of_nat h). assert (Hn : 0 <= n) by (unfold n; lia).
    pose proof (pow2_pos n Hn) as Hp. pose proof (pow2_succ n Hn) as Hs.
    split.
    + intros [Hw|[(w' & <- & Hw')|(w' & <- & Hw')]].
      * destruct (Z.testbit T 0) eqn:Et; [|destruct Hw]. destruct Hw as [<-|[]].
        exists 0, (n + 1). repeat split; try lia. { exists 0; lia. }
        replace (n + 1 - (n + 1)) with 0 by lia. exact Et.
      * apply IH in Hw'. fold n in Hw'. destruct Hw' as (i & k & Hi & Hk & Hj & Ht & ->).
        exists i, k. repeat split; try lia; try assumption.
        rewrite testbit_half in Ht by lia. replace (n + 1 - k) with (n - k + 1) by lia. exact Ht.
      * apply IH in Hw'. fold n in Hw'. destruct Hw' as (i & k & Hi & Hk & (j & Hj) & Ht & ->).
        exists (i + 2 ^ n), k. repeat split; try lia.
        -- exists (j + 2 ^ (n - k)). rewrite (pow2_split n k) by lia. lia.
        -- rewrite testbit_half in Ht by lia. replace (n + 1 - k) with (n - k + 1) by lia. exact Ht.
        -- rewrite Z.pow_add_r by lia. lia.
    + intros (i & k & Hi & Hk & (j & Hj) & Ht & ->).
      destruct (Z.eq_dec k (n + 1)) as [->|Hne].
      * left. replace (n + 1 - (n + 1)) with 0 in Ht by lia. rewrite Ht.
        assert (j = 0) by (pose proof (pow2_pos (n + 1) ltac:(lia)); nia). subst j. left. lia.
      * right. assert (Hkn : k <= n) by lia.
        assert (Ht' : Z.testbit (T / 2) (n - k) = true).
        { rewrite testbit_half by lia. replace (n - k + 1) with (n + 1 - k) by lia. exact Ht. }
        destruct (Z_lt_le_dec i (2 ^ n)) as [Hlt|Hge].
        -- left. exists (i * 2 ^ 32 + (2 ^ n - 2 ^ k)). split; [lia|]. apply IH. fold n.
           exists i, k. repeat split; try lia; try assumption. exists j; exact Hj.
        -- right. exists ((i - 2 ^ n) * 2 ^ 32 + (2 ^ n - 2 ^ k)). split.
           { rewrite Z.pow_add_r by lia. lia. }
           apply IH. fold n. exists (i - 2 ^ n), k. repeat split; try lia; try assumption.
           exists (j - 2 ^ (n - k)). rewrite (pow2_split n k) by lia. lia.
Qed.

(** * 4. AllPaths *)

Lemma Height_log2 T : 1 <= T < 2 ^ 32 -> Height T = Z.log2 T.
Proof.
  intros HT. unfold Height, u32. rewrite Z.mod_small by lia.
  destruct T as [|p|p]; try lia. unfold bitlen. lia.
Qed.

Lemma Height_range T : 1 <= T < 2 ^ 31 -> 0 <= Height T <= 30.
Proof.
  intros HT. rewrite Height_log2 by (change (2 ^ 32) with 4294967296; change (2 ^ 31) with 2147483648 in HT; lia).
  pose proof (Z.log2_nonneg T). assert (Z.log2 T < 31) by (apply Z.log2_lt_pow2; lia). lia.
Qed.

Lemma tbl_in size f i : 0 <= i < size -> tbl size f i = Some (f i).
Proof.
  intros Hi. unfold tbl. replace (0 <=? i) with true by (symmetry; apply Z.leb_le; lia).
  replace (i <? size) with true by (symmetry; apply Z.ltb_lt; lia). reflexivity.
Qed.

Lemma in_window_win from to w : in_window from to w = in_win from to w.
Proof. reflexivity. Qed.

(** the general statement: any height 0..30, any level mask *)
Lemma allpaths_blocks T h from to : 0 <= h <= 30 -> 0 <= from < 2 ^ 64 -> 0 <= to < 2 ^ 64 ->
  let t0 := u64 (shr64 to 32 + 1) in
  let t := if t0 >? Bit h then Bit h else t0 in
  let i0 := shr64 from 32 in
  allpaths_outer (Z.to_nat (t - i0)) T h (Mask h) i0 from to =
  filter (in_window from to) (stored_words T (Z.to_nat h)).
Proof.
  intros Hh Hf Ht t0 t i0.
  assert (Hp : 0 < 2 ^ h <= 2 ^ 30) by (split; [apply pow2_pos; lia|apply pow2_le; lia]).
  change (2 ^ 30) with 1073741824 in Hp. change (2 ^ 64) with 18446744073709551616 in Hf, Ht.
  assert (Ei0 : i0 = from / 4294967296) by reflexivity.
  assert (Et0 : t0 = to / 4294967296 + 1).
  { unfold t0, shr64, u64. change (32 <? 64) with true. cbv iota.
    change (2 ^ 32) with 4294967296. change (2 ^ 64) with 18446744073709551616.
    apply Z.mod_small. pose proof (Z.div_pos to 4294967296 ltac:(lia) ltac:(lia)).
    assert (to / 4294967296 < 4294967296) by (apply Z.div_lt_upper_bound; lia). lia. }
  assert (Hi0 : 0 <= i0) by (rewrite Ei0; apply Z.div_pos; lia).
  assert (Hi0' : i0 * 4294967296 <= from < (i0 + 1) * 4294967296).
  { rewrite Ei0. pose proof (Z.div_mod from 4294967296 ltac:(lia)).
    pose proof (Z.mod_pos_bound from 4294967296 ltac:(lia)). lia. }
  assert (Ht0' : (t0 - 1) * 4294967296 <= to < t0 * 4294967296).
  { rewrite Et0. pose proof (Z.div_mod to 4294967296 ltac:(lia)).
    pose proof (Z.mod_pos_bound to 4294967296 ltac:(lia)). lia. }
  assert (Htle : t <= 2 ^ h /\ t <= t0 /\ (t = 2 ^ h \/ t = t0)).
  { unfold t, Bit. destruct (Z.gtb_spec t0 (2 ^ h)); lia. }
  clearbody t0 i0 t.
  set (js := zrange i0 (Z.to_nat (t - i0))).
  assert (Hjs : forall j, In j js -> 0 <= j < 2 ^ h).
  { intros j Hj. apply zrange_In in Hj. lia. }
  rewrite outer_scan. fold js. change (in_window from to) with (in_win from to).
  rewrite scan_fst_window by (apply sasc_wasc, blocks_sasc; [lia|exact Hjs|apply zrange_sasc]).
  apply sasc_ext.
  - apply sasc_filter, blocks_sasc; [lia|exact Hjs|apply zrange_sasc].
  - apply sasc_filter, stored_words_sasc. lia.
  - intros w. rewrite !filter_In, stored_words_In, blocks_In by (lia || exact Hjs).
    rewrite Z2Nat.id by lia. unfold isword. split.
    + intros ((i & k & Hi & Hk & Hj & Hb & E) & Hw). split; [|exact Hw].
      exists i, k. repeat split; try (apply Hjs; exact Hi); try lia; assumption.
    + intros ((i & k & Hi & Hk & Hj & Hb & E) & Hw). split; [|exact Hw].
      exists i, k. repeat split; try lia; try assumption.
      apply zrange_In. unfold in_win in Hw. apply andb_true_iff in Hw. destruct Hw as (H1 & H2).
      apply Z.leb_le in H1. apply Z.ltb_lt in H2.
      assert (0 < 2 ^ k <= 2 ^ h) by (split; [apply pow2_pos; lia|apply pow2_le; lia]).
      change (2 ^ 32) with 4294967296 in E. lia.
Qed.

Lemma allpaths_correct T from to : 1 <= T < 2 ^ 31 -> 0 <= from < 2 ^ 64 -> 0 <= to < 2 ^ 64 ->
  AllPaths T from to = Some (spec_allpaths T (Z.to_nat (Height T)) from to).
Proof.
  intros HT Hf Ht. pose proof (Height_range T HT) as Hh. unfold AllPaths, spec_allpaths.
  unfold tblBit, tblMask. rewrite !tbl_in by lia. f_equal.
  apply allpaths_blocks; assumption.
Qed.

(** * 5. Decode, relative to the model's PathToIndex *)

(** the bit of [bm] selected by the index of path word [p] (0 beyond the bitmap) *)
Definition idx_bit (T : Z) (bm : list Z) (p : Z) : bool :=
  match PathToIndex T p with Some idx => bitz (flat bm) idx | None => false end.

Lemma bitz_beyond bm idx : zlen bm <= idx / 64 -> 0 <= idx -> bitz (flat bm) idx = false.
Proof.
  intros Hl Hi. unfold bitz. apply nth_overflow. rewrite flat_length. unfold zlen in Hl.
  pose proof (Z.div_mod idx 64 ltac:(lia)). pose proof (Z.mod_pos_bound idx 64 ltac:(lia)). lia.
Qed.

Lemma bitz_word bm idx w : 0 <= idx -> nthZ bm (idx / 64) = Some w ->
  bitz (flat bm) idx = Z.testbit w (idx mod 64).
Proof.
  intros Hi Hw. apply nthZ_Some in Hw. destruct Hw as (Hq & Hw).
  rewrite <- (bitz_flat bm (Z.to_nat (idx / 64)) w (idx mod 64) Hw) by (apply Z.mod_pos_bound; lia).
  f_equal. rewrite Z2Nat.id by lia. apply Z.div_mod. lia.
Qed.

Lemma bit_test w j : 0 <= j < 64 -> (Z.land w (shl64 1 j) =? 0) = negb (Z.testbit w j).
Proof.
  intros Hj. unfold shl64. replace (j <? 64) with true by (symmetry; apply Z.ltb_lt; lia).
  unfold u64. rewrite Z.mul_1_l.
  rewrite Z.mod_small by (split; [apply Z.lt_le_incl, pow2_pos; lia|apply pow2_lt; lia]).
  rewrite land_pow2 by lia. pose proof (pow2_pos j ltac:(lia)).
  destruct (Z.testbit w j); cbn [negb]; [apply Z.eqb_neq; lia|reflexivity].
Qed.

Lemma decode_loop_spec T bm : zlen bm < 2 ^ 31 -> forall paths,
  (forall p, In p paths -> exists idx, PathToIndex T p = Some idx /\ 0 <= idx < 2 ^ 31) ->
  decode_loop T bm paths = Some (filter (idx_bit T bm) paths).
Proof.
  intros Hlen. induction paths as [|p rest IH]; intros Hidx; cbn [decode_loop filter]; [reflexivity|].
  destruct (Hidx p (or_introl eq_refl)) as (idx & Hp & Hr).
  specialize (IH (fun q Hq => Hidx q (or_intror Hq))).
  unfold idx_bit at 1. rewrite Hp.
  assert (Es : sar32 idx 6 = idx / 64) by reflexivity. rewrite Es.
  assert (Ei : i32 (zlen bm) = zlen bm).
  { unfold i32. unfold zlen in *. rewrite Z.mod_small; [lia|].
    change (2 ^ 31) with 2147483648 in *. change (2 ^ 32) with 4294967296. lia. }
  rewrite Ei.
  assert (Hq : 0 <= idx / 64) by (apply Z.div_pos; lia).
  destruct (Z.gtb_spec (zlen bm) (idx / 64)) as [Hgt|Hle].
  - destruct (nthZ_in_range bm (idx / 64) ltac:(lia)) as (w & Hw). rewrite Hw, IH.
    rewrite (bitz_word bm idx w) by (lia || exact Hw).
    rewrite land63, bit_test by (apply Z.mod_pos_bound; lia).
    destruct (Z.testbit w (idx mod 64)); reflexivity.
  - rewrite IH, bitz_beyond by lia. reflexivity.
Qed.

Lemma filter_all {A} (f : A -> bool) l : (forall x, In x l -> f x = true) -> filter f l = l.
Proof.
  induction l as [|a l IH]; cbn [filter]; [reflexivity|]. intros H.
  rewrite (H a (or_introl eq_refl)). f_equal. apply IH. intros x Hx. apply H. now right.
Qed.

(** the full range [0, 1<<63) that Decode asks for contains every word *)
Lemma allpaths_full T : 1 <= T < 2 ^ 31 ->
  AllPaths T 0 (2 ^ 63) = Some (stored_words T (Z.to_nat (Height T))).
Proof.
  intros HT.
  assert (H0 : 0 <= 0 < 2 ^ 64) by (split; [lia|reflexivity]).
  assert (H63 : 0 <= 2 ^ 63 < 2 ^ 64) by (split; [discriminate|reflexivity]).
  rewrite (allpaths_correct T 0 (2 ^ 63) HT H0 H63).
  f_equal. unfold spec_allpaths. apply filter_all. intros w Hw.
  pose proof (Height_range T HT) as Hh.
  apply stored_words_bound in Hw; [|lia]. rewrite Z2Nat.id in Hw by lia.
  assert (2 ^ (Height T + 32) <= 2 ^ 62) by (apply pow2_le; lia).
  unfold in_window. apply andb_true_iff. split; [apply Z.leb_le; lia|apply Z.ltb_lt].
  change (2 ^ 62) with 4611686018427387904 in *. change (2 ^ 63) with 9223372036854775808. lia.
Qed.

Lemma decode_rel T bm : 1 <= T < 2 ^ 31 -> zlen bm < 2 ^ 31 ->
  (forall w, In w (stored_words T (Z.to_nat (Height T))) ->
     exists idx, PathToIndex T w = Some idx /\ 0 <= idx < 2 ^ 31) ->
  Decode T bm = Some (filter (idx_bit T bm) (stored_words T (Z.to_nat (Height T)))).
Proof.
  intros HT Hl Hidx. unfold Decode. rewrite allpaths_full by exact HT.
  apply decode_loop_spec; assumption.
Qed.

(** when the index of the k-th word is k, the filter is the selection by position *)
Lemma filter_select_by T bm : forall l base,
  (forall k, (k < length l)%nat -> PathToIndex T (nth k l 0) = Some (Z.of_nat (base + k))) ->
  filter (idx_bit T bm) l = select_by (flat bm) base l.
Proof.
  induction l as [|p l IH]; intros base H; cbn [filter select_by]; [reflexivity|].
  pose proof (H 0%nat ltac:(cbn [length]; lia)) as H0. cbn [nth] in H0.
  unfold idx_bit at 1. rewrite H0.
  unfold bitz. rewrite Nat.add_0_r, Nat2Z.id.
  rewrite (IH (S base)).
  2:{ intros k Hk. specialize (H (S k)). cbn [nth length] in H.
      replace (S base + k)%nat with (base + S k)%nat by lia. apply H. lia. }
  reflexivity.
Qed.

(** * 6. corollaries of [allpaths_correct]: exact membership, strictly ascending *)

Lemma stored_words_members T h w :
  In w (stored_words T h) <-> exists q, (length q <= h)%nat /\ stored T q = true /\ w = enc h q.
Proof.
  unfold stored_words, stored_nodes. rewrite in_map_iff. split.
  - intros (q & <- & Hq). apply filter_In in Hq. exists q. rewrite <- all_nodes_length. tauto.
  - intros (q & Hl & Hs & ->). exists q. split; [reflexivity|]. apply filter_In.
    rewrite all_nodes_length. tauto.
Qed.

Lemma allpaths_members T from to l : 1 <= T < 2 ^ 31 -> 0 <= from < 2 ^ 64 -> 0 <= to < 2 ^ 64 ->
  AllPaths T from to = Some l ->
  forall w, In w l <->
    from <= w < to /\
    exists q, (length q <= Z.to_nat (Height T))%nat /\ stored T q = true /\ w = enc (Z.to_nat (Height T)) q.
Proof.
  intros HT Hf Ht E w. rewrite allpaths_correct in E by assumption. injection E as <-.
  unfold spec_allpaths. rewrite filter_In, stored_words_members. unfold in_window.
  rewrite andb_true_iff, Z.leb_le, Z.ltb_lt. tauto.
Qed.

Lemma allpaths_ascending T from to l : 1 <= T < 2 ^ 31 -> 0 <= from < 2 ^ 64 -> 0 <= to < 2 ^ 64 ->
  AllPaths T from to = Some l -> sasc l /\ NoDup l.
Proof.
  intros HT Hf Ht E. rewrite allpaths_correct in E by assumption. injection E as <-.
  pose proof (Height_range T HT).
  assert (S : sasc (spec_allpaths T (Z.to_nat (Height T)) from to))
    by (apply sasc_filter, stored_words_sasc; lia).
  split; [exact S|apply sasc_NoDup, S].
Qed.
