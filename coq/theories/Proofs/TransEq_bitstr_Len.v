(** Equality of the definition generated from the Go source of bitstr.Len (coq/gen/Trans.v) and the model. *)
From Coq Require Import ZArith List Lia Bool.
From Low Require Import Lib.MachInt Lib.Bits Lib.BitSeq Lib.TransLib Proofs.TransEqLemmas.
From LowGen Require Trans.
Import ListNotations.
Open Scope Z_scope.

From Low Require Model.Bitstr Model.Bitstr32.

(** against the int32 model (Model/Bitstr32.v); [len(bs)] is a Go int *)
Lemma TransEq_bitstr_Len bs : zlen bs < 2 ^ 63 ->
  Trans.bitstr_Len bs = Bitstr32.Len32 bs.
Proof.
  intros Hl. unfold Trans.bitstr_Len, Bitstr32.Len32. cbv zeta.
  rewrite (i64_id (zlen bs - 1)) by (unfold zlen in *; lia).
  destruct (nthZ bs (zlen bs - 1)) as [last|]; [|reflexivity].
  rewrite i32_add_r. reflexivity.
Qed.

(** against the unbounded model (Model/Bitstr.v) under C09's size hypothesis *)
Lemma TransEq_bitstr_Len_unbounded bs : 8 * zlen bs < 2 ^ 31 -> Forall (fun b => 0 <= b < 256) bs ->
  Trans.bitstr_Len bs = Bitstr.Len bs.
Proof.
  intros Hl Hb. rewrite TransEq_bitstr_Len by lia.
  unfold Bitstr32.Len32, Bitstr.Len. cbv zeta.
  destruct (nthZ bs (zlen bs - 1)) as [last|] eqn:E; [|reflexivity].
  pose proof (nthZ_Some_range _ _ _ E) as Hr.
  pose proof (nthZ_Forall _ _ _ _ Hb E) as Hlast. cbv beta in Hlast.
  assert (Hp : 0 <= popcount last <= 8) by (apply (popcount_range 8); exact Hlast).
  rewrite (i32_id (zlen bs)) by lia.
  unfold sshl32. destruct (Z.ltb_spec 3 32); [|lia].
  change (2 ^ 3) with 8.
  rewrite (i32_id (zlen bs * 8)) by lia.
  rewrite (i32_id (zlen bs * 8 - 16)) by lia.
  rewrite i32_id by lia. reflexivity.
Qed.
