(** C17, widening: a naive FUNCTIONAL description of what ShardByPrefix returns
    (the property itself is only a relation): a key list that is too large is
    cut into the maximal runs of keys that agree on the byte right after the
    list's longest common prefix (a key that ends there is a run of its own),
    and every run is treated the same way.  No first-difference table, no split
    list -- only [lcp_all] and the next byte.  No proofs in this file. *)
From Coq Require Import ZArith List Bool.
From Low Require Import Lib.BitSeq Lib.Lex Lib.Bytes Spec.SigbitsSpec.
Import ListNotations.
Open Scope Z_scope.

(** do two keys go on with the same byte after their first [p] bytes? *)
Definition same_next (p : nat) (a b : list Z) : bool :=
  match nth_error a p, nth_error b p with
  | Some x, Some y => x =? y
  | _, _ => false
  end.

(** maximal runs of adjacent keys with the same next byte *)
Fixpoint runs (p : nat) (ks : list (list Z)) : list (list (list Z)) :=
  match ks with
  | [] => []
  | k :: t =>
      match runs p t with
      | (k' :: g) :: gs => if same_next p k k' then (k :: k' :: g) :: gs else [k] :: (k' :: g) :: gs
      | _ => [[k]]
      end
  end.

(** the shards, as lists of keys ([fuel]: nesting depth; [length ks] always suffices) *)
Fixpoint split_spec (fuel : nat) (maxSize : Z) (ks : list (list Z)) : list (list (list Z)) :=
  match fuel with
  | O => []
  | S f =>
      if zlen ks <=? maxSize then [ks]
      else flat_map (split_spec f maxSize) (runs (length (lcp_all ks)) ks)
  end.

(** start positions of consecutive shards, and the end of the last one *)
Fixpoint bounds_of (acc : Z) (shards : list (list (list Z))) : list Z :=
  acc :: match shards with
         | [] => []
         | x :: r => bounds_of (acc + zlen x) r
         end.

Definition spec_ShardByPrefix (keys : list (list Z)) (maxSize : Z) : list Z * list Z :=
  let sh := split_spec (S (length keys)) maxSize keys in
  (map (fun s => zlen (lcp_all s)) sh, bounds_of 0 sh).
