(** Sections of sections, in the property's words: a window (o, n) with a cursor
    inside a window inside ... a file.  A write through a stack of windows is cut by
    EVERY window on its way down (containment in all of them); io.ErrShortWrite when
    any window cuts or refuses it, unless the underlying writer reports an error.
    Unbounded integers.  No proofs here. *)
From Coq Require Import ZArith List Bool.
From Low Require Import Lib.BitSeq Spec.SectionWriterSpec.
Import ListNotations.
Open Scope Z_scope.

(** WriteAt(p, a) through the windows [ws] (outermost first), a relative to the first *)
Fixpoint aw (ws : list (Z * Z)) (script : list (Z * Z)) (p : list Z) (a : Z)
  : (Z * Z) * list (Z * Z) * list (Z * list Z) :=
  match ws with
  | [] => let '(r, script') := respond script p in (r, script', [(a, p)])
  | (o, n) :: below =>
      if (a <? 0) || (a >=? n) then ((0, A_short), script, [])
      else
        let m := Z.min (zlen p) (n - a) in
        let '((cnt, e), script', us) := aw below script (firstn (Z.to_nat m) p) (o + a) in
        ((cnt, if e =? A_nil then (if m <? zlen p then A_short else A_nil) else e), script', us)
  end.

(** one window with its cursor: (o, n, pos) *)
Definition awin : Type := (Z * Z * Z)%type.
Definition win_of (t : awin) : Z * Z := (fst (fst t), snd (fst t)).

Fixpoint aupd {A} (k : nat) (x : A) (l : list A) : list A :=
  match l, k with
  | [], _ => []
  | _ :: t, O => x :: t
  | h :: t, S k' => h :: aupd k' x t
  end.

(** state: the windows INNERMOST first; a call is addressed to a level *)
Definition astepN (st : list awin) (script : list (Z * Z)) (lc : nat * acall)
  : list awin * list (Z * Z) * aout :=
  let '(L, c) := lc in
  match nth_error st L with
  | None => (st, script, ([], []))
  | Some (o, n, pos) =>
      let below := rev (map win_of (firstn L st)) in
      match c with
      | AWrite p =>
          if pos >=? n then (st, script, ([0; A_short], []))
          else
            let m := Z.min (zlen p) (n - pos) in
            let '((cnt, e), script', us) := aw below script (firstn (Z.to_nat m) p) (o + pos) in
            (aupd L (o, n, pos + cnt) st, script',
             ([cnt; if e =? A_nil then (if m <? zlen p then A_short else A_nil) else e], us))
      | AWriteAt p a =>
          let '((cnt, e), script', us) := aw ((o, n) :: below) script p a in (st, script', ([cnt; e], us))
      | ASeek d wh =>
          let '(pos', _, r) := astep o n pos script (ASeek d wh) in (aupd L (o, n, pos') st, script, r)
      | ASize => (st, script, ([n], []))
      end
  end.

Fixpoint arunN (st : list awin) (script : list (Z * Z)) (lcs : list (nat * acall)) : list aout :=
  match lcs with
  | [] => []
  | lc :: t => let '(st', script', r) := astepN st script lc in r :: arunN st' script' t
  end.

Definition spec_nested (ws : list (Z * Z)) (script : list (Z * Z)) (lcs : list (nat * acall)) : list aout :=
  arunN (map (fun w => (fst w, snd w, 0)) ws) script lcs.
