(** Specification vocabulary of C16 and C17, naive and executable.
    Keys are byte strings ([list Z]); their bit strings are [msb_bits]
    (most significant bit of each byte first).  No proofs in this file. *)
From Coq Require Import ZArith List Bool.
From Low Require Import Lib.Bits Lib.BitSeq Lib.Lex Lib.Bytes.
Import ListNotations.
Open Scope Z_scope.

(** adjacent pairs of a list *)
Fixpoint adj_pairs {A} (l : list A) : list (A * A) :=
  match l with
  | a :: ((b :: _) as t) => (a, b) :: adj_pairs t
  | _ => []
  end.

(** strictly ascending in Go's string order *)
Definition strict_asc (keys : list (list Z)) : Prop :=
  forall p, In p (adj_pairs keys) -> bytes_cmp (fst p) (snd p) = Lt.
Definition strict_ascb (keys : list (list Z)) : bool :=
  forallb (fun p => match bytes_cmp (fst p) (snd p) with Lt => true | _ => false end) (adj_pairs keys).

Definition keys_ok (keys : list (list Z)) : Prop := Forall bytes_ok keys.
Definition keys_okb (keys : list (list Z)) : bool := forallb bytes_okb keys.

(** * C16 *)

(** index of the first bit at which two keys differ = length of the longest
    common prefix of their bit strings (= 8 * min(len) exactly when one key is
    a byte-prefix of the other) *)
Definition first_diff_bit (a b : list Z) : Z := zlen (lcp_bits (msb_bits a) (msb_bits b)).

Definition spec_FirstDiffBits (keys : list (list Z)) : list Z :=
  map (fun p => first_diff_bit (fst p) (snd p)) (adj_pairs keys).

(** [keys[s:e]] *)
Definition sub_keys {A} (keys : list A) (s e : Z) : list A :=
  firstn (Z.to_nat (e - s)) (skipn (Z.to_nat s) keys).

(** minimum of a non-empty list *)
Definition list_min (l : list Z) : Z :=
  match l with [] => 0 | x :: t => fold_left Z.min t x end.

Definition bits_eq_dec : forall a b : list bool, {a = b} + {a <> b} := list_eq_dec Bool.bool_dec.

(** number of distinct [k]-bit truncations of the keys' bit strings; a key
    shorter than [k] bits counts as itself ([firstn] keeps it whole) *)
Definition count_trunc (k : Z) (bs : list (list bool)) : Z :=
  zlen (nodup bits_eq_dec (map (firstn (Z.to_nat k)) bs)).

Definition spec_CountPrefixes (keys : list (list Z)) (s e m : Z) : Z * list Z :=
  let ks := sub_keys keys s e in
  let m0 := list_min (spec_FirstDiffBits ks) in
  let bs := map msb_bits ks in
  (m0, map (fun i => count_trunc (m0 + Z.of_nat i) bs) (seq 0 (Z.to_nat m))).

(** * C17 *)

(** longest common prefix (bytes) of a non-empty list of keys *)
Definition lcp_all (ks : list (list Z)) : list Z :=
  match ks with [] => [] | k :: t => fold_left lcp_bytes t k end.

(** boundaries: start at [lo], strictly increasing, each step at most [maxSize], end at [hi] *)
Fixpoint bounds_okb (B : list Z) (lo hi maxSize : Z) : bool :=
  match B with
  | [] => false
  | [b] => (b =? lo) && (b =? hi)
  | b :: ((b' :: _) as t) => (b =? lo) && (b <? b') && (b' - b <=? maxSize) && bounds_okb t b' hi maxSize
  end.

(** the shards [keys[B[j]:B[j+1]]] *)
Definition shards (keys : list (list Z)) (B : list Z) : list (list (list Z)) :=
  map (fun p => sub_keys keys (fst p) (snd p)) (adj_pairs B).

(** the shard prefixes [keys[B[j]][:L[j]]] *)
Definition shard_prefixes (keys : list (list Z)) (L B : list Z) : list (list Z) :=
  map (fun p => firstn (Z.to_nat (fst p)) (nth (Z.to_nat (snd p)) keys [])) (combine L B).

Definition shard_ok (keys : list (list Z)) (maxSize : Z) (L B : list Z) : bool :=
  bounds_okb B 0 (zlen keys) maxSize
  && (zlen L + 1 =? zlen B)
  && forallb (fun p => fst p =? zlen (lcp_all (snd p))) (combine L (shards keys B))
  && strict_ascb (shard_prefixes keys L B).

(** the same, as a proposition in the words of the property *)
Definition shard_spec (keys : list (list Z)) (maxSize : Z) (L B : list Z) : Prop :=
  let k := length L in
  length B = S k /\
  nth 0 B 0 = 0 /\ nth k B 0 = zlen keys /\
  (forall j, (j < k)%nat ->
     nth j B 0 < nth (S j) B 0 /\
     nth (S j) B 0 - nth j B 0 <= maxSize /\
     nth j L 0 = zlen (lcp_all (sub_keys keys (nth j B 0) (nth (S j) B 0)))) /\
  (forall j, (S j < k)%nat ->
     bytes_cmp (firstn (Z.to_nat (nth j L 0)) (nth (Z.to_nat (nth j B 0)) keys []))
               (firstn (Z.to_nat (nth (S j) L 0)) (nth (Z.to_nat (nth (S j) B 0)) keys [])) = Lt).
