(** C18 in the property's own words: a section-relative cursor/length machine.

    A section is (start [o], length [n]).  The abstract state is just the
    cursor [pos >= 0], counted from the section start; positions and lengths
    are unbounded mathematical integers (no int64).  The underlying writer is
    the same oracle as on the model side: a response (k, e) accepts
    [min k len] bytes and returns error class e (0 = nil).

      Write p      : at or beyond the end -> (0, ErrShortWrite), nothing reaches
                     the writer.  Otherwise the first m = min(|p|, n - pos) bytes
                     go to absolute position o + pos; the count returned is the
                     writer's; the cursor advances by exactly it; the error is
                     the writer's if it returned one, else ErrShortWrite iff the
                     request was truncated (m < |p|).
      WriteAt p a  : the same at section-relative position a (a < 0 or a >= n
                     refused), cursor untouched.
      Seek d wh    : io.Seeker relative to the section: reference 0 / pos / n;
                     invalid whence -> error; target t = ref + d (unbounded);
                     t < 0 -> error; o + t > 2^63-1 (not an int64 position)
                     -> error; otherwise pos := t, returns t.
      Size         : n.

    No proofs here. *)
From Coq Require Import ZArith List Bool.
From Low Require Import Lib.BitSeq.
Import ListNotations.
Open Scope Z_scope.

Definition A_nil : Z := 0.
Definition A_short : Z := 1.
Definition A_whence : Z := 3.
Definition A_offset : Z := 4.

Definition max_int64 : Z := 2^63 - 1.

(** the oracle: one response per call that reaches the writer *)
Definition respond (script : list (Z * Z)) (p : list Z) : (Z * Z) * list (Z * Z) :=
  match script with
  | [] => ((zlen p, A_nil), [])
  | (k, e) :: t => ((Z.min k (zlen p), e), t)
  end.

Inductive acall : Type :=
| AWrite (p : list Z)
| AWriteAt (p : list Z) (a : Z)
| ASeek (d whence : Z)
| ASize.

(** result of a call: return values, calls (absolute offset, bytes) that reach the writer *)
Definition aout : Type := (list Z * list (Z * list Z))%type.

(** write the first [min |p| (n - at)] bytes of p at section-relative [at];
    returns the count, the error class, the remaining script, the writer call *)
Definition put (o n : Z) (script : list (Z * Z)) (p : list Z) (at_ : Z)
  : Z * Z * list (Z * Z) * (Z * list Z) :=
  let m := Z.min (zlen p) (n - at_) in
  let p' := firstn (Z.to_nat m) p in
  let '((cnt, e), script') := respond script p' in
  let err := if e =? A_nil then (if m <? zlen p then A_short else A_nil) else e in
  (cnt, err, script', (o + at_, p')).

Definition astep (o n : Z) (pos : Z) (script : list (Z * Z)) (c : acall)
  : Z * list (Z * Z) * aout :=
  match c with
  | AWrite p =>
      if pos >=? n then (pos, script, ([0; A_short], []))
      else let '(cnt, err, script', uc) := put o n script p pos in
           (pos + cnt, script', ([cnt; err], [uc]))
  | AWriteAt p a =>
      if (a <? 0) || (a >=? n) then (pos, script, ([0; A_short], []))
      else let '(cnt, err, script', uc) := put o n script p a in
           (pos, script', ([cnt; err], [uc]))
  | ASeek d wh =>
      let ref := if wh =? 0 then Some 0 else if wh =? 1 then Some pos
                 else if wh =? 2 then Some n else None in
      match ref with
      | None => (pos, script, ([0; A_whence], []))
      | Some r =>
          let t := r + d in
          if (t <? 0) || (o + t >? max_int64) then (pos, script, ([0; A_offset], []))
          else (t, script, ([t; A_nil], []))
      end
  | ASize => (pos, script, ([n], []))
  end.

Fixpoint arun (o n : Z) (pos : Z) (script : list (Z * Z)) (cs : list acall) : list aout :=
  match cs with
  | [] => []
  | c :: t => let '(pos', script', r) := astep o n pos script c in r :: arun o n pos' script' t
  end.

(** a fresh section writer: cursor at the section start *)
Definition spec_section (o n : Z) (script : list (Z * Z)) (cs : list acall) : list aout :=
  arun o n 0 script cs.

(** AtToWriter(w, o): a section from o with no practical end *)
Definition spec_at_to_writer (o : Z) (script : list (Z * Z)) (cs : list acall) : list aout :=
  arun o (max_int64 - o) 0 script cs.
