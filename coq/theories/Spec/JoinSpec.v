(** C14 in the property's own words, over the bit sequence of a bitmap. *)
From Coq Require Import ZArith List Bool.
From Low Require Import Lib.Bits Lib.BitSeq.
Import ListNotations.
Open Scope Z_scope.

Definition cdiv64 (n : Z) : Z := (n + 63) / 64.

Definition width_okb (w : Z) : bool :=
  (w =? 1) || (w =? 2) || (w =? 4) || (w =? 8) || (w =? 16) || (w =? 32) || (w =? 64).
Definition width_ok (w : Z) : Prop := In w [1; 2; 4; 8; 16; 32; 64].

Definition zeros (n : Z) : list bool := repeat false (Z.to_nat n).

(** the low [w] bits of every value, one after the other *)
Definition packed (vs : list Z) (w : Z) : list bool := concat (map (bits (Z.to_nat w)) vs).

(** [r] is what Join(vs, w) must return: ceil(len*w/64) words whose bits are the packed values, then zeros *)
Definition spec_Join (vs : list Z) (w : Z) (r : list Z) : Prop :=
  words_ok r /\ zlen r = cdiv64 (zlen vs * w) /\
  flat r = packed vs w ++ zeros (64 * zlen r - zlen vs * w).

(** what Getw must return for element i of a joined bitmap *)
Definition spec_Getw (vs : list Z) (w i : Z) : Z := nth (Z.to_nat i) vs 0 mod 2 ^ w.

(** [r] is what Slice(ws, from, to) must return *)
Definition spec_Slice (ws : list Z) (from to : Z) (r : list Z) : Prop :=
  words_ok r /\ zlen r = cdiv64 (to - from) /\
  flat r = firstn (Z.to_nat (to - from)) (skipn (Z.to_nat from) (flat ws)) ++ zeros (64 * zlen r - (to - from)).

(** boolean checkers (run on the implementation's output) *)
Fixpoint bools_eqb (a b : list bool) : bool :=
  match a, b with
  | [], [] => true
  | x :: a', y :: b' => Bool.eqb x y && bools_eqb a' b'
  | _, _ => false
  end.

Definition spec_Join_ok (vs : list Z) (w : Z) (r : list Z) : bool :=
  words_okb r && (zlen r =? cdiv64 (zlen vs * w)) &&
  bools_eqb (flat r) (packed vs w ++ zeros (64 * zlen r - zlen vs * w)).

Definition spec_Slice_ok (ws : list Z) (from to : Z) (r : list Z) : bool :=
  words_okb r && (zlen r =? cdiv64 (to - from)) &&
  bools_eqb (flat r)
    (firstn (Z.to_nat (to - from)) (skipn (Z.to_nat from) (flat ws)) ++ zeros (64 * zlen r - (to - from))).

Definition slice_dom (ws : list Z) (from to : Z) : bool :=
  (0 <=? from) && (from <=? to) && (to <=? 64 * zlen ws).
