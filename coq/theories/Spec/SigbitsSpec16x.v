(** Specification vocabulary of the C16 widening (single-key ranges).  No proofs in this file. *)
From Coq Require Import ZArith List Bool.
From Low Require Import Lib.Bits Lib.BitSeq Lib.Lex Lib.Bytes Spec.SigbitsSpec.
Import ListNotations.
Open Scope Z_scope.

(** CountPrefixes over a range of ONE key: there is no adjacent pair, hence no first
    difference -- the minimum over nothing is the largest int32 -- and the one key has
    one truncation at every width ([count_trunc k [b] = 1], proved in Proofs/SigbitsCounters.v) *)
Definition spec_CountPrefixes_single (m : Z) : Z * list Z := (2147483647, repeat 1 (Z.to_nat m)).
