(** Specification vocabulary of the C16 widening (single-key ranges).  No proofs in this file. *)
From Coq Require Import ZArith List Bool.
From Low Require Import Lib.Bits Lib.BitSeq Lib.Lex Lib.Bytes Spec.SigbitsSpec.
Import ListNotations.
Open Scope Z_scope.

(** CountPrefixes over a range of ONE key: there is no adjacent pair, hence no first
    difference -- the minimum over nothing is the largest int32 -- and the one key has
    one truncation at every width ([count_trunc k [b] = 1], proved in Proofs/SigbitsCounters.v) *)
Definition spec_CountPrefixes_single (m : Z) : Z * list Z := (2147483647, repeat 1 (Z.to_nat m)).

(** * large key sets described compactly: [prefix ++ big-endian w-byte counter], counter = c0 .. c0+n-1 *)
Fixpoint be_bytes (w : nat) (c : Z) : list Z :=
  match w with
  | O => []
  | S w' => (c / 256 ^ Z.of_nat w') mod 256 :: be_bytes w' c
  end.

Fixpoint counter_keys_from (fuel : nat) (prefix : list Z) (w : nat) (c : Z) : list (list Z) :=
  match fuel with
  | O => []
  | S fuel' => (prefix ++ be_bytes w c) :: counter_keys_from fuel' prefix w (c + 1)
  end.

Definition counter_keys (prefix : list Z) (w c0 n : Z) : list (list Z) :=
  counter_keys_from (Z.to_nat n) prefix (Z.to_nat w) c0.

(** * the counters of a strictly ascending range, computed from the adjacent first differences
      (linear; the naive [count_trunc] with [nodup] is quadratic in the number of keys).
      Proofs/SigbitsCountPrefixes.v proves it equal to [spec_CountPrefixes] for every strictly
      ascending key list ([spec_CountPrefixes_fast_agrees]); it is used as the oracle only for
      key sets too large for the naive one. *)
Definition count_below (k : Z) (ds : list Z) : Z := zlen (filter (fun d => d <? k) ds).

Definition spec_CountPrefixes_fast (keys : list (list Z)) (s e m : Z) : Z * list Z :=
  let ds := spec_FirstDiffBits (sub_keys keys s e) in
  let m0 := list_min ds in
  (m0, map (fun i => 1 + count_below (m0 + Z.of_nat i) ds) (seq 0 (Z.to_nat m))).

(** * a sequence of queries on one SigBits object: every answer is the one of a fresh object *)
Definition spec_queries (keys : list (list Z)) (qs : list (Z * Z * Z)) : list (Z * list Z) :=
  map (fun q => match q with (s, e, m) => spec_CountPrefixes keys s e m end) qs.

(** * a session of steps on one key slice and one object (Model/SigbitsQueries.v: [sstep]); the
      specification does not know about objects: every CountPrefixes answer is the one of the
      key list, FirstDiffBits the adjacent common prefixes, ShardByPrefix is not observed here *)
Inductive spec_step : Type :=
| SCount (s e m : Z)
| SShard (maxSize : Z)
| SFdb
| SRepeat (n s e m : Z).   (* n >= 1 identical questions: the last answer is the answer *)

Definition spec_session (keys : list (list Z)) (steps : list spec_step) : list (Z * list Z) :=
  map (fun st => match st with
                 | SCount s e m => spec_CountPrefixes keys s e m
                 | SShard _ => (0, [])
                 | SFdb => (0, spec_FirstDiffBits keys)
                 | SRepeat _ s e m => spec_CountPrefixes keys s e m
                 end) steps.
