(** pbcmpl frames placed in one file (C18 widening, cross-package), in the
    vocabulary of C06/C07 ([frame], [spec_Unmarshal]) and of the file ([fstore]):

      Marshal at off : a version longer than 16 bytes panics; otherwise the frame
                       is stored at off, n = its length, no error.
      Unmarshal at off : what [spec_Unmarshal] says of the bytes of the file from
                       off on, the stream ending with a plain io.EOF.
    No proofs here. *)
From Coq Require Import ZArith List Bool.
From Low Require Import Lib.BitSeq Model.Pbcmpl Spec.PbcmplSpec Spec.SectionWriterSpec Spec.SectionReaderSpec.
Import ListNotations.
Open Scope Z_scope.

Definition eof_terminal : terminal := {| t_err := EEOF; t_with_last := false |}.

Fixpoint spec_marshal_all (kind : Z) (f : list Z) (ps : list (Z * (option (list Z) * list Z)))
  : option (list (Z * option perr) * list Z) :=
  match ps with
  | [] => Some ([], f)
  | (off, (ver, p)) :: t =>
      let v := ver_of ver in
      if zlen v >? 16 then None
      else
        let fr := frame v (k_enc kind p) in
        match spec_marshal_all kind (fstore f off fr) t with
        | None => None
        | Some (rs, f') => Some ((zlen fr, None) :: rs, f')
        end
  end.

Definition spec_unmarshal_at (kind : Z) (f : list Z) (off : Z) : Z * list Z * option perr * list Z :=
  let s := if off <? zlen f then skipn (Z.to_nat off) f else [] in
  let '(n, ver, err, m, _) := spec_Unmarshal (k_dec kind) EEOF s eof_terminal in
  (n, ver, err, payload_opt m).

(** reading frame after frame off the bytes [s] until the first error or [count] frames *)
Fixpoint spec_stream_file (count : nat) (kind : Z) (s : list Z) : list (Z * list Z * option perr * list Z) :=
  match count with
  | O => []
  | S k =>
      let '(n, ver, err, m, lft) := spec_Unmarshal (k_dec kind) EEOF s eof_terminal in
      let step := (n, ver, err, payload_opt m) in
      match err with
      | Some _ => [step]
      | None => step :: spec_stream_file k kind lft
      end
  end.

Definition spec_stream_at (kind : Z) (f : list Z) (off : Z) (count : nat) :=
  spec_stream_file count kind (if off <? zlen f then skipn (Z.to_nat off) f else []).
