(** C02 in the property's own words: the ascending list of the positions of
    the 1-bits of the bitmap, [ones (flat ws)], and nothing else. *)
From Coq Require Import ZArith List Bool.
From Low Require Import Lib.Bits Lib.BitSeq Spec.RankSpec.
Import ListNotations.
Open Scope Z_scope.

(** positions of all 1-bits, ascending *)
Definition all_ones (ws : list Z) : list Z := ones (flat ws).

(** the select index lists the position of every 32nd 1-bit: ceil(n/32) entries,
    entry k = position of the (32k)-th 1-bit (counting from 0) *)
Definition spec_IndexSelect32 (ws : list Z) : list Z :=
  let os := all_ones ws in
  map (fun k => nth (32 * k) os 0) (seq 0 ((length os + 31) / 32)).

(** (position of the i-th 1-bit, position of the (i+1)-th 1-bit or 64*len(words)
    when the i-th is the last one) *)
Definition spec_Select (ws : list Z) (i : Z) : Z * Z :=
  let os := all_ones ws in
  (nth (Z.to_nat i) os 0,
   if i + 1 <? zlen os then nth (Z.to_nat (i + 1)) os 0 else 64 * zlen ws).

(** the rank index returned alongside: IndexRank64(words, true) in C01's words *)
Definition spec_IndexSelect32R64 (ws : list Z) : list Z * list Z :=
  (spec_IndexSelect32 ws, spec_IndexRank64 ws true).
