(** Specification vocabulary for the extra check X01 (package vers).

    * [prec]: the precedence order of Semantic Versioning 2.0.0 section 11, written from the text of the
      standard: major, minor, patch numerically; a version with a pre-release is lower than the same version
      without; pre-release identifiers are compared left to right, numeric ones numerically and below
      alphanumeric ones, alphanumeric ones in ASCII order, and a longer list wins when all shared identifiers
      are equal; build metadata is ignored.
    * [sat]: what a comparator means in terms of [prec].
    * a range in disjunctive normal form holds for a version when one of its groups holds entirely; a range with
      an EMPTY group is malformed ("a || || b").
    * IsCompatible(ver, spec) = ver is a version, the joined spec is a well-formed range, and the range holds;
      false otherwise, never a panic.  Check(ver, spec...) = the same when both are valid and a panic otherwise
      (in a release build an invalid ver is outside Check's contract: only its behaviour on valid versions is specified).

    The PARSERS (which strings are versions / ranges and what they denote: [Parse], [range_groups] of
    Model/Semver.v) are the third-party library's and are taken as they are (modelled, exercised by
    correspondence, not verified); the operations with suffix /ast check the library against this vocabulary
    without going through the modelled parsers. *)
From Coq Require Import ZArith List Bool.
From Low Require Import Lib.Lex Model.Semver Model.Vers.
Import ListNotations.
Open Scope Z_scope.

(** pre-release identifiers *)
Definition ident_cmp (a b : PRVersion) : comparison :=
  match pr_isnum a, pr_isnum b with
  | true, true => Z.compare (pr_num a) (pr_num b)
  | true, false => Lt
  | false, true => Gt
  | false, false => bytes_cmp (pr_str a) (pr_str b)
  end.

Definition pre_cmp (a b : list PRVersion) : comparison :=
  match a, b with
  | [], [] => Eq
  | [], _ :: _ => Gt           (* no pre-release: the higher one *)
  | _ :: _, [] => Lt
  | _, _ => lex_cmp ident_cmp a b
  end.

Definition thenc (c d : comparison) : comparison := match c with Eq => d | _ => c end.

Definition prec (v w : Version) : comparison :=
  thenc (Z.compare (v_major v) (v_major w))
 (thenc (Z.compare (v_minor v) (v_minor w))
 (thenc (Z.compare (v_patch v) (v_patch w))
        (pre_cmp (v_pre v) (v_pre w)))).

(** comparators *)
Definition sat (c : comparator) (v w : Version) : bool :=
  match c, prec v w with
  | CEQ, Eq => true | CEQ, _ => false
  | CNE, Eq => false | CNE, _ => true
  | CGT, Gt => true | CGT, _ => false
  | CGE, Lt => false | CGE, _ => true
  | CLT, Lt => true | CLT, _ => false
  | CLE, Gt => false | CLE, _ => true
  end.

Definition group_holds (v : Version) (g : list (comparator * Version)) : bool :=
  forallb (fun cw => sat (fst cw) v (snd cw)) g.
Definition groups_wf (gs : groups) : bool :=
  forallb (fun g => match g with [] => false | _ => true end) gs.
Definition range_holds (gs : groups) (v : Version) : bool := existsb (group_holds v) gs.

(** IsCompatible: never panics *)
Definition spec_IsCompatible (ver : str) (spec : list str) : option bool :=
  match Parse ver, range_groups (join or_sep spec) with
  | Some v, Ok gs => Some (groups_wf gs && range_holds gs v)
  | _, _ => Some false
  end.

(** Check: the value on valid input, a panic on an invalid range or (debug build) an invalid version;
    release build with an invalid version: outside the contract, [None] here means "not specified" and the
    operation compares model and implementation only *)
Definition spec_Check (ver : str) (spec : list str) : option bool :=
  match Parse ver, range_groups (join or_sep spec) with
  | Some v, Ok gs => if groups_wf gs then Some (range_holds gs v) else None
  | _, _ => None
  end.
