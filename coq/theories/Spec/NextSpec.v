(** C13 in the property's own words: the first / last 1-bit position inside
    [i, end), read off the ascending list of all 1-bit positions. *)
From Coq Require Import ZArith List Bool.
From Low Require Import Lib.Bits Lib.BitSeq.
Import ListNotations.
Open Scope Z_scope.

Definition in_rangeb (i e p : Z) : bool := (i <=? p) && (p <? e).

(** the 1-bit positions inside [i, e), ascending *)
Definition ones_in (bm : list Z) (i e : Z) : list Z :=
  filter (in_rangeb i e) (ones (flat bm)).

Definition spec_NextOne (bm : list Z) (i e : Z) : Z := hd (-1) (ones_in bm i e).
Definition spec_PrevOne (bm : list Z) (i e : Z) : Z := last (ones_in bm i e) (-1).

(** the domain of the property *)
Definition next_dom (bm : list Z) (i e : Z) : bool :=
  (0 <=? i) && (i <=? e) && (e <=? 64 * zlen bm) && (i <? 64 * zlen bm).
Definition prev_dom (bm : list Z) (i e : Z) : bool := next_dom bm i e && (1 <=? e).
