(** Specification vocabulary for the tree package (extra check X02).

    A finite tree is a [rose]: node id, node info, optional leaf value, and the outgoing edges in label order,
    each with an optional label text ([None] = the label is nil: no "-...->" arrow is printed) and the child.
    [uid] is a serial number that only the harness' DepthFirst callback reads (the Tree interface cannot see it).

    [spec_String]: the text is one row per node in PRE-ORDER; a row is the node's line shifted right by the
    column of the node, and the column of a child is the column of its parent plus the width of the parent's
    "-label->#id" prefix.  (The code computes the same text bottom-up by prepending indents to the rendered
    lines of sub-trees.)
    [spec_visits]: DepthFirst reports every node once, children (in label order) before their parent: post-order. *)
From Coq Require Import ZArith List Bool.
From Low Require Import Lib.Decimal_xpk Model.Tree.
Import ListNotations.
Open Scope Z_scope.

Inductive rose :=
| Rose (uid : Z) (id info : list Z) (leaf : option lval) (kids : list (option (list Z) * rose)).

Definition r_uid (r : rose) := match r with Rose u _ _ _ _ => u end.
Definition r_id (r : rose) := match r with Rose _ i _ _ _ => i end.
Definition r_info (r : rose) := match r with Rose _ _ i _ _ => i end.
Definition r_leaf (r : rose) := match r with Rose _ _ _ l _ => l end.
Definition r_kids (r : rose) := match r with Rose _ _ _ _ k => k end.

Fixpoint height (r : rose) : nat :=
  match r with Rose _ _ _ _ kids => S (fold_right (fun e m => Nat.max (height (snd e)) m) O kids) end.
Fixpoint size (r : rose) : nat :=
  match r with Rose _ _ _ _ kids => S (fold_right (fun e m => (size (snd e) + m)%nat) O kids) end.

(** the part of a node's line in front of the node info: "-label->" (when it has a label) and "#id" (when the id is not empty) *)
Definition prefix_of (inb : option (list Z)) (r : rose) : list Z :=
  (match inb with Some li => [45] ++ li ++ [45; 62] | None => [] end) ++
  (match r_id r with [] => [] | i => [35] ++ i end).

(** the whole line: prefix, info, "*<fan-out>" when there is more than one edge, "=<value>" on a leaf *)
Definition line_of (inb : option (list Z)) (r : rose) : list Z :=
  prefix_of inb r ++ r_info r ++
  (if (1 <? Z.of_nat (length (r_kids r))) then [42] ++ dec_of_Z (Z.of_nat (length (r_kids r))) else []) ++
  (match r_leaf r with Some v => [61] ++ fmt_v v | None => [] end).

(** rows in pre-order: (column, incoming label, node) *)
Fixpoint rows (col : Z) (inb : option (list Z)) (r : rose) : list (Z * option (list Z) * rose) :=
  match r with
  | Rose _ _ _ _ kids =>
      (col, inb, r) :: flat_map (fun e => rows (col + Z.of_nat (length (prefix_of inb r))) (fst e) (snd e)) kids
  end.

Definition row_text (x : Z * option (list Z) * rose) : list Z :=
  let '(col, inb, r) := x in repeat 32 (Z.to_nat col) ++ line_of inb r.

Definition spec_lines (r : rose) : list (list Z) := map row_text (rows 0 None r).

(** lines separated (not terminated) by "\n" *)
Definition spec_String (r : rose) : list Z := join [10] (spec_lines r).

(** post-order visits: (parent, incoming label, node); the root has no parent and no label *)
Fixpoint spec_visits (parent : option rose) (inb : option (list Z)) (r : rose)
  : list (option rose * option (list Z) * rose) :=
  match r with
  | Rose _ _ _ _ kids => flat_map (fun e => spec_visits (Some r) (fst e) (snd e)) kids ++ [(parent, inb, r)]
  end.

Fixpoint preorder (r : rose) : list rose :=
  match r with Rose _ _ _ _ kids => r :: flat_map (fun e => preorder (snd e)) kids end.
Fixpoint mirror (r : rose) : rose :=
  match r with Rose u i f l kids => Rose u i f l (rev (map (fun e => (fst e, mirror (snd e))) kids)) end.

(** * when does an implementation of the interface present the tree [r] at node [n]?
    Its id, info and leaf value are those of [r], it has one label per edge of [r], a label is nil exactly when the
    edge has no text and otherwise LabelInfo gives the text, and the child behind each label presents the sub-tree. *)
Section Rep.
Context {node label : Type}.
Variable t : TreeI node label.

Definition label_matches (l : option label) (txt : option (list Z)) : Prop :=
  match l, txt with
  | Some _, Some s => t_labelInfo t l = s
  | None, None => True
  | _, _ => False
  end.

Definition leaf_matches (lv : lval * bool) (leaf : option lval) : Prop :=
  match leaf with Some v => lv = (v, true) | None => snd lv = false end.

Fixpoint rep (n : option node) (r : rose) {struct r} : Prop :=
  match r with
  | Rose _ id info leaf kids =>
      t_nodeID t n = id /\ t_nodeInfo t n = info /\ leaf_matches (t_leafVal t n) leaf /\
      (fix go (ks : list (option (list Z) * rose)) (ls : list (option label)) {struct ks} : Prop :=
         match ks, ls with
         | [], [] => True
         | k :: ks', l :: ls' => label_matches l (fst k) /\ rep (t_child t n l) (snd k) /\ go ks' ls'
         | _, _ => False
         end) kids (t_labels t n)
  end.

(** what a call of the DepthFirst callback shows of the tree: the sub-trees presented at parent and node, the label text *)
Definition call_matches (c : call (node:=node) (label:=label)) (v : option rose * option (list Z) * rose) : Prop :=
  let '(p, l, n) := c in let '(vp, vl, vn) := v in
  match vp with Some rp => rep p rp | None => p = None end /\ label_matches l vl /\ rep n vn.

End Rep.

(** * the implementation used by the harness (harness/x02.go mirrors it): a node is the sub-tree itself, nil is
    the root; a label is the edge (text, child) or nil for an edge without text; Child(nil, nil) is the root —
    as nil when [rootnil], as the root node otherwise. *)
Definition edge : Type := (option (list Z) * rose)%type.

Definition edge_label (e : edge) : option edge := match fst e with Some _ => Some e | None => None end.

Definition rose_tree (rootnil : bool) (root : rose) : TreeI rose edge :=
  let resolve := fun n : option rose => match n with Some x => x | None => root end in
  {| t_child := fun n l =>
       match l with
       | Some e => Some (snd e)
       | None =>
           match n with
           | None => if rootnil then None else Some root
           | Some x => match find (fun e => match fst e with None => true | Some _ => false end) (r_kids x) with
                       | Some e => Some (snd e)
                       | None => None end
           end
       end;
     t_labels := fun n => map edge_label (r_kids (resolve n));
     t_nodeID := fun n => r_id (resolve n);
     t_labelInfo := fun l => match l with Some (Some s, _) => s | _ => [] end;
     t_nodeInfo := fun n => r_info (resolve n);
     t_leafVal := fun n => match r_leaf (resolve n) with Some v => (v, true) | None => (LNil, false) end |}.

(** the harness builds only trees in which a node has at most one edge without text and the root has none
    (Child(node, nil) could not tell two such edges apart, and Child(nil, nil) is the root) *)
Fixpoint nil_edges_ok (r : rose) : bool :=
  match r with
  | Rose _ _ _ _ kids =>
      (length (filter (fun e => match fst e with None => true | Some _ => false end) kids) <=? 1)%nat &&
      forallb (fun e => nil_edges_ok (snd e)) kids
  end.
Definition rose_ok (r : rose) : bool :=
  nil_edges_ok r && forallb (fun e => match fst e with None => false | Some _ => true end) (r_kids r).
