(** C03's own vocabulary.  The property is stated against [pre_rank] of
    Spec/Bmtree.v (position in the enumerated pre-order among the stored
    nodes).  For the correspondence run on tall trees the enumeration (2^(h+1)
    nodes) is too large, so the checker evaluates the recursive definition of
    the pre-order rank directly; Proofs/BmtreeIndexProofs.v proves the two
    equal ([rec_rank_pre_rank]). *)
From Coq Require Import ZArith List Bool.
From Low Require Import Lib.Bits Lib.BitSeq Lib.Lex Lib.Bytes Spec.Bmtree.
Import ListNotations.
Open Scope Z_scope.

(** pre-order rank by recursion on the path: at every step the root of the
    current subtree precedes (if its level is stored: bit 0 of the level mask
    of the subtree) and, when the path turns right, so does the whole left
    subtree, which stores T>>1 nodes. *)
Fixpoint rec_rank (T : Z) (q : node) : Z :=
  match q with
  | [] => 0
  | b :: q' => Z.b2z (Z.testbit T 0) + (if b then T / 2 else 0) + rec_rank (T / 2) q'
  end.

(** what the checker evaluates: the enumerated pre-order for h <= 12, the
    recursion above it *)
Definition spec_rank (T : Z) (h : nat) (q : node) : Z :=
  if (h <=? 12)%nat then pre_rank T h q else rec_rank T q.

(** PathToIndexLoose: (rank, is the node's own level stored) *)
Definition spec_loose (T : Z) (h : nat) (q : node) : Z * Z :=
  (spec_rank T h q, Z.b2z (stored T q)).
