(** Specification vocabulary for typehelper.ToSlice/values (extra check X03): typing of value trees and what it
    means for a list of interface values to be "the elements of the slice". *)
From Coq Require Import ZArith List Bool.
From Low Require Import Model.ToSliceValues.
Import ListNotations.
Open Scope Z_scope.

(** [has_type t v]: the value [v] can be stored in a slot of static type [t].  Everything (the nil interface
    included) fits an interface slot; otherwise the dynamic type of [v] is [t]. *)
Fixpoint gty_eqb (a b : gty) : bool :=
  match a, b with
  | TIface, TIface | TString, TString => true
  | TScalar k, TScalar j => k =? j
  | TSlice x, TSlice y | TPtr x, TPtr y => gty_eqb x y
  | TArray x n, TArray y m => gty_eqb x y && (n =? m)
  | _, _ => false
  end.

(** the dynamic type of a value, as far as it is one of the modelled types; named slice types and the
    [GOther] values have a type outside [gty] *)
Fixpoint dyn_type (v : gval) : option gty :=
  match v with
  | GNil => None
  | GScalar k _ => Some (TScalar k)
  | GString _ => Some TString
  | GSlice t fl _ => if Z.testbit fl 1 then None else Some (TSlice t)
  | GArray t el => Some (TArray t (Z.of_nat (length el)))
  | GPtr v => match dyn_type v with Some t => Some (TPtr t) | None => None end
  | GNilPtr t => Some (TPtr t)
  | GOther _ => None
  end.

Definition has_type (t : gty) (v : gval) : bool :=
  match t with
  | TIface => true
  | _ => match dyn_type v with Some u => gty_eqb t u | None => false end
  end.

(** the scalar kinds the harness builds: bool, int..int64, uint..uint64 (1..11), float32, float64 (13, 14) *)
Definition scalar_kind (k : Z) : bool := ((1 <=? k) && (k <=? 11)) || (k =? 13) || (k =? 14).

(** well-formed value trees: the elements of slices and arrays fit the element type, a nil slice is empty *)
Fixpoint wf (v : gval) : bool :=
  match v with
  | GSlice t fl el => forallb (fun e => has_type t e && wf e) el && (negb (Z.testbit fl 0) || match el with [] => true | _ => false end)
  | GArray t el => forallb (fun e => has_type t e && wf e) el
  | GPtr v => wf v && match dyn_type v with Some _ => true | None => false end
  | GScalar k _ => scalar_kind k
  | GOther tag => (tag =? K_Chan) || (tag =? K_Func) || (tag =? K_Map) || (tag =? K_Struct)
  | _ => true
  end.

(** the specification of ToSlice: [r] lists the elements of the slice [arg], in order *)
Definition is_elems_of (arg : gval) (r : list gval) : Prop :=
  length r = length (slice_elems arg) /\
  forall i, (i < length r)%nat -> nth_error r i = nth_error (slice_elems arg) i.

(** executable form: panics (None) unless the argument is of kind slice *)
Definition spec_ToSlice (arg : gval) : option (list gval) :=
  match arg with GSlice _ _ el => Some el | _ => None end.
