(** C15 in the property's own words.

    The abstract machine knows only the initial offset [o] and the set [H] of
    indices that have been set so far (kept as a list of half-open intervals
    so that a bulk "set every index in [from,to)" stays one entry).  It never
    looks at words.  After every call of a history the exported state
    [(Offset, Words)] and the call's result are judged against it:

      - Offset is a multiple of 64, never decreases, and never moves past a
        position that is still 0 (every j in [previous Offset, Offset) is a
        member);
      - the first stored word is not all-ones;
      - the end of the stored words, Offset + 64*len(Words), never decreases,
        and every index that was set is below it;
      - every stored bit equals membership (so Get/Get1 of EVERY position
        below the end is membership, not only of the probed ones);
      - Get1(j) = [j < o or j in H], Get(j) = that bit << (j mod 64);
      - Compact leaves the end unchanged (with the clause above: it changes
        no Get result).

    No proofs here. *)
From Coq Require Import ZArith List Bool.
From Low Require Import Lib.Bits Lib.BitSeq.
Import ListNotations.
Open Scope Z_scope.

(** protocol-level calls of a history (the two bulk forms are plain loops of Set) *)
Inductive pop : Type :=
| PSet (idx : Z)
| PCompact
| PGet (j : Z)
| PGet1 (j : Z)
| PSetUp (from to : Z)      (* for idx := from; idx < to; idx++ { Set(idx) } *)
| PSetDown (from to : Z).   (* for idx := to-1; idx >= from; idx-- { Set(idx) } *)

(** the set of indices set so far *)
Definition hist := list (Z * Z).

Definition memH (H : hist) (j : Z) : bool :=
  existsb (fun iv => (fst iv <=? j) && (j <? snd iv)) H.

(** "bit j is 1": below the initial offset, or set at some time *)
Definition member (o : Z) (H : hist) (j : Z) : bool := (j <? o) || memH H j.

Definition abs_step (H : hist) (p : pop) : hist :=
  match p with
  | PSet idx => (idx, idx + 1) :: H
  | PSetUp f t => (f, t) :: H
  | PSetDown f t => (f, t) :: H
  | PCompact | PGet _ | PGet1 _ => H
  end.

(** [a; a+1; ...; a+n-1] *)
Fixpoint zrange (a : Z) (n : nat) : list Z :=
  match n with O => [] | S k => a :: zrange (a + 1) k end.

Fixpoint bools_eqb (a b : list bool) : bool :=
  match a, b with
  | [], [] => true
  | x :: a', y :: b' => Bool.eqb x y && bools_eqb a' b'
  | _, _ => false
  end.

Fixpoint zs_eqb (a b : list Z) : bool :=
  match a, b with
  | [] , [] => true
  | x :: a', y :: b' => (x =? y) && zs_eqb a' b'
  | _, _ => false
  end.

(** every stored bit is membership: the bit sequence of Words, read from
    position Offset on, is the characteristic sequence of the set *)
Definition stored_ok (o : Z) (H : hist) (off : Z) (ws : list Z) : bool :=
  bools_eqb (flat ws) (map (member o H) (zrange off (64 * length ws))).

Definition all_ones_word : Z := 2^64 - 1.

(** what Get / Get1 must return *)
Definition spec_Get1 (o : Z) (H : hist) (j : Z) : Z := Z.b2z (member o H j).
Definition spec_Get (o : Z) (H : hist) (j : Z) : Z := Z.shiftl (Z.b2z (member o H j)) (j mod 64).

Definition changes_set (p : pop) : bool :=
  match p with PSet _ | PSetUp _ _ | PSetDown _ _ => true | _ => false end.

Definition head_okb (ws : list Z) : bool :=
  match ws with w :: _ => negb (w =? all_ones_word) | [] => true end.

(** one call: [prev] = exported state before it, [H'] = the set after it,
    [ob] = (Offset, Words, result) after it.  [strict] says whether the clause "the first stored
    word is not all-ones" is required (always, for histories that start from NewTailBitmap). *)
Definition check_step_gen (strict : bool) (o : Z) (prev : Z * list Z) (H' : hist) (p : pop)
           (ob : Z * list Z * Z) : bool :=
  let '(off, ws, r) := ob in
  let '(poff, pws) := prev in
  let pend := poff + 64 * zlen pws in
  let end' := off + 64 * zlen ws in
  (off mod 64 =? 0)
  && (poff <=? off)
  && forallb (member o H') (zrange poff (Z.to_nat (off - poff)))
  && (negb strict || head_okb ws)
  && (pend <=? end')
  && (if negb (changes_set p) && (off =? poff) && zs_eqb ws pws then true
      else stored_ok o H' off ws)
  && match p with
     | PSet idx => (idx <? end') && (r =? 0)
     | PSetUp f t => ((t <=? f) || (t <=? end')) && (r =? 0)
     | PSetDown f t => ((t <=? f) || (t <=? end')) && (r =? 0)
     | PCompact => (end' =? pend) && (r =? 0)
     | PGet j => r =? spec_Get o H' j
     | PGet1 j => r =? spec_Get1 o H' j
     end.

Definition check_step := check_step_gen true.

(** a whole history *)
Fixpoint check_run (o : Z) (prev : Z * list Z) (H : hist) (ps : list pop)
         (obs : list (Z * list Z * Z)) : bool :=
  match ps, obs with
  | [], [] => true
  | p :: ps', ob :: obs' =>
      let H' := abs_step H p in
      check_step o prev H' p ob
      && check_run o (fst (fst ob), snd (fst ob)) H' ps' obs'
  | _, _ => false
  end.

(** the history starts from NewTailBitmap(o): Offset = o, no words, nothing set *)
Definition check_history (o : Z) (ps : list pop) (obs : list (Z * list Z * Z)) : bool :=
  check_run o (o, []) [] ps obs.

(** ---- histories that start from a struct literal TailBitmap{Offset: off, Words: ws} ----

    The set starts as the bits stored in the literal.  The first word of a literal may be all-ones;
    the head clause is required after every Compact and every Set into the first stored word, and
    from the first observation in which it holds on (it is stable). *)
(** the maximal runs of 1-bits of a bit sequence that starts at position [base], as intervals
    ([cur] = start of the run being read) *)
Fixpoint runs (base : Z) (bs : list bool) (cur : option Z) : hist :=
  match bs with
  | [] => match cur with Some a => [(a, base)] | None => [] end
  | true :: t => runs (base + 1) t (match cur with Some a => Some a | None => Some base end)
  | false :: t =>
      match cur with
      | Some a => (a, base) :: runs (base + 1) t None
      | None => runs (base + 1) t None
      end
  end.

Definition hist_of_words (off : Z) (ws : list Z) : hist := runs off (flat ws) None.

(** calls after which the first stored word cannot be all-ones: Compact, and a Set into the first
    stored word (it runs Compact) *)
Definition touches_head (poff : Z) (p : pop) : bool :=
  match p with
  | PCompact => true
  | PSet idx => (poff <=? idx) && (idx <? poff + 64)
  | _ => false
  end.

Fixpoint check_run_lit (st : bool) (o : Z) (prev : Z * list Z) (H : hist) (ps : list pop)
         (obs : list (Z * list Z * Z)) : bool :=
  match ps, obs with
  | [], [] => true
  | p :: ps', ob :: obs' =>
      let H' := abs_step H p in
      let st_now := st || touches_head (fst prev) p in
      check_step_gen st_now o prev H' p ob
      && check_run_lit (st_now || head_okb (snd (fst ob))) o (fst (fst ob), snd (fst ob)) H' ps' obs'
  | _, _ => false
  end.

Definition check_literal (off : Z) (ws : list Z) (ps : list pop) (obs : list (Z * list Z * Z)) : bool :=
  check_run_lit (head_okb ws) off (off, ws) (hist_of_words off ws) ps obs.

(** ---- the exported Words read with the plain bitmap functions ----

    After a history, for a position j >= Offset and i = j - Offset: TailBitmap.Get(j), bitmap.Get(Words, i)
    and bitmap.SafeGet(Words, i) are all "membership of j, at bit j mod 64"; the Get1 forms are membership
    in the lowest bit.  An entry of two values claims that j is at or past the end of Words (where Get
    panics): then j is not a member and the Safe forms return 0. *)
Definition hist_after (H : hist) (ps : list pop) : hist := fold_left abs_step ps H.

Definition spec_words_entry (o : Z) (H : hist) (j : Z) (e : list Z) : bool :=
  let b := Z.b2z (member o H j) in
  let g := Z.shiftl b (j mod 64) in
  match e with
  | [a1; a2; a3; a4; a5; a6] =>
      (a1 =? g) && (a2 =? g) && (a3 =? b) && (a4 =? b) && (a5 =? g) && (a6 =? b)
  | [a5; a6] => negb (member o H j) && (a5 =? 0) && (a6 =? 0)
  | _ => false
  end.

Fixpoint check_words (o : Z) (H : hist) (js : list Z) (es : list (list Z)) : bool :=
  match js, es with
  | [], [] => true
  | j :: js', e :: es' => spec_words_entry o H j e && check_words o H js' es'
  | _, _ => false
  end.

(** ---- two TailBitmaps alive in one process, calls interleaved (op bitmap.TailBitmap/pair) ----

    Each call names the object it goes to ([false] = A, [true] = B).  The two objects are independent:
    the calls and observations of each object, taken alone, must be an acceptable history of
    NewTailBitmap(oA) resp. NewTailBitmap(oB). *)
Definition sel {A} (w : bool) (l : list (bool * A)) : list A :=
  map snd (filter (fun x => Bool.eqb (fst x) w) l).

Definition check_pair (oa ob : Z) (cs : list (bool * pop)) (obs : list (Z * list Z * Z)) : bool :=
  (length cs =? length obs)%nat
  && check_history oa (sel false cs) (sel false (combine (map fst cs) obs))
  && check_history ob (sel true cs) (sel true (combine (map fst cs) obs)).
