(** C10's own vocabulary: how a node is rendered, and what the single-node
    observation (word, PathLen, PathHeight, PathBits, PathMask, PathStr) must
    satisfy.  The node vocabulary itself ([node], [enc], [valL], [pre_lt]) is
    in Spec/Bmtree.v. *)
From Coq Require Import ZArith List Bool.
From Low Require Import Lib.Bits Lib.BitSeq Lib.Lex Lib.Bytes Spec.Bmtree.
Import ListNotations.
Open Scope Z_scope.

(** '0' / '1' *)
Definition bitchar (b : bool) : Z := if b then 49 else 48.
(** the node as text: its bits, root first; "" for the root *)
Definition node_str (q : node) : list Z := map bitchar q.

(** [obs_ok h q w pl ph pb pm ps]: the six observations made on the word [w]
    built for node [q] in a tree of height [h] are what the property demands *)
Definition fields_ok (h : Z) (q : node) (w pl ph pb pm : Z) (ps : list Z) : bool :=
  (pl =? zlen q) &&
  (if 1 <=? zlen q then ph =? h else true) &&
  (pb =? w / 2 ^ 32) &&
  (pm =? w mod 2 ^ 32) &&
  (if list_eq_dec Z.eq_dec ps (node_str q) then true else false).

(** numeric order of two words = pre-order of their nodes *)
Definition order_ok (q1 q2 : node) (w1 w2 : Z) : bool :=
  match Z.compare w1 w2, bits_cmp q1 q2 with
  | Lt, Lt | Eq, Eq | Gt, Gt => true
  | _, _ => false
  end.
