(** C09 widened: sequences of calls and aliased arguments, in the property's words.
    Results of New are values: what a caller does to one returned slice must not
    change any later result; a key that is a byte prefix of an encoding's own
    buffer compares like any other key with those bytes. *)
From Coq Require Import ZArith List Bool.
From Low Require Import Lib.Bits Lib.BitSeq Lib.Bytes Lib.Lex Lib.Pack_bw Spec.BitstrSpec.
Import ListNotations.
Open Scope Z_scope.

Definition range := (list Z * Z * Z)%type.
Definition range_bits (r : range) : list bool := let '(s, f, t) := r in B s f t.

(** a session: every range is encoded in turn; each step shows the encoding, its Len and its
    Cmp with (a pristine copy of) the previous step's encoding (the first step: with itself) *)
Fixpoint session_spec (prev : option (list bool)) (rs : list range) : list (list Z * Z * Z) :=
  match rs with
  | [] => []
  | r :: rs' =>
      let b := range_bits r in
      let p := match prev with Some p => p | None => b end in
      (encB b, zlen b, cmp_sign (bits_cmp b p)) :: session_spec (Some b) rs'
  end.

(** the key is the first k bytes of the encoding itself: a proper byte prefix of the payload sorts
    first, the whole payload (with or without the mask byte) matches *)
Definition self_prefix_spec (b : list bool) (k : nat) : Z :=
  if (k <? length (pack b))%nat then -1 else 0.

Definition alias_spec (b : list bool) : list Z :=
  map (self_prefix_spec b) (seq 0 (S (length (encB b)))).
