(** C05, widened: what users combine IndexToPath with.
    - the accessors of the path word (PathLen, PathHeight, PathBits, PathMask,
      PathStr — C10's functions) applied to IndexToPath's result: they must
      describe the idx-th node of the pre-order;
    - the numeric order of IndexToPath's results = the order of the indices
      (index order is pre-order);
    - PathToIndexLoose on a full tree (every level is stored: has = 1). *)
From Coq Require Import ZArith List Bool.
From Low Require Import Lib.Bits Lib.BitSeq Lib.Lex Lib.Bytes Spec.Bmtree Spec.PathSpec Spec.IndexToPathSpec.
Import ListNotations.
Open Scope Z_scope.

(** the idx-th node of the full tree of height h: enumerated for small h *)
Definition spec_node (h : nat) (idx : Z) : node :=
  if (h <=? enum_max)%nat then enum_node_at h idx else node_at h idx.

(** [PathLen, PathHeight, PathBits, PathMask, PathStr] of the idx-th node's word;
    the root's word is 0 for every height, so its PathHeight is 0 *)
Definition spec_fields (h : nat) (idx : Z) : Z * Z * Z * Z * list Z :=
  let q := spec_node h idx in
  (zlen q, if (1 <=? zlen q) then Z.of_nat h else 0, valL h q,
   Mask (zlen q) * 2 ^ (Z.of_nat h - zlen q), node_str q).

(** the sign of comparing the words of indices i and j *)
Definition spec_order (i j : Z) : Z := cmp_sign (i ?= j).

(** PathToIndexLoose on the full tree: (pre-order index, 1) *)
Definition spec_loose_full (h : nat) (q : node) : Z * Z :=
  ((if (h <=? enum_max)%nat then enum_rank h q else full_rank h q), 1).
