(** C01 in the property's own words: a bit-by-bit count. *)
From Coq Require Import ZArith List Bool.
From Low Require Import Lib.Bits Lib.BitSeq.
Import ListNotations.
Open Scope Z_scope.

(** entry k = number of 1-bits before position 64k; optional grand total *)
Definition spec_IndexRank64 (ws : list Z) (trailing : bool) : list Z :=
  map (fun k => rank1 (flat ws) (64 * k)) (seq 0 (length ws))
  ++ (if trailing then [rank1 (flat ws) (64 * length ws)] else []).

(** len(words)/2+1 entries, entry k = number of 1-bits before position 128k *)
Definition spec_IndexRank128 (ws : list Z) : list Z :=
  map (fun k => rank1 (flat ws) (128 * k)) (seq 0 (length ws / 2 + 1)).

(** (number of 1-bits at positions < i, value of bit i) *)
Definition spec_Rank (ws : list Z) (i : Z) : Z * Z :=
  (rank1z (flat ws) i, Z.b2z (bitz (flat ws) i)).
