(** Getw on any bitmap, in the property's own words: element [i] of width [w]
    is the number whose binary digits are the bits at positions [i*w, i*w+w). *)
From Coq Require Import ZArith List Bool.
From Low Require Import Lib.Bits Lib.BitSeq.
Import ListNotations.
Open Scope Z_scope.

(** value of a bit string, least significant bit first *)
Fixpoint val_lsb (l : list bool) : Z :=
  match l with [] => 0 | b :: t => Z.b2z b + 2 * val_lsb t end.

Definition window (bm : list Z) (i w : Z) : Z :=
  val_lsb (firstn (Z.to_nat w) (skipn (Z.to_nat (i * w)) (flat bm))).

(** [None]: the element lies (partly) outside the bitmap — Go panics *)
Definition spec_Getw_any (bm : list Z) (i w : Z) : option Z :=
  if (0 <=? i) && (i * w <? 64 * zlen bm) then Some (window bm i w) else None.

(** all elements of width [w] of a bitmap *)
Definition elements (bm : list Z) (w : Z) : list Z :=
  map (fun i => window bm (Z.of_nat i) w) (seq 0 (Z.to_nat (64 * zlen bm / w))).

Definition fits_i32 (x : Z) : bool := (- 2^31 <=? x) && (x <? 2^31).
