(** C01 widening, round c: sessions (many index builds in one process, returned indexes scribbled over by the
    caller) and concurrent index builds - in the naive vocabulary.  Bitmaps come run-length encoded; the bit counts
    are taken once per run and expanded (linear in the number of words). *)
From Coq Require Import ZArith List Bool.
From Low Require Import Lib.Bits Lib.BitSeq Spec.RankLawsSpec.
Import ListNotations.
Open Scope Z_scope.

(** [(count, word)] runs to words (the same function as Model.RankOps.expand_rle, stated here for the vocabulary) *)
Definition expand_runs (runs : list (Z * Z)) : list Z :=
  concat (map (fun p => repeat (snd p) (Z.to_nat (fst p))) runs).

(** the per-word bit counts of a run-length encoded bitmap: one count per run, repeated *)
Definition run_counts (runs : list (Z * Z)) : list Z :=
  expand_runs (map (fun p => (fst p, pop1 (snd p))) runs).

(** the index of flavour [f]: running sums of the bit counts without / with the total, or every other one *)
Definition spec_index_of_counts (f : flavour) (counts : list Z) : list Z :=
  let p := psums counts 0 in
  match f with
  | F64 false => removelast p
  | F64 true => p
  | F128 => evens p
  end.

Definition spec_index_rle (f : flavour) (runs : list (Z * Z)) : list Z :=
  spec_index_of_counts f (run_counts runs).

(** every [s]-th element, then the last one *)
Definition sample_every (s : nat) (l : list Z) : list Z :=
  map (fun k => nth (k * s) l 0) (seq 0 ((length l + s - 1) / s)) ++ [last l 0].
