(** Specification vocabulary of C20: the structural sum of a value.

    The value tree is FLATTENED into the list of its scalar leaves and the list
    of its container nodes (pre-order); the structural sum is the sum of the
    widths of the former plus the sum of the headers of the latter.  This is a
    fold over two flat lists, not the recursion of [sizeof]: there is no running
    sum, no per-level header, no option/panic.

    No proofs in this file. *)
From Coq Require Import ZArith List Bool.
From Low Require Import Model.Size.
Import ListNotations.
Open Scope Z_scope.

(** container kinds *)
Inductive ckind : Type := CString | CSlice | CMap | CPtr | CIface | CArray | CStruct.

(** the header a container node costs on a 64-bit platform
    (statement of C20: 16, 24, 8, 8, 16; arrays and structs: the plain sum) *)
Definition header (c : ckind) : Z :=
  match c with
  | CString => 16
  | CSlice => 24
  | CMap => 8
  | CPtr => 8
  | CIface => 16
  | CArray => 0
  | CStruct => 0
  end.

(** the fixed width of a scalar in bytes (written by bit width, independently
    of the model's [type_size]; int, uint and uintptr are 64-bit) *)
Definition bits_of (k : skind) : Z :=
  match k with
  | KBool => 8
  | KInt8 | KUint8 => 8
  | KInt16 | KUint16 => 16
  | KInt32 | KUint32 | KFloat32 => 32
  | KInt64 | KUint64 | KFloat64 | KComplex64 => 64
  | KInt | KUint | KUintptr => 64
  | KComplex128 => 128
  end.
Definition width (k : skind) : Z := bits_of k / 8.

(** scalar leaves, pre-order; a string contributes one uint8 leaf per byte *)
Fixpoint leaves (v : value) : list skind :=
  match v with
  | VScalar k => [k]
  | VString bs => map (fun _ => KUint8) bs
  | VSlice None => []
  | VSlice (Some l) => flat_map leaves l
  | VArray l => flat_map leaves l
  | VMap kvs => flat_map (fun kv => let '(k, x) := kv in leaves k ++ leaves x) kvs
  | VPtr None => []
  | VPtr (Some x) => leaves x
  | VIface None => []
  | VIface (Some x) => leaves x
  | VStruct fs => flat_map leaves fs
  | VOther => []
  end.

(** container nodes, pre-order *)
Fixpoint containers (v : value) : list ckind :=
  match v with
  | VScalar _ => []
  | VString _ => [CString]
  | VSlice None => [CSlice]
  | VSlice (Some l) => CSlice :: flat_map containers l
  | VArray l => CArray :: flat_map containers l
  | VMap kvs => CMap :: flat_map (fun kv => let '(k, x) := kv in containers k ++ containers x) kvs
  | VPtr None => [CPtr]
  | VPtr (Some x) => CPtr :: containers x
  | VIface None => [CIface]
  | VIface (Some x) => CIface :: containers x
  | VStruct fs => CStruct :: flat_map containers fs
  | VOther => []
  end.

Definition zsum (l : list Z) : Z := fold_right Z.add 0 l.

(** THE STRUCTURAL SUM *)
Definition spec_size (v : value) : Z :=
  zsum (map width (leaves v)) + zsum (map header (containers v)).

(** size.Of on an interface argument: nil -> 0 *)
Definition spec_Of (data : option value) : Z :=
  match data with None => 0 | Some v => spec_size v end.

(** first line of Stat: no number for nil, the structural sum otherwise *)
Definition spec_StatFirst (data : option value) : option Z :=
  match data with None => None | Some v => Some (spec_size v) end.

(** the domain of C20: values built from the supported kinds only
    (no chan / func / unsafe.Pointer anywhere in the tree) *)
Fixpoint supportedb (v : value) : bool :=
  match v with
  | VScalar _ => true
  | VString _ => true
  | VSlice None => true
  | VSlice (Some l) => forallb supportedb l
  | VArray l => forallb supportedb l
  | VMap kvs => forallb (fun kv => let '(k, x) := kv in supportedb k && supportedb x) kvs
  | VPtr None => true
  | VPtr (Some x) => supportedb x
  | VIface None => true
  | VIface (Some x) => supportedb x
  | VStruct fs => forallb supportedb fs
  | VOther => false
  end.
Definition supported (v : value) : Prop := supportedb v = true.
