(** C02 on very large bitmaps: a LINEAR-time, memory-light way of computing the specification values
    (one pass over the words carrying the running count; next-one lookup by scanning forward), used by the
    run-length-encoded protocol operations.  Proofs/SelectLin.v proves it equal to [spec_Select] /
    [spec_IndexSelect32] (hence, by C02_Select32 / C02_IndexSelect32, to the model's output on the domain).
    No proofs here. *)
From Coq Require Import ZArith List Bool.
From Low Require Import Lib.Bits Lib.BitSeq.
Import ListNotations.
Open Scope Z_scope.

(** run-length encoded bitmaps [(count, word)], expanded the same way on the Go side *)
Definition c02_expand_rle (runs : list (Z * Z)) : list Z :=
  concat (map (fun p => repeat (snd p) (Z.to_nat (fst p))) runs).

(** the bits of a word by shifting (linear in the width; [bits] tests every bit separately) *)
Fixpoint bits_fast (n : nat) (z : Z) : list bool :=
  match n with
  | O => []
  | S k => Z.odd z :: bits_fast k (Z.div2 z)
  end.

(** offsets of the 1-bits inside one word, ascending *)
Definition word_ones (w : Z) : list Z := ones_from 0 (bits_fast 64 w).

(** first 1-bit of the words [ws] standing at bit position [base]; [dflt] when there is none *)
Fixpoint lin_next (ws : list Z) (base dflt : Z) : Z :=
  match ws with
  | [] => dflt
  | w :: t => if w =? 0 then lin_next t (base + 64) dflt
              else match word_ones w with
                   | x :: _ => base + x
                   | [] => lin_next t (base + 64) dflt
                   end
  end.

(** the [i]-th 1-bit from [base] on and the one after it ([dflt] when it is the last): whole words are skipped
    by their bit count, only the word that holds the answer is taken apart *)
Fixpoint lin_sel (ws : list Z) (base i dflt : Z) : option (Z * Z) :=
  match ws with
  | [] => None
  | w :: t =>
      let c := popcount w in
      if c <=? i then lin_sel t (base + 64) (i - c) dflt
      else
        let os := word_ones w in
        Some (base + nth (Z.to_nat i) os 0,
              match skipn (S (Z.to_nat i)) os with
              | x :: _ => base + x
              | [] => lin_next t (base + 64) dflt
              end)
  end.

(** [None]: i outside [0, number of 1-bits) *)
Definition lin_Select (ws : list Z) (i : Z) : option (Z * Z) :=
  if i <? 0 then None else lin_sel ws 0 i (64 * zlen ws).

(** every 32nd element, [r] to go before the next one is taken; returns the counter for what follows *)
Fixpoint pick32r (r : nat) (l : list Z) : list Z * nat :=
  match l with
  | [] => ([], r)
  | x :: t => match r with
              | O => let (p, r') := pick32r 31 t in (x :: p, r')
              | S r' => pick32r r' t
              end
  end.

(** a word with no more 1-bits than are still to be skipped contributes no checkpoint *)
Fixpoint lin_idx (ws : list Z) (base : Z) (r : nat) : list Z :=
  match ws with
  | [] => []
  | w :: t =>
      let c := Z.to_nat (popcount w) in
      if (c <=? r)%nat then lin_idx t (base + 64) (r - c)
      else let (p, r') := pick32r r (word_ones w) in map (Z.add base) p ++ lin_idx t (base + 64) r'
  end.

Definition lin_IndexSelect32 (ws : list Z) : list Z := lin_idx ws 0 0.

(** compact rendering of a long index: first differences (from 0), run-length encoded [(count, delta)] *)
Fixpoint c02_deltas (prev : Z) (l : list Z) : list Z :=
  match l with [] => [] | x :: t => (x - prev) :: c02_deltas x t end.

Fixpoint c02_rle (l : list Z) : list (Z * Z) :=
  match l with
  | [] => []
  | x :: t => match c02_rle t with
              | (c, y) :: r => if x =? y then (c + 1, y) :: r else (1, x) :: (c, y) :: r
              | [] => [(1, x)]
              end
  end.

Definition c02_index_rle (idx : list Z) : list (Z * Z) := c02_rle (c02_deltas 0 idx).
