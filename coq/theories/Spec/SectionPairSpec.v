(** Two sections (o1, n1), (o2, n2) of one underlying writer: two independent
    cursors; a call moves only the cursor of the section it is addressed to.
    No proofs here. *)
From Coq Require Import ZArith List Bool.
From Low Require Import Lib.BitSeq Spec.SectionWriterSpec.
Import ListNotations.
Open Scope Z_scope.

Definition astep2 (o1 n1 o2 n2 : Z) (ps : Z * Z) (sc : list (Z * Z)) (wc : Z * acall)
  : (Z * Z) * list (Z * Z) * aout :=
  if fst wc =? 0
  then let '(p', sc', r) := astep o1 n1 (fst ps) sc (snd wc) in ((p', snd ps), sc', r)
  else let '(p', sc', r) := astep o2 n2 (snd ps) sc (snd wc) in ((fst ps, p'), sc', r).

Fixpoint arun2 (o1 n1 o2 n2 : Z) (ps : Z * Z) (sc : list (Z * Z)) (wcs : list (Z * acall)) : list aout :=
  match wcs with
  | [] => []
  | wc :: t => let '(ps', sc', r) := astep2 o1 n1 o2 n2 ps sc wc in r :: arun2 o1 n1 o2 n2 ps' sc' t
  end.

Definition spec_two_sections (o1 n1 o2 n2 : Z) (sc : list (Z * Z)) (wcs : list (Z * acall)) : list aout :=
  arun2 o1 n1 o2 n2 (0, 0) sc wcs.
