(** Rank / NextOne / PrevOne asked of a slice, answered from the original bitmap:
    counting and searching inside [Slice ws a b] is counting and searching inside
    the range [a, b) of [ws], with positions shifted by [a]. *)
From Coq Require Import ZArith List Bool.
From Low Require Import Lib.Bits Lib.BitSeq Spec.NextSpec.
Import ListNotations.
Open Scope Z_scope.

(** (number of 1-bits of ws in [a, a+j), bit a+j of ws) *)
Definition spec_SliceRank (ws : list Z) (a j : Z) : Z * Z :=
  (rank1z (flat ws) (a + j) - rank1z (flat ws) a, Z.b2z (bitz (flat ws) (a + j))).

Definition shift_down (a x : Z) : Z := if x =? -1 then -1 else x - a.

(** first / last 1-bit of ws in [a+j, b), as a position inside the slice; -1 if none *)
Definition spec_SliceNext (ws : list Z) (a b j : Z) : Z := shift_down a (spec_NextOne ws (a + j) b).
Definition spec_SlicePrev (ws : list Z) (a b j : Z) : Z := shift_down a (spec_PrevOne ws (a + j) b).

(** elements k .. m-1 of a list *)
Definition sublist (vs : list Z) (k m : Z) : list Z :=
  firstn (Z.to_nat (m - k)) (skipn (Z.to_nat k) vs).
