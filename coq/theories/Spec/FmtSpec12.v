(** bitmap.Fmt in the property's own words: every integer is shown as its bits, position 0
    first, '0'/'1', a space between groups of 8 bits, a comma between the integers of a slice. *)
From Coq Require Import ZArith List Bool.
From Low Require Import Lib.Bits Lib.BitSeq.
Import ListNotations.
Open Scope Z_scope.

Definition sdigit (b : bool) : Z := if b then 49 else 48.      (* '1' / '0' *)

Fixpoint sjoin (sep : list Z) (parts : list (list Z)) : list Z :=
  match parts with
  | [] => []
  | [p] => p
  | p :: rest => p ++ sep ++ sjoin sep rest
  end.

(** group k of an integer of [sz] bytes: bits 8k .. 8k+7 of its two's-complement bit sequence *)
Definition spec_group (sz : nat) (x : Z) (k : nat) : list Z :=
  map sdigit (firstn 8 (skipn (8 * k) (bits (8 * sz) x))).
Definition spec_int (sz : nat) (x : Z) : list Z := sjoin [32] (map (spec_group sz x) (seq 0 sz)).
(** [sz] in {1,2,4,8} = an integer kind; any other [sz] = not an integer type: panic, except for the
    empty slice (no element to format) *)
Definition int_kind (sz : Z) : bool := (sz =? 1) || (sz =? 2) || (sz =? 4) || (sz =? 8).
Definition spec_Fmt (sz : Z) (isslice : bool) (xs : list Z) : option (list Z) :=
  if int_kind sz then
    if isslice then Some (sjoin [44] (map (spec_int (Z.to_nat sz)) xs))
    else match xs with [x] => Some (spec_int (Z.to_nat sz) x) | _ => None end
  else if isslice then match xs with [] => Some [] | _ => None end else None.

(** the characters that are not separators *)
Definition is_sep (c : Z) : bool := (c =? 32) || (c =? 44).
Definition digits_of (s : list Z) : list Z := filter (fun c => negb (is_sep c)) s.
