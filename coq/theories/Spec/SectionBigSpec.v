(** The abstract cursor/length machine driven as in Model/SectionBig.v. No proofs here. *)
From Coq Require Import ZArith List Bool.
From Low Require Import Lib.BitSeq Spec.SectionWriterSpec.
Import ListNotations.
Open Scope Z_scope.

Definition apf_resp (F e : Z) (a len : Z) : list (Z * Z) :=
  if F <? 0 then [] else if a + len <=? F then [] else [(Z.max 0 (F - a), e)].

Definition astep_pf (o n F e : Z) (pos : Z) (c : acall) : Z * aout :=
  let '(_, _, dry) := astep o n pos [] c in
  let sc := match snd dry with (a, bs) :: _ => apf_resp F e a (zlen bs) | [] => [] end in
  let '(pos', _, r) := astep o n pos sc c in (pos', r).

Fixpoint arun_pf (o n F e : Z) (pos : Z) (cs : list acall) : list aout :=
  match cs with
  | [] => []
  | c :: t => let '(pos', r) := astep_pf o n F e pos c in r :: arun_pf o n F e pos' t
  end.

Definition aconcurrent (o n pos0 : Z) (pA : list Z) (oA : Z) (cB : acall) : aout * aout :=
  let '(pos, _, _) := astep o n 0 [] (ASeek pos0 0) in
  let '(_, _, rA) := astep o n pos [] (AWriteAt pA oA) in
  let '(_, _, rB) := astep o n pos [] cB in
  (rA, rB).
