(** C11, widened: what users of PathOf / PathsOf rely on when they build one trie
    level from a sorted key set.  Own vocabulary, naive; no proofs.

    - a path word read back with the C10 accessors (PathLen, PathHeight,
      PathBits, PathMask) gives the values FromStr32 returned;
    - on keys sorted in Go's string order that share their first [from] bits,
      PathsOf with dedup returns the SET of the keys' paths in strictly
      increasing numeric order (so "drop what equals the predecessor" removes
      every duplicate). *)
From Coq Require Import ZArith List Bool.
From Low Require Import Lib.Bits Lib.BitSeq Lib.Lex Lib.Bytes Spec.Bmtree Spec.FromStr32Spec.
Import ListNotations.
Open Scope Z_scope.

(** [PathLen, PathHeight, PathBits, PathMask] of PathOf s from h *)
Definition spec_PathOf_fields (s : list Z) (from h : Z) : list Z :=
  let r := spec_FromStr32 s from h in
  let k := fst r in
  [k; if 1 <=? k then h else 0; snd r; Mask k * 2 ^ (h - k)].

(** [r] holds between every element and its successor *)
Fixpoint adjacentb {A} (r : A -> A -> bool) (l : list A) : bool :=
  match l with
  | x :: ((y :: _) as t) => r x y && adjacentb r t
  | _ => true
  end.

Definition bytes_leb (a b : list Z) : bool := match bytes_cmp a b with Gt => false | _ => true end.
(** keys in Go's string order (duplicates allowed) *)
Definition keys_sortedb (keys : list (list Z)) : bool := adjacentb bytes_leb keys.

Fixpoint bits_eqb (a b : list bool) : bool :=
  match a, b with
  | [], [] => true
  | x :: a', y :: b' => Bool.eqb x y && bits_eqb a' b'
  | _, _ => false
  end.
(** all keys have the same first [from] bits *)
Definition same_prefixb (from : Z) (keys : list (list Z)) : bool :=
  match keys with
  | [] => true
  | s0 :: t => forallb (fun s => bits_eqb (firstn (Z.to_nat from) (msb_bits s))
                                          (firstn (Z.to_nat from) (msb_bits s0))) t
  end.

Definition strictly_incb (l : list Z) : bool := adjacentb Z.ltb l.
Definition memZ (x : Z) (l : list Z) : bool := existsb (Z.eqb x) l.

(** [obs] is strictly increasing and is, as a set, the set of the keys' paths *)
Definition sorted_paths_ok (keys : list (list Z)) (from h : Z) (obs : list Z) : bool :=
  strictly_incb obs &&
  forallb (fun s => memZ (spec_PathOf s from h) obs) keys &&
  forallb (fun p => memZ p (map (fun s => spec_PathOf s from h) keys)) obs.

(** consecutive windows compose (descending one trie level after another):
    FromStr32 over [from, from+w1) and [from+w1, from+w1+w2) against [from, from+w1+w2) *)
Definition split_ok (w1 w2 : Z) (r1 r2 r : Z * Z) : bool :=
  (fst r =? fst r1 + fst r2) && (snd r =? snd r1 * 2 ^ w2 + snd r2) &&
  (if fst r1 <? w1 then fst r2 =? 0 else true).
