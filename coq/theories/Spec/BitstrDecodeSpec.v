(** C09 widened: which byte strings are bitStr encodings, and the bit string one denotes. *)
From Coq Require Import ZArith List Bool.
From Low Require Import Lib.Bits Lib.BitSeq Lib.Bytes Lib.Lex Lib.Pack_bw Spec.BitstrSpec.
Import ListNotations.
Open Scope Z_scope.

(** the 8 mask bytes: k high bits set, k = 1..8 *)
Definition is_mask (m : Z) : bool := existsb (Z.eqb m) [128; 192; 224; 240; 248; 252; 254; 255].

(** well-formed encoding: bytes; the last one a mask byte; the bits of the last payload
    byte outside the mask are zero; without payload the mask is 0xff *)
Definition wf_enc (e : list Z) : bool :=
  match e with
  | [] => false
  | _ :: _ =>
      let m := last e 0 in
      let p := removelast e in
      bytes_okb e && is_mask m &&
      match p with
      | [] => m =? 255
      | _ :: _ => Z.land (last p 0) (255 - m) =? 0
      end
  end.

(** the bit string an encoding denotes: the payload bits, cut after the masked bits of the last payload byte *)
Definition decB (e : list Z) : list bool :=
  firstn (Z.to_nat (8 * zlen e - 16 + popcount (last e 0))) (msb_bits (removelast e)).
