(** The widened C18 vocabulary: reading a file as a stream from an offset, and
    what a file looks like after a section writer worked on it.  Unbounded
    integers, no int64.  No proofs here.

    stream reader from absolute offset o: a position pos >= 0 counted from o.
      Read len : at or beyond absolute 2^63-1 -> (0, io.EOF), the file is not
                 consulted.  Otherwise the file is asked for
                 min(len, 2^63-1 - (o+pos)) bytes at o + pos; count, bytes and
                 error are the file's; pos advances by the count.

    file image: the file after a call sequence is the initial file with, for
    every call that reached it, the accepted prefix of the bytes stored at the
    call's absolute offset (zero-filling any gap). *)
From Coq Require Import ZArith List Bool.
From Low Require Import Lib.BitSeq Spec.SectionWriterSpec.
Import ListNotations.
Open Scope Z_scope.

Definition A_eof : Z := 5.

(** a file is a byte list; [fread f script len a]: what ReadAt delivers *)
Definition fread (f : list Z) (script : list (Z * Z)) (len a : Z) : (list Z * Z) * list (Z * Z) :=
  let got := if a <? zlen f then firstn (Z.to_nat len) (skipn (Z.to_nat a) f) else [] in
  match script with
  | [] => ((got, if zlen got <? len then A_eof else A_nil), [])
  | (k, e) :: t => ((firstn (Z.to_nat (Z.min k (zlen got))) got, e), t)
  end.

(** result of one Read: count, error class, bytes, (absolute offset, length asked) *)
Definition arout : Type := (Z * Z * list Z * list (Z * Z))%type.

Definition sread (o : Z) (f : list Z) (pos : Z) (script : list (Z * Z)) (len : Z)
  : Z * list (Z * Z) * arout :=
  let a := o + pos in
  if a >=? max_int64 then (pos, script, (0, A_eof, [], []))
  else
    let m := Z.min len (max_int64 - a) in
    let '((bs, e), script') := fread f script m a in
    (pos + zlen bs, script', (zlen bs, e, bs, [(a, m)])).

Fixpoint srun (o : Z) (f : list Z) (pos : Z) (script : list (Z * Z)) (lens : list Z) : list arout :=
  match lens with
  | [] => []
  | l :: t => let '(pos', script', r) := sread o f pos script l in r :: srun o f pos' script' t
  end.

Definition spec_at_to_reader (o : Z) (f : list Z) (script : list (Z * Z)) (lens : list Z) : list arout :=
  srun o f 0 script lens.

(** storing bytes in a file *)
Definition fstore (f : list Z) (a : Z) (bs : list Z) : list Z :=
  match bs with
  | [] => f
  | _ => firstn (Z.to_nat a) (f ++ repeat 0 (Z.to_nat (a - zlen f))) ++ bs ++ skipn (Z.to_nat (a + zlen bs)) f
  end.

Definition fapply (f : list Z) (r : aout) : list Z :=
  fold_left (fun f u => fstore f (fst u) (firstn (Z.to_nat (nth 0 (fst r) 0)) (snd u))) (snd r) f.

Definition spec_file_after (init : list Z) (outs : list aout) : list Z := fold_left fapply outs init.
