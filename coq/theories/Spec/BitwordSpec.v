(** C08 in the property's own words: the n-bit words of a string are the
    consecutive n-bit chunks of its bit string (most significant bit first),
    each read as a binary numeral. *)
From Coq Require Import ZArith List Bool.
From Low Require Import Lib.Bits Lib.BitSeq Lib.Bytes Lib.Pack_bw.
Import ListNotations.
Open Scope Z_scope.

(** word i = value of bits [i*n, (i+1)*n) of s; there are 8|s|/n of them *)
Definition spec_FromStr (n : nat) (s : list Z) : list Z :=
  map val_msb (chunks n (msb_bits s)).

Definition spec_Get (n : nat) (s : list Z) (i : Z) : option Z := nthZ (spec_FromStr n s) i.

(** the words written MSB-first, n bits each, one after the other, zero-padded
    to a whole number of bytes *)
Definition spec_ToStr (n : nat) (ws : list Z) : list Z :=
  pack (flat_map (to_bits n) ws).

Definition word_eqb (wa wb : list Z) (i : Z) : bool :=
  match nthZ wa i, nthZ wb i with
  | Some x, Some y => x =? y
  | _, _ => false
  end.

(** smallest word index in [from, lim) at which a and b differ, or lim;
    lim = min(end', words(a), words(b)), end' = words(a) when end = -1 *)
Definition spec_FirstDiff (n : nat) (a b : list Z) (from end_ : Z) : Z :=
  let wa := spec_FromStr n a in
  let wb := spec_FromStr n b in
  let end' := if end_ =? -1 then zlen wa else end_ in
  let lim := Z.min end' (Z.min (zlen wa) (zlen wb)) in
  match find (fun i => negb (word_eqb wa wb i)) (map (fun k => from + k) (zrange (lim - from))) with
  | Some i => i
  | None => lim
  end.

Definition spec_FromStrs (n : nat) (strs : list (list Z)) : list (list Z) := map (spec_FromStr n) strs.
Definition spec_ToStrs (n : nat) (wss : list (list Z)) : list (list Z) := map (spec_ToStr n) wss.

(** words in range for width n *)
Definition words_in (n : nat) (ws : list Z) : Prop := Forall (fun w => 0 <= w < 2 ^ Z.of_nat n) ws.
Definition words_inb (n : nat) (ws : list Z) : bool := forallb (fun w => (0 <=? w) && (w <? 2 ^ Z.of_nat n)) ws.
