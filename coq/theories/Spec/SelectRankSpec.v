(** C02, widened: select composed with rank, in the property's own words.
    "The first 1-bit at or after position [p], and the 1-bit after that" — by filtering
    the ascending list of 1-positions; nothing else. *)
From Coq Require Import ZArith List Bool.
From Low Require Import Lib.Bits Lib.BitSeq Spec.RankSpec Spec.SelectSpec.
Import ListNotations.
Open Scope Z_scope.

(** (first 1-bit at position >= p, the next 1-bit after it or 64*len(words));
    (64*len, 64*len) when no 1-bit is at or after p (outside the domain of the composite) *)
Definition spec_SelectFrom (ws : list Z) (p : Z) : Z * Z :=
  match filter (fun q => p <=? q) (all_ones ws) with
  | a :: b :: _ => (a, b)
  | [a] => (a, 64 * zlen ws)
  | [] => (64 * zlen ws, 64 * zlen ws)
  end.

(** is there a 1-bit at or after [p]? *)
Definition has_one_from (ws : list Z) (p : Z) : bool :=
  existsb (fun q => p <=? q) (all_ones ws).
