(** C17, widening: the part of [shard_spec] that does not speak about the order
    of the prefixes -- what ShardByPrefix still guarantees for a key list that is
    NOT sorted (any order, repeated keys).  No proofs in this file. *)
From Coq Require Import ZArith List Bool.
From Low Require Import Lib.BitSeq Lib.Lex Lib.Bytes Spec.SigbitsSpec.
Import ListNotations.
Open Scope Z_scope.

Definition shard_spec_unordered (keys : list (list Z)) (maxSize : Z) (L B : list Z) : Prop :=
  let k := length L in
  length B = S k /\
  nth 0 B 0 = 0 /\ nth k B 0 = zlen keys /\
  (forall j, (j < k)%nat ->
     nth j B 0 < nth (S j) B 0 /\
     nth (S j) B 0 - nth j B 0 <= maxSize /\
     nth j L 0 = zlen (lcp_all (sub_keys keys (nth j B 0) (nth (S j) B 0)))).
