(** C12 widening: what rank / next-one / previous-one queries return on a bitmap BUILT by Of,
    OfMany or a Builder, said in terms of the position list alone (no bitmap in sight). *)
From Coq Require Import ZArith List Bool.
From Low Require Import Lib.Bits Lib.BitSeq Spec.OfSpec.
Import ListNotations.
Open Scope Z_scope.

Definition count_below (s : list Z) (i : Z) : Z := Z.of_nat (length (filter (fun p => p <? i) s)).
Definition member (s : list Z) (i : Z) : bool := existsb (Z.eqb i) s.
Definition within (i e p : Z) : bool := (i <=? p) && (p <? e).
Definition first_within (s : list Z) (i e : Z) : Z := hd (-1) (filter (within i e) s).
Definition last_within (s : list Z) (i e : Z) : Z := last (filter (within i e) s) (-1).

(** (rank, bit) of Rank64 / Rank128 at i; NextOne / PrevOne on [i, e) — for the ascending positions [s] *)
Definition spec_query (s : list Z) (i e : Z) : (Z * Z) * (Z * Z) * Z * Z :=
  ((count_below s i, Z.b2z (member s i)), (count_below s i, Z.b2z (member s i)),
   first_within s i e, last_within s i e).

(** the number of bits of the bitmap Of(ps, n) (a multiple of 64) *)
Definition of_size (ps : list Z) (opt : option Z) : Z := 64 * words_for (of_bits ps opt).
Definition query_dom (ps : list Z) (opt : option Z) (i e : Z) : bool :=
  sortedb ps && nonnegb ps && (0 <=? i) && (i <=? e) && (e <=? of_size ps opt) && (i <? of_size ps opt) && (1 <=? e).

(** * Of on ANY position list (unsorted, negative, beyond the size its last element implies) *)
(** Of sizes the result from n and the LAST element only; it panics exactly when some position falls
    outside that many bits, and otherwise sets exactly the listed set of positions *)
Definition of_fits (ps : list Z) (opt : option Z) : bool :=
  forallb (fun p => (0 <=? p) && (p <? of_size ps opt)) ps.
Definition spec_Of_any (ps : list Z) (opt : option Z) (o : option (list Z)) : Prop :=
  if of_fits ps opt then exists r, o = Some r /\ spec_Of ps opt r else o = None.
Definition spec_Of_any_ok (ps : list Z) (opt : option Z) (o : option (list Z)) : bool :=
  match o with
  | Some r => of_fits ps opt && spec_Of_ok ps opt r
  | None => negb (of_fits ps opt)
  end.

(** * OfMany on its whole non-panic domain *)
(** non-negative sizes, every segment ascending (duplicates allowed) and non-negative, positions at or past
    the segment's size allowed in ANY segment (so the shifted concatenation need not be ascending), and the real
    code does not panic: every shifted position lies inside the bits allocated from the sum of the sizes and the
    last shifted position.  There OfMany ORs bits, so the result is the SET of shifted positions — what a Builder
    fed the same segments holds. *)
Definition ofmany_dom2 (subs : list (list Z)) (sizes : list Z) : bool :=
  (length subs =? length sizes)%nat && nonnegb sizes &&
  forallb (fun ps => sortedb ps && nonnegb ps) subs &&
  of_fits (shifted subs sizes 0) (Some (total sizes)).
