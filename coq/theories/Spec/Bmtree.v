(** Specification vocabulary shared by C03, C04, C05, C10, C11: binary-tree
    nodes as bit lists, pre-order, the level mask, the path-word encoding. *)
From Coq Require Import ZArith List Bool.
From Low Require Import Lib.Bits Lib.Lex Lib.Bytes.
Import ListNotations.
Open Scope Z_scope.

(** a node = its path from the root, [false] = left child *)
Definition node := list bool.

(** all nodes of depth <= h in pre-order (parent, left subtree, right subtree) *)
Fixpoint all_nodes (h : nat) : list node :=
  match h with
  | O => [[]]
  | S k => [] :: map (cons false) (all_nodes k) ++ map (cons true) (all_nodes k)
  end.

(** level mask T: bit l set <=> the nodes at depth l are stored *)
Definition stored (T : Z) (q : node) : bool := Z.testbit T (Z.of_nat (length q)).
Definition stored_nodes (T : Z) (h : nat) : list node := filter (stored T) (all_nodes h).

(** pre-order = lexicographic order, proper prefix (ancestor) first *)
Definition pre_lt (q r : node) : Prop := bits_cmp q r = Lt.
Definition pre_ltb (q r : node) : bool := match bits_cmp q r with Lt => true | _ => false end.

(** searching bits of q, left-aligned in h bits *)
Definition valL (h : nat) (q : node) : Z := val_msb q * 2 ^ (Z.of_nat h - Z.of_nat (length q)).
(** the path word: bits << 32 | Mask[|q|] << (h - |q|) *)
Definition enc (h : nat) (q : node) : Z :=
  valL h q * 2 ^ 32 + Mask (Z.of_nat (length q)) * 2 ^ (Z.of_nat h - Z.of_nat (length q)).

(** pre-order rank of q among the stored nodes *)
Definition pre_rank (T : Z) (h : nat) (q : node) : Z :=
  Z.of_nat (length (filter (fun r => pre_ltb r q) (stored_nodes T h))).
