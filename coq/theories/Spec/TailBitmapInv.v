(** C15, the Prop-level vocabulary of the theorems (no proofs here).

    [P : Z -> Prop] is "the index has been set so far"; [o] is the initial
    offset of NewTailBitmap(o).  Everything is said about the two exported
    fields [(off, ws) = (Offset, Words)] and with the shared bit-sequence
    vocabulary of Lib/BitSeq.v: bit [j] of the stored words is
    [bitz (flat ws) (j - off)]. *)
From Coq Require Import ZArith List Bool.
From Low Require Import Lib.Bits Lib.BitSeq.
Import ListNotations.
Open Scope Z_scope.

(** the end of the stored words: Offset + 64*len(Words) *)
Definition tb_end (off : Z) (ws : list Z) : Z := off + 64 * zlen ws.

(** the invariant of DESIGN section 6 / C15 *)
Record TInv (o : Z) (P : Z -> Prop) (off : Z) (ws : list Z) : Prop := mkTInv {
  (* Offset stays a multiple of 64 *)
  ti_align : off mod 64 = 0;
  (* Offset never goes below the initial offset *)
  ti_ge : o <= off;
  (* every stored word is a uint64 *)
  ti_words : words_ok ws;
  (* the first stored word is not all-ones *)
  ti_head : forall w t, ws = w :: t -> w <> 2^64 - 1;
  (* Offset never moved past a position that is still 0 *)
  ti_below : forall j, j < off -> j < o \/ P j;
  (* never forgets a set bit nor invents one *)
  ti_bits : forall j, off <= j < tb_end off ws -> (bitz (flat ws) (j - off) = true <-> P j);
  (* every index ever set is below the end of the stored words *)
  ti_end : forall j, P j -> j < tb_end off ws
}.

(** the same without the head clause: what holds along a history that starts from an arbitrary
    well-formed struct literal [TailBitmap{Offset: o, Words: ws0}] (its first word may be all-ones
    until the first word is touched or Compact runs) *)
Record TInvW (o : Z) (P : Z -> Prop) (off : Z) (ws : list Z) : Prop := mkTInvW {
  tw_align : off mod 64 = 0;
  tw_ge : o <= off;
  tw_words : words_ok ws;
  tw_below : forall j, j < off -> j < o \/ P j;
  tw_bits : forall j, off <= j < tb_end off ws -> (bitz (flat ws) (j - off) = true <-> P j);
  tw_end : forall j, P j -> j < tb_end off ws
}.

(** "the first stored word is not all-ones" *)
Definition head_okP (ws : list Z) : Prop := forall w t, ws = w :: t -> w <> 2^64 - 1.

(** the bits stored in a literal *)
Definition lit_set (off : Z) (ws : list Z) (j : Z) : Prop :=
  off <= j < tb_end off ws /\ bitz (flat ws) (j - off) = true.

(** "bit j is 1": below the initial offset, or set at some time *)
Definition is_member (o : Z) (P : Z -> Prop) (j : Z) : Prop := j < o \/ P j.
