(** C05's own vocabulary: the full binary tree of height h, its nodes in
    pre-order, the pre-order index of a node, the node at a pre-order index.
    Nodes, [all_nodes], [enc], [pre_rank] come from Spec/Bmtree.v.

    The property: IndexToPath h idx is the path word [enc h q] of a node q of
    the full tree of height h whose pre-order index is idx.  The checker used
    by the correspondence run decodes the observed word into a node, checks
    that the word is exactly that node's word (well-formedness) and that the
    node's pre-order index in the full tree is idx. *)
From Coq Require Import ZArith List Bool.
From Low Require Import Lib.Bits Lib.BitSeq Lib.Lex Lib.Bytes Spec.Bmtree.
Import ListNotations.
Open Scope Z_scope.

(** the level mask of the full tree of height h: all h+1 levels stored *)
Definition fullT (h : nat) : Z := 2 ^ (Z.of_nat h + 1) - 1.

(** pre-order index of node q in the full tree of height h, by recursion on
    the path: the root of the current subtree precedes, and when the path turns
    right so does the whole left subtree (2^h - 1 nodes) *)
Fixpoint full_rank (h : nat) (q : node) : Z :=
  match q with
  | [] => 0
  | b :: q' => 1 + (if b then 2 ^ Z.of_nat h - 1 else 0) + full_rank (h - 1) q'
  end.

(** the node at pre-order index idx of the full tree of height h (pure
    descent): index 0 is the root, [1, 2^h) the left subtree, [2^h, 2^(h+1)-1)
    the right subtree *)
Fixpoint node_at (h : nat) (idx : Z) : node :=
  match h with
  | O => []
  | S k =>
      if idx <=? 0 then []
      else if idx <? 2 ^ Z.of_nat (S k) then false :: node_at k (idx - 1)
      else true :: node_at k (idx - 2 ^ Z.of_nat (S k))
  end.

(** the enumerated pre-order, for small heights: the idx-th element of
    [all_nodes h] and the position of q in it *)
Definition enum_node_at (h : nat) (idx : Z) : node := nth (Z.to_nat idx) (all_nodes h) [].
Definition enum_rank (h : nat) (q : node) : Z := pre_rank (fullT h) h q.

(** decoding a word into the node it would be the word of: length = number of
    mask bits, bits = the top [length] of the h search bits *)
Definition dec (h : nat) (w : Z) : node :=
  let l := Z.to_nat (popcount (w mod 2 ^ 32)) in
  rev (bits l ((w / 2 ^ 32) / 2 ^ (Z.of_nat h - Z.of_nat l))).

(** [w] is the word of a node of the tree of height h *)
Definition wf_word (h : nat) (w : Z) : bool :=
  let q := dec h w in (length q <=? h)%nat && (enc h q =? w).

(** the height up to which the checker uses the enumerated pre-order *)
Definition enum_max : nat := 10.

(** what the checker evaluates: is [w] the word of a node of the full tree of
    height h whose pre-order index is idx *)
Definition check_index_to_path (h : nat) (idx w : Z) : bool :=
  wf_word h w &&
  (if (h <=? enum_max)%nat then enum_rank h (dec h w) =? idx
   else full_rank h (dec h w) =? idx).

(** the word the specification expects (the answer is unique) *)
Definition spec_index_to_path (h : nat) (idx : Z) : Z :=
  enc h (if (h <=? enum_max)%nat then enum_node_at h idx else node_at h idx).
