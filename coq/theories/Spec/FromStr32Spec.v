(** C11 in its own vocabulary: the bit string of a byte string (most
    significant bit of each byte first), a window of it, its value as a binary
    numeral, the path word [enc] of Spec/Bmtree.v.  Naive; no proofs. *)
From Coq Require Import ZArith List Bool.
From Low Require Import Lib.Bits Lib.BitSeq Lib.Bytes Spec.Bmtree.
Import ListNotations.
Open Scope Z_scope.

Definition clamp (x lo hi : Z) : Z := Z.max lo (Z.min x hi).

(** number of bits of s available in the window [from, from+w) *)
Definition spec_k (s : list Z) (from w : Z) : Z := clamp (8 * zlen s - from) 0 w.

(** [l] without its first [n] elements.  This is [skipn (Z.to_nat n) l] (lemma
    [dropZ_skipn] in Proofs/FromStr32Proofs.v; the property theorems are stated
    with [skipn]); written by recursion on the list so that the extracted
    checker does not build the unary number [Z.to_nat n] for a start bit near 2^31. *)
Fixpoint dropZ {A} (l : list A) (n : Z) : list A :=
  match l with
  | [] => []
  | _ :: t => if n <=? 0 then l else dropZ t (n - 1)
  end.

(** bits [from, from+k) of s *)
Definition sel_bits (s : list Z) (from k : Z) : list bool :=
  firstn (Z.to_nat k) (dropZ (msb_bits s) from).

(** FromStr32 s from (from+w): (k, the w-bit value whose top k bits are the
    selected bits and whose other bits are 0) *)
Definition spec_FromStr32 (s : list Z) (from w : Z) : Z * Z :=
  let k := spec_k s from w in
  (k, val_msb (sel_bits s from k ++ repeat false (Z.to_nat (w - k)))).

(** PathOf s from h: the path of length k and height h carrying those bits *)
Definition spec_PathOf (s : list Z) (from h : Z) : Z :=
  enc (Z.to_nat h) (sel_bits s from (spec_k s from h)).

(** a bit string rendered as '0'/'1' *)
Definition bit_chars (q : list bool) : list Z := map (fun b : bool => if b then 49 else 48) q.
Definition spec_PathStrOf (s : list Z) (from h : Z) : list Z :=
  bit_chars (sel_bits s from (spec_k s from h)).

(** drop every element equal to its predecessor *)
Fixpoint dedup_after (prev : Z) (l : list Z) : list Z :=
  match l with
  | [] => []
  | x :: t => if x =? prev then dedup_after x t else x :: dedup_after x t
  end.
Definition dedup_adjacent (l : list Z) : list Z :=
  match l with [] => [] | x :: t => x :: dedup_after x t end.

Definition spec_PathsOf (keys : list (list Z)) (from h : Z) (dedup : bool) : list Z :=
  let ps := map (fun s => spec_PathOf s from h) keys in
  if dedup then dedup_adjacent ps else ps.
