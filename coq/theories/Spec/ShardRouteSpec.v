(** C17, widening: the shard prefixes returned by ShardByPrefix used as a
    routing table (the way a sharded index looks a key up: upper-bound search
    over the sorted prefixes).  Naive and executable; no proofs in this file. *)
From Coq Require Import ZArith List Bool.
From Low Require Import Lib.BitSeq Lib.Lex Lib.Bytes Spec.SigbitsSpec.
Import ListNotations.
Open Scope Z_scope.

(** the prefix [keys[B[j]][:L[j]]] of shard [j] *)
Definition shard_prefix (keys : list (list Z)) (L B : list Z) (j : nat) : list Z :=
  firstn (Z.to_nat (nth j L 0)) (nth (Z.to_nat (nth j B 0)) keys []).

(** key [i] is at or above the prefix of shard [j] exactly when it lies at or after the
    start of shard [j] *)
Definition route_spec (keys : list (list Z)) (L B : list Z) : Prop :=
  forall i j, (i < length keys)%nat -> (j < length L)%nat ->
    (bytes_cmp (shard_prefix keys L B j) (nth i keys []) <> Gt <-> nth j B 0 <= Z.of_nat i).

(** a lookup: index of the last prefix that is not above the key (-1: none) *)
Definition leb_bytes (a b : list Z) : bool := match bytes_cmp a b with Gt => false | _ => true end.
Definition route (prefs : list (list Z)) (k : list Z) : Z :=
  zlen (filter (fun p => leb_bytes p k) prefs) - 1.

(** checker for observed lookups [R] of all keys: one entry per key, and key [i] lies in
    shard [R[i]], i.e. [B[R[i]] <= i < B[R[i]+1]] *)
Definition route_okb (n : Z) (B R : list Z) : bool :=
  (zlen R =? n) &&
  forallb (fun p =>
             let i := Z.of_nat (fst p) in
             match nthZ B (snd p), nthZ B (snd p + 1) with
             | Some lo, Some hi => (lo <=? i) && (i <? hi)
             | _, _ => false
             end)
          (combine (seq 0 (length R)) R).
