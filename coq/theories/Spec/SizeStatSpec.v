(** Specification vocabulary of the full report of size.Stat (C20 widening).

    The report is described WITHOUT the recursion on [depth] and without the
    early exits of the loops:

      1. [listing v] is the complete pre-order listing of the nodes of the
         labelled value: one entry per node (and one for the "<nil>" under a nil
         interface), carrying its nesting level, the item indices of the slice /
         array / map elements on the path to it, the label its parent gives it
         ("3: ", "key: ", "field: " or nothing under a pointer / interface);
      2. an entry is [visible] when its level is at most [depth] (any level for a
         negative depth) and every item index on its path is below [maxItem]
         (struct fields, pointees and dynamic values are not items);
      3. a visible entry is [render]ed on its own: 4 x level spaces, the label,
         the type, ": ", the STRUCTURAL SUM ([spec_size], Spec/SizeSpec.v) of the
         node, and the average when asked for.

    The report is the rendering of the visible entries, in listing order.

    No proofs in this file. *)
From Coq Require Import ZArith List Bool.
From Low Require Import Model.Size Model.SizeFmt Model.SizeStat Spec.SizeSpec.
Import ListNotations.
Open Scope Z_scope.

Record entry := {
  e_level : nat;
  e_idxs : list Z;            (* item indices on the path, innermost first *)
  e_label : list Z;
  e_node : option lvalue      (* None: the "<nil>" line under a nil interface *)
}.

Section Kids.
  Variable g : lvalue -> Z -> list Z -> list entry.   (* the listing of a child, given its index and its label *)
  Fixpoint kids_elems (l : list lvalue) (i : Z) : list entry :=
    match l with
    | [] => []
    | x :: t => g x i (dec i ++ s_colon) ++ kids_elems t (i + 1)
    end.
  Fixpoint kids_pairs (l : list (list Z * value * lvalue)) (i : Z) : list entry :=
    match l with
    | [] => []
    | (kt, _, x) :: t => g x i (kt ++ s_colon) ++ kids_pairs t (i + 1)
    end.
End Kids.

Fixpoint listing (v : lvalue) (level : nat) (idxs : list Z) (label : list Z) : list entry :=
  {| e_level := level; e_idxs := idxs; e_label := label; e_node := Some v |} ::
  match v with
  | LSlice _ (Some l) => kids_elems (fun x i lb => listing x (S level) (i :: idxs) lb) l 0
  | LArray _ l => kids_elems (fun x i lb => listing x (S level) (i :: idxs) lb) l 0
  | LMap _ kvs => kids_pairs (fun x i lb => listing x (S level) (i :: idxs) lb) kvs 0
  | LPtr _ (Some x) => listing x (S level) idxs []
  | LIface _ (Some x) => listing x (S level) idxs []
  | LIface _ None => [{| e_level := S level; e_idxs := idxs; e_label := []; e_node := None |}]
  | LStruct _ fs => flat_map (fun e => listing (snd e) (S level) idxs (fst e ++ s_colon)) fs
  | _ => []
  end.

Definition visible (depth maxItem : Z) (e : entry) : bool :=
  ((depth <? 0) || (Z.of_nat (e_level e) <=? depth)) && forallb (fun i => i <? maxItem) (e_idxs e).

Definition indent (level : nat) : list Z := concat (repeat s_indent level).

Definition render (o : sopt) (e : entry) : list Z :=
  indent (e_level e) ++ e_label e ++
  match e_node e with
  | None => s_nil
  | Some x => header_text o (ty_of x) (spec_size (erase x))
  end.

(** THE REPORT *)
Definition spec_lines (data : option lvalue) (depth maxItem : Z) (o : sopt) : list (list Z) :=
  match data with
  | None => [s_nil]
  | Some v => map (render o) (filter (visible depth maxItem) (listing v 0 [] []))
  end.

(** lines separated by a newline *)
Definition spec_join (lines : list (list Z)) : list Z :=
  match lines with
  | [] => []
  | h :: t => h ++ flat_map (fun s => 10 :: s) t
  end.
Definition spec_text (data : option lvalue) (depth maxItem : Z) (o : sopt) : list Z :=
  spec_join (spec_lines data depth maxItem o).

(** the domain: every node is of a supported kind *)
Definition lsupported (v : lvalue) : Prop := supported (erase v).

(** ---- determinism.  The entries of a map come in the order of [MapKeys()],
    which Go randomises.  A visible map entry EXPANDS (its elements are listed)
    when the depth allows one more level. *)
Definition expands (depth : Z) (e : entry) : bool :=
  (depth <? 0) || (Z.of_nat (e_level e) <? depth).

Definition maps_ok (p : Z -> bool) (data : option lvalue) (depth maxItem : Z) : bool :=
  match data with
  | None => true
  | Some v =>
      forallb (fun e => match e_node e with
                        | Some (LMap _ kvs) => negb (expands depth e) || (maxItem <=? 0) || p (Z.of_nat (length kvs))
                        | _ => true
                        end)
              (filter (visible depth maxItem) (listing v 0 [] []))
  end.
(** the text is determined: no expanded map has two entries or more *)
Definition det_text (data : option lvalue) (depth maxItem : Z) : bool :=
  maps_ok (fun n => n <=? 1) data depth maxItem.
(** the SET of lines is determined: every expanded map is listed completely *)
Definition det_lines (data : option lvalue) (depth maxItem : Z) : bool :=
  maps_ok (fun n => n <=? Z.max 1 maxItem) data depth maxItem.

(** byte-wise lexicographic order of strings (Go's [<] on strings, sort.Strings) *)
Fixpoint bytes_leb (a b : list Z) : bool :=
  match a, b with
  | [], _ => true
  | _ :: _, [] => false
  | x :: a', y :: b' => if x <? y then true else if y <? x then false else bytes_leb a' b'
  end.
Fixpoint insert_line (s : list Z) (l : list (list Z)) : list (list Z) :=
  match l with
  | [] => [s]
  | h :: t => if bytes_leb s h then s :: l else h :: insert_line s t
  end.
Definition sort_lines (l : list (list Z)) : list (list Z) := fold_right insert_line [] l.

(** variadic options: the report under the first option (none: the plain report); [None] = panic
    when the first option is not an Opt *)
Definition spec_opts (data : option lvalue) (depth maxItem : Z) (opts : list (option sopt)) : option (list Z) :=
  match hd_error opts with
  | None => Some (spec_text data depth maxItem no_opt)
  | Some (Some o) => Some (spec_text data depth maxItem o)
  | Some None => None
  end.
