(** C19 - vocabulary of the effect model that [harness/effects] regenerates from the Go source (SSA form)
    into [coq/gen/Effects.v] on every run (DESIGN section 4.3), and the boolean checkers that
    [Properties/C19.v] evaluates against the generated data.  No proofs here. *)
From Coq Require Import List String Bool.
Import ListNotations.
Open Scope string_scope.

(** one write to memory that is not provably fresh, attributed to a listed function ([w_entry]):
    the instruction is in [w_fn] at source position [w_pos] (file:line:column relative to the module),
    [w_kind] is Store / MapUpdate / Send / copy / append / delete / clear (or extcall:... / dyncall:... for a
    shared pointer handed to code the translator cannot see), [w_root] says where the written memory comes
    from (parameter / global / unknown call result), [w_chain] is the call chain from the entry. *)
Record swrite := {
  w_entry : string; w_fn : string; w_pos : string; w_kind : string; w_root : string; w_chain : string }.

(** facts about a function that writes a package-level variable (or calls, transitively, one that does) *)
Record finfo := {
  f_name : string; f_pos : string;
  f_is_init : bool;      (* a package initialiser: the synthetic [init] or a declared [func init()] *)
  f_exported : bool;     (* callable from outside the package *)
  f_addr_taken : bool;   (* used as a value (closure, method value, argument): may run at any time *)
  f_callers : list string }.

Definition mem_str (x : string) (l : list string) : bool := existsb (String.eqb x) l.
Definition subset_str (a b : list string) : bool := forallb (fun x => mem_str x b) a.

(** the functions C19 lists (the translator's names: module prefix stripped, methods as [pkg.T.M]) *)
Definition c19_listed : list string := [
  "bitmap.Rank64"; "bitmap.Rank128"; "bitmap.Select32"; "bitmap.Select32R64";
  "bitmap.NextOne"; "bitmap.PrevOne"; "bitmap.Slice"; "bitmap.ToArray"; "bitmap.Getw"; "bitmap.FromStr32";
  "bmtree.PathToIndex"; "bmtree.PathToIndexLoose"; "bmtree.IndexToPath"; "bmtree.AllPaths"; "bmtree.Decode";
  "bitstr.Cmp"; "bitstr.CmpUpto"; "bitstr.StrCmpUpto";
  "bitword.bitWord.FromStr"; "bitword.bitWord.FromStrs"; "bitword.bitWord.ToStr";
  "bitword.bitWord.ToStrs"; "bitword.bitWord.Get"; "bitword.bitWord.FirstDiff";
  "sigbits.FirstDiffBits"; "sigbits.ShardByPrefix"; "sigbits.SigBits.CountPrefixes" ].

(** the tables the statement names: they must be among the package-level variables the translator saw *)
Definition c19_tables : list string := [
  "bitmap.Mask"; "bitmap.RMask"; "bitmap.MaskUpto"; "bitmap.RMaskUpto"; "bitmap.Bit"; "bitmap.RBit";
  "bitmap.select8Lookup"; "bmtree.idxToPath"; "bitword.BitWord" ].

(** variables of other modules that the analysed functions may reference (read): the contract switch *)
Definition allowed_external_globals : list string := [ "github.com/openacid/must.Be" ].

(** [reachable] really is closed under the call edges and contains the entries *)
Definition closed_under_calls (entries reachable : list string) (calls : list (string * list string)) : bool :=
  subset_str entries reachable &&
  forallb (fun f => existsb (fun p => String.eqb (fst p) f) calls) reachable &&
  forallb (fun p => mem_str (fst p) reachable && subset_str (snd p) reachable) calls.

(** a function runs only during package initialisation: it is an initialiser, or it is unexported, never
    used as a value, and every caller runs only during initialisation *)
Fixpoint init_only (fuel : nat) (infos : list finfo) (f : string) : bool :=
  match fuel with
  | O => false
  | S k =>
      match find (fun i => String.eqb (f_name i) f) infos with
      | None => false
      | Some i => f_is_init i ||
                  (negb (f_exported i) && negb (f_addr_taken i) && forallb (init_only k infos) (f_callers i))
      end
  end.

Fixpoint assoc_str {A} (k : string) (l : list (string * A)) : option A :=
  match l with
  | [] => None
  | (k', v) :: t => if String.eqb k' k then Some v else assoc_str k t
  end.

(** every writer of the variable [g] runs only from init (a variable nobody writes is constant) *)
Definition written_only_from_init (infos : list finfo) (writers : list (string * list string)) (g : string) : bool :=
  match assoc_str g writers with
  | None => true
  | Some ws => forallb (init_only (S (List.length infos)) infos) ws
  end.
