(** C08, the same vocabulary read word by word: word i of s is the value of the
    n bits of s that start at bit i*n.  These definitions say the same as
    Spec/BitwordSpec.v (proved in Proofs/BitwordDirect.v) but cost time linear in
    the input, so the correspondence run can use them on strings of tens of
    kilobytes (offsets beyond 2^8 and 2^16), where cutting the whole bit string
    into [chunks] is quadratic. *)
From Coq Require Import ZArith List Bool.
From Low Require Import Lib.Bits Lib.BitSeq Lib.Bytes Lib.Pack_bw Spec.BitwordSpec.
Import ListNotations.
Open Scope Z_scope.

(** number of n-bit words of s *)
Definition nwords (n : nat) (s : list Z) : Z := 8 * zlen s / Z.of_nat n.

(** word i = value of bits [i*n, (i+1)*n) of s, for 0 <= i < nwords *)
Definition spec_word (n : nat) (s : list Z) (i : Z) : option Z :=
  if (0 <=? i) && (i <? nwords n s)
  then Some (val_msb (firstn n (skipn (Z.to_nat i * n) (msb_bits s))))
  else None.

Definition word_eqb_direct (n : nat) (a b : list Z) (i : Z) : bool :=
  match spec_word n a i, spec_word n b i with
  | Some x, Some y => x =? y
  | _, _ => false
  end.

(** smallest word index in [from, lim) at which a and b differ, or lim *)
Definition spec_FirstDiff_direct (n : nat) (a b : list Z) (from end_ : Z) : Z :=
  let la := nwords n a in
  let lb := nwords n b in
  let end' := if end_ =? -1 then la else end_ in
  let lim := Z.min end' (Z.min la lb) in
  match find (fun i => negb (word_eqb_direct n a b i)) (map (fun k => from + k) (zrange (lim - from))) with
  | Some i => i
  | None => lim
  end.

(** cutting a list into complete chunks of n, front to back *)
Fixpoint chunks_seq {A} (fuel n : nat) (l : list A) : list (list A) :=
  match fuel with
  | O => []
  | S f =>
      let c := firstn n l in
      if (length c <? n)%nat then [] else c :: chunks_seq f n (skipn n l)
  end.

Definition spec_FromStr_seq (n : nat) (s : list Z) : list Z :=
  let l := msb_bits s in map val_msb (chunks_seq (S (length l)) n l).

Definition spec_ToStr_seq (n : nat) (ws : list Z) : list Z :=
  let l := pad8 (flat_map (to_bits n) ws) in map val_msb (chunks_seq (S (length l)) 8 l).
