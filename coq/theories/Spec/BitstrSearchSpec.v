(** C09 widened: vocabulary for searching sorted keys with CmpUpto. *)
From Coq Require Import ZArith List Bool.
From Low Require Import Lib.Bits Lib.BitSeq Lib.Bytes Lib.Lex Lib.Pack_bw Spec.BitstrSpec.
Import ListNotations.
Open Scope Z_scope.

(** adjacent keys in Go's string order (bytes.Compare <= 0) *)
Fixpoint keys_sortedb (ks : list (list Z)) : bool :=
  match ks with
  | k1 :: ((k2 :: _) as r) => (match bytes_cmp k1 k2 with Gt => false | _ => true end) && keys_sortedb r
  | _ => true
  end.

(** adjacent results non-decreasing: all -1, then all 0, then all 1 *)
Fixpoint nondecb (rs : list Z) : bool :=
  match rs with
  | r1 :: ((r2 :: _) as r) => (r1 <=? r2) && nondecb r
  | _ => true
  end.

(** what comparing every key with the bit string b must give *)
Definition spec_search (ks : list (list Z)) (b : list bool) : list Z :=
  map (fun k => cmp_sign (bits_cmp (upto k b) b)) ks.
