(** C19 (widening) - goroutines that each OWN something they write (a Builder, a TailBitmap, an output
    buffer) while sharing what they only read.  Memory is a map from locations to values; every thread has a
    footprint: the locations it may read or write ([fp_all]) and, among them, those it may write
    ([fp_write]).  No proofs here (see Proofs/OwnershipProofs.v). *)
From Coq Require Import List Arith.
From Low Require Import Spec.Concurrency.
Import ListNotations.

Section Own.
  Variables loc val res : Type.
  Notation lmem := (loc -> val).
  Notation lop := (op lmem res).

  (** the operation writes only locations in [W] *)
  Definition writes_within (W : loc -> Prop) (o : lop) : Prop :=
    forall m l, ~ W l -> fst (o m) l = m l.

  (** its result, and what it leaves in the locations of [F], depend only on the locations in [F] *)
  Definition determined_by (F : loc -> Prop) (o : lop) : Prop :=
    forall m m', agree_on F m m' ->
      snd (o m) = snd (o m') /\ agree_on F (fst (o m)) (fst (o m')).

  Record footprint := { fp_all : loc -> Prop; fp_write : loc -> Prop }.

  Definition respects (fp : footprint) (o : lop) : Prop :=
    writes_within (fp_write fp) o /\ determined_by (fp_all fp) o.

  (** no thread writes a location another thread reads or writes *)
  Definition non_interfering (fps : list footprint) : Prop :=
    forall i j fi fj, i <> j -> nth_error fps i = Some fi -> nth_error fps j = Some fj ->
      forall l, fp_write fi l -> ~ fp_all fj l.

  (** nobody may write [l] *)
  Definition unowned (fps : list footprint) (l : loc) : Prop :=
    forall fp, In fp fps -> ~ fp_write fp l.
End Own.

Arguments writes_within {loc val res}.
Arguments determined_by {loc val res}.
Arguments fp_all {loc}.
Arguments fp_write {loc}.
Arguments respects {loc val res}.
Arguments non_interfering {loc}.
Arguments unowned {loc}.
