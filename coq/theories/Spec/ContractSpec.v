(** C03 (widening): the DOMAIN of PathToIndex / PathToIndexLoose as a predicate
    on raw arguments (any int32 level mask, any uint64 word), for the property
    "the [-tags debug] build raises a contract panic exactly on the inputs
    outside the domain, and returns the rank on the inputs inside it".

    A raw word is inside the domain of a tree of height h iff it is the path
    word [enc h q] of some node q with |q| <= h; [decode_word] is the naive
    decoder (read the length off the mask half, the node off the bits half,
    and compare the word with its re-encoding field by field). *)
From Coq Require Import ZArith List Bool.
From Low Require Import Lib.Bits Lib.BitSeq Lib.Lex Lib.Bytes Spec.Bmtree Spec.IndexSpec.
Import ListNotations.
Open Scope Z_scope.

(** the node whose [l] bits, most significant first, are the number x *)
Definition node_of (l : nat) (x : Z) : node := rev (bits l x).

Definition decode_word (h : nat) (w : Z) : option node :=
  let m := w mod 2 ^ 32 in
  let p := w / 2 ^ 32 in
  let l := Z.to_nat (popcount m) in
  let d := Z.of_nat h - Z.of_nat l in
  if (l <=? h)%nat && (m =? Mask (Z.of_nat l) * 2 ^ d) && (p mod 2 ^ d =? 0) && (p <? 2 ^ Z.of_nat h)
  then Some (node_of l (p / 2 ^ d)) else None.

(** the one family of words outside the domain on which the contracts of the code as it is
    stay silent: an EMPTY mask half under non-zero search bits (pathCheck returns before its
    "path bits must be shorter than mask" test when the mask half is 0) *)
Definition gap_word (w : Z) : bool :=
  (w mod 2 ^ 32 =? 0) && negb (w / 2 ^ 32 =? 0) && (w / 2 ^ 32 <? 2 ^ 30).

Inductive expect (A : Type) : Type :=
| ExpValue (a : A)   (* inside the domain: this value, no panic *)
| ExpPanic           (* outside the domain: a contract must fire *)
| ExpAny.            (* the contract gap: nothing is claimed *)
Arguments ExpValue {A} a.
Arguments ExpPanic {A}.
Arguments ExpAny {A}.

Definition valid_mask (T : Z) : bool := (1 <=? T) && (T <? 2 ^ 31).

Definition raw_loose_expect (T w : Z) : expect (Z * Z) :=
  if valid_mask T then
    let h := Z.to_nat (Z.log2 T) in
    match decode_word h w with
    | Some q => ExpValue (spec_loose T h q)
    | None => if gap_word w then ExpAny else ExpPanic
    end
  else ExpPanic.

(** PathToIndex additionally requires the node's level to be stored *)
Definition raw_strict_expect (T w : Z) : expect Z :=
  if valid_mask T then
    let h := Z.to_nat (Z.log2 T) in
    match decode_word h w with
    | Some q => if stored T q then ExpValue (spec_rank T h q) else ExpPanic
    | None => if gap_word w then ExpAny else ExpPanic
    end
  else ExpPanic.

Definition expect_accepts {A} (eqb : A -> A -> bool) (e : expect A) (obs : option A) : bool :=
  match e, obs with
  | ExpValue a, Some b => eqb a b
  | ExpValue _, None => false
  | ExpPanic, None => true
  | ExpPanic, Some _ => false
  | ExpAny, _ => true
  end.
