(** C15: the property as a Prop over an OBSERVED history (what the harness records from the real
    code: the exported [Offset], [Words] and the result after every protocol call), judged against
    the abstract set of indices only.  [check_history] of Spec/TailBitmapSpec.v is the executable
    form; Proofs/TailBitmapSound.v proves that it implies this Prop.  No proofs here. *)
From Coq Require Import ZArith List Bool.
From Low Require Import Lib.Bits Lib.BitSeq Spec.TailBitmapSpec Spec.TailBitmapInv.
Import ListNotations.
Open Scope Z_scope.

(** membership in the abstract set, as a Prop *)
Definition memP (H : hist) (j : Z) : Prop := memH H j = true.

(** what a call must return *)
Definition result_ok (o : Z) (H : hist) (p : pop) (r : Z) : Prop :=
  match p with
  | PGet j => r = Z.shiftl (Z.b2z (member o H j)) (j mod 64)
  | PGet1 j => r = Z.b2z (member o H j)
  | _ => r = 0
  end.

(** every observation of the history satisfies the invariant for the set of indices set so far,
    Offset and the end never decrease, every probe returns membership, Compact keeps the end *)
Fixpoint obs_ok (o : Z) (prev : Z * list Z) (H : hist) (ps : list pop)
         (obs : list (Z * list Z * Z)) : Prop :=
  match ps, obs with
  | [], [] => True
  | p :: ps', (off, ws, r) :: obs' =>
      let H' := abs_step H p in
      TInv o (memP H') off ws /\
      fst prev <= off /\
      tb_end (fst prev) (snd prev) <= tb_end off ws /\
      (forall j, fst prev <= j < off -> memP H' j) /\
      result_ok o H' p r /\
      (p = PCompact -> tb_end off ws = tb_end (fst prev) (snd prev)) /\
      obs_ok o (off, ws) H' ps' obs'
  | _, _ => False
  end.

(** the same for an observed history that starts from a struct literal (Spec/TailBitmapSpec.v:
    [check_literal]): the invariant without the head clause after every call; the head clause is
    required ([st]) after every Compact and every Set into the first stored word, and from the first
    observation in which it holds on. *)
Fixpoint obs_ok_lit (st : Prop) (o : Z) (prev : Z * list Z) (H : hist) (ps : list pop)
         (obs : list (Z * list Z * Z)) : Prop :=
  match ps, obs with
  | [], [] => True
  | p :: ps', (off, ws, r) :: obs' =>
      let H' := abs_step H p in
      let st_now := st \/ touches_head (fst prev) p = true in
      TInvW o (memP H') off ws /\
      (st_now -> head_okP ws) /\
      fst prev <= off /\
      tb_end (fst prev) (snd prev) <= tb_end off ws /\
      (forall j, fst prev <= j < off -> memP H' j) /\
      result_ok o H' p r /\
      (p = PCompact -> tb_end off ws = tb_end (fst prev) (snd prev)) /\
      obs_ok_lit (st_now \/ head_okP ws) o (off, ws) H' ps' obs'
  | _, _ => False
  end.

Definition lit_obs_ok (off : Z) (ws : list Z) (ps : list pop) (obs : list (Z * list Z * Z)) : Prop :=
  obs_ok_lit (head_okP ws) off (off, ws) (hist_of_words off ws) ps obs.
