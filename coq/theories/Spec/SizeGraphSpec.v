(** Specification vocabulary for values with shared pointers (C20 widening): the
    TREE UNFOLDING of a heap value — every reference replaced by a pointer to a
    fresh copy of the unfolded cell — and the order condition that makes a heap
    acyclic.  The property: size.Of of a value with sharing is the structural
    sum ([spec_size], Spec/SizeSpec.v) of its unfolding: a cell reached along
    two paths is counted twice.  No proofs in this file. *)
From Coq Require Import ZArith List Bool.
From Low Require Import Model.Size Model.SizeGraph Spec.SizeSpec.
Import ListNotations.
Open Scope Z_scope.

Fixpoint all_some {A} (l : list (option A)) : option (list A) :=
  match l with
  | [] => Some []
  | None :: _ => None
  | Some x :: t => match all_some t with Some r => Some (x :: r) | None => None end
  end.

Definition pair_some {A} (a b : option A) : option (A * A) :=
  match a, b with Some x, Some y => Some (x, y) | _, _ => None end.

(** unfolding, to a depth of [fuel] nested nodes ([None]: deeper than that, or a dangling reference) *)
Fixpoint unfold (h : heap) (fuel : nat) (v : gvalue) : option value :=
  match fuel with
  | O => None
  | S fuel =>
      match v with
      | GScalar k => Some (VScalar k)
      | GString bs => Some (VString bs)
      | GSlice None => Some (VSlice None)
      | GSlice (Some l) => option_map (fun r => VSlice (Some r)) (all_some (map (unfold h fuel) l))
      | GArray l => option_map VArray (all_some (map (unfold h fuel) l))
      | GMap kvs => option_map VMap (all_some (map (fun kv => pair_some (unfold h fuel (fst kv)) (unfold h fuel (snd kv))) kvs))
      | GPtr None => Some (VPtr None)
      | GPtr (Some x) => option_map (fun r => VPtr (Some r)) (unfold h fuel x)
      | GRef a => match nth_error h a with
                  | Some cell => option_map (fun r => VPtr (Some r)) (unfold h fuel cell)
                  | None => None
                  end
      | GIface None => Some (VIface None)
      | GIface (Some x) => option_map (fun r => VIface (Some r)) (unfold h fuel x)
      | GStruct fs => option_map VStruct (all_some (map (unfold h fuel) fs))
      | GOther => Some VOther
      end
  end.

(** every reference inside [v] is to a cell below [n] *)
Fixpoint refs_below (n : nat) (v : gvalue) : bool :=
  match v with
  | GSlice (Some l) | GArray l | GStruct l => forallb (refs_below n) l
  | GMap kvs => forallb (fun kv => refs_below n (fst kv) && refs_below n (snd kv)) kvs
  | GPtr (Some x) | GIface (Some x) => refs_below n x
  | GRef a => Nat.ltb a n
  | _ => true
  end.

(** an ORDERED heap: cell a only refers to cells below a (hence no cycle) *)
Fixpoint ordered_from (a : nat) (cells : list gvalue) : bool :=
  match cells with
  | [] => true
  | c :: t => refs_below a c && ordered_from (S a) t
  end.
Definition ordered (h : heap) : bool := ordered_from 0 h.

(** nesting depth of a value, not following references *)
Fixpoint gheight (v : gvalue) : nat :=
  match v with
  | GSlice (Some l) | GArray l | GStruct l => S (fold_right (fun x m => Nat.max (gheight x) m) 0%nat l)
  | GMap kvs => S (fold_right (fun kv m => Nat.max (Nat.max (gheight (fst kv)) (gheight (snd kv))) m) 0%nat kvs)
  | GPtr (Some x) | GIface (Some x) => S (gheight x)
  | _ => 1%nat
  end.

(** fuel that suffices to unfold any value of an ordered heap *)
Definition heap_height (h : heap) : nat := fold_right (fun c m => Nat.max (gheight c) m) 0%nat h.
Definition enough_fuel (h : heap) (v : gvalue) : nat :=
  (S (length h) * S (Nat.max (heap_height h) (gheight v)))%nat.
