(** Specification of typehelper.ToSlice (C20 widening): the result has one slot per
    element of the slice, in order, each holding the element as an interface
    value; anything that is not a slice is refused.  No proofs in this file. *)
From Coq Require Import ZArith List Bool.
From Low Require Import Model.Size Spec.SizeSpec Model.TypeHelper.
Import ListNotations.
Open Scope Z_scope.

Definition spec_ToSlice {A B} (box : A -> B) (arg : targ A) : option (list (option B)) :=
  match arg with
  | ArgOther => None
  | ArgSlice s => Some (map (fun x => Some (box x)) s)
  end.

(** on the value trees of C20: an element that is itself of interface kind is
    handed over as it is (Value.Interface() of an interface-kinded Value returns
    the interface it holds), any other element is boxed in an interface{} *)
Definition box_value (x : value) : value :=
  match x with
  | VIface o => VIface o
  | _ => VIface (Some x)
  end.

(** the []interface{} that ToSlice returns, as a value tree *)
Definition slots_value (rst : list (option value)) : value :=
  VSlice (Some (map (fun o => match o with Some b => b | None => VIface None end) rst)).

(** what ToSlice sees of a value *)
Definition targ_of (v : option value) : targ value :=
  match v with
  | Some (VSlice (Some l)) => ArgSlice l
  | Some (VSlice None) => ArgSlice []
  | _ => ArgOther
  end.

(** the size of the result, said directly: a slice header, and per element an
    interface header plus the element — unless the element already is an interface *)
Definition boxed_size (x : value) : Z :=
  match x with
  | VIface _ => spec_size x
  | _ => 16 + spec_size x
  end.
Definition spec_ToSlice_size (l : list value) : Z := 24 + zsum (map boxed_size l).
