(** C09 in the property's own words: the bit string a range denotes, its
    canonical encoding, and the lexicographic order on bit strings
    ([bits_cmp] of Lib/Lex.v: proper prefix first). *)
From Coq Require Import ZArith List Bool.
From Low Require Import Lib.Bits Lib.BitSeq Lib.Bytes Lib.Lex Lib.Pack_bw.
Import ListNotations.
Open Scope Z_scope.

(** the bits s[8*floor(f/8), t) *)
Definition B (s : list Z) (f t : Z) : list bool :=
  firstn (Z.to_nat (t - 8 * (f / 8))) (skipn (Z.to_nat (8 * (f / 8))) (msb_bits s)).

(** a byte with its k high bits set *)
Definition high_mask (k : Z) : Z := 256 - 2 ^ (8 - k).

(** number of payload bits in the last payload byte: |b| mod 8, or 8 *)
Definition last_bits (len : nat) : Z :=
  let r := Z.of_nat len mod 8 in if r =? 0 then 8 else r.

(** canonical encoding: the bits packed MSB-first (last byte zero-padded),
    then one byte with as many high bits set as the last payload byte holds;
    [encB [] = [0xff]] (no payload byte, "8" bits) *)
Definition encB (b : list bool) : list Z := pack b ++ [high_mask (last_bits (length b))].

(** the first |b| bits of the plain bytes a (all of a when shorter) *)
Definition upto (a : list Z) (b : list bool) : list bool := firstn (length b) (msb_bits a).

Definition spec_New (s : list Z) (f t : Z) : list Z := encB (B s f t).
Definition spec_Len (s : list Z) (f t : Z) : Z := zlen (B s f t).
Definition spec_Cmp (s1 : list Z) (f1 t1 : Z) (s2 : list Z) (f2 t2 : Z) : Z :=
  cmp_sign (bits_cmp (B s1 f1 t1) (B s2 f2 t2)).
Definition spec_CmpUpto (a s : list Z) (f t : Z) : Z :=
  cmp_sign (bits_cmp (upto a (B s f t)) (B s f t)).
