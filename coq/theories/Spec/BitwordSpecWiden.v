(** C08 widened: what the bitword functions do around the property's domain.
    - order: FromStr keeps the order of the strings (the doc comment of FromStr:
      "the result byte slice keeps order with the original string");
    - Get outside [0, words): panics;
    - FirstDiff for every from / end (negative from: panics iff the window is not empty);
    - ToStr on arbitrary bytes (words >= 2^n): never panics; the carries of the
      uint8 accumulator. *)
From Coq Require Import ZArith List Bool.
From Low Require Import Lib.Bits Lib.BitSeq Lib.Bytes Lib.Lex Lib.Pack_bw Spec.BitwordSpec Spec.BitwordSpecDirect.
Import ListNotations.
Open Scope Z_scope.

(** sign of bytes.Compare(FromStr(a), FromStr(b)) = sign of comparing a and b *)
Definition spec_FromStr_cmp (a b : list Z) : Z := cmp_sign (bytes_cmp a b).

(** Get for every int index: the word, or a panic outside [0, words) *)
Definition spec_Get_any (n : nat) (s : list Z) (i : Z) : option Z := spec_word n s i.

(** FirstDiff for every (from, end): lim when the window [from, lim) is empty; a
    panic when it is not and from < 0 (the first Get indexes before the string);
    else the first differing index or lim *)
Definition spec_lim (n : nat) (a b : list Z) (end_ : Z) : Z :=
  let la := nwords n a in
  let lb := nwords n b in
  Z.min (if end_ =? -1 then la else end_) (Z.min la lb).

Definition spec_FirstDiff_any (n : nat) (a b : list Z) (from end_ : Z) : option Z :=
  let lim := spec_lim n a b end_ in
  if lim <=? from then Some lim
  else if from <? 0 then None
  else Some (spec_FirstDiff_direct n a b from end_).

(** ToStr on arbitrary bytes: output byte k is the base-2^n numeral of the k-th
    group of 8/n words (missing words = 0), reduced modulo 256 *)
Definition numeral (n : nat) (g : list Z) : Z := fold_left (fun acc x => acc * 2 ^ Z.of_nat n + x) g 0.

Definition spec_ToStr_any (n : nat) (ws : list Z) : list Z :=
  let m := (8 / n)%nat in
  let padded := ws ++ repeat 0 ((m - length ws mod m) mod m) in
  map (fun g => numeral n g mod 256) (chunks_seq (S (length padded)) m padded).

(** the round trip in the other direction: FromStr(ToStr(ws)) is ws followed by the zero words
    that fill the last byte *)
Definition spec_FromStr_ToStr (n : nat) (ws : list Z) : list Z :=
  let m := (8 / n)%nat in ws ++ repeat 0 ((m - length ws mod m) mod m).
