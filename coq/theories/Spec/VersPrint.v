(** Canonical syntax of versions and ranges (extra check X01): how a structured version / range is written as the
    strings that vers.IsCompatible receives.  Used by the /ast operations (Run/X01.v; harness/x01.go prints the same
    way) and by the canonical-syntax theorems (Proofs/SemverPrintParse.v: the modelled parsers invert this printer). *)
From Coq Require Import ZArith List Bool.
From Low Require Import Lib.Decimal_xpk Model.Semver Model.Vers Spec.VersSpec.
Import ListNotations.
Open Scope Z_scope.

(** well-formed structures *)
Definition wf_ident (p : PRVersion) : bool :=
  if pr_isnum p
  then (match pr_str p with [] => true | _ => false end) && (0 <=? pr_num p) && (pr_num p <? 2 ^ 64)
  else (pr_num p =? 0) && only_alphanum (pr_str p) && negb (only_numbers (pr_str p)) &&
       (match pr_str p with [] => false | _ => true end).
Definition wf_build (s : str) : bool := only_alphanum s && (match s with [] => false | _ => true end).
Definition wf_version (v : Version) : bool :=
  forallb (fun n => (0 <=? n) && (n <? 2 ^ 64)) [v_major v; v_minor v; v_patch v] &&
  forallb wf_ident (v_pre v) && forallb wf_build (v_build v).

(** the letter x anywhere in a comparator's version is the wildcard of the library's range syntax: versions whose
    identifiers contain it cannot be written in a range *)
Definition no_x (v : Version) : bool :=
  forallb (fun p => negb (contains_byte 120 (pr_str p))) (v_pre v) &&
  forallb (fun b => negb (contains_byte 120 b)) (v_build v).

(** Version.String() *)
Definition ident_string (p : PRVersion) : str := if pr_isnum p then dec_nonneg (pr_num p) else pr_str p.
Definition version_string (v : Version) : str :=
  dec_nonneg (v_major v) ++ [46] ++ dec_nonneg (v_minor v) ++ [46] ++ dec_nonneg (v_patch v) ++
  (match v_pre v with [] => [] | l => [45] ++ join [46] (map ident_string l) end) ++
  (match v_build v with [] => [] | l => [43] ++ join [46] l end).

(** the ways of writing each operator *)
Definition op_spellings (c : comparator) : list str :=
  match c with
  | CEQ => [[]; [61]; [61; 61]]
  | CNE => [[33]; [33; 61]]
  | CGT => [[62]]
  | CGE => [[62; 61]]
  | CLT => [[60]]
  | CLE => [[60; 61]]
  end.

(** a comparator of a structured range: the operator, the spelling used, the version *)
Definition scomp : Type := (comparator * str * Version)%type.
Definition scomp_ok (x : scomp) : bool :=
  let '(c, s, w) := x in existsb (str_eqb s) (op_spellings c) && wf_version w && no_x w.
Definition comp_string (x : scomp) : str := let '(_, s, w) := x in s ++ version_string w.
(** one spec element per group: the comparators separated by one space *)
Definition group_string (g : list scomp) : str := join [32] (map comp_string g).
Definition strip (gs : list (list scomp)) : groups :=
  map (map (fun x : scomp => let '(c, _, w) := x in (c, w))) gs.
Definition sgroups_ok (gs : list (list scomp)) : bool :=
  (match gs with [] => false | _ => true end) &&
  forallb (fun g => (match g with [] => false | _ => true end) && forallb scomp_ok g) gs.
