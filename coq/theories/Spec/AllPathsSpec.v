(** C04's own vocabulary: the words of the stored nodes in pre-order, the
    window filter, the selection by a bitmap. *)
From Coq Require Import ZArith List Bool.
From Low Require Import Lib.Bits Lib.BitSeq Lib.Lex Lib.Bytes Spec.Bmtree.
Import ListNotations.
Open Scope Z_scope.

(** the path words of all stored nodes, in pre-order *)
Definition stored_words (T : Z) (h : nat) : list Z := map (enc h) (stored_nodes T h).

Definition in_window (from to w : Z) : bool := (from <=? w) && (w <? to).

(** AllPaths: exactly the stored words in [from, to), in pre-order *)
Definition spec_allpaths (T : Z) (h : nat) (from to : Z) : list Z :=
  filter (in_window from to) (stored_words T h).

(** keep the elements of [l] whose position (counted from [i]) is a 1-bit of [bs]
    (positions beyond the end of [bs] read as 0) *)
Fixpoint select_by {A} (bs : list bool) (i : nat) (l : list A) : list A :=
  match l with
  | [] => []
  | x :: t => if nth i bs false then x :: select_by bs (S i) t else select_by bs (S i) t
  end.

(** Decode: the k-th stored node in pre-order is returned iff bit k of the bitmap is 1 *)
Definition spec_decode (T : Z) (h : nat) (bm : list Z) : list Z :=
  select_by (flat bm) 0 (stored_words T h).

(** * the checker for tall trees: the same enumeration with the sub-trees that
    lie entirely outside [from, to) pruned ([r] = the node reached so far,
    [k] = levels below it; every word of the sub-tree of [r] lies between
    [enc H r] and the word of its right-most leaf) *)
Fixpoint win_nodes (k : nat) (H : nat) (r : node) (from to : Z) : list node :=
  let w := enc H r in
  let wmax := enc H (r ++ repeat true k) in
  if (wmax <? from) || (to <=? w) then []
  else
    (if from <=? w then [r] else []) ++
    match k with
    | O => []
    | S k' => win_nodes k' H (r ++ [false]) from to ++ win_nodes k' H (r ++ [true]) from to
    end.

Definition spec_allpaths_win (T : Z) (h : nat) (from to : Z) : list Z :=
  map (enc h) (filter (stored T) (win_nodes h h [] from to)).

(** what the checker evaluates *)
Definition check_allpaths (T : Z) (h : nat) (from to : Z) : list Z :=
  if (h <=? 10)%nat then spec_allpaths T h from to else spec_allpaths_win T h from to.

(** the words of the stored nodes below [q] (the nodes that have [q] as a prefix), in pre-order *)
Definition spec_subtree (T : Z) (h : nat) (q : node) : list Z :=
  map (enc h) (filter (stored T) (map (app q) (all_nodes (h - length q)))).

(** * a linear-time evaluator for Decode (used by the correspondence run on tall trees; proved
    equal to [spec_decode] and to the model in Proofs/BmtreeDecodeFast.v) *)

(** the word of the k-th stored node (pre-order) of the tree with level mask T and height h:
    the root if it is stored and k = 0, else in the left sub-tree (which stores T/2 nodes) or in
    the right one *)
Fixpoint nth_word (h : nat) (T k : Z) : Z :=
  match h with
  | O => 0
  | S h' =>
      let t0 := Z.b2z (Z.testbit T 0) in
      if k <? t0 then 0
      else
        let k1 := k - t0 in
        if k1 <? T / 2 then 2 ^ Z.of_nat h' + nth_word h' (T / 2) k1
        else 2 ^ (Z.of_nat h' + 32) + 2 ^ Z.of_nat h' + nth_word h' (T / 2) (k1 - T / 2)
  end.

(** one word per 1-bit of the bitmap below T *)
Definition fast_decode (T : Z) (h : nat) (bm : list Z) : list Z :=
  map (nth_word h T) (filter (fun p => p <? T) (ones (flat bm))).

(** what the checker evaluates *)
Definition check_decode (T : Z) (h : nat) (bm : list Z) : list Z :=
  if (h <=? 10)%nat then spec_decode T h bm else fast_decode T h bm.
