(** C12 in the property's own words: which bits are set, how many words,
    what the running offset is. *)
From Coq Require Import ZArith List Bool.
From Low Require Import Lib.Bits Lib.BitSeq Model.BuilderOps.
Import ListNotations.
Open Scope Z_scope.

Definition words_for (nbits : Z) : Z := (nbits + 63) / 64.

(** sorted union: insertion into a strictly ascending list, duplicates dropped *)
Fixpoint uinsert (x : Z) (l : list Z) : list Z :=
  match l with
  | [] => [x]
  | y :: t => if x <? y then x :: l else if x =? y then l else y :: uinsert x t
  end.
Definition usort (l : list Z) : list Z := fold_right uinsert [] l.

Fixpoint zs_eqb (a b : list Z) : bool :=
  match a, b with
  | [], [] => true
  | x :: a', y :: b' => (x =? y) && zs_eqb a' b'
  | _, _ => false
  end.

Fixpoint sortedb (l : list Z) : bool :=       (* ascending, duplicates allowed *)
  match l with
  | x :: (y :: _) as t => (x <=? y) && sortedb t
  | _ => true
  end.
Definition nonnegb (l : list Z) : bool := forallb (fun p => 0 <=? p) l.

(** * Of *)
(** number of bits Of must provide: max(n, last+1, 0) *)
Definition of_bits (ps : list Z) (opt : option Z) : Z :=
  Z.max 0 (Z.max (match opt with Some n => n | None => 0 end)
                 (match ps with [] => 0 | _ => last ps 0 + 1 end)).

Definition spec_Of (ps : list Z) (opt : option Z) (r : list Z) : Prop :=
  words_ok r /\ zlen r = words_for (of_bits ps opt) /\ ones (flat r) = usort ps.

Definition spec_Of_ok (ps : list Z) (opt : option Z) (r : list Z) : bool :=
  words_okb r && (zlen r =? words_for (of_bits ps opt)) && zs_eqb (ones (flat r)) (usort ps).

(** * ToArray and the round trips *)
Definition spec_ToArray (ws : list Z) : list Z := ones (flat ws).

(** a bitmap without its trailing all-zero words *)
Fixpoint strip0 (ws : list Z) : list Z :=
  match ws with
  | [] => []
  | w :: t => match strip0 t with
              | [] => if w =? 0 then [] else [w]
              | t' => w :: t'
              end
  end.

(** * Get / Get1 / SafeGet / SafeGet1 *)
Definition inside (ws : list Z) (i : Z) : bool := (0 <=? i) && (i <? 64 * zlen ws).
Definition spec_Get (ws : list Z) (i : Z) : Z := if bitz (flat ws) i then 2 ^ (i mod 64) else 0.
Definition spec_Get1 (ws : list Z) (i : Z) : Z := Z.b2z (bitz (flat ws) i).
Definition spec_SafeGet (ws : list Z) (i : Z) : Z := if inside ws i then spec_Get ws i else 0.
Definition spec_SafeGet1 (ws : list Z) (i : Z) : Z := if inside ws i then spec_Get1 ws i else 0.

(** * OfMany: positions shifted by the running sum of the preceding sizes *)
Fixpoint shifted (subs : list (list Z)) (sizes : list Z) (base : Z) : list Z :=
  match subs, sizes with
  | e :: t, s :: st => map (Z.add base) e ++ shifted t st (base + s)
  | _, _ => []
  end.
Definition total (sizes : list Z) : Z := fold_right Z.add 0 sizes.

Definition spec_OfMany (subs : list (list Z)) (sizes : list Z) (r : list Z) : Prop :=
  spec_Of (shifted subs sizes 0) (Some (total sizes)) r.
Definition spec_OfMany_ok (subs : list (list Z)) (sizes : list Z) (r : list Z) : bool :=
  spec_Of_ok (shifted subs sizes 0) (Some (total sizes)) r.

Definition ofmany_dom (subs : list (list Z)) (sizes : list Z) : bool :=
  (length subs =? length sizes)%nat && nonnegb sizes &&
  nonnegb (shifted subs sizes 0) && sortedb (shifted subs sizes 0).

(** * Builder as an abstract state machine: the positions set so far and the offset *)
Record abs := { abits : list Z; aoff : Z }.

Definition astep (a : abs) (o : bop) : abs :=
  match o with
  | BExtend ps size => {| abits := abits a ++ map (Z.add (aoff a)) ps; aoff := aoff a + size |}
  | BSet p v => {| abits := if Z.odd v then abits a ++ [p] else abits a; aoff := Z.max (aoff a) (p + 1) |}
  end.

(** the abstract state after every call, starting with the empty one *)
Fixpoint arun (a : abs) (ops : list bop) : list abs :=
  match ops with
  | [] => [a]
  | o :: t => a :: arun (astep a o) t
  end.

(** what Words and Offset must be in abstract state [a]: the offset, exactly the positions set so far
    (hence enough words for every one of them) *)
Definition builder_ok (a : abs) (words : list Z) (off : Z) : Prop :=
  off = aoff a /\ words_ok words /\ ones (flat words) = usort (abits a).
Definition builder_okb (a : abs) (words : list Z) (off : Z) : bool :=
  (off =? aoff a) && words_okb words && zs_eqb (ones (flat words)) (usort (abits a)).

Definition bop_dom (o : bop) : bool :=
  match o with
  | BExtend ps size => sortedb ps && nonnegb ps && (0 <=? size)
  | BSet p v => 0 <=? p
  end.
