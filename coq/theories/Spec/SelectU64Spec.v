(** C02, widened to the unexported select helpers, in C02's own vocabulary:
    [all_ones ws] / [ones (bits 64 w)] = the ascending list of the positions of the 1-bits,
    [rank1 bs n] = the number of 1-bits among the first [n] bits.  Naive, no proofs. *)
From Coq Require Import ZArith List Bool.
From Low Require Import Lib.Bits Lib.BitSeq Spec.SelectSpec.
Import ListNotations.
Open Scope Z_scope.

(** select32single: the position of the [i]-th 1-bit (the first component of [spec_Select]);
    the two sentinels the code returns outside [0, number of 1-bits): -1 below, [64 * len] above *)
Definition spec_select32single (ws : list Z) (i : Z) : Z :=
  if i <? 0 then -1
  else if i <? zlen (all_ones ws) then nth (Z.to_nat i) (all_ones ws) 0
  else 64 * zlen ws.

(** indexSelectU64: byte field [j] (0 = least significant) = 0x80 + the number of 1-bits among
    the lowest [8 * (j + 1)] bits of the word *)
Definition spec_index_field (w : Z) (j : nat) : Z := 128 + rank1 (bits 64 w) (8 * (j + 1)).

Definition spec_indexSelectU64 (w : Z) : Z :=
  fold_right (fun j acc => acc + spec_index_field w j * 256 ^ Z.of_nat j) 0 (seq 0 8).

(** selectU64Indexed with the index of the same word: (position of the [k]-th 1-bit of the word, 0) *)
Definition spec_selectU64 (w k : Z) : Z * Z := (nth (Z.to_nat k) (ones (bits 64 w)) 0, 0).

(** one row of the byte table: entry [j] of row [b] = position of the [j]-th 1-bit of byte [b], 8 when
    the byte has fewer *)
Definition spec_select8_row (b : Z) : list Z :=
  map (fun j => nth j (ones (bits 8 b)) 8) (seq 0 8).
