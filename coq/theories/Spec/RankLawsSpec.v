(** C01 widening: the vocabulary of the rank laws (naive, list-of-bits level). *)
From Coq Require Import ZArith List Bool.
From Low Require Import Lib.Bits Lib.BitSeq.
Import ListNotations.
Open Scope Z_scope.

(** position [i] lies inside the bitmap *)
Definition pos_in (ws : list Z) (i : Z) : bool := (0 <=? i) && (i <? 64 * zlen ws).

(** number of 1-bits of the whole bitmap *)
Definition total1 (ws : list Z) : Z := count_true (flat ws).

(** sum of a list of numbers *)
Definition sumZ (l : list Z) : Z := fold_right Z.add 0 l.

(** the all-zero / all-one bitmaps of [n] words *)
Definition zeros_bm (n : nat) : list Z := repeat 0 n.
Definition ones_bm (n : nat) : list Z := repeat (2^64 - 1) n.

(** * what the op bundles of the widening must return, in the naive vocabulary *)
(** (count before [i], bit [i]) inside the bitmap, a panic outside *)
Definition spec_query (ws : list Z) (i : Z) : option (Z * Z) :=
  if pos_in ws i then Some (rank1z (flat ws) i, Z.b2z (bitz (flat ws) i)) else None.

(** the same for an int32 position; [for128]: the 128-bit flavour cannot form [i + 64] beyond 2^31 - 65 *)
Definition spec_query32 (for128 : bool) (ws : list Z) (i : Z) : option (Z * Z) :=
  if pos_in ws i && (negb for128 || (i <? 2^31 - 64)) then spec_query ws i else None.

(** number of 1-bits of one word, bit by bit *)
Definition pop1 (w : Z) : Z := count_true (bits 64 w).

(** running sums: [acc; acc + x0; acc + x0 + x1; ...] (one entry more than the list) *)
Fixpoint psums (l : list Z) (acc : Z) : list Z :=
  acc :: match l with [] => [] | x :: t => psums t (acc + x) end.

(** every other element, starting with the first *)
Fixpoint evens (l : list Z) : list Z :=
  match l with
  | [] => []
  | [x] => [x]
  | x :: _ :: t => x :: evens t
  end.

(** the three indexes of one bitmap: the running sums of the per-word bit counts without / with the final
    total, and every other entry of the latter *)
Definition spec_indexes (ws : list Z) : list Z * list Z * list Z :=
  let p := psums (map pop1 ws) 0 in (removelast p, p, evens p).

(** the laws a pair of answers at positions [i <= j] must satisfy (no counting involved):
    [qi], [qj] = the answers of the three flavours at [i] and [j], [tot] = the trailing total *)
Definition law_check (nbits i j : Z) (qi qj : list (Z * Z)) (tot : Z) : bool :=
  match qi, qj with
  | (ri, bi) :: _, (rj, bj) :: _ =>
      forallb (fun p => (fst p =? ri) && (snd p =? bi)) qi &&
      forallb (fun p => (fst p =? rj) && (snd p =? bj)) qj &&
      ((bi =? 0) || (bi =? 1)) && ((bj =? 0) || (bj =? 1)) &&
      (0 <=? ri) && (ri <=? i) &&
      (ri <=? rj) && (rj <=? ri + (j - i)) &&
      (if j =? i then (rj =? ri) && (bj =? bi) else true) &&
      (if j =? i + 1 then rj =? ri + bi else true) &&
      (if i <? j then ri + bi <=? rj else true) &&
      (rj + bj <=? tot) && (tot - (rj + bj) <=? nbits - (j + 1)) &&
      (if j =? nbits - 1 then rj + bj =? tot else true)
  | _, _ => false
  end.

(** * histories over several bitmaps: queries in any order, and overwriting one word in place *)
Inductive flavour : Type := F64 (trailing : bool) | F128.
Definition is128 (f : flavour) : bool := match f with F128 => true | _ => false end.
Definition flavours : list flavour := [F64 false; F64 true; F128].

Inductive hstep : Type :=
| HQ (f : flavour) (b i : Z)      (* query bitmap [b] at position [i] with its index of flavour [f] *)
| HSet (b k w : Z).               (* words_b[k] = w in place, then rebuild the three indexes of bitmap [b] *)

Inductive hobs : Type :=
| OQ (o : option (Z * Z))         (* (rank, bit) or a panic *)
| OT (t : option Z).              (* the trailing total of the rebuilt IndexRank64(words, true) *)

(** the list with element [k] replaced *)
Fixpoint set_nth {A} (l : list A) (k : nat) (x : A) : list A :=
  match l, k with
  | [], _ => []
  | _ :: t, O => x :: t
  | y :: t, S k' => y :: set_nth t k' x
  end.

(** the overwriting words are 64-bit words *)
Definition hstep_ok (s : hstep) : Prop := match s with HSet _ _ w => word_ok w | HQ _ _ _ => True end.

(** every query answers for the CURRENT contents of its bitmap, whatever was asked or overwritten before;
    [None] = the step names no bitmap / no word (outside the domain of the op) *)
Definition spec_hstep (st : list (list Z)) (s : hstep) : option (list (list Z) * hobs) :=
  match s with
  | HQ f b i =>
      match nthZ st b with
      | None => None
      | Some ws => Some (st, OQ (spec_query ws i))
      end
  | HSet b k w =>
      match nthZ st b with
      | None => None
      | Some ws =>
          if (0 <=? k) && (k <? zlen ws) then
            let ws' := set_nth ws (Z.to_nat k) w in
            Some (set_nth st (Z.to_nat b) ws', OT (Some (total1 ws')))
          else None
      end
  end.

Fixpoint spec_hrun (st : list (list Z)) (steps : list hstep) : option (list hobs) :=
  match steps with
  | [] => Some []
  | s :: t =>
      match spec_hstep st s with
      | None => None
      | Some (st', o) =>
          match spec_hrun st' t with
          | None => None
          | Some os => Some (o :: os)
          end
      end
  end.
