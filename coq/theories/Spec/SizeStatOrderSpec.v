(** Specification vocabulary for the ORDER of map entries in the report of size.Stat
    (C20 widening): two labelled values that are the same up to the order of the
    entries of their maps, at any depth; and the side condition under which
    that order cannot change WHICH entries are listed.  No proofs in this file. *)
From Coq Require Import ZArith List Bool Permutation.
From Low Require Import Model.Size Model.SizeStat.
Import ListNotations.
Open Scope Z_scope.

(** the same value up to the order of the entries of its maps (at any depth) *)
Inductive sim : lvalue -> lvalue -> Prop :=
| sim_scalar ty k : sim (LScalar ty k) (LScalar ty k)
| sim_string ty bs : sim (LString ty bs) (LString ty bs)
| sim_slice_nil ty : sim (LSlice ty None) (LSlice ty None)
| sim_slice ty l l' : Forall2 sim l l' -> sim (LSlice ty (Some l)) (LSlice ty (Some l'))
| sim_array ty l l' : Forall2 sim l l' -> sim (LArray ty l) (LArray ty l')
| sim_map ty kvs mid kvs' :
    Forall2 (fun e e' => fst e = fst e' /\ sim (snd e) (snd e')) kvs mid ->
    Permutation mid kvs' -> sim (LMap ty kvs) (LMap ty kvs')
| sim_ptr_nil ty : sim (LPtr ty None) (LPtr ty None)
| sim_ptr ty x x' : sim x x' -> sim (LPtr ty (Some x)) (LPtr ty (Some x'))
| sim_iface_nil ty : sim (LIface ty None) (LIface ty None)
| sim_iface ty x x' : sim x x' -> sim (LIface ty (Some x)) (LIface ty (Some x'))
| sim_struct ty fs fs' :
    Forall2 (fun e e' => fst e = fst e' /\ sim (snd e) (snd e')) fs fs' -> sim (LStruct ty fs) (LStruct ty fs')
| sim_other ty : sim (LOther ty) (LOther ty).

(** every map of the value has at most m entries *)
Fixpoint maps_le (m : Z) (v : lvalue) : bool :=
  match v with
  | LSlice _ (Some l) | LArray _ l => forallb (maps_le m) l
  | LMap _ kvs => (Z.of_nat (length kvs) <=? m) && forallb (fun e => maps_le m (snd e)) kvs
  | LPtr _ (Some x) | LIface _ (Some x) => maps_le m x
  | LStruct _ fs => forallb (fun e => maps_le m (snd e)) fs
  | _ => true
  end.

