(** What walking a flat byte string frame by frame must report (widening of C06/C07;
    see Model/PbcmplWalk.v for the program).  Nothing here knows about chunks or
    read loops.  No proofs. *)
From Coq Require Import ZArith List Bool.
From Low Require Import Lib.BitSeq Model.Pbcmpl Model.PbcmplWalk Spec.PbcmplSpec.
Import ListNotations.
Open Scope Z_scope.

Fixpoint spec_walk (fuel : nat) (s : list Z) (t : terminal) : list wstep * list Z :=
  match fuel with
  | O => ([], s)
  | S f =>
      if zlen s <? 32 then ([(zlen s, Some (end_err t (zlen s) EEOF), [], 0, 0, [], false)], [])
      else
        let ver := strip_nul (firstn 16 s) in
        let hs := as_int64 (le_val (firstn 8 (skipn 16 s))) in
        let bs := as_int64 (le_val (firstn 8 (skipn 24 s))) in
        let rest := skipn 32 s in
        if walk_refuses hs bs then ([(32, None, ver, hs, bs, [], true)], rest)
        else if zlen rest <? bs then
          ([(32, Some (end_err t (zlen rest) EEOF), ver, hs, bs, rest, false)], [])
        else
          let '(steps, lft) := spec_walk f (skipn (Z.to_nat bs) rest) t in
          ((32, None, ver, hs, bs, firstn (Z.to_nat bs) rest, false) :: steps, lft)
  end.

Definition spec_Walk (s : list Z) (t : terminal) : list wstep * list Z :=
  spec_walk (S (S (Nat.div (length s) 32))) s t.

(** on a stream of frames: header fields and the ENCODED body of each frame, then io.EOF *)
Fixpoint frames_walk (enc : list Z -> list Z) (ms : list (option (list Z) * list Z)) : list wstep :=
  match ms with
  | [] => [(0, Some EEOF, [], 0, 0, [], false)]
  | m :: ms' =>
      (32, None, ver_of (fst m), 32, zlen (enc (snd m)), enc (snd m), false) :: frames_walk enc ms'
  end.
