(** What the tables of bitmap/mask.go must contain, in closed form: the
    definitions of Lib/Bits.v that every other model of the package uses. *)
From Coq Require Import ZArith List Bool.
From Low Require Import Lib.Bits.
Import ListNotations.
Open Scope Z_scope.

Definition in_tab (n j : Z) (v : Z) : option Z := if (0 <=? j) && (j <? n) then Some v else None.

(** [Mask[j]] = j low 1-bits, [RMask[j]] = its complement in 64 bits (j <= 64);
    [MaskUpto[j]] = bits 0..j, [Bit[j]] = bit j alone, and their complements (j < 64) *)
Definition spec_mask_lookups (j : Z) : list (option Z) :=
  [in_tab 65 j (Mask j); in_tab 65 j (RMask j);
   in_tab 64 j (MaskUpto j); in_tab 64 j (RMaskUpto j);
   in_tab 64 j (Bit j); in_tab 64 j (RBit j)].
