(** Slice seen through ToArray (the observation the repository's own TestSlice makes):
    the set positions of the slice are the set positions of the input inside
    [from, to), shifted down by [from]. *)
From Coq Require Import ZArith List Bool.
From Low Require Import Lib.Bits Lib.BitSeq.
Import ListNotations.
Open Scope Z_scope.

Definition spec_SliceArray (ws : list Z) (from to : Z) : list Z :=
  map (fun p => p - from) (filter (fun p => (from <=? p) && (p <? to)) (ones (flat ws))).
